(* C01 - proofs about the conversion chain that surrounds the optimiser (Model/Recovery.v).
   Part A: one characterising lemma per generated leaf of Gen/Recovery.v (the only lemmas that look inside
           the generated text; afterwards the leaves are opaque).
   Part B: pa_limit / fix_shape.   Part C: pix2sky_ellipse o sky2pix_ellipse.   Part D: canonical forms.
   Part E: zero residual at the truth.   Part F: the box of estimate_lmfit_parinfo.   Part G: recovery. *)
From Coq Require Import Reals Lra Psatz Nsatz List.
From Coquelicot Require Import Coquelicot.
From Aegean Require Import Lib.RBase Gen.Sphere Lib.Sphere Proofs.SphereProofs Gen.Gauss Gen.Recovery
     Model.FitModel Model.Recovery.
Import ListNotations.
Open Scope R_scope.

(* ---------------------------------------------------------------------------------------- *)
(* Part A: leaves *)
Lemma ln2_pos : 0 < ln 2.
Proof. rewrite <- ln_1. apply ln_increasing; lra. Qed.
Lemma CC2FHWM_eq : CC2FHWM = 2 * sqrt (2 * ln 2).
Proof. reflexivity. Qed.
Lemma CC2FHWM_pos : 0 < CC2FHWM.
Proof. rewrite CC2FHWM_eq. pose proof ln2_pos. assert (0 < sqrt (2 * ln 2)) by (apply sqrt_lt_R0; lra). lra. Qed.
Lemma FWHM2CC_eq : FWHM2CC = 1 / CC2FHWM.
Proof. reflexivity. Qed.
Lemma FWHM2CC_pos : 0 < FWHM2CC.
Proof. rewrite FWHM2CC_eq. pose proof CC2FHWM_pos. apply Rdiv_lt_0_compat; lra. Qed.
(* standard deviation <-> FWHM are inverse conversions *)
Lemma FWHM_roundtrip x : x * FWHM2CC * CC2FHWM = x.
Proof. rewrite FWHM2CC_eq. pose proof CC2FHWM_pos. field. lra. Qed.

Definition minor_defect_pix (c m n : R * R) : R :=
  atan2 (snd m - snd c) (fst m - fst c) - (atan2 (snd n - snd c) (fst n - fst c) - PI / 2).
Lemma sky2pix_ellipse_eq S ra dec a b pa :
  sky2pix_ellipse S ra dec a b pa =
  let c := S (ra, dec) in let m := S (translate ra dec a pa) in let n := S (translate ra dec b (pa - 90)) in
  (fst c, snd c, hypot (fst c - fst m) (snd c - snd m),
   hypot (fst c - fst n) (snd c - snd n) * Rabs (cos (minor_defect_pix c m n)),
   deg (atan2 (snd m - snd c) (fst m - fst c))).
Proof. reflexivity. Qed.

Definition major_end (x y sx theta : R) : R * R := (x + sx * cos (rad theta), y + sx * sin (rad theta)).
Definition minor_end (x y sy theta : R) : R * R := (x + sy * cos (rad (theta - 90)), y + sy * sin (rad (theta - 90))).
Lemma pix2sky_ellipse_eq P x y sx sy theta :
  pix2sky_ellipse P x y sx sy theta =
  let c := P (x, y) in let m := P (major_end x y sx theta) in let n := P (minor_end x y sy theta) in
  (fst c, snd c, gcd (fst c) (snd c) (fst m) (snd m),
   gcd (fst c) (snd c) (fst n) (snd n) *
     Rabs (cos (rad (bear (fst c) (snd c) (fst m) (snd m) - (bear (fst c) (snd c) (fst n) (snd n) - 90)))),
   bear (fst c) (snd c) (fst m) (snd m)).
Proof. reflexivity. Qed.

Lemma beamarea_pix_eq a b : beamarea_pix a b = a * b * PI.
Proof. reflexivity. Qed.
Lemma fix_shape_test_eq a b : fix_shape_test a b = Rltb a b.
Proof. reflexivity. Qed.
Lemma fix_shape_pa_eq pa : fix_shape_pa pa = pa + 90.
Proof. reflexivity. Qed.
Lemma pa_lo_eq pa : pa_lo_test pa = Rleb pa (-90) /\ pa_lo_step pa = pa + 180.
Proof. split; reflexivity. Qed.
Lemma pa_hi_eq pa : pa_hi_test pa = Rltb 90 pa /\ pa_hi_step pa = pa - 180.
Proof. split; reflexivity. Qed.
(* 1-based FITS pixel = island coordinate + island offset + 1 *)
Lemma rtc_pix_eq xo yo xmin ymin : rtc_x_pix xo xmin = xo + xmin + 1 /\ rtc_y_pix yo ymin = yo + ymin + 1.
Proof. split; reflexivity. Qed.
Lemma rtc_peak_eq amp : rtc_peak amp = amp.
Proof. reflexivity. Qed.
Lemma rtc_ellipse_args_eq x y sx sy theta :
  rtc_ellipse_args x y sx sy theta = (x, y, sx * CC2FHWM, sy * CC2FHWM, theta).
Proof. reflexivity. Qed.
Lemma rtc_factor_eq : rtc_a_factor = 3600 /\ rtc_b_factor = 3600.
Proof. split; reflexivity. Qed.
Lemma rtc_ra_wrap_eq ra : rtc_ra_wrap_test ra = Rltb ra 0 /\ rtc_ra_wrapped ra = ra + 360.
Proof. split; reflexivity. Qed.
Lemma rtc_int_flux_eq peak sx sy : rtc_int_flux peak sx sy = peak * (sx * CC2FHWM) * (sy * CC2FHWM) * PI.
Proof. unfold rtc_int_flux. ring. Qed.

Definition c105 : R := IZR 4728779608739021 / IZR 4503599627370496.   (* the binary64 literal 1.05 *)
Definition c095 : R := IZR 4278419646001971 / IZR 4503599627370496.   (* the binary64 literal 0.95 *)
Lemma c105_val : 1.05 - 1/10^15 < c105 < 1.05 + 1/10^15.
Proof. unfold c105. split; lra. Qed.
Lemma c095_val : 0.95 - 1/10^15 < c095 < 0.95 + 1/10^15.
Proof. unfold c095. split; lra. Qed.
Lemma amp_is_positive_eq amp : amp_is_positive amp = Rltb 0 amp.
Proof. reflexivity. Qed.
Lemma amp_pos_bounds_eq amp rms ic oc :
  amp_min_pos amp rms ic oc = c095 * Rmin (oc * rms) amp /\ amp_max_pos amp rms ic oc = amp * c105 + ic * rms.
Proof. split; reflexivity. Qed.
Lemma amp_neg_bounds_eq amp rms ic oc :
  amp_min_neg amp rms ic oc = amp * c105 - ic * rms /\ amp_max_neg amp rms ic oc = c095 * Rmax (- oc * rms) amp.
Proof. split; reflexivity. Qed.

Definition c101 : R := IZR 4548635623644201 / IZR 4503599627370496.   (* 1.01 *)
Definition c08 : R := IZR 3602879701896397 / IZR 4503599627370496.     (* 0.8 *)
Definition c11 : R := IZR 2476979795053773 / IZR 2251799813685248.     (* 1.1 *)
Lemma c08_val : 0 < c08 < 0.8 + 1/10^15.
Proof. unfold c08. split; lra. Qed.
Definition sx_start (ba bb : R) : R := Rmax (ba * FWHM2CC) (bb * FWHM2CC * c101).
Definition size_cap (ba bb xsize ysize : R) : R :=
  Rmax ((Rmax xsize ysize + 1) * sqrt 2 * FWHM2CC) (sx_start ba bb * c11).
Lemma pos_bounds_eq xo yo ba bb xsize ysize :
  xo_bounds xo yo ba bb xsize ysize = (xo - 1/2 * hypot ba bb, xo + 1/2 * hypot ba bb) /\
  yo_bounds xo yo ba bb xsize ysize = (yo - 1/2 * hypot ba bb, yo + 1/2 * hypot ba bb).
Proof. split; reflexivity. Qed.
Lemma shape_init_eq xo yo ba bb xsize ysize :
  shape_init xo yo ba bb xsize ysize = (sx_start ba bb, bb * FWHM2CC).
Proof. reflexivity. Qed.
Lemma shape_bounds_eq xo yo ba bb xsize ysize :
  sx_bounds xo yo ba bb xsize ysize = (bb * FWHM2CC * c08, size_cap ba bb xsize ysize) /\
  sy_bounds xo yo ba bb xsize ysize = (bb * FWHM2CC * c08, size_cap ba bb xsize ysize).
Proof. split; reflexivity. Qed.

(* fitting.errors: the pixels whose sky distance is reported as err_a / err_b are the ends of the FWHM axes for sx (sy) and for
   sx + err_sx (sy + err_sy); the minor axis is taken at theta + 90 *)
Lemma err_a_pixels_eq xo yo sx sy err_sx theta :
  err_a_ref xo yo sx sy theta = major_end xo yo (sx * CC2FHWM) theta /\
  err_a_off xo yo sx sy err_sx theta = major_end xo yo ((sx + err_sx) * CC2FHWM) theta /\ err_a_factor = 3600.
Proof. repeat split; reflexivity. Qed.
Lemma err_b_pixels_eq xo yo sx sy err_sy theta :
  err_b_ref xo yo sx sy theta = major_end xo yo (sy * CC2FHWM) (theta + 90) /\
  err_b_off xo yo sx sy err_sy theta = major_end xo yo ((sy + err_sy) * CC2FHWM) (theta + 90) /\ err_b_factor = 3600.
Proof. repeat split; reflexivity. Qed.

Lemma err_axes_follow_shape_eq : err_axes_follow_shape = true.
Proof. reflexivity. Qed.
Local Opaque err_a_ref err_a_off err_a_factor err_b_ref err_b_off err_b_factor err_axes_follow_shape.
Local Opaque CC2FHWM FWHM2CC sky2pix_ellipse pix2sky_ellipse beamarea_pix fix_shape_test fix_shape_pa
      pa_lo_test pa_lo_step pa_hi_test pa_hi_step rtc_x_pix rtc_y_pix rtc_peak rtc_ellipse_args rtc_a_factor
      rtc_b_factor rtc_ra_wrap_test rtc_ra_wrapped rtc_int_flux amp_is_positive amp_min_pos amp_max_pos
      amp_min_neg amp_max_neg xo_bounds yo_bounds shape_init sx_bounds sy_bounds gcd bear translate.

(* ---------------------------------------------------------------------------------------- *)
(* Part B: pa_limit and fix_shape *)
Ltac dec_cases :=
  repeat match goal with
         | |- context [Rle_dec ?a ?b] => destruct (Rle_dec a b); try lra
         | |- context [Rlt_dec ?a ?b] => destruct (Rlt_dec a b); try lra
         end; try lra.
Ltac pa_eval :=
  unfold pa_limit, pa_fuel; cbn [while_loop];
  repeat (rewrite ?(proj1 (pa_lo_eq _)), ?(proj2 (pa_lo_eq _)), ?(proj1 (pa_hi_eq _)), ?(proj2 (pa_hi_eq _));
          unfold Rleb, Rltb; dec_cases).

Lemma pa_limit_id pa : -90 < pa <= 90 -> pa_limit pa = pa.
Proof. intros H. pa_eval. Qed.
Lemma pa_limit_up pa : 90 < pa <= 270 -> pa_limit pa = pa - 180.
Proof. intros H. pa_eval. Qed.
Lemma pa_limit_up2 pa : 270 < pa <= 450 -> pa_limit pa = pa - 360.
Proof. intros H. pa_eval. Qed.
Lemma pa_limit_down pa : -270 < pa <= -90 -> pa_limit pa = pa + 180.
Proof. intros H. pa_eval. Qed.
Lemma pa_limit_down2 pa : -450 < pa <= -270 -> pa_limit pa = pa + 360.
Proof. intros H. pa_eval. Qed.

(* on every value that can reach it (a bearing in (-180, 180], plus 90 after fix_shape) pa_limit returns the
   representative of pa modulo 180 in (-90, 90] *)
Lemma pa_limit_spec pa : -450 < pa <= 450 ->
  -90 < pa_limit pa <= 90 /\ exists k : Z, pa_limit pa = pa + 180 * IZR k.
Proof.
  intros H.
  destruct (Rle_dec pa (-270)); [rewrite pa_limit_down2 by lra; split; [lra|exists 2%Z; lra]|].
  destruct (Rle_dec pa (-90)); [rewrite pa_limit_down by lra; split; [lra|exists 1%Z; lra]|].
  destruct (Rle_dec pa 90); [rewrite pa_limit_id by lra; split; [lra|exists 0%Z; lra]|].
  destruct (Rle_dec pa 270); [rewrite pa_limit_up by lra; split; [lra|exists (-1)%Z; lra]|].
  rewrite pa_limit_up2 by lra; split; [lra|exists (-2)%Z; lra].
Qed.
Lemma pa_limit_period pa : -450 < pa <= 270 -> pa_limit (pa + 180) = pa_limit pa.
Proof.
  intros H.
  destruct (Rle_dec pa (-270)); [rewrite (pa_limit_down2 pa), (pa_limit_down (pa + 180)) by lra; lra|].
  destruct (Rle_dec pa (-90)); [rewrite (pa_limit_down pa), (pa_limit_id (pa + 180)) by lra; lra|].
  destruct (Rle_dec pa 90); [rewrite (pa_limit_id pa), (pa_limit_up (pa + 180)) by lra; lra|].
  rewrite (pa_limit_up pa), (pa_limit_up2 (pa + 180)) by lra; lra.
Qed.

Lemma fix_shape_keep a b pa : b <= a -> fix_shape a b pa = (a, b, pa).
Proof. intros H. unfold fix_shape. rewrite fix_shape_test_eq. unfold Rltb. dec_cases. reflexivity. Qed.
Lemma fix_shape_swap a b pa : a < b -> fix_shape a b pa = (b, a, pa + 90).
Proof. intros H. unfold fix_shape. rewrite fix_shape_test_eq, fix_shape_pa_eq. unfold Rltb. dec_cases. reflexivity. Qed.

(* the reported shape: fix_shape then pa_limit *)
Definition canon (a b pa : R) : R * R * R := let f := fix_shape a b pa in (fst (fst f), snd (fst f), pa_limit (snd f)).
Lemma canon_ordered a b pa : -450 < pa <= 360 -> let k := canon a b pa in
  snd (fst k) <= fst (fst k) /\ -90 < snd k <= 90.
Proof.
  intros H. cbv zeta. unfold canon. destruct (Rlt_dec a b) as [Hab|Hab].
  - rewrite fix_shape_swap by assumption. cbn [fst snd]. split; [lra|]. apply pa_limit_spec. lra.
  - rewrite fix_shape_keep by lra. cbn [fst snd]. split; [lra|]. apply pa_limit_spec. lra.
Qed.
(* the three other parameterisations of the same ellipse give the same reported shape *)
Lemma canon_half a b pa : -450 < pa <= 180 -> canon a b (pa + 180) = canon a b pa.
Proof.
  intros H. unfold canon. destruct (Rlt_dec a b) as [Hab|Hab].
  - rewrite !fix_shape_swap by assumption. cbn [fst snd]. f_equal.
    replace (pa + 180 + 90) with (pa + 90 + 180) by ring. apply pa_limit_period. lra.
  - rewrite !fix_shape_keep by lra. cbn [fst snd]. f_equal. apply pa_limit_period. lra.
Qed.
Lemma canon_swap_down a b pa : b < a -> -360 < pa <= 270 -> canon b a (pa - 90) = canon a b pa.
Proof.
  intros Hab H. unfold canon. rewrite fix_shape_swap by assumption. rewrite fix_shape_keep by lra. cbn [fst snd].
  f_equal. f_equal. ring.
Qed.
Lemma canon_swap_up a b pa : b < a -> -450 < pa <= 90 -> canon b a (pa + 90) = canon a b pa.
Proof.
  intros Hab H. unfold canon. rewrite fix_shape_swap by assumption. rewrite fix_shape_keep by lra. cbn [fst snd].
  f_equal. replace (pa + 90 + 90) with (pa + 180) by ring. apply pa_limit_period. lra.
Qed.

(* ---------------------------------------------------------------------------------------- *)
(* Part C: result_to_components o injection = identity *)
Lemma hypot_flip a b c d : hypot (a - b) (c - d) = hypot (b - a) (d - c).
Proof. unfold hypot. f_equal. ring. Qed.
Lemma Rabs_le_inv' x a : Rabs x <= a -> - a <= x <= a.
Proof. unfold Rabs. destruct (Rcase_abs x); lra. Qed.
Lemma hypot_nonneg a b : 0 <= hypot a b.
Proof. unfold hypot. apply sqrt_pos. Qed.
(* a pixel offset is its length times the unit vector of its direction *)
Lemma polar_offset dx dy : hypot dx dy * cos (atan2 dy dx) = dx /\ hypot dx dy * sin (atan2 dy dx) = dy.
Proof.
  unfold hypot. destruct (Req_dec dx 0) as [Hx|Hx]; [destruct (Req_dec dy 0) as [Hy|Hy]|].
  - subst. replace (0 * 0 + 0 * 0) with 0 by ring. rewrite sqrt_0. split; ring.
  - split; [apply cos_atan2 | apply sin_atan2]; right; assumption.
  - split; [apply cos_atan2 | apply sin_atan2]; left; assumption.
Qed.

(* the sky point that pix2sky_ellipse obtains for the end of the fitted minor axis, and the minor axis (degrees) it derives *)
Definition minor_sky_point (P S : R * R -> R * R) (s : source) : R * R :=
  let e := pixel_ellipse S s in P (minor_end (t5_1 e) (t5_2 e) (t5_4 e) (t5_5 e)).
Definition minor_raw (P S : R * R -> R * R) (s : source) : R :=
  let q := minor_sky_point P S s in
  gcd (s_ra s) (s_dec s) (fst q) (snd q) * Rabs (cos (rad (s_pa s - (bear (s_ra s) (s_dec s) (fst q) (snd q) - 90)))).

Section Inverse.
  Variables P S : R * R -> R * R.
  Variables psf_a psf_b bmaj bmin : R.
  Variable s : source.
  Variables xmin ymin : R.
  Let ra := s_ra s.  Let dec := s_dec s.  Let a := s_a s / 3600.  Let b := s_b s / 3600.  Let pa := s_pa s.
  Let c := S (ra, dec).
  Let m := S (translate ra dec a pa).
  Let n := S (translate ra dec b (pa - 90)).
  Let sxF := hypot (fst c - fst m) (snd c - snd m).
  Let theta := atan2 (snd m - snd c) (fst m - fst c).
  Let syF := hypot (fst c - fst n) (snd c - snd n) * Rabs (cos (minor_defect_pix c m n)).
  Let q := minor_sky_point P S s.
  Lemma q_eq : q = P (minor_end (fst c) (snd c) syF (deg theta)).
  Proof. unfold q, minor_sky_point, pixel_ellipse. rewrite sky2pix_ellipse_eq. reflexivity. Qed.

  Lemma render_eq : render S s = mkComp (s_peak s) (fst c - 1) (snd c - 1) (sxF * FWHM2CC) (syF * FWHM2CC) (deg theta).
  Proof. unfold render, pixel_ellipse. rewrite sky2pix_ellipse_eq. reflexivity. Qed.

  (* +xmin +1 undoes -1 -xmin; CC2FHWM undoes FWHM2CC: result_to_components queries the WCS at the pixel ellipse
     of the source *)
  Lemma sky_ellipse_truth :
    sky_ellipse P (params_of (render S s) xmin ymin) xmin ymin = pix2sky_ellipse P (fst c) (snd c) sxF syF (deg theta).
  Proof.
    rewrite render_eq. unfold sky_ellipse, params_of. cbn [c_amp c_xo c_yo c_sx c_sy c_theta].
    destruct (rtc_pix_eq (fst c - 1 - xmin) (snd c - 1 - ymin) xmin ymin) as [-> ->]. rewrite rtc_ellipse_args_eq.
    unfold t5_1, t5_2, t5_3, t5_4, t5_5. cbn [fst snd]. rewrite !FWHM_roundtrip. f_equal; ring.
  Qed.

  (* the WCS round trip at the two sky points that matter: the centre and the end of the major axis *)
  Hypothesis PS_centre : P (S (ra, dec)) = (ra, dec).
  Hypothesis PS_major : P (S (translate ra dec a pa)) = translate ra dec a pa.
  Hypothesis Hdec : -90 < dec < 90.
  Hypothesis Hmajor_dec : -90 < snd (translate ra dec a pa) < 90.      (* the major axis does not reach a pole *)
  Hypothesis Ha : 0 < a < 180.
  Hypothesis Hpa : -90 < pa <= 90.

  Lemma major_end_truth : major_end (fst c) (snd c) sxF (deg theta) = m.
  Proof.
    unfold major_end. rewrite rad_deg. unfold sxF. rewrite hypot_flip. unfold theta.
    destruct (polar_offset (fst m - fst c) (snd m - snd c)) as [-> ->].
    rewrite (surjective_pairing m) at 3. f_equal; ring.
  Qed.

  Lemma pix2sky_truth : pix2sky_ellipse P (fst c) (snd c) sxF syF (deg theta) = (ra, dec, a, minor_raw P S s, pa).
  Proof.
    assert (Hc : P (fst c, snd c) = (ra, dec)) by (rewrite <- surjective_pairing; exact PS_centre).
    assert (Hm : P m = translate ra dec a pa) by exact PS_major.
    rewrite pix2sky_ellipse_eq. cbv zeta. rewrite major_end_truth, Hc, Hm. cbn [fst snd]. rewrite <- q_eq. unfold minor_raw. fold q ra dec pa.
    rewrite (translate_gcd ra dec a pa Hdec Hmajor_dec Ha).
    rewrite (translate_bear ra dec a pa Hdec Hmajor_dec Ha) by lra.
    reflexivity.
  Qed.

  Hypothesis Hra : 0 <= ra.
  (* premise of the next three lemmas: fix_shape does not swap, i.e. the minor axis obtained from the sky point q does not
     exceed the injected major axis *)

  Lemma to_component_truth : minor_raw P S s * 3600 <= s_a s ->
    to_component P psf_a psf_b (params_of (render S s) xmin ymin) xmin ymin =
    mkComponent ra dec (s_peak s) (s_a s) (minor_raw P S s * 3600) pa
                (s_peak s * sxF * syF * PI / (psf_a * psf_b * PI)).
  Proof.
    intros Hminor_le. unfold to_component. rewrite sky_ellipse_truth, pix2sky_truth.
    unfold finish_component, t5_1, t5_2, t5_3, t5_4, t5_5. cbn [fst snd].
    rewrite (proj1 rtc_factor_eq), (proj2 rtc_factor_eq).
    replace (a * 3600) with (s_a s) by (unfold a; field).
    rewrite fix_shape_keep by assumption. cbn [fst snd].
    rewrite pa_limit_id by assumption.
    rewrite (proj1 (rtc_ra_wrap_eq _)). unfold Rltb. destruct (Rlt_dec ra 0) as [Hn|_]; [lra|].
    rewrite render_eq. unfold params_of. cbn [c_amp c_sx c_sy]. rewrite rtc_peak_eq, rtc_int_flux_eq, beamarea_pix_eq.
    rewrite !FWHM_roundtrip. reflexivity.
  Qed.

  (* position, peak flux, major axis and position angle are returned exactly *)
  Lemma conversion_inverse : minor_raw P S s * 3600 <= s_a s ->
    let k := to_component P psf_a psf_b (params_of (render S s) xmin ymin) xmin ymin in
    k_ra k = s_ra s /\ k_dec k = s_dec s /\ k_peak k = s_peak s /\ k_a k = s_a s /\ k_pa k = s_pa s.
  Proof. intros Hle. cbv zeta. rewrite (to_component_truth Hle). cbn. repeat split; reflexivity. Qed.

  (* the minor axis never exceeds the angular distance of the sky point q found at the end of the fitted minor axis,
     and falls short of it by the factor |cos defect| *)
  Lemma minor_bound : minor_raw P S s * 3600 <= s_a s ->
    let k := to_component P psf_a psf_b (params_of (render S s) xmin ymin) xmin ymin in
    let dq := gcd ra dec (fst q) (snd q) * 3600 in
    let defect := pa - (bear ra dec (fst q) (snd q) - 90) in
    k_b k = dq * Rabs (cos (rad defect)) /\ k_b k <= dq /\ dq - k_b k = dq * (1 - Rabs (cos (rad defect))).
  Proof.
    intros Hle. cbv zeta. rewrite (to_component_truth Hle). cbn [k_b]. unfold minor_raw. fold q ra dec pa.
    set (g := gcd ra dec (fst q) (snd q)). set (cc := Rabs (cos _)).
    assert (Hg : 0 <= g) by (apply gcd_range).
    assert (Hc : 0 <= cc <= 1).
    { unfold cc. split; [apply Rabs_pos|]. apply Rabs_le. pose proof (COS_bound (rad (pa - (bear ra dec (fst q) (snd q) - 90)))). lra. }
    split; [ring|]. split; [nra|ring].
  Qed.

  (* ---- conformal, locally point-symmetric WCS at the source *)
  (* the image of the sky minor axis is perpendicular to the image of the major axis (no defect) ... *)
  Hypothesis Hperp : minor_defect_pix c m n = 0.
  (* ... and the WCS maps the reflection (through the centre) of the image of the minor-axis end at position angle
     pa - 90 to the minor-axis end at position angle pa + 90 *)
  Hypothesis Hsym : P (2 * fst c - fst n, 2 * snd c - snd n) = translate ra dec b (pa + 90).
  Hypothesis Hminor_dec : -90 < snd (translate ra dec b (pa + 90)) < 90.
  Hypothesis Hb : 0 < b <= a.

  Lemma minor_end_truth : minor_end (fst c) (snd c) syF (deg theta) = (2 * fst c - fst n, 2 * snd c - snd n).
  Proof.
    unfold minor_end, syF. rewrite Hperp, cos_0, Rabs_R1, Rmult_1_r.
    replace (rad (deg theta - 90)) with (theta - PI / 2) by (unfold rad, deg; field; apply PI_neq0).
    assert (Ht : theta - PI / 2 = atan2 (snd n - snd c) (fst n - fst c) - PI).
    { unfold minor_defect_pix in Hperp. fold theta in Hperp. lra. }
    rewrite Ht, cos_minus, sin_minus, cos_PI, sin_PI, hypot_flip.
    destruct (polar_offset (fst n - fst c) (snd n - snd c)) as [Hc Hs].
    set (H := hypot (fst n - fst c) (snd n - snd c)) in *. set (A := atan2 (snd n - snd c) (fst n - fst c)) in *.
    f_equal.
    - transitivity (fst c - H * cos A); [ring | rewrite Hc; ring].
    - transitivity (snd c - H * sin A); [ring | rewrite Hs; ring].
  Qed.

  Lemma minor_raw_conformal : minor_raw P S s = b.
  Proof.
    unfold minor_raw. fold q ra dec pa. rewrite q_eq, minor_end_truth, Hsym.
    rewrite (translate_gcd ra dec b (pa + 90) Hdec Hminor_dec) by lra.
    rewrite (translate_bear ra dec b (pa + 90) Hdec Hminor_dec) by lra.
    replace (pa - (pa + 90 - 90)) with 0 by ring. rewrite rad_0, cos_0, Rabs_R1. ring.
  Qed.

  (* ---- one linear scale (pixels per degree) at the source and at the reference pixel, where the pixel beam is computed *)
  Variable scale : R.
  Hypothesis Hscale : 0 < scale /\ t5_3 (pixel_ellipse S s) = scale * a /\ t5_4 (pixel_ellipse S s) = scale * b /\
                      psf_a = scale * bmaj /\ psf_b = scale * bmin /\ 0 < bmaj /\ 0 < bmin.

  Lemma conversion_inverse_conformal :
    to_component P psf_a psf_b (params_of (render S s) xmin ymin) xmin ymin = injected bmaj bmin s.
  Proof.
    assert (Hle : minor_raw P S s * 3600 <= s_a s).
    { rewrite minor_raw_conformal. unfold a, b in *. lra. }
    rewrite (to_component_truth Hle). rewrite minor_raw_conformal. unfold injected, injected_int_flux.
    destruct Hscale as (Hk & H3 & H4 & -> & -> & Hbj & Hbn).
    assert (E3 : sxF = scale * a) by (rewrite <- H3; unfold pixel_ellipse; rewrite sky2pix_ellipse_eq; reflexivity).
    assert (E4 : syF = scale * b) by (rewrite <- H4; unfold pixel_ellipse; rewrite sky2pix_ellipse_eq; reflexivity).
    rewrite E3, E4. fold ra dec pa. f_equal; [unfold b; field|].
    fold a b. pose proof PI_RGT_0. field. repeat split; lra.
  Qed.
End Inverse.

(* ---------------------------------------------------------------------------------------- *)
(* Part D: the parameterisations an optimiser may equally return *)
Lemma minor_is_major x y s t : minor_end x y s t = major_end x y s (t - 90).
Proof. reflexivity. Qed.
Lemma major_end_period x y s t : major_end x y s (t + 360) = major_end x y s t.
Proof.
  unfold major_end. replace (rad (t + 360)) with (rad t + 2 * PI) by (unfold rad; field).
  rewrite cos_plus, sin_plus, cos_2PI, sin_2PI. f_equal; ring.
Qed.
(* theta is only defined modulo 360: exact for every WCS *)
Lemma pix2sky_period P x y sx sy theta :
  pix2sky_ellipse P x y sx sy (theta + 360) = pix2sky_ellipse P x y sx sy theta.
Proof.
  rewrite !pix2sky_ellipse_eq. rewrite !minor_is_major.
  replace (theta + 360 - 90) with (theta - 90 + 360) by ring. rewrite !major_end_period. reflexivity.
Qed.

(* a bearing as bear returns it *)
Definition nb (phi : R) : R := if Rle_dec phi 180 then phi else phi - 360.
Lemma translate_bear_any ra dec r phi : -90 < dec < 90 -> 0 < r < 180 -> -180 < phi < 360 ->
  let q := translate ra dec r phi in -90 < snd q < 90 ->
  gcd ra dec (fst q) (snd q) = r /\ bear ra dec (fst q) (snd q) = nb phi.
Proof.
  intros Hdec Hr Hphi q Hq. destruct (c17_translate ra dec r phi Hr Hdec Hq) as (Hg & Hb1 & Hb2).
  split; [exact Hg|]. unfold nb. destruct (Rle_dec phi 180); [apply Hb1|apply Hb2]; lra.
Qed.

Section Canonical.
  Variable P : R * R -> R * R.
  Variables x y ra dec : R.
  Hypothesis Hc : P (x, y) = (ra, dec).
  Hypothesis Hdec : -90 < dec < 90.

  (* the generic step: what pix2sky_ellipse returns when the two queried pixels are known sky offsets *)
  Lemma pix2sky_at s1 s2 t r1 r2 phi1 phi2 :
    P (major_end x y s1 t) = translate ra dec r1 phi1 -> P (major_end x y s2 (t - 90)) = translate ra dec r2 phi2 ->
    0 < r1 < 180 -> 0 < r2 < 180 -> -180 < phi1 < 360 -> -180 < phi2 < 360 ->
    -90 < snd (translate ra dec r1 phi1) < 90 -> -90 < snd (translate ra dec r2 phi2) < 90 ->
    pix2sky_ellipse P x y s1 s2 t = (ra, dec, r1, r2 * Rabs (cos (rad (nb phi1 - (nb phi2 - 90)))), nb phi1).
  Proof.
    intros H1 H2 Hr1 Hr2 Hp1 Hp2 Hd1 Hd2. rewrite pix2sky_ellipse_eq. cbv zeta. rewrite minor_is_major, Hc, H1, H2. cbn [fst snd].
    destruct (translate_bear_any ra dec r1 phi1 Hdec Hr1 Hp1 Hd1) as [-> ->].
    destruct (translate_bear_any ra dec r2 phi2 Hdec Hr2 Hp2 Hd2) as [-> ->]. reflexivity.
  Qed.

  (* a WCS that is, at this pixel, conformal and point-symmetric on the four ends of the axes of the pixel ellipse
     (sxF, syF, theta): they are the ends of the axes of the sky ellipse (a, b, pa) *)
  Variables sxF syF theta a b pa : R.
  Hypothesis E0 : P (major_end x y sxF theta) = translate ra dec a pa.
  Hypothesis E2 : P (major_end x y sxF (theta + 180)) = translate ra dec a (pa + 180).
  Hypothesis E3 : P (major_end x y syF (theta - 90)) = translate ra dec b (pa + 90).
  Hypothesis E1 : P (major_end x y syF (theta + 90)) = translate ra dec b (pa - 90).
  Hypothesis Ha : 0 < a < 180.
  Hypothesis Hb : 0 < b < 180.
  Hypothesis Hpa : -90 < pa <= 90.
  Hypothesis D0 : -90 < snd (translate ra dec a pa) < 90.
  Hypothesis D2 : -90 < snd (translate ra dec a (pa + 180)) < 90.
  Hypothesis D3 : -90 < snd (translate ra dec b (pa + 90)) < 90.
  Hypothesis D1 : -90 < snd (translate ra dec b (pa - 90)) < 90.

  Lemma cos_full k : k = 0 \/ k = 360 \/ k = -360 -> Rabs (cos (rad k)) = 1.
  Proof.
    intros [->|[->| ->]].
    - rewrite rad_0, cos_0. apply Rabs_R1.
    - replace (rad 360) with (2 * PI) by (unfold rad; field). rewrite cos_2PI. apply Rabs_R1.
    - replace (rad (-360)) with (- (2 * PI)) by (unfold rad; field). rewrite cos_neg, cos_2PI. apply Rabs_R1.
  Qed.

  Lemma p2s_refl : pix2sky_ellipse P x y sxF syF theta = (ra, dec, a, b, pa).
  Proof.
    rewrite (pix2sky_at sxF syF theta a b pa (pa + 90) E0 E3) by (assumption || lra).
    unfold nb. destruct (Rle_dec pa 180); [|lra]. destruct (Rle_dec (pa + 90) 180); [|lra].
    rewrite cos_full by (left; ring). f_equal. f_equal. ring.
  Qed.
  Lemma p2s_half : exists pa', pix2sky_ellipse P x y sxF syF (theta + 180) = (ra, dec, a, b, pa') /\
                               (pa' = pa + 180 \/ pa' = pa - 180).
  Proof.
    assert (E1' : P (major_end x y syF (theta + 180 - 90)) = translate ra dec b (pa - 90))
      by (replace (theta + 180 - 90) with (theta + 90) by ring; exact E1).
    rewrite (pix2sky_at sxF syF (theta + 180) a b (pa + 180) (pa - 90) E2 E1') by (assumption || lra).
    unfold nb. destruct (Rle_dec (pa - 90) 180); [|lra]. destruct (Rle_dec (pa + 180) 180).
    - exists (pa + 180). split; [|left; reflexivity]. rewrite cos_full by (right; left; ring). f_equal. f_equal. ring.
    - exists (pa - 180). split; [|right; reflexivity]. rewrite cos_full by (left; ring).
      replace (pa + 180 - 360) with (pa - 180) by ring. f_equal. f_equal. ring.
  Qed.
  Lemma p2s_swap_up : pix2sky_ellipse P x y syF sxF (theta + 90) = (ra, dec, b, a, pa - 90).
  Proof.
    assert (E0' : P (major_end x y sxF (theta + 90 - 90)) = translate ra dec a pa)
      by (replace (theta + 90 - 90) with theta by ring; exact E0).
    rewrite (pix2sky_at syF sxF (theta + 90) b a (pa - 90) pa E1 E0') by (assumption || lra).
    unfold nb. destruct (Rle_dec pa 180); [|lra]. destruct (Rle_dec (pa - 90) 180); [|lra].
    rewrite cos_full by (left; ring). f_equal. f_equal. ring.
  Qed.
  Lemma p2s_swap_down : exists d, pix2sky_ellipse P x y syF sxF (theta - 90) = (ra, dec, b, a, pa + 90) /\ d = 0.
  Proof.
    exists 0. split; [|reflexivity].
    assert (E2' : P (major_end x y sxF (theta - 90 - 90)) = translate ra dec a (pa + 180)).
    { rewrite <- (major_end_period x y sxF (theta - 90 - 90)). replace (theta - 90 - 90 + 360) with (theta + 180) by ring. exact E2. }
    rewrite (pix2sky_at syF sxF (theta - 90) b a (pa + 90) (pa + 180) E3 E2') by (assumption || lra).
    unfold nb. destruct (Rle_dec (pa + 90) 180); [|lra]. destruct (Rle_dec (pa + 180) 180).
    - rewrite cos_full by (left; ring). f_equal. f_equal. ring.
    - rewrite cos_full by (right; left; ring). f_equal. f_equal. ring.
  Qed.
  (* ---- component level *)
  Variables psf_a psf_b xmin ymin amp : R.
  Hypothesis Hab : b < a.
  Let c0 := mkComp amp (x - 1 - xmin) (y - 1 - ymin) (sxF * FWHM2CC) (syF * FWHM2CC) theta.

  Lemma sky_ellipse_any sx sy t :
    sky_ellipse P (mkComp amp (x - 1 - xmin) (y - 1 - ymin) (sx * FWHM2CC) (sy * FWHM2CC) t) xmin ymin = pix2sky_ellipse P x y sx sy t.
  Proof.
    unfold sky_ellipse. cbn [c_amp c_xo c_yo c_sx c_sy c_theta].
    destruct (rtc_pix_eq (x - 1 - xmin) (y - 1 - ymin) xmin ymin) as [-> ->]. rewrite rtc_ellipse_args_eq.
    unfold t5_1, t5_2, t5_3, t5_4, t5_5. cbn [fst snd]. rewrite !FWHM_roundtrip. f_equal; ring.
  Qed.
  Lemma finish_canon k1 k2 k3 k4 k5 peak flux :
    finish_component (k1, k2, k3, k4, k5) peak flux =
    let f := canon (k3 * 3600) (k4 * 3600) k5 in
    mkComponent (if Rltb k1 0 then k1 + 360 else k1) k2 peak (fst (fst f)) (snd (fst f)) (snd f) flux.
  Proof.
    unfold finish_component, canon, t5_1, t5_2, t5_3, t5_4, t5_5. cbn [fst snd].
    rewrite (proj1 rtc_factor_eq), (proj2 rtc_factor_eq), (proj1 (rtc_ra_wrap_eq _)), (proj2 (rtc_ra_wrap_eq _)). reflexivity.
  Qed.

  Lemma same_gaussian_same_component r : same_gaussian c0 r ->
    to_component P psf_a psf_b r xmin ymin = to_component P psf_a psf_b c0 xmin ymin.
  Proof.
    intros Hr. assert (H0 : to_component P psf_a psf_b c0 xmin ymin =
      finish_component (ra, dec, a, b, pa) amp (rtc_int_flux amp (sxF * FWHM2CC) (syF * FWHM2CC) / beamarea_pix psf_a psf_b)).
    { unfold to_component, c0. rewrite sky_ellipse_any, p2s_refl. cbn [c_amp c_sx c_sy]. rewrite rtc_peak_eq. reflexivity. }
    rewrite H0. destruct Hr; unfold c0; cbn [c_amp c_xo c_yo c_sx c_sy c_theta].
    - exact H0.
    - unfold to_component. cbn [c_amp c_xo c_yo c_sx c_sy c_theta]. rewrite sky_ellipse_any, rtc_peak_eq.
      destruct p2s_half as (pa' & -> & Hpa'). rewrite !finish_canon. cbv zeta.
      destruct Hpa' as [-> | ->].
      + rewrite canon_half by lra. reflexivity.
      + rewrite <- (canon_half (a * 3600) (b * 3600) (pa - 180)) by lra. replace (pa - 180 + 180) with pa by ring. reflexivity.
    - unfold to_component. cbn [c_amp c_xo c_yo c_sx c_sy c_theta]. rewrite sky_ellipse_any, rtc_peak_eq, p2s_swap_up.
      rewrite !finish_canon. cbv zeta. rewrite canon_swap_down by lra.
      rewrite !rtc_int_flux_eq. replace (amp * (syF * FWHM2CC * CC2FHWM) * (sxF * FWHM2CC * CC2FHWM)) with
          (amp * (sxF * FWHM2CC * CC2FHWM) * (syF * FWHM2CC * CC2FHWM)) by ring. reflexivity.
    - unfold to_component. cbn [c_amp c_xo c_yo c_sx c_sy c_theta]. rewrite sky_ellipse_any, rtc_peak_eq.
      destruct p2s_swap_down as (d & -> & _).
      rewrite !finish_canon. cbv zeta. rewrite canon_swap_up by lra.
      rewrite !rtc_int_flux_eq. replace (amp * (syF * FWHM2CC * CC2FHWM) * (sxF * FWHM2CC * CC2FHWM)) with
          (amp * (sxF * FWHM2CC * CC2FHWM) * (syF * FWHM2CC * CC2FHWM)) by ring. reflexivity.
  Qed.
End Canonical.

(* ---------------------------------------------------------------------------------------- *)
(* Part E: the residual handed to the optimiser vanishes at the truth *)
(* characterising lemmas of the generated Gaussian (the only ones here that look inside Gen/Gauss.v) *)
Definition qform (dx dy sx sy theta : R) : R :=
  (dx * cos (rad theta) + dy * sin (rad theta)) ^ 2 / sx ^ 2 + (dx * sin (rad theta) - dy * cos (rad theta)) ^ 2 / sy ^ 2.
Lemma gauss_eq x y amp xo yo sx sy theta :
  gauss x y amp xo yo sx sy theta = amp * exp (- qform (x - xo) (y - yo) sx sy theta / 2).
Proof. unfold gauss, qform. cbv zeta. f_equal. f_equal.
  match goal with |- ?E * _ = _ => generalize E end. intros E. lra. Qed.
Local Opaque gauss.
Lemma gauss_shift c xmin ymin x y : gauss_c (params_of c xmin ymin) (x - xmin) (y - ymin) = gauss_c c x y.
Proof.
  unfold gauss_c, params_of. cbn [c_amp c_xo c_yo c_sx c_sy c_theta]. rewrite !gauss_eq.
  replace (x - xmin - (c_xo c - xmin)) with (x - c_xo c) by ring.
  replace (y - ymin - (c_yo c - ymin)) with (y - c_yo c) by ring. reflexivity.
Qed.
Lemma model_shift cs xmin ymin x y :
  model (map (fun c => params_of c xmin ymin) cs) (x - xmin) (y - ymin) = model cs x y.
Proof.
  induction cs as [|c r IH]; [reflexivity|]. unfold model in *. cbn [map fold_right]. rewrite IH, gauss_shift. reflexivity.
Qed.
Lemma lin_residual_zero pts f :
  (forall x y d w, In (x, y, d, w) pts -> d = f x y) -> lin_residual pts f = 0.
Proof.
  induction pts as [|[[[x y] d] w] r IH]; intros H; [reflexivity|].
  cbn [lin_residual fold_right]. fold (lin_residual r f). rewrite IH by (intros x0 y0 d0 w0 H0; apply (H x0 y0 d0 w0); right; assumption).
  rewrite (H x y d w) by (left; reflexivity). ring.
Qed.
(* island pixels (i, j) with weights w (any mask, any row of any whitening matrix / noise scaling); the island holds the
   image at (i + xmin, j + ymin); the model is evaluated in island coordinates *)
Definition island_pts (S : R * R -> R * R) (srcs : list source) (xmin ymin : R) (pix : list (R * R * R)) : list (R * R * R * R) :=
  map (fun p => let '(i, j, w) := p in (i, j, image_of S srcs (i + xmin) (j + ymin), w)) pix.
Lemma truth_zero_residual S srcs xmin ymin pix :
  lin_residual (island_pts S srcs xmin ymin pix) (model (map (fun s => params_of (render S s) xmin ymin) srcs)) = 0.
Proof.
  apply lin_residual_zero. intros x y d w Hin. unfold island_pts in Hin. apply in_map_iff in Hin.
  destruct Hin as ([[i j] w'] & Heq & _). injection Heq as <- <- <- <-.
  unfold image_of. rewrite <- (model_shift (map (render S) srcs) xmin ymin (i + xmin) (j + ymin)).
  rewrite map_map. f_equal; ring.
Qed.

(* ---------------------------------------------------------------------------------------- *)
(* Part F: the box of estimate_lmfit_parinfo and the truth *)
Lemma qform_nonneg dx dy sx sy theta : sx <> 0 -> sy <> 0 -> 0 <= qform dx dy sx sy theta.
Proof.
  intros Hx Hy. unfold qform. apply Rplus_le_le_0_compat; apply Rmult_le_pos;
    try (apply pow2_ge_0); left; apply Rinv_0_lt_compat; apply pow2_gt_0; assumption.
Qed.
(* the sub-pixel attenuation: value of the unit-amplitude Gaussian at the peak pixel *)
Definition atten (c : comp) (px py : R) : R := exp (- qform (px - c_xo c) (py - c_yo c) (c_sx c) (c_sy c) (c_theta c) / 2).
Lemma atten_range c px py : c_sx c <> 0 -> c_sy c <> 0 -> 0 < atten c px py <= 1.
Proof.
  intros Hx Hy. unfold atten. split; [apply exp_pos|]. rewrite <- exp_0.
  pose proof (qform_nonneg (px - c_xo c) (py - c_yo c) (c_sx c) (c_sy c) (c_theta c) Hx Hy).
  destruct (Req_dec (qform (px - c_xo c) (py - c_yo c) (c_sx c) (c_sy c) (c_theta c)) 0) as [->|Hn].
  - right. f_equal. lra.
  - left. apply exp_increasing. lra.
Qed.
Lemma peak_pixel_value c px py : gauss_c c px py = c_amp c * atten c px py.
Proof. unfold gauss_c, atten. apply gauss_eq. Qed.

(* amplitude: the box contains the true amplitude EXACTLY WHEN  amp * (1 - 1.05 g) <= innerclip * rms,
   g = atten = peak pixel / true amplitude *)
Lemma amp_in_box_iff u c : 0 < c_amp c -> c_sx c <> 0 -> c_sy c <> 0 -> 0 <= u_rms u -> 0 <= u_oc u ->
  u_pk u = gauss_c c (u_px u) (u_py u) ->
  (within (amp_bounds u) (c_amp c) <-> c_amp c * (1 - c105 * atten c (u_px u) (u_py u)) <= u_ic u * u_rms u).
Proof.
  intros Ha Hx Hy Hrms Hoc Hpk. rewrite peak_pixel_value in Hpk.
  pose proof (atten_range c (u_px u) (u_py u) Hx Hy) as [Hg0 Hg1]. set (g := atten c (u_px u) (u_py u)) in *.
  assert (Hpos : 0 < u_pk u) by (rewrite Hpk; apply Rmult_lt_0_compat; assumption).
  unfold within, amp_bounds. rewrite amp_is_positive_eq. unfold Rltb. destruct (Rlt_dec 0 (u_pk u)) as [_|Hn]; [|lra].
  cbn [fst snd]. destruct (amp_pos_bounds_eq (u_pk u) (u_rms u) (u_ic u) (u_oc u)) as [-> ->].
  pose proof c095_val as Hc95. pose proof (Rmin_r (u_oc u * u_rms u) (u_pk u)) as Hmin.
  assert (Hlow : c095 * Rmin (u_oc u * u_rms u) (u_pk u) <= c_amp c).
  { assert (u_pk u <= c_amp c) by (rewrite Hpk; nra). nra. }
  assert (Heq : c_amp c * (1 - c105 * g) = c_amp c - c105 * u_pk u) by (rewrite Hpk; ring).
  rewrite Heq. split.
  - intros [_ Hup]. lra.
  - intros Hcond. split; [exact Hlow|lra].
Qed.

(* the quadratic form lies between the two circular ones *)
Lemma qform_bounds dx dy sx sy theta : 0 < sy <= sx ->
  (dx * dx + dy * dy) / sx ^ 2 <= qform dx dy sx sy theta <= (dx * dx + dy * dy) / sy ^ 2.
Proof.
  intros [Hy Hyx]. unfold qform. pose proof (sin2_cos2 (rad theta)) as Hsc. unfold Rsqr in Hsc.
  set (s := sin (rad theta)) in *. set (c := cos (rad theta)) in *.
  set (u := dx * c + dy * s). set (v := dx * s - dy * c).
  assert (Huv : dx * dx + dy * dy = u ^ 2 + v ^ 2).
  { unfold u, v. transitivity ((dx * dx + dy * dy) * (s * s + c * c)); [rewrite Hsc; ring | ring]. }
  rewrite Huv. assert (Hx : 0 < sx) by lra.
  assert (Hix : 0 < / sx ^ 2) by (apply Rinv_0_lt_compat, pow_lt; assumption).
  assert (Hiy : 0 < / sy ^ 2) by (apply Rinv_0_lt_compat, pow_lt; assumption).
  assert (Hle : / sx ^ 2 <= / sy ^ 2) by (apply Rinv_le_contravar; [apply pow_lt; assumption | nra]).
  pose proof (pow2_ge_0 u). pose proof (pow2_ge_0 v). unfold Rdiv. split; nra.
Qed.

(* position: if the peak pixel is at least as bright as a pixel within half a pixel of the centre (there always is
   one) then it lies within (sx / sy) / sqrt 2 of the centre, hence inside the position box as soon as
   2 sx^2 <= sy^2 (ba^2 + bb^2) *)
Lemma position_in_box u c kx ky : 0 < c_amp c -> 0 < c_sy c <= c_sx c ->
  Rabs (kx - c_xo c) <= 1 / 2 -> Rabs (ky - c_yo c) <= 1 / 2 ->
  gauss_c c kx ky <= gauss_c c (u_px u) (u_py u) ->
  2 * c_sx c ^ 2 <= c_sy c ^ 2 * (u_ba u ^ 2 + u_bb u ^ 2) ->
  within (xo_bounds (u_px u) (u_py u) (u_ba u) (u_bb u) (u_xsize u) (u_ysize u)) (c_xo c) /\
  within (yo_bounds (u_px u) (u_py u) (u_ba u) (u_bb u) (u_xsize u) (u_ysize u)) (c_yo c).
Proof.
  intros Ha Hs Hkx Hky Hpeak Hratio.
  destruct (pos_bounds_eq (u_px u) (u_py u) (u_ba u) (u_bb u) (u_xsize u) (u_ysize u)) as [-> ->].
  unfold within. cbn [fst snd].
  unfold gauss_c in Hpeak. rewrite !gauss_eq in Hpeak.
  set (Ek := qform (kx - c_xo c) (ky - c_yo c) (c_sx c) (c_sy c) (c_theta c)) in *.
  set (Ep := qform (u_px u - c_xo c) (u_py u - c_yo c) (c_sx c) (c_sy c) (c_theta c)) in *.
  assert (HE : Ep <= Ek).
  { destruct (Rle_dec Ep Ek) as [|Hn]; [assumption|]. exfalso.
    assert (exp (- Ep / 2) < exp (- Ek / 2)) by (apply exp_increasing; lra). nra. }
  pose proof (qform_bounds (kx - c_xo c) (ky - c_yo c) (c_sx c) (c_sy c) (c_theta c) Hs) as [_ Hk].
  pose proof (qform_bounds (u_px u - c_xo c) (u_py u - c_yo c) (c_sx c) (c_sy c) (c_theta c) Hs) as [Hp _].
  fold Ek in Hk. fold Ep in Hp.
  set (dx := u_px u - c_xo c) in *. set (dy := u_py u - c_yo c) in *.
  assert (Hk2 : (kx - c_xo c) * (kx - c_xo c) + (ky - c_yo c) * (ky - c_yo c) <= 1 / 2).
  { apply Rabs_le_inv' in Hkx. apply Rabs_le_inv' in Hky. nra. }
  assert (Hsy2 : 0 < c_sy c ^ 2) by (apply pow_lt; lra). assert (Hsx2 : 0 < c_sx c ^ 2) by (apply pow_lt; lra).
  (* dx^2 + dy^2 <= sx^2 / (2 sy^2) *)
  assert (Hd : (dx * dx + dy * dy) * (2 * c_sy c ^ 2) <= c_sx c ^ 2).
  { assert (H1 : (dx * dx + dy * dy) / c_sx c ^ 2 <= (1 / 2) / c_sy c ^ 2).
    { eapply Rle_trans; [exact Hp|]. eapply Rle_trans; [exact HE|]. eapply Rle_trans; [exact Hk|].
      unfold Rdiv. apply Rmult_le_compat_r; [left; apply Rinv_0_lt_compat; assumption | exact Hk2]. }
    apply (Rmult_le_compat_r (c_sx c ^ 2 * (2 * c_sy c ^ 2))) in H1; [|nra].
    replace ((dx * dx + dy * dy) / c_sx c ^ 2 * (c_sx c ^ 2 * (2 * c_sy c ^ 2))) with ((dx * dx + dy * dy) * (2 * c_sy c ^ 2)) in H1
      by (field; lra).
    replace (1 / 2 / c_sy c ^ 2 * (c_sx c ^ 2 * (2 * c_sy c ^ 2))) with (c_sx c ^ 2) in H1 by (field; lra).
    exact H1. }
  set (h := hypot (u_ba u) (u_bb u)).
  assert (Hh0 : 0 <= h) by apply hypot_nonneg.
  assert (Hh2 : h * h = u_ba u ^ 2 + u_bb u ^ 2).
  { unfold h, hypot. rewrite sqrt_sqrt; [ring|]. nra. }
  (* 4 (dx^2 + dy^2) <= h^2 *)
  assert (H4 : 4 * (dx * dx + dy * dy) <= h * h).
  { rewrite Hh2. apply (Rmult_le_reg_r (c_sy c ^ 2)); [assumption|]. nra. }
  assert (Hdx : Rabs dx <= h / 2).
  { apply Rabs_le. split; nra. }
  assert (Hdy : Rabs dy <= h / 2).
  { apply Rabs_le. split; nra. }
  apply Rabs_le_inv' in Hdx. apply Rabs_le_inv' in Hdy. unfold dx, dy in *. repeat split; lra.
Qed.

(* shape: a source at least as large as the pixel beam's minor axis and no longer than the island-size cap *)
Lemma shape_in_box u c : 0 <= u_bb u -> u_bb u * FWHM2CC <= c_sy c -> c_sy c <= c_sx c ->
  c_sx c <= (Rmax (u_xsize u) (u_ysize u) + 1) * sqrt 2 * FWHM2CC ->
  within (sx_bounds (u_px u) (u_py u) (u_ba u) (u_bb u) (u_xsize u) (u_ysize u)) (c_sx c) /\
  within (sy_bounds (u_px u) (u_py u) (u_ba u) (u_bb u) (u_xsize u) (u_ysize u)) (c_sy c).
Proof.
  intros Hbb Hbeam Hord Hcap.
  destruct (shape_bounds_eq (u_px u) (u_py u) (u_ba u) (u_bb u) (u_xsize u) (u_ysize u)) as [-> ->].
  unfold within. cbn [fst snd]. pose proof c08_val as H8. pose proof FWHM2CC_pos as HF.
  assert (H0 : 0 <= u_bb u * FWHM2CC) by nra.
  assert (Hlow : u_bb u * FWHM2CC * c08 <= u_bb u * FWHM2CC) by nra.
  pose proof (Rmax_l ((Rmax (u_xsize u) (u_ysize u) + 1) * sqrt 2 * FWHM2CC) (sx_start (u_ba u) (u_bb u) * c11)) as Hm.
  unfold size_cap. repeat split; lra.
Qed.

(* the fit starts inside its own box *)
Lemma start_in_box u bpa : 0 < u_pk u -> 0 <= u_rms u -> 0 <= u_ic u -> 0 <= u_oc u -> 0 <= u_bb u ->
  in_box u (start_of u bpa).
Proof.
  intros Hpk Hrms Hic Hoc Hbb. unfold in_box, start_of. rewrite shape_init_eq. cbn [c_amp c_xo c_yo c_sx c_sy fst snd].
  destruct (pos_bounds_eq (u_px u) (u_py u) (u_ba u) (u_bb u) (u_xsize u) (u_ysize u)) as [-> ->].
  destruct (shape_bounds_eq (u_px u) (u_py u) (u_ba u) (u_bb u) (u_xsize u) (u_ysize u)) as [-> ->].
  unfold within, amp_bounds. rewrite amp_is_positive_eq. unfold Rltb. destruct (Rlt_dec 0 (u_pk u)) as [_|Hn]; [|lra].
  cbn [fst snd]. destruct (amp_pos_bounds_eq (u_pk u) (u_rms u) (u_ic u) (u_oc u)) as [-> ->].
  pose proof c095_val as H95. pose proof c105_val as H105. pose proof c08_val as H8. pose proof FWHM2CC_pos as HF.
  pose proof (hypot_nonneg (u_ba u) (u_bb u)) as Hh.
  pose proof (Rmin_r (u_oc u * u_rms u) (u_pk u)) as Hmin.
  assert (Hmin0 : 0 <= Rmin (u_oc u * u_rms u) (u_pk u)) by (apply Rmin_glb; nra).
  assert (H0 : 0 <= u_bb u * FWHM2CC) by nra.
  assert (H101 : 1 < c101 < 1.1) by (unfold c101; split; lra). assert (H11 : 1 < c11) by (unfold c11; lra).
  pose proof (Rmax_r (u_ba u * FWHM2CC) (u_bb u * FWHM2CC * c101)) as Hs. fold (sx_start (u_ba u) (u_bb u)) in Hs.
  set (st := sx_start (u_ba u) (u_bb u)) in *.
  set (cap := size_cap (u_ba u) (u_bb u) (u_xsize u) (u_ysize u)).
  assert (Hc : st * c11 <= cap) by (unfold cap, size_cap; apply Rmax_r).
  set (B := u_bb u * FWHM2CC) in *. set (mn := Rmin (u_oc u * u_rms u) (u_pk u)) in *.
  assert (A1 : c095 * mn <= u_pk u) by nra.
  assert (A2 : u_pk u <= u_pk u * c105 + u_ic u * u_rms u) by nra.
  assert (A3 : B * c08 <= B) by nra. assert (A4 : B <= B * c101) by nra.
  assert (Hst : 0 <= st) by lra. assert (A5 : st <= st * c11) by nra.
  repeat split; lra.
Qed.

(* ---------------------------------------------------------------------------------------- *)
(* Part G: recovery *)
Definition locally_conformal (P : R * R -> R * R) (x y sxF syF theta ra dec a b pa : R) : Prop :=
  P (x, y) = (ra, dec) /\ -90 < dec < 90 /\
  P (major_end x y sxF theta) = translate ra dec a pa /\
  P (major_end x y sxF (theta + 180)) = translate ra dec a (pa + 180) /\
  P (major_end x y syF (theta - 90)) = translate ra dec b (pa + 90) /\
  P (major_end x y syF (theta + 90)) = translate ra dec b (pa - 90) /\
  0 < a < 180 /\ 0 < b < 180 /\ -90 < pa <= 90 /\
  -90 < snd (translate ra dec a pa) < 90 /\ -90 < snd (translate ra dec a (pa + 180)) < 90 /\
  -90 < snd (translate ra dec b (pa + 90)) < 90 /\ -90 < snd (translate ra dec b (pa - 90)) < 90.

Section Recovery.
  Variables P S : R * R -> R * R.
  Variables psf_a psf_b bmaj bmin : R.
  (* lmfit.minimize (MINPACK Levenberg-Marquardt) as a black box: start, box, residual vector as a function of the
     parameters -> fitted parameters.  full_rank res c : the Jacobian of res at c has full column rank. *)
  Variable minimize : comp -> (comp -> Prop) -> (comp -> list R) -> comp.
  Variable full_rank : (comp -> list R) -> comp -> Prop.
  Hypothesis minimize_finds_zero : forall (start : comp) (box : comp -> Prop) (res : comp -> list R) (truth : comp),
    box start -> box truth -> (forall e, In e (res truth) -> e = 0) -> full_rank res truth ->
    same_gaussian truth (minimize start box res).

  Variable s : source.
  Variables xmin ymin : R.
  Let e := pixel_ellipse S s.
  Let truth := params_of (render S s) xmin ymin.

  (* the residual vector: any number of entries, each a weighted sum over island pixels (mask, noise scaling, rows of the
     whitening matrix) of model - data, the data being the image of the injected source *)
  Variable rows : list (list (R * R * R)).
  Let res (c : comp) : list R := map (fun pix => lin_residual (island_pts S (s :: nil) xmin ymin pix) (gauss_c c)) rows.

  Lemma residual_zero_at_truth : forall r, In r (res truth) -> r = 0.
  Proof.
    intros r Hin. unfold res in Hin. apply in_map_iff in Hin. destruct Hin as (pix & <- & _).
    pose proof (truth_zero_residual S (s :: nil) xmin ymin pix) as H. cbn [map] in H. unfold model in H. cbn [fold_right] in H.
    rewrite <- H. f_equal.
    apply FunctionalExtensionality.functional_extensionality; intros x.
    apply FunctionalExtensionality.functional_extensionality; intros y. fold truth. ring.
  Qed.

  Variable u : summit.
  Variable bpa : R.
  Variable scale : R.
  Hypothesis Hstart : 0 < u_pk u /\ 0 <= u_rms u /\ 0 <= u_ic u /\ 0 <= u_oc u /\ 0 <= u_bb u.
  Hypothesis Hbox : in_box u truth.
  Hypothesis Hrank : full_rank res truth.
  Hypothesis Hconf : locally_conformal P (t5_1 e) (t5_2 e) (t5_3 e) (t5_4 e) (t5_5 e)
                                       (s_ra s) (s_dec s) (s_a s / 3600) (s_b s / 3600) (s_pa s).
  Hypothesis Hab : s_b s < s_a s.
  Hypothesis Hra : 0 <= s_ra s.
  Hypothesis Hscale : 0 < scale /\ t5_3 e = scale * (s_a s / 3600) /\ t5_4 e = scale * (s_b s / 3600) /\
                      psf_a = scale * bmaj /\ psf_b = scale * bmin /\ 0 < bmaj /\ 0 < bmin.

  Lemma truth_shape : truth = mkComp (s_peak s) (t5_1 e - 1 - xmin) (t5_2 e - 1 - ymin) (t5_3 e * FWHM2CC) (t5_4 e * FWHM2CC) (t5_5 e).
  Proof. reflexivity. Qed.

  Lemma recovery :
    to_component P psf_a psf_b (minimize (start_of u bpa) (in_box u) res) xmin ymin = injected bmaj bmin s.
  Proof.
    destruct Hstart as (Hs1 & Hs2 & Hs3 & Hs4 & Hs5).
    pose proof (minimize_finds_zero (start_of u bpa) (in_box u) res truth
                  (start_in_box u bpa Hs1 Hs2 Hs3 Hs4 Hs5) Hbox residual_zero_at_truth Hrank) as Hsame.
    destruct Hconf as (Hc & Hdec & E0 & E2 & E3 & E1 & Ha & Hb & Hpa & D0 & D2 & D3 & D1).
    assert (Hab' : s_b s / 3600 < s_a s / 3600) by lra.
    rewrite truth_shape in Hsame.
    rewrite (same_gaussian_same_component P (t5_1 e) (t5_2 e) (s_ra s) (s_dec s) Hc Hdec (t5_3 e) (t5_4 e) (t5_5 e)
               (s_a s / 3600) (s_b s / 3600) (s_pa s) E0 E2 E3 E1 Ha Hb Hpa D0 D2 D3 D1 psf_a psf_b xmin ymin (s_peak s) Hab' _ Hsame).
    unfold to_component. cbn [c_amp c_sx c_sy].
    rewrite (sky_ellipse_any P (t5_1 e) (t5_2 e) xmin ymin (s_peak s)).
    rewrite (p2s_refl P (t5_1 e) (t5_2 e) (s_ra s) (s_dec s) Hc Hdec (t5_3 e) (t5_4 e) (t5_5 e)
               (s_a s / 3600) (s_b s / 3600) (s_pa s) E0 E3 Ha Hb Hpa D0 D3).
    rewrite finish_canon. cbv zeta. unfold canon. rewrite fix_shape_keep by lra. cbn [fst snd].
    rewrite pa_limit_id by assumption. unfold Rltb. destruct (Rlt_dec (s_ra s) 0) as [Hn|_]; [lra|].
    unfold injected, injected_int_flux. rewrite rtc_peak_eq, rtc_int_flux_eq, beamarea_pix_eq, !FWHM_roundtrip.
    destruct Hscale as (Hk & -> & -> & -> & -> & Hbj & Hbn).
    f_equal; [field | field |]. pose proof PI_RGT_0. field. repeat split; lra.
  Qed.
End Recovery.

(* ---------------------------------------------------------------------------------------- *)
(* bundled hypotheses and the statements used by Props/C01.v *)
Definition regular_source (s : source) : Prop :=
  0 <= s_ra s /\ -90 < s_dec s < 90 /\ 0 < s_b s <= s_a s /\ s_a s / 3600 < 180 /\ -90 < s_pa s <= 90 /\
  -90 < snd (translate (s_ra s) (s_dec s) (s_a s / 3600) (s_pa s)) < 90.
(* pix2sky o sky2pix = id at the centre and at the end of the major axis *)
Definition wcs_roundtrip_at (P S : R * R -> R * R) (s : source) : Prop :=
  P (S (s_ra s, s_dec s)) = (s_ra s, s_dec s) /\
  P (S (translate (s_ra s) (s_dec s) (s_a s / 3600) (s_pa s))) = translate (s_ra s) (s_dec s) (s_a s / 3600) (s_pa s).
(* the WCS is conformal and point-symmetric at the source: the pixel images of the two sky axes are perpendicular, and the
   reflection through the centre of the pixel image of the minor-axis end (position angle pa - 90) is the pixel of the
   opposite minor-axis end (position angle pa + 90) *)
Definition conformal_at (P S : R * R -> R * R) (s : source) : Prop :=
  let c := S (s_ra s, s_dec s) in
  let m := S (translate (s_ra s) (s_dec s) (s_a s / 3600) (s_pa s)) in
  let n := S (translate (s_ra s) (s_dec s) (s_b s / 3600) (s_pa s - 90)) in
  minor_defect_pix c m n = 0 /\
  P (2 * fst c - fst n, 2 * snd c - snd n) = translate (s_ra s) (s_dec s) (s_b s / 3600) (s_pa s + 90) /\
  -90 < snd (translate (s_ra s) (s_dec s) (s_b s / 3600) (s_pa s + 90)) < 90.
(* one linear scale (pixels per degree) at the source and at the reference pixel (where the pixel beam is computed) *)
Definition uniform_scale (S : R * R -> R * R) (s : source) (psf_a psf_b bmaj bmin : R) : Prop :=
  exists scale, 0 < scale /\ t5_3 (pixel_ellipse S s) = scale * (s_a s / 3600) /\ t5_4 (pixel_ellipse S s) = scale * (s_b s / 3600) /\
                psf_a = scale * bmaj /\ psf_b = scale * bmin /\ 0 < bmaj /\ 0 < bmin.

Lemma c01_conversion_inverse P S psf_a psf_b bmaj bmin s xmin ymin :
  regular_source s -> wcs_roundtrip_at P S s ->
  let k := to_component P psf_a psf_b (params_of (render S s) xmin ymin) xmin ymin in
  (minor_raw P S s * 3600 <= s_a s ->
     k_ra k = s_ra s /\ k_dec k = s_dec s /\ k_peak k = s_peak s /\ k_a k = s_a s /\ k_pa k = s_pa s) /\
  (conformal_at P S s -> uniform_scale S s psf_a psf_b bmaj bmin -> k = injected bmaj bmin s).
Proof.
  intros (Hra & Hdec & Hab & Ha & Hpa & Hend) (Hc & Hm). cbv zeta. split.
  - intros Hle. apply (conversion_inverse P S psf_a psf_b s xmin ymin); try assumption. lra.
  - intros (Hperp & Hsym & Hend2) (scale & Hscale).
    apply (conversion_inverse_conformal P S psf_a psf_b bmaj bmin s xmin ymin) with (scale := scale); try assumption; lra.
Qed.

Lemma c01_minor_bound P S psf_a psf_b s xmin ymin :
  regular_source s -> wcs_roundtrip_at P S s -> minor_raw P S s * 3600 <= s_a s ->
  let k := to_component P psf_a psf_b (params_of (render S s) xmin ymin) xmin ymin in
  let q := minor_sky_point P S s in
  let dq := gcd (s_ra s) (s_dec s) (fst q) (snd q) * 3600 in
  let defect := s_pa s - (bear (s_ra s) (s_dec s) (fst q) (snd q) - 90) in
  k_b k = dq * Rabs (cos (rad defect)) /\ k_b k <= dq /\ dq - k_b k = dq * (1 - Rabs (cos (rad defect))).
Proof.
  intros (Hra & Hdec & Hab & Ha & Hpa & Hend) (Hc & Hm) Hle.
  apply (minor_bound P S psf_a psf_b s xmin ymin); try assumption. lra.
Qed.

Lemma c01_canonical P psf_a psf_b x y sxF syF theta ra dec a b pa xmin ymin amp r :
  locally_conformal P x y sxF syF theta ra dec a b pa -> b < a ->
  let c0 := mkComp amp (x - 1 - xmin) (y - 1 - ymin) (sxF * FWHM2CC) (syF * FWHM2CC) theta in
  same_gaussian c0 r -> to_component P psf_a psf_b r xmin ymin = to_component P psf_a psf_b c0 xmin ymin.
Proof.
  intros (Hc & Hdec & E0 & E2 & E3 & E1 & Ha & Hb & Hpa & D0 & D2 & D3 & D1) Hab c0 Hr.
  exact (same_gaussian_same_component P x y ra dec Hc Hdec sxF syF theta a b pa E0 E2 E3 E1 Ha Hb Hpa D0 D2 D3 D1
           psf_a psf_b xmin ymin amp Hab r Hr).
Qed.
Lemma c01_theta_period P psf_a psf_b c xmin ymin :
  to_component P psf_a psf_b (mkComp (c_amp c) (c_xo c) (c_yo c) (c_sx c) (c_sy c) (c_theta c + 360)) xmin ymin =
  to_component P psf_a psf_b c xmin ymin.
Proof.
  unfold to_component, sky_ellipse. cbn [c_amp c_xo c_yo c_sx c_sy c_theta].
  rewrite !rtc_ellipse_args_eq. unfold t5_1, t5_2, t5_3, t5_4, t5_5. cbn [fst snd]. rewrite pix2sky_period. reflexivity.
Qed.

(* the reported shape is ordered and in range whatever the optimiser returns, and the same for the four parameterisations of
   one ellipse *)
Lemma c01_canon_shape a b pa : -450 < pa <= 180 ->
  (let k := canon a b pa in snd (fst k) <= fst (fst k) /\ -90 < snd k <= 90) /\
  canon a b (pa + 180) = canon a b pa /\
  (b < a -> -360 < pa -> canon b a (pa - 90) = canon a b pa) /\
  (b < a -> pa <= 90 -> canon b a (pa + 90) = canon a b pa).
Proof.
  intros H. split; [apply canon_ordered; lra|]. split; [apply canon_half; lra|].
  split; intros Hab Hp; [apply canon_swap_down | apply canon_swap_up]; assumption || lra.
Qed.

Lemma c01_truth_within_bounds u c kx ky :
  0 < c_amp c -> 0 < c_sy c <= c_sx c -> 0 <= u_rms u -> 0 <= u_oc u -> 0 <= u_bb u ->
  (* the summit's peak pixel holds the noise-free source and is at least as bright as a pixel within half a pixel of the centre *)
  u_pk u = gauss_c c (u_px u) (u_py u) ->
  Rabs (kx - c_xo c) <= 1 / 2 -> Rabs (ky - c_yo c) <= 1 / 2 -> gauss_c c kx ky <= gauss_c c (u_px u) (u_py u) ->
  (* axis ratio against the sampling of the beam; at least as large as the beam; not longer than the island allows *)
  2 * c_sx c ^ 2 <= c_sy c ^ 2 * (u_ba u ^ 2 + u_bb u ^ 2) ->
  u_bb u * FWHM2CC <= c_sy c ->
  c_sx c <= (Rmax (u_xsize u) (u_ysize u) + 1) * sqrt 2 * FWHM2CC ->
  (in_box u c <-> c_amp c * (1 - c105 * atten c (u_px u) (u_py u)) <= u_ic u * u_rms u).
Proof.
  intros Ha Hs Hrms Hoc Hbb Hpk Hkx Hky Hpeak Hratio Hbeam Hcap.
  pose proof (position_in_box u c kx ky Ha Hs Hkx Hky Hpeak Hratio) as [Hx Hy].
  pose proof (shape_in_box u c Hbb Hbeam (proj2 Hs) Hcap) as [Hsx Hsy].
  pose proof (amp_in_box_iff u c Ha) as Hamp.
  assert (Hx0 : c_sx c <> 0) by lra. assert (Hy0 : c_sy c <> 0) by lra.
  specialize (Hamp Hx0 Hy0 Hrms Hoc Hpk). unfold in_box. split.
  - intros (H1 & _). apply Hamp. exact H1.
  - intros H1. repeat split; try (apply Hamp; exact H1); try apply Hx; try apply Hy; try apply Hsx; try apply Hsy.
Qed.

(* lmfit.minimize as a black box (the optimiser hypothesis of C01) *)
Definition optimiser_finds_zero (minimize : comp -> (comp -> Prop) -> (comp -> list R) -> comp)
           (full_rank : (comp -> list R) -> comp -> Prop) : Prop :=
  forall (start : comp) (box : comp -> Prop) (res : comp -> list R) (truth : comp),
    box start -> box truth -> (forall e : R, In e (res truth) -> e = 0) -> full_rank res truth ->
    same_gaussian truth (minimize start box res).
(* the residual vector of an island that holds the injected source: one entry per row (mask, noise scaling, whitening) *)
Definition island_residual (S : R * R -> R * R) (s : source) (xmin ymin : R) (rows : list (list (R * R * R))) (c : comp) : list R :=
  map (fun pix => lin_residual (island_pts S (s :: nil) xmin ymin pix) (gauss_c c)) rows.
Definition summit_sane (u : summit) : Prop := 0 < u_pk u /\ 0 <= u_rms u /\ 0 <= u_ic u /\ 0 <= u_oc u /\ 0 <= u_bb u.

Lemma c01_recovery P S psf_a psf_b bmaj bmin minimize full_rank s xmin ymin rows u bpa :
  optimiser_finds_zero minimize full_rank ->
  summit_sane u ->
  in_box u (params_of (render S s) xmin ymin) ->
  full_rank (island_residual S s xmin ymin rows) (params_of (render S s) xmin ymin) ->
  (let e := pixel_ellipse S s in
   locally_conformal P (t5_1 e) (t5_2 e) (t5_3 e) (t5_4 e) (t5_5 e) (s_ra s) (s_dec s) (s_a s / 3600) (s_b s / 3600) (s_pa s)) ->
  s_b s < s_a s -> 0 <= s_ra s ->
  uniform_scale S s psf_a psf_b bmaj bmin ->
  to_component P psf_a psf_b (minimize (start_of u bpa) (in_box u) (island_residual S s xmin ymin rows)) xmin ymin
  = injected bmaj bmin s.
Proof.
  intros Hopt Hu Hbox Hrank Hconf Hab Hra (scale & Hscale).
  exact (recovery P S psf_a psf_b bmaj bmin minimize full_rank Hopt s xmin ymin rows u bpa scale Hu Hbox Hrank Hconf Hab Hra Hscale).
Qed.

Lemma c01_canonical_all :
  (forall P psf_a psf_b c xmin ymin,
     to_component P psf_a psf_b (mkComp (c_amp c) (c_xo c) (c_yo c) (c_sx c) (c_sy c) (c_theta c + 360)) xmin ymin =
     to_component P psf_a psf_b c xmin ymin) /\
  (forall P psf_a psf_b x y sxF syF theta ra dec a b pa xmin ymin amp r,
     locally_conformal P x y sxF syF theta ra dec a b pa -> b < a ->
     let c0 := mkComp amp (x - 1 - xmin) (y - 1 - ymin) (sxF * FWHM2CC) (syF * FWHM2CC) theta in
     same_gaussian c0 r -> to_component P psf_a psf_b r xmin ymin = to_component P psf_a psf_b c0 xmin ymin) /\
  (forall a b pa, -450 < pa <= 180 ->
     (let k := canon a b pa in snd (fst k) <= fst (fst k) /\ -90 < snd k <= 90) /\
     canon a b (pa + 180) = canon a b pa /\
     (b < a -> -360 < pa -> canon b a (pa - 90) = canon a b pa) /\
     (b < a -> pa <= 90 -> canon b a (pa + 90) = canon a b pa)).
Proof. split; [exact c01_theta_period|]. split; [exact c01_canonical | exact c01_canon_shape]. Qed.

Lemma c01_bounds_all :
  (forall u bpa, summit_sane u -> in_box u (start_of u bpa)) /\
  (forall u c kx ky,
     0 < c_amp c -> 0 < c_sy c <= c_sx c -> 0 <= u_rms u -> 0 <= u_oc u -> 0 <= u_bb u ->
     u_pk u = gauss_c c (u_px u) (u_py u) ->
     Rabs (kx - c_xo c) <= 1 / 2 -> Rabs (ky - c_yo c) <= 1 / 2 -> gauss_c c kx ky <= gauss_c c (u_px u) (u_py u) ->
     2 * c_sx c ^ 2 <= c_sy c ^ 2 * (u_ba u ^ 2 + u_bb u ^ 2) ->
     u_bb u * FWHM2CC <= c_sy c ->
     c_sx c <= (Rmax (u_xsize u) (u_ysize u) + 1) * sqrt 2 * FWHM2CC ->
     (in_box u c <-> c_amp c * (1 - c105 * atten c (u_px u) (u_py u)) <= u_ic u * u_rms u)) /\
  1.05 - 1 / 10 ^ 15 < c105 < 1.05 + 1 / 10 ^ 15.
Proof.
  split; [|split; [exact c01_truth_within_bounds | exact c105_val]].
  intros u bpa (H1 & H2 & H3 & H4 & H5). apply start_in_box; assumption.
Qed.

(* ---------------------------------------------------------------------------------------- *)
(* the reported axis errors are the propagated errors in sky units: the great-circle distance between the sky images of the end of
   the FWHM axis and of the same end with the standard deviation one standard error larger *)
Lemma c01_err_axes P xo yo sx sy err_sx err_sy theta :
  reported_err_a P xo yo sx sy err_sx theta =
    (let r := P (major_end xo yo (sx * CC2FHWM) theta) in let o := P (major_end xo yo ((sx + err_sx) * CC2FHWM) theta) in
     gcd (fst r) (snd r) (fst o) (snd o)) * 3600 /\
  reported_err_b P xo yo sx sy err_sy theta =
    (let r := P (major_end xo yo (sy * CC2FHWM) (theta + 90)) in let o := P (major_end xo yo ((sy + err_sy) * CC2FHWM) (theta + 90)) in
     gcd (fst r) (snd r) (fst o) (snd o)) * 3600.
Proof.
  unfold reported_err_a, reported_err_b.
  destruct (err_a_pixels_eq xo yo sx sy err_sx theta) as (-> & -> & ->).
  destruct (err_b_pixels_eq xo yo sx sy err_sy theta) as (-> & -> & ->). split; reflexivity.
Qed.
(* on a WCS that maps these pixels to the points at distance a and a + da along one great circle through the centre, err_a = da:
   stated for the translate form used throughout *)
Lemma c01_err_a_linear P xo yo sx sy err_sx theta ra dec a da pa :
  P (major_end xo yo (sx * CC2FHWM) theta) = translate ra dec a pa ->
  P (major_end xo yo ((sx + err_sx) * CC2FHWM) theta) = translate (fst (translate ra dec a pa)) (snd (translate ra dec a pa)) da pa ->
  -90 < snd (translate ra dec a pa) < 90 ->
  -90 < snd (translate (fst (translate ra dec a pa)) (snd (translate ra dec a pa)) da pa) < 90 -> 0 < da < 180 ->
  reported_err_a P xo yo sx sy err_sx theta = da * 3600.
Proof.
  intros H1 H2 D1 D2 Hda. rewrite (proj1 (c01_err_axes P xo yo sx sy err_sx 0 theta)). cbv zeta. rewrite H1, H2.
  rewrite (translate_gcd (fst (translate ra dec a pa)) (snd (translate ra dec a pa)) da pa D1 D2 Hda). reflexivity.
Qed.

(* the error stored as err_a is that of the larger of the two fitted standard deviations, i.e. of the axis that fix_shape made the
   major axis (for a WCS without shear the larger pixel axis is the larger sky axis) *)
Definition axis_err (P : R * R -> R * R) (xo yo s err_s theta : R) : R :=
  (let r := P (major_end xo yo (s * CC2FHWM) theta) in let o := P (major_end xo yo ((s + err_s) * CC2FHWM) theta) in
   gcd (fst r) (snd r) (fst o) (snd o)) * 3600.
Lemma c01_err_axes_shape P xo yo sx sy err_sx err_sy theta :
  reported_err_axes P xo yo sx sy err_sx err_sy theta =
  if Rlt_dec sx sy then (axis_err P xo yo sy err_sy (theta + 90), axis_err P xo yo sx err_sx theta)
  else (axis_err P xo yo sx err_sx theta, axis_err P xo yo sy err_sy (theta + 90)).
Proof.
  unfold reported_err_axes. rewrite err_axes_follow_shape_eq. cbn [andb]. unfold Rltb.
  destruct (c01_err_axes P xo yo sx sy err_sx err_sy theta) as [-> ->]. unfold axis_err.
  destruct (Rlt_dec sx sy); reflexivity.
Qed.
