From Coq Require Import ZArith Bool List Lia ZifyBool.
From Aegean Require Import Gen.Bands Model.Bands.
Import ListNotations.
Open Scope Z_scope.
Ltac Zify.zify_post_hook ::= Z.to_euclidean_division_equations.

Lemma rejected_iff b0 b1 : band_rejected b0 b1 = false <-> 0 <= b0 < b1.
Proof. unfold band_rejected. lia. Qed.

Lemma row_min_0 N n : 0 < n -> row_min N 0 n = 0.
Proof. intros; unfold row_min. rewrite Z.mul_0_r. apply Z.div_0_l; lia. Qed.

Lemma row_max_last N n : 0 < n -> row_max N (n - 1) n = N.
Proof. intros; unfold row_max. replace (n - 1 + 1) with n by lia. apply Z.div_mul; lia. Qed.

Lemma row_max_min_next N i n : row_max N i n = row_min N (i + 1) n.
Proof. reflexivity. Qed.

Lemma row_min_le_max N i n : 0 <= N -> 0 < n -> row_min N i n <= row_max N i n.
Proof. intros; unfold row_min, row_max. apply Z.div_le_mono; nia. Qed.

Lemma row_min_mono N i j n : 0 <= N -> 0 < n -> i <= j -> row_min N i n <= row_min N j n.
Proof. intros; unfold row_min. apply Z.div_le_mono; nia. Qed.

Lemma row_min_nonneg N i n : 0 <= N -> 0 < n -> 0 <= i -> 0 <= row_min N i n.
Proof. intros; unfold row_min. apply Z.div_pos; nia. Qed.

Lemma row_min_n N n : 0 < n -> row_min N n n = N.
Proof. intros; unfold row_min. apply Z.div_mul; lia. Qed.

(* every row lies in exactly one band *)
Lemma band_of_row_exists N n r : 0 < n -> 0 <= r < N ->
  exists i, 0 <= i < n /\ row_min N i n <= r < row_max N i n.
Proof.
  intros Hn Hr.
  (* induction on the number of bands considered: the first k bands cover [0, row_min k) *)
  assert (G : forall k : nat, (Z.of_nat k <= n) -> r < row_min N (Z.of_nat k) n ->
              exists i, 0 <= i < Z.of_nat k /\ row_min N i n <= r < row_max N i n).
  { induction k as [|k IH]; intros Hk Hlt.
    - simpl in Hlt. rewrite row_min_0 in Hlt by lia. lia.
    - destruct (Z_lt_le_dec r (row_min N (Z.of_nat k) n)) as [Hc|Hc].
      + destruct (IH ltac:(lia) Hc) as (i & Hi & Hb). exists i. split; [lia|exact Hb].
      + exists (Z.of_nat k). split; [lia|]. split; [exact Hc|].
        rewrite row_max_min_next. replace (Z.of_nat k + 1) with (Z.of_nat (S k)) by lia. exact Hlt. }
  destruct (G (Z.to_nat n)) as (i & Hi & Hb).
  - lia.
  - rewrite Z2Nat.id by lia. rewrite row_min_n by lia. lia.
  - exists i. split; [lia|exact Hb].
Qed.

Lemma band_of_row_unique N n r i j : 0 <= N -> 0 < n ->
  row_min N i n <= r < row_max N i n -> row_min N j n <= r < row_max N j n -> i = j.
Proof.
  intros HN Hn Hi Hj. rewrite row_max_min_next in Hi, Hj.
  destruct (Z.lt_trichotomy i j) as [H|[H|H]]; [|exact H|].
  - pose proof (row_min_mono N (i + 1) j n HN Hn ltac:(lia)). lia.
  - pose proof (row_min_mono N (j + 1) i n HN Hn ltac:(lia)). lia.
Qed.

(* concatenating the bands gives back the image *)
Lemma firstn_skipn_app {A} (l : list A) (a b : nat) :
  firstn a (skipn 0 l) ++ firstn b (skipn a l) = firstn (a + b) l.
Proof.
  simpl. revert l b; induction a as [|a IH]; intros l b; simpl; [reflexivity|].
  destruct l as [|x l]; simpl.
  - rewrite firstn_nil. reflexivity.
  - rewrite IH. reflexivity.
Qed.

Lemma bands_prefix {A} (img : list (list A)) (n : Z) (k : nat) :
  0 < n -> Z.of_nat k <= n ->
  concat (map (fun i => band_rows img (Z.of_nat i) n) (seq 0 k)) =
  firstn (Z.to_nat (row_min (Z.of_nat (length img)) (Z.of_nat k) n)) img.
Proof.
  intros Hn. set (N := Z.of_nat (length img)).
  induction k as [|k IH]; intros Hk.
  - simpl. rewrite row_min_0 by lia. reflexivity.
  - rewrite seq_S, map_app, concat_app. cbn [map concat Nat.add]. rewrite app_nil_r.
    rewrite IH by lia. unfold band_rows. fold N.
    rewrite row_max_min_next. replace (Z.of_nat k + 1) with (Z.of_nat (S k)) by lia.
    set (a := row_min N (Z.of_nat k) n). set (b := row_min N (Z.of_nat (S k)) n).
    assert (0 <= a) by (apply row_min_nonneg; lia).
    assert (a <= b) by (apply row_min_mono; lia).
    clearbody a b.
    pose proof (firstn_skipn_app img (Z.to_nat a) (Z.to_nat (b - a))) as E. simpl in E.
    rewrite E. f_equal. lia.
Qed.

Lemma bands_concat {A} (img : list (list A)) (n : Z) : 0 < n ->
  concat (map (fun i => band_rows img (Z.of_nat i) n) (seq 0 (Z.to_nat n))) = img.
Proof.
  intros Hn. rewrite bands_prefix by lia. rewrite Z2Nat.id by lia. rewrite row_min_n by lia.
  rewrite Nat2Z.id. apply firstn_all.
Qed.

Lemma band_rows_length {A} (img : list (list A)) i n : 0 < n -> 0 <= i < n ->
  let N := Z.of_nat (length img) in
  Z.of_nat (length (band_rows img i n)) = row_max N i n - row_min N i n.
Proof.
  intros Hn Hi N. unfold band_rows. fold N.
  assert (0 <= row_min N i n) by (apply row_min_nonneg; lia).
  assert (row_min N i n <= row_max N i n) by (apply row_min_le_max; lia).
  assert (row_max N i n <= N).
  { rewrite row_max_min_next. rewrite <- (row_min_n N n) at 2 by lia. apply row_min_mono; lia. }
  rewrite firstn_length, skipn_length. lia.
Qed.

(* the adjusted header describes the same linear coordinate for the same physical row *)
Lemma astrometry_kept crpix2 lo hi y :
  fits_offset (new_crpix2 crpix2 lo hi) y = fits_offset crpix2 (y + lo).
Proof. unfold fits_offset, new_crpix2. lia. Qed.

Lemma naxis2_is_rows lo hi : new_naxis2 lo hi = hi - lo.
Proof. reflexivity. Qed.

Lemma load_band_spec N crpix2 b0 b1 :
  load_band N crpix2 b0 b1 =
  if (0 <=? b0) && (b0 <? b1) then
    Some {| br_lo := row_min N b0 b1; br_hi := row_max N b0 b1;
            br_naxis2 := row_max N b0 b1 - row_min N b0 b1;
            br_crpix2 := crpix2 - row_min N b0 b1 |}
  else None.
Proof.
  unfold load_band. destruct (band_rejected b0 b1) eqn:E.
  - destruct ((0 <=? b0) && (b0 <? b1)) eqn:F; [|reflexivity].
    assert (band_rejected b0 b1 = false) by (apply rejected_iff; lia). congruence.
  - apply rejected_iff in E. replace ((0 <=? b0) && (b0 <? b1)) with true by lia. reflexivity.
Qed.
