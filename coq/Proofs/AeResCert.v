(* C14 - lemmas and tactics used by the per-case certified correspondence (tools/harness/c14.py):
   every generated goal is about the model functions model_px / blank_px themselves; the side
   conditions (guards, window membership, thresholds) and the final value are real inequalities
   between explicit numbers, closed by `interval` and checked by the kernel. *)
From Coq Require Import Reals ZArith Bool List String Lra Lia.
From Flocq Require Import Raux.
From Interval Require Import Tactic.
From Aegean Require Import Lib.RBase Gen.Gauss Gen.AeRes Model.AeRes Proofs.AeResProofs.
Import ListNotations.
Open Scope R_scope.

Lemma contrib_in s0 s1 s i j : covers_P s0 s1 s i j -> contrib s0 s1 s i j = term s i j.
Proof. intros H. apply covers_iff in H. unfold contrib. rewrite H. reflexivity. Qed.
Lemma contrib_out s0 s1 s i j : ~ covers_P s0 s1 s i j -> contrib s0 s1 s i j = 0.
Proof.
  intros H. unfold contrib. destruct (covers s0 s1 s i j) eqn:E; [|reflexivity].
  exfalso. apply H. now apply covers_iff.
Qed.

Definition covhit s0 s1 mode s i j : bool := covers s0 s1 s i j && hit mode s i j.
Lemma blank_cons s0 s1 mode s cat i j :
  blank_px s0 s1 mode (s :: cat) i j = covhit s0 s1 mode s i j || blank_px s0 s1 mode cat i j.
Proof. reflexivity. Qed.
Lemma blank_nil s0 s1 mode i j : blank_px s0 s1 mode [] i j = false.
Proof. reflexivity. Qed.
Lemma covhit_true s0 s1 mode s i j : covers_P s0 s1 s i j -> hit_P mode s i j -> covhit s0 s1 mode s i j = true.
Proof. intros H1 H2. unfold covhit. apply andb_true_iff. now rewrite covers_iff, hit_iff. Qed.
Lemma covhit_false_cov s0 s1 mode s i j : ~ covers_P s0 s1 s i j -> covhit s0 s1 mode s i j = false.
Proof.
  intros H. unfold covhit. destruct (covers s0 s1 s i j) eqn:E; [|reflexivity]. exfalso. apply H. now apply covers_iff.
Qed.
Lemma covhit_false_hit s0 s1 mode s i j : ~ hit_P mode s i j -> covhit s0 s1 mode s i j = false.
Proof.
  intros H. unfold covhit. destruct (hit mode s i j) eqn:E; [|apply andb_false_r]. exfalso. apply H. now apply hit_iff.
Qed.

(* binary64-precision intervals first (fast, primitive floats); 80 bits when that is not enough *)
Ltac c14_itv := first [ interval | interval with (i_prec 80) ].
Ltac c14_simpl := cbn [s_peak s_rms s_xo s_yo s_sx s_sy s_theta]; unfold xoff, yoff, rad.
Ltac c14_num := first [ lia | lra | c14_itv ].
Ltac c14_cov := unfold covers_P, accepted_P, window_P; c14_simpl; repeat split; c14_num.
Ltac c14_refute :=
  first [ lia | lra
        | match goal with
          | H : (?a <= ?b)%R |- False => solve [ apply (Rle_not_lt _ _ H); c14_itv ]
          | H : (?a < ?b)%R |- False => solve [ apply (Rlt_not_le _ _ H); c14_itv ]
          end ].
Ltac c14_ncov :=
  unfold covers_P, accepted_P, window_P; c14_simpl;
  intros [[[? ?] [? ?]] [[[? ?] [? ?]] [[? ?] [? ?]]]]; c14_refute.
Ltac c14_value := unfold term, px_model, gauss, FWHM2CC, rad; c14_simpl; cbv zeta.
Ltac c14_hit := unfold hit_P; c14_value; c14_itv.
Ltac c14_nhit := unfold hit_P; c14_value; intros H; c14_refute.

(* Goal: Rabs (model_px s0 s1 [..] i j - y) <= tol.
   c14_start ; one c14_in / c14_out per source (a hint from the harness which of the two to try first;
   the other is tried when the hinted one does not prove) ; c14_done *)
Ltac c14_start := rewrite model_is_sum; cbn [map]; rewrite ?Rsum_cons, ?Rsum_nil.
Ltac c14_in :=
  try match goal with
      | |- context [contrib ?a ?b ?s ?i ?j] =>
        first [ rewrite (contrib_in a b s i j) by c14_cov | rewrite (contrib_out a b s i j) by c14_ncov ]
      end.
Ltac c14_out :=
  try match goal with
      | |- context [contrib ?a ?b ?s ?i ?j] =>
        first [ rewrite (contrib_out a b s i j) by c14_ncov | rewrite (contrib_in a b s i j) by c14_cov ]
      end.
Ltac c14_done :=
  repeat match goal with
         | |- context [contrib ?a ?b ?s ?i ?j] =>
           first [ rewrite (contrib_in a b s i j) by c14_cov | rewrite (contrib_out a b s i j) by c14_ncov ]
         end;
  c14_value; c14_itv.
Ltac c14_pixel := c14_start; c14_done.

(* Goal: blank_px s0 s1 mode [..] i j = b.   hints: c14_bt (blanks), c14_bw (not evaluated), c14_bh (below threshold) *)
Ltac c14_bstart := rewrite ?blank_cons, ?blank_nil.
Ltac c14_b1 a b m s i j := rewrite (covhit_true a b m s i j) by (c14_cov || c14_hit).
Ltac c14_b2 a b m s i j := rewrite (covhit_false_cov a b m s i j) by c14_ncov.
Ltac c14_b3 a b m s i j := rewrite (covhit_false_hit a b m s i j) by c14_nhit.
Ltac c14_bt := try match goal with |- context [covhit ?a ?b ?m ?s ?i ?j] =>
                     first [ c14_b1 a b m s i j | c14_b2 a b m s i j | c14_b3 a b m s i j ] end.
Ltac c14_bw := try match goal with |- context [covhit ?a ?b ?m ?s ?i ?j] =>
                     first [ c14_b2 a b m s i j | c14_b3 a b m s i j | c14_b1 a b m s i j ] end.
Ltac c14_bh := try match goal with |- context [covhit ?a ?b ?m ?s ?i ?j] =>
                     first [ c14_b3 a b m s i j | c14_b2 a b m s i j | c14_b1 a b m s i j ] end.
Ltac c14_bdone := repeat c14_bw; reflexivity.
Ltac c14_blank := c14_bstart; c14_bdone.

(* smoke tests (also the non-vacuity of the tactics) *)
Goal Rabs (model_px 12 14 [mkSrc 2 (1 / 10) 6 7 3 2 30; mkSrc 1 0 40 7 3 2 30] 5 6 - 2) <= 1 / 1000000.
Proof. c14_pixel. Qed.
Goal Rabs (model_px 12 14 [mkSrc 2 (1 / 10) 6 7 (1 / 10) (1 / 10) 30] 11 13 - 0) <= 0.
Proof. c14_pixel. Qed.
Goal blank_px 12 14 (ByFrac (1 / 2)) [mkSrc (-2) (1 / 10) 6 7 3 2 30] 5 6 = true.
Proof. c14_blank. Qed.
Goal blank_px 12 14 (BySigma 4) [mkSrc (-2) (1 / 10) 6 7 3 2 30; mkSrc (-2) (1 / 10) 60 7 3 2 30] 8 9 = false.
Proof. c14_blank. Qed.
Goal Rabs (model_px 12 14 [mkSrc 2 (1 / 10) 6 7 3 2 30; mkSrc 1 0 40 7 3 2 30] 5 6 - 2) <= 1 / 1000000.
Proof. c14_start. c14_in. c14_out. c14_done. Qed.
Goal Rabs (model_px 12 14 [mkSrc 2 (1 / 10) 6 7 3 2 30; mkSrc 1 0 40 7 3 2 30] 5 6 - 2) <= 1 / 1000000.
Proof. c14_start. c14_out. c14_in. c14_done. Qed.
Goal blank_px 12 14 (BySigma 4) [mkSrc (-2) (1 / 10) 6 7 3 2 30; mkSrc (-2) (1 / 10) 60 7 3 2 30; mkSrc (-2) (1 / 10) 6 7 3 2 30] 8 9 = false.
Proof. c14_bstart. c14_bh. c14_bw. c14_bh. c14_bdone. Qed.
Goal blank_px 12 14 (ByFrac 0) [mkSrc (-2) (1 / 10) 6 7 3 2 30] 11 13 = true.
Proof. c14_bstart. c14_bt. c14_bdone. Qed.
