(* C05 - one characterising lemma per generated leaf of Gen/Priorized.v.  Every later proof uses
   only these lemmas (the leaves are made opaque at the end of this file for its importers), so a
   changed leaf breaks exactly one named lemma here. *)
From Coq Require Import ZArith QArith Qround Lia Lqa Bool List.
From Aegean Require Import Lib.QPy Gen.Priorized.
Open Scope Q_scope.

(* ---- frames *)
Lemma fits_to_array_x_spec : forall p, fits_to_array_x p == p - 1.
Proof. intro p. unfold fits_to_array_x. ring. Qed.
Lemma fits_to_array_y_spec : forall p, fits_to_array_y p == p - 1.
Proof. intro p. unfold fits_to_array_y. ring. Qed.
Lemma array_to_fits_x_spec : forall xo yo xmin xmax ymin ymax, array_to_fits_x xo yo xmin xmax ymin ymax == xo + xmin + 1.
Proof. intros. unfold array_to_fits_x. ring. Qed.
Lemma array_to_fits_y_spec : forall xo yo xmin xmax ymin ymax, array_to_fits_y xo yo xmin xmax ymin ymax == yo + ymin + 1.
Proof. intros. unfold array_to_fits_y. ring. Qed.

(* ---- nearest pixel: an integer, obtained by rounding *)
Lemma nearest_x_spec : forall p, nearest_x p = inject_Z (round_half_even p).
Proof. reflexivity. Qed.
Lemma nearest_y_spec : forall p, nearest_y p = inject_Z (round_half_even p).
Proof. reflexivity. Qed.

(* ---- positions the WCS cannot project (NaN) are skipped before int(round()) (false before /repo 850a279) *)
Lemma skips_unprojectable_spec : skips_unprojectable = true.
Proof. reflexivity. Qed.

(* ---- accept test on integer pixel indices *)
Lemma rejected_spec : forall x y r c df rf bk,
  rejected (inject_Z x) (inject_Z y) (inject_Z r) (inject_Z c) df rf bk =
  negb ((0 <=? x)%Z && (x <? r)%Z && ((0 <=? y)%Z && (y <? c)%Z) && df && rf && bk).
Proof.
  intros. unfold rejected. change (0 # 1) with (inject_Z 0). rewrite !Qleb_Z, !Qltb_Z.
  destruct (0 <=? x)%Z, (x <? r)%Z, (0 <=? y)%Z, (y <? c)%Z, df, rf, bk; reflexivity.
Qed.

(* ---- cut-out width: an integer >= 1 for non-negative sizes, the same on both axes *)
Lemma cut_xwidth_int : forall sx sy, cut_xwidth sx sy = inject_Z (Qfloor (cut_xwidth sx sy)).
Proof.
  intros. unfold cut_xwidth. change (1 # 1) with (inject_Z 1). rewrite <- inject_Z_plus, Qfloor_Z. reflexivity.
Qed.
Lemma cut_ywidth_int : forall sx sy, cut_ywidth sx sy = inject_Z (Qfloor (cut_ywidth sx sy)).
Proof.
  intros. unfold cut_ywidth. change (1 # 1) with (inject_Z 1). rewrite <- inject_Z_plus, Qfloor_Z. reflexivity.
Qed.

Lemma round_nonneg : forall q, 0 <= q -> (0 <= round_half_even q)%Z.
Proof.
  intros q Hq. pose proof (round_half_even_near q) as [_ Hhi].
  destruct (Z_lt_le_dec (round_half_even q) 0) as [Hneg|Hok]; [|assumption].
  exfalso. assert (Hle : (round_half_even q <= -1)%Z) by lia.
  rewrite Zle_Qle in Hle. change (inject_Z (-1)) with (-1 # 1) in Hle. lra.
Qed.

Lemma cut_xwidth_pos : forall sx sy, 0 <= sx -> (1 <= Qfloor (cut_xwidth sx sy))%Z.
Proof.
  intros sx sy H. unfold cut_xwidth. change (1 # 1) with (inject_Z 1). rewrite <- inject_Z_plus, Qfloor_Z.
  assert (0 <= (4 # 1) * sx) by lra. pose proof (round_nonneg _ H0). lia.
Qed.
Lemma cut_ywidth_pos : forall sx sy, 0 <= sx -> (1 <= Qfloor (cut_ywidth sx sy))%Z.
Proof.
  intros sx sy H. unfold cut_ywidth. change (1 # 1) with (inject_Z 1). rewrite <- inject_Z_plus, Qfloor_Z.
  assert (0 <= (4 # 1) * sx) by lra. pose proof (round_nonneg _ H0). lia.
Qed.

(* ---- running bounds on integers: Python's min / max / // on ints *)
Lemma xmin_init_spec : forall r c, xmin_init (inject_Z r) (inject_Z c) = inject_Z r.
Proof. reflexivity. Qed.
Lemma ymin_init_spec : forall r c, ymin_init (inject_Z r) (inject_Z c) = inject_Z c.
Proof. reflexivity. Qed.
Lemma xmax_init_spec : forall r c, xmax_init (inject_Z r) (inject_Z c) = inject_Z 0.
Proof. reflexivity. Qed.
Lemma ymax_init_spec : forall r c, ymax_init (inject_Z r) (inject_Z c) = inject_Z 0.
Proof. reflexivity. Qed.

Lemma xmin_upd_spec : forall a x w r,
  xmin_upd (inject_Z a) (inject_Z x) (inject_Z w) (inject_Z r) = inject_Z (Z.min a (Z.max 0 (x - w / 2))).
Proof.
  intros. unfold xmin_upd. change (0 # 1) with (inject_Z 0).
  rewrite floordiv2_Z, <- inject_Z_sub, qmax_Z, qmin_Z. reflexivity.
Qed.
Lemma ymin_upd_spec : forall a x w r,
  ymin_upd (inject_Z a) (inject_Z x) (inject_Z w) (inject_Z r) = inject_Z (Z.min a (Z.max 0 (x - w / 2))).
Proof.
  intros. unfold ymin_upd. change (0 # 1) with (inject_Z 0).
  rewrite floordiv2_Z, <- inject_Z_sub, qmax_Z, qmin_Z. reflexivity.
Qed.
Lemma xmax_upd_spec : forall a x w r,
  xmax_upd (inject_Z a) (inject_Z x) (inject_Z w) (inject_Z r) = inject_Z (Z.max a (Z.min r (x + w / 2 + 1))).
Proof.
  intros. unfold xmax_upd. change (1 # 1) with (inject_Z 1).
  rewrite floordiv2_Z, <- !inject_Z_plus, qmin_Z, qmax_Z. reflexivity.
Qed.
Lemma ymax_upd_spec : forall a x w r,
  ymax_upd (inject_Z a) (inject_Z x) (inject_Z w) (inject_Z r) = inject_Z (Z.max a (Z.min r (x + w / 2 + 1))).
Proof.
  intros. unfold ymax_upd. change (1 # 1) with (inject_Z 1).
  rewrite floordiv2_Z, <- !inject_Z_plus, qmin_Z, qmax_Z. reflexivity.
Qed.

(* ---- slice bounds and the shift into the cut-out frame, on integer bounds *)
Lemma slice_spec : forall a b c d,
  slice_x_lo (inject_Z a) (inject_Z b) (inject_Z c) (inject_Z d) = inject_Z a /\
  slice_x_hi (inject_Z a) (inject_Z b) (inject_Z c) (inject_Z d) = inject_Z b /\
  slice_y_lo (inject_Z a) (inject_Z b) (inject_Z c) (inject_Z d) = inject_Z c /\
  slice_y_hi (inject_Z a) (inject_Z b) (inject_Z c) (inject_Z d) = inject_Z d.
Proof.
  intros. unfold slice_x_lo, slice_x_hi, slice_y_lo, slice_y_hi. rewrite !Qtrunc_Z. repeat split; reflexivity.
Qed.
Lemma shift_x_spec : forall a b c d, shift_x a b c d = a.
Proof. reflexivity. Qed.
Lemma shift_y_spec : forall a b c d, shift_y a b c d = c.
Proof. reflexivity. Qed.

(* ---- limits of sx, sy: the catalogue shape is always inside them, so lmfit never moves it when the
   parameter is added (false for the leaf before 318103b: Refuted/C05_shape_clipped.v) *)
Lemma shape_limits_spec : forall sx sy beam_a beam_b k, 0 <= sx -> 0 <= sy ->
  shape_lower sx sy beam_a beam_b k <= sx /\ sx <= shape_upper sx sy beam_a beam_b k /\
  shape_lower sx sy beam_a beam_b k <= sy /\ sy <= shape_upper sx sy beam_a beam_b k.
Proof.
  intros sx sy beam_a beam_b k Hx Hy. unfold shape_lower, shape_upper.
  set (m := qmin (qmin sx sy) (beam_b * k)). set (M := qmax sy sx).
  assert (H1 : m <= sx) by (eapply Qle_trans; [apply qmin_le_l|apply qmin_le_l]).
  assert (H2 : m <= sy) by (eapply Qle_trans; [apply qmin_le_l|apply qmin_le_r]).
  assert (H3 : sx <= M) by apply qmax_ge_r.
  assert (H4 : sy <= M) by apply qmax_ge_l.
  repeat split; lra.
Qed.

(* ---- vary table and copy-back tests *)
Lemma vary_amp_spec : forall st, vary_amp st = true.
Proof. reflexivity. Qed.
Lemma vary_xo_spec : forall st, vary_xo st = (2 <=? st)%Z.
Proof. reflexivity. Qed.
Lemma vary_yo_spec : forall st, vary_yo st = (2 <=? st)%Z.
Proof. reflexivity. Qed.
Lemma vary_sx_spec : forall st, vary_sx st = (3 <=? st)%Z.
Proof. reflexivity. Qed.
Lemma vary_sy_spec : forall st, vary_sy st = (3 <=? st)%Z.
Proof. reflexivity. Qed.
Lemma vary_theta_spec : forall st, vary_theta st = (3 <=? st)%Z.
Proof. reflexivity. Qed.
Lemma copy_pos_err_spec : forall st, copy_pos_err st = (st <? 2)%Z.
Proof. reflexivity. Qed.
Lemma copy_shape_err_spec : forall st, copy_shape_err st = (st <? 3)%Z.
Proof. reflexivity. Qed.
(* holds for both shapes the translator accepts (plain copy, or through _known_error) *)
Lemma copied_err_keeps : forall e, 0 < e \/ e = -(1 # 1) -> copied_err e = e.
Proof.
  intros e H. unfold copied_err.
  first [ reflexivity
        | destruct H as [H | ->]; [apply Qltb_iff in H; rewrite H; reflexivity | reflexivity] ].
Qed.

Lemma flag_PRIORIZED_spec : flag_PRIORIZED = 64%Z.
Proof. reflexivity. Qed.
Lemma flag_FIXED2PSF_spec : flag_FIXED2PSF = 4%Z.
Proof. reflexivity. Qed.

(* ---- unit conversions *)
Lemma to_cc_spec : forall s k, to_cc s k == s * k.
Proof. intros. unfold to_cc. ring. Qed.
Lemma from_cc_spec : forall s k, from_cc s k == s * k.
Proof. intros. unfold from_cc. ring. Qed.
Lemma arcsec_deg_roundtrip : forall a a', a' == to_deg a -> to_arcsec a' == a.
Proof. intros a a' H. unfold to_arcsec. rewrite H. unfold to_deg. field. Qed.
Lemma to_arcsec_comp : forall a a', a == a' -> to_arcsec a == to_arcsec a'.
Proof. intros a a' H. unfold to_arcsec. rewrite H. reflexivity. Qed.
