From Coq Require Import ZArith Bool List.
From Aegean Require Import Gen.Regions Gen.RegionOps Model.RegionModel Model.RegionOps.
Import ListNotations.
Open Scope Z_scope.

(* leaf lemmas *)
Lemma op_without_is_difference : op_without = 0. Proof. reflexivity. Qed.
Lemma op_intersect_is_intersection : op_intersect = 1. Proof. reflexivity. Qed.
Lemma op_symdiff_is_symmetric_difference : op_symmetric_difference = 2. Proof. reflexivity. Qed.
Lemma setop_skeleton : setop_skeleton_ok = true. Proof. reflexivity. Qed.
Lemma get_demoted_cache : get_demoted_returns_cache = true. Proof. reflexivity. Qed.

Lemma without_src_eq : forall s o, without_src s o = without s o.
Proof. intros s o. unfold without_src, without. rewrite op_without_is_difference. reflexivity. Qed.
Lemma intersect_src_eq : forall s o, intersect_src s o = intersect s o.
Proof. intros s o. unfold intersect_src, intersect. rewrite op_intersect_is_intersection. reflexivity. Qed.
Lemma symdiff_src_eq : forall s o, symdiff_src s o = symdiff s o.
Proof. intros s o. unfold symdiff_src, symdiff. rewrite op_symdiff_is_symmetric_difference. reflexivity. Qed.

Lemma setops_follow_source : forall s o,
  without_src s o = without s o /\ intersect_src s o = intersect s o /\ symdiff_src s o = symdiff s o.
Proof. intros s o. split; [apply without_src_eq|split; [apply intersect_src_eq|apply symdiff_src_eq]]. Qed.
