(* C12 - proofs about the exports of a Region (NUNIQ list / MOC FITS, DS9 polygons, .mim).

   Layout:
     1. characterising lemmas for the GENERATED leaves used here (Gen/Regions.v: uniq_lo, uniq_hi,
        uniq_code, mocorder; Gen/RegionExport.v: everything).  The only places where a leaf is
        unfolded; afterwards the leaves are opaque, so a changed leaf breaks exactly one named lemma.
     2. the NUNIQ codec: ununiq (uniq_code d p) = (d, p), injectivity
     3. the exported list: complete over levels 1..depth, no duplicates
     4. the decoded list IS the region (with C08's cover / absP), also after any history
     5. write_reg: one request to healpy.boundaries per distinct stored cell
     6. save / load *)
From Coq Require Import ZArith Bool List Lia Permutation.
From Aegean Require Import Gen.Regions Gen.RegionExport Model.RegionModel Model.RegionSpec
  Model.RegionExport Proofs.RegionProofs.
Import ListNotations.
Open Scope Z_scope.

(* ------------------------------------------------------------------------------------ *)
(** * 1. The generated leaves *)

Lemma uniq_lo_eq : uniq_lo = 1.
Proof. reflexivity. Qed.
Lemma uniq_hi_eq D : uniq_hi D = D + 1.
Proof. reflexivity. Qed.
Lemma uniq_code_eq d x : uniq_code d x = 4 ^ (d + 1) + x.
Proof. reflexivity. Qed.
Lemma mocorder_eq D : mocorder D = D.
Proof. reflexivity. Qed.
Lemma reg_lo_eq : reg_lo = 1.
Proof. reflexivity. Qed.
Lemma reg_hi_eq D : reg_hi D = D + 1.
Proof. reflexivity. Qed.
Lemma reg_nside_eq d : reg_nside d = 2 ^ d.
Proof. reflexivity. Qed.
Lemma reg_pixel_eq p : reg_pixel p = p.
Proof. reflexivity. Qed.
Lemma reg_step_eq : reg_step = 1.
Proof. reflexivity. Qed.
Lemma reg_nest_eq : reg_nest = true.
Proof. reflexivity. Qed.
Lemma reg_ra_divisor_eq : reg_ra_divisor = 15.
Proof. reflexivity. Qed.
Lemma reg_precision_eq : reg_precision = 2.
Proof. reflexivity. Qed.
Lemma fits_column_bits_eq : fits_column_bits = 64.
Proof. reflexivity. Qed.
Lemma fits_ordering_nuniq_eq : fits_ordering_nuniq = true.
Proof. reflexivity. Qed.
Lemma fits_pixtype_healpix_eq : fits_pixtype_healpix = true.
Proof. reflexivity. Qed.
Lemma fits_coordsys_icrs_eq : fits_coordsys_icrs = true.
Proof. reflexivity. Qed.

Local Opaque uniq_lo uniq_hi uniq_code mocorder reg_lo reg_hi reg_nside reg_pixel reg_step reg_nest
  reg_ra_divisor reg_precision fits_column_bits fits_ordering_nuniq fits_pixtype_healpix fits_coordsys_icrs
  children.

(* ------------------------------------------------------------------------------------ *)
(** * 2. The NUNIQ codec *)

Lemma pow4_pow2 d : 0 <= d -> 4 ^ d = 2 ^ (2 * d).
Proof. intros Hd. rewrite Z.pow_mul_r by lia. reflexivity. Qed.

(* order = floor(log4 a): every a in [4^d, 4^(d+1)) has floor(log2 a) in {2d, 2d+1} *)
Lemma log4_block d a : 0 <= d -> 4 ^ d <= a < 4 ^ (d + 1) -> Z.log2 a / 2 = d.
Proof.
  intros Hd [Hlo Hhi].
  assert (Ha : 0 < a) by (pose proof (pow4_pos d Hd); lia).
  rewrite pow4_pow2 in Hlo by lia. rewrite pow4_pow2 in Hhi by lia.
  apply Z.log2_le_pow2 in Hlo; [|exact Ha].
  apply Z.log2_lt_pow2 in Hhi; [|exact Ha].
  symmetry. apply (Z.div_unique_pos (Z.log2 a) 2 d (Z.log2 a - 2 * d)); lia.
Qed.

(* the quarter of a code of level d lies in [4^d, 4^(d+1)): this is where `12 * 4^d` pixels fit *)
Lemma uniq_quarter d p : 0 <= d -> 0 <= p < 12 * 4 ^ d ->
  4 ^ d <= (4 * 4 ^ d + p) / 4 < 4 ^ (d + 1).
Proof.
  intros Hd Hp. rewrite pow4_succ by lia.
  pose proof (pow4_pos d Hd) as HP. set (P := 4 ^ d) in *.
  replace (4 * P + p) with (p + P * 4) by lia. rewrite Z.div_add by lia.
  assert (0 <= p / 4) by (apply Z.div_pos; lia).
  assert (p / 4 < 3 * P) by (apply Z.div_lt_upper_bound; lia).
  lia.
Qed.

Theorem ununiq_uniq : forall d p, 0 <= d -> 0 <= p < 12 * 4 ^ d -> ununiq (uniq_code d p) = (d, p).
Proof.
  intros d p Hd Hp. rewrite uniq_code_eq. unfold ununiq. rewrite pow4_succ by lia.
  assert (E : Z.log2 ((4 * 4 ^ d + p) / 4) / 2 = d)
    by (apply log4_block; [exact Hd | apply uniq_quarter; assumption]).
  cbv zeta. rewrite E. f_equal. lia.
Qed.

Theorem uniq_inj : forall d1 p1 d2 p2,
  0 <= d1 -> 0 <= p1 < 12 * 4 ^ d1 -> 0 <= d2 -> 0 <= p2 < 12 * 4 ^ d2 ->
  uniq_code d1 p1 = uniq_code d2 p2 -> d1 = d2 /\ p1 = p2.
Proof.
  intros d1 p1 d2 p2 Hd1 Hp1 Hd2 Hp2 E.
  pose proof (ununiq_uniq d1 p1 Hd1 Hp1) as E1. pose proof (ununiq_uniq d2 p2 Hd2 Hp2) as E2.
  rewrite E in E1. rewrite E1 in E2. inversion E2. split; reflexivity.
Qed.

Lemma vcell_code D c : vcell D c -> ununiq (uniq_code (fst c) (snd c)) = c.
Proof.
  intros [Hd Hp]. destruct c as [d p]. cbn [fst snd] in *. apply ununiq_uniq; lia.
Qed.

(* codes are positive and fit the signed integer column for every depth HEALPix supports *)
Lemma uniq_code_range d p : 0 <= d -> 0 <= p < 12 * 4 ^ d -> 4 ^ (d + 1) <= uniq_code d p < 4 ^ (d + 2).
Proof.
  intros Hd Hp. rewrite uniq_code_eq. replace (d + 2) with ((d + 1) + 1) by lia.
  rewrite (pow4_succ (d + 1)) by lia. rewrite pow4_succ by lia. lia.
Qed.

(* ------------------------------------------------------------------------------------ *)
(** * 3. The exported list *)

Lemma in_uniq s u :
  In u (uniq s) <-> exists d p, 1 <= d <= depth s /\ In (d, p) (cells s) /\ u = uniq_code d p.
Proof.
  unfold uniq. rewrite in_flat_map. rewrite uniq_lo_eq, uniq_hi_eq. split.
  - intros [d [Hd Hu]]. apply in_zrange in Hd. apply in_map_iff in Hu. destruct Hu as [p [Hu Hp]].
    apply nodup_In in Hp. apply in_level in Hp. exists d, p.
    split; [lia|]. split; [exact Hp | symmetry; exact Hu].
  - intros [d [p [Hd [Hin Hu]]]]. exists d. split; [apply in_zrange; lia|].
    apply in_map_iff. exists p. split; [symmetry; exact Hu|]. apply nodup_In. apply in_level. exact Hin.
Qed.

(* every stored cell of every level 1..depth - the deepest included - is exported, nothing else *)
Theorem uniq_complete : forall s u, valid s ->
  (In u (uniq s) <-> exists c, In c (cells s) /\ u = uniq_code (fst c) (snd c)).
Proof.
  intros s u [HD Hv]. rewrite in_uniq. split.
  - intros [d [p [Hd [Hin Hu]]]]. exists (d, p). split; [exact Hin | exact Hu].
  - intros [[d p] [Hin Hu]]. cbn [fst snd] in Hu. exists d, p.
    pose proof (vcells_in _ _ _ Hv Hin) as [Hd _]. cbn [fst] in Hd.
    split; [exact Hd|]. split; [exact Hin | exact Hu].
Qed.

Lemma NoDup_map_inj_on {A B} (f : A -> B) (l : list A) :
  (forall x y, In x l -> In y l -> f x = f y -> x = y) -> NoDup l -> NoDup (map f l).
Proof.
  induction l as [|a l IH]; intros Hinj Hl; cbn [map]; [constructor|].
  inversion Hl as [|a' l' Ha Hl']; subst. constructor.
  - intros Hin. apply in_map_iff in Hin. destruct Hin as [x [Hx Hxl]].
    assert (x = a) by (apply Hinj; [right; exact Hxl | left; reflexivity | exact Hx]). subst x. contradiction.
  - apply IH; [|exact Hl']. intros x y Hx Hy. apply Hinj; right; assumption.
Qed.

Theorem uniq_nodup : forall s, valid s -> NoDup (uniq s).
Proof.
  intros s [HD Hv]. unfold uniq. rewrite uniq_lo_eq, uniq_hi_eq.
  assert (Hvp : forall d p, In p (nodup Z.eq_dec (level (cells s) d)) -> 0 <= d /\ 0 <= p < 12 * 4 ^ d).
  { intros d p Hp. apply nodup_In in Hp. apply in_level in Hp.
    pose proof (vcells_in _ _ _ Hv Hp) as [Hd Hpp]. cbn [fst snd] in *. lia. }
  apply NoDup_flat_map_intro.
  - apply NoDup_zrange.
  - intros d _. apply NoDup_map_inj_on; [|apply NoDup_nodup].
    intros x y Hx Hy E. destruct (Hvp d x Hx) as [Hd Hxx]. destruct (Hvp d y Hy) as [_ Hyy].
    exact (proj2 (uniq_inj d x d y Hd Hxx Hd Hyy E)).
  - intros d1 d2 z _ _ H1 H2. apply in_map_iff in H1. destruct H1 as [p1 [E1 Hp1]].
    apply in_map_iff in H2. destruct H2 as [p2 [E2 Hp2]].
    destruct (Hvp d1 p1 Hp1) as [Hd1 Hpp1]. destruct (Hvp d2 p2 Hp2) as [Hd2 Hpp2].
    rewrite <- E2 in E1. exact (proj1 (uniq_inj d1 p1 d2 p2 Hd1 Hpp1 Hd2 Hpp2 E1)).
Qed.

(* every exported code decodes to a stored cell, and every stored cell is the decoding of one *)
Theorem decode_is_cells : forall s c, valid s -> (In c (map ununiq (uniq s)) <-> In c (cells s)).
Proof.
  intros s c Hval. pose proof Hval as [HD Hv]. rewrite in_map_iff. split.
  - intros [u [Hc Hu]]. apply (uniq_complete s u Hval) in Hu. destruct Hu as [c' [Hin Hu]]. subst u.
    rewrite (vcell_code (depth s) c' (vcells_in _ _ _ Hv Hin)) in Hc. subst c'. exact Hin.
  - intros Hin. exists (uniq_code (fst c) (snd c)). split.
    + exact (vcell_code (depth s) c (vcells_in _ _ _ Hv Hin)).
    + apply (uniq_complete s _ Hval). exists c. split; [exact Hin | reflexivity].
Qed.

Theorem decoded_levels : forall s u, valid s -> In u (uniq s) ->
  1 <= fst (ununiq u) <= mocorder (depth s) /\ 0 <= snd (ununiq u) < 12 * 4 ^ fst (ununiq u).
Proof.
  intros s u Hval Hu. pose proof Hval as [HD Hv]. rewrite mocorder_eq.
  assert (Hin : In (ununiq u) (cells s)) by (apply (decode_is_cells s _ Hval); apply in_map; exact Hu).
  exact (vcells_in _ _ _ Hv Hin).
Qed.

Theorem uniq_fits_column : forall s, valid s -> depth s <= 29 ->
  Forall (fun u => 0 < u < 2 ^ (fits_column_bits - 1)) (uniq s).
Proof.
  intros s Hval H29. pose proof Hval as [HD Hv]. apply Forall_forall. intros u Hu.
  apply (uniq_complete s u Hval) in Hu. destruct Hu as [[d p] [Hin Hu]]. cbn [fst snd] in Hu.
  pose proof (vcells_in _ _ _ Hv Hin) as [Hd Hp]. cbn [fst snd] in *.
  pose proof (uniq_code_range d p ltac:(lia) Hp) as [Hlo Hhi]. rewrite <- Hu in *.
  rewrite fits_column_bits_eq. pose proof (pow4_pos (d + 1) ltac:(lia)).
  assert (4 ^ (d + 2) <= 4 ^ 31) by (apply Z.pow_le_mono_r; lia).
  change (2 ^ (64 - 1)) with (2 * 4 ^ 31). lia.
Qed.

(* ------------------------------------------------------------------------------------ *)
(** * 4. The decoded export is the region *)

Theorem moc_is_region : forall s, valid s ->
  forall q, absP s q <-> exists u, In u (uniq s) /\ cover (depth s) (ununiq u) q.
Proof.
  intros s Hval q. pose proof Hval as [HD Hv]. unfold absP, cover_set. split.
  - intros [c [Hin Hc]]. exists (uniq_code (fst c) (snd c)). split.
    + apply (uniq_complete s _ Hval). exists c. split; [exact Hin | reflexivity].
    + rewrite (vcell_code (depth s) c (vcells_in _ _ _ Hv Hin)). exact Hc.
  - intros [u [Hu Hc]]. exists (ununiq u). split; [|exact Hc].
    apply (decode_is_cells s _ Hval). apply in_map. exact Hu.
Qed.

(* the executable reader: pixels of the stated order obtained from the file *)
Theorem moc_pixels_is_region : forall s, valid s ->
  forall q, In q (moc_pixels (write_fits s)) <-> absP s q.
Proof.
  intros s Hval q. pose proof Hval as [HD Hv].
  unfold moc_pixels, decode, write_fits. cbn [moc_order moc_npix]. rewrite mocorder_eq.
  rewrite in_flat_map. unfold absP, cover_set. split.
  - intros [c [Hin Hq]]. apply (decode_is_cells s c Hval) in Hin. exists c. split; [exact Hin|].
    pose proof (vcells_in _ _ _ Hv Hin) as [Hd Hp]. destruct c as [d p]. cbn [fst snd] in *.
    apply (expand_cover (depth s) d p q); [lia | lia | exact Hq].
  - intros [c [Hin Hq]]. exists c. split; [apply (decode_is_cells s c Hval); exact Hin|].
    pose proof (vcells_in _ _ _ Hv Hin) as [Hd Hp]. destruct c as [d p]. cbn [fst snd] in *.
    apply (expand_cover (depth s) d p q); [lia | lia | exact Hq].
Qed.

Theorem moc_order_is_depth : forall s, moc_order (write_fits s) = depth s /\ mocorder (depth s) = depth s.
Proof. intros s. unfold write_fits. cbn [moc_order]. rewrite mocorder_eq. split; reflexivity. Qed.

Theorem moc_keywords : forall s,
  moc_nuniq (write_fits s) = true /\ moc_healpix (write_fits s) = true /\ moc_icrs (write_fits s) = true.
Proof.
  intros s. unfold write_fits. cbn [moc_nuniq moc_healpix moc_icrs].
  rewrite fits_ordering_nuniq_eq, fits_pixtype_healpix_eq, fits_coordsys_icrs_eq. repeat split.
Qed.

(* whatever operations or queries preceded the export *)
Theorem moc_after_history : forall D ops, 1 <= D -> Forall (op_ok D) ops ->
  let s := run (init D) ops in
  moc_order (write_fits s) = D /\
  (forall q, (exists u, In u (moc_npix (write_fits s)) /\ cover (moc_order (write_fits s)) (ununiq u) q)
             <-> fold_left (spec_step D) ops (fun _ => False) q) /\
  (forall q, In q (moc_pixels (write_fits s)) <-> fold_left (spec_step D) ops (fun _ => False) q).
Proof.
  intros D ops HD Hops s. destruct (reachable_inv D ops HD Hops) as [[Hval _] Hdep]. fold s in Hval, Hdep.
  destruct (moc_order_is_depth s) as [Ho _]. rewrite Ho, Hdep.
  split; [reflexivity|]. split.
  - intros q. rewrite <- (history_refines D ops HD Hops q). fold s.
    unfold write_fits. cbn [moc_npix]. rewrite <- Hdep. symmetry. apply moc_is_region. exact Hval.
  - intros q. rewrite <- (history_refines D ops HD Hops q). fold s. apply moc_pixels_is_region. exact Hval.
Qed.

(* a query between two exports changes the stored representation (everything is demoted) but
   not what the export means *)
Theorem export_after_query : forall s o, Inv s ->
  match o with Within _ | GetDemoted | GetArea | Uniq | SaveLoad => True | _ => False end ->
  forall q, In q (moc_pixels (write_fits (fst (step s o)))) <-> In q (moc_pixels (write_fits s)).
Proof.
  intros s o HI Ho q.
  assert (Hok : op_ok (depth s) o) by (destruct o; try contradiction; exact I).
  destruct (step_inv s o HI Hok) as [[Hval' _] _].
  rewrite (moc_pixels_is_region _ Hval'), (moc_pixels_is_region s (proj1 HI)).
  exact (proj1 (queries_pure s o HI Ho) q).
Qed.

(* ------------------------------------------------------------------------------------ *)
(** * 5. write_reg *)

Definition cell_eq_dec : forall a b : cell, {a = b} + {a <> b}.
Proof. decide equality; apply Z.eq_dec. Defined.

Lemma in_reg_cells s c : In c (reg_cells s) <-> 1 <= fst c <= depth s /\ In c (cells s).
Proof.
  unfold reg_cells. rewrite in_flat_map, reg_lo_eq, reg_hi_eq. split.
  - intros [d [Hd Hc]]. apply in_zrange in Hd. apply in_map_iff in Hc. destruct Hc as [p [Hc Hp]].
    apply nodup_In in Hp. apply in_level in Hp. subst c. cbn [fst]. split; [lia | exact Hp].
  - intros [Hd Hin]. destruct c as [d p]. cbn [fst] in Hd. exists d. split; [apply in_zrange; lia|].
    apply in_map_iff. exists p. split; [reflexivity|]. apply nodup_In. apply in_level. exact Hin.
Qed.

Lemma NoDup_reg_cells s : NoDup (reg_cells s).
Proof.
  unfold reg_cells. apply NoDup_flat_map_intro.
  - apply NoDup_zrange.
  - intros d _. apply NoDup_map_inj_on; [|apply NoDup_nodup]. intros x y _ _ E. inversion E. reflexivity.
  - intros d1 d2 z _ _ H1 H2. apply in_map_iff in H1. destruct H1 as [p1 [E1 _]].
    apply in_map_iff in H2. destruct H2 as [p2 [E2 _]]. rewrite <- E2 in E1. inversion E1. reflexivity.
Qed.

(* one polygon per distinct stored cell, each stored cell exactly once, every level 1..depth *)
Theorem reg_cells_exact : forall s, valid s ->
  NoDup (reg_cells s) /\ (forall c, In c (reg_cells s) <-> In c (cells s)) /\
  Permutation (reg_cells s) (nodup cell_eq_dec (cells s)).
Proof.
  intros s [HD Hv].
  assert (Hiff : forall c, In c (reg_cells s) <-> In c (cells s)).
  { intros c. rewrite in_reg_cells. split; [intros [_ H]; exact H|]. intros Hin.
    split; [exact (proj1 (vcells_in _ _ _ Hv Hin)) | exact Hin]. }
  split; [apply NoDup_reg_cells|]. split; [exact Hiff|].
  apply NoDup_Permutation; [apply NoDup_reg_cells | apply NoDup_nodup|].
  intros c. rewrite Hiff, nodup_In. reflexivity.
Qed.

Section WriteRegProofs.
  Variable vertex : Type.
  Variable boundaries : Z -> Z -> Z -> bool -> list vertex.   (* healpy.boundaries(nside, pix, step, nest) *)
  Variable corners : cell -> list vertex.                       (* the corners of HEALPix cell (level, pixel) *)
  (* library hypothesis (validated against healpy and an independent HEALPix corner computation on
     every run): with step=1 and nested numbering healpy returns the corners of the pixel *)
  Hypothesis boundaries_corners : forall d p, 1 <= d -> 0 <= p < 12 * 4 ^ d ->
    boundaries (2 ^ d) p 1 true = corners (d, p).

  Theorem reg_count : forall s, valid s ->
    length (write_reg vertex boundaries s) = length (nodup cell_eq_dec (cells s)).
  Proof.
    intros s Hval. unfold write_reg. rewrite map_length.
    apply Permutation_length. exact (proj2 (proj2 (reg_cells_exact s Hval))).
  Qed.

  Theorem reg_polygons_are_corners : forall s, valid s ->
    write_reg vertex boundaries s = map corners (reg_cells s).
  Proof.
    intros s [HD Hv]. unfold write_reg. apply map_ext_in. intros [d p] Hc.
    apply in_reg_cells in Hc. destruct Hc as [Hd Hin]. cbn [fst] in Hd.
    pose proof (vcells_in _ _ _ Hv Hin) as [_ Hp]. cbn [fst snd] in Hp.
    unfold polygon_of, bnd_request. cbn [fst snd].
    rewrite reg_nside_eq, reg_pixel_eq, reg_step_eq, reg_nest_eq.
    apply boundaries_corners; lia.
  Qed.
End WriteRegProofs.

(* the requests themselves, without any hypothesis on healpy *)
Theorem reg_requests_exact : forall s,
  reg_requests s = map (fun c => (2 ^ fst c, snd c, 1, true)) (reg_cells s).
Proof.
  intros s. unfold reg_requests. apply map_ext. intros c. unfold bnd_request.
  rewrite reg_nside_eq, reg_pixel_eq, reg_step_eq, reg_nest_eq. reflexivity.
Qed.

(* the right ascension is printed in hours: a full turn of 360 degrees is 24 units *)
Theorem reg_ra_in_hours : 360 = 24 * reg_ra_divisor.
Proof. rewrite reg_ra_divisor_eq. reflexivity. Qed.

(* ------------------------------------------------------------------------------------ *)
(** * 6. save / load *)

Theorem saveload_step : forall s, step s SaveLoad = (s, OUnit).
Proof. intros s. reflexivity. Qed.

Section PickleProofs.
  Variable blob : Type.
  Variable dump : region -> blob.
  Variable load : blob -> region.
  (* library hypothesis (validated on real .mim files on every run: maxdepth, every level of
     pixeldict, demoted and its aliasing with pixeldict[maxdepth] are reproduced) *)
  Hypothesis pickle_id : forall s, load (dump s) = s.

  Theorem saveload_id : forall s,
    load_mim blob load (save_mim blob dump s) = s /\
    (forall ops, trace (load_mim blob load (save_mim blob dump s)) ops = trace s ops) /\
    mim2fits blob load (save_mim blob dump s) = write_fits s /\
    mim2reg blob load (save_mim blob dump s) = reg_cells s.
  Proof.
    intros s. unfold load_mim, save_mim, mim2fits, mim2reg, load_mim. rewrite pickle_id.
    repeat split; reflexivity.
  Qed.
End PickleProofs.
