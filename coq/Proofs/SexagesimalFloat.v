(* C17 (strings): the single rounding cs = int(round(x * K)) of dec2dms / dec2hms, for EVERY binary64 x.
   Coq's primitive floats are related to their IEEE-754 specification by the FloatAxioms of the standard
   library (mul_spec, abs_spec, ltb_spec, ...) and to real numbers by Flocq (Prim2B, Bmult_correct, error_N_FLT).
   Result: |cs - x*K| <= 1/2 + |x*K| * 2^-53 + 2^-1075, cs is monotone against integer bounds, and the sign test
   `x < 0` of the code is the sign of the real value. *)
From Coq Require Import ZArith Reals Lra Lia Floats SpecFloat Psatz String.
From Flocq Require Import Core Relative BinarySingleNaN PrimFloat.
From Aegean Require Import Gen.Sexagesimal Model.Sexagesimal.
Open Scope R_scope.

(* the real value of a primitive float (0 for non-finite ones) *)
Notation pfloat := Coq.Floats.PrimFloat.float.
Definition FR (x : pfloat) : R := B2R (Prim2B x).
Lemma FR_SF x : FR x = SF2R radix2 (Prim2SF x).
Proof. unfold FR, Prim2B. apply B2R_SF2B. Qed.

Lemma pow2_bpow e : (0 <= e)%Z -> IZR (2 ^ e) = bpow radix2 e.
Proof. intros H. rewrite <- (IZR_Zpower radix2) by assumption. reflexivity. Qed.

(* --- int(round(.)) of a finite float is within 1/2 of its value --- *)
Lemma rhe_mag_half m e : Rabs (IZR (rhe_mag m e) - IZR (Zpos m) * bpow radix2 e) <= 1 / 2.
Proof.
  unfold rhe_mag. destruct (Z.leb_spec 0 e) as [He|He].
  - rewrite mult_IZR, pow2_bpow by assumption.
    unfold Rminus. rewrite Rplus_opp_r, Rabs_R0. lra.
  - set (q := (2 ^ (- e))%Z).
    assert (Hq : (0 < q)%Z) by (apply Z.pow_pos_nonneg; lia).
    assert (HqR : IZR q = bpow radix2 (- e)) by (unfold q; apply pow2_bpow; lia).
    assert (Hb : bpow radix2 e = / IZR q) by (rewrite HqR, <- bpow_opp; f_equal; lia).
    pose proof (Z.div_mod (Z.pos m) q ltac:(lia)) as Hdm.
    pose proof (Z.mod_pos_bound (Z.pos m) q Hq) as Hr.
    set (k := (Z.pos m / q)%Z) in *. set (r := (Z.pos m mod q)%Z) in *.
    assert (HqR0 : 0 < IZR q) by (apply IZR_lt; lia).
    rewrite Hb, Hdm, plus_IZR, mult_IZR.
    assert (Hr0 : 0 <= IZR r) by (apply IZR_le; lia).
    assert (Hrq : IZR r < IZR q) by (apply IZR_lt; lia).
    assert (Hv : (IZR q * IZR k + IZR r) * / IZR q = IZR k + IZR r / IZR q) by (field; lra).
    rewrite Hv.
    destruct (Z.ltb_spec (2 * r) q) as [H1|H1].
    + assert (2 * IZR r < IZR q) by (rewrite <- mult_IZR; apply IZR_lt; lia).
      replace (IZR k - (IZR k + IZR r / IZR q)) with (- (IZR r / IZR q)) by ring.
      rewrite Rabs_Ropp, Rabs_right.
      * apply Rmult_le_reg_r with (IZR q); [lra|]. unfold Rdiv. rewrite Rmult_assoc, Rinv_l by lra. lra.
      * apply Rle_ge. apply Rmult_le_pos; [lra | left; apply Rinv_0_lt_compat; lra].
    + destruct (Z.ltb_spec q (2 * r)) as [H2|H2].
      * assert (IZR q < 2 * IZR r) by (rewrite <- mult_IZR; apply IZR_lt; lia).
        rewrite plus_IZR.
        replace (IZR k + 1 - (IZR k + IZR r / IZR q)) with ((IZR q - IZR r) / IZR q) by (field; lra).
        rewrite Rabs_right.
        -- apply Rmult_le_reg_r with (IZR q); [lra|]. unfold Rdiv. rewrite Rmult_assoc, Rinv_l by lra. lra.
        -- apply Rle_ge. apply Rmult_le_pos; [lra | left; apply Rinv_0_lt_compat; lra].
      * assert (Heq : (2 * r = q)%Z) by lia.
        assert (HeqR : 2 * IZR r = IZR q) by (rewrite <- mult_IZR; f_equal; assumption).
        assert (Hhalf : IZR r / IZR q = 1 / 2) by (field_simplify_eq; lra).
        rewrite Hhalf.
        destruct (Z.even k).
        -- replace (IZR k - (IZR k + 1 / 2)) with (- (1 / 2)) by ring. rewrite Rabs_Ropp, Rabs_right; lra.
        -- rewrite plus_IZR. replace (IZR k + 1 - (IZR k + 1 / 2)) with (1 / 2) by field. rewrite Rabs_right; lra.
Qed.

Lemma round_half_even_half f cs : round_half_even f = Some cs -> Rabs (IZR cs - FR f) <= 1 / 2.
Proof.
  unfold round_half_even. rewrite FR_SF. destruct (Prim2SF f) as [s|s| |s m e]; try discriminate.
  - intros H; inversion H. cbn. rewrite Rminus_0_r, Rabs_R0. lra.
  - intros H; injection H as <-. unfold SF2R, F2R; cbn [Fnum Fexp]. pose proof (rhe_mag_half m e) as Hh.
    destruct s; cbn [cond_Zopp].
    + assert (Hv : IZR (- rhe_mag m e) - IZR (- Z.pos m) * bpow radix2 e
                   = - (IZR (rhe_mag m e) - IZR (Z.pos m) * bpow radix2 e)).
      { rewrite !opp_IZR. ring. }
      rewrite Hv, Rabs_Ropp. exact Hh.
    + exact Hh.
Qed.

Definition rnd64 (v : R) : R := round radix2 (SpecFloat.fexp 53 1024) ZnearestE v.

Lemma FR_const_dms : FR (float_of_Z dms_scale) = 360000.
Proof.
  rewrite FR_SF.
  replace (Prim2SF (float_of_Z dms_scale)) with (S754_finite false 6184752906240000 (-34)) by (vm_compute; reflexivity).
  unfold SF2R, F2R; cbn [Fnum Fexp cond_Zopp].
  change (bpow radix2 (-34)) with (/ IZR (Z.pow_pos 2 34)).
  replace (Z.pow_pos 2 34) with 17179869184%Z by reflexivity. lra.
Qed.
Lemma FR_const_hms : FR (float_of_Z hms_scale) = 24000.
Proof.
  rewrite FR_SF.
  replace (Prim2SF (float_of_Z hms_scale)) with (S754_finite false 6597069766656000 (-38)) by (vm_compute; reflexivity).
  unfold SF2R, F2R; cbn [Fnum Fexp cond_Zopp].
  change (bpow radix2 (-38)) with (/ IZR (Z.pow_pos 2 38)).
  replace (Z.pow_pos 2 38) with 274877906944%Z by reflexivity. lra.
Qed.

(* one correctly rounded product: value and finiteness, when it cannot overflow *)
Lemma FR_mul (a c : pfloat) :
  BinarySingleNaN.is_finite (Prim2B a) = true -> BinarySingleNaN.is_finite (Prim2B c) = true ->
  Rabs (FR a * FR c) <= bpow radix2 1020 ->
  FR (a * c)%float = rnd64 (FR a * FR c) /\ BinarySingleNaN.is_finite (Prim2B (a * c)%float) = true.
Proof.
  intros Ha Hc Hb. unfold FR in *. rewrite mul_equiv.
  pose proof (Bmult_correct _ _ Hprec Hmax mode_NE (Prim2B a) (Prim2B c)) as H.
  rewrite Rlt_bool_true in H.
  - destruct H as (H1 & H2 & _). split; [exact H1|]. rewrite H2, Ha, Hc. reflexivity.
  - apply Rle_lt_trans with (bpow radix2 1020); [|apply bpow_lt; reflexivity].
    apply abs_round_le_generic; [apply fexp_correct; exact Hprec | auto with typeclass_instances | | exact Hb].
    apply generic_format_bpow. cbv. discriminate.
Qed.

Lemma finite_model x : Model.Sexagesimal.is_finite x = BinarySingleNaN.is_finite (Prim2B x).
Proof.
  rewrite <- is_finite_SF_B2SF, B2SF_Prim2B. unfold Model.Sexagesimal.is_finite.
  destruct (Prim2SF x); reflexivity.
Qed.

(* error of one rounding to binary64: relative 2^-53 plus the subnormal quantum *)
Definition u64 : R := / 2 * bpow radix2 (-52).
Definition eta64 : R := / 2 * bpow radix2 (-1074).
Lemma rnd64_err v : Rabs (rnd64 v - v) <= Rabs v * u64 + eta64.
Proof.
  unfold rnd64. change (SpecFloat.fexp 53 1024) with (FLT_exp (-1074) 53).
  destruct (error_N_FLT radix2 (-1074) 53 ltac:(lia) (fun x => negb (Z.even x)) v) as (eps & eta & He & Ht & _ & Hr).
  change (Znearest (fun x => negb (Z.even x))) with ZnearestE in Hr. rewrite Hr.
  replace (v * (1 + eps) + eta - v) with (v * eps + eta) by ring.
  eapply Rle_trans; [apply Rabs_triang|]. rewrite Rabs_mult.
  change (-53 + 1)%Z with (-52)%Z in He. fold u64 in He. fold eta64 in Ht.
  apply Rplus_le_compat; [|exact Ht]. apply Rmult_le_compat_l; [apply Rabs_pos | exact He].
Qed.

Lemma rnd64_int_le v n : (Z.abs n < 2 ^ 53)%Z -> v <= IZR n -> rnd64 v <= IZR n.
Proof.
  intros Hn Hv. unfold rnd64. change (SpecFloat.fexp 53 1024) with (FLT_exp (-1074) 53).
  rewrite <- (round_generic radix2 (FLT_exp (-1074) 53) ZnearestE (IZR n)).
  - apply round_le; [apply FLT_exp_valid; reflexivity | auto with typeclass_instances | exact Hv].
  - apply generic_format_FLT. exists (Float radix2 n 0); cbn [Fnum Fexp].
    + unfold F2R; cbn. ring.
    + exact Hn.
    + lia.
Qed.


Lemma rnd64_int_ge v n : (Z.abs n < 2 ^ 53)%Z -> IZR n <= v -> IZR n <= rnd64 v.
Proof.
  intros Hn Hv. unfold rnd64. change (SpecFloat.fexp 53 1024) with (FLT_exp (-1074) 53).
  rewrite <- (round_generic radix2 (FLT_exp (-1074) 53) ZnearestE (IZR n)) at 1.
  - apply round_le; [apply FLT_exp_valid; reflexivity | auto with typeclass_instances | exact Hv].
  - apply generic_format_FLT. exists (Float radix2 n 0); cbn [Fnum Fexp].
    + unfold F2R; cbn. ring.
    + exact Hn.
    + lia.
Qed.

(* ---- cs = int(round(a * c)) for finite a, a constant c of value K <= 2^20, no overflow ---- *)
Section Rounding.
  Variables (a c : pfloat) (K : R) (cs : Z).
  Hypothesis Hfa : Model.Sexagesimal.is_finite a = true.
  Hypothesis Hfc : Model.Sexagesimal.is_finite c = true.
  Hypothesis HK : FR c = K.
  Hypothesis HK0 : 0 <= K <= 1048576.
  Hypothesis Hbig : Rabs (FR a) <= bpow radix2 1000.
  Hypothesis Hcs : round_half_even (a * c)%float = Some cs.

  Lemma product_value : FR (a * c)%float = rnd64 (FR a * K).
  Proof.
    destruct (FR_mul a c) as [H _].
    - rewrite <- finite_model. exact Hfa.
    - rewrite <- finite_model. exact Hfc.
    - rewrite HK, Rabs_mult, (Rabs_right K) by lra.
      apply Rle_trans with (bpow radix2 1000 * bpow radix2 20).
      + apply Rmult_le_compat; [apply Rabs_pos | lra | exact Hbig |].
        change (bpow radix2 20) with (IZR (Z.pow_pos 2 20)). replace (Z.pow_pos 2 20) with 1048576%Z by reflexivity. lra.
      + rewrite <- bpow_plus. apply bpow_le. lia.
    - rewrite H, HK. reflexivity.
  Qed.

  Lemma rounding_spec : Rabs (IZR cs - FR a * K) <= 1 / 2 + (Rabs (FR a * K) * u64 + eta64).
  Proof.
    pose proof (round_half_even_half _ _ Hcs) as H1. rewrite product_value in H1.
    pose proof (rnd64_err (FR a * K)) as H2.
    set (v := FR a * K) in *. set (p := rnd64 v) in *.
    replace (IZR cs - v) with ((IZR cs - p) + (p - v)) by ring.
    eapply Rle_trans; [apply Rabs_triang|]. lra.
  Qed.

  Lemma rounding_le n : (Z.abs n < 2 ^ 53)%Z -> FR a * K <= IZR n -> (cs <= n)%Z.
  Proof.
    intros Hn Hv. pose proof (round_half_even_half _ _ Hcs) as H1. rewrite product_value in H1.
    pose proof (rnd64_int_le _ _ Hn Hv) as H2.
    assert (H3 : IZR cs - rnd64 (FR a * K) <= 1 / 2) by (eapply Rle_trans; [apply Rle_abs | exact H1]).
    assert (H4 : IZR cs < IZR (n + 1)) by (rewrite plus_IZR; lra).
    apply lt_IZR in H4. lia.
  Qed.
  Lemma rounding_ge n : (Z.abs n < 2 ^ 53)%Z -> IZR n <= FR a * K -> (n <= cs)%Z.
  Proof.
    intros Hn Hv. pose proof (round_half_even_half _ _ Hcs) as H1. rewrite product_value in H1.
    pose proof (rnd64_int_ge _ _ Hn Hv) as H2.
    assert (H3 : rnd64 (FR a * K) - IZR cs <= 1 / 2).
    { eapply Rle_trans; [apply Rle_abs|]. rewrite Rabs_minus_sym. exact H1. }
    assert (H4 : IZR (n - 1) < IZR cs) by (rewrite minus_IZR; lra).
    apply lt_IZR in H4. lia.
  Qed.
End Rounding.

(* ---- the sign test `x < 0` of the code ---- *)
Lemma ltb_zero x : Model.Sexagesimal.is_finite x = true ->
  PrimFloat.ltb x PrimFloat.zero = (if Rlt_dec (FR x) 0 then true else false).
Proof.
  intros Hf. rewrite ltb_equiv, Bltb_correct.
  - replace (B2R (Prim2B PrimFloat.zero)) with 0.
    + fold (FR x). unfold Rlt_bool. destruct (Rcompare_spec (FR x) 0) as [H|H|H]; destruct (Rlt_dec (FR x) 0); try reflexivity; lra.
    + rewrite zero_equiv, Prim2B_B2Prim. reflexivity.
  - rewrite <- finite_model. exact Hf.
  - rewrite zero_equiv, Prim2B_B2Prim. reflexivity.
Qed.

Lemma FR_abs x : FR (PrimFloat.abs x) = Rabs (FR x).
Proof. unfold FR. rewrite abs_equiv. apply B2R_Babs. Qed.
Lemma finite_abs x : Model.Sexagesimal.is_finite (PrimFloat.abs x) = Model.Sexagesimal.is_finite x.
Proof. rewrite !finite_model, abs_equiv. apply is_finite_Babs. Qed.
Lemma finite_const_dms : Model.Sexagesimal.is_finite (float_of_Z dms_scale) = true.
Proof. vm_compute. reflexivity. Qed.
Lemma finite_const_hms : Model.Sexagesimal.is_finite (float_of_Z hms_scale) = true.
Proof. vm_compute. reflexivity. Qed.

(* ---- dec2dms: for every finite binary64 x (|x| <= 2^1000, so that x * 360000 cannot overflow) ---- *)
Theorem dms_hundredths_spec (x : pfloat) (cs : Z) :
  Model.Sexagesimal.is_finite x = true -> Rabs (FR x) <= bpow radix2 1000 -> dms_hundredths x = Some cs ->
  Rabs (IZR cs - Rabs (FR x) * 360000) <= 1 / 2 + (Rabs (FR x) * 360000 * u64 + eta64) /\
  (0 <= cs)%Z /\
  (forall n : Z, (Z.abs n < 2 ^ 53)%Z -> Rabs (FR x) * 360000 <= IZR n -> (cs <= n)%Z).
Proof.
  intros Hf Hb Hcs. unfold dms_hundredths in Hcs.
  assert (Hfa : Model.Sexagesimal.is_finite (PrimFloat.abs x) = true) by (rewrite finite_abs; exact Hf).
  assert (Hba : Rabs (FR (PrimFloat.abs x)) <= bpow radix2 1000) by (rewrite FR_abs, Rabs_Rabsolu; exact Hb).
  assert (HK0 : 0 <= 360000 <= 1048576) by lra.
  pose proof (rounding_spec _ _ _ _ Hfa finite_const_dms FR_const_dms HK0 Hba Hcs) as H1.
  pose proof (rounding_le _ _ _ _ Hfa finite_const_dms FR_const_dms HK0 Hba Hcs) as H2.
  pose proof (rounding_ge _ _ _ _ Hfa finite_const_dms FR_const_dms HK0 Hba Hcs 0%Z) as H3.
  rewrite FR_abs in H1, H2, H3.
  rewrite (Rabs_right (Rabs (FR x) * 360000)) in H1 by (apply Rle_ge, Rmult_le_pos; [apply Rabs_pos | lra]).
  split; [exact H1|]. split; [|exact H2].
  apply H3; [reflexivity|]. apply Rmult_le_pos; [apply Rabs_pos | lra].
Qed.

(* ---- dec2hms: in terms of the wrapped value x' = (x + 360 if x < 0 else x), itself a binary64 ---- *)
Theorem hms_hundredths_spec (x : pfloat) (cs : Z) :
  Model.Sexagesimal.is_finite (hms_wrapped x) = true -> Rabs (FR (hms_wrapped x)) <= bpow radix2 1000 ->
  hms_hundredths x = Some cs ->
  Rabs (IZR cs - FR (hms_wrapped x) * 24000) <= 1 / 2 + (Rabs (FR (hms_wrapped x) * 24000) * u64 + eta64).
Proof.
  intros Hf Hb Hcs. unfold hms_hundredths in Hcs.
  assert (HK0 : 0 <= 24000 <= 1048576) by lra.
  exact (rounding_spec _ _ _ _ Hf finite_const_hms FR_const_hms HK0 Hb Hcs).
Qed.
Lemma hms_wrapped_nonneg x : Model.Sexagesimal.is_finite x = true -> 0 <= FR x -> hms_wrapped x = x.
Proof.
  intros Hf Hx. unfold hms_wrapped. rewrite (ltb_zero x Hf). destruct (Rlt_dec (FR x) 0); [lra | reflexivity].
Qed.

(* ---- the round-off constants, numerically ---- *)
Lemma u64_val : u64 = / 9007199254740992.
Proof.
  unfold u64. change (bpow radix2 (-52)) with (/ IZR (Z.pow_pos 2 52)).
  replace (Z.pow_pos 2 52) with 4503599627370496%Z by reflexivity. field.
Qed.
Lemma eta64_le_u64 : 0 < eta64 <= u64.
Proof.
  unfold eta64, u64. pose proof (bpow_gt_0 radix2 (-1074)) as H0.
  assert (H1 : bpow radix2 (-1074) <= bpow radix2 (-52)) by (apply bpow_le; lia). lra.
Qed.

(* ---- property-shaped statements for every binary64 input ---- *)
From Aegean Require Import Proofs.SexagesimalProofs.

Lemma c17_dms_binary64 (x : pfloat) (cs : Z) :
  Model.Sexagesimal.is_finite x = true -> Rabs (FR x) <= bpow radix2 1000 -> dms_hundredths x = Some cs ->
  (* format then parse: half a unit of the last digit + the round-off of the one product *)
  Rabs (parse_dms (PrimFloat.ltb x PrimFloat.zero) (dms_split cs) - FR x)
    <= (5 / 1000 + (Rabs (FR x) * 360000 * u64 + eta64) / 100) / 3600 /\
  (* degrees field *)
  (let '(d, m, s, c) := dms_split cs in
   (0 <= d)%Z /\
   (Rabs (FR x) <= 90 -> (d <= 90)%Z /\ (d = 90%Z -> m = 0%Z /\ s = 0%Z /\ c = 0%Z)) /\
   (Rabs (FR x) <= 360 -> (d <= 360)%Z /\ (d = 360%Z -> m = 0%Z /\ s = 0%Z /\ c = 0%Z))).
Proof.
  intros Hf Hb Hcs. destruct (dms_hundredths_spec x cs Hf Hb Hcs) as (H1 & H0 & Hle).
  split.
  - rewrite (ltb_zero x Hf). apply dms_roundtrip. rewrite dms_scale_eq. exact H1.
  - pose proof (dms_degrees cs H0) as Hd. destruct (dms_split cs) as [[[d m] s] c].
    destruct Hd as (Hd0 & Hd90 & Hd360). split; [exact Hd0|]. split; intros Hx.
    + apply Hd90. apply Hle; [reflexivity|]. replace (IZR (90 * 360000)) with (90 * 360000) by (rewrite mult_IZR; reflexivity). nra.
    + apply Hd360. apply Hle; [reflexivity|]. replace (IZR (360 * 360000)) with (360 * 360000) by (rewrite mult_IZR; reflexivity). nra.
Qed.

Lemma c17_hms_binary64 (x : pfloat) (cs : Z) :
  Model.Sexagesimal.is_finite (hms_wrapped x) = true -> Rabs (FR (hms_wrapped x)) <= bpow radix2 1000 ->
  hms_hundredths x = Some cs ->
  let x' := FR (hms_wrapped x) in
  exists k : Z,
    Rabs (parse_hms (hms_split cs) + 360 * IZR k - x') <= (5 / 1000 + (Rabs (x' * 24000) * u64 + eta64) / 100) / 3600 * 15 /\
    (0 <= x' <= 360 -> (k = 0 \/ k = 1)%Z).
Proof.
  intros Hf Hb Hcs x'. pose proof (hms_hundredths_spec x cs Hf Hb Hcs) as H1. fold x' in H1.
  destruct (hms_roundtrip x' (Rabs (x' * 24000) * u64 + eta64) cs) as (k & Hk1 & Hk2).
  - rewrite hms_scale_eq. exact H1.
  - exists k. split; [exact Hk1|]. intros Hx. apply Hk2; [exact Hx|].
    rewrite Rabs_right by nra. pose proof eta64_le_u64 as He. rewrite u64_val in *.
    assert (x' * 24000 * / 9007199254740992 <= 8640000 * / 9007199254740992) by nra. lra.
Qed.

(* the printed strings are exactly the sign and the fields of the rounded integer *)
Lemma dec2dms_shape (x : pfloat) (cs : Z) :
  Model.Sexagesimal.is_finite x = true -> dms_hundredths x = Some cs ->
  dec2dms x = ((if PrimFloat.ltb x PrimFloat.zero then "-" else "+") ++ fields_string (dms_split cs))%string.
Proof. intros Hf Hcs. unfold dec2dms. rewrite Hf, Hcs. reflexivity. Qed.
Lemma dec2hms_shape (x : pfloat) (cs : Z) :
  Model.Sexagesimal.is_finite x = true -> hms_hundredths x = Some cs ->
  dec2hms x = fields_string (hms_split cs).
Proof. intros Hf Hcs. unfold dec2hms. rewrite Hf, Hcs. reflexivity. Qed.
