(* C18 - os.path.splitext (model) commutes with inserting a plain suffix before the extension:
   the file written as root ++ "_comp" ++ ext has the same extension as the name that was asked for,
   so load_table chooses its reader from the same extension that save_catalog used for the writer. *)
From Coq Require Import ZArith Bool List String Ascii Lia.
From Aegean Require Import Gen.Catalog Model.Catalog Proofs.CatalogProofs.
Import ListNotations.
Section Rfind.
Variable f : ascii -> bool.

Lemma rfind_aux_app : forall a b i best,
  rfind_aux f (a ++ b) i best = rfind_aux f b (i + List.length a) (rfind_aux f a i best).
Proof.
  induction a as [|c a IH]; intros b i best; cbn [app rfind_aux List.length].
  - rewrite Nat.add_0_r. reflexivity.
  - rewrite IH. f_equal. lia.
Qed.

Lemma rfind_aux_none : forall s i best, existsb f s = false -> rfind_aux f s i best = best.
Proof.
  induction s as [|c s IH]; intros i best H; [reflexivity|].
  cbn [existsb] in H. apply orb_false_elim in H. destruct H as [Hc Hs].
  cbn [rfind_aux]. rewrite Hc. apply IH. exact Hs.
Qed.

(* the result is the given best, or a position in the list holding an f-character with no f after it *)
Lemma rfind_aux_spec : forall l i best d, rfind_aux f l i best = Some d ->
  (best = Some d /\ existsb f l = false) \/
  (i <= d < i + List.length l /\ existsb f (skipn (S (d - i)) l) = false /\
   exists c, nth_error l (d - i) = Some c /\ f c = true)%nat.
Proof.
  induction l as [|c l IH]; intros i best d H.
  - cbn in H. left. split; [exact H|reflexivity].
  - cbn [rfind_aux] in H. apply IH in H. destruct H as [[Hb He]|[Hr [Hn [c' [Hc Hf]]]]].
    + destruct (f c) eqn:Fc.
      * injection Hb as <-. right. split; [cbn [List.length]; lia|].
        rewrite Nat.sub_diag. cbn [skipn]. split; [exact He|]. exists c. split; [reflexivity|exact Fc].
      * left. split; [exact Hb|]. cbn [existsb]. rewrite Fc. exact He.
    + right. split; [cbn [List.length]; lia|].
      replace (d - i)%nat with (S (d - S i)) by lia. cbn [skipn nth_error].
      split; [exact Hn|]. exists c'. split; [exact Hc|exact Hf].
Qed.
End Rfind.

Lemma rfind_spec : forall f l d, rfind f l = Some d ->
  (d < List.length l)%nat /\ existsb f (skipn (S d) l) = false /\ exists c, nth_error l d = Some c /\ f c = true.
Proof.
  intros f l d H. unfold rfind in H. apply rfind_aux_spec in H.
  destruct H as [[H _]|[Hr [Hn Hc]]]; [discriminate|].
  rewrite Nat.sub_0_r in *. split; [lia|]. split; [exact Hn|exact Hc].
Qed.

Lemma existsb_skipn_le : forall (f : ascii -> bool) l a b, (a <= b)%nat ->
  existsb f (skipn a l) = false -> existsb f (skipn b l) = false.
Proof.
  intros f. induction l as [|x l IH]; intros a b Hab H.
  - destruct b; reflexivity.
  - destruct a as [|a], b as [|b]; cbn [skipn] in *.
    + exact H.
    + cbn [existsb] in H. apply orb_false_elim in H. apply (IH 0%nat b); [lia|]. cbn [skipn]. apply H.
    + lia.
    + apply (IH a b); [lia|exact H].
Qed.

Lemma rfind_aux_some_stays : forall (f : ascii -> bool) l n b, b <> None -> rfind_aux f l n b <> None.
Proof.
  intros f. induction l as [|x l IH]; intros n b Hb; cbn [rfind_aux]; [exact Hb|].
  apply IH. destruct (f x); [discriminate|exact Hb].
Qed.

Lemma rfind_aux_none_inv : forall (f : ascii -> bool) l i best, rfind_aux f l i best = None -> existsb f l = false.
Proof.
  intros f. induction l as [|c l IH]; intros i best H; [reflexivity|].
  cbn [rfind_aux] in H. cbn [existsb]. destruct (f c) eqn:E.
  - exfalso. exact (rfind_aux_some_stays f l (S i) (Some i) ltac:(discriminate) H).
  - cbn. exact (IH _ _ H).
Qed.

(* a plain suffix: no dot, no separator, at least one character *)
Definition plain (s : list ascii) : Prop :=
  existsb is_dot s = false /\ existsb is_sep s = false /\ s <> [].

Lemma plain_nondot : forall s, plain s -> existsb (fun c => negb (is_dot c)) s = true.
Proof.
  intros [|c s] [Hd [_ Hn]]; [contradiction|]. cbn [existsb] in *.
  apply orb_false_elim in Hd. destruct Hd as [Hc _]. rewrite Hc. reflexivity.
Qed.

Lemma splitext_l_insert : forall p r e s, splitext_l p = (r, e) -> plain s ->
  splitext_l (r ++ s ++ e) = ((r ++ s)%list, e).
Proof.
  intros p r e s H [Hsd [Hss Hsn]].
  assert (Hp := splitext_l_app p r e H).
  unfold splitext_l in H.
  destruct (rfind is_dot p) as [d|] eqn:Ed.
  2:{ (* no dot at all *)
      injection H as <- <-. rewrite app_nil_r. unfold splitext_l.
      assert (Edq : rfind is_dot (p ++ s) = None).
      { unfold rfind in *. rewrite rfind_aux_app, Ed. apply rfind_aux_none. exact Hsd. }
      rewrite Edq. reflexivity. }
  destruct (rfind_spec _ _ _ Ed) as [Hdl [Hdn [cd [Hcd Hfd]]]].
  set (start := match rfind is_sep p with Some i => S i | None => 0%nat end) in *.
  (* separators of p ++ s and of r ++ s ++ e *)
  destruct (start <=? d)%nat eqn:Esd.
  2:{ (* the last dot is before the last separator *)
      injection H as <- <-. rewrite app_nil_r. unfold splitext_l.
      assert (Esq : rfind is_sep (p ++ s) = rfind is_sep p).
      { unfold rfind. rewrite rfind_aux_app. apply rfind_aux_none. exact Hss. }
      assert (Edq : rfind is_dot (p ++ s) = Some d).
      { unfold rfind in *. rewrite rfind_aux_app, Ed. apply rfind_aux_none. exact Hsd. }
      rewrite Esq, Edq. fold start. rewrite Esd. reflexivity. }
  apply Nat.leb_le in Esd.
  destruct (existsb (fun c => negb (is_dot c)) (firstn (d - start) (skipn start p))) eqn:Ex.
  2:{ (* only dots between the separator and the last dot *)
      injection H as <- <-. rewrite app_nil_r. unfold splitext_l.
      assert (Esq : rfind is_sep (p ++ s) = rfind is_sep p).
      { unfold rfind. rewrite rfind_aux_app. apply rfind_aux_none. exact Hss. }
      assert (Edq : rfind is_dot (p ++ s) = Some d).
      { unfold rfind in *. rewrite rfind_aux_app, Ed. apply rfind_aux_none. exact Hsd. }
      rewrite Esq, Edq. fold start. replace (start <=? d)%nat with true by (symmetry; apply Nat.leb_le; exact Esd).
      assert (Ef : firstn (d - start) (skipn start (p ++ s)) = firstn (d - start) (skipn start p)).
      { rewrite skipn_app. rewrite firstn_app.
        replace (d - start - List.length (skipn start p))%nat with 0%nat by (rewrite skipn_length; lia).
        cbn [firstn]. apply app_nil_r. }
      rewrite Ef, Ex. reflexivity. }
  (* a real extension: r = p[:d], e = p[d:] *)
  injection H as <- <-.
  set (r := firstn d p) in *. set (e := skipn d p) in *.
  assert (Lr : List.length r = d) by (unfold r; rewrite firstn_length; lia).
  assert (He : exists e', e = cd :: e' /\ existsb is_dot e' = false).
  { unfold e. clear -Hcd Hdn. revert d Hcd Hdn. induction p as [|x p IH]; intros [|d] Hc Hn; cbn in *; try discriminate.
    - injection Hc as ->. exists p. split; [reflexivity|exact Hn].
    - apply IH; assumption. }
  destruct He as [e' [Ee He']].
  (* no separator at or after d *)
  assert (Hse : existsb is_sep e = false).
  { unfold e. destruct (rfind is_sep p) as [i|] eqn:Es.
    - destruct (rfind_spec _ _ _ Es) as [_ [Hn _]]. apply (existsb_skipn_le is_sep p (S i) d); [exact Esd|exact Hn].
    - unfold rfind in Es.
      apply (existsb_skipn_le is_sep p 0 d); [lia|]. cbn [skipn]. exact (rfind_aux_none_inv _ _ _ _ Es). }
  assert (Esr : rfind is_sep r = rfind is_sep p).
  { transitivity (rfind is_sep (r ++ e)); [|rewrite <- Hp; reflexivity].
    unfold rfind. rewrite rfind_aux_app. symmetry. apply rfind_aux_none. exact Hse. }
  assert (Esq : rfind is_sep (r ++ s ++ e) = rfind is_sep p).
  { rewrite <- Esr. unfold rfind. rewrite !rfind_aux_app. rewrite (rfind_aux_none is_sep e) by exact Hse.
    apply rfind_aux_none. exact Hss. }
  assert (Edq : rfind is_dot (r ++ s ++ e) = Some (d + List.length s)%nat).
  { unfold rfind. rewrite !rfind_aux_app. rewrite Ee. cbn [rfind_aux]. rewrite Hfd.
    rewrite rfind_aux_none by exact He'. rewrite Lr. reflexivity. }
  unfold splitext_l. rewrite Esq, Edq. fold start.
  replace (start <=? d + List.length s)%nat with true by (symmetry; apply Nat.leb_le; lia).
  assert (Ef : firstn (d + List.length s - start) (skipn start (r ++ s ++ e)) = (skipn start r ++ s)%list).
  { rewrite skipn_app. replace (start - List.length r)%nat with 0%nat by lia. cbn [skipn].
    rewrite app_assoc. rewrite firstn_app.
    replace (d + List.length s - start - List.length (skipn start r ++ s))%nat with 0%nat
      by (rewrite app_length, skipn_length; lia).
    cbn [firstn]. rewrite app_nil_r. apply firstn_all2. rewrite app_length, skipn_length. lia. }
  rewrite Ef, existsb_app, (plain_nondot s (conj Hsd (conj Hss Hsn))), orb_true_r.
  f_equal.
  - rewrite app_assoc. rewrite firstn_app. replace (d + List.length s - List.length (r ++ s))%nat with 0%nat by (rewrite app_length; lia).
    cbn [firstn]. rewrite app_nil_r. apply firstn_all2. rewrite app_length. lia.
  - rewrite app_assoc. rewrite skipn_app. replace (d + List.length s - List.length (r ++ s))%nat with 0%nat by (rewrite app_length; lia).
    cbn [skipn]. rewrite skipn_all2; [reflexivity|]. rewrite app_length. lia.
Qed.

Open Scope string_scope.

Lemma la_app : forall a b, la (a ++ b)%string = (la a ++ la b)%list.
Proof. induction a as [|c a IH]; intro b; [reflexivity|]. unfold la in *. cbn. rewrite IH. reflexivity. Qed.

Lemma la_sl : forall l, la (sl l) = l.
Proof. intro l. apply list_ascii_of_string_of_list_ascii. Qed.

Lemma splitext_insert : forall p r e s, splitext p = (r, e) -> plain (la s) ->
  splitext (r ++ s ++ e)%string = ((r ++ s)%string, e).
Proof.
  intros p r e s H Hs. unfold splitext in H. destruct (splitext_l (la p)) as [r' e'] eqn:E.
  injection H as <- <-. unfold splitext. rewrite !la_app, !la_sl.
  rewrite (splitext_l_insert _ _ _ _ E Hs). rewrite sl_app, sl_la. reflexivity.
Qed.

Lemma suffixes_plain : forall s, In s suffixes -> plain (la s).
Proof.
  intros s H. cbn in H. destruct H as [<-|[<-|[<-|[]]]]; (split; [reflexivity|split; [reflexivity|discriminate]]).
Qed.

Lemma out_name_splitext : forall filename root ext sfx, splitext filename = (root, ext) -> In sfx suffixes ->
  splitext (out_name sfx filename) = ((root ++ sfx)%string, ext) /\
  forall lowered, extension_of lowered (out_name sfx filename) = extension_of lowered filename.
Proof.
  intros f root ext sfx H Hs.
  assert (E : splitext (out_name sfx f) = ((root ++ sfx)%string, ext)).
  { rewrite (out_name_spec sfx f root ext H). apply (splitext_insert f root ext sfx H). apply suffixes_plain. exact Hs. }
  split; [exact E|]. intro lowered. unfold extension_of. rewrite E, H. reflexivity.
Qed.
