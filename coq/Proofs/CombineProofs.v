(* C08 (extension) - proofs about Model/CombineModel.v: MIMAS.combine_regions and intersect_regions are the documented
   set expressions.  Built on Proofs/RegionProofs.v (step_inv, step_refines, run_refines, history_refines, normal_form). *)
From Coq Require Import ZArith Bool List Lia.
From Aegean Require Import Gen.Regions Gen.Combine Model.RegionModel Model.RegionSpec Model.CombineModel
  Proofs.RegionProofs.
Import ListNotations.
Open Scope Z_scope.

(* ---- one characterising lemma per generated leaf of Gen/Combine.v; nothing below unfolds the leaves *)
Lemma combine_stages_eq : combine_stages = [1; 2; 3; 4; 5; 6].
Proof. reflexivity. Qed.
Lemma combine_result_depth_eq D : combine_result_depth D = D.
Proof. reflexivity. Qed.
Lemma excl_circle_depth_eq D : excl_circle_depth D = D.
Proof. reflexivity. Qed.
Lemma excl_poly_depth_eq D : excl_poly_depth D = D.
Proof. reflexivity. Qed.
Lemma circle_insert_depth_eq D : circle_insert_depth D = D.
Proof. reflexivity. Qed.
Lemma poly_insert_depth_eq D : poly_insert_depth D = D.
Proof. reflexivity. Qed.
Lemma combine_union_renorm_eq : combine_union_renorm = true.
Proof. reflexivity. Qed.
Lemma intersect_min_files_eq : intersect_min_files = 2.
Proof. reflexivity. Qed.
Lemma intersect_base_index_eq : intersect_base_index = 0.
Proof. reflexivity. Qed.
Lemma intersect_rest_from_eq : intersect_rest_from = 1.
Proof. reflexivity. Qed.
(* the healpy queries are made in the NESTED scheme (the whole region model is about nested pixel numbers) at nside 2^depth,
   and circles are converted from galactic coordinates when the container says so *)
Lemma shape_queries : circle_query_nest = true /\ poly_query_nest = true /\
  (forall d, circle_nside d = 2 ^ d) /\ (forall d, poly_nside d = 2 ^ d).
Proof. repeat split. Qed.
Lemma cli_defaults : cli_default_depth = 8 /\ cli_intersect_single = 1 /\ add_region_file_index = 0 /\ rem_region_file_index = 0.
Proof. repeat split. Qed.
Lemma galactic_circles_eq : galactic_incl_circles = true /\ galactic_excl_circles = true.
Proof. split; reflexivity. Qed.

Local Opaque combine_stages combine_result_depth excl_circle_depth excl_poly_depth circle_insert_depth poly_insert_depth
  combine_union_renorm intersect_min_files intersect_base_index intersect_rest_from
  galactic_incl_circles galactic_excl_circles galactic_incl_polygons galactic_excl_polygons.

(* ---- well-formed containers *)
Definition pix_ok (D : Z) (ps : list Z) : Prop := Forall (fun p => 0 <= p < 12 * 4 ^ D) ps.
Definition shape_ok (D : Z) (sh : shape) : Prop := pix_ok D (plain sh) /\ pix_ok D (conv sh).
Definition wf (c : container) : Prop :=
  1 <= maxdepth c /\
  Forall valid (add_region c) /\ Forall Inv (rem_region c) /\
  Forall (shape_ok (maxdepth c)) (include_circles c) /\ Forall (shape_ok (maxdepth c)) (exclude_circles c) /\
  Forall (shape_ok (maxdepth c)) (include_polygons c) /\ Forall (shape_ok (maxdepth c)) (exclude_polygons c).

Lemma pick_ok D g b sh : shape_ok D sh -> pix_ok D (pick g b sh).
Proof. intros [H1 H2]. unfold pick. destruct (g && b); assumption. Qed.

(* ---- strict runs: an operation that raises aborts *)
Definition err_op (D : Z) (o : op) : bool :=
  match o with
  | Without r | Intersect r | SymDiff r => negb (depth r =? D)
  | _ => false
  end.

Lemma setop_is_err f s r :
  is_err (snd (match setop f s r with Some s' => (s', OUnit) | None => (s, OErr) end)) = negb (depth r =? depth s).
Proof.
  destruct (Z.eq_dec (depth r) (depth s)) as [E|E].
  - rewrite (setop_some f s r E). apply Z.eqb_eq in E. rewrite E. reflexivity.
  - rewrite (setop_none f s r E). apply Z.eqb_neq in E. rewrite E. reflexivity.
Qed.

Lemma step_is_err s o : is_err (snd (step s o)) = err_op (depth s) o.
Proof.
  destruct o as [d ps|d ps|r b|r|r|r|qs| | | | | ]; cbn [step err_op]; try reflexivity.
  - apply (setop_is_err f_without).
  - apply (setop_is_err f_intersect).
  - apply (setop_is_err f_symdiff).
Qed.

Lemma run_strict_spec D ops : forall s, Inv s -> depth s = D -> Forall (op_ok D) ops ->
  run_strict s ops = if existsb (err_op D) ops then None else Some (run s ops).
Proof.
  induction ops as [|o ops IH]; intros s HI HD Hops.
  - reflexivity.
  - apply Forall_cons_iff in Hops. destruct Hops as [Ho Hops].
    cbn [run_strict existsb]. rewrite run_cons.
    pose proof (step_is_err s o) as He. rewrite HD in He.
    destruct (step s o) as [s' r] eqn:Es. cbn [snd fst] in *. rewrite He.
    destruct (err_op D o); [reflexivity|]. cbn [orb].
    assert (Hs' : s' = fst (step s o)) by (rewrite Es; reflexivity).
    rewrite <- HD in Ho. destruct (step_inv s o HI Ho) as [HI' HD'].
    rewrite <- Hs' in HI', HD'. apply IH; [exact HI' | congruence | exact Hops].
Qed.

(* ---- the fresh region of an excluded shape *)
Lemma fresh_depth d ins ps : depth (fresh d ins ps) = d.
Proof. unfold fresh. cbn [step fst]. rewrite renorm_depth. reflexivity. Qed.

Lemma fresh_ok D ps : 1 <= D -> pix_ok D ps ->
  Inv (fresh D D ps) /\ forall q, absP (fresh D D ps) q <-> In q ps.
Proof.
  intros HD Hps.
  assert (Hok : op_ok (depth (init D)) (AddShape D ps)).
  { cbn [init depth op_ok]. split; [lia | exact Hps]. }
  destruct (step_inv (init D) _ (init_Inv D HD) Hok) as [HI _].
  destruct (step_refines (init D) _ (init_Inv D HD) Hok) as [Habs _].
  split; [exact HI|]. intros q. unfold fresh. rewrite Habs. cbn [spec_step init depth].
  unfold absP at 1. cbn [depth cells]. rewrite cover_set_nil.
  split.
  - intros [[]|[c [Hc Hq]]]. apply in_at_level in Hc. destruct Hc as [p [-> Hp]].
    apply cover_top in Hq. subst q. exact Hp.
  - intros Hq. right. exists (D, q). split; [apply in_at_level; exists q; tauto | apply cover_top; reflexivity].
Qed.

(* ---- the set expression of a block of operations *)
Definition foldS (D : Z) (ops : list op) (A : Z -> Prop) : Z -> Prop := fold_left (spec_step D) ops A.

Lemma foldS_ext D ops : forall A A', (forall q, A q <-> A' q) -> forall q, foldS D ops A q <-> foldS D ops A' q.
Proof.
  induction ops as [|o ops IH]; intros A A' H q; [apply H|].
  unfold foldS. cbn [fold_left]. apply IH. intros q'. apply spec_step_ext. exact H.
Qed.

Lemma foldS_app D a b A : foldS D (a ++ b) A = foldS D b (foldS D a A).
Proof. unfold foldS. apply fold_left_app. Qed.

Lemma foldS_union D b rs : forall A q,
  foldS D (map (fun r => Union r b) rs) A q <-> A q \/ sky_of D rs q.
Proof.
  induction rs as [|r rs IH]; intros A q.
  - cbn. unfold sky_of. split; [tauto|]. intros [H|[r [[] _]]]. exact H.
  - unfold foldS in *. cbn [map fold_left]. rewrite IH. cbn [spec_step]. unfold sky_of. split.
    + intros [[H|H]|[r' [Hr Hq]]]; [tauto | right; exists r; cbn; tauto | right; exists r'; cbn; tauto].
    + intros [H|[r' [[<-|Hr] Hq]]]; [tauto | tauto | right; exists r'; tauto].
Qed.

Lemma foldS_without D rs : (forall r, In r rs -> depth r = D) -> forall A q,
  foldS D (map Without rs) A q <-> A q /\ ~ sky_of D rs q.
Proof.
  induction rs as [|r rs IH]; intros Hd A q.
  - cbn. unfold sky_of. split; [|tauto]. intros H. split; [exact H|]. intros [r [[] _]].
  - unfold foldS in *. cbn [map fold_left].
    rewrite IH by (intros r' Hr'; apply Hd; right; exact Hr').
    cbn [spec_step]. pose proof (Hd r (or_introl eq_refl)) as Er.
    apply Z.eqb_eq in Er. rewrite Er. apply Z.eqb_eq in Er.
    unfold absP. rewrite Er. unfold sky_of. split.
    + intros [[HA Hn] Hn']. split; [exact HA|]. intros [r' [[<-|Hr] Hq]]; [tauto|]. apply Hn'. exists r'. tauto.
    + intros [HA Hn]. split; [split; [exact HA|]|].
      * intros Hq. apply Hn. exists r. cbn. tauto.
      * intros [r' [Hr Hq]]. apply Hn. exists r'. cbn. tauto.
Qed.

Lemma cover_at_top D ps q : cover_set D (at_level D ps) q <-> In q ps.
Proof.
  split.
  - intros [c [Hc Hq]]. apply in_at_level in Hc. destruct Hc as [p [-> Hp]]. apply cover_top in Hq. subst q. exact Hp.
  - intros Hq. exists (D, q). split; [apply in_at_level; exists q; tauto | apply cover_top; reflexivity].
Qed.

Lemma foldS_shapes D pss : forall A q,
  foldS D (map (AddShape D) pss) A q <-> A q \/ pixels_of pss q.
Proof.
  induction pss as [|ps pss IH]; intros A q.
  - cbn. unfold pixels_of. split; [tauto|]. intros [H|[ps [[] _]]]. exact H.
  - unfold foldS in *. cbn [map fold_left]. rewrite IH. cbn [spec_step]. rewrite cover_at_top. unfold pixels_of. split.
    + intros [[H|H]|[ps' [Hp Hq]]]; [tauto | right; exists ps; cbn; tauto | right; exists ps'; cbn; tauto].
    + intros [H|[ps' [[<-|Hp] Hq]]]; [tauto | tauto | right; exists ps'; tauto].
Qed.

Lemma foldS_fresh D pss : 1 <= D -> Forall (pix_ok D) pss -> forall A q,
  foldS D (map (fun ps => Without (fresh D D ps)) pss) A q <-> A q /\ ~ pixels_of pss q.
Proof.
  intros HD. induction pss as [|ps pss IH]; intros Hok A q.
  - cbn. unfold pixels_of. split; [|tauto]. intros H. split; [exact H|]. intros [ps [[] _]].
  - apply Forall_cons_iff in Hok. destruct Hok as [Hps Hok].
    unfold foldS in *. cbn [map fold_left]. rewrite (IH Hok). cbn [spec_step].
    rewrite fresh_depth, Z.eqb_refl. destruct (fresh_ok D ps HD Hps) as [_ Habs]. rewrite Habs.
    unfold pixels_of. split.
    + intros [[HA Hn] Hn']. split; [exact HA|]. intros [ps' [[<-|Hp] Hq]]; [tauto|]. apply Hn'. exists ps'. tauto.
    + intros [HA Hn]. split; [split; [exact HA|]|].
      * intros Hq. apply Hn. exists ps. cbn. tauto.
      * intros [ps' [Hp Hq]]. apply Hn. exists ps'. cbn. tauto.
Qed.

(* ---- the stages, normalised by the leaf lemmas *)
Lemma stage1_eq c : stage_ops c 1 = map (fun r => Union r true) (add_region c).
Proof. unfold stage_ops. cbv beta iota zeta. rewrite combine_union_renorm_eq. reflexivity. Qed.
Lemma stage2_eq c : stage_ops c 2 = map Without (rem_region c).
Proof. reflexivity. Qed.
Lemma stage3_eq c : stage_ops c 3 = map (AddShape (maxdepth c)) (circles_in c).
Proof.
  unfold stage_ops, circles_in. cbv beta iota zeta. rewrite map_map. apply map_ext. intros sh.
  rewrite combine_result_depth_eq, circle_insert_depth_eq. reflexivity.
Qed.
Lemma stage4_eq c : stage_ops c 4 = map (fun ps => Without (fresh (maxdepth c) (maxdepth c) ps)) (circles_out c).
Proof.
  unfold stage_ops, circles_out. cbv beta iota zeta. rewrite map_map. apply map_ext. intros sh.
  rewrite excl_circle_depth_eq, circle_insert_depth_eq. reflexivity.
Qed.
Lemma stage5_eq c : stage_ops c 5 = map (AddShape (maxdepth c)) (polygons_in c).
Proof.
  unfold stage_ops, polygons_in. cbv beta iota zeta. rewrite map_map. apply map_ext. intros sh.
  rewrite combine_result_depth_eq, poly_insert_depth_eq. reflexivity.
Qed.
Lemma stage6_eq c : stage_ops c 6 = map (fun ps => Without (fresh (maxdepth c) (maxdepth c) ps)) (polygons_out c).
Proof.
  unfold stage_ops, polygons_out. cbv beta iota zeta. rewrite map_map. apply map_ext. intros sh.
  rewrite excl_poly_depth_eq, poly_insert_depth_eq. reflexivity.
Qed.

Lemma combine_ops_eq c : combine_ops c =
  map (fun r => Union r true) (add_region c) ++ map Without (rem_region c) ++
  map (AddShape (maxdepth c)) (circles_in c) ++
  map (fun ps => Without (fresh (maxdepth c) (maxdepth c) ps)) (circles_out c) ++
  map (AddShape (maxdepth c)) (polygons_in c) ++
  map (fun ps => Without (fresh (maxdepth c) (maxdepth c) ps)) (polygons_out c).
Proof.
  unfold combine_ops, combine_ops_order. rewrite combine_stages_eq. cbn [flat_map].
  rewrite stage1_eq, stage2_eq, stage3_eq, stage4_eq, stage5_eq, stage6_eq, app_nil_r. reflexivity.
Qed.

Lemma picked_ok D g b shs : Forall (shape_ok D) shs -> Forall (pix_ok D) (map (pick g b) shs).
Proof.
  intros H. apply Forall_forall. intros ps Hps. apply in_map_iff in Hps. destruct Hps as [sh [<- Hsh]].
  apply pick_ok. exact (proj1 (Forall_forall _ _) H sh Hsh).
Qed.

Lemma Forall_map_intro {A B} (P : B -> Prop) (f : A -> B) l : (forall x, In x l -> P (f x)) -> Forall P (map f l).
Proof.
  intros H. apply Forall_forall. intros y Hy. apply in_map_iff in Hy. destruct Hy as [x [<- Hx]]. apply H. exact Hx.
Qed.

Lemma combine_ops_ok c : wf c -> Forall (op_ok (maxdepth c)) (combine_ops c).
Proof.
  intros (HD & Hadd & Hrem & Hci & Hco & Hpi & Hpo). rewrite combine_ops_eq.
  assert (Hsh : forall g b shs, Forall (shape_ok (maxdepth c)) shs ->
            Forall (op_ok (maxdepth c)) (map (AddShape (maxdepth c)) (map (pick g b) shs))).
  { intros g b shs H. apply Forall_map_intro. intros ps Hps. cbn [op_ok]. split; [lia|].
    exact (proj1 (Forall_forall _ _) (picked_ok _ g b shs H) ps Hps). }
  assert (Hfr : forall g b shs, Forall (shape_ok (maxdepth c)) shs ->
            Forall (op_ok (maxdepth c)) (map (fun ps => Without (fresh (maxdepth c) (maxdepth c) ps)) (map (pick g b) shs))).
  { intros g b shs H. apply Forall_map_intro. intros ps Hps. cbn [op_ok].
    apply fresh_ok; [exact HD|]. exact (proj1 (Forall_forall _ _) (picked_ok _ g b shs H) ps Hps). }
  repeat (apply Forall_app; split).
  - apply Forall_map_intro. intros r Hr. cbn [op_ok]. exact (proj1 (Forall_forall _ _) Hadd r Hr).
  - apply Forall_map_intro. intros r Hr. cbn [op_ok]. exact (proj1 (Forall_forall _ _) Hrem r Hr).
  - apply Hsh. exact Hci.
  - apply Hfr. exact Hco.
  - apply Hsh. exact Hpi.
  - apply Hfr. exact Hpo.
Qed.

Lemma existsb_map_false {A} (f : A -> op) D l : (forall x, In x l -> err_op D (f x) = false) ->
  existsb (err_op D) (map f l) = false.
Proof.
  induction l as [|x l IH]; intros H; [reflexivity|]. cbn [map existsb].
  rewrite (H x (or_introl eq_refl)), IH; [reflexivity|]. intros y Hy. apply H. right. exact Hy.
Qed.

Definition bad_depth (D : Z) (r : region) : bool := negb (depth r =? D).

Lemma combine_ops_err c : existsb (err_op (maxdepth c)) (combine_ops c) = existsb (bad_depth (maxdepth c)) (rem_region c).
Proof.
  rewrite combine_ops_eq. rewrite !existsb_app.
  rewrite (existsb_map_false (fun r => Union r true)) by reflexivity.
  rewrite (existsb_map_false (AddShape (maxdepth c)) _ (circles_in c)) by reflexivity.
  rewrite (existsb_map_false (AddShape (maxdepth c)) _ (polygons_in c)) by reflexivity.
  rewrite (existsb_map_false (fun ps => Without (fresh (maxdepth c) (maxdepth c) ps)) _ (circles_out c))
    by (intros ps _; cbn [err_op]; rewrite fresh_depth, Z.eqb_refl; reflexivity).
  rewrite (existsb_map_false (fun ps => Without (fresh (maxdepth c) (maxdepth c) ps)) _ (polygons_out c))
    by (intros ps _; cbn [err_op]; rewrite fresh_depth, Z.eqb_refl; reflexivity).
  cbn [orb]. rewrite !orb_false_r.
  induction (rem_region c) as [|r rs IH]; [reflexivity|]. cbn [map existsb err_op]. rewrite IH. reflexivity.
Qed.

Lemma combine_eq c : wf c ->
  combine c = if existsb (bad_depth (maxdepth c)) (rem_region c) then None
              else Some (run (init (maxdepth c)) (combine_ops c)).
Proof.
  intros Hwf. unfold combine, combine_order. fold (combine_ops c). rewrite combine_result_depth_eq.
  rewrite (run_strict_spec (maxdepth c) (combine_ops c) (init (maxdepth c)) (init_Inv _ (proj1 Hwf)) eq_refl
             (combine_ops_ok c Hwf)).
  rewrite combine_ops_err. reflexivity.
Qed.

Lemma existsb_bad_depth D rs : existsb (bad_depth D) rs = true <-> exists r, In r rs /\ depth r <> D.
Proof.
  rewrite existsb_exists. unfold bad_depth. split; intros [r [Hr H]]; exists r; (split; [exact Hr|]).
  - apply negb_true_iff, Z.eqb_neq in H. exact H.
  - apply negb_true_iff, Z.eqb_neq. exact H.
Qed.

(* when does combine_regions raise: exactly when a -r file has another depth than the container *)
Theorem combine_raises : forall c, wf c ->
  (combine c = None <-> exists r, In r (rem_region c) /\ depth r <> maxdepth c).
Proof.
  intros c Hwf. rewrite (combine_eq c Hwf), <- existsb_bad_depth.
  destruct (existsb (bad_depth (maxdepth c)) (rem_region c)); split; intros H; congruence.
Qed.

Lemma combine_some c s : wf c -> combine c = Some s ->
  s = run (init (maxdepth c)) (combine_ops c) /\ forall r, In r (rem_region c) -> depth r = maxdepth c.
Proof.
  intros Hwf H. rewrite (combine_eq c Hwf) in H.
  destruct (existsb (bad_depth (maxdepth c)) (rem_region c)) eqn:E; [discriminate H|].
  split; [congruence|]. intros r Hr. destruct (Z.eq_dec (depth r) (maxdepth c)) as [Er|Er]; [exact Er|].
  assert (X : existsb (bad_depth (maxdepth c)) (rem_region c) = true) by (apply existsb_bad_depth; exists r; tauto).
  congruence.
Qed.

(* ---- refinement: the pixel set of the result is the documented left-to-right set expression *)
Theorem combine_refines : forall c s, wf c -> combine c = Some s ->
  forall q, absP s q <-> combine_spec c q.
Proof.
  intros c s Hwf Hs q. destruct (combine_some c s Hwf Hs) as [-> Hdep].
  pose proof Hwf as (HD & Hadd & Hrem & Hci & Hco & Hpi & Hpo).
  rewrite (history_refines (maxdepth c) (combine_ops c) HD (combine_ops_ok c Hwf)).
  fold (foldS (maxdepth c) (combine_ops c) (fun _ => False)).
  rewrite combine_ops_eq, !foldS_app.
  rewrite (foldS_fresh _ (polygons_out c) HD (picked_ok _ _ _ _ Hpo)).
  rewrite foldS_shapes.
  rewrite (foldS_fresh _ (circles_out c) HD (picked_ok _ _ _ _ Hco)).
  rewrite foldS_shapes.
  rewrite (foldS_without _ _ Hdep).
  rewrite foldS_union.
  unfold combine_spec. cbv zeta. tauto.
Qed.

(* ---- normal form: every operation combine_regions issues renormalises *)
Lemma combine_ops_renormalise c : (forall r, In r (rem_region c) -> depth r = maxdepth c) ->
  Forall (fun o => renormalises (maxdepth c) o = true) (combine_ops c).
Proof.
  intros Hdep. rewrite combine_ops_eq.
  repeat (apply Forall_app; split); apply Forall_map_intro; intros x Hx; cbn [renormalises]; try reflexivity.
  - apply Z.eqb_eq. apply Hdep. exact Hx.
  - rewrite fresh_depth. apply Z.eqb_refl.
  - rewrite fresh_depth. apply Z.eqb_refl.
Qed.

Lemma run_snoc s ops o : run s (ops ++ [o]) = fst (step (run s ops) o).
Proof. unfold run. rewrite fold_left_app. reflexivity. Qed.

Lemma run_normal_form D ops : forall s, Inv s -> depth s = D -> no_overlap s -> no_mergeable s ->
  Forall (op_ok D) ops -> Forall (fun o => renormalises D o = true) ops ->
  no_overlap (run s ops) /\ no_mergeable (run s ops).
Proof.
  intros s HI HD Hno Hnm Hok Hren.
  destruct ops as [|x xs]; [cbn [run fold_left]; tauto|].
  assert (Hne : x :: xs <> []) by discriminate.
  destruct (exists_last Hne) as [ops' [o Eo]]. rewrite Eo in *. clear Eo Hne x xs.
  rewrite run_snoc.
  apply Forall_app in Hok. destruct Hok as [Hok' Hoko]. apply Forall_app in Hren. destruct Hren as [_ Hreno].
  apply Forall_cons_iff in Hoko. destruct Hoko as [Hoko _]. apply Forall_cons_iff in Hreno. destruct Hreno as [Hreno _].
  destruct (run_refines D ops' s (absP s) HI HD Hok' (fun q => iff_refl _)) as [[HI' HD'] _].
  apply normal_form; [exact HI' | rewrite HD'; exact Hoko | rewrite HD'; exact Hreno].
Qed.

Lemma init_normal D : no_overlap (init D) /\ no_mergeable (init D).
Proof. split; [intros c1 c2 q []|intros d p _ _ []]. Qed.

Theorem combine_normal_form : forall c s, wf c -> combine c = Some s ->
  Forall (fun o => renormalises (maxdepth c) o = true) (combine_ops c) /\
  Inv s /\ depth s = maxdepth c /\ no_overlap s /\ no_mergeable s.
Proof.
  intros c s Hwf Hs. destruct (combine_some c s Hwf Hs) as [-> Hdep].
  pose proof (combine_ops_renormalise c Hdep) as Hren. split; [exact Hren|].
  destruct (reachable_inv (maxdepth c) (combine_ops c) (proj1 Hwf) (combine_ops_ok c Hwf)) as [HI HDp].
  split; [exact HI|]. split; [exact HDp|].
  destruct (init_normal (maxdepth c)) as [Hno Hnm].
  exact (run_normal_form (maxdepth c) (combine_ops c) (init (maxdepth c)) (init_Inv _ (proj1 Hwf)) eq_refl Hno Hnm
           (combine_ops_ok c Hwf) Hren).
Qed.

(* ---- intersect_regions *)
Lemma foldS_intersect D rs : (forall r, In r rs -> depth r = D) -> forall A q,
  foldS D (map Intersect rs) A q <-> A q /\ forall r, In r rs -> absP r q.
Proof.
  induction rs as [|r rs IH]; intros Hd A q.
  - cbn. split; [|tauto]. intros H. split; [exact H|]. intros r [].
  - unfold foldS in *. cbn [map fold_left].
    rewrite IH by (intros r' Hr'; apply Hd; right; exact Hr').
    cbn [spec_step]. pose proof (Hd r (or_introl eq_refl)) as Er. apply Z.eqb_eq in Er. rewrite Er. split.
    + intros [[HA Hr] Hall]. split; [exact HA|]. intros r' [<-|Hr']; [exact Hr | apply Hall; exact Hr'].
    + intros [HA Hall]. split; [split; [exact HA|apply Hall; left; reflexivity]|]. intros r' Hr'. apply Hall. right. exact Hr'.
Qed.

Lemma intersect_regions_cons a rest : rest <> [] ->
  intersect_regions (a :: rest) = match run_strict a (map Intersect rest) with Some s => IOk s | None => IDepth end.
Proof.
  intros Hne. unfold intersect_regions.
  rewrite intersect_min_files_eq, intersect_base_index_eq, intersect_rest_from_eq.
  destruct rest as [|b rest]; [congruence|]. cbn [length].
  replace (Z.of_nat (S (S (length rest))) <? 2) with false by (symmetry; apply Z.ltb_ge; lia).
  reflexivity.
Qed.

Theorem intersect_too_few : forall fl, (length fl < 2)%nat -> intersect_regions fl = ITooFew.
Proof.
  intros fl H. unfold intersect_regions. rewrite intersect_min_files_eq.
  replace (Z.of_nat (length fl) <? 2) with true by (symmetry; apply Z.ltb_lt; lia). reflexivity.
Qed.

Lemma existsb_err_intersect D rs : existsb (err_op D) (map Intersect rs) = existsb (bad_depth D) rs.
Proof. induction rs as [|r rs IH]; [reflexivity|]. cbn [map existsb err_op]. rewrite IH. reflexivity. Qed.

(* unequal depths: AssertionError, exactly when some later file has another depth than the first *)
Theorem intersect_raises : forall a rest, rest <> [] -> Inv a -> Forall Inv rest ->
  (intersect_regions (a :: rest) = IDepth <-> exists r, In r rest /\ depth r <> depth a).
Proof.
  intros a rest Hne Ha Hrest. rewrite (intersect_regions_cons a rest Hne).
  assert (Hok : Forall (op_ok (depth a)) (map Intersect rest)).
  { apply Forall_map_intro. intros r Hr. cbn [op_ok]. exact (proj1 (Forall_forall _ _) Hrest r Hr). }
  rewrite (run_strict_spec (depth a) _ a Ha eq_refl Hok), existsb_err_intersect, <- existsb_bad_depth.
  destruct (existsb (bad_depth (depth a)) rest); split; intros H; congruence.
Qed.

Theorem intersect_refines : forall a rest D, rest <> [] -> Inv a -> Forall Inv rest ->
  depth a = D -> (forall r, In r rest -> depth r = D) ->
  exists s, intersect_regions (a :: rest) = IOk s /\
    (forall q, absP s q <-> forall r, In r (a :: rest) -> absP r q) /\
    Inv s /\ depth s = D /\ no_overlap s /\ no_mergeable s.
Proof.
  intros a rest D Hne Ha Hrest HDa Hdep. rewrite (intersect_regions_cons a rest Hne).
  assert (Hok : Forall (op_ok D) (map Intersect rest)).
  { apply Forall_map_intro. intros r Hr. cbn [op_ok]. exact (proj1 (Forall_forall _ _) Hrest r Hr). }
  rewrite (run_strict_spec D _ a Ha HDa Hok), existsb_err_intersect.
  assert (E : existsb (bad_depth D) rest = false).
  { destruct (existsb (bad_depth D) rest) eqn:E; [|reflexivity].
    apply existsb_bad_depth in E. destruct E as [r [Hr Hd]]. elim Hd. apply Hdep. exact Hr. }
  rewrite E. eexists. split; [reflexivity|].
  destruct (run_refines D (map Intersect rest) a (absP a) Ha HDa Hok (fun q => iff_refl _)) as [[HI HDs] Habs].
  split; [|split; [exact HI|split; [exact HDs|]]].
  - intros q. rewrite Habs. fold (foldS D (map Intersect rest) (absP a)). rewrite (foldS_intersect D rest Hdep). split.
    + intros [Hq Hall] r [<-|Hr]; [exact Hq | apply Hall; exact Hr].
    + intros Hall. split; [apply Hall; left; reflexivity|]. intros r Hr. apply Hall. right. exact Hr.
  - (* the last intersect renormalises *)
    destruct (exists_last Hne) as [rest' [b ->]].
    rewrite map_app in *. cbn [map] in *. rewrite run_snoc.
    apply Forall_app in Hok. destruct Hok as [Hok' Hokb]. apply Forall_cons_iff in Hokb. destruct Hokb as [Hokb _].
    destruct (run_refines D (map Intersect rest') a (absP a) Ha HDa Hok' (fun q => iff_refl _)) as [[HI' HD'] _].
    apply normal_form; [exact HI' | rewrite HD'; exact Hokb |].
    rewrite HD'. cbn [renormalises]. apply Z.eqb_eq. apply Hdep. apply in_or_app. right. left. reflexivity.
Qed.
