(* C04 (extension) - lemmas about the noise / covariance model (Model/NoiseModel.v over Gen/Noise.v). *)
From Coq Require Import Reals List Arith Lia Lra Psatz.
From Aegean Require Import Lib.RBase Gen.Gauss Gen.Noise Model.NoiseModel.
Import ListNotations.
Open Scope R_scope.

(* ---------------------------------------------------------------- one characterising lemma per generated leaf *)
Lemma cm_entry_char x y cx cy sx sy th :
  cm_entry x y cx cy sx sy th =
  exp (((((x - cx) * cos (rad th) + (y - cy) * sin (rad th)) ^ 2) / (sx ^ 2)
        + (((x - cx) * sin (rad th) - (y - cy) * cos (rad th)) ^ 2) / (sy ^ 2)) * (IZR (-1) / 2)).
Proof. unfold cm_entry, gauss. cbv zeta. rewrite Rmult_1_l. reflexivity. Qed.

Definition bm_eps : R := IZR 4835703278458517 / IZR 4835703278458516698824704.   (* the binary64 value of 1e-9 *)
Lemma bm_minL_documented l : bm_minL l = bm_eps * l.
Proof. reflexivity. Qed.
Lemma bm_eps_pos : 0 < bm_eps.
Proof. unfold bm_eps. apply Rdiv_lt_0_compat; apply IZR_lt; reflexivity. Qed.
Lemma bm_minL_pos l : 0 < l -> 0 < bm_minL l.
Proof. intros H. rewrite bm_minL_documented. apply Rmult_lt_0_compat; [apply bm_eps_pos|exact H]. Qed.
Lemma bm_minL_last : bm_minL_uses_last = true.
Proof. reflexivity. Qed.
Lemma bm_clip_char l m : bm_clip l m = Rmax l m.
Proof. unfold bm_clip, Rltb, Rmax. destruct (Rlt_dec l m), (Rle_dec l m); try reflexivity; lra. Qed.
Lemma bm_s_sq l : 0 < l -> bm_s l * bm_s l = / l.
Proof.
  intros H. assert (Hs : 0 < sqrt l) by (apply sqrt_lt_R0; exact H).
  replace (/ l) with (/ (sqrt l * sqrt l)) by (rewrite sqrt_sqrt; [reflexivity|lra]).
  unfold bm_s. field. lra.
Qed.
Lemma bm_Q_dot_S : bm_B_is_Q_dot_S = true.
Proof. reflexivity. Qed.
Lemma lj_scale_char m e : lj_scale m e = m / e.
Proof. reflexivity. Qed.
Lemma lj_shape : lj_scale_first = true /\ lj_whiten_right = true /\ lj_transposed = true.
Proof. repeat split; reflexivity. Qed.
Lemma res_shape : res_whiten_right = lj_whiten_right /\ res_unwhiten_right = res_whiten_right.
Proof. split; reflexivity. Qed.
Lemma ce_sigma_char d : ce_sigma d = sqrt d.
Proof. reflexivity. Qed.
Lemma ce_shape : ce_Bbranch_passes_B = true /\ ce_Bbranch_passes_errs = true /\
                 ce_Cbranch_passes_B = false /\ ce_Cbranch_passes_errs = true.
Proof. repeat split; reflexivity. Qed.

Local Opaque cm_entry bm_minL bm_clip bm_s lj_scale ce_sigma bm_minL_uses_last bm_B_is_Q_dot_S lj_scale_first lj_whiten_right
  lj_transposed ce_Bbranch_passes_B ce_Cbranch_passes_B.

(* ---------------------------------------------------------------- finite sums *)
Lemma bsum_ext n f g : (forall k, (k < n)%nat -> f k = g k) -> bsum n f = bsum n g.
Proof.
  induction n as [|n IH]; intros H; cbn [bsum]; [reflexivity|].
  rewrite (H n) by lia. rewrite IH; [reflexivity|]. intros k Hk. apply H. lia.
Qed.
Lemma bsum_0 n : bsum n (fun _ => 0) = 0.
Proof. induction n as [|n IH]; cbn [bsum]; [reflexivity|]. rewrite IH. ring. Qed.
Lemma bsum_plus n f g : bsum n (fun k => f k + g k) = bsum n f + bsum n g.
Proof. induction n as [|n IH]; cbn [bsum]; [ring|]. rewrite IH. ring. Qed.
Lemma bsum_mul_l n f c : bsum n (fun k => c * f k) = c * bsum n f.
Proof. induction n as [|n IH]; cbn [bsum]; [ring|]. rewrite IH. ring. Qed.
Lemma bsum_mul_r n f c : bsum n (fun k => f k * c) = bsum n f * c.
Proof. induction n as [|n IH]; cbn [bsum]; [ring|]. rewrite IH. ring. Qed.
Lemma bsum_switch n m (a : nat -> nat -> R) :
  bsum n (fun i => bsum m (fun j => a i j)) = bsum m (fun j => bsum n (fun i => a i j)).
Proof.
  induction n as [|n IH].
  - cbn [bsum]. symmetry. apply bsum_0.
  - cbn [bsum]. rewrite IH. symmetry. apply (bsum_plus m (fun j => bsum n (fun i => a i j)) (fun j => a n j)).
Qed.
Lemma bsum_delta n j g : bsum n (fun k => if Nat.eqb k j then g k else 0) = if Nat.ltb j n then g j else 0.
Proof.
  induction n as [|n IH]; cbn [bsum]; [reflexivity|]. rewrite IH.
  destruct (Nat.eqb_spec n j) as [->|Hne].
  - rewrite Nat.ltb_irrefl. replace (Nat.ltb j (S j)) with true by (symmetry; apply Nat.ltb_lt; lia). ring.
  - destruct (Nat.ltb_spec j n), (Nat.ltb_spec j (S n)); try lia; ring.
Qed.

(* ---------------------------------------------------------------- matrices *)
Lemma mmul_assoc n m A B C i j : mmul m (mmul n A B) C i j = mmul n A (mmul m B C) i j.
Proof.
  unfold mmul.
  transitivity (bsum m (fun k => bsum n (fun l => A i l * B l k * C k j))).
  - apply bsum_ext. intros k _. symmetry. apply (bsum_mul_r n (fun l => A i l * B l k) (C k j)).
  - rewrite bsum_switch. apply bsum_ext. intros l _.
    rewrite <- (bsum_mul_l m (fun k => B l k * C k j) (A i l)). apply bsum_ext. intros k _. ring.
Qed.
Lemma mmul_eq_l n r A A' B : meq r n A A' -> forall i j, (i < r)%nat -> mmul n A B i j = mmul n A' B i j.
Proof. intros H i j Hi. unfold mmul. apply bsum_ext. intros k Hk. rewrite (H i k Hi Hk). reflexivity. Qed.
Lemma mmul_eq_r n c A B B' : meq n c B B' -> forall i j, (j < c)%nat -> mmul n A B i j = mmul n A B' i j.
Proof. intros H i j Hj. unfold mmul. apply bsum_ext. intros k Hk. rewrite (H k j Hk Hj). reflexivity. Qed.
Lemma mmul_I_r n A i j : (j < n)%nat -> mmul n A mI i j = A i j.
Proof.
  intros Hj. unfold mmul, mI.
  rewrite (bsum_ext n _ (fun k => if Nat.eqb k j then A i k else 0)).
  - rewrite bsum_delta. replace (Nat.ltb j n) with true by (symmetry; apply Nat.ltb_lt; exact Hj). reflexivity.
  - intros k _. destruct (Nat.eqb k j); ring.
Qed.
Lemma mmul_diag_r n A d i j : (j < n)%nat -> mmul n A (mdiag d) i j = A i j * d j.
Proof.
  intros Hj. unfold mmul, mdiag.
  rewrite (bsum_ext n _ (fun k => if Nat.eqb k j then A i k * d k else 0)).
  - rewrite bsum_delta. replace (Nat.ltb j n) with true by (symmetry; apply Nat.ltb_lt; exact Hj). reflexivity.
  - intros k _. destruct (Nat.eqb k j); ring.
Qed.
Lemma mmul_diag_l n A d i j : (i < n)%nat -> mmul n (mdiag d) A i j = d i * A i j.
Proof.
  intros Hi. unfold mmul, mdiag.
  rewrite (bsum_ext n _ (fun k => if Nat.eqb k i then d k * A k j else 0)).
  - rewrite bsum_delta. replace (Nat.ltb i n) with true by (symmetry; apply Nat.ltb_lt; exact Hi). reflexivity.
  - intros k _. rewrite (Nat.eqb_sym i k). destruct (Nat.eqb_spec k i) as [->|]; ring.
Qed.
Lemma mmul_I_l n A i j : (i < n)%nat -> mmul n mI A i j = A i j.
Proof.
  intros Hi. change mI with (mdiag (fun _ => 1)). rewrite mmul_diag_l by exact Hi. ring.
Qed.
Lemma mmul_ext n A A' B B' i j : (forall k, (k < n)%nat -> A i k = A' i k) -> (forall k, (k < n)%nat -> B k j = B' k j) ->
  mmul n A B i j = mmul n A' B' i j.
Proof. intros HA HB. unfold mmul. apply bsum_ext. intros k Hk. rewrite (HA k Hk), (HB k Hk). reflexivity. Qed.
Lemma mT_mmul n A B i j : mT (mmul n A B) i j = mmul n (mT B) (mT A) i j.
Proof. unfold mT, mmul. apply bsum_ext. intros k _. ring. Qed.

(* ---------------------------------------------------------------- Cmatrix *)
Lemma cmatrix_symmetric pts sx sy th i j : cmatrix pts sx sy th i j = cmatrix pts sx sy th j i.
Proof. unfold cmatrix. rewrite !cm_entry_char. f_equal. unfold Rdiv. ring. Qed.

Lemma cmatrix_unit_diagonal pts sx sy th i : cmatrix pts sx sy th i i = 1.
Proof. unfold cmatrix. rewrite cm_entry_char. rewrite <- exp_0. f_equal. unfold Rdiv. ring. Qed.

Lemma sq_over_sq a s : s <> 0 -> 0 <= a ^ 2 / s ^ 2.
Proof.
  intros Hs. assert (0 < s ^ 2) by (destruct (Rtotal_order s 0) as [|[|]]; [nra|contradiction|nra]).
  apply Rmult_le_pos; [apply pow2_ge_0|]. left. apply Rinv_0_lt_compat. assumption.
Qed.
Lemma cmatrix_unit_interval pts sx sy th i j : sx <> 0 -> sy <> 0 -> 0 < cmatrix pts sx sy th i j <= 1.
Proof.
  intros Hx Hy. unfold cmatrix. rewrite cm_entry_char. split; [apply exp_pos|].
  match goal with |- exp ((?p + ?q) * _) <= 1 => pose proof (sq_over_sq _ _ Hx : 0 <= p) as Hp; pose proof (sq_over_sq _ _ Hy : 0 <= q) as Hq;
    set (E := (p + q) * (IZR (-1) / 2)); assert (HE : E <= 0) by (unfold E; lra) end.
  destruct (Req_dec E 0) as [->|Hne]; [rewrite exp_0; lra|].
  left. rewrite <- exp_0. apply exp_increasing. lra.
Qed.

(* ---------------------------------------------------------------- Bmatrix under the contract of scipy.linalg.eigh *)
Section Eigh.
  Variables (n : nat) (C Q : mat) (L : vec).
  (* C = Q diag(L) Q^T, Q orthogonal, eigenvalues in ascending order *)
  Hypothesis eigh_decomposes : meq n n C (mmul n (mmul n Q (mdiag L)) (mT Q)).
  Hypothesis eigh_orth_cols : meq n n (mmul n (mT Q) Q) mI.
  Hypothesis eigh_orth_rows : meq n n (mmul n Q (mT Q)) mI.
  Hypothesis eigh_ascending : forall i j, (i <= j < n)%nat -> L i <= L j.

  Let minL := bm_minL (L (pred n)).
  Let cl := clipped n L.
  Let B := bmatrix n L Q.

  Lemma clipped_char k : cl k = Rmax (L k) minL.
  Proof. unfold cl, clipped, bm_ref, minL. rewrite bm_minL_last, bm_clip_char. reflexivity. Qed.
  Lemma clipped_pos k : 0 < L (pred n) -> 0 < cl k.
  Proof.
    intros H. rewrite clipped_char. apply Rlt_le_trans with minL; [apply bm_minL_pos; exact H|apply Rmax_r].
  Qed.
  Lemma clipped_inactive k : minL <= L k -> cl k = L k.
  Proof. intros H. rewrite clipped_char. apply Rmax_left. exact H. Qed.
  Lemma inactive_from_smallest k : (k < n)%nat -> minL <= L 0%nat -> minL <= L k.
  Proof. intros Hk H. apply Rle_trans with (L 0%nat); [exact H|]. apply eigh_ascending. lia. Qed.

  Lemma bmatrix_entry i j : (j < n)%nat -> B i j = Q i j * bm_s (cl j).
  Proof.
    intros Hj. unfold B, bmatrix. rewrite bm_Q_dot_S. cbv zeta iota.
    rewrite mmul_diag_r by exact Hj. reflexivity.
  Qed.

  Lemma sandwich d1 d2 : (forall k, (k < n)%nat -> d1 k * d2 k = 1) ->
    meq n n (mmul n (mmul n (mmul n Q (mdiag d1)) (mT Q)) (mmul n (mmul n Q (mdiag d2)) (mT Q))) mI.
  Proof.
    intros Hd i j Hi Hj.
    assert (E1 : meq n n (mmul n (mT Q) (mmul n Q (mdiag d2))) (mdiag d2)).
    { intros a b Ha Hb. rewrite <- mmul_assoc.
      rewrite (mmul_eq_l n n (mmul n (mT Q) Q) mI (mdiag d2) eigh_orth_cols a b Ha).
      apply mmul_I_l. exact Ha. }
    rewrite mmul_assoc.
    rewrite (mmul_eq_r n n (mmul n Q (mdiag d1)) (mmul n (mT Q) (mmul n (mmul n Q (mdiag d2)) (mT Q)))
               (mmul n (mdiag d2) (mT Q))); [| |exact Hj].
    - rewrite mmul_assoc.
      rewrite (mmul_eq_r n n Q (mmul n (mdiag d1) (mmul n (mdiag d2) (mT Q))) (mT Q)); [apply eigh_orth_rows; assumption| |exact Hj].
      intros a b Ha Hb. rewrite !mmul_diag_l by exact Ha. rewrite <- Rmult_assoc, (Hd a Ha). ring.
    - intros a b Ha Hb. rewrite <- mmul_assoc. apply (mmul_eq_l n n _ _ (mT Q) E1 a b Ha).
  Qed.

  (* B B^T = Q diag(1 / clipped L) Q^T : the inverse of the matrix with the CLIPPED spectrum *)
  Lemma bbt_spectrum : 0 < L (pred n) -> forall i j,
    mmul n B (mT B) i j = mmul n (mmul n Q (mdiag (fun k => / cl k))) (mT Q) i j.
  Proof.
    intros Hpos i j.
    transitivity (bsum n (fun k => (Q i k * / cl k) * Q j k)).
    - unfold mmul, mT. apply bsum_ext. intros k Hk. rewrite !bmatrix_entry by exact Hk.
      rewrite <- (bm_s_sq (cl k)) by (apply clipped_pos; exact Hpos). ring.
    - symmetry. change (bsum n (fun k => Q i k * / cl k * Q j k)) with (mmul n (fun a k => Q a k * / cl k) (mT Q) i j).
      apply mmul_ext; intros k Hk; [apply mmul_diag_r; exact Hk|reflexivity].
  Qed.

  Lemma bmatrix_clipped_inverse : 0 < L (pred n) ->
    meq n n (mmul n (mmul n B (mT B)) (mmul n (mmul n Q (mdiag cl)) (mT Q))) mI.
  Proof.
    intros Hpos i j Hi Hj.
    rewrite (mmul_eq_l n n (mmul n B (mT B)) (mmul n (mmul n Q (mdiag (fun k => / cl k))) (mT Q))) by
      (first [exact Hi | intros a b _ _; apply bbt_spectrum; exact Hpos]).
    apply sandwich; try assumption. intros k _. apply Rinv_l. apply Rgt_not_eq. apply clipped_pos. exact Hpos.
  Qed.

  (* the documented contract B.dot(B') = inv(C): holds when no eigenvalue is below minL = 1e-9 * L[-1] *)
  Lemma bmatrix_contract : 0 < L (pred n) -> minL <= L 0%nat ->
    meq n n (mmul n (mmul n B (mT B)) C) mI.
  Proof.
    intros Hpos Hin i j Hi Hj.
    rewrite (mmul_eq_r n n (mmul n B (mT B)) C (mmul n (mmul n Q (mdiag cl)) (mT Q))); [apply bmatrix_clipped_inverse; assumption| |exact Hj].
    intros a b Ha Hb. rewrite (eigh_decomposes a b Ha Hb).
    apply mmul_eq_l with (r := n); [|exact Ha].
    intros a' k Ha' Hk. rewrite !mmul_diag_r by exact Hk. rewrite clipped_inactive; [reflexivity|].
    apply inactive_from_smallest; assumption.
  Qed.
End Eigh.

(* ---------------------------------------------------------------- Fisher matrix *)
Section Fisher.
  Variables (n : nat) (J : mat) (e : vec).
  Let M : mat := fun k a => J k a / e a.

  Lemma lmfit_jac_entry B m k : lmfit_jac n J e B m k = mmul n M B k m.
  Proof.
    unfold lmfit_jac, whiten. destruct lj_shape as (-> & -> & ->). unfold mT, mmul, mscale.
    apply bsum_ext. intros a _. rewrite lj_scale_char. reflexivity.
  Qed.

  Lemma fisher_B_product B i j : fisher_B n J e B i j = mmul n (mmul n M (mmul n B (mT B))) (mT M) i j.
  Proof.
    unfold fisher_B. destruct ce_shape as (-> & _).
    transitivity (mmul n (mmul n M B) (mT (mmul n M B)) i j).
    - cbv zeta. apply mmul_ext; intros k Hk; unfold mT; rewrite ?lmfit_jac_entry; reflexivity.
    - rewrite mmul_assoc.
      rewrite (mmul_eq_r n (S j) M (mmul n B (mT (mmul n M B))) (mmul n (mmul n B (mT B)) (mT M))); [| |lia].
      + rewrite <- mmul_assoc. reflexivity.
      + intros a b _ _. rewrite mmul_assoc. apply mmul_eq_r with (c := S b); [|lia].
        intros a' b' _ _. apply mT_mmul.
  Qed.

  Lemma fisher_ref_product Cinv i j : fisher_ref n J e Cinv i j = mmul n (mmul n M Cinv) (mT M) i j.
  Proof.
    unfold fisher_ref, mmul, mT, M. rewrite bsum_switch. apply bsum_ext. intros b _.
    apply (bsum_mul_r n (fun a => J i a / e a * Cinv a b) (J j b / e b)).
  Qed.

  Lemma fisher_C_ref B Cinv i j : fisher_C n J e B Cinv i j = fisher_ref n J e Cinv i j.
  Proof.
    rewrite fisher_ref_product. unfold fisher_C. destruct ce_shape as (_ & _ & -> & _).
    cbv zeta. apply mmul_ext; intros b Hb.
    - apply mmul_ext; intros a Ha; [|reflexivity]. unfold mT. rewrite lmfit_jac_entry, mmul_I_r by exact Ha. reflexivity.
    - rewrite lmfit_jac_entry, mmul_I_r by exact Hb. reflexivity.
  Qed.

  Section Inverse.
    Variables (C Cinv : mat).
    (* scipy.linalg.inv *)
    Hypothesis inv_right : meq n n (mmul n C Cinv) mI.

    Lemma left_inverse_is_inv X : meq n n (mmul n X C) mI -> meq n n X Cinv.
    Proof.
      intros HX a b Ha Hb.
      rewrite <- (mmul_I_r n X a b Hb).
      rewrite <- (mmul_eq_r n n X (mmul n C Cinv) mI inv_right a b Hb).
      rewrite <- mmul_assoc. rewrite (mmul_eq_l n n (mmul n X C) mI Cinv HX a b Ha). apply mmul_I_l. exact Ha.
    Qed.

    (* the Fisher matrix of the B branch is J C^-1 J^T (with the noise scaling) for ANY B with B B^T C = I *)
    Lemma fisher_is_JCinvJ B : meq n n (mmul n (mmul n B (mT B)) C) mI ->
      forall i j, fisher_B n J e B i j = fisher_ref n J e Cinv i j.
    Proof.
      intros HB i j. rewrite fisher_B_product, fisher_ref_product.
      apply mmul_eq_l with (r := S i); [|lia].
      intros a b _ Hb. apply mmul_eq_r with (c := n); [|exact Hb].
      apply left_inverse_is_inv. exact HB.
    Qed.

    Lemma branches_agree B : meq n n (mmul n (mmul n B (mT B)) C) mI ->
      forall i j, fisher_B n J e B i j = fisher_C n J e B Cinv i j.
    Proof. intros HB i j. rewrite fisher_C_ref. apply fisher_is_JCinvJ. exact HB. Qed.

    (* J Sigma^-1 J^T with the covariance Sigma = diag(e) C diag(e) of the pixel noise *)
    Hypothesis inv_left : meq n n (mmul n Cinv C) mI.
    Hypothesis noise_nonzero : forall a, (a < n)%nat -> e a <> 0.

    Lemma precision_is_inverse : meq n n (mmul n (precision Cinv e) (covariance C e)) mI.
    Proof.
      intros i j Hi Hj. unfold mmul, precision, covariance.
      rewrite (bsum_ext n _ (fun m => (Cinv i m * C m j) * (e j / e i))).
      - rewrite bsum_mul_r. fold (mmul n Cinv C i j). rewrite (inv_left i j Hi Hj). unfold mI.
        destruct (Nat.eqb_spec i j) as [->|]; [field; apply noise_nonzero; exact Hj|ring].
      - intros m Hm. field. split; apply noise_nonzero; assumption.
    Qed.

    Lemma fisher_ref_precision i j :
      fisher_ref n J e Cinv i j = bsum n (fun a => bsum n (fun b => J i a * precision Cinv e a b * J j b)).
    Proof.
      unfold fisher_ref, precision. apply bsum_ext. intros a Ha. apply bsum_ext. intros b Hb.
      field. split; apply noise_nonzero; assumption.
    Qed.
  End Inverse.
End Fisher.

(* ---------------------------------------------------------------- the side on which B is applied matters *)
Definition ws_B : mat := fun i j => match i, j with 0%nat, 0%nat => 1 | 0%nat, 1%nat => 1 | 1%nat, 1%nat => 1 | _, _ => 0 end.
Definition ws_C : mat := fun i j => match i, j with 0%nat, 0%nat => 1 | 0%nat, 1%nat => -1 | 1%nat, 0%nat => -1 | 1%nat, 1%nat => 2 | _, _ => 0 end.
Definition ws_Cinv : mat := fun i j => match i, j with 0%nat, 0%nat => 2 | 0%nat, 1%nat => 1 | 1%nat, 0%nat => 1 | 1%nat, 1%nat => 1 | _, _ => 0 end.
Definition ws_J : mat := fun i a => match a with 0%nat => 1 | _ => 0 end.
Lemma wrong_side_differs :
  meq 2 2 (mmul 2 (mmul 2 ws_B (mT ws_B)) ws_C) mI /\ meq 2 2 (mmul 2 ws_C ws_Cinv) mI /\
  fisher_B 2 ws_J (fun _ => 1) ws_B 0%nat 0%nat = fisher_ref 2 ws_J (fun _ => 1) ws_Cinv 0%nat 0%nat /\
  fisher_left 2 ws_J (fun _ => 1) ws_B 0%nat 0%nat <> fisher_ref 2 ws_J (fun _ => 1) ws_Cinv 0%nat 0%nat.
Proof.
  assert (H1 : meq 2 2 (mmul 2 (mmul 2 ws_B (mT ws_B)) ws_C) mI).
  { intros i j Hi Hj. destruct i as [|[|i]], j as [|[|j]]; try lia; unfold mmul, mT, ws_B, ws_C, mI; cbn; ring. }
  assert (H2 : meq 2 2 (mmul 2 ws_C ws_Cinv) mI).
  { intros i j Hi Hj. destruct i as [|[|i]], j as [|[|j]]; try lia; unfold mmul, ws_Cinv, ws_C, mI; cbn; ring. }
  split; [exact H1|]. split; [exact H2|]. split.
  - apply (fisher_is_JCinvJ 2 ws_J (fun _ => 1) ws_C ws_Cinv H2 ws_B H1).
  - unfold fisher_left, fisher_ref, mscale, mmul, mT, ws_J, ws_B, ws_Cinv. cbn [bsum]. rewrite ?(lj_scale_char 0 1), ?(lj_scale_char 1 1). apply Rlt_not_eq. lra.
Qed.

(* ---------------------------------------------------------------- helpers of the per-case certified correspondence *)
Lemma bmatrix_entry_val n L Q i j : (j < n)%nat -> bmatrix n L Q i j = bm_val (Q i j) (L j) (L (pred n)).
Proof. intros Hj. rewrite bmatrix_entry by exact Hj. unfold bm_val, clipped, bm_ref. rewrite bm_minL_last. reflexivity. Qed.
Lemma bm_val_inactive q l lref : bm_minL lref <= l -> bm_val q l lref = q * (1 / sqrt l).
Proof. intros H. unfold bm_val. rewrite bm_clip_char, Rmax_left by exact H. reflexivity. Qed.
Lemma bm_val_active q l lref : l < bm_minL lref -> bm_val q l lref = q * (1 / sqrt (bm_minL lref)).
Proof. intros H. unfold bm_val. rewrite bm_clip_char, Rmax_right by lra. reflexivity. Qed.
