(* C04 - the generated derivative expressions are the true partial derivatives. *)
From Coq Require Import Reals Lra List Arith Lia.
From Coquelicot Require Import Coquelicot.
From Aegean Require Import Lib.RBase Gen.Gauss Model.FitModel.
Import ListNotations.
Open Scope R_scope.

Ltac name_trig :=
  repeat match goal with
  | |- context [sin ?a] => let s := fresh "s" in set (s := sin a) in *; clearbody s
  | |- context [cos ?a] => let c := fresh "c" in set (c := cos a) in *; clearbody c
  end.
Ltac unify_exp :=
  repeat match goal with
  | |- context [exp ?a] =>
     match goal with
     | |- context [exp ?b] =>
          tryif constr_eq a b then fail else
          (let H := fresh in assert (H : a = b) by (field; repeat split; assumption); rewrite H; clear H)
     end
  end.
Ltac name_exp :=
  repeat match goal with
  | |- context [exp ?a] => let E := fresh "E" in set (E := exp a) in *; clearbody E
  end.
Ltac finish := unfold Rdiv; name_trig; unify_exp; name_exp; field; repeat split; assumption.

Lemma d_amp_ok x y amp xo yo sx sy theta : amp <> 0 -> sx <> 0 -> sy <> 0 ->
  is_derive (fun t => gauss x y t xo yo sx sy theta) amp (d_amp x y amp xo yo sx sy theta).
Proof. intros Ha Hx Hy. unfold d_amp, gauss, rad. cbv zeta. auto_derive; [exact I|]. finish. Qed.
Lemma d_xo_ok x y amp xo yo sx sy theta : sx <> 0 -> sy <> 0 ->
  is_derive (fun t => gauss x y amp t yo sx sy theta) xo (d_xo x y amp xo yo sx sy theta).
Proof. intros Hx Hy. unfold d_xo, gauss, rad. cbv zeta. auto_derive; [repeat split; auto|]. finish. Qed.
Lemma d_yo_ok x y amp xo yo sx sy theta : sx <> 0 -> sy <> 0 ->
  is_derive (fun t => gauss x y amp xo t sx sy theta) yo (d_yo x y amp xo yo sx sy theta).
Proof. intros Hx Hy. unfold d_yo, gauss, rad. cbv zeta. auto_derive; [repeat split; auto|]. finish. Qed.
Lemma d_sx_ok x y amp xo yo sx sy theta : sx <> 0 -> sy <> 0 ->
  is_derive (fun t => gauss x y amp xo yo t sy theta) sx (d_sx x y amp xo yo sx sy theta).
Proof. intros Hx Hy. unfold d_sx, gauss, rad. cbv zeta. auto_derive; [repeat split; auto|]. finish. Qed.
Lemma d_sy_ok x y amp xo yo sx sy theta : sx <> 0 -> sy <> 0 ->
  is_derive (fun t => gauss x y amp xo yo sx t theta) sy (d_sy x y amp xo yo sx sy theta).
Proof. intros Hx Hy. unfold d_sy, gauss, rad. cbv zeta. auto_derive; [repeat split; auto|]. finish. Qed.
(* theta is in DEGREES: the derivative is per degree *)
Lemma d_theta_ok x y amp xo yo sx sy theta : sx <> 0 -> sy <> 0 ->
  is_derive (fun t => gauss x y amp xo yo sx sy t) theta (d_theta x y amp xo yo sx sy theta).
Proof. intros Hx Hy. unfold d_theta, gauss, rad. cbv zeta. auto_derive; [repeat split; auto|]. finish. Qed.

Definition regular (c : comp) : Prop := c_amp c <> 0 /\ c_sx c <> 0 /\ c_sy c <> 0.

Lemma partials : forall (c : comp) (p : nat) x y, regular c -> (p < 6)%nat ->
  is_derive (fun t => gauss_c (set_par c p t) x y) (get_par c p) (deriv p c x y).
Proof.
  intros c p x y (Ha & Hx & Hy) Hp. destruct c as [a xo yo sx sy th]. cbn in Ha, Hx, Hy.
  do 6 (destruct p as [|p]; [unfold gauss_c, deriv, set_par, get_par; cbn [c_amp c_xo c_yo c_sx c_sy c_theta];
        first [apply d_amp_ok|apply d_xo_ok|apply d_yo_ok|apply d_sx_ok|apply d_sy_ok|apply d_theta_ok]; assumption|]).
  lia.
Qed.

(* the model is the sum; only component i depends on its own parameter *)
Lemma model_upd : forall cs i c' x y c, nth_error cs i = Some c ->
  model (upd cs i c') x y = model cs x y - gauss_c c x y + gauss_c c' x y.
Proof.
  induction cs as [|h t IH]; intros i c' x y c H.
  - destruct i; discriminate.
  - destruct i as [|i]; cbn [upd model fold_right] in *.
    + injection H as ->. fold (model t x y). ring.
    + fold (model (upd t i c') x y). fold (model t x y). rewrite (IH i c' x y c H). ring.
Qed.

Lemma multi : forall cs i c p x y, nth_error cs i = Some c -> regular c -> (p < 6)%nat ->
  is_derive (fun t => model (upd cs i (set_par c p t)) x y) (get_par c p) (deriv p c x y).
Proof.
  intros cs i c p x y Hn Hr Hp.
  apply is_derive_ext with (f := fun t => model cs x y - gauss_c c x y + gauss_c (set_par c p t) x y).
  - intros t. symmetry. apply model_upd. exact Hn.
  - evar_last. apply @is_derive_plus. apply is_derive_const. apply partials; assumption.
    rewrite plus_zero_l. reflexivity.
Qed.

Lemma rows : forall cs vs x y k i p c,
  nth_error (slots jacobian_order 0 vs) k = Some (i, p) -> nth_error cs i = Some c ->
  nth_error (jac_rows cs vs x y) k = Some (deriv p c x y).
Proof.
  intros cs vs x y k i p c Hk Hc. unfold jac_rows. rewrite nth_error_map, Hk. cbn. rewrite Hc. reflexivity.
Qed.

(* slot order facts *)
Lemma jacobian_order_documented : jacobian_order = [0; 1; 2; 3; 4; 5]%nat.
Proof. reflexivity. Qed.
Lemma stderr_order_same : stderr_order = jacobian_order.
Proof. reflexivity. Qed.
Lemma stderr_no_restart : stderr_index_restarts = false.
Proof. reflexivity. Qed.

Lemma assign_noreset : forall order vs i j,
  assign false order i j vs = combine (slots order i vs) (seq j (length (slots order i vs))).
Proof.
  intros order vs. induction vs as [|v r IH]; intros i j; cbn [assign slots]; [reflexivity|].
  rewrite IH. rewrite app_length, seq_app.
  set (a := slots_of order i v). set (b := slots order (S i) r).
  assert (L : length a = length (seq j (length a))) by (rewrite seq_length; reflexivity).
  clear IH. revert L. generalize (seq j (length a)) as sa. generalize (seq (j + length a) (length b)) as sb.
  induction a as [|h t IHa]; intros sb sa L; destruct sa; cbn in *; try discriminate; auto.
  f_equal. apply IHa. lia.
Qed.

Lemma slot_own : forall vs,
  stderr_slots vs = combine (slots jacobian_order 0 vs) (seq 0 (length (slots jacobian_order 0 vs))).
Proof.
  intros vs. unfold stderr_slots. rewrite stderr_no_restart, stderr_order_same. apply assign_noreset.
Qed.

Lemma slot_own_nth : forall vs k ip, nth_error (slots jacobian_order 0 vs) k = Some ip ->
  nth_error (stderr_slots vs) k = Some (ip, k).
Proof.
  intros vs k ip H. rewrite slot_own.
  assert (Hk : (k < length (slots jacobian_order 0 vs))%nat) by (apply nth_error_Some; congruence).
  revert H Hk. generalize (slots jacobian_order 0 vs) as l. intros l.
  assert (G : forall (l : list (nat*nat)) j k ip, nth_error l k = Some ip -> nth_error (combine l (seq j (length l))) k = Some (ip, (j + k)%nat)).
  { clear. induction l as [|h t IH]; intros j k ip H; destruct k; cbn in *; try discriminate.
    - injection H as ->. f_equal. f_equal. lia.
    - rewrite (IH (S j) k ip H). f_equal. f_equal. lia. }
  intros H _. rewrite (G l 0%nat k ip H). reflexivity.
Qed.

(* whitening / noise scaling is linear, so the matrix handed to lmfit is the Jacobian of the
   residual handed to lmfit *)
Lemma whitened : forall pts (f : R -> R -> R -> R) (g : R -> R -> R) t0,
  (forall x y, is_derive (fun t => f t x y) t0 (g x y)) ->
  is_derive (fun t => lin_residual pts (f t)) t0 (lin_jacobian pts g).
Proof.
  intros pts f g t0 H. induction pts as [|[[[x y] d] w] r IH]; cbn [lin_residual lin_jacobian fold_right].
  - apply (@is_derive_const R_AbsRing R_NormedModule 0 t0).
  - apply (@is_derive_plus R_AbsRing R_NormedModule); [|exact IH].
    pose proof (H x y) as Hxy.
    apply is_derive_ext with (f := fun t => w * (minus (f t x y) d)); [intros t; reflexivity|].
    evar_last.
    + apply is_derive_scal. apply (@is_derive_minus R_AbsRing R_NormedModule); [exact Hxy|].
      apply (@is_derive_const R_AbsRing R_NormedModule d t0).
    + unfold minus, plus, opp, zero; cbn. ring.
Qed.
