(* C19 - proofs about Model/Cluster.v (axiom-free: Z, lists). *)
From Coq Require Import ZArith Bool List Lia Relations Permutation Sorted.
From Aegean Require Import Gen.ClusterShape Lib.Graph Lib.GraphFast Model.Cluster.
Import ListNotations.
Open Scope Z_scope.

(* ================= characterising lemmas of the generated leaves ================= *)

Lemma dbscan_sort_key_spec f : dbscan_sort_key f = - f.
Proof. unfold dbscan_sort_key. lia. Qed.
Lemma dbscan_sort_reverse_spec : dbscan_sort_reverse = false.
Proof. reflexivity. Qed.
Lemma dbscan_first_island_spec : dbscan_first_island = 0.
Proof. reflexivity. Qed.
Lemma dbscan_first_source_spec : dbscan_first_source = 0.
Proof. reflexivity. Qed.
Lemma greedy_sort_key_spec f : greedy_sort_key f = - f.
Proof. unfold greedy_sort_key. lia. Qed.
Lemma greedy_sort_reverse_spec : greedy_sort_reverse = false.
Proof. reflexivity. Qed.
Lemma greedy_first_island_spec : greedy_first_island = 0.
Proof. reflexivity. Qed.
Lemma greedy_first_source_spec : greedy_first_source = 0.
Proof. reflexivity. Qed.
Lemma greedy_order_reversed_spec : greedy_order_reversed = true.
Proof. reflexivity. Qed.
Lemma greedy_decmin_spec d f : greedy_decmin d f = d - f.
Proof. unfold greedy_decmin. lia. Qed.
Lemma greedy_early_spec a b : greedy_early_new_group a b = true <-> a < b.
Proof. unfold greedy_early_new_group. rewrite Z.ltb_lt. tauto. Qed.

(* a (key, reverse) pair that orders by decreasing flux *)
Definition key_desc (key : Z -> Z) (reverse : bool) : Prop :=
  forall s t, order_key key reverse s <= order_key key reverse t <-> s_flux t <= s_flux s.
Lemma dbscan_key_desc : key_desc dbscan_sort_key dbscan_sort_reverse.
Proof. intros s t. unfold order_key. rewrite dbscan_sort_reverse_spec. cbv iota. rewrite (dbscan_sort_key_spec (s_flux s)), (dbscan_sort_key_spec (s_flux t)). lia. Qed.
Lemma greedy_key_desc : key_desc greedy_sort_key greedy_sort_reverse.
Proof. intros s t. unfold order_key. rewrite greedy_sort_reverse_spec. cbv iota. rewrite (greedy_sort_key_spec (s_flux s)), (greedy_sort_key_spec (s_flux t)). lia. Qed.

Local Opaque dbscan_sort_key dbscan_sort_reverse dbscan_first_island dbscan_first_source
  greedy_sort_key greedy_sort_reverse greedy_first_island greedy_first_source greedy_order_reversed
  greedy_decmin greedy_early_new_group.

(* ================= equality of sources ================= *)

Lemma zlist_eqb_spec a b : zlist_eqb a b = true <-> a = b.
Proof.
  revert b. induction a as [|x a IH]; intros [|y b]; cbn [zlist_eqb]; try (split; congruence).
  destruct (Z.eqb_spec x y) as [->|Hn].
  - rewrite IH. split; congruence.
  - split; congruence.
Qed.

Lemma pt_eqb_spec p q : pt_eqb p q = true <-> p = q.
Proof.
  unfold pt_eqb. rewrite !andb_true_iff, !Z.eqb_eq. destruct p, q; cbn. split.
  - intros (((-> & ->) & ->) & ->). reflexivity.
  - intros H; injection H; intros; subst; auto.
Qed.

Lemma source_eqb_true a b : source_eqb a b = true <-> a = b.
Proof.
  unfold source_eqb. destruct (Z.eqb_spec (s_id a) (s_id b)) as [Hi|Hi].
  - rewrite !andb_true_iff, !Z.eqb_eq, pt_eqb_spec, zlist_eqb_spec. destruct a, b; cbn in *. split.
    + intros ((((((-> & ->) & ->) & ->) & ->) & ->) & ->). subst. reflexivity.
    + intros H; injection H; intros; subst; repeat split; auto.
  - split; [discriminate|]. intros ->. contradiction.
Qed.

Lemma source_eqb_spec a b : reflect (a = b) (source_eqb a b).
Proof.
  destruct (source_eqb a b) eqn:E; constructor.
  - apply source_eqb_true, E.
  - intros H. apply source_eqb_true in H. congruence.
Qed.

(* ================= ids ================= *)

Definition ids (l : list source) : list Z := map s_id l.

Lemma NoDup_map_inj {A B} (f : A -> B) (l : list A) a b :
  NoDup (map f l) -> In a l -> In b l -> f a = f b -> a = b.
Proof.
  induction l as [|x l IH]; intros Hnd Ha Hb E; [destruct Ha|].
  cbn in Hnd. inversion Hnd as [|? ? Hx Hl]; subst.
  destruct Ha as [<-|Ha], Hb as [<-|Hb]; auto.
  - exfalso. apply Hx. rewrite E. apply in_map, Hb.
  - exfalso. apply Hx. rewrite <- E. apply in_map, Ha.
Qed.

Lemma ids_inj l a b : NoDup (ids l) -> In a l -> In b l -> s_id a = s_id b -> a = b.
Proof. apply NoDup_map_inj. Qed.

Lemma NoDup_of_map {A B} (f : A -> B) (l : list A) : NoDup (map f l) -> NoDup l.
Proof.
  induction l as [|x l IH]; intros H; [constructor|]. cbn in H. inversion H; subst.
  constructor; auto. intros Hin. apply H2, in_map, Hin.
Qed.

Lemma In_ids_In l s : NoDup (ids l) -> In s l -> forall g, incl g l -> In (s_id s) (ids g) -> In s g.
Proof.
  intros Hnd Hs g Hg Hin. apply in_map_iff in Hin as (s0 & E & H0).
  assert (s0 = s) by (apply (ids_inj l); auto). subst. exact H0.
Qed.

Lemma strip_id s : s_id (strip s) = s_id s.
Proof. reflexivity. Qed.
Lemma strip_set_labels s i c : strip (set_labels s i c) = strip s.
Proof. reflexivity. Qed.

(* ================= the stable sort ================= *)

Section SortFacts.
Variable key : source -> Z.
Let le_key (a b : source) : Prop := key a <= key b.

Lemma insert_perm x l : Permutation (insert key x l) (x :: l).
Proof.
  induction l as [|y t IH]; cbn [insert]; [reflexivity|].
  destruct (key x <=? key y); [reflexivity|].
  rewrite IH. apply perm_swap.
Qed.

Lemma isort_perm l : Permutation (isort key l) l.
Proof.
  induction l as [|x l IH]; cbn; [constructor|].
  fold (isort key l). rewrite insert_perm. constructor. exact IH.
Qed.

Lemma insert_sorted x l : StronglySorted le_key l -> StronglySorted le_key (insert key x l).
Proof.
  induction l as [|y t IH]; intros Hs; cbn [insert].
  - constructor; constructor.
  - inversion Hs as [|? ? Ht Hy]; subst.
    destruct (Z.leb_spec (key x) (key y)) as [Hle|Hgt].
    + constructor; auto. constructor; [exact Hle|].
      rewrite Forall_forall in *. intros z Hz. unfold le_key in *. specialize (Hy z Hz). lia.
    + constructor; [apply IH, Ht|].
      rewrite Forall_forall in *. intros z Hz.
      apply (Permutation_in _ (insert_perm x t)) in Hz. destruct Hz as [<-|Hz]; [unfold le_key; lia|auto].
Qed.

Lemma isort_sorted l : StronglySorted le_key (isort key l).
Proof.
  induction l as [|x l IH]; cbn; [constructor|]. apply insert_sorted, IH.
Qed.

(* sorted lists with pairwise distinct keys that are permutations of each other are equal *)
Lemma sorted_perm_eq l l' :
  StronglySorted le_key l -> StronglySorted le_key l' -> Permutation l l' -> NoDup (map key l) -> l = l'.
Proof.
  revert l'. induction l as [|a t IH]; intros l' Hs Hs' Hp Hnd.
  - apply Permutation_nil in Hp. auto.
  - destruct l' as [|a' t']; [apply Permutation_sym, Permutation_nil in Hp; discriminate|].
    inversion Hs as [|? ? Hst Ha]; inversion Hs' as [|? ? Hst' Ha']; subst.
    rewrite Forall_forall in Ha, Ha'.
    assert (Haa : a = a').
    { assert (Hin : In a (a' :: t')) by (apply (Permutation_in _ Hp); left; auto).
      assert (Hin' : In a' (a :: t)) by (apply (Permutation_in _ (Permutation_sym Hp)); left; auto).
      destruct Hin as [E|Hin]; [auto|]. destruct Hin' as [E|Hin']; [auto|].
      apply (NoDup_map_inj key (a :: t)); auto; [left; auto|right; auto|].
      specialize (Ha _ Hin'). specialize (Ha' _ Hin). unfold le_key in *. lia. }
    subst a'. f_equal. apply IH; auto.
    + apply Permutation_cons_inv in Hp. exact Hp.
    + cbn in Hnd. inversion Hnd; auto.
Qed.

Lemma isort_perm_eq l l' : Permutation l l' -> NoDup (map key l) -> isort key l = isort key l'.
Proof.
  intros Hp Hnd. apply sorted_perm_eq; try apply isort_sorted.
  - rewrite isort_perm, Hp. symmetry. apply isort_perm.
  - eapply Permutation_NoDup; [|exact Hnd]. apply Permutation_map. symmetry. apply isort_perm.
Qed.
End SortFacts.

(* ================= rank of a source in a list ================= *)

Lemma index_of_self l : NoDup (ids l) ->
  map (fun s => index_of (s_id s) l) l = map Z.of_nat (seq 0 (length l)).
Proof.
  induction l as [|y t IH]; intros Hnd; [reflexivity|].
  cbn in Hnd. inversion Hnd as [|? ? Hy Ht]; subst.
  cbn [map length seq index_of]. rewrite Z.eqb_refl. f_equal.
  transitivity (map (fun k => 1 + k) (map Z.of_nat (seq 0 (length t)))).
  - rewrite <- (IH Ht), map_map. apply map_ext_in. intros s Hs.
    destruct (Z.eqb_spec (s_id y) (s_id s)) as [E|E].
    + exfalso. apply Hy. rewrite E. apply in_map, Hs.
    + reflexivity.
  - rewrite <- seq_shift, !map_map. apply map_ext. intros k. lia.
Qed.

Lemma index_of_sorted key l : StronglySorted (fun a b => key a <= key b) l -> NoDup (ids l) ->
  forall s t, In s l -> In t l -> index_of (s_id s) l < index_of (s_id t) l -> key s <= key t.
Proof.
  induction l as [|y l IH]; intros Hs Hnd s t Hsi Hti Hlt; [destruct Hsi|].
  inversion Hs as [|? ? Hsl Hy]; subst. rewrite Forall_forall in Hy.
  pose proof Hnd as Hnd0. cbn in Hnd. inversion Hnd as [|? ? Hyn Hl]; subst.
  cbn [index_of] in Hlt.
  assert (Hnn : forall u, 0 <= index_of (s_id u) l).
  { intros u. clear. induction l as [|z l IH]; cbn [index_of]; [lia|]. destruct (s_id z =? s_id u); lia. }
  destruct (Z.eqb_spec (s_id y) (s_id t)) as [Et|Et].
  - destruct (s_id y =? s_id s); specialize (Hnn s); lia.
  - destruct Hti as [->|Hti]; [congruence|].
    destruct (Z.eqb_spec (s_id y) (s_id s)) as [Es|Es].
    + assert (y = s) by (apply (ids_inj (y :: l)); auto; left; auto). subst. apply Hy, Hti.
    + destruct Hsi as [->|Hsi]; [congruence|]. apply IH; auto. lia.
Qed.

(* ================= relabelling ================= *)

Section Relabel.
Variable key : Z -> Z.
Variable reverse : bool.
Variable fs : Z.
Hypothesis Hdesc : key_desc key reverse.

Lemma relabel_group_strip isle g : map strip (relabel_group key reverse fs isle g) = map strip g.
Proof. unfold relabel_group. rewrite map_map. apply map_ext. intros s. apply strip_set_labels. Qed.

Lemma relabel_group_ids isle g : ids (relabel_group key reverse fs isle g) = ids g.
Proof. unfold relabel_group, ids. rewrite map_map. reflexivity. Qed.

Lemma relabel_group_length isle g : length (relabel_group key reverse fs isle g) = length g.
Proof. unfold relabel_group. apply map_length. Qed.

Lemma relabel_group_island isle g s : In s (relabel_group key reverse fs isle g) -> s_island s = isle.
Proof. unfold relabel_group. intros H. apply in_map_iff in H as (s0 & <- & _). reflexivity. Qed.

Lemma relabel_group_sources isle g : NoDup (ids g) ->
  Permutation (map s_source (relabel_group key reverse fs isle g))
              (map (fun k => fs + Z.of_nat k) (seq 0 (length g))).
Proof.
  intros Hnd. unfold relabel_group. rewrite map_map. cbn [s_source set_labels].
  set (sorted := isort (order_key key reverse) g).
  assert (Hp : Permutation g sorted) by (symmetry; apply isort_perm).
  assert (Hnds : NoDup (ids sorted)) by (eapply Permutation_NoDup; [apply Permutation_map, Hp|exact Hnd]).
  rewrite (Permutation_map (fun s => fs + index_of (s_id s) sorted) Hp).
  rewrite <- (map_map (fun s => index_of (s_id s) sorted) (fun k => fs + k)).
  rewrite (index_of_self sorted Hnds), map_map.
  rewrite (Permutation_length Hp). reflexivity.
Qed.

Lemma relabel_group_order isle g : NoDup (ids g) ->
  forall s t, In s (relabel_group key reverse fs isle g) -> In t (relabel_group key reverse fs isle g) ->
  s_source s < s_source t -> s_flux t <= s_flux s.
Proof.
  intros Hnd s t Hs Ht Hlt. unfold relabel_group in Hs, Ht.
  apply in_map_iff in Hs as (s0 & <- & Hs0). apply in_map_iff in Ht as (t0 & <- & Ht0).
  cbn [s_source s_flux set_labels] in *.
  set (sorted := isort (order_key key reverse) g) in *.
  assert (Hp : Permutation sorted g) by apply isort_perm.
  apply Hdesc.
  apply (index_of_sorted (order_key key reverse) sorted); try lia.
  - apply isort_sorted.
  - eapply Permutation_NoDup; [apply Permutation_map; symmetry; exact Hp|exact Hnd].
  - apply (Permutation_in _ (Permutation_sym Hp)), Hs0.
  - apply (Permutation_in _ (Permutation_sym Hp)), Ht0.
Qed.

Lemma relabel_from_strip isle gs :
  map strip (concat (relabel_from key reverse fs isle gs)) = map strip (concat gs).
Proof.
  revert isle. induction gs as [|g t IH]; intros isle; cbn [relabel_from concat]; [reflexivity|].
  rewrite !map_app, relabel_group_strip, IH. reflexivity.
Qed.

Lemma relabel_from_length isle gs : length (relabel_from key reverse fs isle gs) = length gs.
Proof. revert isle. induction gs as [|g t IH]; intros isle; cbn [relabel_from length]; auto. Qed.

Lemma relabel_from_nth isle gs i g' : nth_error (relabel_from key reverse fs isle gs) i = Some g' ->
  exists g, nth_error gs i = Some g /\ g' = relabel_group key reverse fs (isle + Z.of_nat i) g.
Proof.
  revert isle i. induction gs as [|g t IH]; intros isle i H; cbn [relabel_from] in H.
  - destruct i; discriminate.
  - destruct i as [|i]; cbn [nth_error] in *.
    + injection H as <-. exists g. split; auto. f_equal. lia.
    + destruct (IH _ _ H) as (g0 & H0 & ->). exists g0. split; auto. f_equal. lia.
Qed.

Lemma relabel_from_In isle gs g' : In g' (relabel_from key reverse fs isle gs) ->
  exists g i, In g gs /\ g' = relabel_group key reverse fs i g /\ isle <= i.
Proof.
  intros H. apply In_nth_error in H as (i & H). apply relabel_from_nth in H as (g & Hg & ->).
  exists g, (isle + Z.of_nat i). repeat split; [eapply nth_error_In; eauto|lia].
Qed.

Definition label (s : source) : Z * Z := (s_island s, s_source s).

Lemma relabel_group_labels_NoDup isle g : NoDup (ids g) ->
  NoDup (map label (relabel_group key reverse fs isle g)).
Proof.
  intros Hnd.
  assert (Hs : NoDup (map s_source (relabel_group key reverse fs isle g))).
  { eapply Permutation_NoDup; [symmetry; apply relabel_group_sources, Hnd|].
    apply FinFun.Injective_map_NoDup; [|apply seq_NoDup]. intros a b. lia. }
  apply (NoDup_of_map snd). rewrite map_map. exact Hs.
Qed.

Lemma relabel_from_labels_NoDup isle gs : (forall g, In g gs -> NoDup (ids g)) ->
  NoDup (map label (concat (relabel_from key reverse fs isle gs))).
Proof.
  revert isle. induction gs as [|g t IH]; intros isle Hnd; cbn [relabel_from concat]; [constructor|].
  rewrite map_app. apply NoDup_app_intro.
  - apply relabel_group_labels_NoDup, Hnd. left; auto.
  - apply IH. intros g0 H0. apply Hnd. right; auto.
  - intros lb H1 H2.
    apply in_map_iff in H1 as (s1 & <- & H1). apply relabel_group_island in H1.
    apply in_map_iff in H2 as (s2 & E & H2). apply in_concat in H2 as (g2 & Hg2 & H2).
    apply relabel_from_In in Hg2 as (g0 & i & _ & -> & Hi). apply relabel_group_island in H2.
    unfold label in E. injection E as E1 _. lia.
Qed.

(* groups keep their identity (as id lists) *)
Lemma relabel_from_ids isle gs : map ids (relabel_from key reverse fs isle gs) = map ids gs.
Proof.
  revert isle. induction gs as [|g t IH]; intros isle; cbn [relabel_from map]; [reflexivity|].
  rewrite relabel_group_ids, IH. reflexivity.
Qed.
End Relabel.

(* ================= grouping by labels (what regroup_dbscan does with labels_) ================= *)

Lemma uniq_labels_In labels l : In l (uniq_labels labels) <-> In l labels.
Proof.
  unfold uniq_labels. rewrite filter_In, existsb_exists, in_seq. split.
  - intros (_ & x & Hx & E). apply Nat.eqb_eq in E. subst. exact Hx.
  - intros H. split.
    + assert (Hm : (l <= list_max labels)%nat).
      { assert (HF : Forall (fun k => (k <= list_max labels)%nat) labels) by (apply list_max_le; lia).
        rewrite Forall_forall in HF. apply HF, H. }
      lia.
    + exists l. split; auto. apply Nat.eqb_refl.
Qed.

Lemma uniq_labels_NoDup labels : NoDup (uniq_labels labels).
Proof. unfold uniq_labels. apply NoDup_filter, seq_NoDup. Qed.

Lemma rows_with_map (f : source -> nat) cat l :
  rows_with (map f cat) cat l = filter (fun s => Nat.eqb (f s) l) cat.
Proof.
  unfold rows_with. induction cat as [|s cat IH]; cbn; [reflexivity|].
  destruct (Nat.eqb (f s) l); cbn; rewrite IH; reflexivity.
Qed.

Definition groups_by (f : source -> nat) (cat : list source) : list (list source) :=
  map (fun l => filter (fun s => Nat.eqb (f s) l) cat) (uniq_labels (map f cat)).

Lemma groups_of_map f cat : groups_of (map f cat) cat = groups_by f cat.
Proof. unfold groups_of, groups_by. apply map_ext. intros l. apply rows_with_map. Qed.

Lemma groups_by_In f cat g : In g (groups_by f cat) ->
  exists l, In l (map f cat) /\ g = filter (fun s => Nat.eqb (f s) l) cat.
Proof.
  unfold groups_by. intros H. apply in_map_iff in H as (l & <- & Hl).
  exists l. split; auto. apply uniq_labels_In, Hl.
Qed.

Lemma groups_by_incl f cat g : In g (groups_by f cat) -> incl g cat.
Proof. intros H. apply groups_by_In in H as (l & _ & ->). intros s Hs. apply filter_In in Hs. tauto. Qed.

Lemma groups_by_nonempty f cat g : In g (groups_by f cat) -> g <> [].
Proof.
  intros H. apply groups_by_In in H as (l & Hl & ->). apply in_map_iff in Hl as (s & E & Hs).
  intros Hnil. assert (Hin : In s (filter (fun s0 => Nat.eqb (f s0) l) cat)).
  { apply filter_In. split; auto. apply Nat.eqb_eq, E. }
  rewrite Hnil in Hin. destruct Hin.
Qed.

Lemma NoDup_sublist_ids cat g : NoDup (ids cat) -> (exists p, g = filter p cat) -> NoDup (ids g).
Proof.
  intros Hnd (p & ->). induction cat as [|s cat IH]; cbn; [constructor|].
  cbn in Hnd. inversion Hnd as [|? ? Hs Hc]; subst.
  destruct (p s); cbn; [constructor|]; auto.
  intros Hin. apply Hs. apply in_map_iff in Hin as (s0 & E & H0). apply filter_In in H0 as (H0 & _).
  rewrite <- E. apply in_map, H0.
Qed.

Lemma groups_by_NoDup_ids f cat g : NoDup (ids cat) -> In g (groups_by f cat) -> NoDup (ids g).
Proof. intros Hnd H. apply groups_by_In in H as (l & _ & ->). eapply NoDup_sublist_ids; eauto. Qed.

(* the groups are a partition of the catalogue (as lists: a permutation) *)
Lemma concat_filter_perm (f : source -> nat) cat L : NoDup L -> NoDup cat -> (forall s, In s cat -> In (f s) L) ->
  Permutation (concat (map (fun l => filter (fun s => Nat.eqb (f s) l) cat) L)) cat.
Proof.
  intros HL Hcat Hcov. apply NoDup_Permutation; auto.
  - clear Hcov. induction L as [|l L IH]; cbn; [constructor|].
    inversion HL as [|? ? Hl HL']; subst. apply NoDup_app_intro; auto.
    + apply NoDup_filter, Hcat.
    + intros s H1 H2. apply filter_In in H1 as (_ & E1). apply Nat.eqb_eq in E1.
      apply in_concat in H2 as (g & Hg & H2). apply in_map_iff in Hg as (l' & <- & Hl').
      apply filter_In in H2 as (_ & E2). apply Nat.eqb_eq in E2. congruence.
  - intros s. rewrite in_concat. split.
    + intros (g & Hg & Hs). apply in_map_iff in Hg as (l & <- & _). apply filter_In in Hs. tauto.
    + intros Hs. exists (filter (fun s0 => Nat.eqb (f s0) (f s)) cat). split.
      * apply in_map_iff. exists (f s). split; auto.
      * apply filter_In. split; auto. apply Nat.eqb_refl.
Qed.

Lemma groups_by_perm f cat : NoDup (ids cat) -> Permutation (concat (groups_by f cat)) cat.
Proof.
  intros Hnd. unfold groups_by. apply concat_filter_perm.
  - apply uniq_labels_NoDup.
  - apply (NoDup_of_map s_id), Hnd.
  - intros s Hs. apply uniq_labels_In, in_map, Hs.
Qed.

(* two sources of the catalogue are in one group, identified by their ids *)
Definition same_group (out : list (list source)) (s t : source) : Prop :=
  exists g, In g out /\ In (s_id s) (ids g) /\ In (s_id t) (ids g).

Lemma same_group_ids out out' s t : map ids out = map ids out' -> same_group out s t -> same_group out' s t.
Proof.
  intros E (g & Hg & Hs & Ht).
  assert (Hin : In (ids g) (map ids out')) by (rewrite <- E; apply in_map, Hg).
  apply in_map_iff in Hin as (g' & E' & Hg'). exists g'. rewrite E'. auto.
Qed.

Lemma groups_by_same f cat s t : NoDup (ids cat) -> In s cat -> In t cat ->
  (same_group (groups_by f cat) s t <-> f s = f t).
Proof.
  intros Hnd Hs Ht. split.
  - intros (g & Hg & H1 & H2). pose proof (groups_by_incl f cat g Hg) as Hincl.
    apply (In_ids_In cat s Hnd Hs g Hincl) in H1. apply (In_ids_In cat t Hnd Ht g Hincl) in H2.
    apply groups_by_In in Hg as (l & _ & ->).
    apply filter_In in H1 as (_ & E1). apply filter_In in H2 as (_ & E2).
    apply Nat.eqb_eq in E1, E2. congruence.
  - intros E. exists (filter (fun s0 => Nat.eqb (f s0) (f s)) cat). split; [|split].
    + unfold groups_by. apply in_map_iff. exists (f s). split; auto. apply uniq_labels_In, in_map, Hs.
    + apply in_map, filter_In. split; auto. apply Nat.eqb_refl.
    + apply in_map, filter_In. split; auto. apply Nat.eqb_eq. auto.
Qed.

(* ================= the classes of the eps graph ================= *)

Definition symmetric (link : source -> source -> bool) : Prop := forall x y, link x y = true -> link y x = true.
Definition linked (link : source -> source -> bool) (cat : list source) : source -> source -> Prop :=
  connected source link cat.

Lemma classes_eq link cat : classes link cat = components source source_eqb link cat.
Proof. apply components_fast_eq. Qed.

Section Classes.
Variable link : source -> source -> bool.
Variable cat : list source.
Hypothesis Hnd : NoDup cat.
Hypothesis Hsym : symmetric link.
Let comps := components source source_eqb link cat.

Lemma class_index_hit cls s : (exists C, In C cls /\ In s C) ->
  exists C, nth_error cls (class_index cls s) = Some C /\ In s C.
Proof.
  induction cls as [|D cls IH]; intros (C & HC & Hs); [destruct HC|].
  cbn [class_index]. destruct (mem source source_eqb s D) eqn:E.
  - exists D. split; auto. apply (mem_In source source_eqb source_eqb_spec), E.
  - destruct HC as [->|HC].
    + apply (mem_In source source_eqb source_eqb_spec) in Hs. congruence.
    + apply IH. eauto.
Qed.

Lemma class_index_In s : In s cat -> exists C, nth_error comps (class_index comps s) = Some C /\ In s C.
Proof.
  intros Hs. apply class_index_hit.
  apply (components_cover source source_eqb source_eqb_spec link cat Hnd s Hs).
Qed.

Lemma class_index_unique s i C : In s cat -> nth_error comps i = Some C -> In s C -> class_index comps s = i.
Proof.
  intros Hs Hi HC. destruct (class_index_In s Hs) as (D & Hj & HD).
  destruct (Nat.eq_dec (class_index comps s) i) as [E|E]; auto. exfalso.
  apply (components_disjoint source source_eqb source_eqb_spec link cat Hnd Hsym _ _ _ _ Hj Hi E s HD HC).
Qed.

Lemma class_index_eq_iff s t : In s cat -> In t cat ->
  (class_index comps s = class_index comps t <-> linked link cat s t).
Proof.
  intros Hs Ht. split.
  - intros E. destruct (class_index_In s Hs) as (C & Hi & HsC). destruct (class_index_In t Ht) as (D & Hj & HtD).
    rewrite <- E, Hi in Hj. injection Hj as <-.
    apply (components_spec source source_eqb source_eqb_spec link cat Hnd Hsym C s t); auto.
    eapply nth_error_In; eauto.
  - intros Hl.
    destruct (components_complete source source_eqb source_eqb_spec link cat Hnd Hsym s t Hs Hl) as (C & HC & HsC & HtC).
    apply In_nth_error in HC as (i & Hi).
    rewrite (class_index_unique s i C Hs Hi HsC), (class_index_unique t i C Ht Hi HtC). reflexivity.
Qed.
End Classes.

Lemma connected_perm link cat cat' s t : (forall x, In x cat -> In x cat') ->
  connected source link cat s t -> connected source link cat' s t.
Proof.
  intros Hincl H. induction H as [x y (Hx & Hy & Ha)|x|x y z _ IH1 _ IH2].
  - apply rt_step. split; [|split]; auto.
  - apply rt_refl.
  - eapply rt_trans; eauto.
Qed.

(* ================= regroup_dbscan ================= *)

(* the library hypothesis: labels_ of DBSCAN(min_samples = 1) are the indices of the connectivity classes *)
Definition dbscan_ok (link : source -> source -> bool) (dbscan : list source -> list nat) : Prop :=
  forall cat, dbscan cat = comp_labels link cat.

Section Dbscan.
Variable link : source -> source -> bool.
Variable dbscan : list source -> list nat.      (* sklearn.cluster.DBSCAN(eps, min_samples = 1).fit(X).labels_ *)
Hypothesis Hlib : dbscan_ok link dbscan.

Let cidx (cat : list source) : source -> nat := class_index (classes link cat).

Lemma regroup_dbscan_unfold cat : regroup_dbscan dbscan cat =
  relabel_from dbscan_sort_key dbscan_sort_reverse dbscan_first_source dbscan_first_island (groups_by (cidx cat) cat).
Proof.
  unfold regroup_dbscan, regroup_dbscan_with. rewrite Hlib. unfold comp_labels.
  rewrite groups_of_map. reflexivity.
Qed.

Lemma dbscan_partition cat : NoDup (ids cat) ->
  Permutation (map strip (concat (regroup_dbscan dbscan cat))) (map strip cat) /\
  Permutation (ids (concat (regroup_dbscan dbscan cat))) (ids cat) /\
  (forall g, In g (regroup_dbscan dbscan cat) -> g <> []).
Proof.
  intros Hnd. rewrite regroup_dbscan_unfold.
  assert (H1 : Permutation (map strip (concat (relabel_from dbscan_sort_key dbscan_sort_reverse dbscan_first_source
                 dbscan_first_island (groups_by (cidx cat) cat)))) (map strip cat)).
  { rewrite relabel_from_strip. apply Permutation_map, groups_by_perm, Hnd. }
  split; [exact H1|split].
  - pose proof (Permutation_map s_id H1) as H2. rewrite !map_map in H2. exact H2.
  - intros g Hg. apply relabel_from_In in Hg as (g0 & i & Hg0 & -> & _).
    apply groups_by_nonempty in Hg0. intros E. apply Hg0.
    apply (f_equal (@length source)) in E. rewrite relabel_group_length in E. destruct g0; [auto|discriminate].
Qed.

Lemma dbscan_same_group cat s t : NoDup (ids cat) -> symmetric link -> In s cat -> In t cat ->
  (same_group (regroup_dbscan dbscan cat) s t <-> linked link cat s t).
Proof.
  intros Hnd Hsym Hs Ht. rewrite regroup_dbscan_unfold.
  assert (Hids : forall a b, same_group (relabel_from dbscan_sort_key dbscan_sort_reverse dbscan_first_source
                   dbscan_first_island (groups_by (cidx cat) cat)) a b <-> same_group (groups_by (cidx cat) cat) a b).
  { intros a b. split; apply same_group_ids; [|symmetry]; apply relabel_from_ids. }
  rewrite Hids, (groups_by_same (cidx cat) cat s t Hnd Hs Ht).
  unfold cidx. rewrite classes_eq.
  apply class_index_eq_iff; auto. apply (NoDup_of_map s_id), Hnd.
Qed.

Lemma dbscan_perm_invariant cat cat' s t : NoDup (ids cat) -> symmetric link -> Permutation cat cat' ->
  In s cat -> In t cat ->
  (same_group (regroup_dbscan dbscan cat) s t <-> same_group (regroup_dbscan dbscan cat') s t).
Proof.
  intros Hnd Hsym Hp Hs Ht.
  assert (Hnd' : NoDup (ids cat')) by (eapply Permutation_NoDup; [apply Permutation_map, Hp|exact Hnd]).
  rewrite (dbscan_same_group cat s t Hnd Hsym Hs Ht).
  rewrite (dbscan_same_group cat' s t Hnd' Hsym (Permutation_in _ Hp Hs) (Permutation_in _ Hp Ht)).
  split; apply connected_perm; intros x; apply Permutation_in; [|symmetry]; exact Hp.
Qed.
End Dbscan.

(* numbering and attributes: true for whatever the clustering library returns *)
Lemma rows_with_NoDup labels cat l : NoDup (ids cat) -> NoDup (ids (rows_with labels cat l)).
Proof.
  unfold rows_with. revert labels. induction cat as [|s cat IH]; intros [|k labels] Hnd; cbn; try constructor.
  cbn in Hnd. inversion Hnd as [|? ? Hs Hc]; subst.
  destruct (Nat.eqb k l); cbn; [constructor|]; auto.
  intros Hin. apply Hs. apply in_map_iff in Hin as (s0 & E & H0). apply in_map_iff in H0 as ((k0 & s1) & E1 & H1).
  cbn in E1. subst s1. apply filter_In in H1 as (H1 & _). apply in_combine_r in H1. rewrite <- E. apply in_map, H1.
Qed.

Lemma dbscan_numbering (dbscan : list source -> list nat) cat : NoDup (ids cat) ->
  let out := regroup_dbscan dbscan cat in
  (forall i g, nth_error out i = Some g ->
     (forall s, In s g -> s_island s = Z.of_nat i) /\
     Permutation (map s_source g) (map Z.of_nat (seq 0 (length g))) /\
     (forall s t, In s g -> In t g -> s_source s < s_source t -> s_flux t <= s_flux s)) /\
  NoDup (map label (concat out)).
Proof.
  intros Hnd out. unfold out, regroup_dbscan, regroup_dbscan_with.
  assert (Hg : forall g, In g (groups_of (dbscan cat) cat) -> NoDup (ids g)).
  { intros g Hg. unfold groups_of in Hg. apply in_map_iff in Hg as (l & <- & _). apply rows_with_NoDup, Hnd. }
  split.
  - intros i g' Hi. apply relabel_from_nth in Hi as (g & Hgi & ->).
    rewrite dbscan_first_island_spec, Z.add_0_l.
    assert (Hgn : NoDup (ids g)) by (apply Hg; eapply nth_error_In; eauto).
    split; [|split].
    + intros s. apply relabel_group_island.
    + rewrite relabel_group_length. rewrite (relabel_group_sources _ _ _ _ _ Hgn), dbscan_first_source_spec.
      apply Permutation_refl' , map_ext. intros k. lia.
    + apply relabel_group_order; auto. apply dbscan_key_desc.
  - apply relabel_from_labels_NoDup, Hg.
Qed.

Lemma dbscan_attributes (dbscan : list source -> list nat) cat s' :
  In s' (concat (regroup_dbscan dbscan cat)) -> exists s, In s cat /\ s_id s = s_id s' /\ strip s' = strip s.
Proof.
  intros H. apply (in_map strip) in H. unfold regroup_dbscan, regroup_dbscan_with in H.
  rewrite relabel_from_strip in H. apply in_map_iff in H as (s & E & Hs).
  apply in_concat in Hs as (g & Hg & Hs). unfold groups_of in Hg. apply in_map_iff in Hg as (l & <- & _).
  unfold rows_with in Hs. apply in_map_iff in Hs as ((k & s1) & E1 & H1). cbn in E1. subst s1.
  apply filter_In in H1 as (H1 & _). apply in_combine_r in H1.
  exists s. split; [exact H1|]. split; [|symmetry; exact E].
  rewrite <- (strip_id s), E. apply strip_id.
Qed.

(* ================= the chord relation and the tabulated relation ================= *)

Lemma link_chord_spec en ed a b : link_chord en ed a b = true <->
  ed * chord2_num (s_pt a) (s_pt b) <= en * chord2_den (s_pt a) (s_pt b).
Proof. unfold link_chord. apply Z.leb_le. Qed.

Lemma link_chord_sym en ed : symmetric (link_chord en ed).
Proof.
  intros a b. rewrite !link_chord_spec. unfold chord2_num, chord2_den, sq.
  destruct (s_pt a) as [x y z d], (s_pt b) as [x' y' z' d']; cbn [px py pz pd].
  intros H. replace ((x' * d - x * d') * (x' * d - x * d')) with ((x * d' - x' * d) * (x * d' - x' * d)) by ring.
  replace ((y' * d - y * d') * (y' * d - y * d')) with ((y * d' - y' * d) * (y * d' - y' * d)) by ring.
  replace ((z' * d - z * d') * (z' * d - z * d')) with ((z * d' - z' * d) * (z * d' - z' * d)) by ring.
  replace (d' * d * (d' * d)) with (d * d' * (d * d')) by ring. exact H.
Qed.

Lemma tabulate_exact link cat a b : NoDup (ids cat) -> In a cat -> In b cat ->
  link_tbl (tabulate link cat a) (tabulate link cat b) = link a b.
Proof.
  intros Hnd Ha Hb. unfold link_tbl, tabulate. cbn [s_id s_nbrs set_nbrs].
  apply eq_true_iff_eq. rewrite existsb_exists. split.
  - intros (i & Hi & E). apply Z.eqb_eq in E. subst i.
    apply in_map_iff in Hi as (c & E & Hc). apply filter_In in Hc as (Hc & Hl).
    assert (c = b) by (apply (ids_inj cat); auto). subst. exact Hl.
  - intros Hl. exists (s_id b). split; [|apply Z.eqb_refl].
    apply in_map, filter_In. auto.
Qed.

(* ================= regroup / regroup_vectorized (greedy) ================= *)

Lemma StronglySorted_snoc {A} (R : A -> A -> Prop) l a :
  StronglySorted R l -> (forall x, In x l -> R x a) -> StronglySorted R (l ++ [a]).
Proof.
  induction l as [|b l IH]; intros Hs Ha; cbn.
  - constructor; constructor.
  - inversion Hs as [|? ? Hl Hb]; subst. constructor.
    + apply IH; auto. intros x Hx. apply Ha. right; auto.
    + rewrite Forall_forall in *. intros x Hx. apply in_app_or in Hx as [Hx|[<-|[]]]; auto. apply Ha. left; auto.
Qed.

Lemma StronglySorted_rev_flip {A} (R : A -> A -> Prop) l :
  StronglySorted R l -> StronglySorted (fun a b => R b a) (rev l).
Proof.
  induction l as [|a l IH]; intros Hs; cbn; [constructor|].
  inversion Hs as [|? ? Hl Ha]; subst. apply StronglySorted_snoc; auto.
  rewrite Forall_forall in Ha. intros x Hx. apply Ha, in_rev, Hx.
Qed.

Lemma concat_map_rev_rev {A} (S : list (list A)) : Permutation (concat (map (@rev A) (rev S))) (concat S).
Proof.
  induction S as [|g S IH]; cbn; [constructor|].
  rewrite map_app, concat_app. cbn. rewrite app_nil_r, IH.
  rewrite Permutation_app_comm. apply Permutation_app_tail. symmetry. apply Permutation_rev.
Qed.

Lemma NoDup_app_l {A} (l l' : list A) : NoDup (l ++ l') -> NoDup l.
Proof.
  induction l as [|a l IH]; cbn; intros H; [constructor|]. inversion H; subst.
  constructor; auto. intros Hin. apply H2, in_or_app; auto.
Qed.
Lemma NoDup_app_r {A} (l l' : list A) : NoDup (l ++ l') -> NoDup l'.
Proof. induction l as [|a l IH]; cbn; intros H; auto. inversion H; auto. Qed.

Lemma NoDup_concat_each {A B} (f : A -> B) (gs : list (list A)) g :
  NoDup (map f (concat gs)) -> In g gs -> NoDup (map f g).
Proof.
  induction gs as [|h gs IH]; intros Hnd Hg; [destruct Hg|].
  cbn in Hnd. rewrite map_app in Hnd. destruct Hg as [->|Hg].
  - eapply NoDup_app_l; eauto.
  - apply IH; auto. eapply NoDup_app_r; eauto.
Qed.

(* the chain relation inside a group *)
Definition glinked (link : source -> source -> bool) (g : list source) : source -> source -> Prop :=
  clos_refl_sym_trans source (fun a b => In a g /\ In b g /\ link a b = true).

Lemma glinked_incl link g g' x y : incl g g' -> glinked link g x y -> glinked link g' x y.
Proof.
  intros Hi H. induction H as [a b (Ha & Hb & Hl)|a|a b _ IH|a b c _ IH1 _ IH2].
  - apply rst_step. auto.
  - apply rst_refl.
  - apply rst_sym, IH.
  - eapply rst_trans; eauto.
Qed.

Section GreedyFacts.
Variable link : source -> source -> bool.
Variable far : Z.
Hypothesis Hfar : 0 <= far.

Lemma dec_order_perm cat : Permutation (dec_order cat) cat.
Proof.
  unfold dec_order. rewrite greedy_order_reversed_spec. rewrite <- Permutation_rev. apply isort_perm.
Qed.

Lemma dec_order_sorted cat : StronglySorted (fun a b => s_dec b <= s_dec a) (dec_order cat).
Proof.
  unfold dec_order. rewrite greedy_order_reversed_spec.
  apply (StronglySorted_rev_flip (fun a b => s_dec a <= s_dec b)). apply isort_sorted.
Qed.

Lemma dec_order_perm_eq cat cat' : NoDup (map s_dec cat) -> Permutation cat cat' -> dec_order cat = dec_order cat'.
Proof. intros Hnd Hp. unfold dec_order. rewrite (isort_perm_eq s_dec cat cat' Hp Hnd). reflexivity. Qed.

(* every member of every group is at a declination >= that of rec *)
Definition above (rec : source) (gs : list (list source)) : Prop :=
  forall g, In g gs -> g <> [] /\ forall m, In m g -> s_dec rec <= s_dec m.

Lemma scan_spec rec gs :
  match scan link far rec gs with
  | (_, Some gs') => exists pre g post, gs = pre ++ g :: post /\ gs' = pre ++ (rec :: g) :: post /\ near link rec g = true
  | (_, None) => True
  end.
Proof.
  induction gs as [|g t IH]; cbn [scan]; [exact I|].
  destruct (near link rec g) eqn:En.
  - exists [], g, t. auto.
  - destruct (scan link far rec t) as [k [gs'|]]; cbn [option_map]; [|exact I].
    destruct IH as (pre & g0 & post & -> & -> & Hn). exists (g :: pre), g0, post. auto.
Qed.

Lemma scan_k0 rec gs : above rec gs -> fst (scan link far rec gs) = O.
Proof.
  induction gs as [|g t IH]; intros Ha; cbn [scan]; [reflexivity|].
  assert (Hk : (if greedy_early_new_group (last_dec g) (greedy_decmin (s_dec rec) far) then 1%nat else O) = O).
  { destruct (greedy_early_new_group (last_dec g) (greedy_decmin (s_dec rec) far)) eqn:E; [|reflexivity].
    apply greedy_early_spec in E. rewrite greedy_decmin_spec in E.
    destruct (Ha g (or_introl eq_refl)) as (Hne & Hm). destruct g as [|m g]; [congruence|].
    cbn [last_dec] in E. specialize (Hm m (or_introl eq_refl)). lia. }
  rewrite Hk. destruct (near link rec g); [reflexivity|].
  assert (IH' : fst (scan link far rec t) = O) by (apply IH; intros g0 H0; apply Ha; right; auto).
  destruct (scan link far rec t) as [k r]. cbn in IH'. subst k. reflexivity.
Qed.

Lemma gstep_shape rec gs : above rec gs ->
  (exists pre g post, gs = pre ++ g :: post /\ gstep link far gs rec = pre ++ (rec :: g) :: post /\ near link rec g = true) \/
  gstep link far gs rec = [rec] :: gs.
Proof.
  intros Ha. unfold gstep. pose proof (scan_k0 rec gs Ha) as Hk. pose proof (scan_spec rec gs) as Hs.
  destruct (scan link far rec gs) as [k [gs'|]]; cbn in Hk; subst k; cbn [repeat app].
  - left. destruct Hs as (pre & g & post & -> & -> & Hn). exists pre, g, post. auto.
  - right. reflexivity.
Qed.

Lemma gstep_perm rec gs : above rec gs -> Permutation (concat (gstep link far gs rec)) (rec :: concat gs).
Proof.
  intros Ha. destruct (gstep_shape rec gs Ha) as [(pre & g & post & -> & -> & _)| ->].
  - rewrite !concat_app. cbn [concat app]. symmetry. apply Permutation_middle.
  - reflexivity.
Qed.

Lemma gstep_nonempty rec gs : above rec gs -> forall g, In g (gstep link far gs rec) -> g <> [].
Proof.
  intros Ha g Hg. destruct (gstep_shape rec gs Ha) as [(pre & g0 & post & E & E' & _)|E'].
  - rewrite E' in Hg. apply in_app_or in Hg as [Hg|[<-|Hg]]; [| discriminate |].
    + apply Ha. rewrite E. apply in_or_app; auto.
    + apply Ha. rewrite E. apply in_or_app. right. right. auto.
  - rewrite E' in Hg. destruct Hg as [<-|Hg]; [discriminate|]. apply Ha, Hg.
Qed.

(* state invariant along the descending list L of sources still to be placed *)
Definition ginv (gs : list (list source)) (L : list source) : Prop := forall r, In r L -> above r gs.

Lemma fold_gstep L : StronglySorted (fun a b => s_dec b <= s_dec a) L -> forall gs, ginv gs L ->
  Permutation (concat (fold_left (gstep link far) L gs)) (L ++ concat gs) /\
  ((forall g, In g gs -> g <> []) -> forall g, In g (fold_left (gstep link far) L gs) -> g <> []).
Proof.
  induction L as [|rec L IH]; intros Hs gs Hi; cbn [fold_left app]; [split; auto|].
  inversion Hs as [|? ? HL Hrec]; subst. rewrite Forall_forall in Hrec.
  assert (Ha : above rec gs) by (apply Hi; left; auto).
  assert (Hi' : ginv (gstep link far gs rec) L).
  { intros r Hr g Hg. split; [eapply gstep_nonempty; eauto|].
    intros m Hm. assert (Hin : In m (concat (gstep link far gs rec))) by (apply in_concat; eauto).
    apply (Permutation_in _ (gstep_perm rec gs Ha)) in Hin. destruct Hin as [<-|Hin]; [apply Hrec, Hr|].
    apply in_concat in Hin as (g0 & Hg0 & Hm0). apply (Hi r (or_intror Hr) g0 Hg0), Hm0. }
  destruct (IH HL _ Hi') as (Hp & Hne). split.
  - rewrite Hp, (gstep_perm rec gs Ha). symmetry. apply Permutation_middle.
  - intros Hgs. apply Hne. apply gstep_nonempty, Ha.
Qed.

Lemma greedy_groups_perm cat : Permutation (concat (greedy_groups link far cat)) cat.
Proof.
  unfold greedy_groups. rewrite concat_map_rev_rev.
  destruct (fold_gstep (dec_order cat) (dec_order_sorted cat) []) as (Hp & _).
  - intros r _ g [].
  - rewrite Hp. cbn [concat]. rewrite app_nil_r. apply dec_order_perm.
Qed.

Lemma greedy_groups_nonempty cat g : In g (greedy_groups link far cat) -> g <> [].
Proof.
  unfold greedy_groups. intros Hg. apply in_map_iff in Hg as (g0 & <- & Hg0). apply in_rev in Hg0.
  destruct (fold_gstep (dec_order cat) (dec_order_sorted cat) []) as (_ & Hne).
  - intros r _ g [].
  - assert (H0 : g0 <> []) by (apply Hne; auto; intros g []).
    intros E. apply H0. destruct g0; [auto|]. cbn in E. apply app_eq_nil in E as (_ & E). discriminate.
Qed.

(* connectedness: every source joined a group through a link to an earlier member *)
Inductive tree_conn : list source -> Prop :=
| tc_one x : tree_conn [x]
| tc_cons x g : tree_conn g -> existsb (link x) g = true -> tree_conn (x :: g).

Lemma tree_conn_linked g : tree_conn g -> forall x y, In x g -> In y g -> glinked link g x y.
Proof.
  induction 1 as [x|x g Hg IH Hex]; intros a b Ha Hb.
  - destruct Ha as [<-|[]], Hb as [<-|[]]. apply rst_refl.
  - apply existsb_exists in Hex as (m & Hm & Hl).
    assert (Hxm : glinked link (x :: g) x m) by (apply rst_step; repeat split; cbn; auto).
    assert (Hup : forall u v, In u g -> In v g -> glinked link (x :: g) u v).
    { intros u v Hu Hv. apply (glinked_incl link g); [intros z Hz; right; exact Hz|]. apply IH; auto. }
    destruct Ha as [<-|Ha], Hb as [<-|Hb].
    + apply rst_refl.
    + eapply rst_trans; [exact Hxm|]. apply Hup; auto.
    + eapply rst_trans; [apply Hup; [exact Ha|exact Hm]|]. apply rst_sym, Hxm.
    + apply Hup; auto.
Qed.

Lemma fold_gstep_conn L : StronglySorted (fun a b => s_dec b <= s_dec a) L -> forall gs, ginv gs L ->
  (forall g, In g gs -> tree_conn g) -> forall g, In g (fold_left (gstep link far) L gs) -> tree_conn g.
Proof.
  induction L as [|rec L IH]; intros Hs gs Hi Ht; cbn [fold_left]; [exact Ht|].
  inversion Hs as [|? ? HL Hrec]; subst. rewrite Forall_forall in Hrec.
  assert (Ha : above rec gs) by (apply Hi; left; auto).
  apply IH; auto.
  - intros r Hr g Hg. split; [eapply gstep_nonempty; eauto|].
    intros m Hm. assert (Hin : In m (concat (gstep link far gs rec))) by (apply in_concat; eauto).
    apply (Permutation_in _ (gstep_perm rec gs Ha)) in Hin. destruct Hin as [<-|Hin]; [apply Hrec, Hr|].
    apply in_concat in Hin as (g0 & Hg0 & Hm0). apply (Hi r (or_intror Hr) g0 Hg0), Hm0.
  - intros g Hg. destruct (gstep_shape rec gs Ha) as [(pre & g0 & post & E & E' & Hn)|E'].
    + rewrite E' in Hg. apply in_app_or in Hg as [Hg|[<-|Hg]].
      * apply Ht. rewrite E. apply in_or_app; auto.
      * apply tc_cons; [|exact Hn]. apply Ht. rewrite E. apply in_or_app. right. left. auto.
      * apply Ht. rewrite E. apply in_or_app. right. right. auto.
    + rewrite E' in Hg. destruct Hg as [<-|Hg]; [apply tc_one|apply Ht, Hg].
Qed.

Lemma greedy_groups_connected cat g : In g (greedy_groups link far cat) ->
  forall x y, In x g -> In y g -> glinked link g x y.
Proof.
  unfold greedy_groups. intros Hg x y Hx Hy. apply in_map_iff in Hg as (g0 & <- & Hg0). apply in_rev in Hg0.
  apply (glinked_incl link g0); [intros z Hz; apply in_rev; rewrite rev_involutive; exact Hz|].
  apply tree_conn_linked; [|apply in_rev, Hx|apply in_rev, Hy].
  apply (fold_gstep_conn (dec_order cat) (dec_order_sorted cat) []); auto.
  - intros r _ g [].
  - intros g [].
Qed.

(* ---- the relabelled result *)
Lemma greedy_partition cat :
  Permutation (map strip (concat (regroup_greedy link far cat))) (map strip cat) /\
  Permutation (ids (concat (regroup_greedy link far cat))) (ids cat) /\
  (forall g, In g (regroup_greedy link far cat) -> g <> []).
Proof.
  unfold regroup_greedy.
  assert (H1 : Permutation (map strip (concat (relabel_from greedy_sort_key greedy_sort_reverse greedy_first_source
                 greedy_first_island (greedy_groups link far cat)))) (map strip cat)).
  { rewrite relabel_from_strip. apply Permutation_map, greedy_groups_perm. }
  split; [exact H1|split].
  - pose proof (Permutation_map s_id H1) as H2. rewrite !map_map in H2. exact H2.
  - intros g Hg. apply relabel_from_In in Hg as (g0 & i & Hg0 & -> & _).
    apply greedy_groups_nonempty in Hg0. intros E. apply Hg0.
    apply (f_equal (@length source)) in E. rewrite relabel_group_length in E. destruct g0; [auto|discriminate].
Qed.

Lemma greedy_connected cat g' : In g' (regroup_greedy link far cat) ->
  exists g, In g (greedy_groups link far cat) /\ ids g' = ids g /\ incl g cat /\
            forall x y, In x g -> In y g -> glinked link g x y.
Proof.
  unfold regroup_greedy. intros Hg. apply relabel_from_In in Hg as (g & i & Hg & -> & _).
  exists g. split; [exact Hg|split; [apply relabel_group_ids|split]].
  - intros z Hz. apply (Permutation_in _ (greedy_groups_perm cat)). apply in_concat. eauto.
  - apply (greedy_groups_connected cat g Hg).
Qed.

Lemma greedy_perm_invariant cat cat' : NoDup (map s_dec cat) -> Permutation cat cat' ->
  regroup_greedy link far cat' = regroup_greedy link far cat.
Proof.
  intros Hnd Hp. unfold regroup_greedy, greedy_groups. rewrite (dec_order_perm_eq cat cat' Hnd Hp). reflexivity.
Qed.

Lemma greedy_numbering cat : NoDup (ids cat) ->
  let out := regroup_greedy link far cat in
  (forall i g, nth_error out i = Some g ->
     (forall s, In s g -> s_island s = Z.of_nat i) /\
     Permutation (map s_source g) (map Z.of_nat (seq 0 (length g))) /\
     (forall s t, In s g -> In t g -> s_source s < s_source t -> s_flux t <= s_flux s)) /\
  NoDup (map label (concat out)).
Proof.
  intros Hnd out. unfold out, regroup_greedy.
  assert (Hg : forall g, In g (greedy_groups link far cat) -> NoDup (ids g)).
  { intros g Hg. apply (NoDup_concat_each s_id (greedy_groups link far cat)); auto.
    eapply Permutation_NoDup; [apply Permutation_map; symmetry; apply greedy_groups_perm|exact Hnd]. }
  split.
  - intros i g' Hi. apply relabel_from_nth in Hi as (g & Hgi & ->).
    rewrite greedy_first_island_spec, Z.add_0_l.
    assert (Hgn : NoDup (ids g)) by (apply Hg; eapply nth_error_In; eauto).
    split; [|split].
    + intros s. apply relabel_group_island.
    + rewrite relabel_group_length. rewrite (relabel_group_sources _ _ _ _ _ Hgn), greedy_first_source_spec.
      apply Permutation_refl' , map_ext. intros k. lia.
    + apply relabel_group_order; auto. apply greedy_key_desc.
  - apply relabel_from_labels_NoDup, Hg.
Qed.
End GreedyFacts.

Definition symmetric_on (cat : list source) (link : source -> source -> bool) : Prop :=
  forall x y, In x cat -> In y cat -> link x y = true -> link y x = true.
