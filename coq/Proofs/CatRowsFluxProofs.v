(* C03 - int_flux formula (Reals; standard-library axioms of the reals only) *)
From Coq Require Import Reals Lra.
From Aegean Require Import Lib.RBase Gen.CatRowsFlux Model.CatalogFluxModel.
Open Scope R_scope.

Lemma CC2FHWM_char : CC2FHWM = 2 * sqrt (2 * ln 2).
Proof. reflexivity. Qed.
Lemma int_flux_num_char peak sx sy : int_flux_num peak sx sy = peak * sx * sy * CC2FHWM ^ 2 * PI.
Proof. reflexivity. Qed.
Lemma beamarea_pix_char a b : beamarea_pix a b = a * b * PI.
Proof. reflexivity. Qed.
Lemma ellipse_axis_char s : ellipse_axis s = s * CC2FHWM.
Proof. reflexivity. Qed.
Lemma arcsec_char : arcsec_per_degree = 3600.
Proof. reflexivity. Qed.
Local Opaque CC2FHWM int_flux_num beamarea_pix ellipse_axis arcsec_per_degree.

Lemma ln2_pos : 0 < ln 2.
Proof. rewrite <- ln_1. apply ln_increasing; lra. Qed.
Lemma CC2FHWM_pos : 0 < CC2FHWM.
Proof.
  rewrite CC2FHWM_char. apply Rmult_lt_0_compat; [lra|]. apply sqrt_lt_R0.
  pose proof ln2_pos. lra.
Qed.
(* the documented constant: CC2FHWM^2 = 8 ln 2 *)
Lemma CC2FHWM_sq : CC2FHWM ^ 2 = 8 * ln 2.
Proof.
  rewrite CC2FHWM_char. replace ((2 * sqrt (2 * ln 2)) ^ 2) with (4 * (sqrt (2 * ln 2) * sqrt (2 * ln 2))) by ring.
  rewrite sqrt_sqrt; [ring|]. pose proof ln2_pos. lra.
Qed.

(* exactly what the code computes, in pixel quantities: peak times the ratio of the fitted FWHM axes
   (the ones handed to pix2sky_ellipse) to the beam FWHM axes; pi cancels *)
Lemma int_flux_pixels peak sx sy pa pb : pa <> 0 -> pb <> 0 ->
  int_flux peak sx sy pa pb = peak * ellipse_axis sx * ellipse_axis sy / (pa * pb).
Proof.
  intros Ha Hb. unfold int_flux. rewrite int_flux_num_char, beamarea_pix_char, !ellipse_axis_char.
  field. repeat split; auto. apply PI_neq0.
Qed.
Lemma int_flux_sigma peak sx sy pa pb : pa <> 0 -> pb <> 0 ->
  int_flux peak sx sy pa pb = peak * (8 * ln 2) * sx * sy / (pa * pb).
Proof.
  intros Ha Hb. rewrite int_flux_pixels by assumption. rewrite !ellipse_axis_char.
  replace (peak * (sx * CC2FHWM) * (sy * CC2FHWM)) with (peak * (CC2FHWM ^ 2) * sx * sy) by ring.
  rewrite CC2FHWM_sq. reflexivity.
Qed.

(* where the pixel -> sky map is locally a similarity of scale s deg/pixel (so that a = 3600 s (sx CC2FHWM),
   psf_a = 3600 s pa, ...), int_flux = peak a b / (psf_a psf_b) exactly *)
Lemma int_flux_sky s peak sx sy pa pb : s <> 0 -> pa <> 0 -> pb <> 0 ->
  int_flux peak sx sy pa pb =
  peak * sky_arcsec s (ellipse_axis sx) * sky_arcsec s (ellipse_axis sy) / (sky_arcsec s pa * sky_arcsec s pb).
Proof.
  intros Hs Ha Hb. rewrite int_flux_pixels by assumption. unfold sky_arcsec. rewrite arcsec_char.
  field. repeat split; auto.
Qed.
