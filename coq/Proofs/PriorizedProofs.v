(* C05 - lemmas about Model/Priorized.v.  Only the leaf lemmas of PriorizedLeaves.v are used for the
   generated definitions, which are opaque here. *)
From Coq Require Import ZArith QArith Qround Lia Lqa Bool List.
From Aegean Require Import Lib.QPy Gen.Priorized Model.Priorized Proofs.PriorizedLeaves.
Import ListNotations.
Open Scope Q_scope.

Local Opaque fits_to_array_x fits_to_array_y nearest_x nearest_y rejected to_deg to_cc cut_xwidth cut_ywidth
  xmin_init ymin_init xmax_init ymax_init xmin_upd xmax_upd ymin_upd ymax_upd
  slice_x_lo slice_x_hi slice_y_lo slice_y_hi shift_x shift_y xo_lower xo_upper yo_lower yo_upper
  shape_lower shape_upper vary_amp vary_xo vary_yo vary_sx vary_sy vary_theta copy_pos_err copy_shape_err copied_err
  flag_PRIORIZED flag_FIXED2PSF flag_NOTFIT array_to_fits_x array_to_fits_y from_cc to_arcsec.

(* ------------------------------------------------------------------------------------------ *)
(* order-preserving sub-sequences *)
Inductive subseq {A : Type} : list A -> list A -> Prop :=
| sub_nil : forall l, subseq [] l
| sub_skip : forall x l1 l2, subseq l1 l2 -> subseq l1 (x :: l2)
| sub_take : forall x l1 l2, subseq l1 l2 -> subseq (x :: l1) (x :: l2).

Lemma subseq_refl : forall (A : Type) (l : list A), subseq l l.
Proof. induction l; constructor; assumption. Qed.

Lemma subseq_app : forall (A : Type) (a1 a2 b1 b2 : list A), subseq a1 a2 -> subseq b1 b2 -> subseq (a1 ++ b1) (a2 ++ b2).
Proof.
  intros A a1 a2 b1 b2 Ha Hb. induction Ha as [l|x l1 l2 H IH|x l1 l2 H IH]; cbn [app].
  - induction l as [|y l IH]; cbn [app]; [assumption|constructor; assumption].
  - constructor; assumption.
  - constructor; assumption.
Qed.

Lemma subseq_In : forall (A : Type) (l1 l2 : list A) x, subseq l1 l2 -> In x l1 -> In x l2.
Proof.
  intros A l1 l2 x H. induction H as [l|y l1 l2 H IH|y l1 l2 H IH]; intro Hin.
  - destruct Hin.
  - right. apply IH. assumption.
  - destruct Hin as [->|Hin]; [left; reflexivity|right; apply IH; assumption].
Qed.

Lemma subseq_NoDup : forall (A : Type) (l1 l2 : list A), subseq l1 l2 -> NoDup l2 -> NoDup l1.
Proof.
  intros A l1 l2 H. induction H as [l|y l1 l2 H IH|y l1 l2 H IH]; intro Hnd.
  - constructor.
  - inversion Hnd; subst. apply IH. assumption.
  - inversion Hnd as [|? ? Hnotin Hnd']; subst. constructor.
    + intro Hin. apply Hnotin. eapply subseq_In; eassumption.
    + apply IH. assumption.
Qed.

Lemma subseq_map : forall (A B : Type) (f : A -> B) l1 l2, subseq l1 l2 -> subseq (map f l1) (map f l2).
Proof. intros A B f l1 l2 H. induction H; cbn [map]; constructor; assumption. Qed.

Lemma subseq_filter : forall (A : Type) (f : A -> bool) l, subseq (filter f l) l.
Proof.
  intros A f l. induction l as [|x l IH]; cbn [filter]; [constructor|].
  destruct (f x); constructor; assumption.
Qed.

Lemma subseq_combine_snd : forall (A B : Type) (l1 : list A) (l2 : list B), subseq (map snd (combine l1 l2)) l2.
Proof.
  intros A B l1. induction l1 as [|a l1 IH]; intros l2; cbn [combine map]; [constructor|].
  destruct l2 as [|b l2]; cbn [map snd]; [constructor|]. apply sub_take. apply IH.
Qed.

Lemma subseq_trans : forall (A : Type) (l1 l2 l3 : list A), subseq l1 l2 -> subseq l2 l3 -> subseq l1 l3.
Proof.
  intros A l1 l2 l3 H12 H23. revert l1 H12.
  induction H23 as [l|y l2 l3 H IH|y l2 l3 H IH]; intros l1 H12.
  - inversion H12; subst. apply sub_nil.
  - apply sub_skip. apply IH. assumption.
  - inversion H12; subst.
    + apply sub_nil.
    + apply sub_skip. apply IH. assumption.
    + apply sub_take. apply IH. assumption.
Qed.

Lemma combine_full : forall (A B : Type) (l1 : list A) (l2 : list B), length l1 = length l2 -> map snd (combine l1 l2) = l2.
Proof.
  intros A B l1. induction l1 as [|a l1 IH]; intros [|b l2] H; cbn in *; try discriminate; [reflexivity|].
  f_equal. apply IH. lia.
Qed.

(* ------------------------------------------------------------------------------------------ *)
(* imap *)
Lemma imap_map_ext : forall (A B C : Type) (f : Z -> A -> B) (g : B -> C) (h : A -> C) l k,
  (forall j a, g (f j a) = h a) -> map g (imap f k l) = map h l.
Proof.
  intros A B C f g h l. induction l as [|a l IH]; intros k H; cbn [imap map]; [reflexivity|].
  rewrite H, IH by assumption. reflexivity.
Qed.

Lemma imap_In : forall (A B : Type) (f : Z -> A -> B) l k y,
  In y (imap f k l) -> exists n a, nth_error l n = Some a /\ y = f (k + Z.of_nat n)%Z a.
Proof.
  intros A B f l. induction l as [|a l IH]; intros k y Hin; cbn [imap] in Hin; [destruct Hin|].
  destruct Hin as [<-|Hin].
  - exists 0%nat, a. split; [reflexivity|]. f_equal. cbn. lia.
  - destruct (IH _ _ Hin) as (n & a' & Hn & ->). exists (S n), a'. split; [exact Hn|]. f_equal. lia.
Qed.

Lemma imap_app : forall (A B : Type) (f : Z -> A -> B) l1 l2 k,
  imap f k (l1 ++ l2) = imap f k l1 ++ imap f (k + Z.of_nat (length l1))%Z l2.
Proof.
  intros A B f l1. induction l1 as [|a l1 IH]; intros l2 k; cbn [app imap length].
  - f_equal. cbn. lia.
  - rewrite IH. cbn [app]. do 3 f_equal. lia.
Qed.

Lemma nth_error_combine : forall (A B : Type) (l1 : list A) (l2 : list B) n a b,
  nth_error (combine l1 l2) n = Some (a, b) -> nth_error l1 n = Some a /\ nth_error l2 n = Some b.
Proof.
  intros A B l1. induction l1 as [|x l1 IH]; intros [|y l2] n a b H; try (destruct n; discriminate).
  destruct n as [|n]; cbn in *.
  - inversion H; subst. split; reflexivity.
  - apply IH. assumption.
Qed.

Lemma Forall2_nth : forall (A B : Type) (R : A -> B -> Prop) l1 l2 n a b,
  Forall2 R l1 l2 -> nth_error l1 n = Some a -> nth_error l2 n = Some b -> R a b.
Proof.
  intros A B R l1 l2 n a b H. revert n. induction H as [|x y l1 l2 Hxy H IH]; intros n Ha Hb.
  - destruct n; discriminate.
  - destruct n as [|n]; cbn in *.
    + inversion Ha; inversion Hb; subst. assumption.
    + eapply IH; eassumption.
Qed.

Lemma Forall2_length : forall (A B : Type) (R : A -> B -> Prop) l1 l2, Forall2 R l1 l2 -> length l1 = length l2.
Proof. intros A B R l1 l2 H. induction H; cbn; [reflexivity|f_equal; assumption]. Qed.

(* ------------------------------------------------------------------------------------------ *)
(* the cut-out on integers *)
Definition zbox : Type := (Z * Z * Z * Z)%type.     (* xmin, xmax, ymin, ymax *)
Definition inj_box (b : zbox) : box :=
  let '(a, b', c, d) := b in mkBox (inject_Z a) (inject_Z b') (inject_Z c) (inject_Z d).

Definition zx (p : placed) : Z := Qfloor (p_x p).
Definition zy (p : placed) : Z := Qfloor (p_y p).
Definition zxw (p : placed) : Z := Qfloor (cut_xwidth (p_sx p) (p_sy p)).
Definition zyw (p : placed) : Z := Qfloor (cut_ywidth (p_sx p) (p_sy p)).
Definition wf_placed (p : placed) : Prop := p_x p = inject_Z (zx p) /\ p_y p = inject_Z (zy p).

Definition zbox_add (R C : Z) (b : zbox) (p : placed) : zbox :=
  let '(xmin, xmax, ymin, ymax) := b in
  (Z.min xmin (Z.max 0 (zx p - zxw p / 2)), Z.max xmax (Z.min R (zx p + zxw p / 2 + 1)),
   Z.min ymin (Z.max 0 (zy p - zyw p / 2)), Z.max ymax (Z.min C (zy p + zyw p / 2 + 1)))%Z.

Lemma box_add_Z : forall im b p, wf_placed p ->
  box_add im (inj_box b) p = inj_box (zbox_add (rows im) (cols im) b p).
Proof.
  intros im [[[a b'] c] d] p [Hx Hy]. unfold box_add, zbox_add, inj_box. cbn [b_xmin b_xmax b_ymin b_ymax].
  remember (zx p) as X eqn:EX. remember (zy p) as Y eqn:EY. rewrite Hx, Hy.
  rewrite (cut_xwidth_int (p_sx p) (p_sy p)), (cut_ywidth_int (p_sx p) (p_sy p)).
  rewrite xmin_upd_spec, xmax_upd_spec, ymin_upd_spec, ymax_upd_spec.
  unfold zxw, zyw. reflexivity.
Qed.

Lemma box_init_Z : forall im, box_init im = inj_box (rows im, 0, cols im, 0)%Z.
Proof.
  intro im. unfold box_init, inj_box. rewrite xmin_init_spec, xmax_init_spec, ymin_init_spec, ymax_init_spec. reflexivity.
Qed.

Lemma fold_box_Z : forall im incl b, Forall wf_placed incl ->
  fold_left (box_add im) incl (inj_box b) = inj_box (fold_left (zbox_add (rows im) (cols im)) incl b).
Proof.
  intros im incl. induction incl as [|p incl IH]; intros b H; cbn [fold_left]; [reflexivity|].
  inversion H as [|? ? Hp Hrest]; subst. rewrite box_add_Z by assumption. apply IH. assumption.
Qed.

Lemma island_box_Z : forall im incl, Forall wf_placed incl ->
  island_box im incl = inj_box (fold_left (zbox_add (rows im) (cols im)) incl (rows im, 0, cols im, 0)%Z).
Proof. intros im incl H. unfold island_box. rewrite box_init_Z. apply fold_box_Z. assumption. Qed.

(* the fold only widens the box, and a box that contains a pixel keeps containing it *)
Definition in_zbox (b : zbox) (x y : Z) : Prop :=
  let '(xmin, xmax, ymin, ymax) := b in (xmin <= x < xmax /\ ymin <= y < ymax)%Z.
Definition zbox_ok (R C : Z) (b : zbox) : Prop :=
  let '(xmin, xmax, ymin, ymax) := b in (0 <= xmin /\ xmax <= R /\ 0 <= ymin /\ ymax <= C)%Z.
Definition good_placed (R C : Z) (p : placed) : Prop :=
  (0 <= zx p < R /\ 0 <= zy p < C /\ 0 <= zxw p /\ 0 <= zyw p)%Z.

Lemma zbox_add_contains : forall R C b p, good_placed R C p -> in_zbox (zbox_add R C b p) (zx p) (zy p).
Proof.
  intros R C [[[a b'] c] d] p (Hx & Hy & Hw & Hh). unfold in_zbox, zbox_add.
  pose proof (Z.div_pos (zxw p) 2 Hw ltac:(lia)). pose proof (Z.div_pos (zyw p) 2 Hh ltac:(lia)). lia.
Qed.

Lemma zbox_add_mono : forall R C b p x y, in_zbox b x y -> in_zbox (zbox_add R C b p) x y.
Proof. intros R C [[[a b'] c] d] p x y H. unfold in_zbox, zbox_add in *. lia. Qed.

Lemma zbox_add_ok : forall R C b p, (0 <= R)%Z -> (0 <= C)%Z -> zbox_ok R C b -> zbox_ok R C (zbox_add R C b p).
Proof. intros R C [[[a b'] c] d] p HR HC H. unfold zbox_ok, zbox_add in *. lia. Qed.

Lemma fold_zbox_mono : forall R C incl b x y, in_zbox b x y -> in_zbox (fold_left (zbox_add R C) incl b) x y.
Proof.
  intros R C incl. induction incl as [|p incl IH]; intros b x y H; cbn [fold_left]; [assumption|].
  apply IH. apply zbox_add_mono. assumption.
Qed.

Lemma fold_zbox_contains : forall R C incl b p, Forall (good_placed R C) incl -> In p incl ->
  in_zbox (fold_left (zbox_add R C) incl b) (zx p) (zy p).
Proof.
  intros R C incl. induction incl as [|q incl IH]; intros b p Hall Hin; [destruct Hin|].
  inversion Hall as [|? ? Hq Hrest]; subst. cbn [fold_left]. destruct Hin as [->|Hin].
  - apply fold_zbox_mono. apply zbox_add_contains. assumption.
  - apply IH; assumption.
Qed.

Lemma fold_zbox_ok : forall R C incl b, (0 <= R)%Z -> (0 <= C)%Z -> zbox_ok R C b -> zbox_ok R C (fold_left (zbox_add R C) incl b).
Proof.
  intros R C incl. induction incl as [|p incl IH]; intros b HR HC H; cbn [fold_left]; [assumption|].
  apply IH; try assumption. apply zbox_add_ok; assumption.
Qed.

(* ------------------------------------------------------------------------------------------ *)
Section Placement.
  Variable S : Q * Q -> Q * Q.
  Variable SE : Q * Q -> ell -> ell.
  Variable BM : Q * Q -> Q * Q.
  Variable kf : Q.
  Variable im : image.

  Notation place := (place S SE BM kf).
  Notation accepted := (accepted im).
  Notation included := (included S SE BM kf im).
  Notation refit_input := (refit_input S SE BM kf im).

  Lemma place_wf : forall s, wf_placed (place s).
  Proof.
    intro s. unfold wf_placed, zx, zy, Priorized.place. cbn [p_x p_y].
    rewrite nearest_x_spec, nearest_y_spec, !Qfloor_Z. split; reflexivity.
  Qed.

  Lemma place_src : forall s, p_src (place s) = s.
  Proof. reflexivity. Qed.

  Lemma included_wf : forall isle, Forall wf_placed (included isle).
  Proof.
    intro isle. apply Forall_forall. intros p Hin. unfold Priorized.included in Hin.
    apply filter_In in Hin. destruct Hin as [Hin _]. apply in_map_iff in Hin. destruct Hin as (s & <- & _).
    apply place_wf.
  Qed.

  Lemma included_inv : forall isle p, In p (included isle) -> exists s, In s isle /\ p = place s /\ accepted p = true.
  Proof.
    intros isle p Hin. unfold Priorized.included in Hin. apply filter_In in Hin. destruct Hin as [Hin Hacc].
    apply in_map_iff in Hin. destruct Hin as (s & <- & Hs). exists s. repeat split; assumption.
  Qed.

  (* accepted <-> the nearest pixel is inside the image and finite in both maps *)
  Lemma accepted_spec : forall p, wf_placed p ->
    accepted p = ((0 <=? zx p)%Z && (zx p <? rows im)%Z && ((0 <=? zy p)%Z && (zy p <? cols im)%Z)
                  && finite_at (data_blank im) (zx p) (zy p) && finite_at (rms_blank im) (zx p) (zy p)).
  Proof.
    intros p [Hx Hy]. unfold Priorized.accepted. rewrite Hx, Hy, rejected_spec, negb_involutive.
    rewrite !Qfloor_Z, andb_true_r. reflexivity.
  Qed.

  Lemma accepted_on_image : forall p, wf_placed p -> accepted p = true ->
    (0 <= zx p < rows im /\ 0 <= zy p < cols im)%Z /\
    finite_at (data_blank im) (zx p) (zy p) = true /\ finite_at (rms_blank im) (zx p) (zy p) = true.
  Proof.
    intros p Hwf H. rewrite accepted_spec in H by assumption.
    rewrite !andb_true_iff in H. destruct H as [[[[H1 H2] [H3 H4]] H5] H6].
    apply Z.leb_le in H1, H3. apply Z.ltb_lt in H2, H4.
    repeat split; assumption.
  Qed.

  Lemma included_skip : forall l1 r l2, accepted (place r) = false -> included (l1 ++ r :: l2) = included (l1 ++ l2).
  Proof.
    intros l1 r l2 H. unfold Priorized.included. rewrite !map_app, !filter_app. cbn [map filter]. rewrite H. reflexivity.
  Qed.

  Lemma refit_input_skip : forall l1 r l2, accepted (place r) = false -> refit_input (l1 ++ r :: l2) = refit_input (l1 ++ l2).
  Proof. intros l1 r l2 H. unfold Priorized.refit_input. rewrite included_skip by assumption. reflexivity. Qed.

  Lemma refit_input_inv : forall isle fi, refit_input isle = Some fi ->
    included isle <> [] /\
    fi_box fi = island_box im (included isle) /\
    fi_slice fi = box_slice (fi_box fi) /\
    fi_pars fi = map (comp_params kf (fi_box fi)) (included isle) /\
    fi_incl fi = map p_src (included isle).
  Proof.
    intros isle fi H. unfold Priorized.refit_input in H. destruct (included isle) as [|p incl] eqn:E; [discriminate|].
    inversion H; subst; clear H. cbn [fi_box fi_slice fi_pars fi_incl]. repeat split; try reflexivity. discriminate.
  Qed.

  (* C05_cutout_registered *)
  Lemma cutout_registered : forall isle fi,
    (forall s, In s isle -> 0 <= p_sx (place s)) ->
    refit_input isle = Some fi ->
    exists xlo xhi ylo yhi : Z,
      fi_box fi = mkBox (inject_Z xlo) (inject_Z xhi) (inject_Z ylo) (inject_Z yhi) /\
      fi_slice fi = (inject_Z xlo, inject_Z xhi, inject_Z ylo, inject_Z yhi) /\
      box_shift_x (fi_box fi) = inject_Z xlo /\ box_shift_y (fi_box fi) = inject_Z ylo /\
      (0 <= xlo < xhi /\ xhi <= rows im /\ 0 <= ylo < yhi /\ yhi <= cols im)%Z /\
      forall p, In p (included isle) ->
        (xlo <= zx p < xhi /\ ylo <= zy p < yhi)%Z /\
        c_xo (comp_params kf (fi_box fi) p) + inject_Z xlo == p_px p /\
        c_yo (comp_params kf (fi_box fi) p) + inject_Z ylo == p_py p /\
        c_xo_lo (comp_params kf (fi_box fi) p) + inject_Z xlo == xo_lower (p_px p) (p_sx p) /\
        c_xo_hi (comp_params kf (fi_box fi) p) + inject_Z xlo == xo_upper (p_px p) (p_sx p) /\
        c_yo_lo (comp_params kf (fi_box fi) p) + inject_Z ylo == yo_lower (p_py p) (p_sy p) /\
        c_yo_hi (comp_params kf (fi_box fi) p) + inject_Z ylo == yo_upper (p_py p) (p_sy p).
  Proof.
    intros isle fi Hsize H. destruct (refit_input_inv _ _ H) as (Hne & Hbox & Hslice & Hpars & Hincl).
    pose proof (included_wf isle) as Hwf.
    assert (Hgood : Forall (good_placed (rows im) (cols im)) (included isle)).
    { apply Forall_forall. intros p Hin. destruct (included_inv _ _ Hin) as (s & Hs & -> & Hacc).
      destruct (accepted_on_image _ (place_wf s) Hacc) as [[Hx Hy] _].
      pose proof (cut_xwidth_pos _ (p_sy (place s)) (Hsize s Hs)). pose proof (cut_ywidth_pos _ (p_sy (place s)) (Hsize s Hs)).
      unfold good_placed, zxw, zyw. lia. }
    rewrite (island_box_Z im _ Hwf) in Hbox.
    remember (fold_left (zbox_add (rows im) (cols im)) (included isle) (rows im, 0, cols im, 0)%Z) as zb eqn:Ezb.
    assert (Hcont : forall p, In p (included isle) -> in_zbox zb (zx p) (zy p)).
    { intros p Hin. subst zb. apply fold_zbox_contains; assumption. }
    assert (Hrows : (0 <= rows im /\ 0 <= cols im)%Z).
    { destruct (included isle) as [|p incl] eqn:E; [congruence|].
      inversion Hgood as [|? ? Hp _]; subst. unfold good_placed in Hp. lia. }
    assert (Hok : zbox_ok (rows im) (cols im) zb).
    { subst zb. apply fold_zbox_ok; try lia. unfold zbox_ok. lia. }
    destruct zb as [[[xlo xhi] ylo] yhi]. exists xlo, xhi, ylo, yhi.
    unfold inj_box in Hbox. split; [exact Hbox|].
    destruct (slice_spec xlo xhi ylo yhi) as (S1 & S2 & S3 & S4).
    split.
    { rewrite Hslice, Hbox. unfold box_slice. cbn [b_xmin b_xmax b_ymin b_ymax]. rewrite S1, S2, S3, S4. reflexivity. }
    split; [rewrite Hbox; unfold box_shift_x; cbn [b_xmin b_xmax b_ymin b_ymax]; apply shift_x_spec|].
    split; [rewrite Hbox; unfold box_shift_y; cbn [b_xmin b_xmax b_ymin b_ymax]; apply shift_y_spec|].
    split.
    { destruct (included isle) as [|p incl] eqn:E; [congruence|].
      pose proof (Hcont p (or_introl eq_refl)) as Hp. unfold in_zbox in Hp. unfold zbox_ok in Hok. lia. }
    intros p Hin. split; [exact (Hcont p Hin)|].
    rewrite Hbox. unfold comp_params, box_shift_x, box_shift_y. cbn [b_xmin b_xmax b_ymin b_ymax c_xo c_yo c_xo_lo c_xo_hi c_yo_lo c_yo_hi].
    rewrite shift_x_spec, shift_y_spec. repeat split; ring.
  Qed.
End Placement.

(* ------------------------------------------------------------------------------------------ *)
Section Output.
  Variable S P : Q * Q -> Q * Q.
  Variable SE PE : Q * Q -> ell -> ell.
  Variable BM : Q * Q -> Q * Q.
  Variable kf kc : Q.
  Variable fit : Z -> fit_input -> option (list cfit).
  Variable im : image.

  Notation place := (place S SE BM kf).
  Notation included := (included S SE BM kf im).
  Notation refit_input := (refit_input S SE BM kf im).
  Notation to_component := (to_component P PE kc).
  Notation island_out := (island_out S P SE PE BM kf kc fit im).
  Notation run := (run S P SE PE BM kf kc fit im).
  Notation accepted_inputs := (accepted_inputs S SE BM kf im).

  (* fields of a component that do not depend on the fitted values *)
  Lemma to_component_ids : forall st fl k b j f s,
    let c := to_component st fl k b j (f, s) in
    o_island c = k /\ o_source c = j /\ o_uuid c = s_uuid s /\
    o_flags c = Z.lor (Z.lor (Z.lor fl (c_flags (f_par f))) flag_PRIORIZED) (if copy_pos_err st then flag_FIXED2PSF else 0%Z) /\
    o_peak c = c_amp (f_par f) /\
    o_err_ra c = (if copy_pos_err st then copied_err (s_err_ra s) else f_err_ra f) /\
    o_err_dec c = (if copy_pos_err st then copied_err (s_err_dec s) else f_err_dec f) /\
    o_err_a c = (if copy_shape_err st then copied_err (s_err_a s) else f_err_a f) /\
    o_err_b c = (if copy_shape_err st then copied_err (s_err_b s) else f_err_b f) /\
    o_err_pa c = (if copy_shape_err st then copied_err (s_err_pa s) else f_err_pa f).
  Proof.
    intros st fl k b j f s. unfold Priorized.to_component. cbn [fst snd].
    destruct (fix_shape _ _ _) as [[a' b'] pa']. cbn. repeat split; reflexivity.
  Qed.

  Lemma island_out_inv : forall st k isle c, In c (island_out st k isle) ->
    exists fi fs n f s,
      refit_input isle = Some fi /\ fit st fi = Some fs /\
      nth_error fs n = Some f /\ nth_error (fi_incl fi) n = Some s /\
      c = to_component st (isle_flags isle) k (fi_box fi) (Z.of_nat n) (f, s).
  Proof.
    intros st k isle c Hin. unfold Priorized.island_out in Hin.
    destruct (refit_input isle) as [fi|] eqn:Efi; [|destruct Hin].
    destruct (fit st fi) as [fs|] eqn:Efs; [|destruct Hin].
    apply imap_In in Hin. destruct Hin as (n & [f s] & Hn & ->).
    apply nth_error_combine in Hn. destruct Hn as [Hf Hs].
    exists fi, fs, n, f, s. repeat split; try assumption.
  Qed.

  Lemma run_inv : forall st islands c, In c (run st islands) ->
    exists k isle, nth_error islands k = Some isle /\ In c (island_out st (Z.of_nat k) isle).
  Proof.
    intros st islands c Hin. unfold Priorized.run in Hin. apply in_concat in Hin.
    destruct Hin as (l & Hl & Hc). apply imap_In in Hl. destruct Hl as (n & isle & Hn & ->).
    exists n, isle. split; [assumption|]. exact Hc.
  Qed.

  Lemma island_out_uuids : forall st k isle,
    subseq (map o_uuid (island_out st k isle)) (map s_uuid (map p_src (included isle))).
  Proof.
    intros st k isle. unfold Priorized.island_out.
    destruct (refit_input isle) as [fi|] eqn:Efi; [|apply sub_nil].
    destruct (fit st fi) as [fs|] eqn:Efs; [|apply sub_nil].
    destruct (refit_input_inv _ _ _ _ _ _ _ Efi) as (_ & _ & _ & _ & Hincl).
    rewrite (imap_map_ext _ _ _ _ o_uuid (fun fs0 : cfit * src => s_uuid (snd fs0))).
    - rewrite <- Hincl. rewrite <- (map_map snd s_uuid). apply subseq_map. apply subseq_combine_snd.
    - intros j [f s]. apply (to_component_ids st (isle_flags isle) k (fi_box fi) j f s).
  Qed.

  Lemma run_uuids_gen : forall st islands k,
    subseq (map o_uuid (concat (imap (island_out st) k islands))) (map s_uuid (accepted_inputs islands)).
  Proof.
    intros st islands. induction islands as [|isle islands IH]; intro k; cbn [imap concat map].
    - apply sub_nil.
    - unfold Priorized.accepted_inputs. cbn [map concat]. rewrite !map_app. apply subseq_app.
      + apply island_out_uuids.
      + apply IH.
  Qed.

  (* C05_at_most_one *)
  Lemma at_most_one : forall st islands,
    subseq (map o_uuid (run st islands)) (map s_uuid (accepted_inputs islands)) /\
    subseq (map s_uuid (accepted_inputs islands)) (map s_uuid (concat islands)) /\
    (forall c, In c (run st islands) -> Z.testbit (o_flags c) 6 = true) /\
    (NoDup (map s_uuid (concat islands)) -> NoDup (map o_uuid (run st islands))).
  Proof.
    intros st islands.
    assert (H1 : subseq (map o_uuid (run st islands)) (map s_uuid (accepted_inputs islands))) by apply run_uuids_gen.
    assert (H2 : subseq (map s_uuid (accepted_inputs islands)) (map s_uuid (concat islands))).
    { clear H1. apply subseq_map. unfold Priorized.accepted_inputs. induction islands as [|isle islands IH]; cbn [map concat]; [apply sub_nil|].
      apply subseq_app; [|exact IH]. unfold Priorized.included.
      assert (E : forall l, map p_src (filter (accepted im) (map place l)) = filter (fun s => accepted im (place s)) l).
      { induction l as [|s l IHl]; cbn [map filter]; [reflexivity|]. destruct (accepted im (place s)); cbn [map]; rewrite IHl; reflexivity. }
      rewrite E. apply subseq_filter. }
    split; [exact H1|]. split; [exact H2|]. split.
    - intros c Hin. destruct (run_inv _ _ _ Hin) as (k & isle & _ & Hc).
      destruct (island_out_inv _ _ _ _ Hc) as (fi & fs & n & f & s & _ & _ & _ & _ & ->).
      destruct (to_component_ids st (isle_flags isle) (Z.of_nat k) (fi_box fi) (Z.of_nat n) f s) as (_ & _ & _ & Hfl & _).
      rewrite Hfl, flag_PRIORIZED_spec. rewrite !Z.lor_spec. change (Z.testbit 64 6) with true.
      rewrite orb_true_r. reflexivity.
    - intro Hnd. eapply subseq_NoDup; [exact H1|]. eapply subseq_NoDup; [exact H2|exact Hnd].
  Qed.

  (* when the optimiser returns every component it was given, nothing is lost *)
  Lemma all_returned : forall st islands,
    (forall fi, exists fs, fit st fi = Some fs /\ length fs = length (fi_pars fi)) ->
    map o_uuid (run st islands) = map s_uuid (accepted_inputs islands).
  Proof.
    intros st islands Hfit. unfold Priorized.run, Priorized.accepted_inputs. generalize 0%Z as k.
    induction islands as [|isle islands IH]; intro k; cbn [imap concat map]; [reflexivity|].
    rewrite !map_app, IH. f_equal. unfold Priorized.island_out.
    destruct (refit_input isle) as [fi|] eqn:Efi.
    - destruct (Hfit fi) as (fs & Efs & Hlen). rewrite Efs.
      destruct (refit_input_inv _ _ _ _ _ _ _ Efi) as (_ & _ & _ & Hpars & Hincl).
      rewrite (imap_map_ext _ _ _ _ o_uuid (fun fs0 : cfit * src => s_uuid (snd fs0))).
      + rewrite <- Hincl, <- (map_map snd s_uuid). f_equal. apply combine_full.
        rewrite Hlen, Hpars, Hincl, !map_length. reflexivity.
      + intros j [f s]. apply (to_component_ids st (isle_flags isle) k (fi_box fi) j f s).
    - unfold Priorized.refit_input in Efi. destruct (included isle); [reflexivity|discriminate].
  Qed.

  (* every output belongs to an accepted input: same uuid, copied uncertainties *)
  Lemma errors_copied : forall st islands c, In c (run st islands) ->
    exists s, In s (accepted_inputs islands) /\ o_uuid c = s_uuid s /\
      ((st < 2)%Z -> o_err_ra c = copied_err (s_err_ra s) /\ o_err_dec c = copied_err (s_err_dec s) /\ Z.testbit (o_flags c) 2 = true) /\
      ((st < 3)%Z -> o_err_a c = copied_err (s_err_a s) /\ o_err_b c = copied_err (s_err_b s) /\ o_err_pa c = copied_err (s_err_pa s)).
  Proof.
    intros st islands c Hin. destruct (run_inv _ _ _ Hin) as (k & isle & Hk & Hc).
    destruct (island_out_inv _ _ _ _ Hc) as (fi & fs & n & f & s & Efi & _ & _ & Hs & ->).
    destruct (refit_input_inv _ _ _ _ _ _ _ Efi) as (_ & _ & _ & _ & Hincl).
    exists s. split.
    { unfold Priorized.accepted_inputs. apply in_concat. exists (map p_src (included isle)). split.
      - apply in_map_iff. exists isle. split; [reflexivity|]. eapply nth_error_In; eassumption.
      - rewrite <- Hincl. eapply nth_error_In; eassumption. }
    destruct (to_component_ids st (isle_flags isle) (Z.of_nat k) (fi_box fi) (Z.of_nat n) f s)
      as (_ & _ & Hu & Hfl & _ & E1 & E2 & E3 & E4 & E5).
    split; [exact Hu|]. split.
    - intro Hst. rewrite E1, E2, Hfl, copy_pos_err_spec. apply Z.ltb_lt in Hst. rewrite Hst.
      repeat split; try reflexivity. rewrite flag_FIXED2PSF_spec, Z.lor_spec. change (Z.testbit 4 2) with true. apply orb_true_r.
    - intro Hst. rewrite E3, E4, E5, copy_shape_err_spec. apply Z.ltb_lt in Hst. rewrite Hst. repeat split; reflexivity.
  Qed.

  (* C05_skip_independent *)
  Lemma isle_flags_skip : forall l1 r l2, l2 <> [] -> isle_flags (l1 ++ r :: l2) = isle_flags (l1 ++ l2).
  Proof.
    intros l1 r l2 H. unfold isle_flags. rewrite !rev_app_distr. cbn [rev].
    destruct (rev l2) as [|x rl2] eqn:E.
    - exfalso. apply H. apply (f_equal (@rev src)) in E. rewrite rev_involutive in E. exact E.
    - rewrite <- !app_assoc. reflexivity.
  Qed.

  Lemma island_out_skip : forall st k l1 r l2,
    accepted im (place r) = false -> isle_flags (l1 ++ r :: l2) = isle_flags (l1 ++ l2) ->
    island_out st k (l1 ++ r :: l2) = island_out st k (l1 ++ l2).
  Proof.
    intros st k l1 r l2 Hrej Hfl. unfold Priorized.island_out.
    rewrite (refit_input_skip S SE BM kf im l1 r l2 Hrej), Hfl. reflexivity.
  Qed.

  Lemma run_skip : forall st I1 I2 l1 r l2,
    accepted im (place r) = false -> isle_flags (l1 ++ r :: l2) = isle_flags (l1 ++ l2) ->
    run st (I1 ++ (l1 ++ r :: l2) :: I2) = run st (I1 ++ (l1 ++ l2) :: I2).
  Proof.
    intros st I1 I2 l1 r l2 Hrej Hfl. unfold Priorized.run. rewrite !imap_app. cbn [imap].
    rewrite (island_out_skip st _ l1 r l2 Hrej Hfl). reflexivity.
  Qed.
End Output.

(* ------------------------------------------------------------------------------------------ *)
Lemma clip_inside : forall v lo hi, lo <= v -> v <= hi -> clip v lo hi = v.
Proof.
  intros v lo hi H1 H2. unfold clip.
  assert (E1 : Qltb hi v = false) by (apply Qltb_false_iff; assumption).
  assert (E2 : Qltb v lo = false) by (apply Qltb_false_iff; assumption).
  rewrite E1, E2. reflexivity.
Qed.

Lemma pa_limit_fuel_inside : forall n pa, -(90 # 1) < pa -> pa <= (90 # 1) -> pa_limit_fuel (Datatypes.S n) pa = pa.
Proof.
  intros n pa H1 H2. cbn [pa_limit_fuel].
  assert (E1 : Qleb pa (-90 # 1) = false) by (apply Qleb_false_iff; exact H1).
  assert (E2 : Qltb (90 # 1) pa = false) by (apply Qltb_false_iff; assumption).
  rewrite E1, E2. reflexivity.
Qed.

Lemma pa_limit_inside : forall pa, -(90 # 1) < pa -> pa <= (90 # 1) -> pa_limit pa = pa.
Proof. intros pa H1 H2. unfold pa_limit. apply (pa_limit_fuel_inside 63); assumption. Qed.

Lemma nth_error_map_inv : forall (A B : Type) (f : A -> B) l n b,
  nth_error (map f l) n = Some b -> exists a, nth_error l n = Some a /\ b = f a.
Proof.
  intros A B f l. induction l as [|x l IH]; intros n b H; destruct n as [|n]; cbn in *; try discriminate.
  - inversion H; subst. exists x. split; reflexivity.
  - apply IH. assumption.
Qed.

(* the limits the code puts on sx, sy never exclude the catalogue shape *)
Lemma shape_unclipped_true : forall kf p, 0 <= p_sx p -> 0 <= p_sy p -> shape_unclipped kf p = true.
Proof.
  intros kf p Hx Hy. unfold shape_unclipped, shape_lo, shape_hi.
  destruct (shape_limits_spec (p_sx p) (p_sy p) (p_beam_a p) (p_beam_b p) kf Hx Hy) as (L1 & L2 & L3 & L4).
  apply Qleb_iff in L1, L2, L3, L4. rewrite L1, L2, L3, L4. reflexivity.
Qed.

Section Roundtrip.
  Variable S P : Q * Q -> Q * Q.
  Variable SE PE : Q * Q -> ell -> ell.
  Variable BM : Q * Q -> Q * Q.
  Variable kf kc : Q.
  Variable fit : Z -> fit_input -> option (list cfit).
  Variable im : image.
  Hypothesis H_PS : wcs_inverts S P.
  Hypothesis H_PESE : wcs_ell_inverts S SE PE.
  Hypothesis H_k : kf * kc == 1.
  Hypothesis H_fit : fit_keeps_fixed fit.

  Notation place := (place S SE BM kf).
  Notation included := (included S SE BM kf im).
  Notation refit_input := (refit_input S SE BM kf im).
  Notation to_component := (to_component P PE kc).
  Notation run := (run S P SE PE BM kf kc fit im).
  Notation accepted_inputs := (accepted_inputs S SE BM kf im).

  Lemma to_component_sky : forall st fl k b j f s,
    let c := to_component st fl k b j (f, s) in
    let cp := f_par f in
    let xp := array_to_fits_x (c_xo cp) (c_yo cp) (b_xmin b) (b_xmax b) (b_ymin b) (b_ymax b) in
    let yp := array_to_fits_y (c_xo cp) (c_yo cp) (b_xmin b) (b_xmax b) (b_ymin b) (b_ymax b) in
    let sky := P (xp, yp) in
    let e := PE (xp, yp) (mkEll (from_cc (c_sx cp) kc) (from_cc (c_sy cp) kc) (c_theta cp)) in
    o_ra c = (if Qltb (fst sky) (0 # 1) then fst sky + (360 # 1) else fst sky) /\ o_dec c = snd sky /\
    (o_a c, o_b c, o_pa c) =
      (let '(a, b', pa) := fix_shape (to_arcsec (el_a e)) (to_arcsec (el_b e)) (el_pa e) in (a, b', pa_limit pa)) /\
    o_xpix c = xp /\ o_ypix c = yp.
  Proof.
    intros st fl k b j f s. unfold Priorized.to_component. cbn [fst snd].
    destruct (fix_shape _ _ _) as [[a' b'] pa']. cbn [o_ra o_dec o_a o_b o_pa o_xpix o_ypix]. repeat split; reflexivity.
  Qed.

  (* a run output, traced back to the placed source it was made from *)
  Lemma run_trace : forall st islands c, In c (run st islands) ->
    exists k isle fi n f p,
      In isle islands /\ refit_input isle = Some fi /\ In p (included isle) /\
      keeps st (comp_params kf (fi_box fi) p) f /\
      c = to_component st (isle_flags isle) k (fi_box fi) n (f, p_src p).
  Proof.
    intros st islands c Hin. apply run_inv in Hin. destruct Hin as (k & isle & Hk & Hc).
    apply island_out_inv in Hc. destruct Hc as (fi & fs & n & f & s & Efi & Efs & Hf & Hs & ->).
    pose proof Efi as Efi'. apply refit_input_inv in Efi'. destruct Efi' as (_ & _ & _ & Hpars & Hincl).
    rewrite Hincl in Hs. apply nth_error_map_inv in Hs. destruct Hs as (p & Hp & ->).
    exists (Z.of_nat k), isle, fi, (Z.of_nat n), f, p. split; [eapply nth_error_In; eassumption|].
    split; [exact Efi|]. split; [eapply nth_error_In; eassumption|]. split; [|reflexivity].
    apply (Forall2_nth _ _ _ _ _ n _ _ (H_fit _ _ _ Efs)); [|exact Hf].
    rewrite Hpars. apply map_nth_error. exact Hp.
  Qed.

  Lemma placed_frame : forall isle fi s, refit_input isle = Some fi ->
    let p := place s in let b := fi_box fi in let cp := comp_params kf b p in
    peq (array_to_fits_x (c_xo cp) (c_yo cp) (b_xmin b) (b_xmax b) (b_ymin b) (b_ymax b),
         array_to_fits_y (c_xo cp) (c_yo cp) (b_xmin b) (b_xmax b) (b_ymin b) (b_ymax b))
        (S (s_ra s, s_dec s)).
  Proof.
    intros isle fi s Efi p b cp. unfold peq. cbn [fst snd].
    rewrite array_to_fits_x_spec, array_to_fits_y_spec. subst cp. unfold comp_params, box_shift_x, box_shift_y.
    cbn [c_xo c_yo]. rewrite shift_x_spec, shift_y_spec. subst p. unfold Priorized.place. cbn [p_px p_py].
    rewrite fits_to_array_x_spec, fits_to_array_y_spec. split; ring.
  Qed.

  Lemma shape_back : forall ea eb epa a b pa,
    to_arcsec ea == a -> to_arcsec eb == b -> epa == pa -> b <= a -> -(90 # 1) < pa -> pa <= (90 # 1) ->
    forall x y z, (x, y, z) = (let '(a', b', pa') := fix_shape (to_arcsec ea) (to_arcsec eb) epa in (a', b', pa_limit pa')) ->
    x == a /\ y == b /\ z == pa.
  Proof.
    intros ea eb epa a b pa Ha Hb Hpa Hba H1 H2 x y z E. unfold fix_shape in E.
    assert (E0 : Qltb (to_arcsec ea) (to_arcsec eb) = false).
    { apply Qltb_false_iff. rewrite Ha, Hb. exact Hba. }
    rewrite E0 in E. rewrite pa_limit_inside in E.
    - inversion E; subst. repeat split; assumption.
    - rewrite Hpa. exact H1.
    - rewrite Hpa. exact H2.
  Qed.

  (* C05_fixed_roundtrip *)
  Lemma fixed_roundtrip : forall st islands c, In c (run st islands) ->
    exists s, In s (accepted_inputs islands) /\ o_uuid c = s_uuid s /\
      ((st < 2)%Z -> peq (o_xpix c, o_ypix c) (S (s_ra s, s_dec s)) /\
                     (0 <= s_ra s -> o_ra c == s_ra s /\ o_dec c == s_dec s)) /\
      ((st < 3)%Z -> 0 <= p_sx (place s) -> 0 <= p_sy (place s) ->
         s_b s <= s_a s -> -(90 # 1) < s_pa s -> s_pa s <= (90 # 1) ->
         ell_inverts_at SE PE (s_ra s, s_dec s) (o_xpix c, o_ypix c) ->
         o_a c == s_a s /\ o_b c == s_b s /\ o_pa c == s_pa s).
  Proof.
    intros st islands c Hin.
    destruct (run_trace _ _ _ Hin) as (k & isle & fi & n & f & p & Hisle & Efi & Hp & Hkeep & ->).
    pose proof Hp as Hp'. apply included_inv in Hp'. destruct Hp' as (s & Hs & -> & Hacc).
    change (p_src (place s)) with s.
    exists s. split.
    { unfold Priorized.accepted_inputs. apply in_concat. exists (map p_src (included isle)). split.
      - apply in_map_iff. exists isle. split; [reflexivity|assumption].
      - apply in_map_iff. exists (place s). split; [reflexivity|assumption]. }
    split; [apply (to_component_ids P PE kc st (isle_flags isle) k (fi_box fi) n f s)|].
    destruct (to_component_sky st (isle_flags isle) k (fi_box fi) n f s) as (Era & Edec & Eshape & Exp & Eyp).
    destruct Hkeep as (Kx & Ky & Ksx & Ksy & Kth).
    pose proof (placed_frame isle fi s Efi) as Hframe. cbv zeta in Hframe.
    set (b := fi_box fi) in *. set (cp := comp_params kf b (place s)) in *.
    split.
    - (* position *)
      intros Hst. rewrite vary_xo_spec in Kx. rewrite vary_yo_spec in Ky.
      assert (E2 : (2 <=? st)%Z = false) by (apply Z.leb_gt; exact Hst).
      specialize (Kx E2). specialize (Ky E2).
      assert (Hpos : peq (array_to_fits_x (c_xo (f_par f)) (c_yo (f_par f)) (b_xmin b) (b_xmax b) (b_ymin b) (b_ymax b),
                          array_to_fits_y (c_xo (f_par f)) (c_yo (f_par f)) (b_xmin b) (b_xmax b) (b_ymin b) (b_ymax b))
                         (S (s_ra s, s_dec s))).
      { destruct Hframe as [F1 F2]. cbn [fst snd] in F1, F2. unfold peq. cbn [fst snd].
        rewrite array_to_fits_x_spec in *. rewrite array_to_fits_y_spec in *. rewrite Kx, Ky. split; assumption. }
      split; [rewrite Exp, Eyp; exact Hpos|]. intro Hra.
      apply H_PS in Hpos. destruct Hpos as [P1 P2]. cbn [fst snd] in P1, P2.
      rewrite Era, Edec.
      assert (E0 : Qltb (fst (P (array_to_fits_x (c_xo (f_par f)) (c_yo (f_par f)) (b_xmin b) (b_xmax b) (b_ymin b) (b_ymax b),
                                 array_to_fits_y (c_xo (f_par f)) (c_yo (f_par f)) (b_xmin b) (b_xmax b) (b_ymin b) (b_ymax b))))
                        (0 # 1) = false).
      { apply Qltb_false_iff. rewrite P1. exact Hra. }
      rewrite E0. split; assumption.
    - (* shape *)
      intros Hst Hsx0 Hsy0 Hba Hpa1 Hpa2 Hinv. pose proof (shape_unclipped_true kf (place s) Hsx0 Hsy0) as Hclip.
      rewrite vary_sx_spec in Ksx. rewrite vary_sy_spec in Ksy. rewrite vary_theta_spec in Kth.
      assert (E3 : (3 <=? st)%Z = false) by (apply Z.leb_gt; exact Hst).
      specialize (Ksx E3). specialize (Ksy E3). specialize (Kth E3).
      unfold shape_unclipped in Hclip. rewrite !andb_true_iff in Hclip. destruct Hclip as [[[C1 C2] C3] C4].
      apply Qleb_iff in C1, C2, C3, C4.
      assert (Esx : c_sx cp = p_sx (place s)) by (subst cp; unfold comp_params; cbn [c_sx]; apply clip_inside; assumption).
      assert (Esy : c_sy cp = p_sy (place s)) by (subst cp; unfold comp_params; cbn [c_sy]; apply clip_inside; assumption).
      assert (Eth : c_theta cp = p_theta (place s)) by reflexivity.
      rewrite Esx in Ksx. rewrite Esy in Ksy. rewrite Eth in Kth.
      set (ein := mkEll (to_deg (s_a s)) (to_deg (s_b s)) (s_pa s)) in *.
      assert (Hell : elleq (mkEll (from_cc (c_sx (f_par f)) kc) (from_cc (c_sy (f_par f)) kc) (c_theta (f_par f)))
                           (SE (s_ra s, s_dec s) ein)).
      { unfold elleq. cbn [el_a el_b el_pa]. rewrite !from_cc_spec, Ksx, Ksy, Kth.
        unfold Priorized.place. cbn [p_sx p_sy p_theta]. fold ein. rewrite !to_cc_spec.
        repeat split; try reflexivity.
        - rewrite <- Qmult_assoc, H_k. ring.
        - rewrite <- Qmult_assoc, H_k. ring. }
      rewrite Exp, Eyp in Hinv. apply Hinv in Hell. destruct Hell as (L1 & L2 & L3). cbn [el_a el_b el_pa] in L1, L2, L3.
      eapply shape_back; [| | | exact Hba | exact Hpa1 | exact Hpa2 | exact Eshape].
      + apply arcsec_deg_roundtrip. exact L1.
      + apply arcsec_deg_roundtrip. exact L2.
      + exact L3.
  Qed.

  (* at stage 1 the position handed to pix2sky_ellipse is the catalogue position, so the general WCS
     hypothesis gives the hypothesis used above *)
  Lemma stage1_ell : forall sky p, wcs_ell_inverts S SE PE -> peq p (S sky) -> ell_inverts_at SE PE sky p.
  Proof. intros sky p H Hp. exact (H sky p Hp). Qed.
End Roundtrip.

(* ------------------------------------------------------------------------------------------ *)
(* C05_vary_table *)
Lemma vary_table_spec :
  vary_table 1 = [true; false; false; false; false; false] /\
  vary_table 2 = [true; true; true; false; false; false] /\
  vary_table 3 = [true; true; true; true; true; true] /\
  forall st,
    vary_amp st = true /\
    (vary_xo st = true <-> (2 <= st)%Z) /\ (vary_yo st = true <-> (2 <= st)%Z) /\
    (vary_sx st = true <-> (3 <= st)%Z) /\ (vary_sy st = true <-> (3 <= st)%Z) /\ (vary_theta st = true <-> (3 <= st)%Z) /\
    copy_pos_err st = negb (vary_xo st && vary_yo st) /\
    copy_shape_err st = negb (vary_sx st && vary_sy st && vary_theta st).
Proof.
  assert (T : forall st, vary_table st = [true; (2 <=? st)%Z; (2 <=? st)%Z; (3 <=? st)%Z; (3 <=? st)%Z; (3 <=? st)%Z]).
  { intro st. unfold vary_table.
    repeat (f_equal; [first [apply vary_amp_spec | apply vary_xo_spec | apply vary_yo_spec | apply vary_sx_spec
                            | apply vary_sy_spec | apply vary_theta_spec]|]). reflexivity. }
  split; [rewrite T; reflexivity|]. split; [rewrite T; reflexivity|]. split; [rewrite T; reflexivity|].
  intro st.
  pose proof (vary_amp_spec st) as Ha. pose proof (vary_xo_spec st) as Hx. pose proof (vary_yo_spec st) as Hy.
  pose proof (vary_sx_spec st) as Hsx. pose proof (vary_sy_spec st) as Hsy. pose proof (vary_theta_spec st) as Hth.
  pose proof (copy_pos_err_spec st) as Hcp. pose proof (copy_shape_err_spec st) as Hcs.
  set (va := vary_amp st) in *. set (vx := vary_xo st) in *. set (vy := vary_yo st) in *. set (vsx := vary_sx st) in *.
  set (vsy := vary_sy st) in *. set (vth := vary_theta st) in *. set (cp := copy_pos_err st) in *. set (cs := copy_shape_err st) in *.
  clearbody va vx vy vsx vsy vth cp cs. subst.
  rewrite !andb_diag, !Z.leb_le. repeat split; try (intro H; exact H); apply Z.ltb_antisym.
Qed.
