(* C19 - real-valued part: resize with a ratio, the eps conversion, the unit-vector embedding.
   Uses the standard-library axioms of Reals only. *)
From Coq Require Import Reals Lra.
From Aegean Require Import Lib.RBase Gen.ClusterR.
Open Scope R_scope.

(* ---------- characterising lemmas of the generated leaves ---------- *)
Definition resize_core (v p r : R) : R := sqrt (v ^ 2 + p ^ 2 * (1 - 1 / r ^ 2)).
Lemma resize_a_spec a p r : resize_a a p r = resize_core a p r.
Proof. reflexivity. Qed.
Lemma resize_b_spec b p r : resize_b b p r = resize_core b p r.
Proof. reflexivity. Qed.
Definition chord_of_arcmin (e : R) : R := 2 * sin (rad (e / 60) / 2).
Lemma eps_chord_aereg_spec e : eps_chord_aereg e = chord_of_arcmin e.
Proof. reflexivity. Qed.
Lemma eps_chord_finder_spec e : eps_chord_finder e = chord_of_arcmin e.
Proof. reflexivity. Qed.
Lemma emb_spec ra dec :
  emb ra dec = (cos (rad ra) * cos (rad dec), cos (rad dec) * sin (rad ra), sin (rad dec)).
Proof. reflexivity. Qed.
Local Opaque resize_a resize_b eps_chord_aereg eps_chord_finder emb.

(* ---------- resize ---------- *)
Lemma inv_sq_le_1 r : 1 <= r -> 0 < r ^ 2 /\ 1 / r ^ 2 <= 1.
Proof.
  intros Hr. assert (H2 : 1 <= r ^ 2) by nra. split; [lra|].
  replace (1 / r ^ 2) with (/ r ^ 2) by (unfold Rdiv; ring). rewrite <- Rinv_1. apply Rinv_le_contravar; lra.
Qed.

Lemma resize_core_id v p : 0 <= v -> resize_core v p 1 = v.
Proof.
  intros Hv. unfold resize_core. replace (v ^ 2 + p ^ 2 * (1 - 1 / 1 ^ 2)) with (v * v) by field.
  apply sqrt_square, Hv.
Qed.

Lemma resize_core_ge v p r : 1 <= r -> v <= resize_core v p r.
Proof.
  intros Hr. destruct (inv_sq_le_1 r Hr) as (_ & Hi). unfold resize_core.
  apply Rle_trans with (Rabs v); [apply Rle_abs|].
  rewrite <- sqrt_Rsqr_abs. apply sqrt_le_1_alt. unfold Rsqr.
  assert (0 <= p ^ 2) by (simpl; nra). nra.
Qed.

Lemma resize_core_mono v p r1 r2 : 1 <= r1 -> r1 <= r2 -> resize_core v p r1 <= resize_core v p r2.
Proof.
  intros H1 H12. unfold resize_core. apply sqrt_le_1_alt.
  assert (Hinv : / r2 ^ 2 <= / r1 ^ 2) by (apply Rinv_le_contravar; nra).
  assert (0 <= p ^ 2) by (simpl; nra). unfold Rdiv. nra.
Qed.

Lemma resize_id a b pa pb : 0 <= a -> 0 <= b -> resize_a a pa 1 = a /\ resize_b b pb 1 = b.
Proof. intros Ha Hb. rewrite (resize_a_spec a pa 1), (resize_b_spec b pb 1). split; apply resize_core_id; auto. Qed.

Lemma resize_mono a b pa pb r : 1 <= r ->
  a <= resize_a a pa r /\ b <= resize_b b pb r /\
  (forall r', r <= r' -> resize_a a pa r <= resize_a a pa r' /\ resize_b b pb r <= resize_b b pb r').
Proof.
  intros Hr. rewrite (resize_a_spec a pa r), (resize_b_spec b pb r). repeat split; try (apply resize_core_ge; auto).
  - rewrite (resize_a_spec a pa r'). apply resize_core_mono; auto.
  - rewrite (resize_b_spec b pb r'). apply resize_core_mono; auto.
Qed.

(* ---------- eps conversion: the chord of the linking angle ---------- *)
Lemma half_chord_mono g t : 0 <= g <= PI -> 0 <= t <= PI -> (2 * sin (g / 2) <= 2 * sin (t / 2) <-> g <= t).
Proof.
  intros Hg Ht. pose proof PI_RGT_0 as Hpi.
  assert (Hr : forall x, 0 <= x <= PI -> - (PI / 2) <= x / 2 <= PI / 2) by (intros x Hx; lra).
  destruct (Hr g Hg) as (Hg1 & Hg2). destruct (Hr t Ht) as (Ht1 & Ht2). split.
  - intros H. assert (Hs : sin (g / 2) <= sin (t / 2)) by lra.
    apply (sin_incr_0 _ _ Hg1 Hg2 Ht1 Ht2) in Hs. lra.
  - intros H. assert (Hs : sin (g / 2) <= sin (t / 2)) by (apply sin_incr_1; lra). lra.
Qed.

Definition dist3 (u v : R * R * R) : R :=
  let '(x, y, z) := u in let '(x', y', z') := v in sqrt ((x - x') ^ 2 + (y - y') ^ 2 + (z - z') ^ 2).

Lemma emb_unit ra dec : let '(x, y, z) := emb ra dec in x * x + y * y + z * z = 1.
Proof.
  rewrite emb_spec. pose proof (sin2_cos2 (rad ra)) as H1. pose proof (sin2_cos2 (rad dec)) as H2.
  unfold Rsqr in *. nra.
Qed.

(* the Euclidean distance of the embedded positions is the chord 2 sin(gamma/2) of their angular
   separation gamma (spherical law of cosines) *)
Lemma emb_chord ra1 dec1 ra2 dec2 g : 0 <= g <= PI ->
  cos g = sin (rad dec1) * sin (rad dec2) + cos (rad dec1) * cos (rad dec2) * cos (rad ra1 - rad ra2) ->
  dist3 (emb ra1 dec1) (emb ra2 dec2) = 2 * sin (g / 2).
Proof.
  intros Hg Hc. rewrite !emb_spec. unfold dist3.
  pose proof (sin2_cos2 (rad ra1)) as A1. pose proof (sin2_cos2 (rad dec1)) as D1.
  pose proof (sin2_cos2 (rad ra2)) as A2. pose proof (sin2_cos2 (rad dec2)) as D2.
  rewrite cos_minus in Hc. unfold Rsqr in *.
  assert (Hh : cos g = 1 - 2 * sin (g / 2) * sin (g / 2)).
  { replace g with (2 * (g / 2)) at 1 by field. apply cos_2a_sin. }
  set (c1 := cos (rad ra1)) in *. set (s1 := sin (rad ra1)) in *. set (c2 := cos (rad ra2)) in *.
  set (s2 := sin (rad ra2)) in *. set (cd1 := cos (rad dec1)) in *. set (sd1 := sin (rad dec1)) in *.
  set (cd2 := cos (rad dec2)) in *. set (sd2 := sin (rad dec2)) in *.
  assert (Hsq : (c1 * cd1 - c2 * cd2) ^ 2 + (cd1 * s1 - cd2 * s2) ^ 2 + (sd1 - sd2) ^ 2 =
                (2 * sin (g / 2)) * (2 * sin (g / 2))).
  { transitivity (2 - 2 * cos g); [|rewrite Hh; ring].
    rewrite Hc.
    replace ((c1 * cd1 - c2 * cd2) ^ 2 + (cd1 * s1 - cd2 * s2) ^ 2 + (sd1 - sd2) ^ 2) with
      (cd1 * cd1 * (s1 * s1 + c1 * c1) + cd2 * cd2 * (s2 * s2 + c2 * c2) + (sd1 * sd1 + sd2 * sd2)
       - 2 * (sd1 * sd2 + cd1 * cd2 * (c1 * c2 + s1 * s2))) by ring.
    rewrite A1, A2. replace (cd1 * cd1 * 1 + cd2 * cd2 * 1 + (sd1 * sd1 + sd2 * sd2)) with
      ((sd1 * sd1 + cd1 * cd1) + (sd2 * sd2 + cd2 * cd2)) by ring.
    rewrite D1, D2. ring. }
  rewrite Hsq. apply sqrt_square.
  assert (0 <= sin (g / 2)); [|lra]. pose proof PI_RGT_0. apply sin_ge_0; lra.
Qed.

Lemma eps_chord ra1 dec1 ra2 dec2 gamma e : 0 <= gamma <= 180 -> 0 <= e <= 10800 ->
  cos (rad gamma) = sin (rad dec1) * sin (rad dec2) + cos (rad dec1) * cos (rad dec2) * cos (rad ra1 - rad ra2) ->
  (dist3 (emb ra1 dec1) (emb ra2 dec2) <= eps_chord_aereg e <-> gamma <= e / 60) /\
  (dist3 (emb ra1 dec1) (emb ra2 dec2) <= eps_chord_finder e <-> gamma <= e / 60).
Proof.
  intros Hg He Hc. pose proof PI_RGT_0 as Hpi.
  assert (Hrg : 0 <= rad gamma <= PI) by (unfold rad; split; nra).
  assert (Hre : 0 <= rad (e / 60) <= PI) by (unfold rad; split; nra).
  rewrite (emb_chord ra1 dec1 ra2 dec2 (rad gamma) Hrg Hc), (eps_chord_aereg_spec e), (eps_chord_finder_spec e).
  unfold chord_of_arcmin. rewrite (half_chord_mono _ _ Hrg Hre).
  assert (rad gamma <= rad (e / 60) <-> gamma <= e / 60) by (unfold rad; split; intros; nra).
  tauto.
Qed.
