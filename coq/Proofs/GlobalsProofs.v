(* C13 (extension) - lemmas about Model/Globals.v.  First one characterising lemma per generated leaf of Gen/Globals.v, then the
   leaves are made opaque: a changed leaf breaks exactly the lemma that carries its name. *)
From Coq Require Import ZArith Bool List Lia String.
From Aegean Require Import Gen.Globals Model.Globals.
Import ListNotations.
Open Scope Z_scope.

(* ------------------------------------------------------------------ leaves *)
Lemma lg_early_return_eq : lg_early_return = true. Proof. reflexivity. Qed.
(* holds on the tree with `if cube_index is None: cube_index = 0` in load_globals; on the tree without it this lemma fails *)
Lemma lg_cube_default_eq : lg_cube_default_first_plane = true. Proof. reflexivity. Qed.
Lemma lg_stages_eq : lg_stages = [1; 7; 2; 3; 4; 5; 6; 8; 9; 10; 11; 12; 2]. Proof. reflexivity. Qed.
Lemma lg_bane_needed_eq : forall r b, lg_bane_needed r b = negb (r && b). Proof. reflexivity. Qed.
Lemma lg_forced_rms_arg_eq : lg_forced_rms_arg = 2. Proof. reflexivity. Qed.
Lemma lg_forced_bkg_arg_eq : lg_forced_bkg_arg = 1. Proof. reflexivity. Qed.
Lemma lg_repl1_cond_eq : forall r b, lg_repl1_cond r b = b. Proof. reflexivity. Qed.
Lemma lg_repl1_map_eq : lg_repl1_map = 1. Proof. reflexivity. Qed.
Lemma lg_repl1_from_eq : lg_repl1_from = 1. Proof. reflexivity. Qed.
Lemma lg_repl2_cond_eq : forall r b, lg_repl2_cond r b = r. Proof. reflexivity. Qed.
Lemma lg_repl2_map_eq : lg_repl2_map = 2. Proof. reflexivity. Qed.
Lemma lg_repl2_from_eq : lg_repl2_from = 2. Proof. reflexivity. Qed.
Lemma lg_sub_operand_eq : lg_sub_operand = 1. Proof. reflexivity. Qed.
Lemma lg_curve_size_eq : lg_curve_size = 3. Proof. reflexivity. Qed.
Lemma lg_curve_peak_eq : lg_curve_peak = -1. Proof. reflexivity. Qed.
Lemma lg_curve_trough_eq : lg_curve_trough = 1. Proof. reflexivity. Qed.
Lemma lg_curve_trough_last_eq : lg_curve_trough_last = true. Proof. reflexivity. Qed.
Lemma lg_mask_missing_eq : lg_mask_missing_file_is_none = true. Proof. reflexivity. Qed.
Lemma mk_fill1_cond_eq : forall r b, mk_fill1_cond r b = r. Proof. reflexivity. Qed.
Lemma mk_fill1_map_eq : mk_fill1_map = 2. Proof. reflexivity. Qed.
Lemma mk_fill1_from_eq : mk_fill1_from = 2. Proof. reflexivity. Qed.
Lemma mk_fill2_cond_eq : forall r b, mk_fill2_cond r b = b. Proof. reflexivity. Qed.
Lemma mk_fill2_map_eq : mk_fill2_map = 1. Proof. reflexivity. Qed.
Lemma mk_fill2_from_eq : mk_fill2_from = 1. Proof. reflexivity. Qed.
Lemma mk_skip_bane_eq : forall r b, mk_skip_bane r b = r && b. Proof. reflexivity. Qed.
Lemma mk_box_size_eq : forall s0 s1, mk_box_size s0 s1 = (5 * s0, 5 * s1). Proof. reflexivity. Qed.
Lemma mk_bane_result_eq : mk_bane_result_bkg_first = true. Proof. reflexivity. Qed.
Lemma mk_take1_cond_eq : forall r b, mk_take1_cond r b = negb r. Proof. reflexivity. Qed.
Lemma mk_take1_map_eq : mk_take1_map = 2. Proof. reflexivity. Qed.
Lemma mk_take1_from_eq : mk_take1_from = 2. Proof. reflexivity. Qed.
Lemma mk_take2_cond_eq : forall r b, mk_take2_cond r b = negb b. Proof. reflexivity. Qed.
Lemma mk_take2_map_eq : mk_take2_map = 1. Proof. reflexivity. Qed.
Lemma mk_take2_from_eq : mk_take2_from = 1. Proof. reflexivity. Qed.
Lemma aux_shape_checked_eq : aux_shape_checked = true. Proof. reflexivity. Qed.
Lemma aux_returns_loaded_eq : aux_returns_loaded = true. Proof. reflexivity. Qed.
Lemma lib_expands_compressed_eq : lib_expands_compressed = true. Proof. reflexivity. Qed.
Lemma lib_row_min_eq : forall n b0 b1, lib_row_min n b0 b1 = n * b0 / b1. Proof. reflexivity. Qed.
Lemma lib_row_max_eq : forall n b0 b1, lib_row_max n b0 b1 = n * (b0 + 1) / b1. Proof. reflexivity. Qed.
Lemma do_curve_eq : fs_do_curve = false /\ prio_do_curve = false /\ save_do_curve = true. Proof. repeat split. Qed.
Lemma fs_islands_eq : fs_islands_on_subtracted_img = true /\ fs_islands_bkg_zero = true. Proof. split; reflexivity. Qed.
Lemma suffixes_eq : save_suffix_bkg = aux_suffix_bkg /\ save_suffix_rms = aux_suffix_rms /\
  aux_suffix_bkg = "_bkg.fits"%string /\ aux_suffix_rms = "_rms.fits"%string /\ aux_suffix_mask = ".mim"%string.
Proof. repeat split. Qed.

Local Opaque lg_early_return lg_cube_default_first_plane lg_stages lg_bane_needed lg_forced_rms_arg lg_forced_bkg_arg lg_repl1_cond lg_repl1_map lg_repl1_from
  lg_repl2_cond lg_repl2_map lg_repl2_from lg_sub_operand lg_curve_size lg_curve_peak lg_curve_trough lg_curve_trough_last
  lg_mask_missing_file_is_none mk_fill1_cond mk_fill1_map mk_fill1_from mk_fill2_cond mk_fill2_map mk_fill2_from mk_skip_bane
  mk_box_size mk_bane_result_bkg_first mk_take1_cond mk_take1_map mk_take1_from mk_take2_cond mk_take2_map mk_take2_from
  aux_shape_checked aux_returns_loaded lib_expands_compressed lib_row_min lib_row_max.

Ltac leaves :=
  rewrite ?lg_early_return_eq, ?lg_bane_needed_eq, ?lg_forced_rms_arg_eq, ?lg_forced_bkg_arg_eq, ?lg_repl1_cond_eq,
    ?lg_repl1_map_eq, ?lg_repl1_from_eq, ?lg_repl2_cond_eq, ?lg_repl2_map_eq, ?lg_repl2_from_eq, ?lg_sub_operand_eq,
    ?lg_mask_missing_eq, ?mk_fill1_cond_eq, ?mk_fill1_map_eq, ?mk_fill1_from_eq, ?mk_fill2_cond_eq, ?mk_fill2_map_eq,
    ?mk_fill2_from_eq, ?mk_skip_bane_eq, ?mk_bane_result_eq, ?mk_take1_cond_eq, ?mk_take1_map_eq, ?mk_take1_from_eq,
    ?mk_take2_cond_eq, ?mk_take2_map_eq, ?mk_take2_from_eq, ?aux_shape_checked_eq, ?aux_returns_loaded_eq,
    ?lib_expands_compressed_eq.

(* ------------------------------------------------------------------ images *)
Lemma nats_eqb_eq : forall a b, nats_eqb a b = true <-> a = b.
Proof.
  induction a as [|x a IH]; intros [|y b]; cbn; split; intro H; try reflexivity; try discriminate.
  - apply andb_true_iff in H. destruct H as [H1 H2]. apply Nat.eqb_eq in H1. apply IH in H2. subst. reflexivity.
  - injection H as -> ->. rewrite Nat.eqb_refl. cbn. apply IH. reflexivity.
Qed.
Lemma shape_eqb_eq : forall a b, shape_eqb a b = true <-> shape a = shape b.
Proof. intros. unfold shape_eqb. apply nats_eqb_eq. Qed.
Lemma shape_neg : forall a, shape (img_neg a) = shape a.
Proof. intro a. unfold shape, img_neg. rewrite map_map. apply map_ext. intro r. apply map_length. Qed.
Lemma shape_const : forall v a, shape (const_like v a) = shape a.
Proof. intros v a. unfold shape, const_like. rewrite map_map. apply map_ext. intro r. apply map_length. Qed.
Lemma const_const : forall v w a, const_like v (const_like w a) = const_like v a.
Proof. intros. unfold const_like. rewrite map_map. apply map_ext. intro r. rewrite map_map. reflexivity. Qed.
Lemma const_neg_arg : forall v a, const_like v (img_neg a) = const_like v a.
Proof. intros. unfold const_like, img_neg. rewrite map_map. apply map_ext. intro r. rewrite map_map. reflexivity. Qed.
Lemma neg_const : forall v a, img_neg (const_like v a) = const_like (- v) a.
Proof. intros. unfold const_like, img_neg. rewrite map_map. apply map_ext. intro r. rewrite map_map. reflexivity. Qed.
Lemma px_sub_neg : forall a b, px_sub (px_neg a) (px_neg b) = px_neg (px_sub a b).
Proof. intros [x|] [y|]; cbn; try reflexivity. f_equal. lia. Qed.
Lemma zip_map_neg : forall (a b : list px), zip_with px_sub (map px_neg a) (map px_neg b) = map px_neg (zip_with px_sub a b).
Proof. induction a as [|x a IH]; intros [|y b]; cbn; try reflexivity. rewrite px_sub_neg, IH. reflexivity. Qed.
Lemma img_sub_neg : forall a b, img_sub (img_neg a) (img_neg b) = img_neg (img_sub a b).
Proof.
  unfold img_sub, img_neg. induction a as [|x a IH]; intros [|y b]; cbn; try reflexivity.
  rewrite zip_map_neg, IH. reflexivity.
Qed.
Lemma px_neg_invol : forall p, px_neg (px_neg p) = p.
Proof. intros [x|]; cbn; [f_equal; lia | reflexivity]. Qed.
Lemma img_neg_invol : forall a, img_neg (img_neg a) = a.
Proof.
  intro a. unfold img_neg. rewrite map_map. rewrite <- (map_id a) at 2. apply map_ext. intro r. rewrite map_map.
  rewrite <- (map_id r) at 2. apply map_ext. apply px_neg_invol.
Qed.
(* pixelwise reading of img_sub *)
Lemma zip_nth : forall (a b : list px) k x y, nth_error a k = Some x -> nth_error b k = Some y ->
  nth_error (zip_with px_sub a b) k = Some (px_sub x y).
Proof.
  induction a as [|x0 a IH]; intros [|y0 b] [|k] x y Ha Hb; cbn in *; try discriminate.
  - injection Ha as ->. injection Hb as ->. reflexivity.
  - apply IH; assumption.
Qed.
Lemma img_sub_pixel : forall a b r c ra rb x y, nth_error a r = Some ra -> nth_error b r = Some rb ->
  nth_error ra c = Some x -> nth_error rb c = Some y ->
  exists rs, nth_error (img_sub a b) r = Some rs /\ nth_error rs c = Some (px_sub x y).
Proof.
  unfold img_sub. induction a as [|a0 a IH]; intros [|b0 b] [|r] c ra rb x y Ha Hb Hx Hy; cbn in *; try discriminate.
  - injection Ha as ->. injection Hb as ->. eexists. split; [reflexivity|]. apply zip_nth; assumption.
  - eapply IH; eassumption.
Qed.

(* ------------------------------------------------------------------ the aux loader *)
Lemma load_aux_some : forall img f a, load_aux img f = Some a -> a = loaded f /\ shape a = shape img.
Proof.
  intros img f a. unfold load_aux. leaves. destruct (shape_eqb (loaded f) img) eqn:E; [|discriminate].
  intro H. injection H as <-. split; [reflexivity|]. apply shape_eqb_eq. exact E.
Qed.
Lemma load_aux_accepts : forall img f, shape (loaded f) = shape img -> load_aux img f = Some (loaded f).
Proof. intros img f H. unfold load_aux. leaves. apply shape_eqb_eq in H. rewrite H. reflexivity. Qed.
Lemma loaded_eq : forall f, loaded f = if af_compressed f then af_expanded f else af_stored f.
Proof. intro f. unfold loaded. leaves. reflexivity. Qed.
Lemma loaded_neg : forall f, loaded (neg_aux f) = img_neg (loaded f).
Proof. intro f. rewrite !loaded_eq. destruct f as [[|] s e]; reflexivity. Qed.
Lemma aux_shape : forall img f a, load_aux img f = Some a ->
  a = (if af_compressed f then af_expanded f else af_stored f) /\ shape a = shape img.
Proof. intros img f a H. destruct (load_aux_some img f a H) as [H1 H2]. rewrite <- loaded_eq. split; assumption. Qed.
Lemma load_aux_neg : forall img f, load_aux (img_neg img) (neg_aux f) = option_map img_neg (load_aux img f).
Proof.
  intros img f. unfold load_aux. leaves. rewrite loaded_neg. unfold shape_eqb. rewrite !shape_neg.
  destruct (nats_eqb (shape (loaded f)) (shape img)); reflexivity.
Qed.

Lemma region_of_eq : forall m, region_of m = match m with MNone => None | MObj r => Some r | MFile true r => Some r
                                                        | MFile false _ => None end.
Proof. intros [|r|[|] r]; unfold region_of; leaves; reflexivity. Qed.

Lemma row_bounds_default : forall n, lib_row_min n 0 1 = 0 /\ lib_row_max n 0 1 = n.
Proof. intro n. rewrite lib_row_min_eq, lib_row_max_eq. split; [rewrite Z.mul_0_r; reflexivity | rewrite Z.mul_1_r; apply Z.div_1_r]. Qed.

(* ------------------------------------------------------------------ the glue *)
Section Glue.
Variable bane : image -> image * image.

(* where each map comes from: file > forced value > BANE *)
Definition bkg_src (inp : inputs) (raw : image) : image :=
  match i_bkgin inp with Some f => loaded f | None =>
    match i_bkg inp with Some v => const_like v raw | None => fst (bane raw) end end.
Definition rms_src (inp : inputs) (raw : image) : image :=
  match i_rmsin inp with Some f => loaded f | None =>
    match i_rms inp with Some v => const_like v raw | None => snd (bane raw) end end.
Definition files_ok (inp : inputs) (raw : image) : Prop :=
  (forall f, i_bkgin inp = Some f -> shape (loaded f) = shape raw) /\
  (forall f, i_rmsin inp = Some f -> shape (loaded f) = shape raw).

Lemma make_bkg_rms_eq : forall raw rmsv bkgv,
  make_bkg_rms bane raw rmsv bkgv (const_like 0 raw, const_like 0 raw) =
  (match bkgv with Some v => const_like v raw | None => fst (bane raw) end,
   match rmsv with Some v => const_like v raw | None => snd (bane raw) end).
Proof.
  intros raw rmsv bkgv. unfold make_bkg_rms. leaves.
  destruct rmsv as [r|], bkgv as [b|]; cbn [is_some pick get_map set_map fst snd Z.eqb Pos.eqb andb negb];
    rewrite ?const_const; reflexivity.
Qed.

(* complete description of a call on an object without data *)
Lemma load_globals_gen_char : forall d s0 inp s ok, s_img s0 = None -> load_globals_gen bane d s0 inp = (s, ok) ->
  match select_gen d inp with
  | None => s = s0 /\ ok = false
  | Some raw =>
    let crv := if i_do_curve inp then Some (curvature raw) else None in
    if ok then files_ok inp raw /\
      s = mkState (Some (img_sub raw (bkg_src inp raw))) (Some (bkg_src inp raw)) (Some (rms_src inp raw)) crv
                  (region_of (i_mask inp)) (eff_ci_gen d (i_ci inp))
    else ~ files_ok inp raw /\ s_img s = Some raw
  end.
Proof.
  intros d s0 inp s ok H0. unfold load_globals_gen. rewrite H0. leaves. cbn [is_some andb].
  destruct (select_gen d inp) as [raw|]; [|intro H; injection H as <- <-; split; reflexivity].
  unfold replace, files_ok, bkg_src, rms_src. leaves.
  destruct (i_bkgin inp) as [fb|] eqn:Eb; destruct (i_rmsin inp) as [fr|] eqn:Er; cbn [is_some andb negb pick Z.eqb Pos.eqb];
    rewrite ?make_bkg_rms_eq.
  - destruct (load_aux raw fb) as [a|] eqn:La.
    + apply load_aux_some in La. destruct La as [-> Sa].
      destruct (load_aux raw fr) as [b|] eqn:Lb.
      * apply load_aux_some in Lb. destruct Lb as [-> Sb]. intro H. injection H as <- <-. cbn.
        split; [split; intros f Hf; injection Hf as <-; assumption | reflexivity].
      * intro H. injection H as <- <-. cbn. split; [|reflexivity]. intros [_ Hr].
        rewrite (load_aux_accepts raw fr (Hr fr eq_refl)) in Lb. discriminate.
    + intro H. injection H as <- <-. cbn. split; [|reflexivity]. intros [Hb _].
      rewrite (load_aux_accepts raw fb (Hb fb eq_refl)) in La. discriminate.
  - destruct (load_aux raw fb) as [a|] eqn:La.
    + apply load_aux_some in La. destruct La as [-> Sa]. intro H. injection H as <- <-. cbn.
      split; [split; intros f Hf; [injection Hf as <-; assumption | discriminate] | reflexivity].
    + intro H. injection H as <- <-. cbn. split; [|reflexivity]. intros [Hb _].
      rewrite (load_aux_accepts raw fb (Hb fb eq_refl)) in La. discriminate.
  - destruct (load_aux raw fr) as [b|] eqn:Lb.
    + apply load_aux_some in Lb. destruct Lb as [-> Sb]. intro H. injection H as <- <-. cbn.
      split; [split; intros f Hf; [discriminate | injection Hf as <-; assumption] | reflexivity].
    + intro H. injection H as <- <-. cbn. split; [|reflexivity]. intros [_ Hr].
      rewrite (load_aux_accepts raw fr (Hr fr eq_refl)) in Lb. discriminate.
  - intro H. injection H as <- <-. cbn. split; [split; intros f Hf; discriminate | reflexivity].
Qed.

Lemma load_globals_char : forall s0 inp s ok, s_img s0 = None -> load_globals bane s0 inp = (s, ok) ->
  match select inp with
  | None => s = s0 /\ ok = false
  | Some raw =>
    let crv := if i_do_curve inp then Some (curvature raw) else None in
    if ok then files_ok inp raw /\
      s = mkState (Some (img_sub raw (bkg_src inp raw))) (Some (bkg_src inp raw)) (Some (rms_src inp raw)) crv
                  (region_of (i_mask inp)) (eff_ci (i_ci inp))
    else ~ files_ok inp raw /\ s_img s = Some raw
  end.
Proof. exact (load_globals_gen_char lg_cube_default_first_plane). Qed.

Lemma success_char : forall inp s, globals bane inp = (s, true) ->
  exists raw, select inp = Some raw /\ files_ok inp raw /\
    s = mkState (Some (img_sub raw (bkg_src inp raw))) (Some (bkg_src inp raw)) (Some (rms_src inp raw))
                (if i_do_curve inp then Some (curvature raw) else None) (region_of (i_mask inp)) (eff_ci (i_ci inp)).
Proof.
  intros inp s H. apply load_globals_char in H; [|reflexivity].
  destruct (select inp) as [raw|]; [|destruct H; discriminate]. exists raw. destruct H as [H1 H2]. repeat split; try apply H1. exact H2.
Qed.

(* C13x_background_subtracted_once *)
Definition subtracted_once_stmt := forall inp s, globals bane inp = (s, true) ->
  exists raw bkg, select inp = Some raw /\ s_bkg s = Some bkg /\ s_img s = Some (img_sub raw bkg).
Lemma background_subtracted_once : subtracted_once_stmt.
Proof.
  intros inp s H. apply success_char in H. destruct H as [raw [Hs [_ ->]]]. exists raw, (bkg_src inp raw). repeat split. exact Hs.
Qed.

(* C13x_map_sources *)
Lemma map_sources : forall inp s, globals bane inp = (s, true) ->
  exists raw, select inp = Some raw /\ s_bkg s = Some (bkg_src inp raw) /\ s_rms s = Some (rms_src inp raw) /\
              s_region s = region_of (i_mask inp).
Proof. intros inp s H. apply success_char in H. destruct H as [raw [Hs [_ ->]]]. exists raw. repeat split. exact Hs. Qed.

Lemma forced_rms_constant : forall inp s v, globals bane inp = (s, true) -> i_rmsin inp = None -> i_rms inp = Some v ->
  exists raw, select inp = Some raw /\ s_rms s = Some (const_like v raw).
Proof.
  intros inp s v H Hn Hv. apply map_sources in H. destruct H as [raw [Hs [_ [Hr _]]]]. exists raw. split; [exact Hs|].
  rewrite Hr. unfold rms_src. rewrite Hn, Hv. reflexivity.
Qed.

Lemma curvature_from_raw : forall inp s, globals bane inp = (s, true) ->
  exists raw, select inp = Some raw /\ s_curve s = if i_do_curve inp then Some (curvature raw) else None.
Proof. intros inp s H. apply success_char in H. destruct H as [raw [Hs [_ ->]]]. exists raw. split; [exact Hs | reflexivity]. Qed.

(* every map of a completed call has the shape of the image, provided BANE keeps the shape *)
Lemma shapes : (forall a, shape (fst (bane a)) = shape a /\ shape (snd (bane a)) = shape a) ->
  forall inp s, globals bane inp = (s, true) ->
  exists raw bkg rms, select inp = Some raw /\ s_bkg s = Some bkg /\ s_rms s = Some rms /\ shape bkg = shape raw /\ shape rms = shape raw.
Proof.
  intros Hb inp s H. apply success_char in H. destruct H as [raw [Hs [[Fb Fr] ->]]].
  exists raw, (bkg_src inp raw), (rms_src inp raw). repeat split; try exact Hs.
  - unfold bkg_src. destruct (i_bkgin inp) as [f|]; [apply Fb; reflexivity|]. destruct (i_bkg inp); [apply shape_const | apply Hb].
  - unfold rms_src. destruct (i_rmsin inp) as [f|]; [apply Fr; reflexivity|]. destruct (i_rms inp); [apply shape_const | apply Hb].
Qed.

(* the early return: an object that holds data ignores every later request *)
Lemma reload_is_noop : forall s0 inp, s_img s0 <> None -> load_globals bane s0 inp = (s0, true).
Proof. intros s0 inp H. unfold load_globals, load_globals_gen. leaves. destruct (s_img s0); [reflexivity | contradiction]. Qed.

(* and an exception inside _load_aux_image leaves the raw image behind, so the next call is a no-op as well *)
Lemma failed_load_sticks : forall inp s inp', globals bane inp = (s, false) -> select inp <> None ->
  load_globals bane s inp' = (s, true) /\ s_img s = select inp.
Proof.
  intros inp s inp' H Hs. apply load_globals_char in H; [|reflexivity]. destruct (select inp) as [raw|]; [|contradiction].
  destruct H as [_ Hi]. split; [|exact Hi]. apply reload_is_noop. rewrite Hi. discriminate.
Qed.
End Glue.

(* BANE is not consulted when both files are given or both values are forced *)
Lemma bane_not_consulted : forall bane bane' s0 inp,
  (is_some (i_rmsin inp) && is_some (i_bkgin inp) || is_some (i_rms inp) && is_some (i_bkg inp)) = true ->
  load_globals bane s0 inp = load_globals bane' s0 inp.
Proof.
  intros bane bane' s0 inp H. unfold load_globals, load_globals_gen. leaves.
  destruct (i_rmsin inp), (i_bkgin inp); cbn [is_some andb negb orb] in *; try reflexivity;
    (destruct (i_rms inp) as [r|], (i_bkg inp) as [b|]; cbn [is_some andb orb] in H; try discriminate;
     unfold make_bkg_rms; leaves; cbn [is_some pick Z.eqb Pos.eqb andb]; reflexivity).
Qed.

(* ------------------------------------------------------------------ cube_index not given *)
Lemma cube_default_gen : forall bane s0 inp, i_ci inp = None ->
  load_globals_gen bane true s0 inp = load_globals_gen bane true s0 (set_ci inp (Some 0%nat)).
Proof.
  intros bane s0 inp H. unfold load_globals_gen, select_gen, replace, set_ci. cbn [i_is3d i_planes i_ci i_rms i_bkg i_rmsin i_bkgin
    i_do_curve i_mask]. rewrite H. reflexivity.
Qed.
Lemma cube_default_first_plane : forall bane s0 inp, i_ci inp = None ->
  load_globals bane s0 inp = load_globals bane s0 (set_ci inp (Some 0%nat)) /\
  (forall s, s_img s0 = None -> load_globals bane s0 inp = (s, true) -> s_ci s = Some 0%nat).
Proof.
  intros bane s0 inp H. unfold load_globals. rewrite lg_cube_default_eq. split; [apply cube_default_gen; exact H|].
  intros s H0 Hs. apply load_globals_gen_char in Hs; [|exact H0]. destruct (select_gen true inp); [|destruct Hs; discriminate].
  destruct Hs as [_ ->]. cbn [s_ci]. rewrite H. reflexivity.
Qed.
(* without the default a 3-D file read with cube_index = None raises and nothing is stored *)
Lemma cube_none_raises_gen : forall bane inp, i_is3d inp = true -> i_ci inp = None -> load_globals_gen bane false fresh inp = (fresh, false).
Proof.
  intros bane inp H3 H. unfold load_globals_gen, select_gen. leaves. cbn [fresh s_img is_some andb]. rewrite H3, H. reflexivity.
Qed.

(* ------------------------------------------------------------------ negation *)
Lemma select_neg : forall inp, select (neg_inputs inp) = option_map img_neg (select inp).
Proof.
  intro inp. unfold select, select_gen, neg_inputs. cbn.
  assert (N : forall k, nth_error (map img_neg (i_planes inp)) k = option_map img_neg (nth_error (i_planes inp) k))
    by (intro k; apply nth_error_map).
  destruct (i_is3d inp); [destruct (eff_ci_gen lg_cube_default_first_plane (i_ci inp)); [apply N | reflexivity] | exact (N 0%nat)].
Qed.

Lemma negation : forall bane, (forall a, bane (img_neg a) = (img_neg (fst (bane a)), snd (bane a))) ->
  forall inp s, i_do_curve inp = false -> globals bane inp = (s, true) ->
  globals bane (neg_inputs inp) = (neg_state s, true).
Proof.
  intros bane Hn inp s Hc H.
  destruct (globals bane (neg_inputs inp)) as [s' ok'] eqn:H'.
  apply load_globals_char in H; [|reflexivity]. apply load_globals_char in H'; [|reflexivity].
  rewrite select_neg in H'. destruct (select inp) as [raw|]; cbn [option_map] in H'.
  2:{ destruct H as [_ H]. discriminate. }
  assert (Fk : files_ok inp raw -> files_ok (neg_inputs inp) (img_neg raw)).
  { unfold files_ok, neg_inputs. cbn. rewrite shape_neg. destruct (i_bkgin inp) as [fb|]; cbn [option_map].
    - intros [A B]; (split; [|exact B]); intros f Hf; injection Hf as <-.
      rewrite loaded_neg, shape_neg. apply A. reflexivity.
    - intros [A B]; (split; [|exact B]); intros f Hf; discriminate. }
  assert (Bs : bkg_src bane (neg_inputs inp) (img_neg raw) = img_neg (bkg_src bane inp raw)).
  { unfold bkg_src, neg_inputs. cbn. destruct (i_bkgin inp) as [fb|]; cbn [option_map]; [apply loaded_neg|].
    destruct (i_bkg inp) as [v|]; cbn [option_map]; [rewrite const_neg_arg, neg_const; reflexivity | rewrite Hn; reflexivity]. }
  assert (Rs : rms_src bane (neg_inputs inp) (img_neg raw) = rms_src bane inp raw).
  { unfold rms_src, neg_inputs. cbn. destruct (i_rmsin inp) as [fr|]; [reflexivity|].
    destruct (i_rms inp) as [v|]; [apply const_neg_arg | rewrite Hn; reflexivity]. }
  cbv zeta in H, H'. destruct H as [F ->]. destruct ok'.
  - destruct H' as [_ ->]. rewrite Bs, Rs, img_sub_neg. unfold neg_state, neg_inputs. cbn. rewrite Hc. reflexivity.
  - destruct H' as [F' _]. exfalso. apply F'. apply Fk. exact F.
Qed.

(* the stand-in for BANE used by the harness satisfies the two hypotheses (non-vacuity) *)
Lemma rev_map_neg : forall r : list px, rev (map px_neg r) = map px_neg (rev r).
Proof. intro r. symmetry. apply map_rev. Qed.
Lemma zmax_fold_neg : forall l x, fold_left Z.min (map Z.opp l) (- x) = - fold_left Z.max l x.
Proof. induction l as [|y l IH]; intro x; cbn; [reflexivity|]. rewrite <- IH. f_equal. lia. Qed.
Lemma zmin_fold_neg : forall l x, fold_left Z.max (map Z.opp l) (- x) = - fold_left Z.min l x.
Proof. induction l as [|y l IH]; intro x; cbn; [reflexivity|]. rewrite <- IH. f_equal. lia. Qed.
Lemma finite_values_neg : forall a, finite_values (img_neg a) = map Z.opp (finite_values a).
Proof.
  intro a. unfold finite_values, img_neg. induction a as [|r a IH]; cbn; [reflexivity|]. rewrite map_app, <- IH. f_equal.
  induction r as [|p r IHr]; cbn; [reflexivity|]. rewrite map_app, <- IHr. destruct p; reflexivity.
Qed.
Lemma bane_fake_neg : forall a, bane_fake (img_neg a) = (img_neg (fst (bane_fake a)), snd (bane_fake a)).
Proof.
  intro a. unfold bane_fake. cbn [fst snd]. f_equal.
  - unfold img_neg. rewrite !map_map. apply map_ext. intro r. apply rev_map_neg.
  - rewrite const_neg_arg, finite_values_neg. f_equal. unfold zmax_list, zmin_list.
    destruct (finite_values a) as [|x l]; cbn [map]; [reflexivity|]. rewrite zmax_fold_neg, zmin_fold_neg. lia.
Qed.
Lemma bane_fake_shape : forall a, shape (fst (bane_fake a)) = shape a /\ shape (snd (bane_fake a)) = shape a.
Proof.
  intro a. unfold bane_fake. cbn [fst snd]. split; [|apply shape_const].
  unfold shape. rewrite map_map. apply map_ext. intro r. apply rev_length.
Qed.
