(* C10 - lemmas about Model/Mask.v.  The generated leaves are used only through the characterising
   lemmas of the first section (then made opaque), so a changed leaf breaks exactly one named lemma. *)
From Coq Require Import ZArith Bool List Lia.
From Aegean Require Import Gen.Mask Model.Mask.
Import ListNotations.
Open Scope Z_scope.

(* ---------------------------------------------------------------- leaves *)
Lemma n_indexes_spec : forall s0 s1, n_indexes s0 s1 = s0 * s1.
Proof. intros; unfold n_indexes; lia. Qed.
Lemma idx_axis_spec : idx_axis = 1.
Proof. reflexivity. Qed.
Lemma loop_axis_spec : loop_axis = 0.
Proof. reflexivity. Qed.
Lemma stride_axis_spec : stride_axis = 1.
Proof. reflexivity. Qed.
(* the column counter sits in slot 0 of the pair ... *)
Lemma idx_init_col : forall j, fst (idx_init j) = j.
Proof. reflexivity. Qed.
(* ... and the row counter overwrites slot 1 *)
Lemma row_slot_spec : row_slot = 1.
Proof. reflexivity. Qed.
Lemma block_lo_spec : forall i n, block_lo i n = i * n.
Proof. intros; unfold block_lo; lia. Qed.
Lemma block_hi_spec : forall i n, block_hi i n = i * n + n.
Proof. intros; unfold block_hi; lia. Qed.
Lemma pix_origin_spec : pix_origin = 0.
Proof. reflexivity. Qed.
Lemma plane_invert_spec : plane_invert_unless_negate = true.
Proof. reflexivity. Qed.
Lemma table_invert_spec : table_invert_unless_negate = true.
Proof. reflexivity. Qed.
Lemma nan_is_outside_spec : nan_is_outside = true.
Proof. reflexivity. Qed.
(* np.squeeze never removes an image axis *)
Lemma squeeze_rule_spec : squeeze_image_axes = false.
Proof. reflexivity. Qed.

Local Opaque n_indexes idx_axis loop_axis stride_axis idx_init row_slot block_lo block_hi pix_origin
  plane_invert_unless_negate table_invert_unless_negate nan_is_outside squeeze_image_axes.

(* ---------------------------------------------------------------- lists *)
Lemma nth_map_lt : forall (A B : Type) (f : A -> B) l n d d', (n < length l)%nat ->
  nth n (map f l) d = f (nth n l d').
Proof.
  intros A B f l n d d' H. rewrite (nth_indep (map f l) d (f d')) by (rewrite map_length; exact H).
  apply map_nth.
Qed.

Lemma zrange_length : forall n, length (zrange n) = Z.to_nat n.
Proof. intros; unfold zrange; rewrite map_length, seq_length; reflexivity. Qed.

Lemma zrange_nth : forall n k d, (k < Z.to_nat n)%nat -> nth k (zrange n) d = Z.of_nat k.
Proof.
  intros n k d Hk. unfold zrange.
  rewrite (nth_map_lt _ _ _ _ _ d 0%nat) by (rewrite seq_length; exact Hk).
  rewrite seq_nth by exact Hk. reflexivity.
Qed.

Lemma skipn_repeat : forall (A : Type) (x : A) n m, skipn n (repeat x (n + m)) = repeat x m.
Proof. induction n as [|n IH]; intros m; [reflexivity|]. cbn [Nat.add repeat skipn]. apply IH. Qed.

Lemma all_some_map_Some : forall (A : Type) (l : list A), all_some (map Some l) = Some l.
Proof. induction l as [|a l IH]; [reflexivity|]. cbn [map all_some]. rewrite IH. reflexivity. Qed.

Lemma flat_map_map_Some : forall (A B : Type) (f : A -> list B) l,
  flat_map (fun i => map Some (f i)) l = map Some (flat_map f l).
Proof.
  induction l as [|a l IH]; [reflexivity|]. cbn [flat_map]. rewrite map_app, IH. reflexivity.
Qed.

Lemma flat_map_length_const : forall (A B : Type) (f : A -> list B) c,
  (forall a, length (f a) = c) -> forall l, length (flat_map f l) = (length l * c)%nat.
Proof.
  intros A B f c Hf. induction l as [|a l IH]; [reflexivity|].
  cbn [flat_map length]. rewrite app_length, Hf, IH. lia.
Qed.

Lemma nth_flat_map_const : forall (A B : Type) (f : A -> list B) c (a0 : A),
  (forall a, length (f a) = c) ->
  forall l r j d, (r < length l)%nat -> (j < c)%nat ->
  nth (r * c + j) (flat_map f l) d = nth j (f (nth r l a0)) d.
Proof.
  intros A B f c a0 Hf. induction l as [|a l IH]; intros r j d Hr Hj; [cbn in Hr; lia|].
  cbn [flat_map]. destruct r as [|r].
  - cbn [Nat.mul Nat.add nth]. apply app_nth1. rewrite Hf. exact Hj.
  - cbn [nth length] in *. replace (S r * c + j)%nat with (length (f a) + (r * c + j))%nat by (rewrite Hf; lia).
    rewrite app_nth2_plus. apply IH; lia.
Qed.

Lemma if_map_negb : forall (b : bool) (A : Type) (g : A -> bool) l,
  (if b then map negb (map g l) else map g l) = map (fun x => xorb b (g x)) l.
Proof.
  intros [|] A g l; [rewrite map_map|]; apply map_ext; intros x; destruct (g x); reflexivity.
Qed.

(* ---------------------------------------------------------------- the index grid *)
Definition rowgrid (C i : Z) : list (Z * Z) := map (fun j => (j, i)) (zrange C).
(* row-major list of (column, row) pairs *)
Definition grid (R C : Z) : list (Z * Z) := flat_map (rowgrid C) (zrange R).

Lemma rowgrid_length : forall C i, length (rowgrid C i) = Z.to_nat C.
Proof. intros; unfold rowgrid; rewrite map_length; apply zrange_length. Qed.

Lemma set_row : forall C i idx, map fst idx = zrange C -> map (set_slot row_slot i) idx = rowgrid C i.
Proof.
  intros C i idx H. unfold rowgrid. rewrite <- H, map_map. apply map_ext. intros p.
  rewrite row_slot_spec. reflexivity.
Qed.

Lemma rowgrid_fst : forall C i, map fst (rowgrid C i) = zrange C.
Proof. intros. unfold rowgrid. rewrite map_map. cbn [fst]. apply map_id. Qed.

Lemma fill_spec : forall C, 0 <= C -> forall m k idx done,
  map fst idx = zrange C ->
  length done = (k * Z.to_nat C)%nat ->
  fill (map Z.of_nat (seq k m)) C idx (done ++ repeat None (m * Z.to_nat C)) =
  Some (done ++ flat_map (fun i => map Some (rowgrid C i)) (map Z.of_nat (seq k m))).
Proof.
  intros C HC. induction m as [|m IH]; intros k idx done Hidx Hlen.
  - cbn [seq map fill flat_map Nat.mul repeat]. reflexivity.
  - cbn [seq map fill flat_map]. rewrite (set_row C _ idx Hidx).
    unfold assign_slice. rewrite block_lo_spec, block_hi_spec.
    rewrite app_length, repeat_length, map_length, rowgrid_length, Hlen.
    assert (Hk : Z.to_nat (Z.of_nat k * C) = (k * Z.to_nat C)%nat) by (rewrite Z2Nat.inj_mul, Nat2Z.id; lia).
    assert (Hk1 : Z.to_nat (Z.of_nat k * C + C) = (length done + Z.to_nat C)%nat)
      by (rewrite Z2Nat.inj_add, Hk, Hlen; lia).
    assert (Hcond : ((0 <=? Z.of_nat k * C) && (Z.of_nat k * C <=? Z.of_nat k * C + C) &&
                     (Z.of_nat k * C + C <=? Z.of_nat (k * Z.to_nat C + S m * Z.to_nat C)) &&
                     (Z.of_nat k * C + C - Z.of_nat k * C =? Z.of_nat (Z.to_nat C))) = true).
    { rewrite !andb_true_iff, !Z.leb_le, Z.eqb_eq.
      rewrite Nat2Z.inj_add, !Nat2Z.inj_mul, Z2Nat.id by exact HC.
      repeat split; try nia. }
    rewrite Hcond, Hk, Hk1.
    replace (k * Z.to_nat C)%nat with (length done + 0)%nat by lia.
    rewrite firstn_app_2. cbn [firstn]. rewrite app_nil_r.
    rewrite skipn_app, skipn_all2 by lia.
    replace (length done + Z.to_nat C - length done)%nat with (Z.to_nat C) by lia.
    cbn [Nat.mul app]. rewrite skipn_repeat.
    rewrite app_assoc. rewrite (IH (S k) (rowgrid C (Z.of_nat k)) (done ++ map Some (rowgrid C (Z.of_nat k)))).
    + rewrite <- app_assoc. reflexivity.
    + apply rowgrid_fst.
    + rewrite app_length, map_length, rowgrid_length, Hlen. lia.
Qed.

Lemma index_grid_spec : forall R C, 0 <= R -> 0 <= C -> index_grid R C = Some (grid R C).
Proof.
  intros R C HR HC. unfold index_grid.
  rewrite idx_axis_spec, loop_axis_spec, stride_axis_spec, n_indexes_spec.
  change (dim R C 1) with C. change (dim R C 0) with R.
  replace (Z.to_nat (R * C)) with (Z.to_nat R * Z.to_nat C)%nat by (rewrite Z2Nat.inj_mul; lia).
  change (zrange R) with (map Z.of_nat (seq 0 (Z.to_nat R))).
  change (repeat (@None (Z * Z)) (Z.to_nat R * Z.to_nat C)) with ([] ++ repeat (@None (Z * Z)) (Z.to_nat R * Z.to_nat C)).
  rewrite (fill_spec C HC (Z.to_nat R) 0 (map idx_init (zrange C)) []).
  - cbn [app]. rewrite flat_map_map_Some, all_some_map_Some. reflexivity.
  - rewrite map_map. rewrite (map_ext _ (fun j => j)) by (intros; apply idx_init_col). apply map_id.
  - reflexivity.
Qed.

Lemma grid_length : forall R C, length (grid R C) = (Z.to_nat R * Z.to_nat C)%nat.
Proof.
  intros. unfold grid. rewrite (flat_map_length_const _ _ _ (Z.to_nat C)) by (intros; apply rowgrid_length).
  rewrite zrange_length. reflexivity.
Qed.

(* entry r*C + c of the grid is the pair (c, r): column first, row second *)
Lemma grid_nth : forall R C r c d, 0 <= r < R -> 0 <= c < C ->
  nth (Z.to_nat (r * C + c)) (grid R C) d = (c, r).
Proof.
  intros R C r c d Hr Hc. unfold grid.
  replace (Z.to_nat (r * C + c)) with (Z.to_nat r * Z.to_nat C + Z.to_nat c)%nat
    by (rewrite Z2Nat.inj_add, Z2Nat.inj_mul by nia; reflexivity).
  rewrite (nth_flat_map_const _ _ _ (Z.to_nat C) 0) by
    (try (intros; apply rowgrid_length); rewrite ?zrange_length; lia).
  rewrite zrange_nth by lia. unfold rowgrid.
  rewrite (nth_map_lt _ _ _ _ _ d 0) by (rewrite zrange_length; lia).
  rewrite zrange_nth by lia. rewrite !Z2Nat.id by lia. reflexivity.
Qed.

(* ---------------------------------------------------------------- mask_plane *)
Section PlaneProofs.
  Variable sky : Type.
  Variable pix2world : Z * Z -> Z -> sky.
  Variable within : sky -> bool.
  (* W1 p : sky position of the centre of FITS (1-based) pixel p = (x, y) *)
  Variable W1 : Z * Z -> sky.
  (* library hypothesis (astropy.wcs), validated by the harness on every run *)
  Hypothesis origin_conv : forall p o, pix2world p o = W1 (fst p + 1 - o, snd p + 1 - o).

  (* should array pixel (r, c) be blanked?  negate xor (centre not inside) *)
  Definition blank_rule (negate : bool) (r c : Z) : bool := xorb negate (negb (within (W1 (c + 1, r + 1)))).

  Definition the_mask (R C : Z) (negate : bool) : list bool :=
    map (fun p => blank_rule negate (snd p) (fst p)) (grid R C).

  Lemma big_mask_spec : forall R C negate, 0 <= R -> 0 <= C ->
    big_mask sky pix2world within R C negate = Some (the_mask R C negate).
  Proof.
    intros R C negate HR HC. unfold big_mask. rewrite (index_grid_spec R C HR HC).
    rewrite plane_invert_spec, pix_origin_spec, if_map_negb. f_equal. unfold the_mask.
    apply map_ext. intros [a b]. unfold blank_rule. rewrite origin_conv. cbn [fst snd].
    replace (a + 1 - 0) with (a + 1) by lia. replace (b + 1 - 0) with (b + 1) by lia.
    destruct negate, (within (W1 (a + 1, b + 1))); reflexivity.
  Qed.

  Lemma the_mask_length : forall R C negate, length (the_mask R C negate) = (Z.to_nat R * Z.to_nat C)%nat.
  Proof. intros. unfold the_mask. rewrite map_length. apply grid_length. Qed.

  Lemma the_mask_nth : forall R C negate r c, 0 <= r < R -> 0 <= c < C ->
    nth (Z.to_nat (r * C + c)) (the_mask R C negate) true = blank_rule negate r c.
  Proof.
    intros R C negate r c Hr Hc. unfold the_mask.
    rewrite (nth_map_lt _ _ _ _ _ true (0, 0)).
    - rewrite (grid_nth R C r c (0, 0) Hr Hc). reflexivity.
    - rewrite grid_length.
      replace (Z.to_nat (r * C + c)) with (Z.to_nat r * Z.to_nat C + Z.to_nat c)%nat
        by (rewrite Z2Nat.inj_add, Z2Nat.inj_mul by nia; reflexivity).
      assert (Z.to_nat r < Z.to_nat R)%nat by lia. assert (Z.to_nat c < Z.to_nat C)%nat by lia. nia.
  Qed.

  Definition apply_mask (m : list bool) (data : list (option Z)) : list (option Z) :=
    map (fun mv => blank (fst mv) (snd mv)) (combine m data).

  Lemma mask_plane_spec : forall R C data negate, 0 <= R -> 0 <= C -> Z.of_nat (length data) = R * C ->
    mask_plane sky pix2world within R C data negate = Some (apply_mask (the_mask R C negate) data).
  Proof.
    intros R C data negate HR HC Hlen. unfold mask_plane. rewrite (big_mask_spec R C negate HR HC).
    rewrite the_mask_length, Hlen, Z.eqb_refl, andb_true_r.
    replace (Z.of_nat (Z.to_nat R * Z.to_nat C)) with (R * C) by (rewrite Nat2Z.inj_mul, !Z2Nat.id; lia).
    rewrite Z.eqb_refl. reflexivity.
  Qed.

  Lemma apply_mask_length : forall m data, length m = length data -> length (apply_mask m data) = length data.
  Proof. intros m data H. unfold apply_mask. rewrite map_length, combine_length, H. apply Nat.min_id. Qed.

  Lemma apply_mask_nth : forall m data n, length m = length data ->
    nth n (apply_mask m data) None = blank (nth n m true) (nth n data None).
  Proof.
    intros m data n H. unfold apply_mask.
    change (@None Z) with ((fun mv : bool * option Z => blank (fst mv) (snd mv)) (true, None)) at 1.
    rewrite map_nth, combine_nth by exact H. reflexivity.
  Qed.

  (* C10_plane_exact *)
  Lemma plane_exact : forall R C data negate, 0 <= R -> 0 <= C -> Z.of_nat (length data) = R * C ->
    exists out, mask_plane sky pix2world within R C data negate = Some out /\
      length out = length data /\
      forall r c, 0 <= r < R -> 0 <= c < C ->
        nth (Z.to_nat (r * C + c)) out None =
        if blank_rule negate r c then None else nth (Z.to_nat (r * C + c)) data None.
  Proof.
    intros R C data negate HR HC Hlen. exists (apply_mask (the_mask R C negate) data).
    assert (Hm : length (the_mask R C negate) = length data).
    { rewrite the_mask_length. apply Nat2Z.inj. rewrite Hlen, Nat2Z.inj_mul, !Z2Nat.id; lia. }
    split; [apply mask_plane_spec; assumption|]. split; [apply apply_mask_length; exact Hm|].
    intros r c Hr Hc. rewrite (apply_mask_nth _ _ _ Hm), (the_mask_nth R C negate r c Hr Hc). reflexivity.
  Qed.

  (* blank <-> was blank or the rule says so *)
  Lemma plane_blank_iff : forall R C data negate out r c, 0 <= R -> 0 <= C -> Z.of_nat (length data) = R * C ->
    mask_plane sky pix2world within R C data negate = Some out -> 0 <= r < R -> 0 <= c < C ->
    (nth (Z.to_nat (r * C + c)) out None = None <->
     nth (Z.to_nat (r * C + c)) data None = None \/ blank_rule negate r c = true) /\
    (blank_rule negate r c = false -> nth (Z.to_nat (r * C + c)) out None = nth (Z.to_nat (r * C + c)) data None).
  Proof.
    intros R C data negate out r c HR HC Hlen Hout Hr Hc.
    destruct (plane_exact R C data negate HR HC Hlen) as (out' & Ho & _ & Hn).
    rewrite Hout in Ho. injection Ho as <-. rewrite (Hn r c Hr Hc).
    destruct (blank_rule negate r c).
    - split; [split; [intros _; right; reflexivity|intros _; reflexivity]|intros H; discriminate].
    - split; [split; [intros H; left; exact H|intros [H|H]; [exact H|discriminate]]|intros _; reflexivity].
  Qed.

  (* C10_complementary: on finite data the two polarities blank complementary pixel sets *)
  Lemma complementary : forall R C data o1 o2 r c, 0 <= R -> 0 <= C -> Z.of_nat (length data) = R * C ->
    mask_plane sky pix2world within R C data false = Some o1 ->
    mask_plane sky pix2world within R C data true = Some o2 ->
    0 <= r < R -> 0 <= c < C -> nth (Z.to_nat (r * C + c)) data None <> None ->
    (nth (Z.to_nat (r * C + c)) o1 None = None <-> nth (Z.to_nat (r * C + c)) o2 None <> None) /\
    (nth (Z.to_nat (r * C + c)) o1 None = None <-> within (W1 (c + 1, r + 1)) = false).
  Proof.
    intros R C data o1 o2 r c HR HC Hlen H1 H2 Hr Hc Hfin.
    destruct (plane_exact R C data false HR HC Hlen) as (o1' & Ho1 & _ & Hn1).
    destruct (plane_exact R C data true HR HC Hlen) as (o2' & Ho2 & _ & Hn2).
    rewrite H1 in Ho1. injection Ho1 as <-. rewrite H2 in Ho2. injection Ho2 as <-.
    rewrite (Hn1 r c Hr Hc), (Hn2 r c Hr Hc). unfold blank_rule.
    destruct (within (W1 (c + 1, r + 1))); cbn [xorb negb]; split; split; intros H;
      try reflexivity; try discriminate; try exact Hfin; try (exfalso; apply H; reflexivity);
      try (exfalso; apply Hfin; exact H).
  Qed.

  (* ---------------------------------------------------------------- mask_file *)
  Lemma chunks_length : forall (A : Type) n k (l : list A), length l = (k * n)%nat ->
    Forall (fun pl => length pl = n) (chunks n k l).
  Proof.
    intros A n. induction k as [|k IH]; intros l H; [constructor|].
    cbn [chunks]. constructor.
    - rewrite firstn_length. lia.
    - apply IH. rewrite skipn_length. lia.
  Qed.

  Lemma all_some_map_ok : forall (A B : Type) (f : A -> option B) (g : A -> B) l,
    Forall (fun a => f a = Some (g a)) l -> all_some (map f l) = Some (map g l).
  Proof.
    intros A B f g l H. induction H as [|a l Ha _ IH]; [reflexivity|].
    cbn [map all_some]. rewrite Ha, IH. reflexivity.
  Qed.

  Lemma planes_ok : forall R C negate pls, 0 <= R -> 0 <= C ->
    Forall (fun pl => length pl = Z.to_nat (R * C)) pls ->
    all_some (map (fun pl => mask_plane sky pix2world within R C pl negate) pls) =
    Some (map (apply_mask (the_mask R C negate)) pls).
  Proof.
    intros R C negate pls HR HC H. apply all_some_map_ok.
    eapply Forall_impl; [|exact H]. intros pl Hl. cbv beta in Hl. apply mask_plane_spec; try assumption.
    rewrite Hl, Z2Nat.id; nia.
  Qed.

  (* squeeze on the shapes of the property: the image axes always survive *)
  Lemma squeeze_3 : forall P R C, squeeze [P; R; C] = if P =? 1 then [R; C] else [P; R; C].
  Proof.
    intros P R C. unfold squeeze. rewrite squeeze_rule_spec.
    cbn [length Z.of_nat Pos.of_succ_nat Pos.succ Z.ltb Z.compare Pos.compare Pos.compare_cont Nat.sub firstn skipn filter].
    destruct (P =? 1); reflexivity.
  Qed.

  Lemma squeeze_4 : forall Q P R C,
    squeeze [Q; P; R; C] = (if Q =? 1 then [] else [Q]) ++ (if P =? 1 then [] else [P]) ++ [R; C].
  Proof.
    intros Q P R C. unfold squeeze. rewrite squeeze_rule_spec.
    cbn [length Z.of_nat Pos.of_succ_nat Pos.succ Z.ltb Z.compare Pos.compare Pos.compare_cont Nat.sub firstn skipn filter].
    destruct (Q =? 1), (P =? 1); reflexivity.
  Qed.

  (* C10_cube_planes_equal: P >= 2 planes, any image shape (also a single row or column) *)
  Lemma cube_planes : forall P R C data negate, 2 <= P -> 0 <= R -> 0 <= C ->
    Z.of_nat (length data) = P * (R * C) ->
    mask_file_data sky pix2world within [P; R; C] data negate =
    Some ([P; R; C], concat (map (apply_mask (the_mask R C negate)) (chunks (Z.to_nat (R * C)) (Z.to_nat P) data))).
  Proof.
    intros P R C data negate HP HR HC Hlen. unfold mask_file_data. rewrite squeeze_3.
    replace (P =? 1) with false by (symmetry; apply Z.eqb_neq; lia).
    rewrite planes_ok; try assumption; [reflexivity|].
    apply chunks_length. apply Nat2Z.inj. rewrite Hlen, Nat2Z.inj_mul, !Z2Nat.id; nia.
  Qed.

  (* a single plane given as a 3-D (1, R, C) array is squeezed to the 2-D image *)
  Lemma cube_one_plane : forall R C data negate,
    mask_file_data sky pix2world within [1; R; C] data negate =
    mask_file_data sky pix2world within [R; C] data negate.
  Proof.
    intros R C data negate. unfold mask_file_data. rewrite squeeze_3. reflexivity.
  Qed.

  (* degenerate leading axes of a 4-D FITS array (STOKES / FREQ of length 1) are squeezed away *)
  Lemma cube_4d : forall P R C data negate, P <> 1 ->
    (mask_file_data sky pix2world within [1; P; R; C] data negate =
     mask_file_data sky pix2world within [P; R; C] data negate) /\
    (mask_file_data sky pix2world within [P; 1; R; C] data negate =
     mask_file_data sky pix2world within [P; R; C] data negate) /\
    (mask_file_data sky pix2world within [1; 1; R; C] data negate =
     mask_file_data sky pix2world within [R; C] data negate).
  Proof.
    intros P R C data negate HP1. unfold mask_file_data. rewrite !squeeze_4, squeeze_3.
    replace (P =? 1) with false by (symmetry; apply Z.eqb_neq; lia).
    repeat split; reflexivity.
  Qed.

  Lemma image_2d : forall R C data negate, 0 <= R -> 0 <= C -> Z.of_nat (length data) = R * C ->
    mask_file_data sky pix2world within [R; C] data negate = Some ([R; C], apply_mask (the_mask R C negate) data).
  Proof.
    intros R C data negate HR HC Hlen. unfold mask_file_data, squeeze.
    cbn [length Z.of_nat Pos.of_succ_nat Pos.succ Z.ltb Z.compare Pos.compare Pos.compare_cont].
    rewrite mask_plane_spec by assumption. reflexivity.
  Qed.
End PlaneProofs.

(* ---------------------------------------------------------------- mask_table *)
Section TableProofs.
  Variable row : Type.
  Variable ra dec : row -> option Z.
  Variable within_c : Z -> Z -> bool.

  (* the property's notion: a row is inside iff both coordinates are defined and the position is in the region *)
  Definition inside_row (x : row) : bool :=
    match ra x, dec x with Some a, Some d => within_c a d | _, _ => false end.

  Lemma row_inside_spec : forall x, row_inside row ra dec within_c x = inside_row x.
  Proof.
    intros x. unfold row_inside, inside_row. rewrite nan_is_outside_spec.
    destruct (ra x), (dec x); reflexivity.
  Qed.

  Lemma table_exact : forall rows negate,
    mask_table row ra dec within_c rows negate = filter (fun x => xorb negate (negb (inside_row x))) rows.
  Proof.
    intros rows negate. unfold mask_table. apply filter_ext. intros x. unfold row_kept.
    rewrite table_invert_spec, row_inside_spec. destruct negate, (inside_row x); reflexivity.
  Qed.

  Lemma table_nan_kept : forall rows x, In x rows -> ra x = None \/ dec x = None ->
    In x (mask_table row ra dec within_c rows false) /\ ~ In x (mask_table row ra dec within_c rows true).
  Proof.
    intros rows x Hin Hnan. rewrite !table_exact, !filter_In.
    assert (Hi : inside_row x = false) by (unfold inside_row; destruct Hnan as [-> | ->]; [|destruct (ra x)]; reflexivity).
    rewrite Hi. cbn [negb xorb]. split; [split; [exact Hin|reflexivity]|]. intros [_ H]. discriminate.
  Qed.

  Lemma table_member : forall rows negate x,
    In x (mask_table row ra dec within_c rows negate) <-> In x rows /\ inside_row x = negate.
  Proof.
    intros rows negate x. rewrite table_exact, filter_In.
    destruct negate, (inside_row x); cbn [xorb negb]; intuition congruence.
  Qed.

  (* order and multiplicity: the two polarities interleave back to the table *)
  Fixpoint merge_by (f : row -> bool) (rows kept dropped : list row) : Prop :=
    match rows with
    | [] => kept = [] /\ dropped = []
    | x :: t => if f x then match kept with k :: kt => k = x /\ merge_by f t kt dropped | [] => False end
                else match dropped with d :: dt => d = x /\ merge_by f t kept dt | [] => False end
    end.

  Lemma table_partition : forall rows,
    merge_by (fun x => negb (inside_row x)) rows
      (mask_table row ra dec within_c rows false) (mask_table row ra dec within_c rows true).
  Proof.
    intros rows. rewrite !table_exact. induction rows as [|x t IH]; [split; reflexivity|].
    cbn [filter merge_by xorb]. destruct (inside_row x); cbn [negb]; (split; [reflexivity|exact IH]).
  Qed.
End TableProofs.
