(* C09 - model of the sky-coordinate handling of AegeanTools.regions.Region:
   radec2sky, sky2ang, sky2vec, vec2sky, sky_within (degin, NaN mask) and add_circles / add_poly.

   The arithmetic leaves and convention flags (column swap, `pi/2 - dec`, argument order of the healpy
   calls, inclusive / nest flags, depth clamp, mask expression, fill value) come from Gen/SkyCoords.v,
   regenerated from regions.py on every run.  The pixel-set side (add_pixels, _renorm, _demote_all, the
   membership test) is the C08 model Model/RegionModel.v.

   healpy is NOT modelled: it is the record `healpy` of functions, about which the theorems in
   Proofs/SkyCoordsProofs.v make explicit hypotheses (validated against the real library on every run).

   Coordinates that can be NaN / infinite are `option R` (None = not finite): float arithmetic keeps
   non-finite values non-finite under `pi/2 - x` and np.radians, which is all the mask logic looks at.
   No proofs in this file. *)
From Coq Require Import Reals ZArith Bool List.
From Aegean Require Import Lib.RBase Gen.SkyCoords Gen.Regions Model.RegionModel.
Import ListNotations.
Open Scope R_scope.

Definition vec := (R * R * R)%type.
Definition sky := (R * R)%type.                       (* a row (ra, dec) *)

Definition dot (u v : vec) : R :=
  let '(a, b, c) := u in let '(x, y, z) := v in a * x + b * y + c * z.
Definition cross (u v : vec) : vec :=
  let '(a, b, c) := u in let '(x, y, z) := v in (b * z - c * y, c * x - a * z, a * y - b * x).
Definition triple (a b v : vec) : R := dot (cross a b) v.
(* the unit vector of a sky position; the direction of co-latitude theta and longitude phi *)
Definition unitvec (ra dec : R) : vec := (cos dec * cos ra, cos dec * sin ra, sin dec).
Definition dirvec (theta phi : R) : vec := (sin theta * cos phi, sin theta * sin phi, cos theta).
(* great-circle distance of two unit vectors *)
Definition angdist (u v : vec) : R := acos (dot u v).

(* the healpy functions the code calls.  depth d stands for nside = 2^d *)
Record healpy := mkHealpy {
  ang2vec : R -> R -> vec;                                   (* theta phi *)
  vec2ang : vec -> R * R;                                    (* -> (theta, phi) *)
  ang2pix : Z -> bool -> R -> R -> Z;                        (* depth nest theta phi *)
  query_disc : Z -> vec -> R -> bool -> bool -> list Z;      (* depth centre radius inclusive nest *)
  query_polygon : Z -> list vec -> bool -> bool -> list Z    (* depth vertices inclusive nest *)
}.

(* ---- conversions *)
Definition sky2ang (s : sky) : R * R := (sky2ang_theta (fst s) (snd s), sky2ang_phi (fst s) (snd s)).
Definition sky2vec (hp : healpy) (s : sky) : vec :=
  let tp := sky2ang s in
  if sky2vec_theta_first then ang2vec hp (fst tp) (snd tp) else ang2vec hp (snd tp) (fst tp).
Definition vec2sky (hp : healpy) (v : vec) (degrees : bool) : sky :=
  let tp := vec2ang hp v in
  let ra := vec2sky_ra (fst tp) (snd tp) in
  let dec := vec2sky_dec (fst tp) (snd tp) in
  if degrees then (vec2sky_ra_degrees ra, vec2sky_dec_degrees dec) else (ra, dec).

(* ---- possibly non-finite coordinates *)
Definition coord := option R.
Definition omap (f : R -> R) (x : coord) : coord := match x with Some a => Some (f a) | None => None end.
Definition omap2 (f : R -> R -> R) (x y : coord) : coord :=
  match x, y with Some a, Some b => Some (f a b) | _, _ => None end.
Definition finite (x : coord) : bool := match x with Some _ => true | None => false end.
Definition oval (x : coord) : R := match x with Some a => a | None => 0 end.

(* radec2sky: scalars become one row, sequences are zipped *)
Inductive coords := Scalar (ra dec : coord) | Vector (ras decs : list coord).
Definition radec2sky (c : coords) : list (coord * coord) :=
  match c with Scalar a b => [(a, b)] | Vector ras decs => combine ras decs end.

(* ---- sky_within, one row: what is handed to hp.ang2pix, and the mask bit *)
Record angles := mkAngles { a_mask : bool; a_theta : R; a_phi : R }.
Definition row_mask (fin_theta fin_phi : bool) : bool :=
  if mask_negated_all_finite then negb (fin_theta && fin_phi) else fin_theta && fin_phi.
Definition row_result (mask hit : bool) : bool := if mask then masked_result else hit.
Definition within_angles (degin : bool) (row : coord * coord) : angles :=
  let ra := if degin then omap degin_conv (fst row) else fst row in
  let dec := if degin then omap degin_conv (snd row) else snd row in
  let t := omap2 sky2ang_theta ra dec in
  let p := omap2 sky2ang_phi ra dec in
  let m := row_mask (finite t) (finite p) in
  mkAngles m (if m then mask_fill else oval t) (if m then mask_fill else oval p).
Definition within_pix (hp : healpy) (D : Z) (a : angles) : Z :=
  if within_theta_first then ang2pix hp (within_depth D) within_nest (a_theta a) (a_phi a)
  else ang2pix hp (within_depth D) within_nest (a_phi a) (a_theta a).

Definition sky_within (hp : healpy) (s : region) (c : coords) (degin : bool) : list bool :=
  let ang := map (within_angles degin) (radec2sky c) in
  let hits := snd (RegionModel.sky_within s (map (within_pix hp (depth s)) ang)) in
  map (fun mh => row_result (fst mh) (snd mh)) (combine (map a_mask ang) hits).

(* the answer for one position *)
Definition sky_within1 (hp : healpy) (s : region) (ra dec : coord) (degin : bool) : bool :=
  let a := within_angles degin (ra, dec) in
  row_result (a_mask a)
    (memZ (within_pix hp (depth s) a) (level (cells (demote_all s)) (depth (demote_all s)))).

(* ---- add_circles / add_poly *)
Definition insert_depth (clamp : Z -> Z -> bool) (dflt : Z -> Z) (D : Z) (d : option Z) : Z :=
  match d with None => dflt D | Some d => if clamp D d then dflt D else d end.

Definition circle := (R * R * R)%type.                     (* ra_cen, dec_cen, radius [rad] *)
Definition disc_pixels (hp : healpy) (d : Z) (c : circle) : list Z :=
  let '(ra, dec, r) := c in
  query_disc hp (disc_depth d) (sky2vec hp (ra, dec)) r disc_inclusive disc_nest.
(* for vec, r in zip(vectors, rad): add_pixels(query_disc(..), depth); then one _renorm *)
Definition add_circles (hp : healpy) (s : region) (cs : list circle) (d : option Z) : region :=
  let dd := insert_depth circle_depth_clamp circle_depth_default (depth s) d in
  renorm (fold_left (fun s c => add_pixels s dd (disc_pixels hp dd c)) cs s).

Definition poly_pixels (hp : healpy) (d : Z) (vs : list sky) : list Z :=
  query_polygon hp (poly_depth d) (map (sky2vec hp) vs) poly_inclusive poly_nest.
Definition add_poly (hp : healpy) (s : region) (vs : list sky) (d : option Z) : region :=
  let dd := insert_depth poly_depth_clamp poly_depth_default (depth s) d in
  renorm (add_pixels s dd (poly_pixels hp dd vs)).

(* ---- the logic part of sky_within alone (no reals): used by the exact correspondence check, where
   hp.ang2pix is replaced by a table.  fins = per row (ra finite, dec finite); pixs = what the table
   returned per row; dem = the deepest-level pixel set *)
Definition within_logic (fins : list (bool * bool)) (pixs dem : list Z) : list (bool * bool) :=
  map (fun fp =>
         let m := row_mask (fst (fst fp) && snd (fst fp)) (fst (fst fp) && snd (fst fp)) in
         (m, row_result m (memZ (snd fp) dem)))
      (combine fins pixs).
