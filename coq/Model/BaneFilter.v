(* C06 - executable model of BANE.filter_image (filter_mc_sharemem + sigma_filter), over an arbitrary scalar
   carrier K and arbitrary box statistics est_b (pass 1, background) and est_r (pass 2, noise).

   The image is a function  row -> col -> option scalar  (None = non-finite pixel).  The image is cut into stripes
   of `wy` rows (the last may be shorter); each stripe holds its rows plus half a box of halo rows, lays a grid of
   nodes  range(start, stop, step) + [stop]  over its own rows and over all columns, evaluates the box statistic of the
   python slice [r_min:r_max, c_min:c_max) around every node (an empty or all-blank box gives NaN) and interpolates
   bilinearly (scipy RegularGridInterpolator: the cell of x is the one whose lower node is the largest node <= x; a NaN
   at any of the four corners gives NaN).  Pass 2 does the same on data - background, where the background of every
   row held by the stripe (own + halo) comes from the stripe that owns that row.  With masking the pixels whose
   background-subtracted value is not finite become NaN in both maps.

   All index arithmetic (box, grids, pixel grid, halo, mask rows, which rows are subtracted) are leaves regenerated
   from BANE.py: Gen/BaneFilter.v and Gen/BaneSync.v.  memo1/memo2 only tabulate (they are extensionally the identity).
   The model is instantiated at Q (run by vm_compute against the real code) and at R (theorems).  No proofs here. *)
From Coq Require Import ZArith QArith Reals Bool List.
From Aegean Require Import Gen.BaneSync Gen.BaneFilter Lib.Stats.
Import ListNotations.
Open Scope Z_scope.

Record carrier := mkCarrier {
  V : Type;
  vadd : V -> V -> V; vsub : V -> V -> V; vmul : V -> V -> V; vdiv : V -> V -> V;
  vofZ : Z -> V }.

Definition QC : carrier := mkCarrier Q Qplus Qminus Qmult Qdiv inject_Z.
Definition RC : carrier := mkCarrier R Rplus Rminus Rmult Rdiv IZR.

(* tabulation: the values f lo .. f (lo+n-1) are computed once; outside the table f itself is called *)
Definition memo1 {A} (lo n : Z) (f : Z -> A) : Z -> A :=
  let t := map (fun k => f (lo + Z.of_nat k)) (seq 0 (Z.to_nat n)) in
  fun i => if (lo <=? i) && (i <? lo + n)
           then match nth_error t (Z.to_nat (i - lo)) with Some v => v | None => f i end
           else f i.
Definition memo2 {A} (rlo rn clo cn : Z) (f : Z -> Z -> A) : Z -> Z -> A :=
  memo1 rlo rn (fun r => memo1 clo cn (f r)).

Definition zrange (a b : Z) : list Z := map (fun k => a + Z.of_nat k) (seq 0 (Z.to_nat (b - a))).
Definition is_none {A} (o : option A) : bool := match o with None => true | Some _ => false end.

Record geom := mkGeom {
  nr : Z; nc : Z;          (* image rows, columns *)
  sr : Z; sc : Z;          (* grid step along rows, columns (step_size[0], step_size[1]) *)
  br : Z; bc : Z;          (* box size along rows, columns *)
  wy : Z;                  (* rows per stripe (width_y; any value >= nr means one stripe) *)
  dm : bool;               (* masking on *)
  suball : bool            (* background subtracted from all rows held by a stripe (Gen: subtract_all_rows) *)
}.

(* ---- geometry of stripe k *)
Definition st_ymin (g : geom) (k : Z) : Z := k * wy g.
Definition st_ymax (g : geom) (k : Z) : Z := Z.min (k * wy g + wy g) (nr g).
Definition nstripes (g : geom) : Z := (nr g + wy g - 1) / wy g.
Definition st_drm g k := data_row_min (st_ymin g k) (st_ymax g k) (br g) (nr g).
Definition st_drx g k := data_row_max (st_ymin g k) (st_ymax g k) (br g) (nr g).
Definition st_dh g k := st_drx g k - st_drm g k.
Definition st_rs g k := grid_r_start (st_ymin g k) (st_ymax g k) (st_drm g k) (nr g) (nc g) (sr g) (sc g).
Definition st_re g k := grid_r_stop (st_ymin g k) (st_ymax g k) (st_drm g k) (nr g) (nc g) (sr g) (sc g).
Definition st_rstep g k := grid_r_step (st_ymin g k) (st_ymax g k) (st_drm g k) (nr g) (nc g) (sr g) (sc g).
Definition st_cs g k := grid_c_start (st_ymin g k) (st_ymax g k) (st_drm g k) (nr g) (nc g) (sr g) (sc g).
Definition st_ce g k := grid_c_stop (st_ymin g k) (st_ymax g k) (st_drm g k) (nr g) (nc g) (sr g) (sc g).
Definition st_cstep g k := grid_c_step (st_ymin g k) (st_ymax g k) (st_drm g k) (nr g) (nc g) (sr g) (sc g).
(* local (data) coordinates of the output pixel (y, c) of stripe k *)
Definition st_prow g k (y : Z) := pix_r_lo (st_ymin g k) (st_ymax g k) (st_drm g k) (nr g) (nc g) + (y - st_ymin g k).
Definition st_pcol g k (c : Z) := pix_c_lo (st_ymin g k) (st_ymax g k) (st_drm g k) (nr g) (nc g) + c.
Definition st_mrow g k (y : Z) := mask_r_lo (st_ymin g k) (st_ymax g k) (st_drm g k) (st_drx g k) (st_dh g k) + (y - st_ymin g k).
Definition own_row g k (r : Z) : bool :=
  (mask_r_lo (st_ymin g k) (st_ymax g k) (st_drm g k) (st_drx g k) (st_dh g k) <=? r)
  && (r <? mask_r_hi (st_ymin g k) (st_ymax g k) (st_drm g k) (st_drx g k) (st_dh g k)).

(* i-th node of list(range(start, stop, step)) + [stop];  number of cells *)
Definition gnode (start stop step i : Z) : Z := Z.min (start + i * step) stop.
Definition ncells (start stop step : Z) : Z := (stop - start + step - 1) / step.

Section Model.
  Variable K : carrier.
  Notation T := (V K).
  Variables est_b est_r : list T -> T.

  Definition pix := Z -> Z -> option T.

  Definition omap (f : T -> T) (o : option T) : option T := match o with Some x => Some (f x) | None => None end.
  Definition osub (a b : option T) : option T :=
    match a, b with Some x, Some y => Some (vsub K x y) | _, _ => None end.

  (* finite values of data[r_min:r_max, c_min:c_max] around the node (r, c); data has dh rows and ncols columns *)
  Definition boxvals (data : pix) (dh ncols brow bcol r c : Z) : list T :=
    flat_map (fun rr => flat_map (fun cc => match data rr cc with Some v => [v] | None => [] end)
                                 (zrange (box_c_min c bcol ncols) (box_c_max c bcol ncols)))
             (zrange (box_r_min r brow dh) (box_r_max r brow dh)).

  (* sigmaclip returns NaN when no finite value is given *)
  Definition node_stat (est : list T -> T) (l : list T) : option T :=
    match l with [] => None | _ => Some (est l) end.

  Definition frac (lo hi x : Z) : T := vdiv K (vofZ K (x - lo)) (vofZ K (hi - lo)).
  Definition lerp2 (a b c d t u : T) : T :=
    let one := vofZ K 1 in
    vadd K (vadd K (vadd K (vmul K (vmul K a (vsub K one t)) (vsub K one u))
                           (vmul K (vmul K b (vsub K one t)) u))
                   (vmul K (vmul K c t) (vsub K one u)))
           (vmul K (vmul K d t) u).
  Definition bilin (v00 v01 v10 v11 : option T) (t u : T) : option T :=
    match v00, v01, v10, v11 with
    | Some a, Some b, Some c, Some d => Some (lerp2 a b c d t u)
    | _, _, _, _ => None
    end.

  (* statistic at every node (i, j) of the grid of stripe k *)
  Definition stripe_vals (est : list T -> T) (g : geom) (k : Z) (data : pix) : Z -> Z -> option T :=
    memo2 0 (ncells (st_rs g k) (st_re g k) (st_rstep g k) + 1) 0 (ncells (st_cs g k) (st_ce g k) (st_cstep g k) + 1)
      (fun i j => node_stat est (boxvals data (st_dh g k) (nc g) (br g) (bc g)
                                         (gnode (st_rs g k) (st_re g k) (st_rstep g k) i)
                                         (gnode (st_cs g k) (st_ce g k) (st_cstep g k) j))).

  (* RegularGridInterpolator((rows, cols), vals) at the data coordinates (r, c) *)
  Definition interp_at (g : geom) (k : Z) (vals : Z -> Z -> option T) (r c : Z) : option T :=
    let i := (r - st_rs g k) / st_rstep g k in
    let j := (c - st_cs g k) / st_cstep g k in
    bilin (vals i j) (vals i (j + 1)) (vals (i + 1) j) (vals (i + 1) (j + 1))
          (frac (gnode (st_rs g k) (st_re g k) (st_rstep g k) i) (gnode (st_rs g k) (st_re g k) (st_rstep g k) (i + 1)) r)
          (frac (gnode (st_cs g k) (st_ce g k) (st_cstep g k) j) (gnode (st_cs g k) (st_ce g k) (st_cstep g k) (j + 1)) c).

  (* what stripe k writes at image position (y, c) *)
  Definition stripe_map (est : list T -> T) (g : geom) (k : Z) (data : pix) : pix :=
    let vals := stripe_vals est g k data in
    fun y c => interp_at g k vals (st_prow g k y) (st_pcol g k c).

  (* one pass over all stripes; datak k = the data held by stripe k in local coordinates *)
  Definition pass (est : list T -> T) (g : geom) (datak : Z -> pix) : pix :=
    let per := memo1 0 (nstripes g) (fun k => stripe_map est g k (datak k)) in
    memo2 0 (nr g) 0 (nc g) (fun y c => per (y / wy g) y c).

  Definition data1 (g : geom) (img : pix) (k : Z) : pix := fun r c => img (st_drm g k + r) c.
  Definition data2 (g : geom) (img bkg : pix) (k : Z) : pix :=
    memo2 0 (st_dh g k) 0 (nc g)
      (fun r c => if suball g || own_row g k r
                  then osub (img (st_drm g k + r) c) (bkg (st_drm g k + r) c)
                  else img (st_drm g k + r) c).

  Definition bkg_raw (g : geom) (img : pix) : pix := pass est_b g (data1 g img).
  Definition sub_data (g : geom) (img : pix) : Z -> pix :=
    let bkg := bkg_raw g img in memo1 0 (nstripes g) (fun k => data2 g img bkg k).
  Definition rms_raw (g : geom) (img : pix) : pix := pass est_r g (sub_data g img).
  Definition masked (g : geom) (img : pix) (y c : Z) : bool :=
    is_none (sub_data g img (y / wy g) (st_mrow g (y / wy g) y) c).

  Definition out_bkg (g : geom) (img : pix) : pix :=
    fun y c => if dm g && masked g img y c then None else bkg_raw g img y c.
  Definition out_rms (g : geom) (img : pix) : pix :=
    fun y c => if dm g && masked g img y c then None else rms_raw g img y c.

  Definition table (g : geom) (m : pix) : list (list (option T)) :=
    map (fun y => map (fun c => m y c) (zrange 0 (nc g))) (zrange 0 (nr g)).

  (* executable entry point: both maps as tables, sharing the intermediate results *)
  Definition run (g : geom) (img : pix) : list (list (option T)) * list (list (option T)) :=
    let bkg := bkg_raw g img in
    let d2 := memo1 0 (nstripes g) (fun k => data2 g img bkg k) in
    let rms := pass est_r g d2 in
    let msk := memo2 0 (nr g) 0 (nc g) (fun y c => dm g && is_none (d2 (y / wy g) (st_mrow g (y / wy g) y) c)) in
    (table g (fun y c => if msk y c then None else bkg y c),
     table g (fun y c => if msk y c then None else rms y c)).
End Model.

(* the configuration of the real code *)
Definition the_geom (rows cols steprow stepcol boxrow boxcol width : Z) (mask : bool) : geom :=
  mkGeom rows cols steprow stepcol boxrow boxcol width mask subtract_all_rows.

(* image given as a table *)
Definition of_table {A} (t : list (list (option A))) : Z -> Z -> option A :=
  fun r c => if (r <? 0) || (c <? 0) then None else
             match nth_error t (Z.to_nat r) with
             | Some row => match nth_error row (Z.to_nat c) with Some v => v | None => None end
             | None => None end.

(* ---- exactly computable statistics used for the whole-pipeline correspondence: (max, max - min) *)
Definition q_max (l : list Q) : Q := match l with [] => 0%Q | x :: t => fold_left (fun a b => if Qle_bool a b then b else a) t x end.
Definition q_minl (l : list Q) : Q := match l with [] => 0%Q | x :: t => fold_left (fun a b => if Qle_bool b a then b else a) t x end.
Definition q_range (l : list Q) : Q := Qred (q_max l - q_minl l).
Definition run_maxrange (g : geom) (t : list (list (option Q))) :=
  let o := run QC q_max q_range g (of_table t) in
  (map (map (option_map Qred)) (fst o), map (map (option_map Qred)) (snd o)).

(* ---- the statistics of the real code, over R (statement level) and over Q as (mean, variance) *)
Definition est_mean_r (l : list R) : R := fst (sigmaclip_r clip_lo clip_hi clip_lower_strict clip_upper_strict clip_reps l).
Definition est_std_r (l : list R) : R := snd (sigmaclip_r clip_lo clip_hi clip_lower_strict clip_upper_strict clip_reps l).
Definition the_sigmaclip_q (l : list Q) : Q * Q := sigmaclip_q clip_lo clip_hi clip_lower_strict clip_upper_strict clip_reps l.
Definition the_margin_q (l : list Q) : option Q := sigmaclip_margin clip_lo clip_hi clip_lower_strict clip_upper_strict clip_reps l.
(* pass 1 alone with the real mean statistic, executable over Q (the background map involves no square root) *)
Definition run_bkg_q (g : geom) (t : list (list (option Q))) : list (list (option Q)) :=
  map (map (option_map Qred)) (table QC g (bkg_raw QC (fun l => fst (the_sigmaclip_q l)) g (of_table t))).
