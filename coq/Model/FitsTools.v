(* C15 - compress then expand.  Hand-written executable model of fits_tools.compress / is_compressed /
   expand over the generated leaves of Gen/FitsTools.v.  No proofs here.

   An image is its shape, its pixel function (row, column) -> Q on 0 <= row < rows, 0 <= col < cols,
   and two keyword maps: integer cards (NAXISn and the BN_ cards) and rational cards (CRPIXn, CDELTn, CDn_n).
   What is hand-written (and therefore tied by the correspondence run, not by the translator):
     - numpy slicing: new_data[:a] = data[::s] needs len(data[::s]) = a, index -1 is the last one,
       later assignments overwrite earlier ones, np.empty leaves the rest undefined (modelled as 0);
     - astropy: assigning hdu.data rewrites NAXIS1 / NAXIS2 from the array shape;
     - the order of the header updates and the `return None` paths;
     - RegularGridInterpolator: a Section variable `rgi` (library contract Interp.rgi_spec) guarded by
       the checks the library makes (strictly ascending axes, query points inside: Interp.axis_ok). *)
From Coq Require Import ZArith QArith Bool List String.
From Aegean Require Import Lib.Keywords Lib.Interp Gen.FitsTools.
Import ListNotations.
Open Scope string_scope.
Open Scope Z_scope.

Record image := { rows : Z; cols : Z; pix : Z -> Z -> Q; ikw : kws Z; rkw : kws Q }.

Definition obind {A B} (o : option A) (f : A -> option B) : option B :=
  match o with Some a => f a | None => None end.

(* if 'K1' in header: header['K1'] = g(header['K1']) elif 'K2' in header: ... else: return None *)
Definition scale_first (keys : list string) (g : Q -> Q) (h : kws Q) : option (kws Q) :=
  match first_present keys h with Some k => kupd k g h | None => None end.

(* len(data[::s]) for an axis of length c *)
Definition slice_len (c s : Z) : Z := (c + s - 1) / s.

(* which index of `data` ends up at index i of `new_data` along one axis (c = len(data),
   out = len(new_data)):  new_data[:fill] = data[::stride], then new_data[-1] = data[-1] *)
Definition src_idx (c fill out stride i : Z) : option Z :=
  if i =? out - 1 then Some (c - 1)
  else if i <? fill then Some (i * stride)
  else None.

Definition compress_rkw (h : kws Q) (fq : Q) : option (kws Q) :=
  obind (scale_first comp_scale_keys1 (fun v => comp_scale v fq) h) (fun h1 =>
  obind (scale_first comp_scale_keys2 (fun v => comp_scale v fq) h1) (fun h2 =>
  obind (kupd "CRPIX1" (fun c => comp_crpix1 c fq) h2) (fun h3 =>
  kupd "CRPIX2" (fun c => comp_crpix2 c fq) h3))).

Definition row_src (im : image) (factor i : Z) : option Z :=
  let nx := comp_nx (rows im) (cols im) factor in
  let ny := comp_ny (rows im) (cols im) factor in
  src_idx (rows im) (comp_fill_rows nx ny) (comp_out_rows nx ny) (comp_stride_rows factor) i.

Definition col_src (im : image) (factor j : Z) : option Z :=
  let nx := comp_nx (rows im) (cols im) factor in
  let ny := comp_ny (rows im) (cols im) factor in
  src_idx (cols im) (comp_fill_cols nx ny) (comp_out_cols nx ny) (comp_stride_cols factor) j.

Definition compress_pix (im : image) (factor : Z) : Z -> Z -> Q :=
  fun i j =>
    match row_src im factor i, col_src im factor j with
    | Some a, Some b => pix im a b
    | _, _ => 0%Q     (* left uninitialised by np.empty *)
    end.

Definition compress_ikw (im : image) (factor n1 n2 : Z) : kws Z :=
  let cx := rows im in
  let cy := cols im in
  let nx := comp_nx cx cy factor in
  let ny := comp_ny cx cy factor in
  kset "NAXIS2" (comp_out_rows nx ny)
    (kset "NAXIS1" (comp_out_cols nx ny)
       (ksetall (comp_bn factor n1 n2 (comp_lcx cx cy factor) (comp_lcy cx cy factor)) (ikw im))).

Definition compress (im : image) (factor : Z) : option image :=
  if negb (comp_factor_ok factor) then None else
  let cx := rows im in
  let cy := cols im in
  let nx := comp_nx cx cy factor in
  let ny := comp_ny cx cy factor in
  (* numpy raises when the two sides of new_data[:a, :b] = data[::s, ::t] differ in shape *)
  if negb ((slice_len cx (comp_stride_rows factor) =? Z.min (comp_fill_rows nx ny) (comp_out_rows nx ny))
           && (slice_len cy (comp_stride_cols factor) =? Z.min (comp_fill_cols nx ny) (comp_out_cols nx ny)))
  then None else
  obind (compress_rkw (rkw im) (inject_Z factor)) (fun r =>
  obind (kget "NAXIS1" (ikw im)) (fun n1 =>
  obind (kget "NAXIS2" (ikw im)) (fun n2 =>
  Some {| rows := comp_out_rows nx ny; cols := comp_out_cols nx ny;
          pix := compress_pix im factor;
          ikw := compress_ikw im factor n1 n2;
          rkw := r |}))).

Definition is_compressed (h : kws Z) : bool := forallb (fun k => khas k h) compressed_keys.

Definition expand_rkw (h : kws Q) (fq : Q) : option (kws Q) :=
  obind (kupd "CRPIX1" (fun c => exp_crpix1 c fq) h) (fun h1 =>
  obind (kupd "CRPIX2" (fun c => exp_crpix2 c fq) h1) (fun h2 =>
  obind (scale_first exp_scale_keys1 (fun v => exp_scale v fq) h2) (fun h3 =>
  scale_first exp_scale_keys2 (fun v => exp_scale v fq) h3))).

Definition expand_ikw (h : kws Z) (R C : Z) : kws Z :=
  kset "NAXIS2" R (kset "NAXIS1" C (kdelall exp_deleted h)).

Section WithInterpolator.
Variable rgi : interpolator.

Definition expand (im : image) : option image :=
  if negb (is_compressed (ikw im)) then Some im else
  obind (kget exp_factor_key (ikw im)) (fun factor =>
  obind (kget exp_grid_rows_key (ikw im)) (fun R =>
  obind (kget exp_grid_cols_key (ikw im)) (fun C =>
  obind (kget exp_lcx_key (ikw im)) (fun lcx =>
  obind (kget exp_lcy_key (ikw im)) (fun lcy =>
  let rn := fun k => inject_Z (exp_row_node k lcx lcy factor) in
  let cn := fun k => inject_Z (exp_col_node k lcx lcy factor) in
  (* RegularGridInterpolator raises unless the axes are strictly ascending and every grid point
     0 .. R-1 (0 .. C-1) lies inside them *)
  if negb (axis_ok rn (rows im) 0%Q (inject_Z (R - 1)) && axis_ok cn (cols im) 0%Q (inject_Z (C - 1)))
  then None else
  obind (expand_rkw (rkw im) (inject_Z factor)) (fun r =>
  Some {| rows := R; cols := C;
          pix := fun x y => rgi rn (rows im) cn (cols im) (pix im) (inject_Z x) (inject_Z y);
          ikw := expand_ikw (ikw im) R C;
          rkw := r |})))))).

Definition roundtrip (im : image) (factor : Z) : option image := obind (compress im factor) expand.

End WithInterpolator.

(* the executable instance *)
Definition expand_exec : image -> option image := expand bilinear.
Definition roundtrip_exec : image -> Z -> option image := roundtrip bilinear.

(* ---- reading images in and out for the correspondence run *)
Definition mk_image (den : positive) (data : list (list Z)) (ik : kws Z) (rk : kws Q) : image :=
  {| rows := Z.of_nat (List.length data); cols := Z.of_nat (List.length (hd [] data));
     pix := fun i j => Qmake (nth (Z.to_nat j) (nth (Z.to_nat i) data []) 0) den;
     ikw := ik; rkw := rk |}.

Definition qpair (q : Q) : Z * Z := let r := Qred q in (Qnum r, Zpos (Qden r)).

Definition render (im : image) :=
  (rows im, cols im,
   map (fun i => map (fun j => qpair (pix im i j)) (zrange (cols im))) (zrange (rows im)),
   ikw im, map (fun kv => (fst kv, qpair (snd kv))) (rkw im)).

Definition orender (o : option image) := option_map render o.

(* (compressed, expanded) of one input, both rendered *)
Definition run_roundtrip (im : image) (factor : Z) :=
  let c := compress im factor in (orender c, orender (obind c expand_exec)).

(* ---- probes of the executable interpolator, compared with scipy's RegularGridInterpolator by the
   harness (library-hypothesis validation): axes and values are integers, query points are a / pden *)
Definition axis_of (nodes : list Z) : Z -> Q := fun k => inject_Z (nth (Z.to_nat k) nodes 0).

Definition rgi_probe (rnodes cnodes : list Z) (vals : list (list Z)) (pden : positive) (pts : list (Z * Z))
  : list (Z * Z) :=
  let v := fun i j => inject_Z (nth (Z.to_nat j) (nth (Z.to_nat i) vals []) 0) in
  map (fun p => qpair (bilinear (axis_of rnodes) (Z.of_nat (List.length rnodes))
                                (axis_of cnodes) (Z.of_nat (List.length cnodes)) v
                                (Qmake (fst p) pden) (Qmake (snd p) pden))) pts.

Definition axis_probe (nodes : list Z) (pden : positive) (lo hi : Z) : bool :=
  axis_ok (axis_of nodes) (Z.of_nat (List.length nodes)) (Qmake lo pden) (Qmake hi pden).
