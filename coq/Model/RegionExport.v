(* C12 - executable model of the export routines of AegeanTools.regions.Region
   (write_fits, write_reg, save / load) on top of the Region model of C08.

   The NUNIQ list itself (`uniq`, with the generated loop range uniq_lo .. uniq_hi and the
   generated code 4^(d+1) + x) and the reader's decoding `ununiq` live in Model/RegionModel.v;
   MOCORDER is the generated `mocorder`.  The leaves used here (level range of write_reg, the
   arguments handed to healpy.boundaries, column width, ORDERING keyword) are regenerated from
   regions.py into Gen/RegionExport.v on every run.  healpy.boundaries and pickle are
   parameters (Section variables): they are libraries, never axiomatised. *)
From Coq Require Import ZArith Bool List.
From Aegean Require Import Gen.Regions Gen.RegionExport Model.RegionModel.
Import ListNotations.
Open Scope Z_scope.

(* ---- write_fits: what a reader finds in the file *)
Record moc := mkMoc {
  moc_nuniq : bool;        (* ORDERING = 'NUNIQ' *)
  moc_healpix : bool;      (* PIXTYPE = 'HEALPIX' *)
  moc_icrs : bool;         (* COORDSYS = 'C' *)
  moc_order : Z;           (* MOCORDER *)
  moc_bits : Z;            (* width of the integer column *)
  moc_npix : list Z        (* the column *)
}.
Definition write_fits (s : region) : moc :=
  mkMoc fits_ordering_nuniq fits_pixtype_healpix fits_coordsys_icrs (mocorder (depth s)) fits_column_bits (uniq s).

(* ---- a reader of the file: decode every NUNIQ value, expand to pixels of the stated order *)
Definition decode (m : moc) : list cell := map ununiq (moc_npix m).
Definition moc_pixels (m : moc) : list Z :=
  flat_map (fun c => expand (Z.to_nat (moc_order m - fst c)) (snd c)) (decode m).

(* ---- write_reg: for d in range(reg_lo, reg_hi): for p in pixeldict[d]: one polygon *)
Definition reg_cells (s : region) : list cell :=
  flat_map (fun d => map (pair d) (nodup Z.eq_dec (level (cells s) d)))
           (zrange reg_lo (Z.to_nat (reg_hi (depth s) - reg_lo))).
(* the arguments of healpy.boundaries(nside, pix, step=, nest=) for one stored cell *)
Definition bnd_request (c : cell) : Z * Z * Z * bool :=
  (reg_nside (fst c), reg_pixel (snd c), reg_step, reg_nest).
Definition reg_requests (s : region) : list (Z * Z * Z * bool) := map bnd_request (reg_cells s).

Section WriteReg.
  Variable vertex : Type.
  Variable boundaries : Z -> Z -> Z -> bool -> list vertex.      (* healpy.boundaries *)
  Definition polygon_of (c : cell) : list vertex :=
    let '(n, p, st, ne) := bnd_request c in boundaries n p st ne.
  Definition write_reg (s : region) : list (list vertex) := map polygon_of (reg_cells s).
End WriteReg.

(* ---- save / load: pickle of the object itself *)
Section Pickle.
  Variable blob : Type.
  Variable dump : region -> blob.                                 (* cPickle.dump(self, ..) *)
  Variable load : blob -> region.                                 (* cPickle.load(..) *)
  Definition save_mim (s : region) : blob := dump s.
  Definition load_mim (b : blob) : region := load b.
  (* MIMAS.mim2fits / mim2reg: load the .mim file, then export *)
  Definition mim2fits (b : blob) : moc := write_fits (load_mim b).
  Definition mim2reg (b : blob) : list cell := reg_cells (load_mim b).
End Pickle.

(* ---- observation used by the correspondence check *)
Definition export_obs (s : region) : (list Z * Z) * (list Z * list cell) :=
  ((uniq s, mocorder (depth s)), (moc_pixels (write_fits s), reg_cells s)).
