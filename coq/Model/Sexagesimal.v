(* C17 (strings) - executable, bit-exact model of angle_tools.dec2dms / dec2hms and the field-level
   parse of dec2dec / ra2dec, over the generated leaves of Gen/Sexagesimal.v.
   binary64 is Coq's primitive float (no libm involved: one multiplication, one addition, abs, <).
   No proofs here. *)
From Coq Require Import ZArith Bool List String Ascii Uint63 PrimFloat FloatOps SpecFloat DecimalString.
From Aegean Require Import Gen.Sexagesimal.
Open Scope Z_scope.

(* ---- Python's round() on a float followed by int(): nearest integer, ties to even, exact ---- *)
Definition rhe_mag (m : positive) (e : Z) : Z :=
  if 0 <=? e then Zpos m * 2 ^ e
  else let q := 2 ^ (- e) in
       let k := Zpos m / q in
       let r := Zpos m mod q in
       if 2 * r <? q then k else if q <? 2 * r then k + 1 else if Z.even k then k else k + 1.

(* None for nan / infinities *)
Definition round_half_even (f : float) : option Z :=
  match Prim2SF f with
  | S754_zero _ => Some 0
  | S754_finite s m e => Some (if s then - rhe_mag m e else rhe_mag m e)
  | _ => None
  end.

Definition is_finite (f : float) : bool :=
  match Prim2SF f with S754_zero _ | S754_finite _ _ _ => true | _ => false end.

Definition float_of_Z (z : Z) : float := of_uint63 (Uint63.of_Z z).   (* exact for 0 <= z < 2^53 *)

(* ---- the single rounding step: cs = int(round(x * K)) ---- *)
Definition dms_hundredths (x : float) : option Z :=
  round_half_even (PrimFloat.mul (PrimFloat.abs x) (float_of_Z dms_scale)).
Definition hms_wrapped (x : float) : float :=
  if PrimFloat.ltb x PrimFloat.zero then PrimFloat.add x (float_of_Z hms_wrap) else x.
Definition hms_hundredths (x : float) : option Z :=
  round_half_even (PrimFloat.mul (hms_wrapped x) (float_of_Z hms_scale)).

(* ---- '{:02d}' for a non-negative integer ---- *)
Definition dec2 (n : Z) : string :=
  let s := NilZero.string_of_uint (N.to_uint (Z.to_N n)) in
  if n <? 10 then String "0" s else s.

Definition fields_string (f : Z * Z * Z * Z) : string :=
  let '(a, m, s, c) := f in
  (dec2 a ++ ":" ++ dec2 m ++ ":" ++ dec2 s ++ "." ++ dec2 c)%string.

Definition not_finite_string : string := "XX:XX:XX.XX".
(* x * K overflows only for |x| > 4e302; Python raises OverflowError there *)
Definition overflow_string : string := "OverflowError".

Definition dec2dms (x : float) : string :=
  if negb (is_finite x) then not_finite_string else
  match dms_hundredths x with
  | None => overflow_string
  | Some cs => ((if PrimFloat.ltb x PrimFloat.zero then "-" else "+") ++ fields_string (dms_split cs))%string
  end.

Definition dec2hms (x : float) : string :=
  if negb (is_finite x) then not_finite_string else
  match hms_hundredths x with
  | None => overflow_string
  | Some cs => fields_string (hms_split cs)
  end.

(* what the harness reads back: (hundredths or -1 when there is none, string) *)
Definition dec2dms_obs (x : float) : Z * string :=
  (match (if is_finite x then dms_hundredths x else None) with Some cs => cs | None => -1 end, dec2dms x).
Definition dec2hms_obs (x : float) : Z * string :=
  (match (if is_finite x then hms_hundredths x else None) with Some cs => cs | None => -1 end, dec2hms x).

(* ---- field-level parse (dec2dec on the three fields of a printed string, ra2dec) over R ---- *)
From Coq Require Import Reals.
Definition seconds_field (s c : Z) : R := (IZR s + IZR c / 100)%R.
(* dec2dec of sign d:m:s.c - the negative branch is selected by the sign character *)
Definition parse_dms (neg : bool) (f : Z * Z * Z * Z) : R :=
  let '(d, m, s, c) := f in
  if neg then parse_neg (- IZR d) (IZR m) (seconds_field s c)
  else parse_pos (IZR d) (IZR m) (seconds_field s c).
(* ra2dec of h:m:s.c *)
Definition parse_hms (f : Z * Z * Z * Z) : R :=
  let '(h, m, s, c) := f in ra_of_parse (parse_pos (IZR h) (IZR m) (seconds_field s c)).
