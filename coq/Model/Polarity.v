(* C13 - executable model of the polarity-dependent parts of the source finder.

   (1) SourceFinder.estimate_lmfit_parinfo for ONE island: the island is the row-major list of its
       finite pixels (position inside the island box, background-subtracted value, noise, curvature
       sign).  The model follows the code: isnegative from the largest pixel; island flag from the
       pixel count; either the whole island as the only summit (tiny islands) or the segments of
       the pixels selected by the generated kappa_sigma test of the chosen branch; stable sort by the
       generated key; per summit the first extreme pixel, the signal-to-noise test of the summit
       box, the generated amplitude bounds, the component index, flags and vary switches.
       `segs` (scipy.ndimage.label + find_objects inside _gen_flood_wrap) and `psf_ok` (is the psf
       finite at a position) are arguments: they see positions only.
   (2) the polarity filter at the end of find_sources_in_image, with NaN peaks made explicit.

   All arithmetic leaves come from Gen/Polarity.v.  No proofs here. *)
From Coq Require Import ZArith QArith Qabs Qminmax Bool List.
From Aegean Require Import Lib.QBase Lib.Ext Lib.Graph Gen.Polarity Model.IslandModel.
Import ListNotations.
Open Scope Z_scope.

Record ipx := mkIpx { ip_pos : pix; ip_val : Q; ip_rms : Q; ip_curve : Q }.
Definition island := list ipx.

(* negating image and background negates the values and swaps local maxima and minima *)
Definition neg_ipx (p : ipx) : ipx := mkIpx (ip_pos p) (- ip_val p)%Q (ip_rms p) (- ip_curve p)%Q.
Definition neg_island (isl : island) : island := map neg_ipx isl.

(* the generated leaves the estimate model is built from (Gen/Polarity.v instantiates them below; the
   Refuted/ records instantiate them with frozen copies) *)
Record leaves := mkLeaves {
  l_isneg_test : Q -> bool;
  l_summit_pixel_neg : Q -> Q -> Q -> Q -> bool;
  l_summit_pixel_pos : Q -> Q -> Q -> Q -> bool;
  l_sort_key_pixel : Q -> Q;
  l_amp_neg_uses_min : bool;
  l_peak_neg_uses_argmin : bool;
  l_amp_pos_uses_min : bool;
  l_peak_pos_uses_argmin : bool;
  l_snr_pixel : Q -> Q -> Q;
  l_snr_skip : Q -> Q -> bool;
  l_amp_is_positive : Q -> bool;
  l_amp_min_pos : Q -> Q -> Q -> Q -> Q;
  l_amp_max_pos : Q -> Q -> Q -> Q -> Q;
  l_amp_min_neg : Q -> Q -> Q -> Q -> Q;
  l_amp_max_neg : Q -> Q -> Q -> Q -> Q;
  l_island_flag : Z -> Z;
  l_tiny_island : Z -> Z -> bool;
  l_tiny_flag : Z;
  l_snr_box_lo : Z -> Z;
  l_snr_box_hi : Z -> Z;
  l_maxxed_test : Z -> Z -> bool;
  l_maxxed_flag : Z;
  l_psf_fixed_mask : Z }.

Section Generic.
  Variable L : leaves.

Definition qmaxl (l : list Q) : Q := match l with [] => 0%Q | a :: t => fold_left Qmax t a end.

Definition isnegative (isl : island) : bool := (l_isneg_test L) (qmaxl (map ip_val isl)).

Definition positions (l : island) : list pix := map ip_pos l.
Definition flag0 (isl : island) : Z := (l_island_flag L) (Z.of_nat (length isl)).
Definition is_tiny (shape : Z * Z) (isl : island) : bool :=
  (l_tiny_island L) (Z.min (fst shape) (snd shape)) (flag0 isl).
Definition isl_flag (shape : Z * Z) (isl : island) : Z :=
  if is_tiny shape isl then Z.lor (flag0 isl) (l_tiny_flag L) else flag0 isl.

Definition summit_pixel (neg : bool) (oc : Q) (p : ipx) : bool :=
  if neg then (l_summit_pixel_neg L) (ip_curve p) (ip_val p) (ip_rms p) oc
  else (l_summit_pixel_pos L) (ip_curve p) (ip_val p) (ip_rms p) oc.

(* a summit: its pixels and its box (rmin, rmax, cmin, cmax), max exclusive *)
Definition summit := (list pix * (Z * Z * Z * Z))%type.
Definition summits (segs : list pix -> list (list pix)) (neg : bool) (oc : Q) (shape : Z * Z)
           (isl : island) : list summit :=
  if is_tiny shape isl then [(positions isl, (0, fst shape, 0, snd shape))]
  else map (fun sm => (sm, bbox sm)) (segs (positions (filter (summit_pixel neg oc) isl))).

Definition pix_of (sm : list pix) (isl : island) : island :=
  filter (fun p => existsb (pix_eqb (ip_pos p)) sm) isl.
Definition key (isl : island) (sm : list pix) : Q :=
  qmaxl (map (fun p => (l_sort_key_pixel L) (ip_val p)) (pix_of sm isl)).

(* sorted(..., key=..) is stable: insertion before the first element whose key is not smaller *)
Fixpoint insert {A} (x : Q * A) (l : list (Q * A)) : list (Q * A) :=
  match l with
  | [] => [x]
  | y :: t => if Qleb (fst x) (fst y) then x :: y :: t else y :: insert x t
  end.
Fixpoint isort {A} (l : list (Q * A)) : list (Q * A) :=
  match l with [] => [] | x :: t => insert x (isort t) end.

(* first extreme pixel in row-major order (np.nanargmin / np.nanargmax) *)
Fixpoint pick (use_min : bool) (best : ipx) (l : list ipx) : ipx :=
  match l with
  | [] => best
  | p :: t =>
    pick use_min (if (if use_min then Qltb (ip_val p) (ip_val best) else Qltb (ip_val best) (ip_val p))
                  then p else best) t
  end.

Definition in_box (box : Z * Z * Z * Z) (isl : island) : island :=
  let '(r0, r1, c0, c1) := box in
  filter (fun p => ((l_snr_box_lo L) r0 <=? fst (ip_pos p)) && (fst (ip_pos p) <? (l_snr_box_hi L) r1) &&
                   ((l_snr_box_lo L) c0 <=? snd (ip_pos p)) && (snd (ip_pos p) <? (l_snr_box_hi L) c1)) isl.
Definition box_snr (box : Z * Z * Z * Z) (isl : island) : Q :=
  qmaxl (map (fun p => (l_snr_pixel L) (ip_val p) (ip_rms p)) (in_box box isl)).

Record comp := mkComp { c_amp : Q; c_min : Q; c_max : Q; c_pos : pix; c_index : Z; c_flag : Z;
                        c_vary : bool; c_psf_vary : bool }.

Definition amp_bounds (amp rms ic oc : Q) : Q * Q :=
  if (l_amp_is_positive L) amp then ((l_amp_min_pos L) amp rms ic oc, (l_amp_max_pos L) amp rms ic oc)
  else ((l_amp_min_neg L) amp rms ic oc, (l_amp_max_neg L) amp rms ic oc).

Fixpoint emit (neg : bool) (psf_ok : pix -> bool) (ic oc : Q) (ms : option Z) (flag : Z) (isl : island)
         (l : list summit) (i : Z) : list comp :=
  match l with
  | [] => []
  | (sm, box) :: t =>
    match pix_of sm isl with
    | [] => emit neg psf_ok ic oc ms flag isl t i
    | p0 :: pt =>
      let amp := ip_val (pick (if neg then (l_amp_neg_uses_min L) else (l_amp_pos_uses_min L)) p0 pt) in
      let pk := pick (if neg then (l_peak_neg_uses_argmin L) else (l_peak_pos_uses_argmin L)) p0 pt in
      if (l_snr_skip L) (box_snr box isl) ic then emit neg psf_ok ic oc ms flag isl t i
      else if negb (psf_ok (ip_pos pk)) then emit neg psf_ok ic oc ms flag isl t i
      else
        let b := amp_bounds amp (ip_rms pk) ic oc in
        let maxxed := match ms with Some m => (l_maxxed_test L) i m | None => false end in
        let fl := if maxxed then Z.lor flag (l_maxxed_flag L) else flag in
        let psfv := if negb (Z.land fl (l_psf_fixed_mask L) =? 0) then false else negb maxxed in
        mkComp amp (fst b) (snd b) (ip_pos pk) i fl (negb maxxed) psfv
          :: emit neg psf_ok ic oc ms flag isl t (i + 1)
    end
  end.

Definition estimate (segs : list pix -> list (list pix)) (psf_ok : pix -> bool) (ic oc : Q) (ms : option Z)
           (shape : Z * Z) (isl : island) : list comp :=
  let neg := isnegative isl in
  let ss := summits segs neg oc shape isl in
  let sorted := map snd (isort (map (fun s => (key isl (fst s), s)) ss)) in
  emit neg psf_ok ic oc ms (isl_flag shape isl) isl sorted 0.

End Generic.

Definition gen_leaves : leaves :=
  mkLeaves isneg_test summit_pixel_neg summit_pixel_pos sort_key_pixel amp_neg_uses_min peak_neg_uses_argmin amp_pos_uses_min peak_pos_uses_argmin snr_pixel snr_skip amp_is_positive amp_min_pos amp_max_pos amp_min_neg amp_max_neg island_flag tiny_island tiny_flag snr_box_lo snr_box_hi maxxed_test maxxed_flag psf_fixed_mask.

(* scipy.ndimage.label with the default structure: classes of the 4-neighbour graph, in order of
   their first pixel (library hypothesis validated by the harness on every case) *)
Definition adj4 (p q : pix) : bool := Z.abs (fst p - fst q) + Z.abs (snd p - snd q) =? 1.
Definition segs4 (l : list pix) : list (list pix) := components pix pix_eqb adj4 l.

(* what the sign symmetry asks of the estimates of the negated island *)
Definition mirror_of (c c' : comp) : Prop :=
  c_amp c' = (- c_amp c)%Q /\ (c_min c' == - c_max c)%Q /\ (c_max c' == - c_min c)%Q /\
  c_pos c' = c_pos c /\ c_index c' = c_index c /\ c_flag c' = c_flag c /\
  c_vary c' = c_vary c /\ c_psf_vary c' = c_psf_vary c.

Definition single_signed (isl : island) : Prop :=
  (forall p, In p isl -> (0 < ip_val p)%Q) \/ (forall p, In p isl -> (ip_val p < 0)%Q).

(* observation for the correspondence check *)
Definition qpair (q : Q) : Z * Z := (Qnum q, Zpos (Qden q)).
Definition obs_comp (c : comp) :=
  (qpair (c_amp c), qpair (c_min c), qpair (c_max c), c_pos c, (c_index c, c_flag c), (c_vary c, c_psf_vary c)).
Definition obs_estimate (ic oc : Q) (ms : option Z) (shape : Z * Z) (isl : island) :=
  (isnegative gen_leaves isl, map obs_comp (estimate gen_leaves segs4 (fun _ => true) ic oc ms shape isl)).

(* ---------------------------------------------------------------------------------------------
   polarity filter.  A catalogue row carries its peak flux: Some q (finite) or None (NaN; every
   comparison with NaN is false). *)
Definition peak_tests (p : option Q) : bool * bool :=
  match p with Some q => (peak_gt0 q, peak_lt0 q) | None => (false, false) end.
Definition kept (nopos noneg : bool) (p : option Q) : bool :=
  negb (filter_drop (fst (peak_tests p)) (snd (peak_tests p)) nopos noneg).

Section Catalogue.
  Variable row : Type.
  Variable peak : row -> option Q.
  Definition catalogue (nopos noneg : bool) (l : list row) : list row :=
    filter (fun s => kept nopos noneg (peak s)) l.
End Catalogue.

(* l is an order-preserving interleaving of l1 and l2 *)
Inductive interleave {A} : list A -> list A -> list A -> Prop :=
| il_nil : interleave [] [] []
| il_left : forall x l1 l2 l, interleave l1 l2 l -> interleave (x :: l1) l2 (x :: l)
| il_right : forall x l1 l2 l, interleave l1 l2 l -> interleave l1 (x :: l2) (x :: l).

Definition finite_nonzero (p : option Q) : Prop := exists q, p = Some q /\ ~ (q == 0)%Q.
Definition is_pos (p : option Q) : Prop := exists q, p = Some q /\ (0 < q)%Q.
Definition is_neg (p : option Q) : Prop := exists q, p = Some q /\ (q < 0)%Q.

(* ---------------------------------------------------------------------------------------------
   curvature map of _fit_island for one pixel: w = the pixels of its filter window (centre included,
   in any order), c = the pixel itself; maxf / minf = scipy.ndimage.maximum_filter / minimum_filter on
   one window (arguments: with NaN in a window their result is an implementation detail of scipy). *)
Definition curve_at (pf tf : fill) (pv tv : Z) (tlast : bool) (maxf minf : list ev -> ev)
           (w : list ev) (c : ev) : Z :=
  let p := ev_eqb (maxf (map (apply_fill pf) w)) (apply_fill pf c) in
  let t := ev_eqb (minf (map (apply_fill tf) w)) (apply_fill tf c) in
  if tlast then (if t then tv else if p then pv else 0)
  else (if p then pv else if t then tv else 0).
(* a pixel that is at the same time the maximum and the minimum of its window (flat patch) *)
Definition plateau_at (pf tf : fill) (maxf minf : list ev -> ev) (w : list ev) (c : ev) : bool :=
  ev_eqb (maxf (map (apply_fill pf) w)) (apply_fill pf c) &&
  ev_eqb (minf (map (apply_fill tf) w)) (apply_fill tf c).
Definition curve_gen := curve_at curv_peak_fill curv_trough_fill curv_peak_value curv_trough_value
                                 curv_trough_written_last.
Definition plateau_gen := plateau_at curv_peak_fill curv_trough_fill.
