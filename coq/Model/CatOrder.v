(* The order of catalogue rows (C03 extension).  Python's sorted() uses only __lt__; on components that is
   Gen.CatOrder.comp_lt on the (island, source) pair.  A row is represented by that pair: in a valid catalogue the pairs
   are unique (C03_blind_ids_unique / C03_priorized_ids_unique), so a row is identified by it.
   py_sorted is insertion by __lt__ - for a strict total order every sorting algorithm that only asks __lt__ (timsort
   included) returns the same list, which is what Theorem C03_sorted_is_the_ascending_permutation states. *)
From Coq Require Import ZArith Bool List.
From Aegean Require Import Gen.CatOrder.
Import ListNotations.
Open Scope Z_scope.

Definition key := (Z * Z)%type.
Definition klt (a b : key) : bool := comp_lt (fst a) (snd a) (fst b) (snd b).
Fixpoint insert (x : key) (l : list key) : list key :=
  match l with [] => [x] | y :: t => if klt x y then x :: y :: t else y :: insert x t end.
Definition py_sorted (l : list key) : list key := fold_right insert [] l.

(* what priorized_fit_islands returns, given the rows in the order the batches produced them *)
Definition priorized_output (rows : list key) : list key := if priorized_output_sorted then py_sorted rows else rows.
