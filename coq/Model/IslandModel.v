(* C02 / C11 / C13 - executable model of source_finder.find_islands.

   Pixels carry integer-valued im / bkg / rms (None = NaN); thresholds are fractions.
   scipy.ndimage.label with the 3x3 structure is Graph.components of the 8-neighbour graph
   on the pixels that pass the flood test (a library hypothesis validated on every run).
   Leaves (snr numerator, flood/seed comparisons, seed scope, mask comparison, region test
   coordinates and origin) come from Gen/Islands.v. *)
From Coq Require Import ZArith Bool List Lia.
From Aegean Require Import Gen.Islands Lib.Graph.
Import ListNotations.
Open Scope Z_scope.

Definition pix := (Z * Z)%type.                       (* (row, column), 0-based array indices *)
Record pixel := mkPixel { p_im : option Z; p_bkg : option Z; p_rms : option Z }.
Definition image := list (list pixel).
Record clip := mkClip { c_num : Z; c_den : Z }.      (* threshold c_num / c_den, c_den > 0 *)

Definition pix_eqb (p q : pix) : bool := (fst p =? fst q) && (snd p =? snd q).

Definition get (img : image) (p : pix) : option pixel :=
  if (fst p <? 0) || (snd p <? 0) then None
  else match nth_error img (Z.to_nat (fst p)) with
       | Some row => nth_error row (Z.to_nat (snd p))
       | None => None
       end.

(* signal-to-noise as (numerator, denominator); None when any input is NaN *)
Definition snr_of (px : pixel) : option (Z * Z) :=
  match p_im px, p_bkg px, p_rms px with
  | Some i, Some b, Some r => Some (snr_num i b, r)
  | _, _, _ => None
  end.
Definition snr (img : image) (p : pix) : option (Z * Z) :=
  match get img p with Some px => snr_of px | None => None end.

Definition flood_ok (img : image) (fl : clip) (p : pix) : bool :=
  match snr img p with Some (n, d) => flood_test n d (c_num fl) (c_den fl) | None => false end.
Definition seed_ok (img : image) (sd : clip) (p : pix) : bool :=
  match snr img p with Some (n, d) => seed_test n d (c_num sd) (c_den sd) | None => false end.

Fixpoint zseq (lo : Z) (n : nat) : list Z :=
  match n with O => [] | S n' => lo :: zseq (lo + 1) n' end.
(* all pixel positions, row-major *)
Definition all_pixels (img : image) : list pix :=
  flat_map (fun rr : Z * list pixel => map (fun c => (fst rr, c)) (zseq 0 (length (snd rr))))
           (combine (zseq 0 (length img)) img).

Definition adj (p q : pix) : bool :=
  (Z.abs (fst p - fst q) <=? conn_reach) && (Z.abs (snd p - snd q) <=? conn_reach).

Definition nodes (img : image) (fl : clip) : list pix := filter (flood_ok img fl) (all_pixels img).
Definition groups (img : image) (fl : clip) : list (list pix) :=
  components pix pix_eqb adj (nodes img fl).

(* bounding box (rmin, rmax, cmin, cmax), max exclusive - what find_objects returns *)
Definition bbox (I : list pix) : Z * Z * Z * Z :=
  match I with
  | [] => (0, 0, 0, 0)
  | p :: t =>
    (fold_right Z.min (fst p) (map fst t), fold_right Z.max (fst p) (map fst t) + 1,
     fold_right Z.min (snd p) (map snd t), fold_right Z.max (snd p) (map snd t) + 1)
  end.
Definition box_pixels (b : Z * Z * Z * Z) : list pix :=
  let '(r0, r1, c0, c1) := b in
  flat_map (fun r => map (fun c => (r, c)) (zseq c0 (Z.to_nat (c1 - c0)))) (zseq r0 (Z.to_nat (r1 - r0))).

Definition seed_scope (I : list pix) : list pix :=
  if seed_scope_own then I else box_pixels (bbox I).

Definition islands (img : image) (fl sd : clip) : list (list pix) :=
  filter (fun I => existsb (seed_ok img sd) (seed_scope I)) (groups img fl).

(* the island mask inside the box: true = blanked *)
Definition mask_at (img : image) (fl : clip) (I : list pix) (p : pix) : bool :=
  match snr img p with
  | Some (n, d) => mask_below_flood n d (c_num fl) (c_den fl)
  | None => false
  end || negb (existsb (pix_eqb p) I).
Definition unmasked (img : image) (fl : clip) (I : list pix) : list pix :=
  filter (fun p => negb (mask_at img fl I p)) (box_pixels (bbox I)).

(* ---- region-restricted finding (C11).  inside x y : is the sky position of the FITS
   (1-based) pixel (x = column+1, y = row+1) in the region; wcs_pix2world(p, origin) maps
   p to the position of FITS pixel p + 1 - origin *)
Definition region_ok (inside : Z -> Z -> bool) (I : list pix) : bool :=
  let '(r0, _, c0, _) := bbox I in
  existsb (fun p => inside (region_first (fst p - r0) (snd p - c0) r0 c0 + 1 - region_origin)
                           (region_second (fst p - r0) (snd p - c0) r0 c0 + 1 - region_origin)) I.
Definition islands_region (img : image) (fl sd : clip) (inside : Z -> Z -> bool) : list (list pix) :=
  filter (region_ok inside) (islands img fl sd).

(* ---- negation (C13) *)
Definition neg_pixel (px : pixel) : pixel :=
  mkPixel (option_map Z.opp (p_im px)) (option_map Z.opp (p_bkg px)) (p_rms px).
Definition neg_image (img : image) : image := map (map neg_pixel) img.

(* ---- observation for the correspondence check: (bbox, own pixels, unmasked pixels) *)
Definition obs_island (img : image) (fl : clip) (I : list pix) : (Z * Z * Z * Z) * list pix * list pix :=
  (bbox I, I, unmasked img fl I).
Definition obs (img : image) (fl sd : clip) := map (obs_island img fl) (islands img fl sd).
Definition obs_region (img : image) (fl sd : clip) (inside : Z -> Z -> bool) :=
  map (obs_island img fl) (islands_region img fl sd inside).

(* well-formed inputs of the theorems: positive noise, positive threshold denominators *)
Definition rms_pos (img : image) : Prop :=
  forall p px r, get img p = Some px -> p_rms px = Some r -> 0 < r.
Definition clip_ok (c : clip) : Prop := 0 < c_den c.
Definition clip_le (a b : clip) : Prop := c_num a * c_den b <= c_num b * c_den a.
