(* C08 (extension) - executable model of MIMAS.combine_regions / MIMAS.intersect_regions (and save_region, which is the
   identity on the model: Region.save / Region.load are the SaveLoad operation of Model/RegionModel.v).

   A container (AegeanTools.MIMAS.Dummy, or the argparse result of AegeanTools/CLI/MIMAS.py) is modelled AFTER the
   file system and healpy have answered:
     - a +r / -r entry is the region stored in the named file (Region.load),
     - a +c / -c entry (a circle) and a +p / -p entry (a polygon) is the list of pixels that healpy.query_disc /
       query_polygon returns at the level the shape is inserted at; because the `-g` flag changes the coordinates handed
       to healpy, a shape carries TWO answers: `plain` (coordinates taken as FK5) and `conv` (coordinates after
       galactic2fk5).  Which one a stage uses is decided by the container's galactic flag and by the generated constant
       that says whether the stage contains the `if container.galactic:` conversion at all.
   combine_regions becomes a list of operations of Model/RegionModel.v, built stage by stage in the ORDER that the
   translator reads off MIMAS.py (Gen/Combine.v: combine_stages), and run from the empty region.  Python raises
   AssertionError when `without` / `intersect` meet an operand of another depth and the whole call is aborted:
   run_strict stops with None there.  No proofs in this file. *)
From Coq Require Import ZArith Bool List.
From Aegean Require Import Gen.Regions Gen.Combine Model.RegionModel Model.RegionSpec.
Import ListNotations.
Open Scope Z_scope.

Record shape := mkShape { plain : list Z; conv : list Z }.

Record container := mkContainer {
  maxdepth : Z;
  galactic : bool;
  add_region : list region;
  rem_region : list region;
  include_circles : list shape;
  exclude_circles : list shape;
  include_polygons : list shape;
  exclude_polygons : list shape }.

(* the pixels healpy answers for a shape in a stage *)
Definition pick (g stage_converts : bool) (sh : shape) : list Z :=
  if g && stage_converts then conv sh else plain sh.

(* r2 = Region(d); r2.add_circles(..) / r2.add_poly(..)   (ins = the level the shape is inserted at) *)
Definition fresh (d ins : Z) (ps : list Z) : region := fst (step (init d) (AddShape ins ps)).

(* the operations of one stage; stage codes as in Gen/Combine.v *)
Definition stage_ops (c : container) (code : Z) : list op :=
  let D := maxdepth c in
  let g := galactic c in
  let R := combine_result_depth D in
  match code with
  | 1 => map (fun r => Union r combine_union_renorm) (add_region c)
  | 2 => map Without (rem_region c)
  | 3 => map (fun sh => AddShape (circle_insert_depth R) (pick g galactic_incl_circles sh)) (include_circles c)
  | 4 => map (fun sh => Without (fresh (excl_circle_depth D) (circle_insert_depth (excl_circle_depth D))
                                       (pick g galactic_excl_circles sh))) (exclude_circles c)
  | 5 => map (fun sh => AddShape (poly_insert_depth R) (pick g galactic_incl_polygons sh)) (include_polygons c)
  | 6 => map (fun sh => Without (fresh (excl_poly_depth D) (poly_insert_depth (excl_poly_depth D))
                                       (pick g galactic_excl_polygons sh))) (exclude_polygons c)
  | _ => []
  end.

Definition combine_ops_order (order : list Z) (c : container) : list op := flat_map (stage_ops c) order.
Definition combine_ops : container -> list op := combine_ops_order combine_stages.

(* a call that raises aborts the whole function *)
Definition is_err (r : out) : bool := match r with OErr => true | _ => false end.
Fixpoint run_strict (s : region) (ops : list op) : option region :=
  match ops with
  | [] => Some s
  | o :: rest => let '(s', r) := step s o in if is_err r then None else run_strict s' rest
  end.

Definition combine_order (order : list Z) (c : container) : option region :=
  run_strict (init (combine_result_depth (maxdepth c))) (combine_ops_order order c).
(* MIMAS.combine_regions : None = AssertionError("Regions must have the same maxdepth") *)
Definition combine (c : container) : option region := combine_order combine_stages c.

(* MIMAS.intersect_regions *)
Inductive ires :=
| ITooFew                (* Exception("Require at least two regions to perform intersection") *)
| IIndex                 (* IndexError from flist[i] *)
| IDepth                 (* AssertionError from Region.intersect *)
| IOk (s : region).
Definition intersect_regions (fl : list region) : ires :=
  if Z.of_nat (length fl) <? intersect_min_files then ITooFew
  else match nth_error fl (Z.to_nat intersect_base_index) with
       | None => IIndex
       | Some a => match run_strict a (map Intersect (skipn (Z.to_nat intersect_rest_from) fl)) with
                   | Some s => IOk s
                   | None => IDepth
                   end
       end.

(* ---- observations used by the correspondence check: stored pixels per level and get_demoted of the result *)
Definition region_obs (s : region) : list (list Z) * list Z := (obs_levels s, snd (get_demoted s)).
Definition combine_obs (c : container) : option (list (list Z) * list Z) :=
  match combine c with Some s => Some (region_obs s) | None => None end.
(* code 0 = region, 1 = too few files, 2 = AssertionError, 3 = IndexError *)
Definition intersect_obs (fl : list region) : Z * (list (list Z) * list Z) :=
  match intersect_regions fl with
  | IOk s => (0, region_obs s)
  | ITooFew => (1, ([], []))
  | IDepth => (2, ([], []))
  | IIndex => (3, ([], []))
  end.

(* ---- specification (sets of depth-D pixels as predicates; nothing executable) *)
(* union of the sky covered by a list of operand regions, seen at depth D: coarser cells stand for their descendants,
   cells finer than D for their depth-D ancestor (RegionSpec.cover) *)
Definition sky_of (D : Z) (rs : list region) (q : Z) : Prop :=
  exists r, In r rs /\ cover_set D (cells r) q.
Definition pixels_of (pss : list (list Z)) (q : Z) : Prop := exists ps, In ps pss /\ In q ps.

Definition circles_in (c : container) := map (pick (galactic c) galactic_incl_circles) (include_circles c).
Definition circles_out (c : container) := map (pick (galactic c) galactic_excl_circles) (exclude_circles c).
Definition polygons_in (c : container) := map (pick (galactic c) galactic_incl_polygons) (include_polygons c).
Definition polygons_out (c : container) := map (pick (galactic c) galactic_excl_polygons) (exclude_polygons c).

(* "add regions, subtract regions, add circles, subtract circles, add polygons, subtract polygons", left to right *)
Definition combine_spec (c : container) (q : Z) : Prop :=
  let D := maxdepth c in
  (((((sky_of D (add_region c) q /\ ~ sky_of D (rem_region c) q)
      \/ pixels_of (circles_in c) q) /\ ~ pixels_of (circles_out c) q)
    \/ pixels_of (polygons_in c) q) /\ ~ pixels_of (polygons_out c) q).

(* what the documentation of the -g flag promises ("all ra/dec coordinates will be interpreted as if they were in
   galactic lat/lon"): every shape stage converts *)
Definition pixels_intended (g : bool) (shs : list shape) := map (pick g true) shs.
Definition combine_spec_documented (c : container) (q : Z) : Prop :=
  let D := maxdepth c in
  let g := galactic c in
  (((((sky_of D (add_region c) q /\ ~ sky_of D (rem_region c) q)
      \/ pixels_of (pixels_intended g (include_circles c)) q) /\ ~ pixels_of (pixels_intended g (exclude_circles c)) q)
    \/ pixels_of (pixels_intended g (include_polygons c)) q) /\ ~ pixels_of (pixels_intended g (exclude_polygons c)) q).
