(* C01 - which islands get the six-parameter fit.  Hand-written skeleton over the generated leaves of Gen/SmallIsland.v
   (estimate_lmfit_parinfo: is_flag from the number of finite pixels, the tiny-island test, psf_vary = not FIXED2PSF;
   _fit_island: NOTFIT when there are fewer pixels than varying parameters).  No proofs here.
   npix: finite pixels of the island; mindim: the smaller side of its bounding box; ncomp: components (summits) of the island,
   none cut off by max_summits. *)
From Coq Require Import ZArith NArith Bool List.
From Aegean Require Import Gen.SmallIsland.
Import ListNotations.
Open Scope Z_scope.

Definition si_has (f m : N) : bool := negb (N.land f m =? 0)%N.
Definition fit_flags (npix mindim ncomp : Z) : N :=
  let f0 := si_small_flag npix in
  let tiny := si_tiny_dim mindim || existsb (si_has f0) si_tiny_masks in
  let f1 := if tiny then N.lor f0 si_FIXED2PSF else f0 in
  let nfree := ncomp * (if si_has f1 si_FIXED2PSF then 3 else 6) in
  if si_cannot_fit npix nfree then N.lor f1 si_NOTFIT else f1.
(* the shape parameters sx, sy, theta of every component vary in the fit *)
Definition shape_fitted (npix mindim ncomp : Z) : bool :=
  negb (si_has (fit_flags npix mindim ncomp) si_FIXED2PSF) && negb (si_has (fit_flags npix mindim ncomp) si_NOTFIT).
