(* C18 - catalogue writers and the loader of AegeanTools/catalogs.py + models.py.
   Hand-written executable model over the generated leaves of Gen/Catalog.v (no proofs here).

   What is modelled (Aegean's own logic): the three source classes and classify_catalog (order of
   the isinstance tests over the class hierarchy), file naming (_comp/_isle/_simp before the
   extension; os.path.splitext is modelled executably and validated against Python on every run),
   the writer chosen per extension, table construction from the `names` lists (column order,
   prefix, galactic renaming, getattr(c, name, None)), FITS column typing, the loader
   table_to_source_list, writeDB / nulls.

   What is NOT modelled: the file formats (astropy / sqlite3).  A cell holding a float is an
   element of an abstract type F: Aegean's code never inspects a float on these paths. *)
From Coq Require Import ZArith Bool List String Ascii Lia.
From Aegean Require Import Gen.Catalog.
Import ListNotations.
Open Scope string_scope.
Open Scope Z_scope.

(* ---------------------------------------------------------------- strings *)
Definition la := list_ascii_of_string.
Definition sl := string_of_list_ascii.

Definition startswith (p s : string) : bool := prefix p s.
Definition endswith (p s : string) : bool := prefix (sl (rev (la p))) (sl (rev (la s))).
(* s[n:]  and  s[:-n] *)
Definition drop (n : nat) (s : string) : string := sl (skipn n (la s)).
Definition drop_end (n : nat) (s : string) : string := sl (firstn (String.length s - n) (la s)).

Definition lower_ascii (c : ascii) : ascii :=
  let n := nat_of_ascii c in
  if (65 <=? n)%nat && (n <=? 90)%nat then ascii_of_nat (n + 32) else c.
Definition lower (s : string) : string := sl (map lower_ascii (la s)).

Definition str_in (x : string) (l : list string) : bool := existsb (String.eqb x) l.

Fixpoint assoc {A} (k : string) (l : list (string * A)) : option A :=
  match l with
  | [] => None
  | (k', v) :: t => if String.eqb k k' then Some v else assoc k t
  end.

(* first entry of a dispatch chain whose extension list contains e *)
Fixpoint lookup_disp {A} (d : list (list string * A)) (e : string) : option A :=
  match d with
  | [] => None
  | (exts, a) :: t => if str_in e exts then Some a else lookup_disp t e
  end.

(* ---------------------------------------------------------------- os.path.splitext (posix) *)
Definition is_sep (c : ascii) : bool := Ascii.eqb c "/"%char.
Definition is_dot (c : ascii) : bool := Ascii.eqb c "."%char.

Fixpoint rfind_aux (p : ascii -> bool) (l : list ascii) (i : nat) (best : option nat) : option nat :=
  match l with
  | [] => best
  | c :: t => rfind_aux p t (S i) (if p c then Some i else best)
  end.
Definition rfind p l := rfind_aux p l 0%nat None.

Definition splitext_l (p : list ascii) : list ascii * list ascii :=
  let start := match rfind is_sep p with Some i => S i | None => 0%nat end in
  match rfind is_dot p with
  | Some d =>
      if (start <=? d)%nat
      then if existsb (fun c => negb (is_dot c)) (firstn (d - start) (skipn start p))
           then (firstn d p, skipn d p) else (p, [])
      else (p, [])
  | None => (p, [])
  end.
Definition splitext (p : string) : string * string :=
  let '(r, e) := splitext_l (la p) in (sl r, sl e).

(* the extension used for dispatching: splitext(filename)[1][1:].lower() *)
Definition extension_of (lowered : bool) (filename : string) : string :=
  let e := drop 1 (snd (splitext filename)) in if lowered then lower e else e.

(* "{1}{0}{2}".format(suffix, root, ext) with the generated layout *)
Definition out_name (suffix filename : string) : string :=
  let '(root, ext) := splitext filename in
  concat "" (map (fun i => nth (Z.to_nat i) [suffix; root; ext] "") name_layout).

(* ---------------------------------------------------------------- writer chosen per extension *)
Inductive writer := WAnn | WDB | WTable (fmt : string).
Definition save_writer (ext : string) : writer :=
  match lookup_disp save_dispatch ext with
  | Some 0 => WAnn
  | Some 1 => WDB
  | Some 2 => WTable ext
  | Some 3 => WTable (match assoc ext ascii_table_formats with Some f => f | None => "" end)
  | _ => WTable save_fallback_fmt
  end.
(* back end inside write_catalog.writer: 0 VOTable, 1 hdf5, 2 writeFITSTable, 3 astropy.io.ascii(fmt) *)
Definition table_backend (fmt : string) : Z :=
  match lookup_disp writer_dispatch fmt with Some b => b | None => 3 end.
Definition writer_code (w : writer) : Z * string :=
  match w with WAnn => (-2, "") | WDB => (-1, "") | WTable f => (table_backend f, f) end.

(* load_table: Some 0 ascii.read, Some 1 Table.read, None raises *)
Definition load_reader (ext : string) : option Z :=
  match lookup_disp load_dispatch ext with
  | Some r => if str_in ext table_formats then Some r else None
  | None => None
  end.

(* ---------------------------------------------------------------- class hierarchy, classify *)
Definition parent_of (c : Z) : Z := nth (Z.to_nat c) class_parent (-1).
Fixpoint is_sub (fuel : nat) (c k : Z) : bool :=
  (c =? k) || match fuel with
              | O => false
              | S f => let p := parent_of c in if p <? 0 then false else is_sub f p k
              end.
(* class codes outside 0..2 stand for objects that are not sources *)
Definition isinstance (c k : Z) : bool := (0 <=? c) && (c <? 3) && is_sub 3 c k.

Fixpoint classify_one (tests : list (Z * Z)) (c : Z) : option Z :=
  match tests with
  | [] => None
  | (k, slot) :: t => if isinstance c k then Some slot else classify_one t c
  end.

Definition names_of_class (c : Z) : list string :=
  if c =? 2 then names_component else if c =? 1 then names_island else names_simple.

(* galactic renaming of one column name: first matching rule *)
Fixpoint rename_with (rules : list (bool * string * string)) (name : string) : string :=
  match rules with
  | [] => name
  | (true, pat, rep) :: t =>
      if startswith pat name then rep ++ drop (String.length pat) name else rename_with t name
  | (false, pat, rep) :: t =>
      if endswith pat name then drop_end (String.length pat) name ++ rep else rename_with t name
  end.
Definition rename := rename_with galactic_rules.
Definition pre_string (pre : option string) : string :=
  match pre with None => "" | Some p => p ++ prefix_sep end.
Definition col_name (pre : option string) (galactic : bool) (name : string) : string :=
  pre_string pre ++ (if galactic then rename name else name).

Section Cells.
Variable F : Type.
Variable nan : F.
(* python's `float == int` (only used by nulls) *)
Variable flt_eq_int : F -> Z -> bool.

(* CMasked is numpy.ma.masked: what astropy returns for a NaN (VOTable, FITS) or an empty string (ascii, FITS) *)
Inductive cell := CBool (b : bool) | CInt (z : Z) | CFlt (f : F) | CStr (s : string) | CNone | CList | CMasked.

Record source := { s_class : Z; s_galactic : bool; s_attr : list (string * cell) }.

Definition getattr (s : source) (n : string) : cell :=
  match assoc n (s_attr s) with Some c => c | None => CNone end.
Definition setattr (s : source) (n : string) (v : cell) : source :=
  {| s_class := s_class s; s_galactic := s_galactic s; s_attr := (n, v) :: s_attr s |}.
Definition as_list (s : source) : list cell := map (getattr s) (names_of_class (s_class s)).

(* classify_catalog: one pass, appending to one of three lists; returns them in classify_return order *)
Definition slots := (list source * list source * list source)%type.
Definition classify_step (acc : slots) (x : source) : slots :=
  let '(a, b, c) := acc in
  match classify_one classify_tests (s_class x) with
  | Some 0 => ((a ++ [x])%list, b, c)
  | Some 1 => (a, (b ++ [x])%list, c)
  | Some 2 => (a, b, (c ++ [x])%list)
  | _ => acc
  end.
Definition pick (s : slots) (i : Z) : list source :=
  let '(a, b, c) := s in if i =? 0 then a else if i =? 1 then b else c.
Definition classify (cat : list source) : list (list source) :=
  map (pick (fold_left classify_step cat ([], [], []))) classify_return.

(* ------------------------------------------------------------ write_catalog *)
Definition table := list (string * list cell).

Definition build_table (pre : option string) (cat : list source) : table :=
  match cat with
  | [] => []
  | s0 :: _ => map (fun n => (col_name pre (s_galactic s0) n, map (fun s => getattr s n) cat))
                   (names_of_class (s_class s0))
  end.

(* the files written by write_catalog: (file name, sources in it) per block, in block order *)
Definition write_files (filename : string) (cat : list source) : list (string * list source) :=
  let cl := classify cat in
  flat_map (fun '(slot, suffix) =>
              let l := nth (Z.to_nat slot) cl [] in
              if write_min_len <=? Z.of_nat (List.length l) then [(out_name suffix filename, l)] else [])
           write_blocks.

(* ------------------------------------------------------------ writeFITSTable column typing *)
Inductive fitsfmt := FL | FJ | FE | FA (w : nat).

Definition cell_isinstance (c : cell) (t : Z) : bool :=
  match c with
  | CBool _ => (t =? 0) || (t =? 1)
  | CInt _ => t =? 1
  | CFlt _ => t =? 2
  | CStr _ => t =? 3
  | _ => false
  end.
Definition cell_len (c : cell) : nat := match c with CStr s => String.length s | _ => 0%nat end.
Definition max_len (col : list cell) : nat := fold_right (fun c m => Nat.max (cell_len c) m) 0%nat col.

Fixpoint fits_table_type (chain : list (Z * Z)) (c : cell) : fitsfmt :=
  match chain with
  | [] => FA (Z.to_nat fits_fallback_width)
  | (t, f) :: rest =>
      if cell_isinstance c t
      then (if f =? 0 then FL else if f =? 1 then FJ else if f =? 2 then FE else FA (cell_len c))
      else fits_table_type rest c
  end.

Definition first_cell (col : list cell) : cell := hd CNone col.

(* the two booleans are the generated leaves fits_str_first_rule / fits_width_all_rows *)
Definition fits_format_gen (str_first width_all : bool) (name : string) (col : list cell) : fitsfmt :=
  if startswith fits_err_prefix name then FE
  else if String.eqb name fits_uuid_name || (str_first && cell_isinstance (first_cell col) 3)
       then FA (if width_all then Nat.max (Z.to_nat fits_min_width) (max_len col) else cell_len (first_cell col))
       else fits_table_type fits_type_chain (first_cell col).
Definition fits_format := fits_format_gen fits_str_first_rule fits_width_all_rows.
Definition fits_formats (t : table) : list (string * fitsfmt) :=
  map (fun '(n, col) => (n, fits_format n col)) t.

(* ------------------------------------------------------------ table_to_source_list *)
Definition default_cell (uuid : string) (code : Z) : cell :=
  if code =? 0 then CFlt nan else if code =? 1 then CInt 0 else if code =? 2 then CStr ""
  else if code =? 3 then CStr uuid else CList.
Definition init_of_class (c : Z) : list (string * Z) :=
  if c =? 2 then init_component else if c =? 1 then init_island else [].
(* later assignments shadow earlier ones: the subclass initialiser runs after SimpleSource.__init__ *)
Definition default_source (c : Z) (uuid : string) : source :=
  {| s_class := c; s_galactic := false;
     s_attr := map (fun '(n, code) => (n, default_cell uuid code)) (rev (init_simple ++ init_of_class c)%list) |}.

Definition nrows (t : table) : nat := match t with [] => 0%nat | (_, c) :: _ => List.length c end.

Definition is_masked (c : cell) : bool := match c with CMasked => true | _ => false end.
(* one step of the copy loop: `if param in table.colnames: val = row[param]; [if val is masked: continue]; setattr` *)
Definition load_step (t : table) (i : nat) (s : source) (p : string) : source :=
  match assoc p t with
  | Some col => let v := nth i col CNone in
                if loader_skips_masked && is_masked v then s else setattr s p v
  | None => s
  end.
Definition load_row (c : Z) (t : table) (i : nat) (dflt : source) : source :=
  fold_left (load_step t i) (names_of_class c) dflt.
Definition table_to_source_list (c : Z) (uuids : nat -> string) (t : table) : list source :=
  map (fun i => load_row c t i (default_source c (uuids i))) (seq 0 (nrows t)).

(* ------------------------------------------------------------ writeDB *)
Inductive pyval := VCell (c : cell) | VRow (r : list cell) | VNone.
Definition cell_is_marker (c : cell) : bool :=
  match c with
  | CInt z => z =? nulls_marker
  | CFlt f => flt_eq_int f nulls_marker
  | CBool b => (if b then 1 else 0) =? nulls_marker
  | _ => false
  end.
(* nulls(x): None when x == -1.  A list never compares equal to -1 *)
Definition nulls (x : pyval) : pyval :=
  match x with
  | VCell c => if cell_is_marker c then VNone else x
  | _ => x
  end.
(* a row as handed to executemany: None cells are NULL *)
Definition db_row (s : source) : list (option cell) :=
  if db_nulls_on_rows
  then match nulls (VRow (as_list s)) with VRow r => map Some r | _ => [] end
  else map (fun c => match nulls (VCell c) with VCell c' => Some c' | _ => None end) (as_list s).
(* tables written: (table name, column names, rows) for every non-empty class list *)
Definition db_tables (cat : list source) : list (string * list string * list (list (option cell))) :=
  flat_map (fun '(l, tn) => match l with
                            | [] => []
                            | s0 :: _ => [(tn, names_of_class (s_class s0), map db_row l)]
                            end)
           (combine (classify cat) db_table_names).

End Cells.

Arguments CBool {F}. Arguments CInt {F}. Arguments CFlt {F}. Arguments CStr {F}. Arguments CNone {F}. Arguments CList {F}. Arguments CMasked {F}.
Arguments s_class {F}. Arguments s_galactic {F}. Arguments s_attr {F}.
Arguments VCell {F}. Arguments VRow {F}. Arguments VNone {F}.
