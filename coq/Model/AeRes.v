(* C14 - AeRes: catalogue -> model image, mask image, residual.
   Hand-written skeleton of AeRes.make_model / make_residual / load_sources over the generated
   leaves of Gen/AeRes.v (ell_args, skip_x, skip_y, window, px_model, m_init, accum,
   mask_frac_hit, mask_sigma_hit, residual_px, rename_from, rename_to) and Gen/Gauss.v (gauss).
   No proofs here.

   The WCS is NOT modelled: wcshelper.sky2pix_ellipse is the Section variable `ell`; what it
   returns for a catalogue row - (xo, yo, sx, sy, theta): 1-based pixel centre, FWHM axes in
   pixels, angle in degrees - is an input of the model (its correctness is property C16's). *)
From Coq Require Import Reals ZArith Bool List String.
From Flocq Require Import Raux.
From Aegean Require Import Lib.RBase Gen.Gauss Gen.AeRes.
Import ListNotations.
Open Scope R_scope.

(* one catalogue row: sky position (deg), peak flux, FWHM axes (arcsec), position angle (deg),
   local rms *)
Record row := mkRow { r_ra : R; r_dec : R; r_peak : R; r_a : R; r_b : R; r_pa : R; r_rms : R }.

(* one source after the WCS call *)
Record psrc := mkSrc { s_peak : R; s_rms : R; s_xo : R; s_yo : R; s_sx : R; s_sy : R; s_theta : R }.

Section WCS.
  Variable ell : R * R * R * R * R -> R * R * R * R * R.   (* wcshelper.sky2pix_ellipse *)

  Definition to_src (r : row) : psrc :=
    let '(xo, yo, sx, sy, theta) := ell (ell_args (r_ra r) (r_dec r) (r_a r) (r_b r) (r_pa r)) in
    mkSrc (r_peak r) (r_rms r) xo yo sx sy theta.
End WCS.

(* image shape = (s0, s1); pixel (i, j) is m[i, j] (0-based) *)
Definition accepted (s0 s1 : Z) (s : psrc) : bool :=
  negb (skip_x (s_xo s) (IZR s0)) && negb (skip_y (s_yo s) (IZR s1)).

Definition in_window (s0 s1 : Z) (s : psrc) (i j : Z) : bool :=
  let '(x0, x1, y0, y1) := window (s_xo s) (s_yo s) (s_sx s) (s_sy s) (s_theta s) (IZR s0) (IZR s1) in
  (x0 <=? i)%Z && (i <? x1)%Z && (y0 <=? j)%Z && (j <? y1)%Z.

(* the source is rendered and pixel (i, j) is one of the pixels it is rendered on *)
Definition covers (s0 s1 : Z) (s : psrc) (i j : Z) : bool := accepted s0 s1 s && in_window s0 s1 s i j.

(* the value make_model computes for pixel (i, j) of source s *)
Definition term (s : psrc) (i j : Z) : R :=
  px_model (IZR i) (IZR j) (s_peak s) (s_xo s) (s_yo s) (s_sx s) (s_sy s) (s_theta s).

(* make_model(mask=False): sources are accumulated in catalogue order *)
Definition model_px (s0 s1 : Z) (cat : list psrc) (i j : Z) : R :=
  fold_left (fun m s => if covers s0 s1 s i j then accum m (term s i j) else m) cat m_init.

(* what the property says the pixel should be: the sum of the contributions *)
Definition contrib (s0 s1 : Z) (s : psrc) (i j : Z) : R := if covers s0 s1 s i j then term s i j else 0.
Definition Rsum (l : list R) : R := fold_right Rplus 0 l.

(* make_model(mask=True): frac given -> threshold |frac*peak| ; frac None -> sigma*local_rms *)
Inductive mask_mode := ByFrac (frac : R) | BySigma (sigma : R).
Definition hit (mode : mask_mode) (s : psrc) (i j : Z) : bool :=
  match mode with
  | ByFrac f => mask_frac_hit (term s i j) f (s_peak s)
  | BySigma g => mask_sigma_hit (term s i j) g (s_rms s)
  end.
Definition blank_px (s0 s1 : Z) (mode : mask_mode) (cat : list psrc) (i j : Z) : bool :=
  existsb (fun s => covers s0 s1 s i j && hit mode s i j) cat.

(* the array returned by make_model; None = nan *)
Definition make_model_px (s0 s1 : Z) (mask : option mask_mode) (cat : list psrc) (i j : Z) : option R :=
  match mask with
  | None => Some (model_px s0 s1 cat i j)
  | Some mode => if blank_px s0 s1 mode cat i j then None else Some m_init
  end.

(* make_residual: data +/- model, nan stays nan *)
Definition residual (add : bool) (mask : option mask_mode) (s0 s1 : Z) (cat : list psrc) (data : R) (i j : Z)
  : option R :=
  option_map (residual_px add (match mask with None => false | Some _ => true end) data)
             (make_model_px s0 s1 mask cat i j).

(* ---- load_sources (repaired shape): the requested columns are copied (`picked`), every column whose
   name is a requested name or a catalogue name is removed, the copies are added under the
   catalogue names.  A table is the list of its column names with the column data. *)
Section Table.
  Variable V : Type.
  Definition table := list (string * V).
  Definition has (t : table) (c : string) : bool := existsb (fun e => String.eqb (fst e) c) t.
  Definition col (t : table) (c : string) : option V :=
    option_map snd (find (fun e => String.eqb (fst e) c) t).
  Definition mem (c : string) (l : list string) : bool := existsb (String.eqb c) l.
  (* [table[c].copy() for c in required_cols]; None (load_sources returns None) when one is missing *)
  Fixpoint pick (t : table) (olds : list string) : option (list V) :=
    match olds with
    | [] => Some []
    | c :: r => match col t c, pick t r with Some v, Some vs => Some (v :: vs) | _, _ => None end
    end.
  Definition load_cols (olds news : list string) (t : table) : option table :=
    match pick t olds with
    | None => None
    | Some vs => Some (filter (fun e => negb (mem (fst e) (olds ++ news))) t ++ combine news vs)
    end.
  (* colmap: parameter name (ra_col ..) -> the user's column name *)
  Definition load_table (colmap : string -> string) (t : table) : option table :=
    load_cols (map colmap rename_from) rename_to t.
End Table.
