(* models.PixelIsland.calc_bounding_box as find_islands uses it (C02 extension).

   find_islands calls   island.calc_bounding_box(np.logical_not(island_mask), offsets=[xmin, ymin])
   where [xmin:xmax, ymin:ymax] is the find_objects cut-out of the island's label (Model.IslandModel.bbox I) and
   np.logical_not(island_mask) is true exactly at the island's own pixels inside that cut-out (C02_mask_exact).
   The data handed over are therefore the own pixels in cut-out coordinates, and the offsets are (row start, column
   start) - fixed textually by the `Islands` extraction point.  The body of calc_bounding_box comes from Gen/IslandBox.v. *)
From Coq Require Import ZArith Bool List.
From Aegean Require Import Gen.Islands Gen.IslandBox Model.IslandModel.
Import ListNotations.
Open Scope Z_scope.

(* own pixels in cut-out coordinates *)
Definition rel_pixels (I : list pix) (r0 c0 : Z) : list pix := map (fun p => (fst p - r0, snd p - c0)) I.

(* np.where(np.any(data, axis=a))[0]: with axis = 1 one entry per row of data (the rows that hold a true cell),
   with axis = 0 one entry per column; only the first and the last entry are used *)
Definition any_indices (axis : Z) (J : list pix) : list Z := if axis =? 1 then map fst J else map snd J.
Definition first_index (l : list Z) : Z := match l with [] => 0 | x :: t => fold_right Z.min x t end.
Definition last_index (l : list Z) : Z := match l with [] => 0 | x :: t => fold_right Z.max x t end.

Definition offset_of (k r0 c0 : Z) : Z := if k =? 0 then r0 else c0.

(* (bounding_box[0][0], bounding_box[0][1], bounding_box[1][0], bounding_box[1][1]) *)
Definition calc_bounding_box (J : list pix) (r0 c0 : Z) : Z * Z * Z * Z :=
  let i0 := any_indices cbb_axis_0 J in
  let i1 := any_indices cbb_axis_1 J in
  (cbb_lo_0 (offset_of cbb_off_0 r0 c0) (first_index i0) (last_index i0),
   cbb_hi_0 (offset_of cbb_off_0 r0 c0) (first_index i0) (last_index i0),
   cbb_lo_1 (offset_of cbb_off_1 r0 c0) (first_index i1) (last_index i1),
   cbb_hi_1 (offset_of cbb_off_1 r0 c0) (first_index i1) (last_index i1)).

(* the box an island reports: calc_bounding_box on the own pixels of the find_objects cut-out *)
Definition reported_box (I : list pix) : Z * Z * Z * Z :=
  let '(r0, _, c0, _) := bbox I in calc_bounding_box (rel_pixels I r0 c0) r0 c0.
