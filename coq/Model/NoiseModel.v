(* C04 (extension) - the noise / covariance model of the fit: fitting.Cmatrix, fitting.Bmatrix, the whitened Jacobian of
   fitting.lmfit_jacobian and the Fisher matrices of the two branches of fitting.covar_errors, over the generated leaves of
   Gen/Noise.v.  Matrices are functions nat -> nat -> R; the sizes are arguments of the operations that sum.  No proofs here. *)
From Coq Require Import Reals List Arith.
From Aegean Require Import Lib.RBase Gen.Gauss Gen.Noise.
Import ListNotations.
Open Scope R_scope.

Definition mat := nat -> nat -> R.
Definition vec := nat -> R.

(* sum of f 0 .. f (n-1) *)
Fixpoint bsum (n : nat) (f : nat -> R) : R :=
  match n with O => 0 | S k => bsum k f + f k end.

(* A.dot(B) with inner dimension n *)
Definition mmul (n : nat) (A B : mat) : mat := fun i j => bsum n (fun k => A i k * B k j).
Definition mT (A : mat) : mat := fun i j => A j i.
Definition mI : mat := fun i j => if Nat.eqb i j then 1 else 0.
Definition mdiag (d : vec) : mat := fun i j => if Nat.eqb i j then d i else 0.
(* equality on the first r rows and c columns *)
Definition meq (r c : nat) (A B : mat) : Prop := forall i j, (i < r)%nat -> (j < c)%nat -> A i j = B i j.

(* ---- fitting.Cmatrix(x, y, sx, sy, theta): pts = zip(x, y); row i = centre i, column j = pixel j *)
Definition cmatrix (pts : list (R * R)) (sx sy theta : R) : mat := fun i j =>
  cm_entry (fst (nth j pts (0, 0))) (snd (nth j pts (0, 0))) (fst (nth i pts (0, 0))) (snd (nth i pts (0, 0))) sx sy theta.

(* ---- fitting.Bmatrix(C) with (L, Q) = eigh(C), n = len(L) *)
Definition bm_ref (n : nat) (L : vec) : R := L (if bm_minL_uses_last then pred n else 0%nat).
Definition clipped (n : nat) (L : vec) : vec := fun k => bm_clip (L k) (bm_minL (bm_ref n L)).
Definition bmatrix (n : nat) (L : vec) (Q : mat) : mat :=
  let S := mdiag (fun k => bm_s (clipped n L k)) in
  if bm_B_is_Q_dot_S then mmul n Q S else mmul n S Q.

(* ---- fitting.lmfit_jacobian(pars, x, y, errs, B): J = the rows of fitting.jacobian (free parameters x pixels), e = errs per
   pixel (a scalar errs is the constant vector; errs=None is e = 1, B=None is B = mI); the result is pixels x parameters *)
Definition mscale (M : mat) (e : vec) : mat := fun k m => lj_scale (M k m) (e m).
Definition whiten (n : nat) (M B : mat) : mat := if lj_whiten_right then mmul n M B else mmul n B M.
Definition lmfit_jac (n : nat) (J : mat) (e : vec) (B : mat) : mat :=
  let M := if lj_scale_first then whiten n (mscale J e) B else mscale (whiten n J B) e in
  if lj_transposed then mT M else M.

(* ---- fitting.covar_errors: the matrix `covar` of the branch C is None ... *)
Definition fisher_B (n : nat) (J : mat) (e : vec) (B : mat) : mat :=
  let Jl := lmfit_jac n J e (if ce_Bbranch_passes_B then B else mI) in
  mmul n (mT Jl) Jl.
(* ... and of the branch where C is given; Cinv = scipy.linalg.inv(C) *)
Definition fisher_C (n : nat) (J : mat) (e : vec) (B Cinv : mat) : mat :=
  let Jl := lmfit_jac n J e (if ce_Cbranch_passes_B then B else mI) in
  mmul n (mmul n (mT Jl) Cinv) Jl.
(* onesigma[k]; Finv = scipy.linalg.inv(covar) *)
Definition onesigma (Finv : mat) (k : nat) : R := ce_sigma (Finv k k).

(* the reference: J Sigma^-1 J^T written with the inverse correlation matrix and the per-pixel noise *)
Definition fisher_ref (n : nat) (J : mat) (e : vec) (Cinv : mat) : mat := fun i j =>
  bsum n (fun a => bsum n (fun b => (J i a / e a) * Cinv a b * (J j b / e b))).
(* the full covariance matrix of the pixel noise and its inverse *)
Definition covariance (C : mat) (e : vec) : mat := fun a b => e a * C a b * e b.
Definition precision (Cinv : mat) (e : vec) : mat := fun a b => Cinv a b / (e a * e b).
(* what `covar` would be if B were applied on the LEFT of the transposed, scaled Jacobian: Jl = B.dot(M^T) *)
Definition fisher_left (n : nat) (J : mat) (e : vec) (B : mat) : mat :=
  let Jl := mmul n B (mT (mscale J e)) in mmul n (mT Jl) Jl.
(* one entry of Bmatrix as a scalar formula: q = Q[i][k], l = L[k], lref = L[-1] (Proofs: bmatrix_entry_val) *)
Definition bm_val (q l lref : R) : R := q * bm_s (bm_clip l (bm_minL lref)).
