(* C05 - executable model of priorized fitting around the optimiser
   (source_finder.SourceFinder._refit_islands + result_to_components + the copy-back loop).
   Arithmetic leaves come from Gen/Priorized.v (regenerated from the sources on every run); this
   file is the hand-written skeleton: per-source placement, the accept filter, the fold that grows
   the island cut-out, the move into the cut-out frame, the zip of fitted components with the
   accepted inputs and the copy-back.  No proofs here.

   Outside the model (Section variables): the WCS (S sky->FITS pixel, P back; SE / PE the same for
   ellipses), the two FWHM<->sigma constants, and the optimiser `fit` together with the conversion
   of its covariance into sky errors. *)
From Coq Require Import ZArith QArith Qround Bool List.
From Aegean Require Import Lib.QPy Gen.Priorized.
Import ListNotations.
Open Scope Q_scope.

Record src := mkSrc {
  s_uuid : Z; s_ra : Q; s_dec : Q; s_peak : Q; s_a : Q; s_b : Q; s_pa : Q;
  s_err_ra : Q; s_err_dec : Q; s_err_a : Q; s_err_b : Q; s_err_pa : Q; s_flags : Z }.

Record ell := mkEll { el_a : Q; el_b : Q; el_pa : Q }.

(* image: shape and the blank (NaN / inf) pixels of the data and of the rms map *)
Record image := mkImage { rows : Z; cols : Z; data_blank : list (Z * Z); rms_blank : list (Z * Z) }.

Definition finite_at (bl : list (Z * Z)) (x y : Z) : bool :=
  negb (existsb (fun p => (fst p =? x)%Z && (snd p =? y)%Z) bl).

(* a source placed on the pixel grid (array frame, 0-based) *)
Record placed := mkPlaced {
  p_src : src; p_px : Q; p_py : Q;      (* exact array position *)
  p_x : Q; p_y : Q;                     (* nearest pixel *)
  p_sx : Q; p_sy : Q; p_theta : Q;      (* sigma (pixels) and angle *)
  p_beam_a : Q; p_beam_b : Q }.         (* FWHM of the pixel beam at the source *)

Record box := mkBox { b_xmin : Q; b_xmax : Q; b_ymin : Q; b_ymax : Q }.

(* parameters of one component as handed to / returned by the optimiser (cut-out frame) *)
Record cpar := mkCpar {
  c_amp : Q; c_xo : Q; c_xo_lo : Q; c_xo_hi : Q; c_yo : Q; c_yo_lo : Q; c_yo_hi : Q;
  c_sx : Q; c_sy : Q; c_theta : Q; c_flags : Z }.

Record fit_input := mkFitIn {
  fi_box : box;                 (* offsets = (xmin, xmax, ymin, ymax) *)
  fi_slice : Q * Q * Q * Q;     (* data[x_lo:x_hi, y_lo:y_hi] *)
  fi_pars : list cpar;
  fi_incl : list src }.

(* what the optimiser + error propagation return for one component *)
Record cfit := mkCfit { f_par : cpar; f_err_ra : Q; f_err_dec : Q; f_err_a : Q; f_err_b : Q; f_err_pa : Q }.

Record comp := mkComp {
  o_island : Z; o_source : Z; o_uuid : Z; o_flags : Z;
  o_ra : Q; o_dec : Q; o_peak : Q; o_a : Q; o_b : Q; o_pa : Q;
  o_err_ra : Q; o_err_dec : Q; o_err_a : Q; o_err_b : Q; o_err_pa : Q;
  o_xpix : Q; o_ypix : Q }.     (* FITS pixel position handed to pix2sky_ellipse (not a catalogue column) *)

Definition vary_table (stage : Z) : list bool :=
  [vary_amp stage; vary_xo stage; vary_yo stage; vary_sx stage; vary_sy stage; vary_theta stage].

(* source_finder.fix_shape / pa_limit (hand-modelled; the two while loops of pa_limit as one fuelled loop) *)
Definition fix_shape (a b pa : Q) : Q * Q * Q := if Qltb a b then (b, a, pa + (90 # 1)) else (a, b, pa).
Fixpoint pa_limit_fuel (n : nat) (pa : Q) : Q :=
  match n with
  | O => pa
  | S n' => if Qleb pa (-90 # 1) then pa_limit_fuel n' (pa + (180 # 1))
            else if Qltb (90 # 1) pa then pa_limit_fuel n' (pa - (180 # 1)) else pa
  end.
Definition pa_limit (pa : Q) : Q := pa_limit_fuel 64 pa.

(* lmfit.Parameter(value, min, max): the initial value is moved into [min, max], varying or not *)
Definition clip (v lo hi : Q) : Q := if Qltb hi v then hi else if Qltb v lo then lo else v.

Fixpoint imap {A B : Type} (f : Z -> A -> B) (k : Z) (l : list A) : list B :=
  match l with
  | [] => []
  | a :: l' => f k a :: imap f (k + 1)%Z l'
  end.

Section Priorized.
  Variable S : Q * Q -> Q * Q.            (* wcshelper.sky2pix : (ra, dec) -> FITS pixel (x, y) *)
  Variable P : Q * Q -> Q * Q.            (* wcshelper.pix2sky *)
  Variable SE : Q * Q -> ell -> ell.      (* shape part of sky2pix_ellipse at a sky position (degrees -> pixels) *)
  Variable PE : Q * Q -> ell -> ell.      (* shape part of pix2sky_ellipse at a FITS pixel position *)
  Variable BM : Q * Q -> Q * Q.           (* psfhelper.get_psf_sky2pix: (major, minor) FWHM of the beam in pixels *)
  Variable kf kc : Q.                     (* FWHM2CC, CC2FHWM *)
  Variable fit : Z -> fit_input -> option (list cfit).   (* None: the island is not fitted *)
  Variable im : image.

  Definition place (s : src) : placed :=
    let sky := (s_ra s, s_dec s) in
    let p := S sky in
    let px := fits_to_array_x (fst p) in
    let py := fits_to_array_y (snd p) in
    let e := SE sky (mkEll (to_deg (s_a s)) (to_deg (s_b s)) (s_pa s)) in
    mkPlaced s px py (nearest_x px) (nearest_y py) (to_cc (el_a e) kf) (to_cc (el_b e) kf) (el_pa e)
             (fst (BM sky)) (snd (BM sky)).

  Definition accepted (p : placed) : bool :=
    negb (rejected (p_x p) (p_y p) (inject_Z (rows im)) (inject_Z (cols im))
                   (finite_at (data_blank im) (Qfloor (p_x p)) (Qfloor (p_y p)))
                   (finite_at (rms_blank im) (Qfloor (p_x p)) (Qfloor (p_y p))) true).

  Definition included (isle : list src) : list placed := filter accepted (map place isle).

  Definition box_init : box :=
    let r := inject_Z (rows im) in let c := inject_Z (cols im) in
    mkBox (xmin_init r c) (xmax_init r c) (ymin_init r c) (ymax_init r c).

  Definition box_add (b : box) (p : placed) : box :=
    let r := inject_Z (rows im) in let c := inject_Z (cols im) in
    let xw := cut_xwidth (p_sx p) (p_sy p) in
    let yw := cut_ywidth (p_sx p) (p_sy p) in
    mkBox (xmin_upd (b_xmin b) (p_x p) xw r) (xmax_upd (b_xmax b) (p_x p) xw r)
          (ymin_upd (b_ymin b) (p_y p) yw c) (ymax_upd (b_ymax b) (p_y p) yw c).

  Definition island_box (incl : list placed) : box := fold_left box_add incl box_init.

  Definition box_shift_x (b : box) : Q := shift_x (b_xmin b) (b_xmax b) (b_ymin b) (b_ymax b).
  Definition box_shift_y (b : box) : Q := shift_y (b_xmin b) (b_xmax b) (b_ymin b) (b_ymax b).
  Definition box_slice (b : box) : Q * Q * Q * Q :=
    (slice_x_lo (b_xmin b) (b_xmax b) (b_ymin b) (b_ymax b), slice_x_hi (b_xmin b) (b_xmax b) (b_ymin b) (b_ymax b),
     slice_y_lo (b_xmin b) (b_xmax b) (b_ymin b) (b_ymax b), slice_y_hi (b_xmin b) (b_xmax b) (b_ymin b) (b_ymax b)).

  Definition shape_lo (p : placed) : Q := shape_lower (p_sx p) (p_sy p) (p_beam_a p) (p_beam_b p) kf.
  Definition shape_hi (p : placed) : Q := shape_upper (p_sx p) (p_sy p) (p_beam_a p) (p_beam_b p) kf.
  (* true when lmfit leaves the catalogue shape as it is *)
  Definition shape_unclipped (p : placed) : bool :=
    Qleb (shape_lo p) (p_sx p) && Qleb (p_sx p) (shape_hi p) && Qleb (shape_lo p) (p_sy p) && Qleb (p_sy p) (shape_hi p).

  Definition comp_params (b : box) (p : placed) : cpar :=
    let dx := box_shift_x b in let dy := box_shift_y b in
    mkCpar (s_peak (p_src p))
           (p_px p - dx) (xo_lower (p_px p) (p_sx p) - dx) (xo_upper (p_px p) (p_sx p) - dx)
           (p_py p - dy) (yo_lower (p_py p) (p_sy p) - dy) (yo_upper (p_py p) (p_sy p) - dy)
           (clip (p_sx p) (shape_lo p) (shape_hi p)) (clip (p_sy p) (shape_lo p) (shape_hi p)) (p_theta p) 0.

  Definition refit_input (isle : list src) : option fit_input :=
    match included isle with
    | [] => None
    | incl => let b := island_box incl in
              Some (mkFitIn b (box_slice b) (map (comp_params b) incl) (map p_src incl))
    end.

  (* result_to_components is called with the flags of the LAST source listed in the island *)
  Definition isle_flags (isle : list src) : Z := match rev isle with s :: _ => s_flags s | [] => 0%Z end.

  Definition to_component (stage isflags inum : Z) (b : box) (j : Z) (fs : cfit * src) : comp :=
    let f := fst fs in let s := snd fs in let c := f_par f in
    let xp := array_to_fits_x (c_xo c) (c_yo c) (b_xmin b) (b_xmax b) (b_ymin b) (b_ymax b) in
    let yp := array_to_fits_y (c_xo c) (c_yo c) (b_xmin b) (b_xmax b) (b_ymin b) (b_ymax b) in
    let sky := P (xp, yp) in
    let e := PE (xp, yp) (mkEll (from_cc (c_sx c) kc) (from_cc (c_sy c) kc) (c_theta c)) in
    let '(a, b', pa) := fix_shape (to_arcsec (el_a e)) (to_arcsec (el_b e)) (el_pa e) in
    let ra := if Qltb (fst sky) (0 # 1) then fst sky + (360 # 1) else fst sky in
    mkComp inum j (s_uuid s)
           (Z.lor (Z.lor (Z.lor isflags (c_flags c)) flag_PRIORIZED) (if copy_pos_err stage then flag_FIXED2PSF else 0%Z))
           ra (snd sky) (c_amp c) a b' (pa_limit pa)
           (if copy_pos_err stage then copied_err (s_err_ra s) else f_err_ra f)
           (if copy_pos_err stage then copied_err (s_err_dec s) else f_err_dec f)
           (if copy_shape_err stage then copied_err (s_err_a s) else f_err_a f)
           (if copy_shape_err stage then copied_err (s_err_b s) else f_err_b f)
           (if copy_shape_err stage then copied_err (s_err_pa s) else f_err_pa f)
           xp yp.

  Definition island_out (stage inum : Z) (isle : list src) : list comp :=
    match refit_input isle with
    | None => []
    | Some fi =>
        match fit stage fi with
        | None => []
        | Some fs => imap (to_component stage (isle_flags isle) inum (fi_box fi)) 0%Z (combine fs (fi_incl fi))
        end
    end.

  (* islands in processing order; island k gets number k (numbering across island groups is C03's) *)
  Definition run (stage : Z) (islands : list (list src)) : list comp :=
    concat (imap (island_out stage) 0%Z islands).

  (* accepted inputs in processing order *)
  Definition accepted_inputs (islands : list (list src)) : list src :=
    concat (map (fun isle => map p_src (included isle)) islands).
End Priorized.

(* ---------- specification vocabulary (used by the statements in Props/C05.v) ---------- *)
Definition peq (p q : Q * Q) : Prop := fst p == fst q /\ snd p == snd q.
Definition elleq (e f : ell) : Prop := el_a e == el_a f /\ el_b e == el_b f /\ el_pa e == el_pa f.

(* what is assumed of the optimiser: a parameter that is not varied comes back unchanged *)
Definition keeps (st : Z) (c : cpar) (f : cfit) : Prop :=
  (vary_xo st = false -> c_xo (f_par f) == c_xo c) /\
  (vary_yo st = false -> c_yo (f_par f) == c_yo c) /\
  (vary_sx st = false -> c_sx (f_par f) == c_sx c) /\
  (vary_sy st = false -> c_sy (f_par f) == c_sy c) /\
  (vary_theta st = false -> c_theta (f_par f) == c_theta c).
Definition fit_keeps_fixed (fit : Z -> fit_input -> option (list cfit)) : Prop :=
  forall st fi fs, fit st fi = Some fs -> Forall2 (keeps st) (fi_pars fi) fs.

(* what is assumed of the WCS: pix2sky inverts sky2pix, for positions and for ellipses *)
Definition wcs_inverts (S P : Q * Q -> Q * Q) : Prop := forall sky p, peq p (S sky) -> peq (P p) sky.
Definition ell_inverts_at (SE PE : Q * Q -> ell -> ell) (sky p : Q * Q) : Prop :=
  forall e e', elleq e' (SE sky e) -> elleq (PE p e') e.
Definition wcs_ell_inverts (S : Q * Q -> Q * Q) (SE PE : Q * Q -> ell -> ell) : Prop :=
  forall sky p, peq p (S sky) -> ell_inverts_at SE PE sky p.

(* ---------- instances used by the correspondence check ---------- *)

(* optimiser replaced by the identity (the harness patches do_lmfit the same way) *)
Definition fit_id (stage : Z) (fi : fit_input) : option (list cfit) :=
  Some (map (fun c => mkCfit c 0 0 0 0 0) (fi_pars fi)).

(* affine WCS with exact dyadic arithmetic: x (rows) follows dec with scx pixels / degree, y (cols) follows -ra
   with scy pixels / degree (non-square pixels when they differ); the ellipse conversion scales the major axis
   by sca and the minor axis by scb, so that the major axis can span FEWER pixels than the minor one *)
Definition aff_S (cx cy scx scy ra0 dec0 : Q) (s : Q * Q) : Q * Q :=
  ((snd s - dec0) * scx + cx, (ra0 - fst s) * scy + cy).
Definition aff_P (cx cy scx scy ra0 dec0 : Q) (p : Q * Q) : Q * Q :=
  (ra0 - (snd p - cy) / scy, dec0 + (fst p - cx) / scx).
Definition aff_SE (sca scb rot : Q) (_ : Q * Q) (e : ell) : ell := mkEll (el_a e * sca) (el_b e * scb) (el_pa e + rot).
Definition aff_PE (sca scb rot : Q) (_ : Q * Q) (e : ell) : ell := mkEll (el_a e / sca) (el_b e / scb) (el_pa e - rot).

Definition obs_box (b : box) := [qout (b_xmin b); qout (b_xmax b); qout (b_ymin b); qout (b_ymax b)].
Definition obs_cpar (c : cpar) :=
  [qout (c_amp c); qout (c_xo c); qout (c_xo_lo c); qout (c_xo_hi c); qout (c_yo c); qout (c_yo_lo c); qout (c_yo_hi c);
   qout (c_sx c); qout (c_sy c); qout (c_theta c)].
Definition obs_fit_input (o : option fit_input) :=
  match o with
  | None => None
  | Some fi => let '(a, b, c, d) := fi_slice fi in
               Some (obs_box (fi_box fi), [qout a; qout b; qout c; qout d], map obs_cpar (fi_pars fi), map s_uuid (fi_incl fi))
  end.
Definition obs_comp (c : comp) :=
  ([o_island c; o_source c; o_uuid c; o_flags c],
   [qout (o_ra c); qout (o_dec c); qout (o_peak c); qout (o_a c); qout (o_b c); qout (o_pa c)],
   [qout (o_err_ra c); qout (o_err_dec c); qout (o_err_a c); qout (o_err_b c); qout (o_err_pa c)]).

(* everything the harness compares for one run *)
Definition obs (cx cy scx scy sca scb ra0 dec0 rot beam_a beam_b kf kc : Q) (im : image) (stage : Z) (islands : list (list src)) :=
  let S := aff_S cx cy scx scy ra0 dec0 in let P := aff_P cx cy scx scy ra0 dec0 in
  let SE := aff_SE sca scb rot in let PE := aff_PE sca scb rot in
  let BM := fun _ : Q * Q => (beam_a, beam_b) in
  (vary_table stage,
   map (fun isle => obs_fit_input (refit_input S SE BM kf im isle)) islands,
   map obs_comp (run S P SE PE BM kf kc fit_id im stage islands),
   map (fun isle => map (shape_unclipped kf) (included S SE BM kf im isle)) islands,
   [copy_pos_err stage; copy_shape_err stage]).
