(* C03 - executable model of the catalogue logic that is Aegean's own:
   island / component numbering (blind and priorized), fix_shape, pa_limit, RA wrap, flag algebra,
   the decision table of fitting.errors, the island summary, and the row / catalogue predicates
   every output catalogue is checked against.

   Leaves come from Gen/CatRows.v (regenerated from /repo on every run).  No proofs here. *)
From Coq Require Import ZArith NArith QArith Qround Bool List Lia.
From Aegean Require Import Lib.FVal Gen.CatRows.
Import ListNotations.
Open Scope Z_scope.

Fixpoint zseq (lo : Z) (n : nat) : list Z :=
  match n with O => [] | S n' => lo :: zseq (lo + 1) n' end.

(* ================================================================================== *)
(* 1. numbering                                                                       *)

(* --- blind: find_sources_in_image.  One entry per island returned by find_islands, in order;
   true = the island has at least one finite pixel (an empty one is skipped by `continue`). *)
Fixpoint blind_ids_from (n : Z) (nonempty : list bool) : list Z :=
  match nonempty with
  | [] => []
  | false :: t => blind_ids_from n t
  | true :: t =>
      let n' := isle_num_step n in
      (if isle_num_incr_before_use then n' else n) :: blind_ids_from n' t
  end.
Definition blind_ids (nonempty : list bool) : list Z := blind_ids_from isle_num_init nonempty.

(* --- components: the summit loop of estimate_lmfit_parinfo.  One entry per summit (brightest
   first); true = accepted, false = skipped (`continue` before any params.add).  Returns the
   indices used in the parameter prefixes c<i>_ and the final value stored as `components`. *)
Fixpoint summit_ids_from (i : Z) (accepted : list bool) : list Z * Z :=
  match accepted with
  | [] => ([], i)
  | false :: t => summit_ids_from i t
  | true :: t => let r := summit_ids_from (comp_step i) t in (i :: fst r, snd r)
  end.
Definition summit_ids (accepted : list bool) : list Z * Z := summit_ids_from comp_init accepted.

(* result_to_components: for j in range(components): source.source = j *)
Definition component_numbers (ncomp : Z) : list Z := zseq 0 (Z.to_nat ncomp).

(* (island, source) pairs of a list of fitted islands: (island number, number of components) *)
Definition rows_of (l : list (Z * Z)) : list (Z * Z) :=
  flat_map (fun p => map (fun j => (fst p, j)) (component_numbers (snd p))) l.

(* a blind run: per island (has finite pixels, summit verdicts) *)
Definition blind_islands (isl : list (bool * list bool)) : list (Z * Z) :=
  combine (blind_ids (map fst isl)) (map (fun s => snd (summit_ids (snd s))) (filter fst isl)).
Definition blind_rows (isl : list (bool * list bool)) : list (Z * Z) := rows_of (blind_islands isl).

(* --- priorized: priorized_fit_islands queues the groups in batches; parameterised by the istart
   leaf so that Refuted/C03_istart.v can run the same skeleton on the pre-fix leaf *)
Fixpoint batch_loop {A : Type} (gs : Z) (groups cur : list A) (done : list (list A)) : list (list A) :=
  match groups with
  | [] => if batch_rest (Z.of_nat (length cur)) gs then done ++ [cur] else done
  | x :: t =>
      let cur' := cur ++ [x] in
      if batch_full (Z.of_nat (length cur')) gs then batch_loop gs t [] (done ++ [cur'])
      else batch_loop gs t cur' done
  end.
Definition batches {A : Type} (gs : Z) (groups : list A) : list (list A) := batch_loop gs groups [] [].

(* _refit_islands: for inum, isle in enumerate(group, start=istart) *)
Definition ids_of_batches_with {A : Type} (ist : Z -> Z -> Z) (gs : Z) (bs : list (list A)) : list Z :=
  flat_map (fun ib => zseq (ist (fst ib) gs) (length (snd ib))) (combine (zseq 0 (length bs)) bs).
Definition priorized_ids_with {A : Type} (ist : Z -> Z -> Z) (gs : Z) (groups : list A) : list Z :=
  ids_of_batches_with ist gs (batches gs groups).
Definition priorized_ids {A : Type} (groups : list A) : list Z := priorized_ids_with istart group_size groups.

(* the refit loop of one island: one entry per catalogue source of the group; true = inside the
   usable image (gets a prefix), false = skipped *)
Fixpoint refit_ids_from (i : Z) (usable : list bool) : list Z * Z :=
  match usable with
  | [] => ([], i)
  | false :: t => refit_ids_from i t
  | true :: t => let r := refit_ids_from (refit_comp_step i) t in (i :: fst r, snd r)
  end.
Definition refit_ids (usable : list bool) : list Z * Z := refit_ids_from refit_comp_init usable.

(* a priorized run: per group Some n = fitted with n components, None = skipped *)
Definition keep_fitted (l : list (Z * option Z)) : list (Z * Z) :=
  flat_map (fun p => match snd p with Some n => [(fst p, n)] | None => [] end) l.
Definition priorized_islands_with (ist : Z -> Z -> Z) (gs : Z) (groups : list (option Z)) : list (Z * Z) :=
  keep_fitted (combine (priorized_ids_with ist gs groups) groups).
Definition priorized_rows (groups : list (option Z)) : list (Z * Z) :=
  rows_of (priorized_islands_with istart group_size groups).

(* ================================================================================== *)
(* 2. fix_shape, pa_limit, RA wrap                                                     *)

Record shape := mkShape { s_a : fval; s_b : fval; s_pa : fval; s_ea : fval; s_eb : fval }.

Definition fix_shape (s : shape) : shape :=
  if fix_swap_test (s_a s) (s_b s)
  then mkShape (s_b s) (s_a s) (fix_pa_step (s_pa s)) (s_eb s) (s_ea s)
  else s.

(* the two `while` loops of pa_limit with explicit fuel: None = fuel exhausted *)
Fixpoint pa_up (fuel : nat) (pa : fval) : option fval :=
  if pa_up_test pa then match fuel with O => None | S f => pa_up f (pa_up_step pa) end else Some pa.
Fixpoint pa_down (fuel : nat) (pa : fval) : option fval :=
  if pa_down_test pa then match fuel with O => None | S f => pa_down f (pa_down_step pa) end else Some pa.
Definition pa_limit_fuel (fuel : nat) (pa : fval) : option fval :=
  match pa_up fuel pa with Some p => pa_down fuel p | None => None end.

(* closed form on finite input: the representative of pa modulo 180 in (-90, 90] *)
Definition pa_turns (q : Q) : Z := Qceiling ((q - 90) / 180).
Definition pa_closed (q : Q) : Q := (q - 180 * inject_Z (pa_turns q))%Q.
(* loop iterations needed (either loop), plus one for the final test *)
Definition pa_fuel (q : Q) : nat := S (Z.to_nat (Z.abs (pa_turns q))).

Definition ra_wrap (ra : fval) : fval := if ra_wrap_test ra then ra_wrap_step ra else ra.

(* what result_to_components stores, given what pix2sky_ellipse returned (a, b already in arcsec) *)
Definition normalise (fuel : nat) (s : shape) : option shape :=
  let s' := fix_shape s in
  match pa_limit_fuel fuel (s_pa s') with
  | Some p => Some (mkShape (s_a s') (s_b s') p (s_ea s') (s_eb s'))
  | None => None
  end.

(* ================================================================================== *)
(* 3. flags                                                                            *)

Definition flag_mask : N := fold_right N.lor 0%N flag_constants.
Definition flags_ok (f : N) : bool := (f <? 128)%N.
Definition has (f m : N) : bool := negb (N.land f m =? 0)%N.

(* flags a blind component gets from Aegean's own logic (estimate_lmfit_parinfo, _fit_island,
   result_to_components), i.e. without the optimiser outcome (FITERR) and WCSERR.
   npix: finite pixels of the island; mindim: min of the box dimensions; ncomp: components of the
   island (no max_summits) *)
Definition blind_flags (npix mindim ncomp : Z) : N :=
  let f0 := small_flag npix in
  let tiny := tiny_dim mindim || existsb (has f0) tiny_masks in
  let f1 := if tiny then N.lor f0 FIXED2PSF else f0 in
  let nfree := ncomp * (if has f1 FIXED2PSF then 3 else 6) in
  if cannot_fit npix nfree then N.lor f1 NOTFIT else f1.
Definition optimiser_bits : N := N.lor FITERR WCSERR.
Definition strip (f m : N) : N := N.ldiff f m.

(* ================================================================================== *)
(* 4. decision table of fitting.errors                                                 *)

(* value classes of a float-or-None *)
Inductive cls := Pos | MinusOne | NegOther | Zero | CNan | CPInf | CNInf | PyNone.
Definition cls_eqb (a b : cls) : bool :=
  match a, b with
  | Pos, Pos | MinusOne, MinusOne | NegOther, NegOther | Zero, Zero | CNan, CNan | CPInf, CPInf
  | CNInf, CNInf | PyNone, PyNone => true
  | _, _ => false
  end.
(* np.isfinite: None raises TypeError *)
Definition cls_isfinite (c : cls) : option bool :=
  match c with
  | Pos | MinusOne | NegOther | Zero => Some true
  | CNan | CPInf | CNInf => Some false
  | PyNone => None
  end.
(* x > 0 : None raises TypeError *)
Definition cls_gt0 (c : cls) : option bool :=
  match c with Pos | CPInf => Some true | PyNone => None | _ => Some false end.
Definition nonzero_finite (c : cls) : bool := match c with Pos | MinusOne | NegOther => true | _ => false end.
Definition err_cls_ok (c : cls) : bool := match c with Pos | MinusOne => true | _ => false end.

Record err_guards := mkGuards {
  g_early : N;
  g_pos : bool -> bool -> bool -> bool -> bool;
  g_pa : bool -> bool -> bool;
  g_shape : bool -> bool -> bool -> bool -> bool }.
Definition current_guards : err_guards := mkGuards errors_early_mask guard_pos guard_pa guard_shape.

Record err_in := mkErrIn {
  ei_flags : N; ei_ref_finite : bool;
  ei_v_xo : bool; ei_v_yo : bool; ei_v_sx : bool; ei_v_sy : bool; ei_v_theta : bool;
  ei_amp : cls; ei_xo : cls; ei_yo : cls; ei_sx : cls; ei_sy : cls; ei_theta : cls;   (* stderr classes *)
  ei_peak : cls; ei_a : cls; ei_b : cls; ei_int : cls }.                               (* value classes *)
Record err_out := mkErrOut {
  eo_peak : cls; eo_ra : cls; eo_dec : cls; eo_pa : cls; eo_a : cls; eo_b : cls; eo_int : cls; eo_wcserr : bool }.
Definition all_masked (w : bool) : err_out := mkErrOut MinusOne MinusOne MinusOne MinusOne MinusOne MinusOne MinusOne w.

(* class of a sky distance / bearing difference computed from finite pixel offsets: zero exactly when
   every offset is zero (library behaviour of pix2sky / gcd / bear, validated by the correspondence) *)
Definition dist_cls (es : list cls) : cls := if forallb (cls_eqb Zero) es then Zero else Pos.

(* guards evaluate lazily (`and` short-circuits): isfinite is only asked when the vary bits are set;
   all(np.isfinite([a, b])) evaluates both *)
Definition fin2 (a b : cls) : option (bool * bool) :=
  match cls_isfinite a, cls_isfinite b with Some x, Some y => Some (x, y) | _, _ => None end.

Definition sq_term (e den : cls) : option cls :=
  match cls_gt0 e with
  | None => None
  | Some false => Some Zero
  | Some true => if nonzero_finite den then Some e (* Pos -> Pos, +inf -> +inf *) else None
  end.
Definition sq_sum (ts : list cls) : cls :=
  if existsb (cls_eqb CPInf) ts then CPInf else if existsb (cls_eqb Pos) ts then Pos else Zero.

Definition pos_cls (g : err_guards) (i : err_in) : option cls :=
  if ei_v_xo i && ei_v_yo i then
    match fin2 (ei_xo i) (ei_yo i) with
    | None => None
    | Some (fx, fy) => Some (if g_pos g true true fx fy then dist_cls [ei_xo i; ei_yo i] else MinusOne)
    end
  else Some (if g_pos g (ei_v_xo i) (ei_v_yo i) true true then Pos else MinusOne).
Definition pa_cls (g : err_guards) (i : err_in) : option cls :=
  if ei_v_theta i then
    match cls_isfinite (ei_theta i) with
    | None => None
    | Some ft => Some (if g_pa g true ft then dist_cls [ei_theta i] else MinusOne)
    end
  else Some (if g_pa g false true then Pos else MinusOne).
Definition ab_cls (g : err_guards) (i : err_in) : option (cls * cls) :=
  if ei_v_sx i && ei_v_sy i then
    match fin2 (ei_sx i) (ei_sy i) with
    | None => None
    | Some (fx, fy) =>
        Some (if g_shape g true true fx fy then (dist_cls [ei_sx i], dist_cls [ei_sy i]) else (MinusOne, MinusOne))
    end
  else Some (if g_shape g (ei_v_sx i) (ei_v_sy i) true true then (Pos, Pos) else (MinusOne, MinusOne)).
(* err_peak_flux is the amplitude stderr copied as it is; err_int_flux from the three relative errors *)
Definition finish_cls (i : err_in) (p t ea eb : cls) : option err_out :=
  match sq_term (ei_amp i) (ei_peak i), sq_term ea (ei_a i), sq_term eb (ei_b i) with
  | Some t1, Some t2, Some t3 =>
      let eint :=
        match sq_sum [t1; t2; t3] with
        | Zero => Some MinusOne
        | Pos => match ei_int i with Pos | MinusOne | NegOther => Some Pos | Zero => Some Zero | _ => None end
        | _ => match ei_int i with Pos | MinusOne | NegOther => Some CPInf | Zero => Some CNan | _ => None end
        end in
      match eint with
      | Some e => Some (mkErrOut (ei_amp i) p p t ea eb e false)
      | None => None
      end
  | _, _, _ => None
  end.

(* None: the call raises, or the input is outside the table (zero / non-finite peak, a, b) *)
Definition errors_model_with (g : err_guards) (i : err_in) : option err_out :=
  if has (ei_flags i) (g_early g) then Some (all_masked false)
  else if negb (ei_ref_finite i) then Some (all_masked true)
  else
    match pos_cls g i, pa_cls g i, ab_cls g i with
    | Some p, Some t, Some (ea, eb) => finish_cls i p t ea eb
    | _, _, _ => None
    end.
Definition errors_model := errors_model_with current_guards.
Definition err_out_list (o : err_out) : list cls := [eo_peak o; eo_ra o; eo_dec o; eo_pa o; eo_a o; eo_b o; eo_int o].
Definition err_out_ok (o : err_out) : bool := forallb err_cls_ok (err_out_list o).

(* ---- the table with the masking steps of the repaired code (generated switches: stderr_none_is_nan, six_guarded,
   int_flux_guarded).  The pre-repair table above (errors_model_with) stays as the frozen model of Refuted/C03_errors.v.
   Inputs in addition to err_in: the value classes of the quantities propagated through pix2sky / gcd / bear when
   their branch is taken (anything a float can be: a huge pixel stderr gives nan). *)
Record err_prop := mkErrProp { pp_ra : cls; pp_dec : cls; pp_pa : cls; pp_a : cls; pp_b : cls }.
Record err_cfg := mkErrCfg { c_none_nan : bool; c_six : bool; c_int : bool }.
Definition current_cfg : err_cfg := mkErrCfg stderr_none_is_nan six_guarded int_flux_guarded.

Definition none_to_nan (c : cls) : cls := match c with PyNone => CNan | x => x end.

(* ---- _refit_islands: an uncertainty that priorized fitting does not fit is taken from the input catalogue (any float: a
   catalogue without err_* columns leaves the nan of ComponentSource()), through _known_error when the generated switch says so *)
Definition copied_error_with (guarded : bool) (c : cls) : cls :=
  if guarded then match c with Pos => Pos | _ => MinusOne end else c.
Definition copied_error := copied_error_with copied_errors_guarded.
(* `not (np.isfinite(x) and x > 0)` -> ERR_MASK; None raises *)
Definition mask_cls (c : cls) : option cls :=
  match c with Pos => Some Pos | PyNone => None | _ => Some MinusOne end.
Definition sq_term2 (e den : cls) : option cls :=
  match cls_gt0 e with
  | None => None
  | Some false => Some Zero
  | Some true =>
      match den with
      | Zero | PyNone => None                 (* division by zero / by None: outside the table *)
      | CNan => Some CNan
      | CPInf | CNInf => Some (match e with CPInf => CNan | _ => Zero end)
      | _ => Some e
      end
  end.
Definition sq_sum2 (ts : list cls) : cls :=
  if existsb (cls_eqb CNan) ts then CNan else if existsb (cls_eqb CPInf) ts then CPInf
  else if existsb (cls_eqb Pos) ts then Pos else Zero.
(* | int_flux * sqrt(sqerr) | *)
Definition raw_int (s int : cls) : option cls :=
  match int with
  | PyNone => None
  | CNan => Some CNan
  | CPInf | CNInf => Some (match s with Zero | CNan => CNan | _ => CPInf end)
  | Zero => Some (match s with Zero | Pos => Zero | _ => CNan end)
  | _ => Some (match s with Zero => Zero | Pos => Pos | CPInf => CPInf | _ => CNan end)
  end.
Definition opt_map6 (f : cls -> option cls) (l : list cls) : option (list cls) :=
  fold_right (fun c acc => match f c, acc with Some x, Some r => Some (x :: r) | _, _ => None end) (Some []) l.

Definition conv_in (cfg : err_cfg) (i0 : err_in) : err_in :=
  let cv := if c_none_nan cfg then none_to_nan else (fun c => c) in
  mkErrIn (ei_flags i0) (ei_ref_finite i0) (ei_v_xo i0) (ei_v_yo i0) (ei_v_sx i0) (ei_v_sy i0) (ei_v_theta i0)
          (cv (ei_amp i0)) (cv (ei_xo i0)) (cv (ei_yo i0)) (cv (ei_sx i0)) (cv (ei_sy i0)) (cv (ei_theta i0))
          (ei_peak i0) (ei_a i0) (ei_b i0) (ei_int i0).
Definition pos2_cls (g : err_guards) (i : err_in) (pv : err_prop) : option (cls * cls) :=
  if ei_v_xo i && ei_v_yo i then
    match fin2 (ei_xo i) (ei_yo i) with
    | None => None
    | Some (fx, fy) => Some (if g_pos g true true fx fy then (pp_ra pv, pp_dec pv) else (MinusOne, MinusOne))
    end
  else Some (if g_pos g (ei_v_xo i) (ei_v_yo i) true true then (pp_ra pv, pp_dec pv) else (MinusOne, MinusOne)).
Definition pa2_cls (g : err_guards) (i : err_in) (pv : err_prop) : option cls :=
  if ei_v_theta i then
    match cls_isfinite (ei_theta i) with
    | None => None
    | Some ft => Some (if g_pa g true ft then pp_pa pv else MinusOne)
    end
  else Some (if g_pa g false true then pp_pa pv else MinusOne).
Definition ab2_cls (g : err_guards) (i : err_in) (pv : err_prop) : option (cls * cls) :=
  if ei_v_sx i && ei_v_sy i then
    match fin2 (ei_sx i) (ei_sy i) with
    | None => None
    | Some (fx, fy) => Some (if g_shape g true true fx fy then (pp_a pv, pp_b pv) else (MinusOne, MinusOne))
    end
  else Some (if g_shape g (ei_v_sx i) (ei_v_sy i) true true then (pp_a pv, pp_b pv) else (MinusOne, MinusOne)).
Definition int2_cls (cfg : err_cfg) (i : err_in) (e_pk e_a e_b : cls) : option cls :=
  match sq_term2 e_pk (ei_peak i), sq_term2 e_a (ei_a i), sq_term2 e_b (ei_b i) with
  | Some t1, Some t2, Some t3 =>
      let s := sq_sum2 [t1; t2; t3] in
      if c_int cfg then match raw_int s (ei_int i) with Some r => mask_cls r | None => None end
      else match s with Zero => Some MinusOne | _ => raw_int s (ei_int i) end
  | _, _, _ => None
  end.
Definition finish2_cls (cfg : err_cfg) (i : err_in) (era edec epa ea eb : cls) : option err_out :=
  let raw := [ei_amp i; era; edec; epa; ea; eb] in
  match (if c_six cfg then opt_map6 mask_cls raw else Some raw) with
  | Some [e_pk; e_ra; e_dec; e_pa; e_a; e_b] =>
      match int2_cls cfg i e_pk e_a e_b with
      | Some e => Some (mkErrOut e_pk e_ra e_dec e_pa e_a e_b e false)
      | None => None
      end
  | _ => None
  end.
Definition errors_model2_with (g : err_guards) (cfg : err_cfg) (i0 : err_in) (pv : err_prop) : option err_out :=
  let i := conv_in cfg i0 in
  if has (ei_flags i) (g_early g) then Some (all_masked false)
  else if negb (ei_ref_finite i) then Some (all_masked true)
  else
    match pos2_cls g i pv, pa2_cls g i pv, ab2_cls g i pv with
    | Some (era, edec), Some epa, Some (ea, eb) => finish2_cls cfg i era edec epa ea eb
    | _, _, _ => None
    end.
Definition errors_model2 := errors_model2_with current_guards current_cfg.
(* what a float can be / what a non-zero float can be *)
Definition is_float (c : cls) : bool := negb (cls_eqb c PyNone).
Definition is_nonzero_float (c : cls) : bool := negb (cls_eqb c PyNone) && negb (cls_eqb c Zero).

(* ================================================================================== *)
(* 5. sexagesimal fields                                                               *)

(* the four integers printed by dec2dms / dec2hms for cs = round(x * scale) *)
Definition dms_fields (cs : Z) : Z * Z * Z * Z :=
  let d := cs / dms_div1 in let r := cs mod dms_div1 in
  let m := r / dms_div2 in let r := r mod dms_div2 in
  (d, m, r / dms_div3, r mod dms_div3).
Definition hms_fields (cs : Z) : Z * Z * Z * Z :=
  let h := cs / hms_div1 in let r := cs mod hms_div1 in
  let m := r / hms_div2 in let r := r mod hms_div2 in
  (h mod 24, m, r / hms_div3, r mod hms_div3).
Definition fields_value (f : Z * Z * Z * Z) : Z :=
  let '(d, m, s, c) := f in ((d * 60 + m) * 60 + s) * 100 + c.

(* ================================================================================== *)
(* 6. row and catalogue predicates                                                     *)

Record sexa := mkSexa { x_neg : bool; x_d : Z; x_m : Z; x_s : Z; x_c : Z }.
Record row := mkRow {
  r_island : Z; r_source : Z; r_uuid : Z; r_flags : N;
  r_ra : fval; r_dec : fval; r_a : fval; r_b : fval; r_pa : fval;
  r_peak : fval; r_int : fval; r_psf_a : fval; r_psf_b : fval;
  r_errs : list fval;                       (* err_ra err_dec err_peak_flux err_int_flux err_a err_b err_pa *)
  r_ra_str : option sexa; r_dec_str : option sexa }.

Open Scope Q_scope.
Definition Qabs' (q : Q) : Q := if Qleb 0 q then q else - q.
(* printing slack: half a unit of the last printed digit plus 1e-6 units for binary64 rounding of x * scale *)
Definition str_tol : Q := (1 # 2) + (1 # 1000000).

Definition shape_okb (r : row) : bool :=
  match r_a r, r_b r with Fin a, Fin b => Qltb 0 b && Qleb b a | _, _ => false end.
Definition pa_okb (r : row) : bool := match r_pa r with Fin p => Qltb (-(90)) p && Qleb p 90 | _ => false end.
Definition ra_okb (r : row) : bool := match r_ra r with Fin x => Qleb 0 x && Qltb x 360 | _ => false end.
Definition dec_okb (r : row) : bool := match r_dec r with Fin x => Qleb (-(90)) x && Qleb x 90 | _ => false end.
Definition err_okb (e : fval) : bool := match e with Fin q => Qltb 0 q || Qeq_bool q (-(1)) | _ => false end.
Definition errs_okb (r : row) : bool := forallb err_okb (r_errs r).
Definition fields_okb (s : sexa) (dmax : Z) : bool :=
  ((0 <=? x_d s) && (x_d s <=? dmax) && (0 <=? x_m s) && (x_m s <? 60) && (0 <=? x_s s) && (x_s s <? 60)
   && (0 <=? x_c s) && (x_c s <? 100))%Z.
Definition sexa_value (s : sexa) : Z := fields_value (x_d s, x_m s, x_s s, x_c s).
Definition ra_str_okb (r : row) : bool :=
  match r_ra r, r_ra_str r with
  | Fin x, Some s =>
      negb (x_neg s) && fields_okb s 23 &&
      (Qleb (Qabs' (x * inject_Z hms_scale - inject_Z (sexa_value s))) str_tol
       || Qleb (Qabs' (x * inject_Z hms_scale - inject_Z (sexa_value s + 24 * hms_div1))) str_tol)
  | _, _ => false
  end.
Definition dec_str_okb (r : row) : bool :=
  match r_dec r, r_dec_str r with
  | Fin x, Some s =>
      fields_okb s 90 && Bool.eqb (x_neg s) (Qltb x 0) &&
      Qleb (Qabs' (Qabs' x * inject_Z dms_scale - inject_Z (sexa_value s))) str_tol
  | _, _ => false
  end.
Definition intflux_okb (r : row) : bool :=
  match r_peak r, r_int r, r_a r, r_b r, r_psf_a r, r_psf_b r with
  | Fin p, Fin i, Fin a, Fin b, Fin pa, Fin pb =>
      Qltb 0 pa && Qltb 0 pb &&
      Qleb (Qabs' (i * pa * pb - p * a * b) * 100) (Qabs' (p * a * b))
  | _, _, _, _, _, _ => false
  end.
Close Scope Q_scope.

Definition row_ok (r : row) : bool :=
  shape_okb r && pa_okb r && ra_okb r && dec_okb r && flags_ok (r_flags r) && errs_okb r
  && ra_str_okb r && dec_str_okb r && intflux_okb r && (0 <=? r_island r) && (0 <=? r_source r).
(* which clauses fail: for reporting (1 shape, 2 pa, 3 ra, 4 dec, 5 flags, 6 errors, 7 ra_str, 8 dec_str,
   9 int_flux, 10 ids) *)
Definition row_failures (r : row) : list Z :=
  (if shape_okb r then [] else [1]) ++ (if pa_okb r then [] else [2]) ++ (if ra_okb r then [] else [3]) ++
  (if dec_okb r then [] else [4]) ++ (if flags_ok (r_flags r) then [] else [5]) ++ (if errs_okb r then [] else [6]) ++
  (if ra_str_okb r then [] else [7]) ++ (if dec_str_okb r then [] else [8]) ++ (if intflux_okb r then [] else [9]) ++
  (if (0 <=? r_island r) && (0 <=? r_source r) then [] else [10]).

Definition pair_eqb (p q : Z * Z) : bool := (fst p =? fst q) && (snd p =? snd q).
Fixpoint nodupb {A : Type} (eqb : A -> A -> bool) (l : list A) : bool :=
  match l with [] => true | x :: t => negb (existsb (eqb x) t) && nodupb eqb t end.
Definition pairs_of (c : list row) : list (Z * Z) := map (fun r => (r_island r, r_source r)) c.
(* the components of an island are numbered from 0 without holes *)
Definition contiguousb (ps : list (Z * Z)) : bool :=
  forallb (fun p => (0 <=? snd p) && ((snd p =? 0) || existsb (pair_eqb (fst p, snd p - 1)) ps)) ps.

Definition cat_ok (c : list row) : bool :=
  forallb row_ok c && nodupb pair_eqb (pairs_of c) && nodupb Z.eqb (map r_uuid c) && contiguousb (pairs_of c).

(* island rows (doislandflux) against the component rows and the detected pixels *)
Record irow := mkIrow {
  i_island : Z; i_components : Z; i_pixels : Z; i_xw : Z; i_yw : Z;
  i_xmin : Z; i_xmax : Z; i_ymin : Z; i_ymax : Z; i_flags : N }.
(* what an independent detection (flood fill of the image) says about the island with this number *)
Record detected := mkDet { d_pixels : Z; d_xmin : Z; d_xmax : Z; d_ymin : Z; d_ymax : Z }.

Definition count_island (ps : list (Z * Z)) (i : Z) : Z :=
  Z.of_nat (length (filter (fun p => fst p =? i) ps)).
Definition irow_ok (ps : list (Z * Z)) (ir : irow) (d : detected) : bool :=
  (i_components ir =? count_island ps (i_island ir)) && (1 <=? i_components ir)
  && (i_pixels ir =? d_pixels d) && (1 <=? i_pixels ir) && (i_pixels ir <=? i_xw ir * i_yw ir)
  && (i_xmin ir =? d_xmin d) && (i_xmax ir =? d_xmax d) && (i_ymin ir =? d_ymin d) && (i_ymax ir =? d_ymax d)
  && (i_xw ir =? i_xmax ir - i_xmin ir) && (i_yw ir =? i_ymax ir - i_ymin ir)
  && flags_ok (i_flags ir).
Definition islands_ok (c : list row) (irs : list (irow * detected)) : bool :=
  forallb (fun p => irow_ok (pairs_of c) (fst p) (snd p)) irs
  && nodupb Z.eqb (map (fun p => i_island (fst p)) irs)
  && forallb (fun p => existsb (fun q => i_island (fst q) =? fst p) irs) (pairs_of c).

(* diagnosis of a failing catalogue (cat_ok is the verified predicate; this only says where it fails) *)
Definition cat_report (c : list row) : list (list Z) * bool * bool * bool :=
  (map row_failures c, nodupb pair_eqb (pairs_of c), nodupb Z.eqb (map r_uuid c), contiguousb (pairs_of c)).

(* encoding of an fval for the harness: (kind, numerator, denominator) of the reduced fraction;
   kind 0 finite, 1 +inf, 2 -inf, 3 NaN *)
Definition fenc (x : fval) : Z * Z * Z :=
  match x with
  | Fin q => (0, Qnum (Qred q), Z.pos (Qden (Qred q)))
  | PInf => (1, 0, 1) | NInf => (2, 0, 1) | NaN => (3, 0, 1)
  end.
Definition fenc_opt (x : option fval) : option (Z * Z * Z) :=
  match x with Some v => Some (fenc v) | None => None end.
Definition shape_enc (s : shape) : list (Z * Z * Z) := map fenc [s_a s; s_b s; s_pa s; s_ea s; s_eb s].
Definition cls_code (c : cls) : Z :=
  match c with Pos => 0 | MinusOne => 1 | NegOther => 2 | Zero => 3 | CNan => 4 | CPInf => 5 | CNInf => 6 | PyNone => 7 end.
Definition cls_of_code (z : Z) : cls :=
  match z with 0 => Pos | 1 => MinusOne | 2 => NegOther | 3 => Zero | 4 => CNan | 5 => CPInf | 6 => CNInf | _ => PyNone end.
Definition err_out_enc (o : option err_out) : option (list Z * bool) :=
  match o with Some out => Some (map cls_code (err_out_list out), eo_wcserr out) | None => None end.
