(* C19 - executable model of AegeanTools/cluster.py : regroup_dbscan, regroup / regroup_vectorized
   and the relabelling loop they share.  No proofs here (Proofs/ClusterProofs.v).

   A source is a record; [s_id] is the identity of the python object (the row of the original
   catalogue), [s_pt] its position as a rational unit vector (x/d, y/d, z/d) on an integer lattice,
   [s_dec] its declination on an integer scale (only its order matters, plus dec - far), [s_flux] the
   peak flux, [s_island]/[s_source] the two labels that regrouping rewrites, [s_nbrs] an optional
   table of the ids it is linked to (used when the link relation is supplied as a table), [s_rest]
   stands for every other attribute (a, b, pa, flags, uuid, errors, psf ...).

   Leaves (sort keys, first labels, decmin, the early `new group` test, scan directions) come from
   Gen/ClusterShape.v.  sklearn's DBSCAN is a parameter [dbscan] of the model: the labels_ array it
   returns for the catalogue; its specification [comp_labels] (index of the connectivity class, classes
   numbered by their first row) is a hypothesis of the theorems, validated on every run. *)
From Coq Require Import ZArith Bool List.
From Aegean Require Import Gen.ClusterShape Lib.Graph Lib.GraphFast.
Import ListNotations.
Open Scope Z_scope.

Record lpt := mkPt { px : Z; py : Z; pz : Z; pd : Z }.

Record source := mkSource {
  s_id : Z; s_pt : lpt; s_dec : Z; s_flux : Z; s_island : Z; s_source : Z; s_nbrs : list Z; s_rest : Z }.

Definition set_labels (s : source) (i c : Z) : source :=
  mkSource (s_id s) (s_pt s) (s_dec s) (s_flux s) i c (s_nbrs s) (s_rest s).
Definition set_nbrs (s : source) (l : list Z) : source :=
  mkSource (s_id s) (s_pt s) (s_dec s) (s_flux s) (s_island s) (s_source s) l (s_rest s).
(* everything except the two labels *)
Definition strip (s : source) : source := set_labels s 0 0.

Definition pt_eqb (p q : lpt) : bool :=
  (px p =? px q) && (py p =? py q) && (pz p =? pz q) && (pd p =? pd q).
Fixpoint zlist_eqb (a b : list Z) : bool :=
  match a, b with
  | [], [] => true
  | x :: a', y :: b' => if x =? y then zlist_eqb a' b' else false
  | _, _ => false
  end.
Definition source_eqb (a b : source) : bool :=
  if s_id a =? s_id b then
    pt_eqb (s_pt a) (s_pt b) && (s_dec a =? s_dec b) && (s_flux a =? s_flux b) && (s_island a =? s_island b) &&
    (s_source a =? s_source b) && zlist_eqb (s_nbrs a) (s_nbrs b) && (s_rest a =? s_rest b)
  else false.

(* ---------- link relations ---------- *)

(* Euclidean distance of the unit vectors <= eps, with eps^2 = en/ed (ed > 0), cross-multiplied:
   |p*qd - q*pd|^2 * ed <= en * (pd*qd)^2 *)
Definition sq (x : Z) : Z := x * x.
Definition chord2_num (p q : lpt) : Z :=
  sq (px p * pd q - px q * pd p) + sq (py p * pd q - py q * pd p) + sq (pz p * pd q - pz q * pd p).
Definition chord2_den (p q : lpt) : Z := sq (pd p * pd q).
Definition link_chord (en ed : Z) (a b : source) : bool :=
  ed * chord2_num (s_pt a) (s_pt b) <=? en * chord2_den (s_pt a) (s_pt b).

(* the relation read from the table carried by the sources *)
Definition link_tbl (a b : source) : bool := existsb (Z.eqb (s_id b)) (s_nbrs a).
(* tabulate a relation once (n^2 tests) *)
Definition tabulate (link : source -> source -> bool) (cat : list source) (s : source) : source :=
  set_nbrs s (map s_id (filter (link s) cat)).
Definition with_nbrs (link : source -> source -> bool) (cat : list source) : list source :=
  map (tabulate link cat) cat.

(* ---------- sorted(group, key=..) : stable ---------- *)

Section Sort.
Variable key : source -> Z.
Fixpoint insert (x : source) (l : list source) : list source :=
  match l with
  | [] => [x]
  | y :: t => if key x <=? key y then x :: l else y :: insert x t
  end.
Definition isort (l : list source) : list source := fold_right insert [] l.
End Sort.

(* sorted(.., reverse=True) keeps the original order of equal keys: it is the stable sort by -key *)
Definition order_key (key : Z -> Z) (reverse : bool) (s : source) : Z :=
  if reverse then - key (s_flux s) else key (s_flux s).

Fixpoint index_of (i : Z) (l : list source) : Z :=
  match l with
  | [] => 0
  | y :: t => if s_id y =? i then 0 else 1 + index_of i t
  end.

(* for comp, src in enumerate(sorted(group, key)): src.island = isle; src.source = comp
   (the order of the group itself is not changed) *)
Definition relabel_group (key : Z -> Z) (reverse : bool) (first_src isle : Z) (g : list source) : list source :=
  let sorted := isort (order_key key reverse) g in
  map (fun s => set_labels s isle (first_src + index_of (s_id s) sorted)) g.
Fixpoint relabel_from (key : Z -> Z) (reverse : bool) (first_src isle : Z) (gs : list (list source)) :=
  match gs with
  | [] => []
  | g :: t => relabel_group key reverse first_src isle g :: relabel_from key reverse first_src (isle + 1) t
  end.

(* ---------- regroup_dbscan ---------- *)

Definition classes (link : source -> source -> bool) (cat : list source) : list (list source) :=
  components_fast source source_eqb link cat.
Fixpoint class_index (cls : list (list source)) (s : source) : nat :=
  match cls with
  | [] => O
  | C :: t => if mem source source_eqb s C then O else S (class_index t s)
  end.
(* specification of DBSCAN(eps, min_samples = 1).fit(X).labels_ *)
Definition comp_labels (link : source -> source -> bool) (cat : list source) : list nat :=
  map (class_index (classes link cat)) cat.

(* unique_labels = set(labels), iterated (small non-negative ints: ascending) *)
Definition uniq_labels (labels : list nat) : list nat :=
  filter (fun l => existsb (Nat.eqb l) labels) (seq 0 (S (list_max labels))).
(* list(map(srccat.__getitem__, np.where(labels == l)[0])) *)
Definition rows_with (labels : list nat) (cat : list source) (l : nat) : list source :=
  map snd (filter (fun p => Nat.eqb (fst p) l) (combine labels cat)).
Definition groups_of (labels : list nat) (cat : list source) : list (list source) :=
  map (rows_with labels cat) (uniq_labels labels).

Definition regroup_dbscan_with (labels : list nat) (cat : list source) : list (list source) :=
  relabel_from dbscan_sort_key dbscan_sort_reverse dbscan_first_source dbscan_first_island (groups_of labels cat).
Definition regroup_dbscan (dbscan : list source -> list nat) (cat : list source) : list (list source) :=
  regroup_dbscan_with (dbscan cat) cat.

(* ---------- regroup / regroup_vectorized (greedy) ---------- *)

Section Greedy.
Variable link : source -> source -> bool.   (* link rec m : m passes the RA pre-filter of rec and dist(rec, m) < eps *)
Variable far : Z.

(* order = np.argsort(srccat.dec, kind='mergesort')[::-1] *)
Definition dec_order (cat : list source) : list source :=
  let asc := isort s_dec cat in if greedy_order_reversed then rev asc else asc.

(* groups are kept newest first, their members newest first: reversed(groups) is the list itself and
   group[-1] its head *)
Definition near (rec : source) (g : list source) : bool := existsb (link rec) g.
Definition last_dec (g : list source) : Z := match g with [] => 0 | m :: _ => s_dec m end.
(* one pass of `for group in reversed(groups)`: how many times the early test appended [idx], and the
   groups after a join (None: the loop ran to its else) *)
Fixpoint scan (rec : source) (gs : list (list source)) : nat * option (list (list source)) :=
  match gs with
  | [] => (O, None)
  | g :: t =>
    let k0 := if greedy_early_new_group (last_dec g) (greedy_decmin (s_dec rec) far) then 1%nat else O in
    if near rec g then (k0, Some ((rec :: g) :: t))
    else let '(k, r) := scan rec t in ((k0 + k)%nat, option_map (cons g) r)
  end.
Definition gstep (gs : list (list source)) (rec : source) : list (list source) :=
  let '(k, r) := scan rec gs in
  repeat [rec] k ++ match r with Some gs' => gs' | None => [rec] :: gs end.
Definition greedy_groups (cat : list source) : list (list source) :=
  map (@rev source) (rev (fold_left gstep (dec_order cat) [])).
Definition regroup_greedy (cat : list source) : list (list source) :=
  relabel_from greedy_sort_key greedy_sort_reverse greedy_first_source greedy_first_island (greedy_groups cat).
End Greedy.

(* ---------- observations for the correspondence check ---------- *)
Definition obs (gs : list (list source)) : list (list (Z * Z * Z)) :=
  map (map (fun s => (s_id s, s_island s, s_source s))) gs.
Definition nat_labels (l : list nat) : list Z := map Z.of_nat l.
