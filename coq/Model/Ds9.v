(* C09 (extension) - model of the front end that turns user shapes into circles / polygons / pixel sets:
   MIMAS.circle2circle, box2poly, poly2poly, reg2mim (DS9 text), MIMAS.mask2mim (image mask) and the argument handling of
   Region.add_circles (scalar / sequences).

   Text is a list of character codes.  re.split('[(\s,)]', line) is `split`; the word indices, the cut `[:-1]`, the units, the
   corner arithmetic, the slices of poly2poly, the dispatch of reg2mim, the selection / axis order / depths of mask2mim come from
   Gen/Ds9.v (regenerated from MIMAS.py / regions.py on every run).

   astropy is NOT modelled: `Angle(word, unit).degree`, `Angle(float, unit).degree`, `float(word)` and `SkyCoord(ra, dec)` are the
   record `astro` of functions; healpy / wcslib appear as function arguments.  The theorems in Proofs/Ds9Proofs.v make explicit
   hypotheses about them, which the harness validates against the real libraries on every run.
   The `*_sym` functions are the discrete part (which word goes to which library call with which unit); the harness compares them
   exactly with the real functions.  No proofs in this file. *)
From Coq Require Import Reals ZArith Bool List.
From Aegean Require Import Lib.RBase Gen.SkyCoords Gen.Regions Gen.Ds9 Model.RegionModel Model.SkyCoords.
Import ListNotations.
Open Scope Z_scope.

Definition str := list Z.
Definition is_in (c : Z) (l : list Z) : bool := existsb (Z.eqb c) l.

(* re.split(<character class>, s): every delimiter character ends a word (so adjacent delimiters give empty words) *)
Fixpoint split (delims : list Z) (s : str) : list str :=
  match s with
  | [] => [[]]
  | c :: t => if is_in c delims then [] :: split delims t
              else match split delims t with w :: ws => (c :: w) :: ws | [] => [[c]] end
  end.

Definition word (i : Z) (ws : list str) : option str := if i <? 0 then None else nth_error ws (Z.to_nat i).
(* w[:-k] *)
Definition cut_last (k : Z) (w : str) : str := firstn (length w - Z.to_nat k) w.
Definition has_colon (w : str) : bool := is_in 58 w.
(* w.strip() == '' (ASCII white space) *)
Definition ws_chars : list Z := [9; 10; 11; 12; 13; 32].
Definition blank (w : str) : bool := forallb (fun c => is_in c ws_chars) w.
Fixpoint starts_with (p s : str) : bool :=
  match p, s with
  | [], _ => true
  | a :: p', b :: s' => (a =? b) && starts_with p' s'
  | _ :: _, [] => false
  end.

(* l[start::step] *)
Fixpoint stride_aux (fuel : nat) (step : nat) (l : list str) : list str :=
  match fuel with
  | O => []
  | S f => match l with [] => [] | a :: t => a :: stride_aux f step (skipn (pred step) t) end
  end.
Definition py_slice (start step : Z) (l : list str) : list str :=
  stride_aux (length l) (Z.to_nat step) (skipn (Z.to_nat start) l).

(* a word handed to Angle(.., unit): (unit code, word) *)
Definition aword := (Z * str)%type.
Definition ra_unit (colon plain : Z) (w : str) : Z := if has_colon w then colon else plain.

(* ---- circle2circle: None = IndexError (too few words) *)
Definition circle_sym (line : str) : option (aword * aword * aword) :=
  let ws := split circle_delims line in
  match word circle_ra_word ws, word circle_dec_word ws, word circle_radius_word ws with
  | Some ra, Some dec, Some r =>
      Some ((ra_unit circle_ra_unit_colon circle_ra_unit_plain ra, ra), (circle_dec_unit, dec),
            (circle_radius_unit, cut_last circle_radius_strip r))
  | _, _, _ => None
  end.

(* ---- box2poly: (ra, dec, width word after the cut, height word after the cut) *)
Definition box_sym (line : str) : option (aword * aword * str * str) :=
  let ws := split box_delims line in
  match word box_ra_word ws, word box_dec_word ws, word box_width_word ws, word box_height_word ws with
  | Some ra, Some dec, Some w, Some h =>
      Some ((ra_unit box_ra_unit_colon box_ra_unit_plain ra, ra), (box_dec_unit, dec),
            cut_last box_width_strip w, cut_last box_height_strip h)
  | _, _, _, _ => None
  end.

(* ---- poly2poly: the (ra, dec) word pairs that are parsed, in order *)
Definition poly_pairs (ws : list str) : list (str * str) :=
  filter (fun p => negb (blank (fst p) || blank (snd p)))
         (combine (py_slice poly_ra_start poly_ra_step ws) (py_slice poly_dec_start poly_dec_step ws)).
Definition poly_units (p : str * str) : aword * aword :=
  if has_colon (fst p) then ((poly_ra_unit_colon, fst p), (poly_dec_unit_colon, snd p))
  else ((poly_ra_unit_plain, fst p), (poly_dec_unit_plain, snd p)).
Definition poly_sym (line : str) : list (aword * aword) := map poly_units (poly_pairs (split poly_delims line)).

(* ---- reg2mim: which parser a line goes to (0 = ignored), after the comment filter *)
Definition line_kind (line : str) : Z :=
  match line with
  | c :: _ => if c =? reg_comment_char then 0
              else match find (fun d => starts_with (fst d) line) reg_dispatch with Some d => snd d | None => 0 end
  | [] => 0
  end.
Inductive shape_sym :=
| SCircle (c : aword * aword * aword)
| SBox (b : aword * aword * str * str)
| SPoly (p : list (aword * aword))
| SRaise.                                   (* IndexError inside the parser *)
Definition line_sym (line : str) : option shape_sym :=
  match line_kind line with
  | 1 => Some (match box_sym line with Some b => SBox b | None => SRaise end)
  | 2 => Some (match circle_sym line with Some c => SCircle c | None => SRaise end)
  | 3 => Some (SPoly (poly_sym line))
  | _ => None
  end.
(* the circles (container.include_circles) and polygons (container.include_polygons), each in file order *)
Definition reg_sym (lines : list str) : list shape_sym * list shape_sym :=
  let shapes := flat_map (fun l => match line_sym l with Some s => [s] | None => [] end) lines in
  (filter (fun s => match s with SCircle _ => true | SRaise => true | _ => false end) shapes,
   filter (fun s => match s with SCircle _ => false | _ => true end) shapes).

(* ---- the values: astropy as a record of functions *)
Open Scope R_scope.
Record astro := mkAstro {
  angle_str : Z -> str -> R;        (* Angle(word, unit=<code>).degree *)
  angle_num : Z -> R -> R;          (* Angle(x, unit=<code>).degree for a float x *)
  pyfloat : str -> R;               (* float(word) *)
  skycoord : R -> R -> R * R        (* SkyCoord(Angle ra, Angle dec) -> (.ra.degree, .dec.degree), arguments in degrees *)
}.
Definition aval (A : astro) (w : aword) : R := angle_str A (fst w) (snd w).

(* [ra, dec, radius] in degrees *)
Definition circle2circle (A : astro) (line : str) : option (R * R * R) :=
  match circle_sym line with
  | Some (ra, dec, r) => Some (aval A ra, aval A dec, aval A r)
  | None => None
  end.

Definition box_values (A : astro) (b : aword * aword * str * str) : list (R * R) :=
  let '(ra, dec, w, h) := b in
  let c := skycoord A (aval A ra) (aval A dec) in
  box_corners (fst c) (snd c)
              (angle_num A box_width_unit (box_half_width (pyfloat A w)))
              (angle_num A box_height_unit (box_half_height (pyfloat A h))).
Definition box2poly (A : astro) (line : str) : option (list (R * R)) := option_map (box_values A) (box_sym line).

Definition poly_values (A : astro) (p : list (aword * aword)) : list (R * R) :=
  map (fun v => skycoord A (aval A (fst v)) (aval A (snd v))) p.
Definition poly2poly (A : astro) (line : str) : list (R * R) := poly_values A (poly_sym line).

(* ---- Region.add_circles argument handling: scalars are wrapped, sequences are zipped (the shortest wins) *)
Inductive circle_args := CScalar (ra dec r : R) | CVector (ras decs rs : list R).
Definition circles_of (a : circle_args) : list circle :=
  match a with
  | CScalar ra dec r => [(ra, dec, r)]
  | CVector ras decs rs => combine (combine ras decs) rs
  end.
Definition add_circles_args (hp : healpy) (s : region) (a : circle_args) (d : option Z) : region :=
  add_circles hp s (circles_of a) d.

(* ---- mask2mim *)
Open Scope Z_scope.
(* image = rows of pixel values; None = NaN *)
Definition image := list (list (option Z)).
Definition selects (v : option Z) (thr : Z) : bool :=
  match v with
  | None => (mask_select_cmp =? 2)                      (* NaN compares false, except under != *)
  | Some x => match mask_select_cmp with
              | 0 => thr <=? x | 1 => thr <? x | 2 => negb (x =? thr) | 3 => x <=? thr | 4 => x <? thr | _ => x =? thr
              end
  end.
Fixpoint enumerate {A} (i : Z) (l : list A) : list (Z * A) :=
  match l with [] => [] | a :: t => (i, a) :: enumerate (i + 1) t end.
(* np.where(data <op> threshold): (row, col) pairs in row-major order *)
Definition selected (img : image) (thr : Z) : list (Z * Z) :=
  flat_map (fun ir => map (fun jv => (fst ir, fst jv))
                          (filter (fun jv => selects (snd jv) thr) (enumerate 0 (snd ir))))
           (enumerate 0 img).
(* the two pixel coordinates handed to wcs.all_pix2world, in argument order *)
Definition world_args (rc : Z * Z) : Z * Z := if mask_world_first_is_col then (snd rc, fst rc) else (fst rc, snd rc).
(* region = Region(maxdepth); add_pixels(pix, depth); _renorm() *)
Definition mask_region (D : Z) (pixs : list Z) : region :=
  renorm (add_pixels (init (mask_region_depth D)) (mask_insert_depth D) pixs).

Section Mask.
  Variable hp : healpy.
  Variable vec2pix : Z -> bool -> vec -> Z.               (* depth (nside = 2^depth), nest, vector *)
  Variable pix2world : R -> R -> Z -> R * R.              (* wcs.all_pix2world(a, b, origin) -> (ra, dec) in degrees *)
  Definition mask_sky (rc : Z * Z) : R * R :=
    let a := world_args rc in pix2world (IZR (fst a)) (IZR (snd a)) mask_wcs_origin.
  Definition mask_pix (D : Z) (rc : Z * Z) : Z :=
    let s := mask_sky rc in
    vec2pix (mask_pix_depth D) mask_pix_nest (sky2vec hp (rad (fst s), rad (snd s))).
  Definition mask2mim (D : Z) (img : image) (thr : Z) : region :=
    mask_region D (map (mask_pix D) (selected img thr)).
End Mask.

(* observation for the exact correspondence check: healpy and wcslib replaced by the list of pixels they returned *)
Definition mask_obs (D : Z) (pixs : list Z) : list (list Z) := obs_levels (mask_region D pixs).
