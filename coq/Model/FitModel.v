(* C04 (and C01/C14) - the multi-component elliptical Gaussian model, the rows of the analytic
   Jacobian and the stderr assignment of covar_errors, over the generated leaves of
   Gen/Gauss.v (gauss, d_amp .. d_theta, jacobian_order, stderr_order, stderr_index_restarts). *)
From Coq Require Import Reals List Arith.
From Aegean Require Import Lib.RBase Gen.Gauss.
Import ListNotations.
Open Scope R_scope.

Record comp := mkComp { c_amp : R; c_xo : R; c_yo : R; c_sx : R; c_sy : R; c_theta : R }.

(* parameters are numbered amp=0 xo=1 yo=2 sx=3 sy=4 theta=5 *)
Definition get_par (c : comp) (p : nat) : R :=
  match p with
  | 0%nat => c_amp c | 1%nat => c_xo c | 2%nat => c_yo c | 3%nat => c_sx c | 4%nat => c_sy c | _ => c_theta c
  end.
Definition set_par (c : comp) (p : nat) (t : R) : comp :=
  match p with
  | 0%nat => mkComp t (c_xo c) (c_yo c) (c_sx c) (c_sy c) (c_theta c)
  | 1%nat => mkComp (c_amp c) t (c_yo c) (c_sx c) (c_sy c) (c_theta c)
  | 2%nat => mkComp (c_amp c) (c_xo c) t (c_sx c) (c_sy c) (c_theta c)
  | 3%nat => mkComp (c_amp c) (c_xo c) (c_yo c) t (c_sy c) (c_theta c)
  | 4%nat => mkComp (c_amp c) (c_xo c) (c_yo c) (c_sx c) t (c_theta c)
  | _ => mkComp (c_amp c) (c_xo c) (c_yo c) (c_sx c) (c_sy c) t
  end.

Definition gauss_c (c : comp) (x y : R) : R :=
  gauss x y (c_amp c) (c_xo c) (c_yo c) (c_sx c) (c_sy c) (c_theta c).
(* the code's derivative expression for parameter p *)
Definition deriv (p : nat) (c : comp) (x y : R) : R :=
  let f := match p with
           | 0%nat => d_amp | 1%nat => d_xo | 2%nat => d_yo | 3%nat => d_sx | 4%nat => d_sy | _ => d_theta
           end in
  f x y (c_amp c) (c_xo c) (c_yo c) (c_sx c) (c_sy c) (c_theta c).

(* ntwodgaussian_lmfit: the sum of the components *)
Definition model (cs : list comp) (x y : R) : R := fold_right (fun c acc => gauss_c c x y + acc) 0 cs.

Fixpoint upd {A} (l : list A) (i : nat) (v : A) : list A :=
  match l, i with
  | [], _ => []
  | _ :: t, O => v :: t
  | h :: t, S j => h :: upd t j v
  end.

(* free parameters, component by component, in the given per-component order.
   vs : per component the six `vary` flags *)
Definition slots_of (order : list nat) (i : nat) (v : list bool) : list (nat * nat) :=
  map (pair i) (filter (fun p => nth p v false) order).
Fixpoint slots (order : list nat) (i : nat) (vs : list (list bool)) : list (nat * nat) :=
  match vs with
  | [] => []
  | v :: r => slots_of order i v ++ slots order (S i) r
  end.

(* fitting.jacobian: one row per free parameter *)
Definition jac_rows (cs : list comp) (vs : list (list bool)) (x y : R) : list R :=
  map (fun ip => match nth_error cs (fst ip) with Some c => deriv (snd ip) c x y | None => 0 end)
      (slots jacobian_order 0 vs).

(* covar_errors: which entry of onesigma each free (component, parameter) receives *)
Fixpoint assign (restart : bool) (order : list nat) (i j : nat) (vs : list (list bool))
  : list ((nat * nat) * nat) :=
  match vs with
  | [] => []
  | v :: r => let j0 := if restart then 0%nat else j in
              let here := slots_of order i v in
              combine here (seq j0 (length here)) ++ assign restart order (S i) (j0 + length here) r
  end.
Definition stderr_slots (vs : list (list bool)) := assign stderr_index_restarts stderr_order 0 0 vs.

(* the whitened, noise-scaled residual handed to lmfit is a fixed linear map of (model - data):
   one output entry is  sum_m w_m * (model(x_m,y_m) - data_m)  with w_m = B[m][k] / errs *)
Definition lin_residual (pts : list (R * R * R * R)) (f : R -> R -> R) : R :=
  fold_right (fun q acc => let '(x, y, d, w) := q in w * (f x y - d) + acc) 0 pts.
Definition lin_jacobian (pts : list (R * R * R * R)) (g : R -> R -> R) : R :=
  fold_right (fun q acc => let '(x, y, d, w) := q in w * g x y + acc) 0 pts.
