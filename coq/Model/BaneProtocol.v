(* C07 - BANE's stripe layout and its synchronisation protocol as a transition system.

   One task per stripe is queued on a process pool of `pool` workers (maxtasksperchild=1: a
   slot is busy from the start of a task to its end).  Each stripe: compute the background of
   its rows and write them to shared memory; wait at the barrier; read the background of its
   rows PLUS the halo rows of its neighbours and subtract; compute and write the noise; (if
   masking) wait at the barrier again; write NaN over the blank pixels of its own rows.  A
   Python exception in a stripe is caught by the wrapper, which aborts the barrier (if
   abort_on_error) and re-raises; a stripe waiting at an aborted barrier gets
   BrokenBarrierError.  The parent waits for all tasks and, in a finally block, unlinks the
   shared memory.  Which waits exist, whether errors abort the barrier and the pool size are
   leaves regenerated from BANE.py (Gen/BaneSync.v). *)
From Coq Require Import ZArith Bool List Lia Arith.
From Aegean Require Import Gen.BaneSync.
Import ListNotations.
Close Scope Z_scope.
Local Open Scope nat_scope.

Inductive pc := Queued | Bkg | Wait1 | Sub | Rms | Wait2 | Mask | Done | Failed.
Inductive act := Start | Arrive1 | Pass1 | Read | Arrive2 | Pass2 | Finish | Fail | Break.

Record stripe := mkStripe {
  s_pc : pc;
  arr1 : bool; arr2 : bool;          (* has arrived at the first / second wait *)
  bkg_written : bool; rms_written : bool; masked : bool;
  seen : option bool                 (* set by Read: were ALL stripes' background rows written and not yet masked? *)
}.
Record state := mkState { stripes : list stripe; broken : bool }.

Record cfg := mkCfg { n : nat; pool : nat; domask : bool; w1 : bool; w2 : bool; abrt : bool }.

(* the configuration the real code runs with, for `cores` workers and nn realised stripes *)
Definition the_cfg (cores nn : Z) (dm : bool) : cfg :=
  mkCfg (Z.to_nat nn) (Z.to_nat (pool_size cores nn)) dm wait_before_read wait_before_mask abort_on_error.

Definition fresh : stripe := mkStripe Queued false false false false false None.
Definition init (c : cfg) : state := mkState (repeat fresh (n c)) false.

Definition busy (p : pc) : bool :=
  match p with Bkg | Wait1 | Sub | Rms | Wait2 | Mask => true | _ => false end.
Definition running (s : state) : nat := length (filter (fun x => busy (s_pc x)) (stripes s)).
Definition finished (p : pc) : bool := match p with Done | Failed => true | _ => false end.
Definition final (s : state) : bool := forallb (fun x => finished (s_pc x)) (stripes s).

Fixpoint update {A} (l : list A) (i : nat) (x : A) : list A :=
  match l, i with
  | [], _ => []
  | _ :: t, O => x :: t
  | h :: t, S j => h :: update t j x
  end.

Definition set_pc (x : stripe) (p : pc) : stripe :=
  mkStripe p (arr1 x) (arr2 x) (bkg_written x) (rms_written x) (masked x) (seen x).

(* one step of stripe i; None = the action is not enabled *)
Definition step (c : cfg) (s : state) (i : nat) (a : act) : option state :=
  match nth_error (stripes s) i with
  | None => None
  | Some x =>
    let put y b := Some (mkState (update (stripes s) i y) b) in
    match a, s_pc x with
    | Start, Queued => if running s <? pool c then put (set_pc x Bkg) (broken s) else None
    | Arrive1, Bkg =>
        put (mkStripe (if w1 c then Wait1 else Sub) true (arr2 x) true (rms_written x) (masked x) (seen x)) (broken s)
    | Pass1, Wait1 =>
        if negb (broken s) && forallb arr1 (stripes s) then put (set_pc x Sub) (broken s) else None
    | Read, Sub =>
        put (mkStripe Rms (arr1 x) (arr2 x) (bkg_written x) (rms_written x) (masked x)
               (Some (forallb (fun y => bkg_written y && negb (masked y)) (stripes s)))) (broken s)
    | Arrive2, Rms =>
        put (mkStripe (if domask c then (if w2 c then Wait2 else Mask) else Done)
               (arr1 x) true (bkg_written x) true (masked x) (seen x)) (broken s)
    | Pass2, Wait2 =>
        if negb (broken s) && forallb arr2 (stripes s) then put (set_pc x Mask) (broken s) else None
    | Finish, Mask =>
        put (mkStripe Done (arr1 x) (arr2 x) (bkg_written x) (rms_written x) true (seen x)) (broken s)
    | Fail, (Bkg | Sub | Rms | Mask) => put (set_pc x Failed) (broken s || abrt c)
    | Break, (Wait1 | Wait2) => if broken s then put (set_pc x Failed) (broken s || abrt c) else None
    | _, _ => None
    end
  end.

Fixpoint run (c : cfg) (s : state) (sched : list (nat * act)) : option state :=
  match sched with
  | [] => Some s
  | (i, a) :: rest => match step c s i a with Some s' => run c s' rest | None => None end
  end.

Inductive reachable (c : cfg) : state -> Prop :=
| reach_init : reachable c (init c)
| reach_step : forall s i a s', reachable c s -> step c s i a = Some s' -> reachable c s'.

(* what the parent does once every task has ended *)
Inductive outcome := Return | Raise.
Definition parent_outcome (s : state) : outcome :=
  if existsb (fun x => match s_pc x with Failed => true | _ => false end) (stripes s) then Raise else Return.

(* the unique fault-free final state *)
Definition done_stripe (c : cfg) : stripe := mkStripe Done true true true true (domask c) (Some true).
Definition final_state (c : cfg) : state := mkState (repeat (done_stripe c) (n c)) false.

Definition good (c : cfg) : Prop :=
  1 <= n c /\ n c <= pool c /\ w1 c = true /\ w2 c = true /\ abrt c = true.

Definition has_fault (sched : list (nat * act)) : bool :=
  existsb (fun ia => match snd ia with Fail => true | _ => false end) sched.

(* termination measure: remaining phases *)
Definition rank (p : pc) : nat :=
  match p with Queued => 8 | Bkg => 7 | Wait1 => 6 | Sub => 5 | Rms => 4 | Wait2 => 3 | Mask => 2
             | Done => 0 | Failed => 0 end.
Definition measure (s : state) : nat := fold_right Nat.add 0 (map (fun x => rank (s_pc x)) (stripes s)).

(* ---- trace acceptance used by the correspondence check: the hook events of a real run
   (stripe index, phase) are mapped to actions; the run must be a run of the model *)
Definition code_act (k : Z) : act :=
  match k with
  | 0%Z => Start | 1%Z => Arrive1 | 2%Z => Pass1 | 3%Z => Read | 4%Z => Arrive2 | 5%Z => Pass2
  | 6%Z => Finish | 7%Z => Fail | _ => Break
  end.
Definition accepts (cores nn : Z) (dm : bool) (tr : list (Z * Z)) : list Z :=
  match run (the_cfg cores nn dm) (init (the_cfg cores nn dm))
            (map (fun e => (Z.to_nat (fst e), code_act (snd e))) tr) with
  | None => [(-1)%Z]
  | Some s => [if final s then 1%Z else 0%Z;
               match parent_outcome s with Return => 0%Z | Raise => 1%Z end;
               if forallb (fun x => match seen x with Some false => false | _ => true end) (stripes s) then 1%Z else 0%Z]
  end.

(* ---- stripe layout: ymins = range(0, rows, w); ymaxs = range(w, rows, w) + [rows] *)
Local Open Scope Z_scope.
Fixpoint range_step (lo hi st : Z) (fuel : nat) : list Z :=
  match fuel with
  | O => []
  | S f => if lo <? hi then lo :: range_step (lo + st) hi st f else []
  end.
Definition ymins (rows w : Z) : list Z := range_step 0 rows w (Z.to_nat rows).
Definition ymaxs (rows w : Z) : list Z := range_step w rows w (Z.to_nat rows) ++ [rows].
Definition layout (rows w : Z) : list (Z * Z) := combine (ymins rows w) (ymaxs rows w).
