(* C01 - closed-loop recovery.  Executable (over R) model of the two conversions that surround the
   optimiser, over the generated leaves of Gen/Recovery.v, Gen/Gauss.v and Gen/Sphere.v:

     render       sky source -> the pixel-space Gaussian that IS that source (sky2pix_ellipse, FWHM2CC,
                  1-based FITS pixel -> 0-based array index)
     params_of    image coordinates -> island coordinates (the fit runs on the island sub-array)
     to_component SourceFinder.result_to_components for one component: +xmin/+ymin, +1, CC2FHWM,
                  pix2sky_ellipse, arcseconds, fix_shape, pa_limit, RA wrap, int_flux / beam area
     bounds       the box estimate_lmfit_parinfo hands to lmfit for one summit

   The WCS (astropy / wcslib) is NOT modelled: P = WCSHelper.pix2sky and S = WCSHelper.sky2pix are
   section variables; psf_a / psf_b = the pixel beam that get_psf_sky2pix returns (no psf map).
   No proofs in this file. *)
From Coq Require Import Reals List Bool.
From Aegean Require Import Lib.RBase Gen.Sphere Gen.Gauss Gen.Recovery Model.FitModel.
Import ListNotations.
Open Scope R_scope.

(* an injected source in catalogue units: degrees, Jy/beam, FWHM in arcseconds, PA in degrees East of North *)
Record source := mkSource { s_ra : R; s_dec : R; s_peak : R; s_a : R; s_b : R; s_pa : R }.
(* the reported component *)
Record component := mkComponent { k_ra : R; k_dec : R; k_peak : R; k_a : R; k_b : R; k_pa : R; k_int : R }.

Definition t5_1 (t : R * R * R * R * R) : R := fst (fst (fst (fst t))).
Definition t5_2 (t : R * R * R * R * R) : R := snd (fst (fst (fst t))).
Definition t5_3 (t : R * R * R * R * R) : R := snd (fst (fst t)).
Definition t5_4 (t : R * R * R * R * R) : R := snd (fst t).
Definition t5_5 (t : R * R * R * R * R) : R := snd t.

(* `while test: pa = step(pa)` unrolled `fuel` times (the Python loop has no bound; Proofs/RecoveryProofs.v
   (pa_limit_spec) shows that the result lies in (-90, 90] for every -450 < pa <= 450, which covers every value
   that can reach it: a bearing in (-180, 180], plus 90 after fix_shape) *)
Fixpoint while_loop (test : R -> bool) (step : R -> R) (fuel : nat) (pa : R) : R :=
  match fuel with
  | O => pa
  | S n => if test pa then while_loop test step n (step pa) else pa
  end.
Definition pa_fuel : nat := 4%nat.
Definition pa_limit (pa : R) : R :=
  while_loop pa_hi_test pa_hi_step pa_fuel (while_loop pa_lo_test pa_lo_step pa_fuel pa).
Definition fix_shape (a b pa : R) : R * R * R :=
  if fix_shape_test a b then (b, a, fix_shape_pa pa) else (a, b, pa).

Section WCS.
  Variables P S : R * R -> R * R.
  Variables psf_a psf_b : R.        (* pixel beam (FWHM, pixels) *)
  Variables bmaj bmin : R.          (* header beam (FWHM, degrees) *)

  (* the pixel ellipse (FITS pixel coordinates, FWHM) of a sky source *)
  Definition pixel_ellipse (s : source) : R * R * R * R * R :=
    sky2pix_ellipse S (s_ra s) (s_dec s) (s_a s / 3600) (s_b s / 3600) (s_pa s).

  (* the injected pixel-space Gaussian, 0-based array coordinates (x = row, y = column), standard deviations *)
  Definition render (s : source) : comp :=
    let e := pixel_ellipse s in
    mkComp (s_peak s) (t5_1 e - 1) (t5_2 e - 1) (t5_3 e * FWHM2CC) (t5_4 e * FWHM2CC) (t5_5 e).

  (* island coordinates: the island sub-array starts at (xmin, ymin) *)
  Definition params_of (c : comp) (xmin ymin : R) : comp :=
    mkComp (c_amp c) (c_xo c - xmin) (c_yo c - ymin) (c_sx c) (c_sy c) (c_theta c).

  (* what the image holds at array index (x, y) when the sources are injected *)
  Definition image_of (srcs : list source) (x y : R) : R := model (map render srcs) x y.

  (* the sky ellipse (degrees) that result_to_components obtains for fitted island parameters *)
  Definition sky_ellipse (c : comp) (xmin ymin : R) : R * R * R * R * R :=
    let x_pix := rtc_x_pix (c_xo c) xmin in
    let y_pix := rtc_y_pix (c_yo c) ymin in
    let e := rtc_ellipse_args x_pix y_pix (c_sx c) (c_sy c) (c_theta c) in
    pix2sky_ellipse P (t5_1 e) (t5_2 e) (t5_3 e) (t5_4 e) (t5_5 e).

  (* arcseconds, fix_shape, pa_limit, RA wrap *)
  Definition finish_component (k : R * R * R * R * R) (peak flux : R) : component :=
    let a := t5_3 k * rtc_a_factor in
    let b := t5_4 k * rtc_b_factor in
    let f := fix_shape a b (t5_5 k) in
    let pa := pa_limit (snd f) in
    let ra := if rtc_ra_wrap_test (t5_1 k) then rtc_ra_wrapped (t5_1 k) else t5_1 k in
    mkComponent ra (t5_2 k) peak (fst (fst f)) (snd (fst f)) pa flux.

  Definition to_component (c : comp) (xmin ymin : R) : component :=
    let peak := rtc_peak (c_amp c) in
    finish_component (sky_ellipse c xmin ymin) peak
                     (rtc_int_flux peak (c_sx c) (c_sy c) / beamarea_pix psf_a psf_b).

  (* fitting.errors: the reported uncertainties of the axes (arcseconds) for standard errors err_sx, err_sy of the fitted
     standard deviations; (xo, yo) are the FITS pixel coordinates that result_to_components stored back into the model *)
  Definition reported_err_a (xo yo sx sy err_sx theta : R) : R :=
    let r := P (err_a_ref xo yo sx sy theta) in let o := P (err_a_off xo yo sx sy err_sx theta) in
    gcd (fst r) (snd r) (fst o) (snd o) * err_a_factor.
  Definition reported_err_b (xo yo sx sy err_sy theta : R) : R :=
    let r := P (err_b_ref xo yo sx sy theta) in let o := P (err_b_off xo yo sx sy err_sy theta) in
    gcd (fst r) (snd r) (fst o) (snd o) * err_b_factor.

  (* (err_a, err_b) as stored in the component *)
  Definition reported_err_axes (xo yo sx sy err_sx err_sy theta : R) : R * R :=
    let ea := reported_err_a xo yo sx sy err_sx theta in let eb := reported_err_b xo yo sx sy err_sy theta in
    if err_axes_follow_shape && Rltb sx sy then (eb, ea) else (ea, eb).

  (* the integrated flux of an injected source: peak x (source solid angle / beam solid angle) *)
  Definition injected_int_flux (s : source) : R :=
    s_peak s * ((s_a s / 3600) * (s_b s / 3600)) / (bmaj * bmin).
  Definition injected (s : source) : component :=
    mkComponent (s_ra s) (s_dec s) (s_peak s) (s_a s) (s_b s) (s_pa s) (injected_int_flux s).
End WCS.

(* the box of estimate_lmfit_parinfo for a summit with a POSITIVE peak pixel value `pk` at array index
   (px, py) of an island of shape (xsize, ysize); rms = noise at the peak pixel, ic / oc = inner / outer clip,
   (ba, bb) = pixel beam FWHM *)
Record summit := mkSummit { u_pk : R; u_px : R; u_py : R; u_rms : R; u_ic : R; u_oc : R; u_ba : R; u_bb : R;
                            u_xsize : R; u_ysize : R }.
Definition within (lohi : R * R) (v : R) : Prop := fst lohi <= v <= snd lohi.
Definition amp_bounds (u : summit) : R * R :=
  if amp_is_positive (u_pk u) then (amp_min_pos (u_pk u) (u_rms u) (u_ic u) (u_oc u), amp_max_pos (u_pk u) (u_rms u) (u_ic u) (u_oc u))
  else (amp_min_neg (u_pk u) (u_rms u) (u_ic u) (u_oc u), amp_max_neg (u_pk u) (u_rms u) (u_ic u) (u_oc u)).
Definition in_box (u : summit) (c : comp) : Prop :=
  within (amp_bounds u) (c_amp c) /\
  within (xo_bounds (u_px u) (u_py u) (u_ba u) (u_bb u) (u_xsize u) (u_ysize u)) (c_xo c) /\
  within (yo_bounds (u_px u) (u_py u) (u_ba u) (u_bb u) (u_xsize u) (u_ysize u)) (c_yo c) /\
  within (sx_bounds (u_px u) (u_py u) (u_ba u) (u_bb u) (u_xsize u) (u_ysize u)) (c_sx c) /\
  within (sy_bounds (u_px u) (u_py u) (u_ba u) (u_bb u) (u_xsize u) (u_ysize u)) (c_sy c).
(* the starting point of the fit *)
Definition start_of (u : summit) (bpa : R) : comp :=
  let i := shape_init (u_px u) (u_py u) (u_ba u) (u_bb u) (u_xsize u) (u_ysize u) in
  mkComp (u_pk u) (u_px u) (u_py u) (fst i) (snd i) bpa.

(* the parameterisations of one and the same pixel-space Gaussian *)
Inductive same_gaussian (c : comp) : comp -> Prop :=
| sg_refl : same_gaussian c c
| sg_half : same_gaussian c (mkComp (c_amp c) (c_xo c) (c_yo c) (c_sx c) (c_sy c) (c_theta c + 180))
| sg_swap_up : same_gaussian c (mkComp (c_amp c) (c_xo c) (c_yo c) (c_sy c) (c_sx c) (c_theta c + 90))
| sg_swap_down : same_gaussian c (mkComp (c_amp c) (c_xo c) (c_yo c) (c_sy c) (c_sx c) (c_theta c - 90)).
