(* Model of the beam, pixel-scale and separation helpers of AegeanTools.wcs_helpers (extension C16x).  No proofs here.

   A FITS header is (pres, val): which of the modelled keywords are present, and their values.  The HISTORY cards are a list of
   lines, each read through the two string tests of fix_aips_header (starts with the prefix, contains the marker) and the numbers
   float(words[k]).  `None` for the HISTORY list = the header has no HISTORY card at all.
   wcslib enters as P / S exactly as in Model/WcsHelper.v; the psf map is an array of shape (planes, shape 1, shape 2) and a second
   wcslib object whose answer (FITS pixel of a sky position, a binary64 value = num / den) is an input of the lookup. *)
From Coq Require Import Reals ZArith List Bool.
From Aegean Require Import Lib.RBase Gen.Sphere Gen.WcsHelper Gen.WcsBeam Model.WcsHelper.
Import ListNotations.
Open Scope R_scope.

Scheme Equality for hkey.

Record header := mkH { pres : hkey -> bool; val : hkey -> R }.

(* ---------------- get_pixinfo: the first branch whose keys are all present ---------------- *)
Fixpoint first_branch (p : hkey -> bool) (bs : list (list hkey)) (k : nat) : nat :=
  match bs with [] => k | b :: r => if forallb p b then k else first_branch p r (S k) end.
Definition pixinfo_branch (p : hkey -> bool) : nat := first_branch p pixinfo_keys 0.
Definition m_pixinfo (h : header) : R * (R * R) :=
  let k := pixinfo_branch (pres h) in (pixinfo_area k (val h), pixinfo_scale k (val h)).

(* ---------------- get_beam / Beam ---------------- *)
Inductive bres : Type := BNone | BRaise | BSome (b : R * R * R).     (* returns None / AssertionError / a Beam (a, b, pa) *)
Definition slot (h : header) (k : hkey) (d : option R) : option R := if pres h k then Some (val h k) else d.
Definition mk_beam (a b pa : R) : bres := if beam_ok a b pa then BSome (beam_attrs a b pa) else BRaise.
Definition m_get_beam (h : header) : bres :=
  match slot h get_beam_key_bmaj get_beam_default_bmaj, slot h get_beam_key_bmin get_beam_default_bmin,
        slot h get_beam_key_bpa get_beam_default_bpa with
  | Some a, Some b, Some pa => let '(x, y, z) := get_beam_ctor a b pa in mk_beam x y z
  | _, _, _ => BNone
  end.

(* ---------------- fix_aips_header ---------------- *)
Record hline := mkL { l_prefix : bool; l_marker : bool; l_word : Z -> R }.
Definition l_flags (l : hline) : bool * bool := (l_prefix l, l_marker l).
Fixpoint find_idx {A : Type} (f : A -> bool) (l : list A) (k : Z) : option Z :=
  match l with [] => None | a :: r => if f a then Some k else find_idx f r (k + 1)%Z end.
(* -2: KeyError (no HISTORY card); -1: header returned unchanged; k >= 0: the k-th HISTORY line supplies the beam *)
Definition m_fix_pick (p : hkey -> bool) (hist : option (list (bool * bool))) : Z :=
  if forallb p aips_skip_keys then (-1)%Z else
  match hist with
  | None => (-2)%Z
  | Some ls => match find_idx (fun l => fst l && snd l) ls 0%Z with None => (-1)%Z | Some k => k end
  end.
Definition set_key (l : hline) (h : header) (kv : hkey * Z) : header :=
  mkH (fun k => if hkey_beq k (fst kv) then true else pres h k)
      (fun k => if hkey_beq k (fst kv) then l_word l (snd kv) else val h k).
Definition no_line : hline := mkL false false (fun _ => 0).
(* result: None = KeyError; Some (header', a new HISTORY card was appended) *)
Definition m_fix_aips (h : header) (hist : option (list hline)) : option (header * bool) :=
  let k := m_fix_pick (pres h) (option_map (map l_flags) hist) in
  if (k =? -2)%Z then None else if (k =? -1)%Z then Some (h, false) else
  match hist with
  | Some ls => Some (fold_left (set_key (nth (Z.to_nat k) ls no_line)) aips_sets h, true)
  | None => None
  end.

(* ---------------- WCSHelper.from_header: which beam the helper gets ---------------- *)
Definition m_from_header_beam (arg : option (R * R * R)) (h : header) (hist : option (list hline)) : bres :=
  let h' := if from_header_consults_history then match m_fix_aips h hist with Some (x, _) => x | None => h end else h in
  let fromhdr := match m_get_beam h' with BNone => if from_header_none_raises then BRaise else BNone | r => r end in
  match arg with
  | Some b => if from_header_explicit_beam_wins then BSome b else fromhdr
  | None => fromhdr
  end.
(* the discrete part: 0 = the argument, 1 = the header keywords, 2 = nothing available (AssertionError) *)
Definition avail (p : hkey -> bool) (k : hkey) (d : option R) : bool := p k || match d with Some _ => true | None => false end.
Definition m_beam_src (arg : bool) (p : hkey -> bool) : Z :=
  if arg && from_header_explicit_beam_wins then 0%Z
  else if avail p get_beam_key_bmaj get_beam_default_bmaj && avail p get_beam_key_bmin get_beam_default_bmin
          && avail p get_beam_key_bpa get_beam_default_bpa then 1%Z else 2%Z.
Definition m_refpix (h : header) : R * R := (val h (fst from_header_refpix), val h (snd from_header_refpix)).

(* ---------------- sky_sep and the beam areas ---------------- *)
Definition m_sky_sep (P : pt -> pt) (pix1 pix2 : pt) : R := sky_sep (m_pix2sky P) pix1 pix2.
Definition m_beamarea_deg2 (P S : pt -> pt) (refpix : pt) (ba bb bpa : R) (pos : pt) : R :=
  let '(a, b, _) := m_psf_sky2sky P S refpix ba bb bpa pos in beamarea_deg2 a b.
Definition m_beamarea_pix (P S : pt -> pt) (refpix : pt) (ba bb bpa : R) : R :=
  let '(sx, sy, _) := m_psf_pix P S refpix ba bb bpa in beamarea_pix sx sy.

(* ---------------- psf map lookup: `x = int(np.clip(x, lo, hi))` on the binary64 value x = num / den (den > 0) ---------------- *)
Definition m_psf_index (lo hi : Z) (num den : Z) : Z :=
  Z.quot (Z.min (Z.max num (lo * den)) (hi * den)) den.            (* int() truncates towards zero *)
(* (f1, f2) = the FITS pixel that the psf wcs returns for the sky position, as fractions with a common denominator;
   the result is the pair of array indices used as psf_map[:, i, j] *)
Definition m_psf_cell (shape : Z -> Z) (f1 f2 den : Z) : Z * Z :=
  let sh := ((1 - psf_sky2pix_origin) * den)%Z in
  let p0 := (f1 - sh)%Z in let p1 := (f2 - sh)%Z in
  let x := if psf_sky2pix_swaps then p1 else p0 in
  let y := if psf_sky2pix_swaps then p0 else p1 in
  let ix := m_psf_index psf_clip_lo_x (psf_clip_hi_x (shape psf_shape_axis_x)) x den in
  let iy := m_psf_index psf_clip_lo_y (psf_clip_hi_y (shape psf_shape_axis_y)) y den in
  if psf_index_x_first then (ix, iy) else (iy, ix).
(* the cell of the array whose centre is nearest to the FITS pixel (f1, f2): array axis 1 is FITS axis 2, 0-based;
   floor (f + 1/2) - 1 = (2 num + den) / (2 den) - 1 *)
Definition nearest_index (n num den : Z) : Z := Z.min (Z.max ((2 * num + den) / (2 * den) - 1) 0) (n - 1).
Definition nearest_cell (shape : Z -> Z) (f1 f2 den : Z) : Z * Z :=
  (nearest_index (shape 1%Z) f2 den, nearest_index (shape 2%Z) f1 den).
