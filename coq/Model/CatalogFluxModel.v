(* C03 - integrated flux of a component as result_to_components computes it (over R).
   Leaves from Gen/CatRowsFlux.v. *)
From Coq Require Import Reals.
From Aegean Require Import Lib.RBase Gen.CatRowsFlux.
Open Scope R_scope.

(* source.int_flux = peak * sx * sy * CC2FHWM^2 * pi;  source.int_flux /= get_beamarea_pix(ra, dec)
   sx, sy: fitted sigma widths in pixels; pa, pb: FWHM axes of the beam in pixels at the source *)
Definition int_flux (peak sx sy pa pb : R) : R := int_flux_num peak sx sy / beamarea_pix pa pb.

(* a pixel -> sky map that is locally a similarity with scale s degrees per pixel: a length of l pixels
   becomes s * l degrees, stored in arcseconds *)
Definition sky_arcsec (s l : R) : R := arcsec_per_degree * (s * l).
