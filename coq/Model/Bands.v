(* C20 - image bands.  Hand-written model of fits_tools.load_image_band over the
   generated arithmetic leaves of Gen/Bands.v. *)
From Coq Require Import ZArith Bool List Lia.
From Aegean Require Import Gen.Bands.
Import ListNotations.
Open Scope Z_scope.

(* an image is a list of rows; band i of n keeps rows [row_min, row_max) *)
Definition band_rows {A} (img : list (list A)) (i n : Z) : list (list A) :=
  let N := Z.of_nat (length img) in
  let lo := row_min N i n in
  let hi := row_max N i n in
  firstn (Z.to_nat (hi - lo)) (skipn (Z.to_nat lo) img).

(* what load_image_band returns for an image of N rows: None when rejected *)
Record band_result := { br_lo : Z; br_hi : Z; br_naxis2 : Z; br_crpix2 : Z }.

Definition load_band (N crpix2 b0 b1 : Z) : option band_result :=
  if band_rejected b0 b1 then None
  else let lo := row_min N b0 b1 in
       let hi := row_max N b0 b1 in
       Some {| br_lo := lo; br_hi := hi;
               br_naxis2 := new_naxis2 lo hi; br_crpix2 := new_crpix2 crpix2 lo hi |}.

(* the linear part of the FITS pixel -> intermediate world coordinate map along axis 2:
   cdelt * (p - crpix).  p is the 1-based FITS pixel coordinate. *)
Definition fits_offset (crpix p : Z) : Z := p - crpix.

(* list form used by the correspondence check: [lo; hi; naxis2; crpix2] or [] *)
Definition load_band_l (N crpix2 b0 b1 : Z) : list Z :=
  match load_band N crpix2 b0 b1 with
  | None => []
  | Some r => [br_lo r; br_hi r; br_naxis2 r; br_crpix2 r]
  end.
