(* C08 / C12 - the abstract specification the Region model is proved to refine:
   a region IS a set of deepest-level (depth D) HEALPix pixels; every operation is the
   corresponding set operation.  Short enough to read in a minute; nothing here is
   executable on purpose (sets are predicates Z -> Prop). *)
From Coq Require Import ZArith Bool List Lia.
From Aegean Require Import Gen.Regions Model.RegionModel.
Import ListNotations.
Open Scope Z_scope.

(* the depth-D pixels a stored cell (level, pixel) stands for.  A cell of a coarser level
   stands for all its descendants (nested numbering: 4^k*p .. 4^k*(p+1)-1); a cell of a
   FINER level (only operands of union may have them) stands for its depth-D ancestor. *)
Definition cover (D : Z) (c : cell) (q : Z) : Prop :=
  if fst c <=? D
  then 4 ^ (D - fst c) * snd c <= q < 4 ^ (D - fst c) * (snd c + 1)
  else q = snd c / 4 ^ (fst c - D).

Definition cover_set (D : Z) (cs : list cell) (q : Z) : Prop :=
  exists c, In c cs /\ cover D c q.

(* abstraction function: the pixel set of a region *)
Definition absP (s : region) : Z -> Prop := cover_set (depth s) (cells s).

(* well-formed stored cells: valid level for the region and valid pixel number for the level *)
Definition vcell (D : Z) (c : cell) : Prop := 1 <= fst c <= D /\ 0 <= snd c < 12 * 4 ^ fst c.
Definition valid (s : region) : Prop := 1 <= depth s /\ Forall (vcell (depth s)) (cells s).
(* Python's self.demoted is non-empty only when it aliases pixeldict[maxdepth] and all other
   levels have just been emptied by _demote_all *)
Definition cache_ok (s : region) : Prop :=
  cached s = true -> forall c, In c (cells s) -> fst c = depth s.
Definition Inv (s : region) : Prop := valid s /\ cache_ok s.

(* which operations the theorems speak about: arguments valid for their level *)
Definition op_ok (D : Z) (o : op) : Prop :=
  match o with
  | AddPixels d ps | AddShape d ps => 1 <= d <= D /\ Forall (fun p => 0 <= p < 12 * 4 ^ d) ps
  | Union r _ => valid r
  | Without r | Intersect r | SymDiff r => Inv r
  | _ => True
  end.

(* the set-algebra meaning of each operation on a set A of depth-D pixels *)
Definition spec_step (D : Z) (A : Z -> Prop) (o : op) : Z -> Prop :=
  match o with
  | AddPixels d ps | AddShape d ps => fun q => A q \/ cover_set D (at_level d ps) q
  | Union r _ => fun q => A q \/ cover_set D (cells r) q
  | Without r => fun q => if depth r =? D then A q /\ ~ absP r q else A q
  | Intersect r => fun q => if depth r =? D then A q /\ absP r q else A q
  | SymDiff r => fun q => if depth r =? D then (A q /\ ~ absP r q) \/ (absP r q /\ ~ A q) else A q
  | _ => A
  end.

(* the answers the specification allows *)
Definition spec_out (D : Z) (A : Z -> Prop) (o : op) (r : out) : Prop :=
  match o with
  | Within qs => exists bs, r = OBools bs /\ length bs = length qs /\
                 forall i q b, nth_error qs i = Some q -> nth_error bs i = Some b -> (b = true <-> A q)
  | GetDemoted => exists l, r = OPix l /\ forall q, In q l <-> A q
  | Without x | Intersect x | SymDiff x => if depth x =? D then r = OUnit else r = OErr
  | _ => True
  end.

(* normal form: no patch of sky is stored twice; no four siblings that _renorm would merge *)
Definition no_overlap (s : region) : Prop :=
  forall c1 c2 q, In c1 (cells s) -> In c2 (cells s) -> cover (depth s) c1 q -> cover (depth s) c2 q -> c1 = c2.
Definition no_mergeable (s : region) : Prop :=
  forall d p, renorm_stop < d -> p mod 4 = 0 ->
    In (d, p) (cells s) -> In (d, p + 1) (cells s) -> In (d, p + 2) (cells s) -> In (d, p + 3) (cells s) -> False.

(* operations after which Python has renormalised *)
Definition renormalises (D : Z) (o : op) : bool :=
  match o with
  | AddShape _ _ | Renorm => true
  | Union _ r => r
  | Without x | Intersect x | SymDiff x => depth x =? D
  | _ => false
  end.

(* cardinality of the pixel set, as a list-free statement: l enumerates A without repetition *)
Definition enumerates (l : list Z) (A : Z -> Prop) : Prop := NoDup l /\ forall q, In q l <-> A q.
