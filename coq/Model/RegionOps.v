(* The same-depth set operations of regions.Region rebuilt from the generated method codes (C08 extension). *)
From Coq Require Import ZArith Bool List.
From Aegean Require Import Gen.Regions Gen.RegionOps Model.RegionModel.
Import ListNotations.
Open Scope Z_scope.

(* what a Python set method leaves in the receiver a, given the operand b *)
Definition py_set_update (k : Z) (a b : list Z) : list Z :=
  if k =? 0 then f_without a b else if k =? 1 then f_intersect a b else f_symdiff a b.

Definition without_src := setop (py_set_update op_without).
Definition intersect_src := setop (py_set_update op_intersect).
Definition symdiff_src := setop (py_set_update op_symmetric_difference).
