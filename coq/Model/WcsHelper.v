(* Model of AegeanTools.wcs_helpers.WCSHelper (pixel <-> sky for points, vectors, ellipses) over R.
   No proofs here.

   wcslib (astropy.wcs) is NOT modelled: it enters as two functions on FITS coordinates
       P : (p1, p2) -> (ra, dec)     pixel -> sky, p1 along FITS axis 1 (columns), p2 along axis 2 (rows),
                                     1-based as in the FITS standard
       S : (ra, dec) -> (p1, p2)     sky -> pixel
   (Section variables with hypotheses in Proofs/WcsHelperProofs.v; validated by the harness on every run).
   astropy's `origin` argument: all_pix2world(p, o) = P (p + (1 - o)), all_world2pix(s, o) = S s - (1 - o).

   The leaves of pix2sky / sky2pix (slot order, origin) and the four whole functions sky2pix_vec, pix2sky_vec,
   sky2pix_ellipse, pix2sky_ellipse are generated (Gen/WcsHelper.v).  The model is a function of the
   leaves; fits_pix2sky / fits_sky2pix are the values the property needs ((row, column) order, origin 1). *)
From Coq Require Import Reals ZArith.
From Aegean Require Import Lib.RBase Gen.Sphere Gen.WcsHelper.
Open Scope R_scope.

Definition pt : Type := (R * R)%type.

Definition shift (o : Z) (p : pt) : pt := (fst p + (1 - IZR o), snd p + (1 - IZR o)).
Definition unshift (o : Z) (p : pt) : pt := (fst p - (1 - IZR o), snd p - (1 - IZR o)).

(* pix2sky: `x, y = pixel; return wcs.all_pix2world([[arg x y]], o)[0]` *)
Definition pix2sky_m (arg : R -> R -> pt) (o : Z) (P : pt -> pt) (pixel : pt) : pt :=
  P (shift o (arg (fst pixel) (snd pixel))).
(* sky2pix: `pixel = wcs.all_world2pix([pos], o); return ret pixel[0][0] pixel[0][1]` *)
Definition sky2pix_m (ret : R -> R -> pt) (o : Z) (S : pt -> pt) (pos : pt) : pt :=
  let q := unshift o (S pos) in ret (fst q) (snd q).

(* what the property needs: the first pixel coordinate is the ROW (FITS axis 2), the second the COLUMN
   (FITS axis 1), both 1-based *)
Definition swap (a b : R) : pt := (b, a).
Definition fits_pix2sky (P : pt -> pt) : pt -> pt := pix2sky_m swap 1%Z P.
Definition fits_sky2pix (S : pt -> pt) : pt -> pt := sky2pix_m swap 1%Z S.

(* the model at the generated leaves *)
Definition m_pix2sky (P : pt -> pt) : pt -> pt := pix2sky_m pix2sky_arg pix2sky_origin P.
Definition m_sky2pix (S : pt -> pt) : pt -> pt := sky2pix_m sky2pix_ret sky2pix_origin S.
Definition m_sky2pix_vec (P S : pt -> pt) := sky2pix_vec (m_pix2sky P) (m_sky2pix S).
Definition m_pix2sky_vec (P S : pt -> pt) := pix2sky_vec (m_pix2sky P) (m_sky2pix S).
Definition m_sky2pix_ellipse (P S : pt -> pt) := sky2pix_ellipse (m_pix2sky P) (m_sky2pix S).
Definition m_pix2sky_ellipse (P S : pt -> pt) := pix2sky_ellipse (m_pix2sky P) (m_sky2pix S).

(* the same point of the sky: equal declination, right ascension equal modulo 360 degrees *)
Definition same_sky (a b : pt) : Prop := snd a = snd b /\ exists k : Z, fst a = fst b + 360 * IZR k.

(* psf lookups without a psf map (psf_file is None): the pixel psf is computed once in __init__ at the
   reference pixel from the header beam, get_psf_sky2pix / get_psf_pix2pix return it everywhere, and
   get_psf_sky2sky converts it back to the sky at the requested position.
   refpix = (CRPIX1, CRPIX2); __init__ calls pix2sky([refpix[1], refpix[0]]). *)
Definition m_psf_pix (P S : pt -> pt) (refpix : pt) (ba bb bpa : R) : R * R * R :=
  let pos := m_pix2sky P (snd refpix, fst refpix) in
  let '(_, _, sx, sy, th) := m_sky2pix_ellipse P S pos ba bb bpa in (sx, sy, th).
Definition m_psf_sky2sky (P S : pt -> pt) (refpix : pt) (ba bb bpa : R) (pos : pt) : R * R * R :=
  let '(sx, sy, th) := m_psf_pix P S refpix ba bb bpa in
  let xy := m_sky2pix S pos in
  let '(_, _, a, b, pa) := m_pix2sky_ellipse P S (fst xy, snd xy) sx sy th in (a, b, pa).
