(* C10 - executable model of MIMAS.mask_plane / mask_file / mask_table over the generated leaves of
   Gen/Mask.v.  No proofs here (Proofs/MaskProofs.v).

   Arrays are flat row-major lists (numpy C order): element (r, c) of an s0 x s1 image is entry r*s1 + c.
   Pixel values are `option Z` : None = NaN (blank), Some z = the bit pattern of a non-NaN value.

   External libraries are parameters:
     sky        : whatever a sky position is
     pix2world  : p o  |->  wcs.wcs_pix2world([p], o)            (astropy / wcslib)
     within     : s    |->  region.sky_within(s, degin=True)     (Region + healpy)                      *)
From Coq Require Import ZArith Bool List.
From Aegean Require Import Gen.Mask.
Import ListNotations.
Open Scope Z_scope.

Definition zrange (n : Z) : list Z := map Z.of_nat (seq 0 (Z.to_nat n)).

(* data.shape[ax] *)
Definition dim (s0 s1 ax : Z) : Z := if ax =? 0 then s0 else s1.

(* idx[:, slot] = v on one pair (the translator admits slots 0 and 1 only) *)
Definition set_slot (slot v : Z) (p : Z * Z) : Z * Z :=
  if slot =? 0 then (v, snd p) else (fst p, v).

(* l[lo:hi] = src  for an in-range slice whose length is that of src; anything else is an error (numpy
   would clip the slice and raise on the shape mismatch) *)
Definition assign_slice {A : Type} (lo hi : Z) (src l : list A) : option (list A) :=
  if (0 <=? lo) && (lo <=? hi) && (hi <=? Z.of_nat (length l)) && (hi - lo =? Z.of_nat (length src))
  then Some (firstn (Z.to_nat lo) l ++ src ++ skipn (Z.to_nat hi) l) else None.

(* the loop  for i in rows: idx[:, row_slot] = i; indexes[block_lo:block_hi] = idx.
   acc : the `indexes` array, None = still the uninitialised memory of np.empty *)
Fixpoint fill (rows : list Z) (n : Z) (idx : list (Z * Z)) (acc : list (option (Z * Z)))
  : option (list (option (Z * Z))) :=
  match rows with
  | [] => Some acc
  | i :: rest =>
      let idx' := map (set_slot row_slot i) idx in
      match assign_slice (block_lo i n) (block_hi i n) (map Some idx') acc with
      | Some acc' => fill rest n idx' acc'
      | None => None
      end
  end.

Fixpoint all_some {A : Type} (l : list (option A)) : option (list A) :=
  match l with
  | [] => Some []
  | None :: _ => None
  | Some a :: t => match all_some t with Some t' => Some (a :: t') | None => None end
  end.

(* the (n_indexes x 2) integer array handed to wcs_pix2world; None = error / uninitialised entries *)
Definition index_grid (s0 s1 : Z) : option (list (Z * Z)) :=
  let idx := map idx_init (zrange (dim s0 s1 idx_axis)) in
  match fill (zrange (dim s0 s1 loop_axis)) (dim s0 s1 stride_axis) idx
             (repeat None (Z.to_nat (n_indexes s0 s1))) with
  | Some g => all_some g
  | None => None
  end.

Definition blank {A : Type} (m : bool) (v : option A) : option A := if m then None else v.

Fixpoint chunks {A : Type} (n k : nat) (l : list A) : list (list A) :=
  match k with
  | O => []
  | S k' => firstn n l :: chunks n k' (skipn n l)
  end.

(* data.ndim > 2: np.squeeze(data) (every axis of length 1) or np.squeeze(data, axis=lead) with lead = the
   positions of length 1 among the leading axes shape[:-2] (the two image axes are kept), as generated *)
Definition squeeze (dims : list Z) : list Z :=
  if 2 <? Z.of_nat (length dims) then
    if squeeze_image_axes then filter (fun d => negb (d =? 1)) dims
    else filter (fun d => negb (d =? 1)) (firstn (length dims - 2) dims) ++ skipn (length dims - 2) dims
  else dims.

Section Plane.
  Variable sky : Type.
  Variable pix2world : Z * Z -> Z -> sky.
  Variable within : sky -> bool.

  (* bigmask before the reshape: true = this pixel will be blanked *)
  Definition big_mask (s0 s1 : Z) (negate : bool) : option (list bool) :=
    match index_grid s0 s1 with
    | Some g =>
        let m := map (fun p => within (pix2world p pix_origin)) g in
        Some (if xorb plane_invert_unless_negate negate then map negb m else m)
    | None => None
    end.

  (* mask_plane(data, wcs, region, negate) on an s0 x s1 array; None = the call raises / is outside the model *)
  Definition mask_plane (s0 s1 : Z) (data : list (option Z)) (negate : bool) : option (list (option Z)) :=
    match big_mask s0 s1 negate with
    | Some m =>
        if (Z.of_nat (length m) =? s0 * s1) && (Z.of_nat (length data) =? s0 * s1)   (* reshape(data.shape) *)
        then Some (map (fun mv => blank (fst mv) (snd mv)) (combine m data))
        else None
    | None => None
    end.

  (* the data part of mask_file: raw array of shape dims (numpy order, image axes last), flat contents.
     Result: shape and contents of the array written to the output file *)
  Definition mask_file_data (dims : list Z) (data : list (option Z)) (negate : bool)
    : option (list Z * list (option Z)) :=
    match squeeze dims with
    | [p; r; c] =>
        match all_some (map (fun pl => mask_plane r c pl negate)
                            (chunks (Z.to_nat (r * c)) (Z.to_nat p) data)) with
        | Some ps => Some ([p; r; c], concat ps)
        | None => None
        end
    | [r; c] =>
        match mask_plane r c data negate with
        | Some d => Some ([r; c], d)
        | None => None
        end
    | _ => None
    end.
End Plane.

Section Table.
  Variable row : Type.
  Variable ra dec : row -> option Z.        (* None = the coordinate is NaN / not finite *)
  Variable within_c : Z -> Z -> bool.       (* membership answer for a finite coordinate pair *)

  (* Region.sky_within on one row: non-finite coordinates are masked to False *)
  Definition row_inside (x : row) : bool :=
    match ra x, dec x with
    | Some a, Some d => within_c a d
    | _, _ => negb nan_is_outside
    end.
  Definition row_kept (negate : bool) (x : row) : bool :=
    if xorb table_invert_unless_negate negate then negb (row_inside x) else row_inside x.
  (* table[mask] *)
  Definition mask_table (rows : list row) (negate : bool) : list row := filter (row_kept negate) rows.
End Table.

(* ---- instances used by the correspondence check: sky positions named by the FITS (1-based) pixel,
   membership tabulated by the harness from the real WCS and the real Region *)
Definition fits_p2w (p : Z * Z) (o : Z) : Z * Z := (fst p + 1 - o, snd p + 1 - o).
Definition in_table (t : list (Z * Z)) (q : Z * Z) : bool :=
  existsb (fun u => (fst u =? fst q) && (snd u =? snd q)) t.
Definition obs_plane (t : list (Z * Z)) (s0 s1 : Z) (data : list (option Z)) (negate : bool) :=
  mask_plane (Z * Z) fits_p2w (in_table t) s0 s1 data negate.
Definition obs_file (t : list (Z * Z)) (dims : list Z) (data : list (option Z)) (negate : bool) :=
  mask_file_data (Z * Z) fits_p2w (in_table t) dims data negate.
(* table rows as (row number, ra code, dec code); codes index the distinct finite values *)
Definition obs_table (t : list (Z * Z)) (rows : list (Z * option Z * option Z)) (negate : bool) : list Z :=
  map (fun x => fst (fst x))
      (mask_table (Z * option Z * option Z) (fun x => snd (fst x)) (fun x => snd x)
                  (fun a d => in_table t (a, d)) rows negate).
