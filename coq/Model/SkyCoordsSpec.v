(* C09 - specification vocabulary: the notions the theorems of Props/C09.v are stated with, and the
   hypotheses about healpy / the HEALPix tessellation under which they hold.  Nothing here is proved or
   assumed: the hypotheses are Definitions (propositions about a `healpy` record and an abstract cell
   geometry); the theorems take them as premises and the harness validates each against the real healpy
   on every run. *)
From Coq Require Import Reals ZArith Bool List.
From Aegean Require Import Lib.RBase Gen.SkyCoords Model.RegionModel Model.SkyCoords.
Import ListNotations.
Open Scope R_scope.

(* pixel numbers valid at depth d *)
Definition valid_pix (d : Z) (ps : list Z) : Prop := Forall (fun p => 0 <= p < 12 * 4 ^ d)%Z ps.
(* the `depth` argument of add_circles / add_poly: None or at least 1 *)
Definition depth_ok (d : option Z) : Prop := match d with Some d0 => (1 <= d0)%Z | None => True end.
(* the depth at which the pixels are inserted (the generated clamp `depth is None or depth > maxdepth`) *)
Definition circle_depth (D : Z) (d : option Z) : Z := insert_depth circle_depth_clamp circle_depth_default D d.
Definition polygon_depth (D : Z) (d : option Z) : Z := insert_depth poly_depth_clamp poly_depth_default D d.

Definition pixarea (D : Z) : R := 4 * PI / (12 * IZR (4 ^ D)).
Definition in_domain (x : sky) : Prop := 0 <= fst x < 2 * PI /\ - (PI / 2) <= snd x <= PI / 2.
Definition skyvec (x : sky) : vec := unitvec (fst x) (snd x).
(* closed edge list of a polygon, and "on the inner side of every edge" (either orientation) *)
Definition edges (vs : list vec) : list (vec * vec) := combine vs (tl vs ++ firstn 1 vs).
Definition inside_poly (vs : list vec) (v : vec) : Prop :=
  (forall e, In e (edges vs) -> 0 <= triple (fst e) (snd e) v) \/
  (forall e, In e (edges vs) -> triple (fst e) (snd e) v <= 0).

Section Hyps.
  Variable hp : healpy.
  (* `incell d p v`: the unit vector v lies in the closed cell p of the nested scheme at depth d *)
  Variable incell : Z -> Z -> vec -> Prop.
  Variable pixsize : Z -> R.            (* linear pixel size at depth d (healpy.nside2resol) *)
  Variable K : R.                       (* allowed overshoot in pixel sizes; the property says 3 *)
  Variable accepted : list vec -> Prop. (* polygons healpy.query_polygon accepts (convex, >= 3 vertices) *)

  (* H4 *)
  Definition H4_ang2vec : Prop := forall t p, ang2vec hp t p = dirvec t p.
  Definition H4b_vec2ang : Prop :=
    forall t p, 0 < t < PI -> 0 <= p < 2 * PI -> vec2ang hp (ang2vec hp t p) = (t, p).
  Definition H4c_ang2vec_vec2ang : Prop :=
    forall v, dot v v = 1 -> ang2vec hp (fst (vec2ang hp v)) (snd (vec2ang hp v)) = v.
  (* H3: ang2pix returns a pixel whose cell contains the direction *)
  Definition H3_ang2pix : Prop :=
    forall d t p, 0 <= t <= PI -> incell d (ang2pix hp d true t p) (dirvec t p).
  (* H5: nested numbering - the depth-d pixel of a direction is the ancestor of its depth-D pixel *)
  Definition H5_nested : Prop := forall d D t p, (1 <= d <= D)%Z -> 0 <= t <= PI ->
    (ang2pix hp D true t p / 4 ^ (D - d))%Z = ang2pix hp d true t p.
  (* H0 *)
  Definition H0_disc_valid : Prop := forall d c r, (1 <= d)%Z -> valid_pix d (query_disc hp d c r true true).
  (* H1: the inclusive disc query returns every pixel that meets the disc *)
  Definition H1_disc_complete : Prop := forall d c r p v, 0 <= r <= PI ->
    incell d p v -> angdist c v <= r -> In p (query_disc hp d c r true true).
  (* H2: and nothing that reaches farther than K pixel sizes beyond it *)
  Definition H2_disc_tight : Prop := forall d c r p v, 0 <= r <= PI ->
    In p (query_disc hp d c r true true) -> incell d p v -> angdist c v <= r + K * pixsize d.
  (* P0-P2: the same for polygons; (c, rho) is any circle that contains all vertices *)
  Definition P0_poly_valid : Prop := forall d vs, (1 <= d)%Z -> valid_pix d (query_polygon hp d vs true true).
  Definition P1_poly_complete : Prop := forall d vs p v, accepted vs ->
    incell d p v -> inside_poly vs v -> In p (query_polygon hp d vs true true).
  Definition P2_poly_tight : Prop := forall d vs c rho p v, accepted vs -> 0 <= rho < PI / 2 ->
    (forall a, In a vs -> angdist c a <= rho) ->
    In p (query_polygon hp d vs true true) -> incell d p v -> angdist c v <= rho + K * pixsize d.
  (* H6: cells are nested - a cell lies inside its ancestors *)
  Definition H6_cells_nested : Prop :=
    forall d D q v, (1 <= d <= D)%Z -> incell D q v -> incell d (q / 4 ^ (D - d))%Z v.

  (* the area measure of the sphere, on sets of sky positions: monotone; n distinct depth-D cells have n
     pixel areas (equal-area tessellation, boundaries of measure zero); a cap of radius r has 2 pi (1 - cos r) *)
  Variable mu : (sky -> Prop) -> R.
  Definition Mu_mono : Prop := forall A B : sky -> Prop, (forall x, A x -> B x) -> mu A <= mu B.
  Definition Mu_cells : Prop := forall D l, NoDup l ->
    mu (fun x => in_domain x /\ exists q, In q l /\ incell D q (skyvec x)) = INR (length l) * pixarea D.
  Definition Mu_cap : Prop := forall c r, 0 <= r <= PI ->
    mu (fun x => in_domain x /\ angdist (skyvec c) (skyvec x) <= r) = 2 * PI * (1 - cos r).
End Hyps.
