(* C08 / C12 - executable model of AegeanTools.regions.Region.

   A region is a set of HEALPix (nested) cells (level, pixel) with 1 <= level <= depth,
   plus the cache flag that stands for Python's `self.demoted` (which is only ever a
   fresh empty set or *the same object* as pixeldict[maxdepth]).  Python sets are lists
   here; every observation canonicalises (membership, nodup), so list order and
   duplicates are immaterial.  The arithmetic leaves (children, parent, degrade, sibling
   test, ranges, NUNIQ code, whether add_pixels invalidates the cache) come from
   Gen/Regions.v, which the translator regenerates from regions.py on every run. *)
From Coq Require Import ZArith Bool List Lia.
From Aegean Require Import Gen.Regions.
Import ListNotations.
Open Scope Z_scope.

Definition cell := (Z * Z)%type.            (* (level, pixel) *)
Record region := mkRegion { depth : Z; cells : list cell; cached : bool }.

Definition memZ (x : Z) (l : list Z) : bool := existsb (Z.eqb x) l.
Definition level (cs : list cell) (d : Z) : list Z :=
  map snd (filter (fun c => fst c =? d) cs).
Definition at_level (d : Z) (ps : list Z) : list cell := map (pair d) ps.

Definition init (D : Z) : region := mkRegion D [] false.

(* all descendants of p, k levels down, by iterating the generated `children` *)
Fixpoint expand (k : nat) (p : Z) : list Z :=
  match k with
  | O => [p]
  | S k' => flat_map (expand k') (children p)
  end.

(* ---- add_pixels *)
Definition add_pixels_with (resets : bool) (s : region) (d : Z) (ps : list Z) : region :=
  mkRegion (depth s) (at_level d ps ++ cells s) (if resets then false else cached s).
Definition add_pixels := add_pixels_with add_pixels_resets_cache.

(* ---- _demote_all : only levels demote_lo .. demote_hi-1 are pushed down *)
Definition demotable (D : Z) (c : cell) : bool := (demote_lo <=? fst c) && (fst c <? demote_hi D).
Definition demoted_cells (D : Z) (cs : list cell) : list cell :=
  flat_map (fun c => if demotable D c
                     then at_level (demote_hi D) (expand (Z.to_nat (demote_hi D - fst c)) (snd c))
                     else [c]) cs.
Definition demote_all (s : region) : region :=
  if cached s && negb (match level (cells s) (depth s) with [] => true | _ => false end)
  then s
  else mkRegion (depth s) (demoted_cells (depth s) (cells s)) true.

(* ---- _renorm *)
Definition complete (lv : list Z) : list Z :=
  filter (fun p => sibling_test p && forallb (fun q => memZ q lv) (sibling_members p)) lv.
Definition promote_level (d : Z) (cs : list cell) : list cell :=
  let lv := level cs d in
  let comp := complete lv in
  let gone := flat_map siblings comp in
  at_level (d - 1) (map parent comp) ++
  filter (fun c => negb ((fst c =? d) && memZ (snd c) gone)) cs.
(* for d in range(from, stop, -1): n = number of levels still to do *)
Fixpoint promote (n : nat) (d : Z) (cs : list cell) : list cell :=
  match n with
  | O => cs
  | S n' => promote n' (d - 1) (promote_level d cs)
  end.
Definition renorm (s : region) : region :=
  let s1 := demote_all (mkRegion (depth s) (cells s) false) in
  let D := depth s in
  mkRegion D (promote (Z.to_nat (renorm_from D - renorm_stop)) (renorm_from D) (cells s1)) false.

(* ---- queries *)
Definition get_demoted (s : region) : region * list Z :=
  let s' := demote_all s in (s', level (cells s') (depth s')).
Definition sky_within (s : region) (qs : list Z) : region * list bool :=
  let s' := demote_all s in
  (s', map (fun q => memZ q (level (cells s') (depth s'))) qs).
Definition count_distinct (l : list Z) : Z := Z.of_nat (length (nodup Z.eq_dec l)).
Fixpoint zrange (lo : Z) (n : nat) : list Z :=
  match n with O => [] | S n' => lo :: zrange (lo + 1) n' end.
(* per-level pixel counts for d in range(area_lo, area_hi) *)
Definition area_counts (s : region) : list Z :=
  map (fun d => count_distinct (level (cells s) d))
      (zrange area_lo (Z.to_nat (area_hi (depth s) - area_lo))).
(* area in units of the deepest-level pixel area *)
Definition area_units (s : region) : Z :=
  fold_right Z.add 0
    (map (fun d => count_distinct (level (cells s) d) * 4 ^ (depth s - d))
         (zrange area_lo (Z.to_nat (area_hi (depth s) - area_lo)))).

(* ---- union / without / intersect / symmetric_difference *)
Definition union (s o : region) (do_renorm : bool) : region :=
  let m := Z.min (depth s) (depth o) in
  let common := filter (fun c => (1 <=? fst c) && (fst c <=? m)) (cells o) in
  let finer := if depth s <? depth o
               then filter (fun c => (depth s <? fst c) && (fst c <=? depth o)) (cells o)
               else [] in
  let s1 := mkRegion (depth s)
              (map (fun c => (depth s, degrade (snd c) (fst c) (depth s))) finer ++ common ++ cells s)
              (if add_pixels_resets_cache then false else cached s) in
  if do_renorm then renorm s1 else s1.

Definition other_demoted (o : region) : list Z := snd (get_demoted o).

Definition setop (f : list Z -> list Z -> list Z) (s o : region) : option region :=
  if negb (depth s =? depth o) then None
  else
    let s1 := demote_all s in
    let opd := other_demoted o in
    let D := depth s in
    let keep := filter (fun c => negb (fst c =? D)) (cells s1) in
    Some (renorm (mkRegion D (at_level D (f (level (cells s1) D) opd) ++ keep) (cached s1))).

Definition f_without (a b : list Z) := filter (fun x => negb (memZ x b)) a.
Definition f_intersect (a b : list Z) := filter (fun x => memZ x b) a.
Definition f_symdiff (a b : list Z) := f_without a b ++ f_without b a.
Definition without := setop f_without.
Definition intersect := setop f_intersect.
Definition symdiff := setop f_symdiff.

(* ---- NUNIQ export (C12) *)
Definition uniq (s : region) : list Z :=
  flat_map (fun d => map (uniq_code d) (nodup Z.eq_dec (level (cells s) d)))
           (zrange uniq_lo (Z.to_nat (uniq_hi (depth s) - uniq_lo))).
(* decoding a NUNIQ number: order = floor(log4(u/4)), pixel = u - 4*4^order *)
Definition ununiq (u : Z) : cell :=
  let d := Z.log2 (u / 4) / 2 in (d, u - 4 * 4 ^ d).

(* ---- operations and histories *)
Inductive op :=
| AddPixels (d : Z) (ps : list Z)          (* raw add_pixels, no renormalisation *)
| AddShape (d : Z) (ps : list Z)           (* add_circles / add_poly once healpy has answered *)
| Union (o : region) (do_renorm : bool)
| Without (o : region)
| Intersect (o : region)
| SymDiff (o : region)
| Within (qs : list Z)
| GetDemoted
| GetArea
| Uniq
| SaveLoad
| Renorm.

Inductive out :=
| OUnit | OErr
| OBools (l : list bool)
| OPix (l : list Z)
| OCounts (l : list Z).

Definition step (s : region) (o : op) : region * out :=
  match o with
  | AddPixels d ps => (add_pixels s d ps, OUnit)
  | AddShape d ps => (renorm (add_pixels s d ps), OUnit)
  | Union o r => (union s o r, OUnit)
  | Without o => match without s o with Some s' => (s', OUnit) | None => (s, OErr) end
  | Intersect o => match intersect s o with Some s' => (s', OUnit) | None => (s, OErr) end
  | SymDiff o => match symdiff s o with Some s' => (s', OUnit) | None => (s, OErr) end
  | Within qs => let '(s', r) := sky_within s qs in (s', OBools r)
  | GetDemoted => let '(s', r) := get_demoted s in (s', OPix r)
  | GetArea => (s, OCounts (area_counts s))
  | Uniq => (s, OPix (uniq s))
  | SaveLoad => (s, OUnit)
  | Renorm => (renorm s, OUnit)
  end.

Definition run (s : region) (ops : list op) : region := fold_left (fun s o => fst (step s o)) ops s.

(* ---- observation used by the correspondence check: after each op, the output and the
   stored pixels per level (sorted and deduplicated by the harness on both sides) *)
Definition obs_levels (s : region) : list (list Z) :=
  map (fun d => nodup Z.eq_dec (level (cells s) d)) (zrange 1 (Z.to_nat (depth s))).
Definition out_code (o : out) : list Z :=
  match o with
  | OUnit => [0] | OErr => [1]
  | OBools l => 2 :: map (fun b : bool => if b then 1 else 0) l
  | OPix l => 3 :: l
  | OCounts l => 4 :: l
  end.
Fixpoint trace (s : region) (ops : list op) : list (list Z * list (list Z)) :=
  match ops with
  | [] => []
  | o :: rest => let '(s', r) := step s o in (out_code r, obs_levels s') :: trace s' rest
  end.
