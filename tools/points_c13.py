"""C13 extraction points: the `isnegative` branches of SourceFinder.estimate_lmfit_parinfo and the
polarity filter at the end of SourceFinder.find_sources_in_image -> coq/Gen/Polarity.v

Back end Q (exact rationals; Python floats are read as the exact binary64 value of the literal, the
operations as exact operations) for the value-dependent leaves, Z for counters and flags.
Every matcher fails closed: when the code does not have the shape the hand-written skeleton
Model/Polarity.v assumes, TranslateError is raised and the check reports the broken obligation.
"""
import ast
from fractions import Fraction

from trcore import HEADER_Z, Tr, TranslateError, find_func, one_assign, parse_file, point, src, strip_doc
from translate_points import _p


class TrQ(Tr):
    """expression walker over Coq's Q (QArith); comparisons use Lib.QBase.Qltb / Qleb"""

    def __init__(self, env=None):
        self.b = 'Q'
        self.env = dict(env or {})

    def lit(self, v):
        if isinstance(v, bool):
            raise TranslateError("bool literal in arithmetic")
        if isinstance(v, int):
            return f"(({v}) # 1)" if v < 0 else f"({v} # 1)"
        if isinstance(v, float):
            if v != v or v in (float('inf'), float('-inf')):
                raise TranslateError(f"non-finite literal {v!r}")
            fr = Fraction(v)   # the exact binary64 value
            n, d = fr.numerator, fr.denominator
            return f"(({n}) # {d})" if n < 0 else f"({n} # {d})"
        raise TranslateError(f"literal {v!r}")

    def e_Attribute(self, n):
        raise TranslateError(f"attribute {src(n)}")

    def e_BinOp(self, n):
        a = self.expr(n.left)
        op = type(n.op)
        if op is ast.Pow:
            raise TranslateError(f"power in Q back end: {src(n)}")
        b = self.expr(n.right)
        t = {ast.Add: '+', ast.Sub: '-', ast.Mult: '*', ast.Div: '/'}.get(op)
        if t is None:
            raise TranslateError(f"operator {src(n)}")
        return f"({a} {t} {b})"

    def e_Call(self, n):
        if n.keywords:
            raise TranslateError(f"keyword arguments {src(n)}")
        f = self.name_of_call(n.func)
        args = n.args
        if f in ('min', 'max') and len(args) == 2 and isinstance(n.func, ast.Name):
            return f"(Q{f} {self.expr(args[0])} {self.expr(args[1])})"
        if f in ('abs', 'fabs') and len(args) == 1:
            return f"(Qabs {self.expr(args[0])})"
        if f == 'float' and len(args) == 1:
            return self.expr(args[0])
        raise TranslateError(f"call {src(n)}")

    def cmp(self, op, a, b):
        t = {ast.Lt: f"(Qltb {a} {b})", ast.LtE: f"(Qleb {a} {b})", ast.Gt: f"(Qltb {b} {a})",
             ast.GtE: f"(Qleb {b} {a})"}
        if type(op) not in t:
            raise TranslateError(f"comparison {type(op).__name__}")
        return t[type(op)]


HEADER_Q = ("From Coq Require Import ZArith QArith Qabs Qminmax Bool List.\n"
            "From Aegean Require Import Lib.QBase Lib.Ext.\nOpen Scope Q_scope.\n")

SIGNED = {'data', 'summit', 'amp', 'amp_min', 'amp_max', 'isnegative', 'kappa_sigma', 'curve', 'snr', 'rmsimg',
          'summits'}


def _names(node):
    """free names of an expression; `data.shape` / `summit.shape` do not count as uses of the values"""
    out = set()

    def walk(n):
        if isinstance(n, ast.Attribute) and isinstance(n.value, ast.Name) and n.attr == 'shape':
            return
        if isinstance(n, ast.Name):
            out.add(n.id)
        for c in ast.iter_child_nodes(n):
            walk(c)
    walk(node)
    return out


def _where_pair(node, what):
    """np.where(C1, np.where(C2, data, np.nan), np.nan) -> (C1, C2)"""
    def is_where(n):
        return (isinstance(n, ast.Call) and src(n.func) == 'np.where' and len(n.args) == 3 and not n.keywords
                and src(n.args[2]) == 'np.nan')
    if not (is_where(node) and is_where(node.args[1]) and src(node.args[1].args[1]) == 'data'):
        raise TranslateError(f"estimate_lmfit_parinfo: kappa_sigma ({what}) is not "
                             f"np.where(C1, np.where(C2, data, np.nan), np.nan): {src(node)[:120]}")
    return node.args[0], node.args[1].args[0]


def _flag_values(repo):
    tree = parse_file(_p(repo, 'flags.py'))
    vals = {}
    for st in tree.body:
        if isinstance(st, ast.Assign) and len(st.targets) == 1 and isinstance(st.targets[0], ast.Name) \
                and isinstance(st.value, ast.Constant) and isinstance(st.value.value, int):
            vals[st.targets[0].id] = st.value.value
    for k in ('FITERRSMALL', 'FIXED2PSF', 'NOTFIT'):
        if k not in vals:
            raise TranslateError(f"flags.py: {k} is not an integer constant")
    return vals


def _or_flags(stmts, var, fl):
    """stmts must all be `var |= flags.X` (log calls allowed); returns the or of the X"""
    v = 0
    seen = False
    for st in stmts:
        if isinstance(st, ast.AugAssign) and isinstance(st.op, ast.BitOr) and src(st.target) == var \
                and isinstance(st.value, ast.Attribute) and src(st.value.value) == 'flags' and st.value.attr in fl:
            v |= fl[st.value.attr]
            seen = True
        elif isinstance(st, ast.Expr) and isinstance(st.value, ast.Call) and src(st.value.func).startswith('self.log.'):
            continue
        elif isinstance(st, ast.If) and src(st.test) == 'debug_on':
            continue
        else:
            raise TranslateError(f"estimate_lmfit_parinfo: unexpected statement in a flag block: {src(st)[:80]}")
    if not seen:
        raise TranslateError(f"estimate_lmfit_parinfo: no `{var} |= flags.X` in a flag block")
    return v


def _curvature_leaves(tree):
    """the curvature block of SourceFinder._fit_island: maximum_filter / minimum_filter of the image cut-out, what replaces
    non-finite pixels for each of them, the comparisons defining pmask / tmask, the values written into icurve and their order"""
    import copy
    fi = find_func(tree, '_fit_island', cls='SourceFinder')
    C = "_fit_island: "
    body = strip_doc(fi.body)
    start = [k for k, st in enumerate(body) if isinstance(st, ast.Assign) and src(st.targets[0]) == 'icurve'
             and src(st.value).startswith('np.zeros(')]
    crop = [k for k, st in enumerate(body) if isinstance(st, ast.Assign) and src(st.targets[0]) == 'icurve'
            and isinstance(st.value, ast.Subscript) and src(st.value.value) == 'icurve']
    if len(start) != 1 or len(crop) != 1 or crop[0] <= start[0]:
        raise TranslateError(C + "curvature block (icurve = np.zeros(..) ... icurve = icurve[..]) not found")
    env = {}

    class Sub(ast.NodeTransformer):
        def visit_Name(self, n):
            if isinstance(n.ctx, ast.Load) and n.id in env:
                return copy.deepcopy(env[n.id])
            return n
    writes = []
    for st in body[start[0] + 1:crop[0]]:
        if isinstance(st, ast.Assign) and len(st.targets) == 1 and isinstance(st.targets[0], ast.Name):
            env[st.targets[0].id] = Sub().visit(copy.deepcopy(st.value))
        elif isinstance(st, ast.Assign) and len(st.targets) == 1 and isinstance(st.targets[0], ast.Subscript) \
                and src(st.targets[0].value) == 'icurve' and isinstance(st.targets[0].slice, ast.Name):
            try:
                v = ast.literal_eval(st.value)
            except Exception:
                raise TranslateError(C + f"value written into icurve: {src(st.value)}")
            if not isinstance(v, int):
                raise TranslateError(C + f"value written into icurve: {src(st.value)}")
            writes.append((st.targets[0].slice.id, v))
        elif isinstance(st, ast.Expr) and isinstance(st.value, ast.Constant):
            continue
        else:
            raise TranslateError(C + f"unexpected statement in the curvature block: {src(st)[:80]}")
    if sorted(w[0] for w in writes) != ['pmask', 'tmask']:
        raise TranslateError(C + f"icurve is written through {[w[0] for w in writes]} (expected pmask and tmask once each)")

    def filt(name, fname):
        e = env.get(name)
        if not (isinstance(e, ast.Call) and src(e.func) == fname and len(e.args) == 1 and len(e.keywords) == 1
                and e.keywords[0].arg == 'size' and isinstance(e.keywords[0].value, ast.Constant)):
            raise TranslateError(C + f"{name} is not {fname}(<array>, size=<n>)")
        return e, e.args[0], e.keywords[0].value.value

    def mask(name, filt_call, arr):
        e = env.get(name)
        if not (isinstance(e, ast.Call) and src(e.func) == 'np.where' and len(e.args) == 1 and isinstance(e.args[0], ast.Compare)
                and len(e.args[0].ops) == 1 and isinstance(e.args[0].ops[0], ast.Eq)):
            raise TranslateError(C + f"{name} is not np.where(<filtered> == <array>)")
        sides = [src(e.args[0].left), src(e.args[0].comparators[0])]
        if sorted(sides) != sorted([src(filt_call), src(arr)]):
            raise TranslateError(C + f"{name} does not compare the filtered array with the array that was filtered")

    def fill_of(arr):
        """(slice text, Gallina fill)"""
        if isinstance(arr, ast.Subscript) and src(arr.value) == 'self.global_data.img':
            return src(arr), 'FillNone'
        if isinstance(arr, ast.Call) and src(arr.func) == 'np.where' and len(arr.args) == 3 and not arr.keywords:
            c, a, f = arr.args
            if isinstance(a, ast.Subscript) and src(a.value) == 'self.global_data.img' and src(c) == f'np.isfinite({src(a)})':
                if src(f) == '-np.inf':
                    return src(a), 'FillNegInf'
                if src(f) in ('np.inf', '+np.inf'):
                    return src(a), 'FillPosInf'
                try:
                    v = ast.literal_eval(f)
                except Exception:
                    v = None
                if isinstance(v, int) and not isinstance(v, bool):
                    return src(a), f'(FillConst ({v}))'
        raise TranslateError(C + f"array handed to the rank filter: {src(arr)[:160]}")
    pcall, parr, psize = filt('peaks', 'maximum_filter')
    tcall, tarr, tsize = filt('troughs', 'minimum_filter')
    mask('pmask', pcall, parr)
    mask('tmask', tcall, tarr)
    (ps, pfill), (ts, tfill) = fill_of(parr), fill_of(tarr)
    if ps != ts:
        raise TranslateError(C + "maximum_filter and minimum_filter look at different cut-outs")
    if psize != tsize or not isinstance(psize, int):
        raise TranslateError(C + f"filter sizes {psize!r} / {tsize!r}")
    vals = dict(writes)
    return f"""
(* SourceFinder._fit_island: curvature map of an island.  peaks = maximum_filter(P, size), troughs =
   minimum_filter(T, size) where P / T are the image cut-out with its non-finite pixels replaced as stated;
   icurve = curv_peak_value where peaks == P, curv_trough_value where troughs == T *)
Definition curv_peak_fill : fill := {pfill}.
Definition curv_trough_fill : fill := {tfill}.
Definition curv_peak_value : Z := {vals['pmask']}.
Definition curv_trough_value : Z := {vals['tmask']}.
(* true: the trough value is written after the peak value (it wins where a pixel is both) *)
Definition curv_trough_written_last : bool := {'true' if writes[-1][0] == 'tmask' else 'false'}.
Definition curv_filter_size : Z := {psize}.
"""


@point('Polarity')
def gen_polarity(repo):
    fl = _flag_values(repo)
    tree = parse_file(_p(repo, 'source_finder.py'))
    fn = find_func(tree, 'estimate_lmfit_parinfo', cls='SourceFinder')
    E = "estimate_lmfit_parinfo: "
    body = strip_doc(fn.body)

    # ---- isnegative
    isn = one_assign(fn, 'isnegative').value
    MX = 'np.nanmax(data[np.isfinite(data)])'
    if not (isinstance(isn, ast.Compare) and src(isn.left) == MX and len(isn.ops) == 1):
        raise TranslateError(E + f"isnegative is {src(isn)}")
    isneg = TrQ({MX: 'mx'}).cond(isn)

    # ---- island flag from the number of finite pixels
    nn = one_assign(fn, 'non_nan_pix').value
    if src(nn) != 'len(data[np.where(np.isfinite(data))].ravel())':
        raise TranslateError(E + f"non_nan_pix is {src(nn)}")
    chain = [s for s in body if isinstance(s, ast.If) and 'non_nan_pix' in src(s.test)]
    if len(chain) != 1:
        raise TranslateError(E + "expected one if/elif/else chain on non_nan_pix")
    c1 = chain[0]
    trz = Tr('Z', {'non_nan_pix': 'n', 'i': 'i', 'max_summits': 'm'})
    if not (len(c1.orelse) == 1 and isinstance(c1.orelse[0], ast.If)):
        raise TranslateError(E + "non_nan_pix chain is not if/elif/else")
    c2 = c1.orelse[0]
    if [src(s) for s in c2.orelse] != ['is_flag = 0']:
        raise TranslateError(E + "non_nan_pix chain: else branch is not `is_flag = 0`")
    first_flag = [s for s in body if isinstance(s, ast.Assign) and src(s.targets[0]) == 'is_flag']
    if not first_flag or src(first_flag[0].value) != '0' or body.index(first_flag[0]) > body.index(c1):
        raise TranslateError(E + "is_flag is not initialised to 0 before the chain")
    f1, f2 = _or_flags(c1.body, 'is_flag', fl), _or_flags(c2.body, 'is_flag', fl)
    island_flag = f"if {trz.cond(c1.test)} then {f1} else if {trz.cond(c2.test)} then {f2} else 0"

    # ---- tiny islands: one summit = the whole island
    tiny = [s for s in body if isinstance(s, ast.If) and src(s.test).startswith('min(data.shape)')]
    if len(tiny) != 1:
        raise TranslateError(E + "tiny-island test not found")
    tiny = tiny[0]
    t = tiny.test
    if not (isinstance(t, ast.BoolOp) and isinstance(t.op, ast.Or)):
        raise TranslateError(E + f"tiny-island test is {src(t)}")
    parts = []
    trt = Tr('Z', {'min(data.shape)': 'minshape'})
    for v in t.values:
        if isinstance(v, ast.Compare):
            parts.append(trt.cond(v))
        elif isinstance(v, ast.BinOp) and isinstance(v.op, ast.BitAnd) and src(v.left) == 'is_flag' \
                and isinstance(v.right, ast.Attribute) and src(v.right.value) == 'flags' and v.right.attr in fl:
            parts.append(f"negb (Z.land flag {fl[v.right.attr]} =? 0)")
        else:
            raise TranslateError(E + f"tiny-island test term {src(v)}")
    tiny_cond = ' || '.join(parts)
    tb = [s for s in tiny.body if not (isinstance(s, ast.If) and src(s.test) == 'debug_on')]
    if len(tb) != 2 or src(tb[0]) != 'summits = [[data, 0, data.shape[0], 0, data.shape[1]]]':
        raise TranslateError(E + "tiny-island branch does not take the whole island as the only summit")
    tiny_flag = _or_flags(tb[1:], 'is_flag', fl)

    # ---- kappa_sigma: which pixels may belong to a summit, per polarity
    eb = tiny.orelse
    if not (len(eb) == 2 and isinstance(eb[0], ast.If) and src(eb[0].test) == 'isnegative'
            and len(eb[0].body) == 1 and len(eb[0].orelse) == 1):
        raise TranslateError(E + "summit branch is not `if isnegative: kappa_sigma = .. else: kappa_sigma = ..; summits = ..`")
    kn, kp = eb[0].body[0], eb[0].orelse[0]
    for k in (kn, kp):
        if not (isinstance(k, ast.Assign) and src(k.targets[0]) == 'kappa_sigma'):
            raise TranslateError(E + "isnegative branches do not assign kappa_sigma")
    trq = TrQ({'curve': 'curve', 'data': 'v', 'rmsimg': 'rms', 'outerclip': 'oc'})
    n1, n2 = _where_pair(kn.value, 'negative')
    p1, p2 = _where_pair(kp.value, 'positive')
    mask_neg = f"{trq.cond(n1)} && {trq.cond(n2)}"
    mask_pos = f"{trq.cond(p1)} && {trq.cond(p2)}"
    if src(eb[1]) != ('summits = list(self._gen_flood_wrap(kappa_sigma, np.ones(kappa_sigma.shape), 0, '
                      'domask=False))'):
        raise TranslateError(E + f"summits are not the flood-wrapped kappa_sigma pixels: {src(eb[1])[:120]}")
    # _gen_flood_wrap: |data|/rms >= outerclip, default (4-neighbour) label, own-label pixels
    gw = find_func(tree, '_gen_flood_wrap', cls='SourceFinder')
    G = "_gen_flood_wrap: "
    if src(one_assign(gw, 'snr').value) != 'abs(data) / rmsimg':
        raise TranslateError(G + "snr is not abs(data) / rmsimg")
    if src(one_assign(gw, 'a').value) != 'snr >= outerclip':
        raise TranslateError(G + "a is not snr >= outerclip")
    if src(one_assign(gw, '(l, n)').value) != 'label(a)':
        raise TranslateError(G + "label(a) with the default structure expected")
    if src(one_assign(gw, 'island_mask').value) != ('(snr[xmin:xmax, ymin:ymax] < outerclip) | '
                                                    '(l[xmin:xmax, ymin:ymax] != i + 1)'):
        raise TranslateError(G + "island_mask")
    anys = [n for n in ast.walk(gw) if isinstance(n, ast.If) and src(n.test) == 'np.any(snr[xmin:xmax, ymin:ymax] > innerclip)']
    if len(anys) != 1:
        raise TranslateError(G + "inner clip test")
    if src(one_assign(gw, 'outerclip').value) != 'innerclip':
        raise TranslateError(G + "outerclip default")

    # ---- the summit loop
    loops = [s for s in body if isinstance(s, ast.For)]
    if len(loops) != 1:
        raise TranslateError(E + "expected one top-level loop (over the summits)")
    loop = loops[0]
    if src(loop.target) != '(summit, xmin, xmax, ymin, ymax)':
        raise TranslateError(E + f"summit loop target {src(loop.target)}")
    it = loop.iter
    if not (isinstance(it, ast.Call) and src(it.func) == 'sorted' and len(it.args) == 1 and src(it.args[0]) == 'summits'
            and len(it.keywords) == 1 and it.keywords[0].arg == 'key' and isinstance(it.keywords[0].value, ast.Lambda)):
        raise TranslateError(E + f"summits are not iterated as sorted(summits, key=lambda ..): {src(it)[:100]}")
    lam = it.keywords[0].value
    if [a.arg for a in lam.args.args] != ['x'] or not (isinstance(lam.body, ast.Call) and src(lam.body.func) == 'np.nanmax'
                                                       and len(lam.body.args) == 1):
        raise TranslateError(E + f"sort key is {src(lam)}")
    sort_key = TrQ({'x[0]': 'v'}).expr(lam.body.args[0])

    lb = loop.body
    tries = [s for s in lb if isinstance(s, ast.Try)]
    if len(tries) != 1 or len(tries[0].body) != 1 or not isinstance(tries[0].body[0], ast.If) \
            or src(tries[0].body[0].test) != 'isnegative':
        raise TranslateError(E + "peak selection is not try: if isnegative: .. else: ..")
    pk = tries[0].body[0]

    def pick(stmts, what):
        if len(stmts) != 2:
            raise TranslateError(E + f"peak selection ({what}) has {len(stmts)} statements")
        a, b = stmts
        if not (isinstance(a, ast.Assign) and src(a.targets[0]) == 'amp' and isinstance(a.value, ast.Call)
                and src(a.value.func) in ('np.nanmin', 'np.nanmax') and [src(x) for x in a.value.args] == ['summit']
                and not a.value.keywords):
            raise TranslateError(E + f"amp ({what}) is {src(a)}")
        amp_min = src(a.value.func) == 'np.nanmin'
        if not (isinstance(b, ast.Assign) and src(b.targets[0]) == '(xpeak, ypeak)' and isinstance(b.value, ast.Call)
                and src(b.value.func) == 'np.unravel_index' and len(b.value.args) == 2
                and src(b.value.args[1]) == 'summit.shape' and isinstance(b.value.args[0], ast.Call)
                and src(b.value.args[0].func) in ('np.nanargmin', 'np.nanargmax')
                and [src(x) for x in b.value.args[0].args] == ['summit']):
            raise TranslateError(E + f"peak position ({what}) is {src(b)}")
        return amp_min, src(b.value.args[0].func) == 'np.nanargmin'
    neg_amp_min, neg_arg_min = pick(pk.body, 'negative')
    pos_amp_min, pos_arg_min = pick(pk.orelse, 'positive')
    if src(one_assign(loop, 'yo').value) != 'ypeak + ymin' or src(one_assign(loop, 'xo').value) != 'xpeak + xmin':
        raise TranslateError(E + "xo / yo are not xpeak + xmin / ypeak + ymin")

    # ---- signal-to-noise test of the summit box
    sn = [s for s in lb if isinstance(s, ast.Assign) and src(s.targets[0]) == 'snr']
    if len(sn) != 1:
        raise TranslateError(E + "snr assignment in the summit loop")
    sv = sn[0].value
    if not (isinstance(sv, ast.Call) and src(sv.func) == 'np.nanmax' and len(sv.args) == 1):
        raise TranslateError(E + f"snr is {src(sv)[:100]}")
    subs = [n for n in ast.walk(sv) if isinstance(n, ast.Subscript)]
    if len(subs) != 2 or {src(s.value) for s in subs} != {'data', 'rmsimg'} or src(subs[0].slice) != src(subs[1].slice):
        raise TranslateError(E + "snr does not divide data by rmsimg over the same box")
    sl = subs[0].slice
    if not (isinstance(sl, ast.Tuple) and len(sl.elts) == 2 and all(isinstance(e, ast.Slice) and e.step is None for e in sl.elts)):
        raise TranslateError(E + "snr box")
    trb = Tr('Z', {'xmin': 'lo', 'xmax': 'hi', 'ymin': 'lo', 'ymax': 'hi'})
    lows = {trb.expr(e.lower) for e in sl.elts}
    highs = {trb.expr(e.upper) for e in sl.elts}
    if len(lows) != 1 or len(highs) != 1:
        raise TranslateError(E + "snr box differs between the axes")
    dsub = next(s for s in subs if src(s.value) == 'data')
    rsub = next(s for s in subs if src(s.value) == 'rmsimg')
    snr_pixel = TrQ({src(dsub): 'v', src(rsub): 'rms'}).expr(sv.args[0])
    k = lb.index(sn[0])
    pre = [s for s in lb[:k] if not (isinstance(s, ast.If) and src(s.test) == 'debug_on')]
    if [src(s)[:24] for s in pre if not isinstance(s, ast.Try)] != ['summits_considered += 1', 'summit_flag = is_flag',
                                                                     'yo = ypeak + ymin', 'xo = xpeak + xmin'] \
            or sum(isinstance(s, ast.Try) for s in pre) != 1:
        raise TranslateError(E + f"unexpected statements before the snr test: {[src(s)[:30] for s in pre]}")
    skip = lb[k + 1]
    if not (isinstance(skip, ast.If) and not skip.orelse and isinstance(skip.body[-1], ast.Continue)):
        raise TranslateError(E + "the statement after snr is not `if ..: continue`")
    snr_skip = TrQ({'snr': 'snr', 'innerclip': 'ic'}).cond(skip.test)

    # ---- amplitude bounds
    amp_if = lb[k + 2]
    if not (isinstance(amp_if, ast.If) and len(amp_if.body) == 1 and len(amp_if.orelse) == 1
            and isinstance(amp_if.test, ast.Compare) and src(amp_if.test.left) == 'amp'):
        raise TranslateError(E + "amplitude bounds are not `if amp ..: (..) = (..) else: (..) = (..)`")
    tra = TrQ({'amp': 'amp', 'rmsimg[xo, yo]': 'rms', 'outerclip': 'oc', 'innerclip': 'ic'})
    amp_pos_test = tra.cond(amp_if.test)

    def bounds(st, what):
        if not (isinstance(st, ast.Assign) and isinstance(st.targets[0], ast.Tuple) and isinstance(st.value, ast.Tuple)
                and len(st.value.elts) == 2 and sorted(src(e) for e in st.targets[0].elts) == ['amp_max', 'amp_min']):
            raise TranslateError(E + f"amplitude bounds ({what}): {src(st)[:100]}")
        d = {src(t_): tra.expr(v_) for t_, v_ in zip(st.targets[0].elts, st.value.elts)}
        return d['amp_min'], d['amp_max']
    pmin, pmax = bounds(amp_if.body[0], 'amp > 0')
    nmin, nmax = bounds(amp_if.orelse[0], 'otherwise')

    # ---- everything after the bounds: no other parameter / flag may depend on pixel values
    deps = {}

    def closure(names):
        out = set()
        for nm in names:
            out.add(nm)
            out |= deps.get(nm, set())
        return out
    adds = {}
    maxxed_test = None
    maxxed_flag = None
    psf_rule = None
    for st in lb[k + 3:]:
        if isinstance(st, ast.Assign):
            d = closure(_names(st.value))
            tg = st.targets[0]
            for e in (tg.elts if isinstance(tg, ast.Tuple) else [tg]):
                if not isinstance(e, ast.Name):
                    raise TranslateError(E + f"assignment target {src(e)}")
                deps[e.id] = d
        elif isinstance(st, ast.AugAssign) and isinstance(st.target, ast.Name):
            deps[st.target.id] = deps.get(st.target.id, set()) | closure(_names(st.value)) | {st.target.id}
        elif isinstance(st, ast.If) and src(st.test) == 'debug_on':
            continue
        elif isinstance(st, ast.If) and src(st.test) == 'not np.all(np.isfinite((a, b, pa)))':
            if not isinstance(st.body[-1], ast.Continue):
                raise TranslateError(E + "invalid psf does not skip the summit")
            if closure({'a', 'b', 'pa'}) & SIGNED:
                raise TranslateError(E + "the psf of a summit depends on pixel values")
        elif isinstance(st, ast.If) and src(st.test) == 'max_summits is not None':
            if [src(s) for s in st.orelse] != ['maxxed = False'] or len(st.body) != 1 \
                    or src(st.body[0].targets[0]) != 'maxxed':
                raise TranslateError(E + "maxxed")
            maxxed_test = trz.cond(st.body[0].value)
            deps['maxxed'] = {'i', 'max_summits'}
        elif isinstance(st, ast.If) and src(st.test) == 'maxxed':
            if st.orelse:
                raise TranslateError(E + "if maxxed has an else branch")
            maxxed_flag = _or_flags(st.body, 'summit_flag', fl)
        elif isinstance(st, ast.If) and src(st.test).startswith('summit_flag & flags.'):
            tt = st.test
            if not (isinstance(tt, ast.Compare) and isinstance(tt.left, ast.BinOp) and isinstance(tt.left.op, ast.BitAnd)
                    and tt.left.right.attr in fl and isinstance(tt.ops[0], ast.Gt) and src(tt.comparators[0]) == '0'
                    and [src(s) for s in st.body] == ['psf_vary = False'] and [src(s) for s in st.orelse] == ['psf_vary = not maxxed']):
                raise TranslateError(E + f"psf_vary rule: {src(st)[:120]}")
            psf_rule = fl[tt.left.right.attr]
            deps['psf_vary'] = {'summit_flag', 'maxxed'}
        elif isinstance(st, ast.Expr) and isinstance(st.value, ast.Call) and src(st.value.func) == 'params.add':
            c = st.value
            nm = src(c.args[0])
            adds[nm] = {kw.arg: kw.value for kw in c.keywords}
        elif isinstance(st, ast.Expr) and isinstance(st.value, ast.Constant):
            continue
        else:
            raise TranslateError(E + f"unexpected statement in the summit loop: {src(st)[:80]}")
    want = ["prefix + 'amp'", "prefix + 'xo'", "prefix + 'yo'", "prefix + 'sx'", "prefix + 'sy'", "prefix + 'theta'",
            "prefix + 'flags'"]
    if sorted(adds) != sorted(want):
        raise TranslateError(E + f"parameters added per summit: {sorted(adds)}")
    a = adds["prefix + 'amp'"]
    if {k_: src(v_) for k_, v_ in a.items()} != {'value': 'amp', 'min': 'amp_min', 'max': 'amp_max', 'vary': 'not maxxed'}:
        raise TranslateError(E + f"amp parameter: { {k_: src(v_) for k_, v_ in a.items()} }")
    deps.setdefault('summit_flag', set())
    sf_assign = [s for s in lb if isinstance(s, ast.Assign) and src(s.targets[0]) == 'summit_flag']
    if len(sf_assign) != 1 or src(sf_assign[0].value) != 'is_flag':
        raise TranslateError(E + "summit_flag = is_flag")
    for nm in want[1:]:
        for kw, v in adds[nm].items():
            d = closure(_names(v)) & SIGNED
            if d:
                raise TranslateError(E + f"{nm} {kw}={src(v)} depends on pixel values through {sorted(d)}")
    for nm in ("prefix + 'xo'", "prefix + 'yo'"):
        if src(adds[nm]['vary']) != 'not maxxed':
            raise TranslateError(E + "position vary")
    for nm in ("prefix + 'sx'", "prefix + 'sy'", "prefix + 'theta'"):
        if src(adds[nm]['vary']) != 'psf_vary':
            raise TranslateError(E + "shape vary")
    if {k_: src(v_) for k_, v_ in adds["prefix + 'flags'"].items()} != {'value': 'summit_flag', 'vary': 'False'}:
        raise TranslateError(E + "flags parameter")
    if maxxed_test is None or maxxed_flag is None or psf_rule is None:
        raise TranslateError(E + "maxxed / psf_vary rules not found")
    if not any(isinstance(s, ast.AugAssign) and src(s) == 'i += 1' for s in lb):
        raise TranslateError(E + "component counter")

    # ---- polarity filter of find_sources_in_image
    fs = find_func(tree, 'find_sources_in_image', cls='SourceFinder')
    F = "find_sources_in_image: "
    cands = [n for n in ast.walk(fs) if isinstance(n, ast.For) and src(n.iter) == 'srcs']
    if len(cands) != 1:
        raise TranslateError(F + "loop over the fitted sources of an island")
    fl_loop = cands[0]
    if not (len(fl_loop.body) == 2 and isinstance(fl_loop.body[0], ast.If) and not fl_loop.body[0].orelse
            and [type(s) for s in fl_loop.body[0].body] == [ast.Continue]
            and src(fl_loop.body[1]) == 'sources.append(src)' and src(fl_loop.target) == 'src'):
        raise TranslateError(F + "filter is not `if ..: continue; sources.append(src)`")
    ft = fl_loop.body[0].test
    cmps = [n for n in ast.walk(ft) if isinstance(n, ast.Compare)]
    env = {'nopositive': 'nopos', 'nonegative': 'noneg'}
    defs = []
    for n in cmps:
        if not (src(n.left) == 'src.peak_flux' and len(n.ops) == 1 and src(n.comparators[0]) == '0'):
            raise TranslateError(F + f"filter compares {src(n)}")
        nm = {ast.Gt: 'gt0', ast.Lt: 'lt0', ast.GtE: 'ge0', ast.LtE: 'le0'}.get(type(n.ops[0]))
        if nm is None:
            raise TranslateError(F + f"filter comparison {src(n)}")
        env[src(n)] = nm
        defs.append((nm, TrQ({'src.peak_flux': 'p'}).cond(n)))
    if sorted(d[0] for d in defs) != ['gt0', 'lt0']:
        raise TranslateError(F + f"filter tests {[d[0] for d in defs]} (expected one `> 0` and one `< 0`)")

    def bexp(n):
        if src(n) in env:
            return env[src(n)]
        if isinstance(n, ast.BoolOp):
            return '(' + (' && ' if isinstance(n.op, ast.And) else ' || ').join(bexp(v) for v in n.values) + ')'
        if isinstance(n, ast.UnaryOp) and isinstance(n.op, ast.Not):
            return f"(negb {bexp(n.operand)})"
        raise TranslateError(F + f"filter term {src(n)}")
    drop = bexp(ft)
    dd = dict(defs)
    curvature = _curvature_leaves(tree)
    b = lambda x: 'true' if x else 'false'  # noqa: E731
    return HEADER_Q + f"""
(* SourceFinder.estimate_lmfit_parinfo: the polarity-dependent leaves.  v = pixel value (background
   subtracted), rms = noise at the pixel, curve = curvature sign (-1 local maximum, +1 local minimum),
   ic / oc = inner / outer clip.  Floats are read as exact rationals. *)
(* isnegative, as a test on the largest finite pixel of the island *)
Definition isneg_test (mx : Q) : bool := {isneg}.
(* pixels that may belong to a summit, in the `isnegative` branch and in the other one *)
Definition summit_pixel_neg (curve v rms oc : Q) : bool := {mask_neg}.
Definition summit_pixel_pos (curve v rms oc : Q) : bool := {mask_pos}.
(* summits are visited in increasing order of the largest value of this over their pixels *)
Definition sort_key_pixel (v : Q) : Q := {sort_key}.
(* initial amplitude / peak position: true = np.nanmin / np.nanargmin, false = np.nanmax / np.nanargmax *)
Definition amp_neg_uses_min : bool := {b(neg_amp_min)}.
Definition peak_neg_uses_argmin : bool := {b(neg_arg_min)}.
Definition amp_pos_uses_min : bool := {b(pos_amp_min)}.
Definition peak_pos_uses_argmin : bool := {b(pos_arg_min)}.
(* summit skipped when the largest of this over the box [lo, snr_box_hi hi) of both axes is below ic *)
Definition snr_pixel (v rms : Q) : Q := {snr_pixel}.
Definition snr_skip (snr ic : Q) : bool := {snr_skip}.
(* which pair of bounds is used, and the two pairs *)
Definition amp_is_positive (amp : Q) : bool := {amp_pos_test}.
Definition amp_min_pos (amp rms ic oc : Q) : Q := {pmin}.
Definition amp_max_pos (amp rms ic oc : Q) : Q := {pmax}.
Definition amp_min_neg (amp rms ic oc : Q) : Q := {nmin}.
Definition amp_max_neg (amp rms ic oc : Q) : Q := {nmax}.

(* the polarity filter at the end of SourceFinder.find_sources_in_image: a source is dropped when *)
Definition peak_gt0 (p : Q) : bool := {dd['gt0']}.
Definition peak_lt0 (p : Q) : bool := {dd['lt0']}.
Definition filter_drop (gt0 lt0 nopos noneg : bool) : bool := {drop}.

Open Scope Z_scope.
(* value-independent parts (n = number of finite pixels of the island, i = component index) *)
Definition island_flag (n : Z) : Z := {island_flag}.
Definition tiny_island (minshape flag : Z) : bool := {tiny_cond}.
Definition tiny_flag : Z := {tiny_flag}.
Definition snr_box_lo (lo : Z) : Z := {lows.pop()}.
Definition snr_box_hi (hi : Z) : Z := {highs.pop()}.
Definition maxxed_test (i m : Z) : bool := {maxxed_test}.
Definition maxxed_flag : Z := {maxxed_flag}.
Definition psf_fixed_mask : Z := {psf_rule}.
(* the translator checked that the position / shape / angle bounds, the vary switches and the flags of
   a component do not depend on pixel values other than through the peak position and the index *)
Definition other_parameters_value_independent : bool := true.
""" + curvature
