"""C14 extraction points: AeRes.make_model / make_residual / load_sources -> coq/Gen/AeRes.v

Every statement of the `for src in sources:` loop of make_model is either translated (R back end) or
recognised as one of a fixed list of statements that have no meaning over the reals (logging, the
isfinite guard, ravel, the source counter); anything else makes the translator refuse.
"""
import ast

from trcore import HEADER_R, Tr, TranslateError, block_lets, find_func, lets_text, parse_file, point, src, strip_doc
from translate_points import _p


class TrF(Tr):
    """R back end + np.floor / np.ceil (integer-valued reals) and int() of such a value"""

    def e_Call(self, n):
        if not n.keywords and len(n.args) == 1:
            try:
                f = self.name_of_call(n.func)
            except TranslateError:
                f = None
            if f == 'floor':
                return f"(IZR (Zfloor {self.expr(n.args[0])}))"
            if f == 'ceil':
                return f"(IZR (Zceil {self.expr(n.args[0])}))"
        return Tr.e_Call(self, n)


def _is_logging(st):
    return (isinstance(st, ast.Expr) and isinstance(st.value, ast.Call)
            and src(st.value.func) in ('logging.debug', 'logging.info', 'logging.warning', 'logging.error'))


def _skip_guard(st, tr, what):
    """`if not <chained comparison>: [logging...] continue` -> Gallina bool that is true when the source is skipped"""
    if not (isinstance(st, ast.If) and not st.orelse and st.body and isinstance(st.body[-1], ast.Continue)
            and all(_is_logging(s) for s in st.body[:-1])):
        raise TranslateError(f"make_model: expected the {what} guard `if ..: continue`, found {src(st)[:70]}")
    return tr.cond(st.test)


def _int_of_name(n, tr):
    if not (isinstance(n, ast.Call) and isinstance(n.func, ast.Name) and n.func.id == 'int' and len(n.args) == 1
            and not n.keywords and isinstance(n.args[0], ast.Name)):
        raise TranslateError(f"make_model: window bound is not int(<name>): {src(n)}")
    return f"(Ztrunc {tr.expr(n.args[0])})"


def _where_cond(st, tr):
    """indices = np.where(<comparison>)"""
    if not (isinstance(st, ast.Assign) and src(st.targets[0]) == 'indices' and isinstance(st.value, ast.Call)
            and src(st.value.func) == 'np.where' and len(st.value.args) == 1 and not st.value.keywords):
        raise TranslateError(f"make_model: expected indices = np.where(..), found {src(st)[:70]}")
    return tr.cond(st.value.args[0])


SRC_ATTRS = {'src.ra': 'ra', 'src.dec': 'dec', 'src.a': 'a', 'src.b': 'b', 'src.pa': 'pa',
             'src.peak_flux': 'peak', 'src.local_rms': 'rms'}


@point('AeRes')
def gen_aeres(repo):
    tree = parse_file(_p(repo, 'AeRes.py'))
    # ---- module constant FWHM2CC
    cc = [n for n in tree.body if isinstance(n, ast.Assign) and src(n.targets[0]) == 'FWHM2CC']
    if len(cc) != 1:
        raise TranslateError("AeRes.FWHM2CC not assigned exactly once at module level")
    fwhm2cc = Tr('R').expr(cc[0].value)

    # ---- make_model
    mm = find_func(tree, 'make_model')
    margs = [a.arg for a in mm.args.args]
    if margs != ['sources', 'shape', 'wcshelper', 'mask', 'frac', 'sigma']:
        raise TranslateError(f"make_model: signature {margs}")
    body = strip_doc(mm.body)
    loops = [i for i, st in enumerate(body) if isinstance(st, ast.For)]
    if len(loops) != 1:
        raise TranslateError("make_model: expected exactly one loop")
    pre, loop, post = body[:loops[0]], body[loops[0]], body[loops[0] + 1:]
    if src(loop.target) != 'src' or src(loop.iter) != 'sources' or loop.orelse:
        raise TranslateError("make_model: loop is not `for src in sources`")
    factor = None
    m_init = None
    for st in pre:
        s = src(st)
        if isinstance(st, ast.Assign) and src(st.targets[0]) == 'm':
            if not (isinstance(st.value, ast.Call) and src(st.value.func) == 'np.zeros' and src(st.value.args[0]) == 'shape'):
                raise TranslateError(f"make_model: model array is not np.zeros(shape, ..): {s}")
            m_init = '0'
            dt = [k for k in st.value.keywords if k.arg == 'dtype']
            dtype = src(dt[0].value) if dt else 'float64'
        elif isinstance(st, ast.Assign) and src(st.targets[0]) == 'factor':
            factor = Tr('R').expr(st.value)
        elif s == 'i_count = 0':
            pass
        else:
            raise TranslateError(f"make_model: unexpected statement before the loop: {s[:70]}")
    if m_init is None or factor is None:
        raise TranslateError("make_model: m / factor not initialised before the loop")
    if not (post and src(post[-1]) == 'return m' and all(_is_logging(s) for s in post[:-1])):
        raise TranslateError("make_model: does not end in `return m`")

    env = dict(SRC_ATTRS)
    env.update({'shape[0]': 'shape0', 'shape[1]': 'shape1', 'factor': factor, 'FWHM2CC': 'FWHM2CC',
                'sigma': 'sigma', 'frac': 'frac'})
    tr = TrF('R', env)
    lb = list(loop.body)
    # 1 the WCS call
    st = lb.pop(0)
    if not (isinstance(st, ast.Assign) and src(st.targets[0]) == '(xo, yo, sx, sy, theta)'
            and isinstance(st.value, ast.Call) and src(st.value.func) == 'wcshelper.sky2pix_ellipse'
            and len(st.value.args) == 4 and not st.value.keywords and isinstance(st.value.args[0], ast.List)
            and len(st.value.args[0].elts) == 2):
        raise TranslateError(f"make_model: expected xo, yo, sx, sy, theta = wcshelper.sky2pix_ellipse([..], .., .., ..): {src(st)[:80]}")
    ell_args = [tr.expr(e) for e in st.value.args[0].elts] + [tr.expr(e) for e in st.value.args[1:]]
    for nme in ('xo', 'yo', 'sx', 'sy', 'theta'):
        tr.env[nme] = nme
    # 2 phi and whatever plain assignments precede the guards
    lets0, lb = block_lets(lb, tr)
    # 3 the two off-image guards
    if len(lb) < 2:
        raise TranslateError("make_model: off-image guards missing")
    skip_x = _skip_guard(lb[0], tr, 'x')
    skip_y = _skip_guard(lb[1], tr, 'y')
    for g, nme in ((lb[0], 'xo'), (lb[1], 'yo')):
        names = {n.id for n in ast.walk(g.test) if isinstance(n, ast.Name)}
        if nme not in names or ({'xo', 'yo'} - {nme}) & names:
            raise TranslateError(f"make_model: guard {src(g.test)} does not test {nme} alone")
    lb = lb[2:]
    # 4 window arithmetic
    lets1, lb = block_lets(lb, tr)
    # 5/6 isfinite guard and debug block (no meaning over R)
    finite_guard = 'false'
    while lb and isinstance(lb[0], ast.If):
        st = lb[0]
        t = src(st.test)
        if t.startswith('not np.all(np.isfinite(') and len(st.body) == 1 and isinstance(st.body[0], ast.Continue) \
                and not st.orelse:
            finite_guard = 'true'
        elif t == 'logging.getLogger().isEnabledFor(logging.DEBUG)' and all(_is_logging(s) or isinstance(s, ast.Pass) for s in st.body) \
                and not st.orelse:
            pass
        else:
            break
        lb = lb[1:]
    # 7 the pixel grid
    st = lb.pop(0) if lb else None
    if not (st is not None and isinstance(st, ast.Assign) and src(st.targets[0]) == '(x, y)'
            and isinstance(st.value, ast.Subscript) and src(st.value.value) == 'np.mgrid'
            and isinstance(st.value.slice, ast.Tuple) and len(st.value.slice.elts) == 2
            and all(isinstance(e, ast.Slice) and e.step is None and e.lower is not None and e.upper is not None
                    for e in st.value.slice.elts)):
        raise TranslateError(f"make_model: expected x, y = np.mgrid[int(..):int(..), int(..):int(..)]: {src(st)[:80] if st else ''}")
    sx_, sy_ = st.value.slice.elts
    win = [_int_of_name(sx_.lower, tr), _int_of_name(sx_.upper, tr), _int_of_name(sy_.lower, tr), _int_of_name(sy_.upper, tr)]
    # 8 ravel
    for nme in ('x', 'y'):
        if not lb or src(lb[0]) != f'{nme} = {nme}.ravel()':
            raise TranslateError(f"make_model: expected {nme} = {nme}.ravel()")
        lb.pop(0)
    tr.env['x'] = 'x'
    tr.env['y'] = 'y'
    # 9 the Gaussian
    st = lb.pop(0) if lb else None
    if not (st is not None and isinstance(st, ast.Assign) and src(st.targets[0]) == 'model'
            and isinstance(st.value, ast.Call) and src(st.value.func) == 'fitting.elliptical_gaussian'
            and len(st.value.args) == 8 and not st.value.keywords):
        raise TranslateError("make_model: expected model = fitting.elliptical_gaussian(8 positional arguments)")
    gargs = [tr.expr(e) for e in st.value.args]
    tr.env['model'] = 'model'
    # 10 mask / accumulate
    st = lb.pop(0) if lb else None
    if not (st is not None and isinstance(st, ast.If) and src(st.test) == 'mask' and len(st.body) == 2 and len(st.orelse) == 1):
        raise TranslateError("make_model: expected `if mask: <select>; <blank> else: <accumulate>`")
    sel, blank = st.body
    if not (isinstance(sel, ast.If) and src(sel.test) == 'frac is not None' and len(sel.body) == 1 and len(sel.orelse) == 1):
        raise TranslateError("make_model: expected `if frac is not None: indices = .. else: indices = ..`")
    hit_frac = _where_cond(sel.body[0], tr)
    hit_sigma = _where_cond(sel.orelse[0], tr)
    if src(blank) != 'm[x[indices], y[indices]] = np.nan':
        raise TranslateError(f"make_model: blanking statement is {src(blank)}")
    acc = st.orelse[0]
    if not (isinstance(acc, ast.AugAssign) and src(acc.target) == 'm[x, y]'):
        raise TranslateError(f"make_model: accumulation statement is {src(acc)}")
    tr.env['m[x, y]'] = 'm'
    accum = tr.expr(ast.BinOp(left=acc.target, op=acc.op, right=acc.value))
    # 11 counter
    if [src(s) for s in lb] != ['i_count += 1']:
        raise TranslateError(f"make_model: unexpected statements at the end of the loop: {[src(s)[:40] for s in lb]}")

    # ---- make_residual
    mr = find_func(tree, 'make_residual')
    calls = [n for n in ast.walk(mr) if isinstance(n, ast.Call) and src(n.func) == 'make_model']
    if len(calls) != 1 or [src(a) for a in calls[0].args] != ['source_list', 'data.shape', 'wcshelper', 'mask', 'frac', 'sigma'] \
            or calls[0].keywords:
        raise TranslateError("make_residual: make_model is not called as make_model(source_list, data.shape, wcshelper, mask, frac, sigma)")
    ifs = [n for n in mr.body if isinstance(n, ast.If) and any(src(t.targets[0]) == 'residual' for t in n.body
                                                                if isinstance(t, ast.Assign))]
    if len(ifs) != 1 or len(ifs[0].body) != 1 or len(ifs[0].orelse) != 1:
        raise TranslateError("make_residual: expected `if ..: residual = .. else: residual = ..`")
    t = ifs[0].test
    if not (isinstance(t, ast.BoolOp) and isinstance(t.op, ast.Or) and all(isinstance(v, ast.Name) for v in t.values)
            and {v.id for v in t.values} <= {'add', 'mask'}):
        raise TranslateError(f"make_residual: branch condition {src(t)}")
    rcond = '(' + ' || '.join(v.id for v in t.values) + ')'
    tr2 = Tr('R', {'data': 'data', 'model': 'model'})
    r_then = tr2.expr(ifs[0].body[0].value)
    r_else = tr2.expr(ifs[0].orelse[0].value)
    if src(ifs[0].orelse[0].targets[0]) != 'residual':
        raise TranslateError("make_residual: else branch does not assign residual")
    lsrc = [n for n in ast.walk(mr) if isinstance(n, ast.Call) and src(n.func) == 'load_sources']
    if len(lsrc) != 1 or src(lsrc[0]) != 'load_sources(catalog, **colmap)':
        raise TranslateError("make_residual: catalogue is not read with load_sources(catalog, **colmap)")
    wr = [src(n) for n in ast.walk(mr) if isinstance(n, ast.Assign) and src(n.targets[0]) == 'hdulist[0].data']
    if not wr or wr[0] != 'hdulist[0].data = residual':
        raise TranslateError("make_residual: residual is not what is written first")

    # ---- load_sources: which user-named column becomes which catalogue field.
    # Accepted shape (anything else is refused):
    #   required_cols = [<six parameters>]
    #   for c in required_cols: if c not in table.colnames: .. good = False      ;  if not good: .. return None
    #   new_cols = [<six names>]
    #   picked = [table[c].copy() for c in required_cols]
    #   table.remove_columns([c for c in table.colnames if c in required_cols + new_cols])
    #   for col, new in zip(picked, new_cols): table.add_column(col, name=new)
    #   catalog = catalogs.table_to_source_list(table)
    ls = find_func(tree, 'load_sources')
    params = [a.arg for a in ls.args.args]
    defaults = [ast.literal_eval(d) for d in ls.args.defaults]
    if params[0] != 'filename' or len(defaults) != len(params) - 1:
        raise TranslateError("load_sources: signature")
    lbody = strip_doc(ls.body)

    def one(pred, what):
        found = [s for s in lbody if pred(s)]
        if len(found) != 1:
            raise TranslateError(f"load_sources: expected exactly one top-level statement `{what}`, found {len(found)}")
        return found[0]

    def assigns(name):
        return lambda s: isinstance(s, ast.Assign) and len(s.targets) == 1 and src(s.targets[0]) == name
    rc = one(assigns('required_cols'), 'required_cols = [..]')
    if not (isinstance(rc.value, ast.List) and all(isinstance(e, ast.Name) for e in rc.value.elts)):
        raise TranslateError("load_sources: required_cols is not a list of parameters")
    ren_from = [e.id for e in rc.value.elts]
    if not set(ren_from) <= set(params[1:]) or len(set(ren_from)) != len(ren_from):
        raise TranslateError("load_sources: required_cols are not distinct parameters")
    chk = one(lambda s: isinstance(s, ast.For) and src(s.iter) == 'required_cols' and src(s.target) == 'c', 'for c in required_cols')
    if not (len(chk.body) == 1 and isinstance(chk.body[0], ast.If) and src(chk.body[0].test) == 'c not in table.colnames'
            and not chk.body[0].orelse and src(chk.body[0].body[-1]) == 'good = False'
            and all(_is_logging(s) or src(s) == 'good = False' for s in chk.body[0].body)):
        raise TranslateError("load_sources: the missing-column test is not `if c not in table.colnames: .. good = False`")
    bad = one(lambda s: isinstance(s, ast.If) and src(s.test) == 'not good', 'if not good')
    if not (src(bad.body[-1]) == 'return None' and all(_is_logging(s) for s in bad.body[:-1]) and not bad.orelse):
        raise TranslateError("load_sources: `if not good` does not return None")
    nc = one(assigns('new_cols'), 'new_cols = [..]')
    try:
        ren_to = [str(x) for x in ast.literal_eval(nc.value)]
    except ValueError:
        raise TranslateError("load_sources: new_cols is not a list of literals")
    if len(ren_to) != len(ren_from):
        raise TranslateError("load_sources: required_cols and new_cols differ in length")
    pk = one(assigns('picked'), 'picked = [..]')
    if src(pk.value) != '[table[c].copy() for c in required_cols]':
        raise TranslateError(f"load_sources: picked = {src(pk.value)}")
    rm = one(lambda s: isinstance(s, ast.Expr) and isinstance(s.value, ast.Call) and src(s.value.func) == 'table.remove_columns',
             'table.remove_columns(..)')
    if src(rm.value) != 'table.remove_columns([c for c in table.colnames if c in required_cols + new_cols])':
        raise TranslateError(f"load_sources: {src(rm.value)}")
    ad = one(lambda s: isinstance(s, ast.For) and isinstance(s.iter, ast.Call) and src(s.iter.func) == 'zip', 'for .. in zip(..)')
    if not (src(ad.target) == '(col, new)' and src(ad.iter) == 'zip(picked, new_cols)'
            and [src(s) for s in ad.body] == ['table.add_column(col, name=new)'] and not ad.orelse):
        raise TranslateError("load_sources: expected `for col, new in zip(picked, new_cols): table.add_column(col, name=new)`")
    cat = one(assigns('catalog'), 'catalog = ..')
    if src(cat.value) != 'catalogs.table_to_source_list(table)':
        raise TranslateError("load_sources: table_to_source_list(table) not used")
    order = [lbody.index(s) for s in (rc, chk, bad, nc, pk, rm, ad, cat)]
    if order != sorted(order) or lbody.index(nc) > lbody.index(pk):
        raise TranslateError("load_sources: statements are not in the order check / pick / remove / add / convert")
    # no other statement may touch the table
    for s in lbody:
        if s in (rc, chk, bad, nc, pk, rm, ad, cat) or _is_logging(s) or isinstance(s, ast.Return) or src(s) == 'good = True' \
                or src(s) == 'table = catalogs.load_table(filename)':
            continue
        raise TranslateError(f"load_sources: unexpected statement {src(s)[:70]}")
    strs = lambda xs: '[' + '; '.join(f'"{x}"' for x in xs) + ']'   # noqa: E731

    SA = 'ra dec a b pa'
    EA = 'xo yo sx sy theta'
    return HEADER_R + f"""From Coq Require Import ZArith Bool List String.
From Flocq Require Import Raux.
From Aegean Require Import Gen.Gauss.
Import ListNotations.

(* AeRes.FWHM2CC *)
Definition FWHM2CC : R := {fwhm2cc}.

(* make_model: arguments handed to wcshelper.sky2pix_ellipse for one catalogue row *)
Definition ell_args ({SA} : R) : R * R * R * R * R := ({', '.join(ell_args)}).

(* make_model: the two `continue` guards (true = the source is skipped) *)
Definition skip_x (xo shape0 : R) : bool := {skip_x}.
Definition skip_y (yo shape1 : R) : bool := {skip_y}.

(* make_model: np.mgrid[int(xmin):int(xmax), int(ymin):int(ymax)] *)
Definition window ({EA} shape0 shape1 : R) : Z * Z * Z * Z :=
{lets_text(lets0 + lets1, '(' + ', '.join(win) + ')')}.

(* make_model: the value computed for pixel (x, y) of one source *)
Definition px_model (x y peak {EA} : R) : R := gauss {' '.join(gargs)}.

(* make_model: m = np.zeros(shape, dtype={dtype}) ; {src(acc)} *)
Definition m_init : R := {m_init}.
Definition accum (m model : R) : R := {accum}.
Definition model_dtype : string := "{dtype}".

(* make_model, mask mode: the pixels selected by np.where and set to nan *)
Definition mask_frac_hit (model frac peak : R) : bool := {hit_frac}.
Definition mask_sigma_hit (model sigma rms : R) : bool := {hit_sigma}.
(* is there an `if not np.all(np.isfinite(..)): continue` (no meaning over R) *)
Definition finite_guard : bool := {finite_guard}.

(* make_residual *)
Definition residual_px (add mask : bool) (data model : R) : R := if {rcond} then {r_then} else {r_else}.

(* load_sources: parameters, their defaults, and the pairing requested column -> catalogue field
   (the requested columns are copied, every column named like a requested or a catalogue column is
   removed, the copies are added under the catalogue names; a missing requested column returns None) *)
Local Open Scope string_scope.
Definition load_params : list string := {strs(params[1:])}.
Definition load_defaults : list string := {strs(defaults)}.
Definition rename_from : list string := {strs(ren_from)}.
Definition rename_to : list string := {strs(ren_to)}.
"""
