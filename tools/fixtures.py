"""FITS / WCS fixture builders for the harnesses (nothing is ever written under /repo)."""
import numpy as np
from astropy.io import fits


def make_header(shape, proj='SIN', crval=(150.0, -30.0), cdelt=10.0 / 3600, crpix=None,
                beam=(30.0 / 3600, 30.0 / 3600, 0.0), naxis=2, bscale=None):
    """shape = (rows, cols).  cdelt in degrees (RA axis gets -cdelt)."""
    rows, cols = shape
    h = fits.Header()
    h['SIMPLE'] = True
    h['BITPIX'] = -32
    h['NAXIS'] = naxis
    h['NAXIS1'] = cols
    h['NAXIS2'] = rows
    if naxis >= 3:
        h['NAXIS3'] = 1
    if naxis >= 4:
        h['NAXIS4'] = 1
    h['CTYPE1'] = 'RA---' + proj
    h['CTYPE2'] = 'DEC--' + proj
    h['CRVAL1'] = float(crval[0])
    h['CRVAL2'] = float(crval[1])
    if crpix is None:
        crpix = (cols // 2 + 1, rows // 2 + 1)
    h['CRPIX1'] = float(crpix[0])
    h['CRPIX2'] = float(crpix[1])
    if isinstance(cdelt, (tuple, list)):
        h['CDELT1'], h['CDELT2'] = float(cdelt[0]), float(cdelt[1])
    else:
        h['CDELT1'] = -float(cdelt)
        h['CDELT2'] = float(cdelt)
    h['CUNIT1'] = 'deg'
    h['CUNIT2'] = 'deg'
    h['EQUINOX'] = 2000.0
    if beam is not None:
        h['BMAJ'], h['BMIN'], h['BPA'] = float(beam[0]), float(beam[1]), float(beam[2])
    h['BUNIT'] = 'Jy/beam'
    if bscale is not None:
        h['BSCALE'] = float(bscale)
    return h


def write_image(path, data, header):
    hdu = fits.PrimaryHDU(data=np.asarray(data), header=header)
    # astropy rewrites NAXISn from the data; keep our WCS cards
    hdu.writeto(path, overwrite=True)
    return path
