"""C04 (extension) extraction point `Noise`: the noise / covariance model of the fit -> coq/Gen/Noise.v.

  fitting.Cmatrix        C = np.vstack([elliptical_gaussian(x, y, 1, i, j, sx, sy, theta) for i, j in zip(x, y)]): the eight
                         arguments of the call become the leaf `cm_entry x y cx cy sx sy theta` (cx / cy = the loop variable
                         that runs over x / y in the zip, so a swapped zip or swapped arguments change the leaf).
  fitting.Bmatrix        `L, Q = eigh(C)`, `minL = <expr in L[-1]>` (leaf bm_minL, constant bm_minL_uses_last), the clip
                         `L[L < minL] = minL` (leaf bm_clip), `S = np.diag(<expr in L>)` (leaf bm_s), `B = Q.dot(S)` (constant
                         bm_B_is_Q_dot_S; S.dot(Q) is recognised as false, anything else is refused), `return B`.
  fitting.lmfit_jacobian the order of `matrix /= errs` (leaf lj_scale) and `matrix = matrix.dot(B)` (constant lj_whiten_right;
                         B.dot(matrix) -> false), the final np.transpose.
  fitting.do_lmfit       the whitening of the residual closure `(model - data[mask]).dot(B)` and the un-whitening
                         `result.residual.dot(inv(B))`.
  fitting.covar_errors   both branches: the arguments handed to lmfit_jacobian, the Fisher products
                         `np.transpose(J).dot(inv(C)).dot(J)` / `np.transpose(J).dot(J)` and `np.sqrt(np.diag(inv(covar)))`
                         (leaf ce_sigma).
Everything else raises TranslateError (fail closed)."""
import ast

from trcore import HEADER_R, Tr, TranslateError, find_func, parse_file, point, src, strip_doc
from translate_points import _p


def _expect(c, msg):
    if not c:
        raise TranslateError(msg)


def _b(x):
    return 'true' if x else 'false'


def _assign_to(st, name, what):
    _expect(isinstance(st, ast.Assign) and len(st.targets) == 1 and isinstance(st.targets[0], ast.Name)
            and st.targets[0].id == name, f"{what}: expected `{name} = ...`, found {src(st)[:70]}")
    return st.value


def _dot_side(e, left, right, what):
    """`left.dot(right)` / np.dot(left, right) / left @ right -> True; the same with the operands swapped -> False"""
    t = src(e)
    if t in (f'{left}.dot({right})', f'np.dot({left}, {right})', f'{left} @ {right}'):
        return True
    if t in (f'{right}.dot({left})', f'np.dot({right}, {left})', f'{right} @ {left}'):
        return False
    raise TranslateError(f"{what}: unexpected product {t[:70]}")


def _cmatrix(tree):
    fn = find_func(tree, 'Cmatrix')
    _expect([a.arg for a in fn.args.args] == ['x', 'y', 'sx', 'sy', 'theta'] and not fn.args.defaults, "Cmatrix: signature")
    body = strip_doc(fn.body)
    _expect(len(body) == 2 and src(body[1]) == 'return C', "Cmatrix: expected `C = np.vstack([...])`, `return C`")
    v = _assign_to(body[0], 'C', 'Cmatrix')
    _expect(isinstance(v, ast.Call) and src(v.func) in ('np.vstack', 'np.array') and len(v.args) == 1 and not v.keywords
            and isinstance(v.args[0], ast.ListComp), "Cmatrix: C is not np.vstack([... for ...])")
    lc = v.args[0]
    _expect(len(lc.generators) == 1 and not lc.generators[0].ifs and not lc.generators[0].is_async, "Cmatrix: one plain generator")
    g = lc.generators[0]
    _expect(isinstance(g.target, ast.Tuple) and len(g.target.elts) == 2 and all(isinstance(e, ast.Name) for e in g.target.elts),
            "Cmatrix: loop target is not a pair of names")
    _expect(isinstance(g.iter, ast.Call) and src(g.iter.func) == 'zip' and len(g.iter.args) == 2 and not g.iter.keywords
            and sorted(src(a) for a in g.iter.args) == ['x', 'y'], "Cmatrix: the loop is not over zip of x and y")
    env = {a: a for a in ('x', 'y', 'sx', 'sy', 'theta')}
    for t, a in zip(g.target.elts, g.iter.args):
        _expect(t.id not in env, "Cmatrix: loop variable shadows an argument")
        env[t.id] = 'c' + src(a)             # the loop variable that runs over x is the x-centre
    call = lc.elt
    _expect(isinstance(call, ast.Call) and src(call.func) == 'elliptical_gaussian' and len(call.args) == 8 and not call.keywords,
            "Cmatrix: the rows are not elliptical_gaussian(<8 positional arguments>)")
    tr = Tr('R', env)
    args = ' '.join(tr.expr(a) for a in call.args)
    return (f"(* fitting.Cmatrix: the entry for the centre (cx, cy) - one row of the vstack per centre, in the order of zip(x, y) -\n"
            f"   evaluated at the pixel (x, y) - one column per pixel *)\n"
            f"Definition cm_entry (x y cx cy sx sy theta : R) : R := (gauss {args}).\n")


def _bmatrix(tree):
    fn = find_func(tree, 'Bmatrix')
    _expect([a.arg for a in fn.args.args] == ['C'], "Bmatrix: signature")
    body = strip_doc(fn.body)
    _expect(len(body) == 6, f"Bmatrix: expected 6 statements, found {len(body)}")
    _expect(src(body[0]) == 'L, Q = eigh(C)', f"Bmatrix: expected `L, Q = eigh(C)`, found {src(body[0])[:60]}")
    imp = [n for n in ast.walk(tree) if isinstance(n, ast.ImportFrom) and any(a.name == 'eigh' and a.asname is None for a in n.names)]
    _expect(len(imp) == 1 and imp[0].module == 'scipy.linalg', "Bmatrix: eigh is not scipy.linalg.eigh")
    # minL = <expr in L[-1]>
    v = _assign_to(body[1], 'minL', 'Bmatrix')
    subs = {src(n) for n in ast.walk(v) if isinstance(n, ast.Subscript)}
    _expect(subs <= {'L[-1]', 'L[0]'} and len(subs) == 1, f"Bmatrix: minL reads {sorted(subs)}")
    last = subs == {'L[-1]'}
    minl = Tr('R', {next(iter(subs)): 'lref'}).expr(v)
    # L[L < minL] = minL
    st = body[2]
    _expect(isinstance(st, ast.Assign) and len(st.targets) == 1 and isinstance(st.targets[0], ast.Subscript)
            and src(st.targets[0].value) == 'L' and isinstance(st.targets[0].slice, ast.Compare), f"Bmatrix: clip statement {src(st)[:60]}")
    trc = Tr('R', {'L': 'l', 'minL': 'minL'})
    clip = f"if {trc.cond(st.targets[0].slice)} then {trc.expr(st.value)} else l"
    # S = np.diag(<expr in L>)
    v = _assign_to(body[3], 'S', 'Bmatrix')
    _expect(isinstance(v, ast.Call) and src(v.func) == 'np.diag' and len(v.args) == 1 and not v.keywords, "Bmatrix: S is not np.diag(..)")
    s = Tr('R', {'L': 'l'}).expr(v.args[0])
    qs = _dot_side(_assign_to(body[4], 'B', 'Bmatrix'), 'Q', 'S', 'Bmatrix')
    _expect(src(body[5]) == 'return B', "Bmatrix: does not return B")
    return (f"(* fitting.Bmatrix: L, Q = scipy.linalg.eigh(C) *)\n"
            f"Definition bm_minL (lref : R) : R := {minl}.\n"
            f"(* lref is L[-1] (true) or L[0] (false) *)\n"
            f"Definition bm_minL_uses_last : bool := {_b(last)}.\n"
            f"Definition bm_clip (l minL : R) : R := {clip}.\n"
            f"(* S = diag(bm_s L) *)\n"
            f"Definition bm_s (l : R) : R := {s}.\n"
            f"(* B = Q.dot(S) (true) or S.dot(Q) (false) *)\n"
            f"Definition bm_B_is_Q_dot_S : bool := {_b(qs)}.\n")


def _lmfit_jacobian(tree):
    fn = find_func(tree, 'lmfit_jacobian')
    _expect([a.arg for a in fn.args.args] == ['pars', 'x', 'y', 'errs', 'B', 'emp'], "lmfit_jacobian: signature")
    body = strip_doc(fn.body)
    _expect(len(body) == 6, f"lmfit_jacobian: expected 6 statements, found {len(body)}")
    _expect(src(body[0]) == 'if emp:\n    matrix = emp_jacobian(pars, x, y)\nelse:\n    matrix = jacobian(pars, x, y)',
            "lmfit_jacobian: choice between emp_jacobian and jacobian")
    _expect(src(body[1]) == 'matrix = np.vstack(matrix)', "lmfit_jacobian: np.vstack")
    kinds = []
    scale = None
    right = None
    for st in body[2:4]:
        _expect(isinstance(st, ast.If) and not st.orelse and len(st.body) == 1, f"lmfit_jacobian: unexpected statement {src(st)[:60]}")
        if src(st.test) == 'errs is not None':
            a = st.body[0]
            if isinstance(a, ast.AugAssign) and src(a.target) == 'matrix':
                e = ast.BinOp(left=ast.Name(id='matrix', ctx=ast.Load()), op=a.op, right=a.value)
            else:
                e = _assign_to(a, 'matrix', 'lmfit_jacobian noise scaling')
            scale = Tr('R', {'matrix': 'm', 'errs': 'e'}).expr(e)
            kinds.append('scale')
        elif src(st.test) == 'B is not None':
            right = _dot_side(_assign_to(st.body[0], 'matrix', 'lmfit_jacobian whitening'), 'matrix', 'B', 'lmfit_jacobian')
            kinds.append('whiten')
        else:
            raise TranslateError(f"lmfit_jacobian: unexpected condition {src(st.test)}")
    _expect(sorted(kinds) == ['scale', 'whiten'], "lmfit_jacobian: one noise scaling and one whitening block")
    _expect(src(body[4]) in ('matrix = np.transpose(matrix)', 'matrix = matrix.T'), "lmfit_jacobian: final transpose")
    _expect(src(body[5]) == 'return matrix', "lmfit_jacobian: return")
    return (f"(* fitting.lmfit_jacobian: rows = free parameters, columns = pixels until the final transpose *)\n"
            f"Definition lj_scale (m e : R) : R := {scale}.\n"
            f"Definition lj_scale_first : bool := {_b(kinds[0] == 'scale')}.\n"
            f"(* matrix.dot(B) (true) or B.dot(matrix) (false) *)\n"
            f"Definition lj_whiten_right : bool := {_b(right)}.\n"
            f"Definition lj_transposed : bool := true.\n")


def _do_lmfit(tree):
    fn = find_func(tree, 'do_lmfit')
    res = [n for n in fn.body if isinstance(n, ast.FunctionDef) and n.name == 'residual']
    _expect(len(res) == 1, "do_lmfit: residual closure")
    last = strip_doc(res[0].body)[-1]
    _expect(isinstance(last, ast.If) and src(last.test) == 'B is None' and len(last.body) == 1 and len(last.orelse) == 1
            and src(last.body[0]) == 'return model - data[mask]' and isinstance(last.orelse[0], ast.Return),
            "do_lmfit.residual: expected `if B is None: return model - data[mask] else: return <whitened>`")
    right = _dot_side(last.orelse[0].value, '(model - data[mask])', 'B', 'do_lmfit.residual')
    un = [n for n in fn.body if isinstance(n, ast.If) and src(n.test) == 'B is not None']
    _expect(len(un) == 1 and len(un[0].body) == 1 and not un[0].orelse, "do_lmfit: un-whitening block")
    v = un[0].body[0]
    _expect(isinstance(v, ast.Assign) and src(v.targets[0]) == 'result.residual', "do_lmfit: un-whitening assigns result.residual")
    unr = _dot_side(v.value, 'result.residual', 'inv(B)', 'do_lmfit un-whitening')
    return (f"(* fitting.do_lmfit: the residual handed to lmfit is (model - data).dot(B) (true) or B.dot(model - data) (false);\n"
            f"   afterwards result.residual.dot(inv(B)) (true) *)\n"
            f"Definition res_whiten_right : bool := {_b(right)}.\n"
            f"Definition res_unwhiten_right : bool := {_b(unr)}.\n")


SIGMA = 'np.diag(inv(covar))'


def _covar_errors(tree):
    fn = find_func(tree, 'covar_errors')
    _expect([a.arg for a in fn.args.args] == ['params', 'data', 'errs', 'B', 'C'], "covar_errors: signature")
    imp = [n for n in ast.walk(tree) if isinstance(n, ast.ImportFrom) and any(a.name == 'inv' and a.asname is None for a in n.names)]
    _expect(len(imp) == 1 and imp[0].module == 'scipy.linalg', "covar_errors: inv is not scipy.linalg.inv")
    body = strip_doc(fn.body)
    _expect(src(body[0]) == 'mask = np.where(np.isfinite(data))', "covar_errors: mask")
    _expect(isinstance(body[1], ast.If) and src(body[1].test) == 'C is not None' and not body[1].orelse and len(body[1].body) == 1
            and isinstance(body[2], ast.If) and src(body[2].test) == 'C is None' and not body[2].orelse and len(body[2].body) == 1,
            "covar_errors: the two branches `if C is not None:` / `if C is None:`")
    out = {}
    for tag, blk in (('C', body[1].body[0]), ('B', body[2].body[0])):
        what = f"covar_errors ({tag} branch)"
        _expect(isinstance(blk, ast.Try) and len(blk.body) == 3 and not blk.orelse and not blk.finalbody and len(blk.handlers) == 1,
                f"{what}: try block of three statements")
        h = blk.handlers[0]
        _expect(src(h.type) == '(np.linalg.LinAlgError, ValueError)' and len(h.body) == 1, f"{what}: handler")
        _expect(src(h.body[0]) == ('C = None' if tag == 'C' else 'onesigma = [np.nan] * len(mask[0])'), f"{what}: handler body {src(h.body[0])[:50]}")
        j = _assign_to(blk.body[0], 'J', what)
        _expect(isinstance(j, ast.Call) and src(j.func) == 'lmfit_jacobian' and [src(a) for a in j.args] == ['params', 'mask[0]', 'mask[1]'],
                f"{what}: J is not lmfit_jacobian(params, mask[0], mask[1], ..)")
        kw = {k.arg: src(k.value) for k in j.keywords}
        _expect(all(k in ('errs', 'B') and v == k for k, v in kw.items()), f"{what}: keywords of lmfit_jacobian {kw}")
        out[tag + '_errs'] = 'errs' in kw
        out[tag + '_B'] = 'B' in kw
        cv = src(_assign_to(blk.body[1], 'covar', what))
        if tag == 'C':
            _expect(cv in ('np.transpose(J).dot(inv(C)).dot(J)', 'J.T.dot(inv(C)).dot(J)'), f"{what}: covar = {cv[:60]}")
        else:
            _expect(cv in ('np.transpose(J).dot(J)', 'J.T.dot(J)'), f"{what}: covar = {cv[:60]}")
        sg = _assign_to(blk.body[2], 'onesigma', what)
        _expect(any(src(n) == SIGMA for n in ast.walk(sg)), f"{what}: onesigma does not read {SIGMA}")
        out[tag + '_sigma'] = Tr('R', {SIGMA: 'd'}).expr(sg)
    _expect(out['C_sigma'] == out['B_sigma'], "covar_errors: the two branches take different functions of the diagonal")
    return (f"(* fitting.covar_errors.  J = lmfit_jacobian(..) is pixels x free parameters; Fisher matrix of the B branch\n"
            f"   np.transpose(J).dot(J), of the C branch np.transpose(J).dot(inv(C)).dot(J) (inv = scipy.linalg.inv);\n"
            f"   d = an entry of np.diag(inv(covar)) *)\n"
            f"Definition ce_sigma (d : R) : R := {out['B_sigma']}.\n"
            f"Definition ce_Bbranch_passes_B : bool := {_b(out['B_B'])}.\n"
            f"Definition ce_Bbranch_passes_errs : bool := {_b(out['B_errs'])}.\n"
            f"Definition ce_Cbranch_passes_B : bool := {_b(out['C_B'])}.\n"
            f"Definition ce_Cbranch_passes_errs : bool := {_b(out['C_errs'])}.\n")


@point('Noise')
def gen_noise(repo):
    tree = parse_file(_p(repo, 'fitting.py'))
    return (HEADER_R + "From Aegean Require Import Gen.Gauss.\n\n" + _cmatrix(tree) + "\n" + _bmatrix(tree) + "\n"
            + _lmfit_jacobian(tree) + "\n" + _do_lmfit(tree) + "\n" + _covar_errors(tree))
