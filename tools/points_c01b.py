"""C01 extraction point SmallIsland: which islands get the six-parameter fit (estimate_lmfit_parinfo's small-island flags and the
`not enough pixels` test of _fit_island).  Same matchers as the C03 point CatRows (imported), but an own small generated file, so that
C01 does not depend on the rest of CatRows (numbering, error table, strings).

  Gen/SmallIsland.v   (Z / N leaves, axiom-free)
"""
import os

from trcore import parse_file, point

import points_c03 as c3


@point('SmallIsland')
def gen_small_island(repo):
    consts = dict(c3._flags(repo))
    sf = parse_file(os.path.join(repo, 'AegeanTools', 'source_finder.py'))
    _, _, t0, f0, t1, f1, tmin, masks, tnf = c3._component_counter(sf)
    used = sorted({f0, f1, 'FIXED2PSF', 'NOTFIT', *masks})
    fl = '\n'.join(f"Definition si_{n} : N := {consts[n]}%N." for n in used)
    return f"""From Coq Require Import ZArith NArith Bool List.
Import ListNotations.
Open Scope Z_scope.
(* flags.py (the bits this decision uses) *)
{fl}
(* estimate_lmfit_parinfo: flag of an island from its number of finite pixels *)
Definition si_small_flag (npix : Z) : N := if {t0} then si_{f0} else if {t1} then si_{f1} else 0%N.
(* estimate_lmfit_parinfo: the island is too narrow (mindim = min(data.shape)) or carries one of these flags -> FIXED2PSF *)
Definition si_tiny_dim (mindim : Z) : bool := {tmin}.
Definition si_tiny_masks : list N := [{'; '.join('si_' + m for m in masks)}].
(* _fit_island: no fit at all (NOTFIT) when this holds; nfree = number of varying parameters *)
Definition si_cannot_fit (npix nfree : Z) : bool := {tnf}.
"""
