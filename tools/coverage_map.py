#!/usr/bin/env python3
"""Which functions of AegeanTools are inside the model?  (report only; no check depends on it)

For every function / method defined in $AEGEAN_REPO/AegeanTools/*.py and CLI/*.py:
  T  = it is an extraction point of the translator (its name is a quoted identifier - find_func(.., '<name>') and the like - in
       tools/translate_points.py or tools/points_c*.py), i.e. text of it is re-read into coq/Gen on every run;
  H  = a correspondence harness calls or names it (tools/harness/*.py), i.e. its behaviour is compared with the model
       or with the property's oracle on every run;
  -  = neither: outside the model AND outside the ties.
Writes work/coverage_map.md and prints a summary.  Names are matched textually, so H is an over-approximation.
"""
import ast, glob, os, re, sys
HERE = os.path.dirname(os.path.abspath(__file__))
REPO = os.environ.get('AEGEAN_REPO', '/repo')

def texts(paths):
    return '\n'.join(open(p).read() for p in paths)

def main():
    tr = texts(glob.glob(HERE + '/points_c*.py') + [HERE + '/translate_points.py', HERE + '/trcore.py'])
    hs = texts(glob.glob(HERE + '/harness/*.py'))
    tnames = set(re.findall(r"find_func\(\s*\w+\s*,\s*['\"](\w+)['\"]", tr))
    tnames |= set(re.findall(r"['\"]_?(\w+)['\"]", tr)) | set(re.findall(r"['\"](\w+)['\"]", tr))  # any quoted identifier
    rows = []
    for path in sorted(glob.glob(REPO + '/AegeanTools/*.py') + glob.glob(REPO + '/AegeanTools/CLI/*.py')):
        mod = os.path.relpath(path, REPO + '/AegeanTools')
        tree = ast.parse(open(path).read())
        for node in ast.walk(tree):
            if isinstance(node, (ast.FunctionDef,)):
                n = node.name
                size = (node.end_lineno - node.lineno + 1)
                t = n in tnames
                h = re.search(r'\b' + re.escape(n) + r'\b', hs) is not None
                rows.append((mod, n, size, t, h))
    out = ['| module | function | lines | translated | in a harness |', '|---|---|---|---|---|']
    tot = {'T': 0, 'H': 0, '-': 0}
    lines = {'T': 0, 'H': 0, '-': 0}
    for mod, n, size, t, h in rows:
        k = 'T' if t else ('H' if h else '-')
        tot[k] += 1; lines[k] += size
        out.append('| %s | %s | %d | %s | %s |' % (mod, n, size, 'yes' if t else '', 'yes' if h else ''))
    os.makedirs(HERE + '/../work', exist_ok=True)
    open(HERE + '/../work/coverage_map.md', 'w').write('\n'.join(out) + '\n')
    print('functions: translated %d (%d lines), harness only %d (%d lines), neither %d (%d lines)' % (
        tot['T'], lines['T'], tot['H'], lines['H'], tot['-'], lines['-']))
    if '-v' in sys.argv:
        for mod, n, size, t, h in rows:
            if not t and not h:
                print('  -', mod, n, size)
    if '-t' in sys.argv:
        for mod, n, size, t, h in rows:
            if not t and h:
                print('  H', mod, n, size)

if __name__ == '__main__':
    main()
