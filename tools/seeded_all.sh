#!/bin/bash
# tools/seeded_all.sh : run every kept seeded change against its property's quick check (scratch worktree + private copy of /verif)
cd /verif
for d in seeded/C*/; do
  id=$(basename $d); pid=${id:0:3}
  out=$(tools/try_mutant.sh $d/patch.diff $pid quick 2>&1)
  rc=$(echo "$out" | grep -o 'exit=[0-9]*' | tail -1)
  v=$(echo "$out" | grep -c '^VIOLATION')
  nf=$(echo "$out" | grep -c 'no-failing-input-found')
  na=$(echo "$out" | grep -c 'patch does not apply')
  echo "$id $rc violation_lines=$v no_failing_input=$nf patch_does_not_apply=$na"
done
