#!/usr/bin/env python3
"""keep_seeded.py <src _seeded dir> <id> <caught: yes|no> <note>  - store a confirmed seeded change under /verif/seeded/<id>"""
import json, os, shutil, sys
src, mid, caught, note = sys.argv[1:5]
dst = f'/verif/seeded/{mid}'
os.makedirs(dst, exist_ok=True)
for f in ('patch.diff', 'demo.py'):
    shutil.copy(os.path.join(src, f), os.path.join(dst, f))
m = json.load(open(os.path.join(src, 'meta.json')))
m['id'] = mid
m['confirmed_by_parent'] = ['tools/eval_seeded.sh: patch applies to a scratch worktree of /repo HEAD; demo.py exits 0 on the clean worktree and 1 with the change; '
                            'repository test suite with the change: all pass (run by the seeding agent and/or by eval_seeded.sh)',
                            f'./check {mid[:3]} quick against the changed tree (AEGEAN_REPO=<scratch worktree>): ' + ('exit 1 with a VIOLATION line' if caught == 'yes' else 'exit 0 (MISSED at that time)')]
m['detection'] = note
json.dump(m, open(os.path.join(dst, 'meta.json'), 'w'), indent=1)
print('kept', dst)
