#!/usr/bin/env python3
"""
Fail-closed Python-ast -> Gallina translator for the arithmetic leaves of AegeanTools.

Every extraction point either yields Gallina text or raises TranslateError; nothing is
guessed.  Three back ends share one expression walker:

  Z  : Python ints.   + - * // % **  comparisons  min max abs int()   (true division refused)
  R  : Python floats read as real numbers.  + - * / **<nat literal>  numpy/math scalar
       functions (sin cos tan exp log sqrt arcsin arctan2 radians degrees minimum pi ...)
  B  : boolean structure over Z comparisons (and/or/not, chained comparisons)

The output goes to /verif/coq/Gen/*.v (written only when the text changes, so that make
stays incremental).  `python3 translate.py [--repo /repo] [--out dir] [--only name,...]`
prints one line per generated file and exits 1 if any extraction point failed; the
failures are also written to <out>/FAILED.json for the check driver.
"""
import ast
import json
import os
import sys
from fractions import Fraction


class TranslateError(Exception):
    pass


LOG_LEVELS = ('debug', 'info', 'warning', 'warn', 'error', 'critical', 'exception', 'log')
LOG_OBJECTS = ('logging', 'self.log', 'log', 'logger', 'self.logger')


def _pure(e):
    """expression whose evaluation has no effect on program state: constants, names, attributes, subscripts, arithmetic,
    comparisons, tuples / lists, f-strings, and the calls 'literal'.format(..), str / repr / len / type of pure expressions"""
    if isinstance(e, (ast.Constant, ast.Name)):
        return True
    if isinstance(e, ast.Attribute):
        return _pure(e.value)
    if isinstance(e, ast.Subscript):
        return _pure(e.value) and _pure(e.slice)
    if isinstance(e, ast.Slice):
        return all(x is None or _pure(x) for x in (e.lower, e.upper, e.step))
    if isinstance(e, (ast.Tuple, ast.List)):
        return all(_pure(x) for x in e.elts)
    if isinstance(e, ast.BinOp):
        return _pure(e.left) and _pure(e.right)
    if isinstance(e, ast.UnaryOp):
        return _pure(e.operand)
    if isinstance(e, ast.Compare):
        return _pure(e.left) and all(_pure(x) for x in e.comparators)
    if isinstance(e, ast.BoolOp):
        return all(_pure(x) for x in e.values)
    if isinstance(e, ast.JoinedStr):
        return all(_pure(x) for x in e.values)
    if isinstance(e, ast.FormattedValue):
        return _pure(e.value)
    if isinstance(e, ast.Call) and not e.keywords or isinstance(e, ast.Call) and all(_pure(k.value) for k in e.keywords):
        f = e.func
        if isinstance(f, ast.Attribute) and f.attr == 'format' and isinstance(f.value, ast.Constant) and isinstance(f.value.value, str):
            return all(_pure(a) for a in e.args)
        if isinstance(f, ast.Name) and f.id in ('str', 'repr', 'len', 'type'):
            return all(_pure(a) for a in e.args)
    return False


def is_log_statement(st):
    """`logging.debug(..)` / `self.log.info(..)` ... as a statement, with arguments that are pure expressions"""
    if not (isinstance(st, ast.Expr) and isinstance(st.value, ast.Call) and isinstance(st.value.func, ast.Attribute)):
        return False
    f = st.value.func
    return f.attr in LOG_LEVELS and ast.unparse(f.value) in LOG_OBJECTS and all(_pure(a) for a in st.value.args) \
        and all(_pure(k.value) for k in st.value.keywords)


class _StripLogs(ast.NodeTransformer):
    """log statements say nothing about the values a function computes: the translator does not see them (a body that consisted of
    log statements only keeps a `pass`).  What a log call could still do - raise while evaluating an attribute - is behaviour of the
    implementation that the correspondence checks observe."""

    def generic_visit(self, node):
        super().generic_visit(node)
        for field in ('body', 'orelse', 'finalbody'):
            b = getattr(node, field, None)
            if isinstance(b, list) and b and all(isinstance(x, ast.stmt) for x in b):
                kept = [x for x in b if not is_log_statement(x)]
                if not kept and field == 'body':
                    kept = [ast.copy_location(ast.Pass(), b[0])]
                setattr(node, field, kept)
        return node


def parse_file(path):
    with open(path) as f:
        return _StripLogs().visit(ast.parse(f.read(), filename=path))


def find_func(tree, name, cls=None):
    """find a (possibly nested in class `cls`) function definition by name; must be unique"""
    scope = tree
    if cls is not None:
        cs = [n for n in tree.body if isinstance(n, ast.ClassDef) and n.name == cls]
        if len(cs) != 1:
            raise TranslateError(f"class {cls} not found exactly once")
        scope = cs[0]
    fs = [n for n in scope.body if isinstance(n, ast.FunctionDef) and n.name == name]
    if len(fs) != 1:
        raise TranslateError(f"function {name} not found exactly once")
    return fs[0]


def src(node):
    return ast.unparse(node)


def strip_doc(body):
    if body and isinstance(body[0], ast.Expr) and isinstance(body[0].value, ast.Constant) \
            and isinstance(body[0].value.value, str):
        return body[1:]
    return body


# ------------------------------------------------------------------------------------------
class Tr:
    """expression translator; env maps python source text of a sub-expression (as produced
    by ast.unparse) or a plain name to a Gallina term"""

    R_FUNCS = {
        'sin': 'sin', 'cos': 'cos', 'tan': 'tan', 'exp': 'exp', 'sqrt': 'sqrt',
        'arcsin': 'asin', 'arccos': 'acos', 'arctan': 'atan', 'log': 'ln',
        'radians': 'rad', 'degrees': 'deg', 'abs': 'Rabs', 'fabs': 'Rabs',
        'asin': 'asin', 'acos': 'acos', 'atan': 'atan',
    }
    R_FUNCS2 = {'arctan2': 'atan2', 'atan2': 'atan2', 'minimum': 'Rmin', 'maximum': 'Rmax',
                'hypot': 'hypot'}

    def __init__(self, backend, env=None):
        assert backend in ('Z', 'R')
        self.b = backend
        self.env = dict(env or {})

    # -- helpers
    def lit(self, v):
        if isinstance(v, bool):
            raise TranslateError("bool literal in arithmetic")
        if self.b == 'Z':
            if isinstance(v, int):
                return f"({v})" if v < 0 else str(v)
            raise TranslateError(f"non-integer literal {v!r} in Z back end")
        # R
        if isinstance(v, int):
            return f"(IZR ({v}))" if v < 0 else f"(IZR {v})" if v > 2 else {0: '0', 1: '1', 2: '2'}[v]
        if isinstance(v, float):
            fr = Fraction(v)  # exact binary value
            # prefer the decimal the programmer wrote when it is short and exact in decimal
            s = repr(v)
            try:
                dfr = Fraction(s)
            except ValueError:
                raise TranslateError(f"literal {v!r}")
            if dfr.denominator in (1, 2, 4, 5, 8, 10, 20, 25, 50, 100, 1000) and float(dfr) == v \
                    and dfr == fr:
                pass
            # always the exact binary64 value
            if fr.denominator == 1:
                return self.lit(int(fr.numerator))
            return f"(IZR ({fr.numerator}) / IZR {fr.denominator})"
        raise TranslateError(f"literal {v!r}")

    def name_of_call(self, f):
        # np.sin / numpy.sin / math.sin / sin / abs
        if isinstance(f, ast.Attribute) and isinstance(f.value, ast.Name) and \
                f.value.id in ('np', 'numpy', 'math'):
            return f.attr
        if isinstance(f, ast.Name):
            return f.id
        raise TranslateError(f"call target {src(f)}")

    def expr(self, n):
        key = src(n)
        if key in self.env:
            return self.env[key]
        m = getattr(self, 'e_' + type(n).__name__, None)
        if m is None:
            raise TranslateError(f"unsupported expression {type(n).__name__}: {key}")
        return m(n)

    def e_Constant(self, n):
        return self.lit(n.value)

    def e_Name(self, n):
        raise TranslateError(f"unbound name {n.id}")

    def e_Attribute(self, n):
        if isinstance(n.value, ast.Name) and n.value.id in ('np', 'numpy', 'math') and n.attr == 'pi':
            if self.b == 'R':
                return 'PI'
        raise TranslateError(f"attribute {src(n)}")

    def e_UnaryOp(self, n):
        if isinstance(n.op, ast.USub):
            if isinstance(n.operand, ast.Constant):
                return self.lit(-n.operand.value)
            return f"(- {self.expr(n.operand)})"
        if isinstance(n.op, ast.UAdd):
            return self.expr(n.operand)
        raise TranslateError(f"unary {src(n)}")

    def e_BinOp(self, n):
        a = self.expr(n.left)
        op = type(n.op)
        if op is ast.Pow:
            if self.b == 'R':
                if isinstance(n.right, ast.Constant) and isinstance(n.right.value, int) \
                        and 0 <= n.right.value <= 8:
                    return f"({a} ^ {n.right.value})"
                raise TranslateError(f"power with non-literal exponent {src(n)}")
            return f"({a} ^ {self.expr(n.right)})"
        b = self.expr(n.right)
        if op is ast.Add:
            return f"({a} + {b})"
        if op is ast.Sub:
            return f"({a} - {b})"
        if op is ast.Mult:
            return f"({a} * {b})"
        if op is ast.Div:
            if self.b == 'R':
                return f"({a} / {b})"
            raise TranslateError(f"true division on integers (float arithmetic): {src(n)}")
        if op is ast.FloorDiv:
            if self.b == 'Z':
                return f"({a} / {b})"
            raise TranslateError(f"floor division in R back end: {src(n)}")
        if op is ast.Mod:
            if self.b == 'Z':
                return f"({a} mod {b})"
            raise TranslateError(f"modulo in R back end: {src(n)}")
        raise TranslateError(f"operator {src(n)}")

    def e_Call(self, n):
        if n.keywords:
            raise TranslateError(f"keyword arguments {src(n)}")
        f = self.name_of_call(n.func)
        args = n.args
        if self.b == 'R':
            if f in self.R_FUNCS and len(args) == 1:
                return f"({self.R_FUNCS[f]} {self.expr(args[0])})"
            if f in self.R_FUNCS2 and len(args) == 2:
                return f"({self.R_FUNCS2[f]} {self.expr(args[0])} {self.expr(args[1])})"
            if f in ('min', 'max') and len(args) == 2:
                return f"({'Rmin' if f == 'min' else 'Rmax'} {self.expr(args[0])} {self.expr(args[1])})"
            if f == 'float' and len(args) == 1:
                return self.expr(args[0])
        else:
            if f in ('min', 'max') and len(args) == 2:
                return f"(Z.{f} {self.expr(args[0])} {self.expr(args[1])})"
            if f == 'abs' and len(args) == 1:
                return f"(Z.abs {self.expr(args[0])})"
            if f == 'int' and len(args) == 1:
                return self.expr(args[0])   # int() of an int expression
        raise TranslateError(f"call {src(n)}")

    def e_IfExp(self, n):
        return f"(if {self.cond(n.test)} then {self.expr(n.body)} else {self.expr(n.orelse)})"

    # -- boolean conditions over the arithmetic back end
    def cond(self, n):
        if isinstance(n, ast.BoolOp):
            op = ' && ' if isinstance(n.op, ast.And) else ' || '
            return '(' + op.join(self.cond(v) for v in n.values) + ')'
        if isinstance(n, ast.UnaryOp) and isinstance(n.op, ast.Not):
            return f"(negb {self.cond(n.operand)})"
        if isinstance(n, ast.Compare):
            parts = []
            left = n.left
            for op, right in zip(n.ops, n.comparators):
                parts.append(self.cmp(op, self.expr(left), self.expr(right)))
                left = right
            return '(' + ' && '.join(parts) + ')'
        raise TranslateError(f"condition {src(n)}")

    def cmp(self, op, a, b):
        if self.b == 'Z':
            t = {ast.Lt: f"({a} <? {b})", ast.LtE: f"({a} <=? {b})", ast.Gt: f"({b} <? {a})",
                 ast.GtE: f"({b} <=? {a})", ast.Eq: f"({a} =? {b})",
                 ast.NotEq: f"(negb ({a} =? {b}))"}
        else:
            t = {ast.Lt: f"(Rltb {a} {b})", ast.LtE: f"(Rleb {a} {b})", ast.Gt: f"(Rltb {b} {a})",
                 ast.GtE: f"(Rleb {b} {a})"}
        if type(op) not in t:
            raise TranslateError(f"comparison {type(op).__name__}")
        return t[type(op)]


def straight_line(fn, backend, env, ret_names=None, stop_at=None):
    """Translate a straight-line function body (Assign/AugAssign to plain names, a final
    Return) into nested lets.  env maps parameter names to Gallina names."""
    tr = Tr(backend, env)
    lets = []
    body = strip_doc(fn.body)
    for st in body:
        if isinstance(st, ast.Assign) and len(st.targets) == 1 and isinstance(st.targets[0], ast.Name):
            v = tr.expr(st.value)
            nm = st.targets[0].id
            lets.append((nm, v))
            tr.env[nm] = nm
        elif isinstance(st, ast.AugAssign) and isinstance(st.target, ast.Name):
            nm = st.target.id
            if nm not in tr.env:
                raise TranslateError(f"augmented assignment to unbound {nm}")
            fake = ast.BinOp(left=ast.Name(id=nm, ctx=ast.Load()), op=st.op, right=st.value)
            v = tr.expr(fake)
            lets.append((nm, v))
            tr.env[nm] = nm
        elif isinstance(st, ast.Return):
            if isinstance(st.value, ast.Tuple):
                r = '(' + ', '.join(tr.expr(e) for e in st.value.elts) + ')'
            else:
                r = tr.expr(st.value)
            out = ''
            for nm, v in lets:
                out += f"  let {nm} := {v} in\n"
            return out + '  ' + r
        elif isinstance(st, ast.Expr) and isinstance(st.value, ast.Constant):
            continue
        else:
            raise TranslateError(f"unsupported statement in {fn.name}: {src(st)[:80]}")
    raise TranslateError(f"{fn.name}: no return")


def block_lets(stmts, tr, rename=lambda n: 'v_' + n):
    """Translate a list of Assign/AugAssign statements (plain names, or tuples of names with a
    tuple value of the same length) into [(coq name, term)]; binds the names in tr.env.
    Stops (returns the rest) at the first statement that is something else."""
    lets = []
    for k, st in enumerate(stmts):
        if isinstance(st, ast.Assign) and len(st.targets) == 1 and isinstance(st.targets[0], ast.Name):
            v = tr.expr(st.value)
            nm = st.targets[0].id
            lets.append((rename(nm), v))
            tr.env[nm] = rename(nm)
        elif isinstance(st, ast.Assign) and len(st.targets) == 1 and isinstance(st.targets[0], ast.Tuple) \
                and isinstance(st.value, ast.Tuple) and len(st.value.elts) == len(st.targets[0].elts) \
                and all(isinstance(e, ast.Name) for e in st.targets[0].elts):
            vals = [tr.expr(e) for e in st.value.elts]   # all right-hand sides first (tuple semantics)
            for t, v in zip(st.targets[0].elts, vals):
                lets.append((rename(t.id), v))
            for t in st.targets[0].elts:
                tr.env[t.id] = rename(t.id)
        elif isinstance(st, ast.AugAssign) and isinstance(st.target, ast.Name):
            nm = st.target.id
            if nm not in tr.env:
                raise TranslateError(f"augmented assignment to unbound {nm}")
            fake = ast.BinOp(left=ast.Name(id=nm, ctx=ast.Load()), op=st.op, right=st.value)
            v = tr.expr(fake)
            # a fresh Coq name for every re-assignment keeps the lets well scoped
            new = rename(nm) + "'"
            while any(n == new for n, _ in lets):
                new += "'"
            lets.append((new, v))
            tr.env[nm] = new
        elif isinstance(st, ast.Expr) and isinstance(st.value, ast.Constant):
            continue
        else:
            return lets, stmts[k:]
    return lets, []


def lets_text(lets, result, indent='  '):
    return ''.join(f"{indent}let {n} := {v} in\n" for n, v in lets) + indent + result


def find_assigns(fn, target_src):
    """all Assign statements (anywhere in fn) whose single target unparses to target_src"""
    out = []
    for n in ast.walk(fn):
        if isinstance(n, ast.Assign) and len(n.targets) == 1 and src(n.targets[0]) == target_src:
            out.append(n)
    return out


def one_assign(fn, target_src):
    a = find_assigns(fn, target_src)
    if len(a) != 1:
        raise TranslateError(f"{fn.name}: expected exactly one assignment to {target_src}, found {len(a)}")
    return a[0]


def find_augassigns(fn, target_src):
    return [n for n in ast.walk(fn) if isinstance(n, ast.AugAssign) and src(n.target) == target_src]


# ------------------------------------------------------------------------------------------
# extraction points.  Each is a function (repo) -> Gallina text (without the header)

HEADER_Z = "From Coq Require Import ZArith Bool List.\nOpen Scope Z_scope.\n"
HEADER_R = "From Coq Require Import Reals.\nFrom Aegean Require Import Lib.RBase.\nOpen Scope R_scope.\n"

POINTS = {}


def point(name):
    def deco(f):
        POINTS[name] = f
        return f
    return deco
