"""C16x extraction point (AegeanTools/wcs_helpers.py): beam, pixel-scale and separation helpers.

WcsBeam : * WCSHelper.sky_sep as a whole straight-line function over R (pix2sky a function parameter, gcd of Gen/Sphere.v);
          * get_beamarea_deg2 / get_beamarea_pix: which psf lookup feeds them and the returned expression;
          * get_pixinfo: the if / elif chain as an ordered list of key lists, per branch the pixel-area expression and the pixscale pair
            (header values are a function hkey -> R), and the values of the final else;
          * get_beam: key read per slot, default of a missing BPA, which keys are required, argument order of Beam(..), the two
            assertions of Beam.__init__ and its attribute assignments;
          * fix_aips_header: keys whose joint presence leaves the header alone, the line prefix and marker strings, the word indices of
            the three numbers, the keys assigned, first matching line wins (for .. break / else);
          * WCSHelper.from_header: an explicit beam is never replaced, get_beam(header) otherwise, None raises, reference pixel keys,
            pixscale slot of get_pixinfo; NO call of fix_aips_header anywhere in the class;
          * psf map lookup in get_psf_sky2sky: psf_sky2pix (slot order, origin), the clip bounds, the shape axes, int(), the index
            expression psf_map[:3, x, y]; the fall-backs without a psf map of get_psf_sky2sky / get_psf_pix2pix / get_skybeam.
Everything else is refused (fail closed).
"""
import ast

from trcore import Tr, TranslateError, find_func, parse_file, point, src, strip_doc
from translate_points import _p
from points_c16 import CLS, _sig, TrW

KEYS = ['CDELT1', 'CDELT2', 'CD1_1', 'CD1_2', 'CD2_1', 'CD2_2', 'BMAJ', 'BMIN', 'BPA', 'CRPIX1', 'CRPIX2']

HEADER = ("From Coq Require Import Reals ZArith List Bool String.\nFrom Aegean Require Import Lib.RBase Gen.Sphere.\n"
          "Import ListNotations.\nOpen Scope R_scope.\n")


def _is(node, text):
    """node unparses to the same text as the given source (independent of the tuple-parenthesis style of ast.unparse)"""
    return src(node) == src(ast.parse(text).body[0])


def _n(text):
    return src(ast.parse(text).body[0])


def _key(s, where):
    if s not in KEYS:
        raise TranslateError(f"{where}: header key {s!r} is not one of the modelled keys")
    return s


def _klist(ks):
    return '[' + '; '.join(ks) + ']'


def _all_in_header(test, where):
    """all(a in header for a in ["K1", ...]) -> [K1, ...]"""
    ok = (isinstance(test, ast.Call) and src(test.func) == 'all' and len(test.args) == 1 and not test.keywords
          and isinstance(test.args[0], ast.GeneratorExp) and len(test.args[0].generators) == 1)
    if ok:
        g = test.args[0]
        c = g.generators[0]
        ok = (isinstance(g.elt, ast.Compare) and len(g.elt.ops) == 1 and isinstance(g.elt.ops[0], ast.In)
              and isinstance(c.target, ast.Name) and src(g.elt.left) == c.target.id and src(g.elt.comparators[0]) == 'header'
              and not c.ifs and not c.is_async and isinstance(c.iter, (ast.List, ast.Tuple))
              and all(isinstance(e, ast.Constant) and isinstance(e.value, str) for e in c.iter.elts))
    if not ok:
        raise TranslateError(f"{where}: test is not `all(a in header for a in [...])`: {src(test)[:90]}")
    return [_key(e.value, where) for e in test.args[0].generators[0].iter.elts]


def _hdr_env():
    return {f"header['{k}']": f'(h {k})' for k in KEYS}


def _pixinfo(tree):
    fn = find_func(tree, 'get_pixinfo')
    if [a.arg for a in fn.args.args] != ['header'] or fn.args.defaults:
        raise TranslateError("get_pixinfo: signature is not (header)")
    body = strip_doc(fn.body)
    if len(body) != 2 or not isinstance(body[0], ast.If) or not _is(body[1], 'return pixarea, pixscale'):
        raise TranslateError("get_pixinfo: body is not `if ..elif.. else; return pixarea, pixscale`")
    branches, node = [], body[0]
    while True:
        keys = _all_in_header(node.test, 'get_pixinfo')
        branches.append((keys, node.body))
        if len(node.orelse) == 1 and isinstance(node.orelse[0], ast.If):
            node = node.orelse[0]
        else:
            final = node.orelse
            break
    if not final:
        raise TranslateError("get_pixinfo: no final else")
    tr = Tr('R', _hdr_env())

    def values(stmts, where):
        area = scale = None
        for st in stmts:
            if isinstance(st, ast.Pass):
                continue
            if isinstance(st, ast.If):
                # `if not (..): <log only>` was reduced to `pass` by the log stripper
                if st.orelse or any(not isinstance(x, ast.Pass) for x in st.body):
                    raise TranslateError(f"{where}: nested if with effects")
                continue
            if not (isinstance(st, ast.Assign) and len(st.targets) == 1 and isinstance(st.targets[0], ast.Name)):
                raise TranslateError(f"{where}: unsupported statement {src(st)[:70]}")
            nm = st.targets[0].id
            if nm == 'pixarea' and area is None:
                area = tr.expr(st.value)
            elif nm == 'pixscale' and scale is None and isinstance(st.value, ast.Tuple) and len(st.value.elts) == 2:
                scale = '(' + ', '.join(tr.expr(e) for e in st.value.elts) + ')'
            else:
                raise TranslateError(f"{where}: unexpected assignment {src(st)[:70]}")
        if area is None or scale is None:
            raise TranslateError(f"{where}: pixarea / pixscale not both assigned")
        return area, scale
    vals = [values(b, f'get_pixinfo branch {k}') for k, (_, b) in enumerate(branches)]
    for (keys, _), k in zip(branches, range(len(branches))):
        # a branch may read only keys it has tested
        used = {kk for kk in KEYS if f'(h {kk})' in vals[k][0] + vals[k][1]}
        if not used <= set(keys):
            raise TranslateError(f"get_pixinfo branch {k} reads {sorted(used - set(keys))} without testing for it")
    dflt = values(final, 'get_pixinfo else')
    n = len(branches)
    area = ' | '.join(f'{k}%nat => {vals[k][0]}' for k in range(n)) + f' | _ => {dflt[0]}'
    scale = ' | '.join(f'{k}%nat => {vals[k][1]}' for k in range(n)) + f' | _ => {dflt[1]}'
    return (f"Definition pixinfo_keys : list (list hkey) := [{'; '.join(_klist(k) for k, _ in branches)}].\n"
            f"Definition pixinfo_area (k : nat) (h : hkey -> R) : R := match k with {area} end.\n"
            f"Definition pixinfo_scale (k : nat) (h : hkey -> R) : R * R := match k with {scale} end.\n")


def _get_beam(tree):
    fn = find_func(tree, 'get_beam')
    if [a.arg for a in fn.args.args] != ['header'] or fn.args.defaults:
        raise TranslateError("get_beam: signature is not (header)")
    body = strip_doc(fn.body)
    if len(body) != 6:
        raise TranslateError(f"get_beam: {len(body)} statements, expected 3 x if / else, the None test, Beam(..), return")
    slots = {}
    for st in body[:3]:
        ok = (isinstance(st, ast.If) and isinstance(st.test, ast.Compare) and len(st.test.ops) == 1 and isinstance(st.test.ops[0], ast.NotIn)
              and isinstance(st.test.left, ast.Constant) and src(st.test.comparators[0]) == 'header'
              and len(st.body) == 1 and len(st.orelse) == 1 and isinstance(st.body[0], ast.Assign) and isinstance(st.orelse[0], ast.Assign)
              and src(st.body[0].targets[0]) == src(st.orelse[0].targets[0]) and isinstance(st.body[0].targets[0], ast.Name))
        if not ok:
            raise TranslateError(f"get_beam: statement is not `if 'K' not in header: v = <default> else: v = header['K']`: {src(st)[:80]}")
        key = _key(st.test.left.value, 'get_beam')
        if src(st.orelse[0].value) != f"header['{key}']":
            raise TranslateError(f"get_beam: the else branch does not read header['{key}']")
        d = st.body[0].value
        if not isinstance(d, ast.Constant) or not (d.value is None or type(d.value) in (int, float)):
            raise TranslateError(f"get_beam: default {src(d)} is neither None nor a number")
        slots[st.body[0].targets[0].id] = (key, d.value)
    if set(slots) != {'bmaj', 'bmin', 'bpa'}:
        raise TranslateError(f"get_beam: variables are {sorted(slots)}, expected bmaj, bmin, bpa")
    t = body[3]
    if not _is(t, 'if None in [bmaj, bmin, bpa]:\n    return None'):
        raise TranslateError(f"get_beam: the missing-value test is not `if None in [bmaj, bmin, bpa]: return None`: {src(t)[:80]}")
    if not (isinstance(body[4], ast.Assign) and isinstance(body[4].value, ast.Call) and src(body[4].value.func) == 'Beam'
            and not body[4].value.keywords and len(body[4].value.args) == 3 and _is(body[5], f'return {src(body[4].targets[0])}')):
        raise TranslateError("get_beam: does not end with `beam = Beam(., ., .); return beam`")
    tr = Tr('R', {'bmaj': 'bmaj', 'bmin': 'bmin', 'bpa': 'bpa'})
    args = [tr.expr(a) for a in body[4].value.args]
    # Beam.__init__(self, a, b, pa): two assertions, three attribute assignments
    init = find_func(tree, '__init__', 'Beam')
    if [a.arg for a in init.args.args] != ['self', 'a', 'b', 'pa'] or init.args.defaults:
        raise TranslateError("Beam.__init__: signature is not (self, a, b, pa)")
    ib = strip_doc(init.body)
    trb = Tr('R', {'a': 'a', 'b': 'b', 'pa': 'pa'})
    conds, attrs = [], {}
    for st in ib:
        if isinstance(st, ast.If) and not st.orelse and len(st.body) == 1 and isinstance(st.body[0], ast.Raise) \
                and isinstance(st.test, ast.UnaryOp) and isinstance(st.test.op, ast.Not) and 'AssertionError' in src(st.body[0]):
            conds.append(trb.cond(st.test.operand))
        elif isinstance(st, ast.Assign) and len(st.targets) == 1 and src(st.targets[0]) in ('self.a', 'self.b', 'self.pa'):
            attrs[src(st.targets[0])[5:]] = trb.expr(st.value)
        else:
            raise TranslateError(f"Beam.__init__: unsupported statement {src(st)[:70]}")
    if len(conds) != 2 or set(attrs) != {'a', 'b', 'pa'}:
        raise TranslateError("Beam.__init__: expected two `if not (..): raise AssertionError` and assignments of self.a, self.b, self.pa")
    out = ''
    for v in ('bmaj', 'bmin', 'bpa'):
        key, d = slots[v]
        out += f"Definition get_beam_key_{v} : hkey := {key}.\n"
        out += (f"Definition get_beam_default_{v} : option R := " + ('None' if d is None else f'Some ({Tr("R").lit(d)})') + ".\n")
    out += f"Definition get_beam_ctor (bmaj bmin bpa : R) : R * R * R := ({', '.join(args)}).\n"
    out += f"Definition beam_ok (a b pa : R) : bool := {' && '.join(conds)}.\n"
    out += f"Definition beam_attrs (a b pa : R) : R * R * R := ({attrs['a']}, {attrs['b']}, {attrs['pa']}).\n"
    return out


def _fix_aips(tree):
    fn = find_func(tree, 'fix_aips_header')
    body = strip_doc(fn.body)
    if len(body) != 9:
        raise TranslateError(f"fix_aips_header: {len(body)} statements, expected 9")
    t = body[0]
    ok = (isinstance(t, ast.If) and not t.orelse and src(t.body[-1]) == 'return header' and isinstance(t.test, ast.BoolOp)
          and isinstance(t.test.op, ast.And)
          and all(isinstance(v, ast.Compare) and len(v.ops) == 1 and isinstance(v.ops[0], ast.In) and isinstance(v.left, ast.Constant)
                  and src(v.comparators[0]) == 'header' for v in t.test.values))
    if not ok:
        raise TranslateError("fix_aips_header: first statement is not `if 'K1' in header and ...: return header`")
    skip = [_key(v.left.value, 'fix_aips_header') for v in t.test.values]
    a = body[1]
    ok = (isinstance(a, ast.Assign) and isinstance(a.value, ast.ListComp) and len(a.value.generators) == 1
          and src(a.value.generators[0].iter) == "header['HISTORY']" and len(a.value.generators[0].ifs) == 1
          and src(a.value.elt) == src(a.value.generators[0].target))
    if ok:
        c = a.value.generators[0].ifs[0]
        ok = (isinstance(c, ast.Call) and src(c.func) == src(a.value.elt) + '.startswith' and len(c.args) == 1
              and isinstance(c.args[0], ast.Constant) and isinstance(c.args[0].value, str))
    if not ok:
        raise TranslateError("fix_aips_header: second statement is not `x = [a for a in header['HISTORY'] if a.startswith('..')]`")
    prefix = c.args[0].value
    lst = a.targets[0].id
    if not _is(body[2], f'if len({lst}) == 0:\n    return header'):
        raise TranslateError("fix_aips_header: third statement is not `if len(..) == 0: return header`")
    loop = body[3]
    ok = (isinstance(loop, ast.For) and src(loop.iter) == lst and isinstance(loop.target, ast.Name) and len(loop.body) == 1
          and isinstance(loop.body[0], ast.If) and not loop.body[0].orelse and [src(x) for x in loop.orelse] == ['return header'])
    if not ok:
        raise TranslateError("fix_aips_header: no `for a in ..: if 'M' in a: ... break  else: return header`")
    it = loop.body[0]
    v = loop.target.id
    ok = (isinstance(it.test, ast.Compare) and len(it.test.ops) == 1 and isinstance(it.test.ops[0], ast.In)
          and isinstance(it.test.left, ast.Constant) and isinstance(it.test.left.value, str) and src(it.test.comparators[0]) == v
          and len(it.body) == 5 and src(it.body[0]) == f'words = {v}.split()' and isinstance(it.body[4], ast.Break))
    if not ok:
        raise TranslateError("fix_aips_header: loop body is not `if 'M' in a: words = a.split(); 3 x float(words[k]); break`")
    marker = it.test.left.value
    idx = {}
    for st in it.body[1:4]:
        ok = (isinstance(st, ast.Assign) and isinstance(st.targets[0], ast.Name) and isinstance(st.value, ast.Call) and src(st.value.func) == 'float'
              and len(st.value.args) == 1 and isinstance(st.value.args[0], ast.Subscript) and src(st.value.args[0].value) == 'words'
              and isinstance(st.value.args[0].slice, ast.Constant) and type(st.value.args[0].slice.value) is int and st.value.args[0].slice.value >= 0)
        if not ok:
            raise TranslateError(f"fix_aips_header: not `v = float(words[k])`: {src(st)[:60]}")
        idx[st.targets[0].id] = st.value.args[0].slice.value
    sets = []
    for st in body[4:7]:
        ok = (isinstance(st, ast.Assign) and isinstance(st.targets[0], ast.Subscript) and src(st.targets[0].value) == 'header'
              and isinstance(st.targets[0].slice, ast.Constant) and isinstance(st.value, ast.Name) and st.value.id in idx)
        if not ok:
            raise TranslateError(f"fix_aips_header: not `header['K'] = v`: {src(st)[:60]}")
        sets.append((_key(st.targets[0].slice.value, 'fix_aips_header'), idx[st.value.id]))
    if not (src(body[7]).startswith("header['HISTORY'] = ") and src(body[8]) == 'return header'):
        raise TranslateError("fix_aips_header: does not end with a new HISTORY card and `return header`")
    return (f"Definition aips_skip_keys : list hkey := {_klist(skip)}.\n"
            f'Definition aips_prefix : string := "{prefix}"%string.\nDefinition aips_marker : string := "{marker}"%string.\n'
            f"Definition aips_sets : list (hkey * Z) := [{'; '.join(f'({k}, {i}%Z)' for k, i in sets)}].\n"
            "Definition aips_first_match_wins : bool := true.\n")


def _from_header(tree):
    fn = find_func(tree, 'from_header', CLS)
    body = strip_doc(fn.body)
    if [a.arg for a in fn.args.args] != ['cls', 'header', 'beam', 'psf_file'] or len(body) != 6:
        raise TranslateError("from_header: signature / number of statements changed")
    if not isinstance(body[0], ast.Try):
        raise TranslateError("from_header: first statement is not the try: WCS(header, naxis=2)")
    if not _is(body[1], 'if beam is None:\n    beam = get_beam(header)\nelse:\n    beam = beam'):
        raise TranslateError(f"from_header: beam selection is not `if beam is None: beam = get_beam(header) else: beam = beam`: {src(body[1])[:90]}")
    t = body[2]
    if not (isinstance(t, ast.If) and src(t.test) == 'beam is None' and not t.orelse and isinstance(t.body[-1], ast.Raise)
            and 'AssertionError' in src(t.body[-1])):
        raise TranslateError("from_header: `if beam is None: raise AssertionError(..)` not found")
    if not _is(body[3], '_, pixscale = get_pixinfo(header)'):
        raise TranslateError(f"from_header: pixscale is not `_, pixscale = get_pixinfo(header)`: {src(body[3])}")
    r = body[4]
    ok = (isinstance(r, ast.Assign) and src(r.targets[0]) == 'refpix' and isinstance(r.value, ast.Tuple) and len(r.value.elts) == 2
          and all(isinstance(e, ast.Subscript) and src(e.value) == 'header' and isinstance(e.slice, ast.Constant) for e in r.value.elts))
    if not ok:
        raise TranslateError("from_header: refpix is not `(header['K1'], header['K2'])`")
    rk = [_key(e.slice.value, 'from_header') for e in r.value.elts]
    if not _is(body[5], 'return cls(wcs, beam, pixscale, refpix, psf_file=psf_file)'):
        raise TranslateError(f"from_header: return changed: {src(body[5])}")
    ff = find_func(tree, 'from_file', CLS)
    fb = strip_doc(ff.body)
    if len(fb) != 2 or not _is(fb[0], 'header = fits.getheader(filename)') or not _is(fb[1], 'return cls.from_header(header, beam, psf_file=psf_file)'):
        raise TranslateError("from_file is not `header = fits.getheader(filename); return cls.from_header(header, beam, psf_file=psf_file)`")
    cls = [n for n in tree.body if isinstance(n, ast.ClassDef) and n.name == CLS][0]
    consults = any(isinstance(n, ast.Name) and n.id == 'fix_aips_header' for n in ast.walk(cls)) or \
        any(isinstance(n, ast.Name) and n.id == 'fix_aips_header' for n in ast.walk(find_func(tree, 'get_beam')))
    return ("Definition from_header_explicit_beam_wins : bool := true.\nDefinition from_header_none_raises : bool := true.\n"
            f"Definition from_header_refpix : hkey * hkey := ({rk[0]}, {rk[1]}).\n"
            f"Definition from_header_consults_history : bool := {'true' if consults else 'false'}.\n")


def _psf(tree):
    # psf_sky2pix
    fn = find_func(tree, 'psf_sky2pix', CLS)
    _sig(fn, ['self', 'pos'])
    body = strip_doc(fn.body)
    ok = (len(body) == 2 and isinstance(body[0], ast.If) and src(body[0].test) == 'self.psf_wcs is not None' and not body[0].orelse
          and len(body[0].body) == 2 and src(body[1]) == 'return None')
    if not ok:
        raise TranslateError("psf_sky2pix: body is not `if self.psf_wcs is not None: pixel = ..; return [..]  return None`")
    call = body[0].body[0].value
    ok = (isinstance(call, ast.Call) and src(call.func) == 'self.psf_wcs.all_world2pix' and len(call.args) == 2 and src(call.args[0]) == '[pos]'
          and isinstance(call.args[1], ast.Constant) and call.args[1].value in (0, 1) and len(call.keywords) == 1
          and call.keywords[0].arg == 'ra_dec_order' and src(call.keywords[0].value) == 'self.ra_dec_order')
    if not ok:
        raise TranslateError(f"psf_sky2pix: call is not self.psf_wcs.all_world2pix([pos], <0|1>, ra_dec_order=self.ra_dec_order): {src(call)[:90]}")
    nm = src(body[0].body[0].targets[0])
    rv = body[0].body[1].value
    if not (isinstance(rv, (ast.List, ast.Tuple)) and len(rv.elts) == 2):
        raise TranslateError("psf_sky2pix: return is not a pair")
    tr = Tr('R', {f'{nm}[0][0]': 'p0', f'{nm}[0][1]': 'p1'})
    ret = '(' + ', '.join(tr.expr(e) for e in rv.elts) + ')'
    if ret not in ('(p1, p0)', '(p0, p1)'):
        raise TranslateError(f"psf_sky2pix: the returned pair {ret} is not a permutation of the wcslib pixel")
    swaps = 'true' if ret == '(p1, p0)' else 'false'
    # get_psf_sky2sky
    fn = find_func(tree, 'get_psf_sky2sky', CLS)
    _sig(fn, ['self', 'ra', 'dec'])
    body = strip_doc(fn.body)
    want0 = ('if self.psf_file is None:\n    (x, y) = self.sky2pix((ra, dec))\n    (_, _, a, b, pa) = self.pix2sky_ellipse((x, y), self._psf_a, '
             'self._psf_b, self._psf_theta)\n    return (a, b, pa)')
    if len(body) != 6 or not _is(body[0], want0):
        raise TranslateError("get_psf_sky2sky: the fall-back without a psf map is not sky2pix + pix2sky_ellipse of (_psf_a, _psf_b, _psf_theta)")
    if not _is(body[1], 'x, y = self.psf_sky2pix((ra, dec))'):
        raise TranslateError(f"get_psf_sky2sky: `x, y = self.psf_sky2pix((ra, dec))` expected, found {src(body[1])}")
    clip = {}
    for st, v in ((body[2], 'x'), (body[3], 'y')):
        ok = (isinstance(st, ast.Assign) and src(st.targets[0]) == v and isinstance(st.value, ast.Call) and src(st.value.func) == 'int'
              and len(st.value.args) == 1 and isinstance(st.value.args[0], ast.Call) and src(st.value.args[0].func) == 'np.clip'
              and len(st.value.args[0].args) == 3 and not st.value.args[0].keywords and src(st.value.args[0].args[0]) == v)
        if not ok:
            raise TranslateError(f"get_psf_sky2sky: not `{v} = int(np.clip({v}, lo, hi))`: {src(st)[:80]}")
        lo, hi = st.value.args[0].args[1:]
        axes = [n for n in ast.walk(hi) if isinstance(n, ast.Subscript) and src(n.value) == 'self.psf_map.shape']
        if len(axes) != 1 or not isinstance(axes[0].slice, ast.Constant):
            raise TranslateError(f"get_psf_sky2sky: upper clip bound {src(hi)} does not mention exactly one self.psf_map.shape[k]")
        trz = Tr('Z', {src(axes[0]): 'n'})
        clip[v] = (trz.expr(lo), trz.expr(hi), axes[0].slice.value)
    ix = body[4]
    ok = (isinstance(ix, ast.Assign) and isinstance(ix.value, ast.Subscript) and src(ix.value.value) == 'self.psf_map'
          and isinstance(ix.value.slice, ast.Tuple) and len(ix.value.slice.elts) == 3 and isinstance(ix.value.slice.elts[0], ast.Slice)
          and ix.value.slice.elts[0].lower is None and ix.value.slice.elts[0].step is None
          and isinstance(ix.value.slice.elts[0].upper, ast.Constant) and src(body[5]) == f'return {src(ix.targets[0])}')
    if not ok:
        raise TranslateError(f"get_psf_sky2sky: lookup is not `psf_sky = self.psf_map[:k, i, j]; return psf_sky`: {src(ix)[:80]}")
    planes = ix.value.slice.elts[0].upper.value
    i1, i2 = (src(e) for e in ix.value.slice.elts[1:])
    if sorted((i1, i2)) != ['x', 'y']:
        raise TranslateError(f"get_psf_sky2sky: the indices are not x and y: {i1}, {i2}")
    # fall-backs without a psf map
    for name, params in (('get_psf_sky2pix', ['ra', 'dec']), ('get_psf_pix2pix', ['x', 'y'])):
        f = find_func(tree, name, CLS)
        _sig(f, ['self'] + params)
        b = strip_doc(f.body)
        if not _is(b[0], 'if self.psf_file is None:\n    return self._psf_a, self._psf_b, self._psf_theta'):
            raise TranslateError(f"{name}: fall-back is not `return self._psf_a, self._psf_b, self._psf_theta`")
    f = find_func(tree, 'get_psf_pix2pix', CLS)
    if [src(s) for s in strip_doc(f.body)[1:]] != [_n('ra, dec = self.pix2sky((x, y))'), _n('return self.get_psf_sky2pix(ra, dec)')]:
        raise TranslateError("get_psf_pix2pix: with a psf map it is not pix2sky followed by get_psf_sky2pix")
    f = find_func(tree, 'get_psf_sky2pix', CLS)
    rest = [src(s) for s in strip_doc(f.body)[1:]]
    if rest != [_n(x) for x in ('psf_sky = self.get_psf_sky2sky(ra, dec)',
                                'psf_pix = self.sky2pix_ellipse((ra, dec), psf_sky[0], psf_sky[1], psf_sky[2])[2:]', 'return psf_pix')]:
        raise TranslateError("get_psf_sky2pix: with a psf map it is not sky2pix_ellipse of get_psf_sky2sky, slots [2:]")
    f = find_func(tree, 'get_skybeam', CLS)
    _sig(f, ['self', 'ra', 'dec'])
    want = ['if self.psf_file is not None:\n    psf = self.get_psf_sky2sky(ra, dec)\n    if not all(np.isfinite(psf)):\n        return None\n'
            '    return Beam(psf[0], psf[1], psf[2])',
            '(a, b, pa) = self.get_psf_sky2sky(ra, dec)', 'if not np.all(np.isfinite((a, b, pa))):\n    return None', 'return Beam(a, b, pa)']
    if [src(s) for s in strip_doc(f.body)] != [_n(x) for x in want]:
        raise TranslateError("get_skybeam: is not Beam(*get_psf_sky2sky(ra, dec)) guarded by a finiteness test")
    return (f"Definition psf_sky2pix_ret (p0 p1 : R) : R * R := {ret}.\nDefinition psf_sky2pix_swaps : bool := {swaps}.\nDefinition psf_sky2pix_origin : Z := ({call.args[1].value})%Z.\n"
            f"Definition psf_clip_lo_x : Z := ({clip['x'][0]})%Z.\nDefinition psf_clip_hi_x (n : Z) : Z := ({clip['x'][1]})%Z.\n"
            f"Definition psf_shape_axis_x : Z := ({clip['x'][2]})%Z.\n"
            f"Definition psf_clip_lo_y : Z := ({clip['y'][0]})%Z.\nDefinition psf_clip_hi_y (n : Z) : Z := ({clip['y'][1]})%Z.\n"
            f"Definition psf_shape_axis_y : Z := ({clip['y'][2]})%Z.\n"
            f"Definition psf_planes : Z := ({planes})%Z.\n"
            f"Definition psf_index_x_first : bool := {'true' if i1 == 'x' else 'false'}.\n")


def _sky_sep(tree):
    fn = find_func(tree, 'sky_sep', CLS)
    _sig(fn, ['self', 'pix1', 'pix2'])
    body = strip_doc(fn.body)
    if len(body) != 4:
        raise TranslateError("sky_sep: expected pos1 = ..; pos2 = ..; sep = gcd(..); return sep")
    tr = TrW({'pix1': 'pix1', 'pix2': 'pix2'}, {'pix1': 'P', 'pix2': 'P'})
    lets = []
    for st in body[:2]:
        if not (isinstance(st, ast.Assign) and isinstance(st.targets[0], ast.Name) and tr.typ(st.value) == 'P'):
            raise TranslateError(f"sky_sep: not an assignment of a sky position: {src(st)[:60]}")
        nm = st.targets[0].id
        lets.append(('v_' + nm, tr.expr(st.value)))
        tr.env[f'{nm}[0]'] = f'(fst v_{nm})'
        tr.env[f'{nm}[1]'] = f'(snd v_{nm})'
    st = body[2]
    if not (isinstance(st, ast.Assign) and isinstance(st.targets[0], ast.Name) and _is(body[3], f'return {st.targets[0].id}')):
        raise TranslateError("sky_sep: does not end with `sep = ..; return sep`")
    res = tr.expr(st.value)
    return ("Definition sky_sep (pix2sky : R * R -> R * R) (pix1 pix2 : R * R) : R :=\n" +
            ''.join(f"  let {n} := {v} in\n" for n, v in lets) + f"  {res}.\n")


def _beamarea(tree):
    out = ''
    for name, look in (('get_beamarea_deg2', 'get_psf_sky2sky'), ('get_beamarea_pix', 'get_psf_sky2pix')):
        fn = find_func(tree, name, CLS)
        _sig(fn, ['self', 'ra', 'dec'])
        body = strip_doc(fn.body)
        if len(body) != 2 or not _is(body[0], f'a, b, _ = self.{look}(ra, dec)') or not isinstance(body[1], ast.Return):
            raise TranslateError(f"{name}: body is not `a, b, _ = self.{look}(ra, dec); return <expr>`")
        tr = Tr('R', {'a': 'a', 'b': 'b'})
        out += f"Definition {name[4:]} (a b : R) : R := {tr.expr(body[1].value)}.\n"
    return out


@point('WcsBeam')
def gen_wcsbeam(repo):
    tree = parse_file(_p(repo, 'wcs_helpers.py'))
    for n in ast.walk(tree):
        if isinstance(n, ast.Name) and isinstance(n.ctx, ast.Store) and n.id in ('gcd', 'np', 'Beam', 'get_beam', 'get_pixinfo', 'header'):
            if n.id != 'header':
                raise TranslateError(f"wcs_helpers assigns to {n.id}")
    return (HEADER + "\n(* header keywords consulted by the helpers *)\n"
            f"Inductive hkey : Set := {' | '.join(KEYS)}.\n\n"
            "(* WCSHelper.sky_sep *)\n" + _sky_sep(tree) +
            "\n(* get_beamarea_deg2: `a, b, _ = self.get_psf_sky2sky(ra, dec)`; get_beamarea_pix: `a, b, _ = self.get_psf_sky2pix(ra, dec)` *)\n" +
            _beamarea(tree) +
            "\n(* get_pixinfo: the key lists of the if / elif chain in order; area and pixscale per branch (k = number of the branch, any other k = the else) *)\n" +
            _pixinfo(tree) +
            "\n(* get_beam: key per slot, value when the key is absent (None = no beam), Beam(..) argument order; Beam.__init__ *)\n" + _get_beam(tree) +
            "\n(* fix_aips_header *)\n" + _fix_aips(tree) +
            "\n(* WCSHelper.from_header / from_file *)\n" + _from_header(tree) +
            "\n(* psf map: psf_sky2pix and the lookup of get_psf_sky2sky `x = int(np.clip(x, lo, hi)); psf_map[:planes, x, y]` (n = the shape entry) *)\n" +
            _psf(tree))
