#!/bin/bash
# tools/run_all.sh [tier] : run every registered check on the real tree, 3 at a time; summary at the end
tier=${1:-quick}
cd /verif
ids=$(python3 -c "import json; print(' '.join(c['property_id'] for c in json.load(open('MANIFEST.json'))['checks']))")
mkdir -p work/runall
echo $ids | tr ' ' '\n' | xargs -P 3 -I{} bash -c "( time timeout 2400 ./check {} $tier ) > work/runall/{}.log 2>&1; echo {} exit=\$? >> work/runall/summary.txt"
sort work/runall/summary.txt; for i in $ids; do grep -h "^OK\|^VIOLATION\|^KNOWN" work/runall/$i.log | cut -c1-160; done
rm -f work/runall/summary.txt
