#!/usr/bin/env python3
"""Write seeded/README.md: one row per kept seeded change (what it does, what it needs, which check catches it)."""
import glob, json, os
rows = []
for d in sorted(glob.glob('/verif/seeded/*/meta.json')):
    m = json.load(open(d)); mid = os.path.basename(os.path.dirname(d))
    def cell(x, n):
        x = ' '.join(str(x or '').split()).replace('|', '/')
        return x if len(x) <= n else x[:n - 1] + '…'
    rows.append(f"| {mid} | {cell(m.get('summary'), 260)} | {cell(m.get('needs'), 200)} | {cell(m.get('detection'), 260)} |")
with open('/verif/seeded/README.md', 'w') as fh:
    fh.write("# Seeded changes\n\nEach directory holds `patch.diff` (applies to /repo HEAD at the time it was written), `demo.py` (exits 1 with the change, 0 without) and\n"
             "`meta.json`. They were written by independent sub-agents that saw only the text of the property (nothing from /verif), confirmed with\n"
             "`tools/eval_seeded.sh` (patch applies; demo fails with / passes without; repository tests still pass) and tried against the registered\n"
             "check with `tools/try_mutant.sh` (scratch worktree through `AEGEAN_REPO`; `REAL=1` applies to /repo itself and undoes).\n\n"
             "| id | change | needs | detection |\n|---|---|---|---|\n" + '\n'.join(rows) + '\n')
print(len(rows), 'rows')
