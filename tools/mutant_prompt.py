#!/usr/bin/env python3
"""Print the sub-agent prompt for a property (text of the property only, nothing from /verif)."""
import json, sys
pid = sys.argv[1]
wt = sys.argv[2]
for l in open('/verif/properties.jsonl'):
    p = json.loads(l)
    if p['id'] == pid:
        break
else:
    raise SystemExit('no such property')
print(f"""You are helping to evaluate a verification tool by writing a realistic *bug* (a "seeded change") for the Python project PaulHancock/Aegean (AegeanTools: radio-astronomy source finder, BANE background/noise estimation, MIMAS HEALPix regions).

You have your own scratch git worktree of the project at {wt} . Work ONLY inside {wt} (never touch /repo or /verif, never read /verif). Run python as `cd {wt} && PYTHONPATH={wt} /venv/bin/python ...` so that your worktree's AegeanTools is imported (verify with `python -c "import AegeanTools; print(AegeanTools.__file__)"`). There is no network. The test suite runs with `cd {wt} && PYTHONPATH={wt} /venv/bin/python -m pytest -q -p no:cacheprovider --timeout=900 tests` (about 40 s; it overwrites two tracked fits files under tests/test_files - run `git -C {wt} checkout -- tests` afterwards).

The property that your change must BREAK:

id: {p['id']}
title: {p['title']}
statement: {p['statement']}
quantified over: {p['quantifier']['text']}
anchored in files: {', '.join(p['anchors']['files'])}
mechanisms: {'; '.join(m.get('name','')+' ('+m.get('where','')+')' for m in p['anchors']['mechanism'])}

Your task: produce ONE small source change to the library code (under AegeanTools/, not tests) that
 (a) still imports/compiles and leaves the whole existing test suite passing (all tests that pass before your change must still pass; run it and confirm),
 (b) makes the property above false for some inputs, and
 (c) needs something SPECIFIC to manifest - an unusual input, a particular size/parity/boundary, a multi-step sequence of operations, a particular interleaving or fault point, or two cooperating sites that each look fine alone - i.e. NOT something ordinary use or a casual smoke test would expose at once. It should look like a plausible mistake or 'optimisation' a maintainer could make (off-by-one, wrong rounding/division, stale cache, swapped axis on non-square input, wrong comparison strictness, missing wrap, dropped case...). Do not add dead code, env-var switches, randomness or anything that looks deliberately malicious. Keep the diff small (typically 1-10 lines).

Also write a demonstration: a small standalone python script `demo.py` (uses only the project's public/semipublic functions, numpy, astropy etc. as installed; builds any input files it needs in a temp dir) that exits 0 when the property holds on its input and exits 1 (printing what went wrong) when it does not. It must FAIL (exit 1) with your change and PASS (exit 0) on the unmodified worktree. Check both yourself with `git diff > /tmp/<your own file>.patch; git checkout -- AegeanTools; ...; git apply /tmp/<your own file>.patch` - do NOT use `git stash`: the stash is shared between all worktrees of the repository and other people are working in sibling worktrees.

Deliver, in the directory {wt}/_seeded/ (create it):
  patch.diff   - `git diff` of your change (library code only, relative to the worktree HEAD; must apply with `git apply` at the repo root)
  demo.py      - the demonstration (invoked as `PYTHONPATH=<repo root> /venv/bin/python demo.py`)
  meta.json    - {{"property": "{p['id']}", "summary": "...what the change does...", "needs": "...what specific input/sequence/schedule it needs to manifest...", "ran": ["commands you ran and their outcomes"]}}
Leave the worktree source files UNMODIFIED at the end (git checkout -- . ; only the untracked _seeded/ directory remains). In your final answer say in 3-6 lines what the change is, what it needs to manifest, and confirm the test suite result and the demo pass/fail results.
If your first idea is caught by the existing tests, try another. Take care that the demo really tests the property as stated (not something stronger).""")
