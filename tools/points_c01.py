"""C01 extraction points -> coq/Gen/Recovery.v  (R back end).

  wcs_helpers.WCSHelper.sky2pix_ellipse / pix2sky_ellipse   whole functions; `self.sky2pix` / `self.pix2sky` become the
                                                          function arguments S / P, translate / gcd / bear the generated
                                                          Gen.Sphere definitions
  wcs_helpers.WCSHelper.get_beamarea_pix                  a * b * pi
  source_finder.CC2FHWM / FWHM2CC                         the two module constants
  source_finder.fix_shape / pa_limit                      comparison + swap + increment; the two `while` tests and steps
  SourceFinder.result_to_components                       x_pix / y_pix, the arguments of the pix2sky_ellipse call, the
                                                          arcsecond factors, peak_flux, the RA wrap, int_flux and its beam
                                                          normalisation; the ORDER pix2sky_ellipse < *=3600 < fix_shape <
                                                          pa_limit < RA wrap < int_flux is checked (fail closed)
  SourceFinder.estimate_lmfit_parinfo                     initial values and bounds of amp, xo, yo, sx, sy and the keywords of
                                                          the params.add calls that consume them

Everything that is not arithmetic is recognised from the AST shape and refused when different.
"""
import ast

from trcore import (HEADER_R, Tr, TranslateError, block_lets, find_augassigns, find_func, lets_text, one_assign, parse_file,
                    point, src, strip_doc)
from translate_points import _p


class TrS(Tr):
    """R back end + calls of the generated spherical functions"""
    SPH = {'gcd': 4, 'bear': 4}

    def __init__(self, env=None):
        super().__init__('R', env)

    def e_Call(self, n):
        if not n.keywords and isinstance(n.func, ast.Name) and n.func.id in self.SPH and len(n.args) == self.SPH[n.func.id]:
            return f"({n.func.id} {' '.join(self.expr(a) for a in n.args)})"
        return super().e_Call(n)


def _method_args(fn, names):
    a = fn.args
    if [x.arg for x in a.args] != ['self'] + names or a.vararg or a.kwarg or a.kwonlyargs or a.defaults or fn.decorator_list:
        raise TranslateError(f"{fn.name}: signature is not (self, {', '.join(names)})")


def _ellipse(fn, argnames, pairarg, pairnames, wcs_method, wcs_var):
    """straight-line method whose statements are: `a, b = <pair parameter>`, `u, v = self.<wcs_method>(<pair>)`,
    `name = (e1, e2)`, plain / augmented assignments, one final `return` of a tuple.  Pairs are kept symbolically."""
    _method_args(fn, argnames)
    F = fn.name + ': '
    tr = TrS({n: n for n in argnames if n != pairarg})
    pairs = {}          # python name -> Gallina term of type R * R
    lets = []
    used = set()

    def fresh(nm):
        new = 'v_' + nm
        while new in used:
            new += "'"
        used.add(new)
        return new

    def pair_term(node):
        if isinstance(node, ast.Name) and node.id in pairs:
            return pairs[node.id]
        if isinstance(node, ast.Name) and node.id == pairarg and pairarg in pairs:
            return pairs[pairarg]
        if isinstance(node, ast.Call) and isinstance(node.func, ast.Name) and node.func.id == 'translate' \
                and len(node.args) == 4 and not node.keywords:
            return f"(translate {' '.join(tr.expr(a) for a in node.args)})"
        if isinstance(node, ast.Tuple) and len(node.elts) == 2:
            return f"({tr.expr(node.elts[0])}, {tr.expr(node.elts[1])})"
        raise TranslateError(F + f"not a coordinate pair: {src(node)[:80]}")

    body = strip_doc(fn.body)
    if not body or not isinstance(body[-1], ast.Return) or not isinstance(body[-1].value, ast.Tuple):
        raise TranslateError(F + "does not end with `return <tuple>`")
    for st in body[:-1]:
        if isinstance(st, ast.Expr) and isinstance(st.value, ast.Constant):
            continue
        tgt = st.targets[0] if isinstance(st, ast.Assign) and len(st.targets) == 1 else None
        two = (isinstance(tgt, ast.Tuple) and len(tgt.elts) == 2 and all(isinstance(e, ast.Name) for e in tgt.elts))
        if two and isinstance(st.value, ast.Name) and st.value.id == pairarg:
            # ra, dec = pos   /   x, y = pixel : names for the components of the pair parameter
            a, b = tgt.elts[0].id, tgt.elts[1].id
            if [a, b] != pairnames:
                raise TranslateError(F + f"pair parameter unpacked as {a}, {b} (expected {pairnames})")
            tr.env[a], tr.env[b] = a, b
            pairs[pairarg] = f"({a}, {b})"
        elif two and isinstance(st.value, ast.Call) and src(st.value.func) == f'self.{wcs_method}' \
                and len(st.value.args) == 1 and not st.value.keywords:
            arg = st.value.args[0]
            if isinstance(arg, ast.Name) and arg.id == pairarg and pairarg not in pairs:
                # the WCS is queried before the parameter is unpacked: the pair is still (pairnames)
                pairs[pairarg] = f"({pairnames[0]}, {pairnames[1]})"
            term = f"({wcs_var} {pair_term(arg)})"
            p = fresh('q')
            lets.append((p, term))
            for e, proj in zip(tgt.elts, ('fst', 'snd')):
                nm = fresh(e.id)
                lets.append((nm, f"({proj} {p})"))
                tr.env[e.id] = nm
        elif isinstance(tgt, ast.Name) and isinstance(st.value, ast.Tuple) and len(st.value.elts) == 2:
            pairs[tgt.id] = pair_term(st.value)
        elif isinstance(tgt, ast.Name):
            v = tr.expr(st.value)
            nm = fresh(tgt.id)
            lets.append((nm, v))
            tr.env[tgt.id] = nm
        elif isinstance(st, ast.AugAssign) and isinstance(st.target, ast.Name) and st.target.id in tr.env:
            fake = ast.BinOp(left=ast.Name(id=st.target.id, ctx=ast.Load()), op=st.op, right=st.value)
            v = tr.expr(fake)
            nm = fresh(st.target.id)
            lets.append((nm, v))
            tr.env[st.target.id] = nm
        else:
            raise TranslateError(F + f"unsupported statement: {src(st)[:80]}")
    if pairarg not in pairs:
        raise TranslateError(F + f"the pair parameter {pairarg} is never unpacked")
    # the parameter's components must be the names bound by the unpacking (the signature of the definition)
    res = '(' + ', '.join(tr.expr(e) for e in body[-1].value.elts) + ')'
    return lets_text(lets, res), len(body[-1].value.elts)


def _const(tree, name, env):
    """module-level `name = <expression>`"""
    a = [n for n in tree.body if isinstance(n, ast.Assign) and len(n.targets) == 1 and src(n.targets[0]) == name]
    if len(a) != 1:
        raise TranslateError(f"module constant {name} not assigned exactly once")
    return Tr('R', env).expr(a[0].value)


def _fix_shape(tree):
    fn = find_func(tree, 'fix_shape')
    F = 'fix_shape: '
    body = strip_doc(fn.body)
    if [a.arg for a in fn.args.args] != ['source'] or len(body) != 2 or not isinstance(body[0], ast.If) or body[0].orelse \
            or src(body[1]) != 'return':
        raise TranslateError(F + "expected `if <test>: <swap> ; return`")
    tr = Tr('R', {'source.a': 'a', 'source.b': 'b', 'source.pa': 'pa'})
    test = tr.cond(body[0].test)
    stm = [src(s) for s in body[0].body]
    if stm[:2] != ['source.a, source.b = (source.b, source.a)', 'source.err_a, source.err_b = (source.err_b, source.err_a)'] \
            or len(stm) != 3:
        raise TranslateError(F + f"swap branch is {stm}")
    inc = body[0].body[2]
    if not (isinstance(inc, ast.AugAssign) and src(inc.target) == 'source.pa' and isinstance(inc.op, (ast.Add, ast.Sub))):
        raise TranslateError(F + f"pa update is {stm[2]}")
    op = '+' if isinstance(inc.op, ast.Add) else '-'
    return test, f"(pa {op} {tr.expr(inc.value)})"


def _pa_limit(tree):
    fn = find_func(tree, 'pa_limit')
    F = 'pa_limit: '
    body = strip_doc(fn.body)
    if [a.arg for a in fn.args.args] != ['pa'] or len(body) != 3 or not all(isinstance(s, ast.While) for s in body[:2]) \
            or src(body[2]) != 'return pa':
        raise TranslateError(F + "expected two `while` loops and `return pa`")
    tr = Tr('R', {'pa': 'pa'})
    out = []
    for w in body[:2]:
        if w.orelse or len(w.body) != 1 or not (isinstance(w.body[0], ast.AugAssign) and src(w.body[0].target) == 'pa'
                                                 and isinstance(w.body[0].op, (ast.Add, ast.Sub))):
            raise TranslateError(F + f"loop body is {src(w)[:80]}")
        op = '+' if isinstance(w.body[0].op, ast.Add) else '-'
        out.append((tr.cond(w.test), f"(pa {op} {tr.expr(w.body[0].value)})"))
    return out


def _lineno_order(nodes, what):
    ln = [n.lineno for n in nodes]
    if ln != sorted(ln) or len(set(ln)) != len(ln):
        raise TranslateError(f"result_to_components: statement order changed ({what}); lines {ln}")


def _result_to_components(tree):
    fn = find_func(tree, 'result_to_components', cls='SourceFinder')
    F = 'result_to_components: '
    loops = [s for s in strip_doc(fn.body) if isinstance(s, ast.For)]
    if not loops or src(loops[0].target) != 'j' or src(loops[0].iter) != "range(int(model['components'].value))":
        raise TranslateError(F + "component loop not found")
    loop = loops[0]
    # parameters are read from the model under these names
    for nm in ('xo', 'yo', 'sx', 'sy', 'theta', 'amp'):
        a = one_assign(loop, nm)
        if src(a.value) != f"model[prefix + '{nm}'].value":
            raise TranslateError(F + f"{nm} is read as {src(a.value)}")
    if src(one_assign(loop, 'prefix').value) != "'c{0}_'.format(j)":
        raise TranslateError(F + "prefix")
    if src(one_assign(fn, '(xmin, xmax, ymin, ymax)').value) != 'island_data.offsets':
        raise TranslateError(F + "offsets")
    tr = Tr('R', {n: n for n in ('xo', 'yo', 'sx', 'sy', 'theta', 'amp', 'xmin', 'ymin', 'CC2FHWM')})
    a_x, a_y = one_assign(loop, 'x_pix'), one_assign(loop, 'y_pix')
    x_pix, y_pix = tr.expr(a_x.value), tr.expr(a_y.value)
    peak = one_assign(loop, 'source.peak_flux')
    peak_t = tr.expr(peak.value)
    # the pix2sky_ellipse call
    call = one_assign(loop, '(source.ra, source.dec, source.a, source.b, source.pa)')
    cv = call.value
    if not (isinstance(cv, ast.Call) and src(cv.func) == 'global_data.wcshelper.pix2sky_ellipse' and len(cv.args) == 4
            and not cv.keywords and isinstance(cv.args[0], ast.Tuple) and len(cv.args[0].elts) == 2):
        raise TranslateError(F + f"pix2sky_ellipse call is {src(cv)[:120]}")
    tr2 = Tr('R', dict(tr.env, x_pix='x_pix', y_pix='y_pix'))
    e_args = [tr2.expr(cv.args[0].elts[0]), tr2.expr(cv.args[0].elts[1])] + [tr2.expr(a) for a in cv.args[1:]]
    # arcseconds
    fac = {}
    aug = {}
    for f in ('a', 'b'):
        au = [n for n in find_augassigns(loop, f'source.{f}')]
        if len(au) != 1 or not isinstance(au[0].op, ast.Mult):
            raise TranslateError(F + f"source.{f} is not scaled exactly once")
        fac[f] = Tr('R').expr(au[0].value)
        aug[f] = au[0]
    calls = [n for n in loop.body if isinstance(n, ast.Expr) and isinstance(n.value, ast.Call) and src(n.value) == 'fix_shape(source)']
    if len(calls) != 1:
        raise TranslateError(F + "fix_shape(source) is not called exactly once in the component loop")
    pal = one_assign(loop, 'source.pa')
    if src(pal.value) != 'pa_limit(source.pa)':
        raise TranslateError(F + f"source.pa = {src(pal.value)}")
    wraps = [n for n in loop.body if isinstance(n, ast.If) and src(n.test).startswith('source.ra')]
    if len(wraps) != 1 or wraps[0].orelse or len(wraps[0].body) != 1 or not (
            isinstance(wraps[0].body[0], ast.AugAssign) and src(wraps[0].body[0].target) == 'source.ra'
            and isinstance(wraps[0].body[0].op, ast.Add)):
        raise TranslateError(F + "RA wrap is not `if source.ra <cmp> ..: source.ra += ..`")
    trw = Tr('R', {'source.ra': 'ra'})
    wrap_test, wrap_val = trw.cond(wraps[0].test), f"(ra + {trw.expr(wraps[0].body[0].value)})"
    # integrated flux
    fl = one_assign(loop, 'source.int_flux')
    tr3 = Tr('R', {'source.peak_flux': 'peak', 'sx': 'sx', 'sy': 'sy', 'CC2FHWM': 'CC2FHWM'})
    flux = tr3.expr(fl.value)
    au = find_augassigns(loop, 'source.int_flux')
    if len(au) != 1 or not isinstance(au[0].op, ast.Div) or \
            src(au[0].value) != 'global_data.psfhelper.get_beamarea_pix(source.ra, source.dec)':
        raise TranslateError(F + "int_flux is not divided once by psfhelper.get_beamarea_pix(source.ra, source.dec)")
    # source.flags etc. do not matter here; positions must not be re-assigned
    for nm in ('source.ra', 'source.dec', 'source.a', 'source.b'):
        if [n for n in ast.walk(loop) if isinstance(n, ast.Assign) and any(src(t) == nm for t in n.targets)]:
            raise TranslateError(F + f"{nm} is assigned outside the pix2sky_ellipse call")
    _lineno_order([a_x, a_y, peak, call, aug['a'], aug['b'], calls[0], pal, wraps[0], fl, au[0]],
                  'x_pix < y_pix < peak_flux < pix2sky_ellipse < a*= < b*= < fix_shape < pa_limit < RA wrap < int_flux < /= beam area')
    return dict(x_pix=x_pix, y_pix=y_pix, peak=peak_t, e_args=e_args, fac=fac, wrap_test=wrap_test, wrap_val=wrap_val, flux=flux)


def _parinfo(tree):
    fn = find_func(tree, 'estimate_lmfit_parinfo', cls='SourceFinder')
    E = 'estimate_lmfit_parinfo: '
    loops = [s for s in strip_doc(fn.body) if isinstance(s, ast.For)]
    if len(loops) != 1 or src(loops[0].target) != '(summit, xmin, xmax, ymin, ymax)':
        raise TranslateError(E + "summit loop not found")
    lb = loops[0].body
    # amplitude bounds
    ifs = [s for s in lb if isinstance(s, ast.If) and isinstance(s.test, ast.Compare) and src(s.test.left) == 'amp']
    if len(ifs) != 1 or len(ifs[0].body) != 1 or len(ifs[0].orelse) != 1:
        raise TranslateError(E + "amplitude bounds are not `if amp ..: (..) = (..) else: (..) = (..)`")
    tra = Tr('R', {'amp': 'amp', 'rmsimg[xo, yo]': 'rms', 'outerclip': 'oc', 'innerclip': 'ic'})
    amp_test = tra.cond(ifs[0].test)

    def bounds(st, what):
        if not (isinstance(st, ast.Assign) and isinstance(st.targets[0], ast.Tuple) and isinstance(st.value, ast.Tuple)
                and len(st.value.elts) == 2 and sorted(src(e) for e in st.targets[0].elts) == ['amp_max', 'amp_min']):
            raise TranslateError(E + f"amplitude bounds ({what}): {src(st)[:100]}")
        d = {src(t_): tra.expr(v_) for t_, v_ in zip(st.targets[0].elts, st.value.elts)}
        return d['amp_min'], d['amp_max']
    pmin, pmax = bounds(ifs[0].body[0], 'amp > 0')
    nmin, nmax = bounds(ifs[0].orelse[0], 'otherwise')
    # the pixel beam comes from the psf helper at the summit
    pb = one_assign(loops[0], 'pixbeam')
    if src(pb.value) != 'Beam(a, b, pa)' or src(one_assign(loops[0], '(a, b, pa)').value) != \
            'global_data.psfhelper.get_psf_pix2pix(yo + offsets[0], xo + offsets[1])':
        raise TranslateError(E + "pixbeam is not Beam(*psfhelper.get_psf_pix2pix(..))")
    # position and shape: the consecutive assignments from xo_lim to sy_min, sy_max
    idx = [k for k, s in enumerate(lb) if isinstance(s, ast.Assign) and src(s.targets[0]) == 'xo_lim']
    jdx = [k for k, s in enumerate(lb) if isinstance(s, ast.Assign) and src(s.targets[0]) == '(sy_min, sy_max)']
    if len(idx) != 1 or len(jdx) != 1 or jdx[0] < idx[0] or lb.index(pb) > idx[0]:
        raise TranslateError(E + "position / shape block not found")
    blk = lb[idx[0]:jdx[0] + 1]
    trb = Tr('R', {'xo': 'xo', 'yo': 'yo', 'pixbeam.a': 'ba', 'pixbeam.b': 'bb', 'data.shape[0]': 'xsize', 'data.shape[1]': 'ysize',
                   'FWHM2CC': 'FWHM2CC'})
    lets, rest = block_lets(blk, trb)
    if rest:
        raise TranslateError(E + f"position / shape block: unsupported statement {src(rest[0])[:80]}")
    names = [n for n, _ in lets]
    for need in ('v_xo_min', 'v_xo_max', 'v_yo_min', 'v_yo_max', 'v_sx', 'v_sy', 'v_sx_min', 'v_sx_max', 'v_sy_min', 'v_sy_max'):
        if need not in names:
            raise TranslateError(E + f"{need[2:]} is not assigned in the position / shape block")
    # none of these may be re-assigned later in the loop
    later = lb[jdx[0] + 1:]
    for s in later:
        for n in ast.walk(s):
            if isinstance(n, (ast.Assign, ast.AugAssign)):
                ts = n.targets if isinstance(n, ast.Assign) else [n.target]
                for t in ts:
                    for nm in ast.walk(t):
                        if isinstance(nm, ast.Name) and ('v_' + nm.id in names or nm.id in ('amp', 'amp_min', 'amp_max', 'xo', 'yo')):
                            raise TranslateError(E + f"{nm.id} is re-assigned after the bounds are computed")
    # initial position = peak pixel
    if src(one_assign(loops[0], 'yo').value) != 'ypeak + ymin' or src(one_assign(loops[0], 'xo').value) != 'xpeak + xmin':
        raise TranslateError(E + "xo / yo are not xpeak + xmin / ypeak + ymin")
    # the params.add calls consume exactly these names
    want = {'amp': ('amp', 'amp_min', 'amp_max'), 'xo': ('xo', 'float(xo_min)', 'float(xo_max)'),
            'yo': ('yo', 'float(yo_min)', 'float(yo_max)'), 'sx': ('sx', 'sx_min', 'sx_max'), 'sy': ('sy', 'sy_min', 'sy_max'),
            'theta': ('theta', None, None)}
    seen = {}
    for n in ast.walk(loops[0]):
        if isinstance(n, ast.Call) and src(n.func) == 'params.add' and n.args and isinstance(n.args[0], ast.BinOp) \
                and src(n.args[0].left) == 'prefix' and isinstance(n.args[0].right, ast.Constant):
            kw = {k.arg: src(k.value) for k in n.keywords}
            seen[n.args[0].right.value] = (kw.get('value'), kw.get('min'), kw.get('max'))
    for k, v in want.items():
        if seen.get(k) != v:
            raise TranslateError(E + f"params.add(prefix + '{k}') has value/min/max = {seen.get(k)}, expected {v}")
    if src(one_assign(loops[0], 'theta').value) != 'pixbeam.pa':
        raise TranslateError(E + "initial theta is not pixbeam.pa")

    def d(result):
        return lets_text(lets, result)
    return dict(amp_test=amp_test, pmin=pmin, pmax=pmax, nmin=nmin, nmax=nmax,
                xo=d('(v_xo_min, v_xo_max)'), yo=d('(v_yo_min, v_yo_max)'), init=d('(v_sx, v_sy)'),
                sx=d('(v_sx_min, v_sx_max)'), sy=d('(v_sy_min, v_sy_max)'))


def _axis_errors(tree):
    """fitting.errors: the two WCS query pixels and the scale of err_a and of err_b"""
    fn = find_func(tree, 'errors')
    E = 'fitting.errors: '
    blocks = [n for n in ast.walk(fn) if isinstance(n, ast.If) and "model[prefix + 'sx'].vary" in src(n.test)]
    if len(blocks) != 1:
        raise TranslateError(E + "the block guarded by model[prefix + 'sx'].vary was not found exactly once")
    body = [st for st in blocks[0].body if not (isinstance(st, ast.Expr) and isinstance(st.value, ast.Constant))]
    # optional 7th statement: the errors follow the swap that fix_shape made (enumerated constant)
    swap = 'false'
    if len(body) == 7:
        st = body[6]
        if not (isinstance(st, ast.If) and src(st.test) == 'sx < sy' and not st.orelse and
                [src(x) for x in st.body] == ['source.err_a, source.err_b = (source.err_b, source.err_a)']):
            raise TranslateError(E + f"7th statement of the axis-error block is not `if sx < sy: swap err_a, err_b`: {src(st)[:80]}")
        swap = 'true'
        body = body[:6]
    if len(body) != 6:
        raise TranslateError(E + f"expected ref / offset / err_a / ref / offset / err_b [/ swap], found {len(body)} statements")
    if src(one_assign(fn, 'theta').value) != "model[prefix + 'theta'].value" or \
            src(one_assign(fn, '(xo, yo)').value) != "(model[prefix + 'xo'].value, model[prefix + 'yo'].value)" or \
            src(one_assign(fn, '(sx, sy)').value) != "(model[prefix + 'sx'].value, model[prefix + 'sy'].value)":
        raise TranslateError(E + "xo, yo, sx, sy, theta are not read from the model values")
    tr = Tr('R', {n: n for n in ('xo', 'yo', 'sx', 'sy', 'err_sx', 'err_sy', 'theta', 'CC2FHWM')})

    def query(st, name):
        v = st.value if isinstance(st, ast.Assign) and len(st.targets) == 1 and src(st.targets[0]) == name else None
        if not (isinstance(v, ast.Call) and src(v.func) == 'wcshelper.pix2sky' and len(v.args) == 1 and not v.keywords
                and isinstance(v.args[0], (ast.List, ast.Tuple)) and len(v.args[0].elts) == 2):
            raise TranslateError(E + f"expected `{name} = wcshelper.pix2sky([.., ..])`, found {src(st)[:80]}")
        return f"({tr.expr(v.args[0].elts[0])}, {tr.expr(v.args[0].elts[1])})"

    def scale(st, name):
        v = st.value if isinstance(st, ast.Assign) and len(st.targets) == 1 and src(st.targets[0]) == name else None
        if not (isinstance(v, ast.BinOp) and isinstance(v.op, ast.Mult) and src(v.left) == 'gcd(ref[0], ref[1], offset[0], offset[1])'):
            raise TranslateError(E + f"expected `{name} = gcd(ref[0], ref[1], offset[0], offset[1]) * ..`, found {src(st)[:90]}")
        return Tr('R').expr(v.right)
    out = dict(swap=swap, a_ref=query(body[0], 'ref'), a_off=query(body[1], 'offset'), a_fac=scale(body[2], 'source.err_a'),
               b_ref=query(body[3], 'ref'), b_off=query(body[4], 'offset'), b_fac=scale(body[5], 'source.err_b'))
    # CC2FHWM, when used, must be the module constant with the same value as in source_finder
    if 'CC2FHWM' in out['a_ref'] + out['a_off'] + out['b_ref'] + out['b_off']:
        out['cc'] = _const(tree, 'CC2FHWM', {})
    else:
        out['cc'] = None
    return out


@point('Recovery')
def gen_recovery(repo):
    wt = parse_file(_p(repo, 'wcs_helpers.py'))
    s2p, n1 = _ellipse(find_func(wt, 'sky2pix_ellipse', cls='WCSHelper'), ['pos', 'a', 'b', 'pa'], 'pos', ['ra', 'dec'],
                       'sky2pix', 'S')
    p2s, n2 = _ellipse(find_func(wt, 'pix2sky_ellipse', cls='WCSHelper'), ['pixel', 'sx', 'sy', 'theta'], 'pixel', ['x', 'y'],
                       'pix2sky', 'P')
    if (n1, n2) != (5, 5):
        raise TranslateError("sky2pix_ellipse / pix2sky_ellipse must return five values")
    ba = find_func(wt, 'get_beamarea_pix', cls='WCSHelper')
    bb = strip_doc(ba.body)
    if len(bb) != 2 or src(bb[0]) != 'a, b, _ = self.get_psf_sky2pix(ra, dec)' or not isinstance(bb[1], ast.Return):
        raise TranslateError("get_beamarea_pix: expected `a, b, _ = self.get_psf_sky2pix(ra, dec); return ..`")
    area = Tr('R', {'a': 'a', 'b': 'b'}).expr(bb[1].value)
    gp = find_func(wt, 'get_psf_sky2pix', cls='WCSHelper')
    gb = strip_doc(gp.body)
    if not (isinstance(gb[0], ast.If) and src(gb[0].test) == 'self.psf_file is None'
            and [src(s) for s in gb[0].body] == ['return (self._psf_a, self._psf_b, self._psf_theta)']):
        raise TranslateError("get_psf_sky2pix: without a psf map the precomputed pixel beam must be returned")
    st = parse_file(_p(repo, 'source_finder.py'))
    cc = _const(st, 'CC2FHWM', {})
    fc = _const(st, 'FWHM2CC', {'CC2FHWM': 'CC2FHWM'})
    fs_test, fs_pa = _fix_shape(st)
    (lo_test, lo_step), (hi_test, hi_step) = _pa_limit(st)
    r = _result_to_components(st)
    b = _parinfo(st)
    ae = _axis_errors(parse_file(_p(repo, 'fitting.py')))
    if ae['cc'] is not None and ae['cc'] != cc:
        raise TranslateError("fitting.CC2FHWM differs from source_finder.CC2FHWM")
    return HEADER_R + f"""From Aegean Require Import Gen.Sphere.

(* source_finder.CC2FHWM / FWHM2CC *)
Definition CC2FHWM : R := {cc}.
Definition FWHM2CC : R := {fc}.

(* WCSHelper.sky2pix_ellipse; S = self.sky2pix : (ra, dec) -> (x, y).  Returns (x, y, sx, sy, theta) *)
Definition sky2pix_ellipse (S : R * R -> R * R) (ra dec a b pa : R) : R * R * R * R * R :=
{s2p}.

(* WCSHelper.pix2sky_ellipse; P = self.pix2sky : (x, y) -> (ra, dec).  Returns (ra, dec, major, minor, pa) *)
Definition pix2sky_ellipse (P : R * R -> R * R) (x y sx sy theta : R) : R * R * R * R * R :=
{p2s}.

(* WCSHelper.get_beamarea_pix (a, b = the pixel beam returned by get_psf_sky2pix) *)
Definition beamarea_pix (a b : R) : R := {area}.

(* source_finder.fix_shape: when the test holds a and b (and their errors) are swapped and pa becomes fix_shape_pa *)
Definition fix_shape_test (a b : R) : bool := {fs_test}.
Definition fix_shape_pa (pa : R) : R := {fs_pa}.
(* source_finder.pa_limit: `while <lo_test>: pa = <lo_step>` then `while <hi_test>: pa = <hi_step>` *)
Definition pa_lo_test (pa : R) : bool := {lo_test}.
Definition pa_lo_step (pa : R) : R := {lo_step}.
Definition pa_hi_test (pa : R) : bool := {hi_test}.
Definition pa_hi_step (pa : R) : R := {hi_step}.

(* SourceFinder.result_to_components, per component; statement order
   x_pix, y_pix, peak_flux, pix2sky_ellipse, a *= , b *= , fix_shape, pa_limit, RA wrap, int_flux, /= beam area
   was checked by the translator *)
Definition rtc_x_pix (xo xmin : R) : R := {r['x_pix']}.
Definition rtc_y_pix (yo ymin : R) : R := {r['y_pix']}.
Definition rtc_peak (amp : R) : R := {r['peak']}.
Definition rtc_ellipse_args (x_pix y_pix sx sy theta : R) : R * R * R * R * R :=
  ({', '.join(r['e_args'])}).
Definition rtc_a_factor : R := {r['fac']['a']}.
Definition rtc_b_factor : R := {r['fac']['b']}.
Definition rtc_ra_wrap_test (ra : R) : bool := {r['wrap_test']}.
Definition rtc_ra_wrapped (ra : R) : R := {r['wrap_val']}.
Definition rtc_int_flux (peak sx sy : R) : R := {r['flux']}.

(* SourceFinder.estimate_lmfit_parinfo: bounds of the amplitude (amp = value of the peak pixel, rms = noise there,
   ic / oc = inner / outer clip), used when amp_is_positive / otherwise *)
Definition amp_is_positive (amp : R) : bool := {b['amp_test']}.
Definition amp_min_pos (amp rms ic oc : R) : R := {b['pmin']}.
Definition amp_max_pos (amp rms ic oc : R) : R := {b['pmax']}.
Definition amp_min_neg (amp rms ic oc : R) : R := {b['nmin']}.
Definition amp_max_neg (amp rms ic oc : R) : R := {b['nmax']}.
(* position and shape: (xo, yo) = the peak pixel, (ba, bb) = pixel beam FWHM, (xsize, ysize) = island shape *)
Definition xo_bounds (xo yo ba bb xsize ysize : R) : R * R :=
{b['xo']}.
Definition yo_bounds (xo yo ba bb xsize ysize : R) : R * R :=
{b['yo']}.
Definition shape_init (xo yo ba bb xsize ysize : R) : R * R :=
{b['init']}.
Definition sx_bounds (xo yo ba bb xsize ysize : R) : R * R :=
{b['sx']}.
Definition sy_bounds (xo yo ba bb xsize ysize : R) : R * R :=
{b['sy']}.

(* fitting.errors: err_a = gcd(P ref, P offset) * factor for these two pixels (err_sx = standard error of sx), likewise err_b *)
Definition err_a_ref (xo yo sx sy theta : R) : R * R := {ae['a_ref']}.
Definition err_a_off (xo yo sx sy err_sx theta : R) : R * R := {ae['a_off']}.
Definition err_a_factor : R := {ae['a_fac']}.
Definition err_b_ref (xo yo sx sy theta : R) : R * R := {ae['b_ref']}.
Definition err_b_off (xo yo sx sy err_sy theta : R) : R * R := {ae['b_off']}.
Definition err_b_factor : R := {ae['b_fac']}.
(* are err_a and err_b exchanged when sx < sy (result_to_components has then already made a the larger axis in fix_shape)? *)
Definition err_axes_follow_shape : bool := {ae['swap']}.
"""
