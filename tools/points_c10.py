"""C10 extraction points: MIMAS.mask_plane / mask_file / mask_table / mask_catalog and the NaN rule of
Region.sky_within -> coq/Gen/Mask.v.  Everything that is not arithmetic is an enumerated constant recognised
from the AST shape; any other shape is refused (TranslateError)."""
import ast

from trcore import HEADER_Z, Tr, TranslateError, find_func, parse_file, point, src, strip_doc
from translate_points import _p


def _axis(node, what):
    """data.shape[k] -> k"""
    s = src(node)
    if s == 'data.shape[0]':
        return 0
    if s == 'data.shape[1]':
        return 1
    raise TranslateError(f"mask_plane: {what} is {s}, expected data.shape[0|1]")


def _negate_rule(st, var_in, var_out, fname):
    """recognise   if not negate: OUT = np.bitwise_not(IN) [else: OUT = IN]   (-> true)
       or          if negate:     OUT = np.bitwise_not(IN) [else: OUT = IN]   (-> false)
    returns 'true' when the membership answer is inverted exactly when negate is False"""
    if not isinstance(st, ast.If):
        raise TranslateError(f"{fname}: expected the `if [not] negate:` statement, found {src(st)[:60]}")
    t = src(st.test)
    if t == 'not negate':
        inv_unless = True
    elif t == 'negate':
        inv_unless = False
    else:
        raise TranslateError(f"{fname}: negate test is `{t}`")
    if len(st.body) != 1 or not isinstance(st.body[0], ast.Assign) or src(st.body[0].targets[0]) != var_out:
        raise TranslateError(f"{fname}: body of the negate test")
    v = src(st.body[0].value)
    inv = (f'np.bitwise_not({var_in})', f'np.logical_not({var_in})', f'~{var_in}')
    if v in inv:
        body_inverts = True
    elif v == var_in:
        body_inverts = False
    else:
        raise TranslateError(f"{fname}: negate branch assigns {v}")
    if st.orelse:
        if len(st.orelse) != 1 or not isinstance(st.orelse[0], ast.Assign) or src(st.orelse[0].targets[0]) != var_out:
            raise TranslateError(f"{fname}: else branch of the negate test")
        e = src(st.orelse[0].value)
        if e in inv:
            else_inverts = True
        elif e == var_in:
            else_inverts = False
        else:
            raise TranslateError(f"{fname}: else branch assigns {e}")
    else:
        if var_in != var_out:
            raise TranslateError(f"{fname}: {var_out} is not defined when the negate test fails")
        else_inverts = False
    if body_inverts == else_inverts:
        raise TranslateError(f"{fname}: negate has no effect")
    # inverted in the tested branch: test `not negate` -> inverted unless negate
    return 'true' if (inv_unless == body_inverts) else 'false'


@point('Mask')
def gen_mask(repo):
    tree = parse_file(_p(repo, 'MIMAS.py'))
    # ---------------------------------------------------------------- mask_plane
    fn = find_func(tree, 'mask_plane')
    if [a.arg for a in fn.args.args] != ['data', 'wcs', 'region', 'negate']:
        raise TranslateError("mask_plane: signature")
    body = strip_doc(fn.body)
    if len(body) != 10:
        raise TranslateError(f"mask_plane: expected 10 statements, found {len(body)}")
    s_idxs, s_idx, s_j, s_for, s_w, s_in, s_neg, s_resh, s_set = body[:9]
    s_ret = body[9:]
    trz = Tr('Z', {'data.shape[0]': 's0', 'data.shape[1]': 's1'})
    # indexes = np.empty((<n>, 2), dtype=int)
    if not (isinstance(s_idxs, ast.Assign) and src(s_idxs.targets[0]) == 'indexes' and isinstance(s_idxs.value, ast.Call)
            and src(s_idxs.value.func) == 'np.empty' and len(s_idxs.value.args) == 1
            and isinstance(s_idxs.value.args[0], ast.Tuple) and len(s_idxs.value.args[0].elts) == 2
            and src(s_idxs.value.args[0].elts[1]) == '2'
            and [(k.arg, src(k.value)) for k in s_idxs.value.keywords] == [('dtype', 'int')]):
        raise TranslateError(f"mask_plane: indexes = {src(s_idxs)[:80]}")
    n_indexes = trz.expr(s_idxs.value.args[0].elts[0])
    # idx = np.array([(<e0>, <e1>) for j in range(data.shape[k])])
    if not (isinstance(s_idx, ast.Assign) and src(s_idx.targets[0]) == 'idx' and isinstance(s_idx.value, ast.Call)
            and src(s_idx.value.func) == 'np.array' and len(s_idx.value.args) == 1 and not s_idx.value.keywords
            and isinstance(s_idx.value.args[0], ast.ListComp)):
        raise TranslateError(f"mask_plane: idx = {src(s_idx)[:80]}")
    lc = s_idx.value.args[0]
    if not (len(lc.generators) == 1 and not lc.generators[0].ifs and isinstance(lc.generators[0].target, ast.Name)
            and isinstance(lc.generators[0].iter, ast.Call) and src(lc.generators[0].iter.func) == 'range'
            and len(lc.generators[0].iter.args) == 1 and isinstance(lc.elt, ast.Tuple) and len(lc.elt.elts) == 2):
        raise TranslateError(f"mask_plane: index comprehension {src(lc)}")
    cvar = lc.generators[0].target.id
    idx_axis = _axis(lc.generators[0].iter.args[0], 'range of the index comprehension')
    trj = Tr('Z', {cvar: 'j'})
    e0, e1 = trj.expr(lc.elt.elts[0]), trj.expr(lc.elt.elts[1])
    # j = data.shape[k]
    if not (isinstance(s_j, ast.Assign) and isinstance(s_j.targets[0], ast.Name)):
        raise TranslateError("mask_plane: stride assignment")
    svar = s_j.targets[0].id
    stride_axis = _axis(s_j.value, 'block stride')
    # for i in range(data.shape[k]): idx[:, <slot>] = i ; indexes[<lo>:<hi>] = idx
    if not (isinstance(s_for, ast.For) and isinstance(s_for.target, ast.Name) and not s_for.orelse
            and isinstance(s_for.iter, ast.Call) and src(s_for.iter.func) == 'range' and len(s_for.iter.args) == 1
            and len(s_for.body) == 2):
        raise TranslateError("mask_plane: index loop")
    ivar = s_for.target.id
    if ivar == svar:
        raise TranslateError("mask_plane: loop variable shadows the stride")
    loop_axis = _axis(s_for.iter.args[0], 'range of the index loop')
    a1, a2 = s_for.body
    if not (isinstance(a1, ast.Assign) and isinstance(a1.targets[0], ast.Subscript) and src(a1.targets[0].value) == 'idx'
            and isinstance(a1.targets[0].slice, ast.Tuple) and len(a1.targets[0].slice.elts) == 2
            and src(a1.targets[0].slice.elts[0]) == ':' and isinstance(a1.targets[0].slice.elts[1], ast.Constant)
            and a1.targets[0].slice.elts[1].value in (0, 1) and not isinstance(a1.targets[0].slice.elts[1].value, bool)
            and src(a1.value) == ivar):
        raise TranslateError(f"mask_plane: row counter assignment {src(a1)}")
    row_slot = a1.targets[0].slice.elts[1].value
    if not (isinstance(a2, ast.Assign) and isinstance(a2.targets[0], ast.Subscript) and src(a2.targets[0].value) == 'indexes'
            and isinstance(a2.targets[0].slice, ast.Slice) and a2.targets[0].slice.step is None
            and a2.targets[0].slice.lower is not None and a2.targets[0].slice.upper is not None
            and src(a2.value) == 'idx'):
        raise TranslateError(f"mask_plane: block assignment {src(a2)}")
    trb = Tr('Z', {ivar: 'i', svar: 'n'})
    lo, hi = trb.expr(a2.targets[0].slice.lower), trb.expr(a2.targets[0].slice.upper)
    # ra, dec = wcs.wcs_pix2world(indexes, <origin>).transpose()
    if not (isinstance(s_w, ast.Assign) and src(s_w.targets[0]) == '(ra, dec)' and isinstance(s_w.value, ast.Call)
            and src(s_w.value.func).startswith('wcs.wcs_pix2world(indexes, ') and src(s_w.value.func).endswith(').transpose')
            and not s_w.value.args and not s_w.value.keywords):
        raise TranslateError(f"mask_plane: pix2world call {src(s_w)}")
    w = s_w.value.func.value
    if len(w.args) != 2 or w.keywords:
        raise TranslateError("mask_plane: pix2world arguments")
    origin = Tr('Z').expr(w.args[1])
    if origin not in ('0', '1'):
        raise TranslateError(f"mask_plane: origin {origin}")
    if src(s_in) != 'bigmask = region.sky_within(ra, dec, degin=True)':
        raise TranslateError(f"mask_plane: membership call {src(s_in)}")
    plane_inv = _negate_rule(s_neg, 'bigmask', 'bigmask', 'mask_plane')
    if src(s_resh) != 'bigmask = bigmask.reshape(data.shape)':
        raise TranslateError(f"mask_plane: reshape {src(s_resh)}")
    if src(s_set) != 'data[bigmask] = np.nan':
        raise TranslateError(f"mask_plane: blanking statement {src(s_set)}")
    if len(s_ret) != 1 or src(s_ret[0]) != 'return data':
        raise TranslateError("mask_plane: return")
    # ---------------------------------------------------------------- mask_file
    ff = find_func(tree, 'mask_file')
    fb = strip_doc(ff.body)
    ifs = [s for s in fb if isinstance(s, ast.If)]
    # the squeeze and the plane loop are the last two `if`s
    if len(ifs) < 2:
        raise TranslateError("mask_file: squeeze / plane `if`s")
    sq, pl = ifs[-2], ifs[-1]
    # which axes np.squeeze removes: every axis of length 1 (-> true) or only the leading ones, never the two image
    # axes (-> false)
    def _norm(text):
        return [src(x) for x in ast.parse(text).body]
    sq_body = [src(x) for x in sq.body]
    if sq_body == _norm('data = np.squeeze(im[0].data)'):
        squeeze_image_axes = 'true'
    elif sq_body == _norm('lead = tuple(i for i, n in enumerate(im[0].data.shape[:-2]) if n == 1)\n'
                          'data = np.squeeze(im[0].data, axis=lead)'):
        squeeze_image_axes = 'false'
    else:
        raise TranslateError(f"mask_file: squeeze rule {sq_body}")
    if not (src(sq.test) == 'len(im[0].data.shape) > 2' and len(sq.orelse) == 1 and src(sq.orelse[0]) == 'data = im[0].data'):
        raise TranslateError(f"mask_file: squeeze rule {src(sq)[:120]}")
    if not (src(pl.test) == 'len(data.shape) == 3' and len(pl.body) == 1 and isinstance(pl.body[0], ast.For)
            and src(pl.body[0].iter) == 'range(data.shape[0])' and isinstance(pl.body[0].target, ast.Name)
            and len(pl.body[0].body) == 1
            and src(pl.body[0].body[0]) == f'mask_plane(data[{pl.body[0].target.id}], wcs, region, negate)'
            and len(pl.orelse) == 1 and src(pl.orelse[0]) == 'mask_plane(data, wcs, region, negate)'):
        raise TranslateError(f"mask_file: plane loop {src(pl)[:160]}")
    wl = [n for n in ast.walk(ff) if isinstance(n, ast.Call) and src(n.func) == 'pywcs.WCS']
    if not wl or any(len(n.args) != 1 or [(k.arg, src(k.value)) for k in n.keywords] != [('naxis', '2')] for n in wl):
        raise TranslateError("mask_file: WCS(header, naxis=2)")
    tail = [src(s) for s in fb[fb.index(pl) + 1:]]
    if tail[:2] != ['im[0].data = data', 'im.writeto(outfile, overwrite=True)']:
        raise TranslateError(f"mask_file: output statements {tail[:2]}")
    if 'region = Region.load(regionfile)' not in [src(s) for s in fb] or 'im = pyfits.open(infile)' not in [src(s) for s in fb]:
        raise TranslateError("mask_file: inputs")
    # ---------------------------------------------------------------- mask_table / mask_catalog
    ft = find_func(tree, 'mask_table')
    if [a.arg for a in ft.args.args] != ['region', 'table', 'negate', 'racol', 'deccol'] or \
            [src(d) for d in ft.args.defaults] != ['False', "'ra'", "'dec'"]:
        raise TranslateError("mask_table: signature")
    tb = strip_doc(ft.body)
    if len(tb) != 3 or src(tb[0]) != 'inside = region.sky_within(table[racol], table[deccol], degin=True)':
        raise TranslateError("mask_table: membership call")
    table_inv = _negate_rule(tb[1], 'inside', 'mask', 'mask_table')
    if src(tb[2]) != 'return table[mask]':
        raise TranslateError(f"mask_table: {src(tb[2])}")
    fc = find_func(tree, 'mask_catalog')
    if [a.arg for a in fc.args.args] != ['regionfile', 'infile', 'outfile', 'negate', 'racol', 'deccol']:
        raise TranslateError("mask_catalog: signature")
    cb = [src(s) for s in strip_doc(fc.body) if not (isinstance(s, ast.Expr) and src(s).startswith('logging.'))]
    if cb != ['region = Region.load(regionfile)', 'table = load_table(infile)',
              'masked_table = mask_table(region, table, negate=negate, racol=racol, deccol=deccol)',
              'write_table(masked_table, outfile)', 'return']:
        raise TranslateError(f"mask_catalog: body {cb}")
    # ---------------------------------------------------------------- NaN rule of Region.sky_within
    rt = parse_file(_p(repo, 'regions.py'))
    sw = find_func(rt, 'sky_within', cls='Region')
    sb = [src(s) for s in strip_doc(sw.body)]
    need = ['sky = self.radec2sky(ra, dec)',
            'theta_phi = self.sky2ang(sky)',
            'mask = np.bitwise_not(np.logical_and.reduce(np.isfinite(theta_phi), axis=1))',
            'theta_phi[mask, :] = 0',
            'theta, phi = theta_phi.transpose()',
            'pix = hp.ang2pix(2 ** self.maxdepth, theta, phi, nest=True)',
            'pixelset = self.get_demoted()',
            'result = np.isin(pix, list(pixelset))',
            'result[mask] = False',
            'return result']
    pos = -1
    for line in need:
        if line not in sb:
            raise TranslateError(f"sky_within: statement `{line}` not found")
        k = sb.index(line)
        if k <= pos:
            raise TranslateError(f"sky_within: statement `{line}` out of order")
        pos = k
    if sb[-3:] != need[-3:]:
        raise TranslateError("sky_within: the NaN mask is not applied last")
    return HEADER_Z + f"""
(* MIMAS.mask_plane: construction of the pixel index array handed to wcs_pix2world.
   s0, s1 = data.shape (rows, columns) *)
Definition n_indexes (s0 s1 : Z) : Z := {n_indexes}.
(* idx = [(.., ..) for j in range(data.shape[idx_axis])] : the pair built for counter j *)
Definition idx_axis : Z := {idx_axis}.
Definition idx_init (j : Z) : Z * Z := ({e0}, {e1}).
(* for i in range(data.shape[loop_axis]): idx[:, row_slot] = i; indexes[block_lo:block_hi] = idx
   with n = data.shape[stride_axis] *)
Definition loop_axis : Z := {loop_axis}.
Definition stride_axis : Z := {stride_axis}.
Definition row_slot : Z := {row_slot}.
Definition block_lo (i n : Z) : Z := {lo}.
Definition block_hi (i n : Z) : Z := {hi}.
(* origin argument of wcs.wcs_pix2world(indexes, origin) *)
Definition pix_origin : Z := {origin}.
(* true: the membership answer is inverted exactly when negate is False (`if not negate: m = ~m`),
   then data[m] = nan *)
Definition plane_invert_unless_negate : bool := {plane_inv}.
(* mask_table: rows kept are table[mask]; true: mask = ~inside exactly when negate is False *)
Definition table_invert_unless_negate : bool := {table_inv}.
(* mask_file (matched textually by the translator): np.squeeze when the raw data has more than 2 axes; a loop
   of mask_plane over axis 0 when the squeezed data has 3 axes, otherwise one mask_plane call on the whole array.
   true: np.squeeze removes EVERY axis of length 1, also an image axis; false: only the leading axes
   (axis = the positions of length 1 in shape[:-2]), the last two (image) axes are always kept *)
Definition squeeze_image_axes : bool := {squeeze_image_axes}.
(* Region.sky_within: positions with a non-finite coordinate are answered False (result[mask] = False last) *)
Definition nan_is_outside : bool := true.
"""
