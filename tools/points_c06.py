"""C06 extraction points: BANE.sigmaclip (comparison structure, thresholds, repetitions) and the geometry of
BANE.sigma_filter (box closure, slices, grids of rows/cols, pixel grid, subtracted rows, mask rows, output rows) and the
stripe layout of filter_mc_sharemem.  Everything that is not arithmetic is an enumerated constant recognised from the exact
AST shape; any other shape raises TranslateError (fail closed)."""
import ast

from trcore import HEADER_Z, Tr, TranslateError, find_func, one_assign, parse_file, point, src, strip_doc
from translate_points import _p


def _need(cond, msg):
    if not cond:
        raise TranslateError(msg)


def _calls(fn, fname):
    return [n for n in ast.walk(fn) if isinstance(n, ast.Call) and src(n.func) == fname]


def _sigmaclip(tree):
    fn = find_func(tree, 'sigmaclip')
    args = [a.arg for a in fn.args.args]
    _need(args == ['arr', 'lo', 'hi', 'reps'] and len(fn.args.defaults) == 1
          and isinstance(fn.args.defaults[0], ast.Constant) and isinstance(fn.args.defaults[0].value, int),
          'sigmaclip: signature is not (arr, lo, hi, reps=<int>)')
    reps = fn.args.defaults[0].value
    body = strip_doc(fn.body)
    want_head = ['clipped = np.array(arr)[np.isfinite(arr)]',
                 'if len(clipped) < 1:\n    return (np.nan, np.nan)',
                 'std = np.std(clipped)', 'mean = np.mean(clipped)', 'prev_valid = len(clipped)']
    got = [src(s) for s in body[:5]]
    _need(got == want_head, f'sigmaclip: prologue is {got}')
    _need(len(body) == 7 and isinstance(body[5], ast.For) and src(body[6]) == 'return (mean, std)',
          'sigmaclip: expected prologue, one for loop, return (mean, std)')
    loop = body[5]
    _need(src(loop.iter) == 'range(int(reps))', f'sigmaclip: loop over {src(loop.iter)}')
    lb = loop.body
    _need(len(lb) == 8, f'sigmaclip: loop body has {len(lb)} statements')
    m = lb[0]
    _need(isinstance(m, ast.Assign) and src(m.targets[0]) == 'mask' and isinstance(m.value, ast.BinOp)
          and isinstance(m.value.op, ast.BitAnd), 'sigmaclip: mask = (..) & (..)')
    lo_c, hi_c = m.value.left, m.value.right

    def side(c, thr):
        _need(isinstance(c, ast.Compare) and len(c.ops) == 1 and src(c.left) == 'clipped'
              and src(c.comparators[0]) == thr, f'sigmaclip: comparison {src(c)} is not clipped <op> {thr}')
        return type(c.ops[0])
    lo_op = side(lo_c, 'mean - std * lo')
    hi_op = side(hi_c, 'mean + std * hi')
    _need(lo_op in (ast.Gt, ast.GtE), f'sigmaclip: lower comparison {lo_op.__name__}')
    _need(hi_op in (ast.Lt, ast.LtE), f'sigmaclip: upper comparison {hi_op.__name__}')
    rest = [src(s) for s in lb[1:]]
    want = ['clipped = clipped[mask]', 'curr_valid = len(clipped)', 'if curr_valid < 1:\n    break',
            'if prev_valid == curr_valid:\n    break', 'std = np.std(clipped)', 'mean = np.mean(clipped)',
            'prev_valid = curr_valid']
    _need(rest == want, f'sigmaclip: loop body is {rest}')
    for s in loop.orelse:   # only logging
        _need(isinstance(s, ast.Expr) and src(s).startswith('logging.'), 'sigmaclip: for-else does more than logging')
    return reps, lo_op is ast.Gt, hi_op is ast.Lt


@point('BaneFilter')
def gen_banefilter(repo):
    tree = parse_file(_p(repo, 'BANE.py'))
    reps, lo_strict, hi_strict = _sigmaclip(tree)
    sf = find_func(tree, 'sigma_filter')
    # ---- the two calls of sigmaclip in sigma_filter and what is kept of the result
    calls = _calls(sf, 'sigmaclip')
    _need(len(calls) == 2, f'sigma_filter: {len(calls)} calls of sigmaclip')
    los, his = set(), set()
    for c in calls:
        _need(len(c.args) == 3 and not c.keywords and src(c.args[0]) == 'new'
              and all(isinstance(a, ast.Constant) and isinstance(a.value, int) for a in c.args[1:]),
              f'sigma_filter: sigmaclip call {src(c)}')
        los.add(c.args[1].value)
        his.add(c.args[2].value)
    _need(len(los) == 1 and len(his) == 1, 'sigma_filter: the two sigmaclip calls use different levels')
    loops = [n for n in sf.body if isinstance(n, ast.For)]
    _need(len(loops) == 2, 'sigma_filter: expected two grid loops')
    want_loop = ['r_min, r_max, c_min, c_max = box(row, col)', 'new = data[r_min:r_max, c_min:c_max]', 'new = np.ravel(new)']
    kept = []
    for lp, (tgt, var) in zip(loops, (('bkg, _', 'bkg'), ('_, rms', 'rms'))):
        _need(src(lp.target) == '(i, row)' and src(lp.iter) == 'enumerate(rows)' and len(lp.body) == 1
              and isinstance(lp.body[0], ast.For), 'sigma_filter: outer grid loop')
        inner = lp.body[0]
        _need(src(inner.target) == '(j, col)' and src(inner.iter) == 'enumerate(cols)', 'sigma_filter: inner grid loop')
        b = [src(s) for s in inner.body]
        _need(b[:3] == want_loop and len(b) == 5, f'sigma_filter: grid loop body {b}')
        _need(b[3].startswith(f'{tgt} = sigmaclip(') and b[4] == f'vals[i, j] = {var}', f'sigma_filter: grid loop keeps {b[3:]}')
        kept.append(var)
    # ---- box closure
    box = [n for n in sf.body if isinstance(n, ast.FunctionDef) and n.name == 'box']
    _need(len(box) == 1 and [a.arg for a in box[0].args.args] == ['r', 'c'], 'sigma_filter: box(r, c) closure')
    bb = strip_doc(box[0].body)
    _need(len(bb) == 5 and src(bb[4]) == 'return (r_min, r_max, c_min, c_max)', 'box: body shape')
    trb = Tr('Z', {'r': 'r', 'c': 'c', 'box_size[0]': 'b', 'box_size[1]': 'b', 'data.shape[0]': 'n', 'data.shape[1]': 'n'})
    leaves = {}
    for st, (nm, bs, sh) in zip(bb[:4], (('r_min', 'box_size[0]', None), ('r_max', 'box_size[0]', 'data.shape[0]'),
                                         ('c_min', 'box_size[1]', None), ('c_max', 'box_size[1]', 'data.shape[1]'))):
        _need(isinstance(st, ast.Assign) and src(st.targets[0]) == nm, f'box: expected assignment to {nm}')
        text = src(st.value)
        other = 'box_size[1]' if bs == 'box_size[0]' else 'box_size[0]'
        _need(other not in text, f'box: {nm} uses {other}')
        oshape = 'data.shape[1]' if nm[0] == 'r' else 'data.shape[0]'
        _need(oshape not in text, f'box: {nm} uses {oshape}')
        var = 'r' if nm[0] == 'r' else 'c'
        ovar = 'c' if var == 'r' else 'r'
        _need(ovar not in [n.id for n in ast.walk(st.value) if isinstance(n, ast.Name)], f'box: {nm} uses {ovar}')
        leaves[nm] = trb.expr(st.value)
    # ---- rows read by a stripe
    env = {'ymin': 'ymin', 'ymax': 'ymax', 'data_row_min': 'drm', 'data_row_max': 'drx', 'shape[1]': 'ncols',
           'shape[0]': 'nrows', 'step_size[0]': 'sr', 'step_size[1]': 'sc', 'data.shape[0]': 'dh'}
    tr = Tr('Z', env)
    # data cut: section[data_row_min:data_row_max, 0:shape[1]] in every NAXIS branch
    secs = [n for n in ast.walk(sf) if isinstance(n, ast.Subscript) and src(n.value) == 'a[0].section']
    _need(len(secs) == 3, f'sigma_filter: {len(secs)} reads of a[0].section')
    def _sl(s):
        x = src(s.slice)
        return x[1:-1] if x.startswith('(') and x.endswith(')') else x
    sec_txt = sorted(_sl(s) for s in secs)
    _need(sec_txt == sorted(['data_row_min:data_row_max, 0:shape[1]', 'cube_index, data_row_min:data_row_max, 0:shape[1]',
                             '0, cube_index, data_row_min:data_row_max, 0:shape[1]']), f'sigma_filter: section reads {sec_txt}')
    # ---- grids
    rows_a = one_assign(sf, 'rows').value
    cols_a = one_assign(sf, 'cols').value

    def rng(a, what):
        _need(isinstance(a, ast.Call) and src(a.func) == 'list' and len(a.args) == 1 and isinstance(a.args[0], ast.Call)
              and src(a.args[0].func) == 'range' and len(a.args[0].args) == 3, f'sigma_filter: {what} is not list(range(a, b, s))')
        return a.args[0].args
    r3, c3 = rng(rows_a, 'rows'), rng(cols_a, 'cols')
    apps = {}
    for n in sf.body:
        if isinstance(n, ast.Expr) and isinstance(n.value, ast.Call) and src(n.value.func) in ('rows.append', 'cols.append'):
            k = src(n.value.func)[:4]
            _need(k not in apps and len(n.value.args) == 1, f'sigma_filter: several {k}.append')
            apps[k] = n.value.args[0]
    _need(set(apps) == {'rows', 'cols'}, 'sigma_filter: rows.append / cols.append')
    # the model's closed form of the node lists needs: appended node == stop of the range
    _need(src(apps['rows']) == src(r3[1]), f'sigma_filter: rows.append({src(apps["rows"])}) differs from the range stop {src(r3[1])}')
    _need(src(apps['cols']) == src(c3[1]), f'sigma_filter: cols.append({src(apps["cols"])}) differs from the range stop {src(c3[1])}')
    # order of mutation: no other statement touches rows/cols
    for n in ast.walk(sf):
        if isinstance(n, ast.Call) and src(n.func).split('.')[0] in ('rows', 'cols') and src(n.func) not in ('rows.append', 'cols.append'):
            raise TranslateError(f'sigma_filter: unexpected {src(n)}')
    # ---- pixel grid and interpolation
    mg = one_assign(sf, '(gr, gc)').value
    _need(isinstance(mg, ast.Subscript) and src(mg.value) == 'np.mgrid' and isinstance(mg.slice, ast.Tuple)
          and len(mg.slice.elts) == 2 and all(isinstance(e, ast.Slice) and e.step is None for e in mg.slice.elts),
          'sigma_filter: gr, gc = np.mgrid[a:b, c:d]')
    pr, pc = mg.slice.elts
    ifs = [n for n in ast.walk(sf) if isinstance(n, ast.Assign) and src(n.targets[0]) == 'ifunc']
    _need(len(ifs) == 2 and all(src(n.value) == 'RegularGridInterpolator((rows, cols), vals)' for n in ifs),
          'sigma_filter: ifunc = RegularGridInterpolator((rows, cols), vals) twice')
    for nm in ('interp_bkg', 'interp_rms'):
        _need(src(one_assign(sf, nm).value) == 'np.array(ifunc((gr, gc)), dtype=np.float64)', f'sigma_filter: {nm}')
    _need(src(one_assign(sf, 'ibkg[ymin:ymax, :]').value) == 'interp_bkg', 'sigma_filter: ibkg[ymin:ymax, :] = interp_bkg')
    _need(src(one_assign(sf, 'irms[ymin:ymax, :]').value) == 'interp_rms', 'sigma_filter: irms[ymin:ymax, :] = interp_rms')
    # ---- background subtraction
    subs = [n for n in sf.body if isinstance(n, ast.AugAssign) and 'ibkg' in src(n.value)]
    _need(len(subs) == 1 and isinstance(subs[0].op, ast.Sub), 'sigma_filter: exactly one `-= ibkg[..]`')
    st = src(subs[0])
    if st == 'data -= ibkg[data_row_min:data_row_max, :]':
        sub_all = True
    elif st == 'data[0 + ymin - data_row_min:data.shape[0] - (data_row_max - ymax), :] -= ibkg[ymin:ymax, :]':
        sub_all = False
    else:
        raise TranslateError(f'sigma_filter: background subtraction is `{st}`')
    # ---- mask
    ifm = [n for n in sf.body if isinstance(n, ast.If) and src(n.test) == 'domask']
    _need(len(ifm) == 1, 'sigma_filter: if domask')
    ms = [n for n in ifm[0].body if isinstance(n, ast.Assign)]
    _need([src(n.targets[0]) for n in ms] == ['mask', 'ibkg[ymin:ymax, :][mask]', 'irms[ymin:ymax, :][mask]']
          and src(ms[1].value) == 'np.nan' and src(ms[2].value) == 'np.nan', 'sigma_filter: mask block')
    mv = ms[0].value
    _need(isinstance(mv, ast.UnaryOp) and isinstance(mv.op, ast.Invert) and isinstance(mv.operand, ast.Call)
          and src(mv.operand.func) == 'np.isfinite' and len(mv.operand.args) == 1
          and isinstance(mv.operand.args[0], ast.Subscript) and src(mv.operand.args[0].value) == 'data',
          'sigma_filter: mask = ~np.isfinite(data[a:b, :])')
    msl = mv.operand.args[0].slice
    _need(isinstance(msl, ast.Tuple) and len(msl.elts) == 2 and isinstance(msl.elts[0], ast.Slice)
          and msl.elts[0].step is None and msl.elts[0].lower is not None and msl.elts[0].upper is not None
          and src(msl.elts[1]) == ':', 'sigma_filter: mask slice')
    mlo, mhi = msl.elts[0].lower, msl.elts[0].upper
    # data is float64 and scaled by BSCALE before use
    _need(any(src(n) == "if 'BSCALE' in header:\n    data *= header['BSCALE']" for n in sf.body), 'sigma_filter: BSCALE scaling')
    _need(any(src(n) == 'data = data.astype(np.float64)' for n in sf.body), 'sigma_filter: float64 cast')
    # ---- layout of the stripes
    fm = find_func(tree, 'filter_mc_sharemem')
    lay = [src(n) for n in ast.walk(fm) if isinstance(n, ast.If) and src(n.test) == 'nslice > 1']
    _need(len(lay) == 1, 'filter_mc_sharemem: if nslice > 1')
    want_lay = ('if nslice > 1:\n    width_y = int(max(img_y / nslice / step_size[1], 1) * step_size[1])\n'
                '    ymins = list(range(0, img_y, width_y))\n    ymaxs = list(range(width_y, img_y, width_y))\n'
                '    ymaxs.append(img_y)\nelse:\n    ymins = [0]\n    ymaxs = [img_y]')
    wsrc = None
    for n in ast.walk(fm):
        if isinstance(n, ast.Assign) and src(n.targets[0]) == 'width_y':
            wsrc = src(n.value)
    _need(wsrc is not None, 'filter_mc_sharemem: width_y')
    _need(lay[0] == want_lay.replace('int(max(img_y / nslice / step_size[1], 1) * step_size[1])', wsrc),
          f'filter_mc_sharemem: layout block is {lay[0]}')
    _need(any(src(n) == 'for region in zip(ymins, ymaxs):\n    args.append((filename, region, step_size, box_size, shape, domask, cube_index))'
              for n in fm.body), 'filter_mc_sharemem: one task per zip(ymins, ymaxs)')
    _need(src(one_assign(fm, '(img_y, img_x)').value) == 'shape', 'filter_mc_sharemem: img_y, img_x = shape')
    casts = [src(n.value) for n in ast.walk(fm) if isinstance(n, ast.Assign) and src(n.targets[0]) in ('bkg', 'rms')]
    _need(sorted(casts) == sorted(['np.ndarray(shape, buffer=ibkg.buf, dtype=np.float64).astype(np.float32)',
                                   'np.ndarray(shape, buffer=irms.buf, dtype=np.float64).astype(np.float32)']),
          f'filter_mc_sharemem: result arrays {casts}')
    fi = find_func(tree, 'filter_image')
    _need(src(one_assign(fi, 'shape').value) == "(header['NAXIS2'], header['NAXIS1'])", 'filter_image: shape')
    b = lambda x: 'true' if x else 'false'  # noqa: E731
    return HEADER_Z + f"""
(* BANE.sigmaclip: levels passed by sigma_filter, default number of rounds, strictness of the two comparisons
   clipped > mean - std*lo  and  clipped < mean + std*hi  (true = strict) *)
Definition clip_lo : Z := {los.pop()}.
Definition clip_hi : Z := {his.pop()}.
Definition clip_reps : Z := {reps}.
Definition clip_lower_strict : bool := {b(lo_strict)}.
Definition clip_upper_strict : bool := {b(hi_strict)}.
(* BANE.sigma_filter.box: the python slice [min:max) taken around the grid node r (resp. c); b = box size along that
   axis, n = number of rows (resp. columns) of the data held by the stripe *)
Definition box_r_min (r b n : Z) : Z := {leaves['r_min']}.
Definition box_r_max (r b n : Z) : Z := {leaves['r_max']}.
Definition box_c_min (c b n : Z) : Z := {leaves['c_min']}.
Definition box_c_max (c b n : Z) : Z := {leaves['c_max']}.
(* grid of rows / columns: list(range(start, stop, step)) + [stop], in the coordinates of the data held by the stripe
   (drm = data_row_min) *)
Definition grid_r_start (ymin ymax drm nrows ncols sr sc : Z) : Z := {tr.expr(r3[0])}.
Definition grid_r_stop (ymin ymax drm nrows ncols sr sc : Z) : Z := {tr.expr(r3[1])}.
Definition grid_r_step (ymin ymax drm nrows ncols sr sc : Z) : Z := {tr.expr(r3[2])}.
Definition grid_c_start (ymin ymax drm nrows ncols sr sc : Z) : Z := {tr.expr(c3[0])}.
Definition grid_c_stop (ymin ymax drm nrows ncols sr sc : Z) : Z := {tr.expr(c3[1])}.
Definition grid_c_step (ymin ymax drm nrows ncols sr sc : Z) : Z := {tr.expr(c3[2])}.
(* pixels at which the stripe evaluates the interpolator: np.mgrid[r0:r1, c0:c1], written to rows ymin:ymax *)
Definition pix_r_lo (ymin ymax drm nrows ncols : Z) : Z := {tr.expr(pr.lower)}.
Definition pix_r_hi (ymin ymax drm nrows ncols : Z) : Z := {tr.expr(pr.upper)}.
Definition pix_c_lo (ymin ymax drm nrows ncols : Z) : Z := {tr.expr(pc.lower)}.
Definition pix_c_hi (ymin ymax drm nrows ncols : Z) : Z := {tr.expr(pc.upper)}.
(* true: the background is subtracted from every row the stripe holds (own rows + halo); false: own rows only *)
Definition subtract_all_rows : bool := {b(sub_all)}.
(* rows of the (background-subtracted) data whose blanks are copied to the maps; dh = rows held by the stripe *)
Definition mask_r_lo (ymin ymax drm drx dh : Z) : Z := {tr.expr(mlo)}.
Definition mask_r_hi (ymin ymax drm drx dh : Z) : Z := {tr.expr(mhi)}.
"""
