"""C18 extraction point: the enumerated shape constants of AegeanTools/catalogs.py and models.py
(catalogue writers / loader) -> coq/Gen/Catalog.v.

Nothing here is arithmetic: every leaf is a constant (string, list of strings, small table, boolean)
recognised from the AST shape.  The matchers fail closed: any other shape raises TranslateError.
"""
import ast

from trcore import HEADER_Z, TranslateError, find_func, parse_file, point, src, strip_doc
from translate_points import _p


# ------------------------------------------------------------------------------------------
def _s(x):
    """Gallina string literal"""
    if not isinstance(x, str):
        raise TranslateError(f"string expected, got {x!r}")
    if any(ord(c) < 32 or ord(c) > 126 for c in x):
        raise TranslateError(f"non printable character in {x!r}")
    return '"' + x.replace('"', '""') + '"'


def _sl(xs):
    return '[' + '; '.join(_s(x) for x in xs) + ']'


def _strlist(node, what):
    if not isinstance(node, (ast.List, ast.Tuple)) or not all(
            isinstance(e, ast.Constant) and isinstance(e.value, str) for e in node.elts):
        raise TranslateError(f"{what}: expected a literal list of strings, found {src(node)[:80]}")
    return [e.value for e in node.elts]


def _const_str(node, what):
    if not (isinstance(node, ast.Constant) and isinstance(node.value, str)):
        raise TranslateError(f"{what}: expected a string literal, found {src(node)[:80]}")
    return node.value


def _need(cond, msg):
    if not cond:
        raise TranslateError(msg)


def _if_chain(st):
    """[(test, body)] of an if/elif chain and the final else body ([] when absent)"""
    out = []
    while True:
        _need(isinstance(st, ast.If), f"if/elif chain expected, found {src(st)[:60]}")
        out.append((st.test, st.body))
        if len(st.orelse) == 1 and isinstance(st.orelse[0], ast.If):
            st = st.orelse[0]
            continue
        return out, st.orelse


def _class(tree, name):
    cs = [n for n in tree.body if isinstance(n, ast.ClassDef) and n.name == name]
    _need(len(cs) == 1, f"class {name} not found exactly once")
    return cs[0]


def _class_attr(cls, attr):
    a = [n for n in cls.body if isinstance(n, ast.Assign) and len(n.targets) == 1 and src(n.targets[0]) == attr]
    _need(len(a) == 1, f"class {cls.name}: expected exactly one class attribute {attr}, found {len(a)}")
    return a[0].value


CLS = {'SimpleSource': 0, 'IslandSource': 1, 'ComponentSource': 2}


# ------------------------------------------------------------------------------------------
def _models(repo):
    tree = parse_file(_p(repo, 'models.py'))
    names, parent = {}, {}
    for cn in CLS:
        c = _class(tree, cn)
        names[cn] = _strlist(_class_attr(c, 'names'), f'{cn}.names')
        _need(len(c.bases) == 1 and isinstance(c.bases[0], ast.Name), f"{cn}: single named base class expected")
        b = c.bases[0].id
        _need(b in CLS or b == 'object', f"{cn}: unexpected base class {b}")
        parent[cn] = b
        # names must not be rebound per instance
        for n in ast.walk(c):
            if isinstance(n, (ast.Assign, ast.AugAssign)):
                for t in (n.targets if isinstance(n, ast.Assign) else [n.target]):
                    _need(src(t) not in ('self.names', 'self.galactic'),
                          f"{cn}: instance attribute {src(t)} shadows the class attribute")
    defaults = {}
    for cn in CLS:
        init = find_func(tree, '__init__', cls=cn)
        _need([a.arg for a in init.args.args] == ['self'] and not init.args.defaults, f"{cn}.__init__ takes arguments")
        ds = []
        stmts = strip_doc(init.body)
        if cn != 'SimpleSource':
            _need(src(stmts[0]) == f'{parent[cn]}.__init__(self)', f"{cn}.__init__ does not start with the base initialiser")
            stmts = stmts[1:]
        for st in stmts:
            _need(isinstance(st, ast.Assign) and len(st.targets) == 1 and isinstance(st.targets[0], ast.Attribute)
                  and src(st.targets[0].value) == 'self', f"{cn}.__init__: {src(st)[:60]}")
            v = src(st.value)
            code = {'np.nan': 0, '0': 1, "''": 2, 'str(uuid.uuid4())': 3, '[]': 4}.get(v)
            _need(code is not None, f"{cn}.__init__: default {v}")
            ds.append((st.targets[0].attr, code))
        defaults[cn] = ds
    gal = _class_attr(_class(tree, 'SimpleSource'), 'galactic')
    _need(src(gal) == 'False', "SimpleSource.galactic default is not False")
    # as_list: [getattr(self, name) for name in self.names] in order
    al = find_func(tree, 'as_list', cls='SimpleSource')
    body = [s for s in strip_doc(al.body)]
    ok = (len(body) == 4 and src(body[0]) == 'self._sanitise()' and src(body[1]) == 'ls = []'
          and isinstance(body[2], ast.For) and src(body[2].iter) == 'self.names' and src(body[2].target) == 'name'
          and len(body[2].body) == 1 and src(body[2].body[0]) == 'ls.append(getattr(self, name))'
          and src(body[3]) == 'return ls')
    _need(ok, "SimpleSource.as_list is not `for name in self.names: ls.append(getattr(self, name))`")
    for cn in ('IslandSource', 'ComponentSource'):
        c = _class(tree, cn)
        _need(not any(isinstance(n, ast.FunctionDef) and n.name == 'as_list' for n in c.body),
              f"{cn} overrides as_list")
    # classify_catalog
    fn = find_func(tree, 'classify_catalog')
    body = strip_doc(fn.body)
    lists = []
    k = 0
    while k < len(body) and isinstance(body[k], ast.Assign) and src(body[k].value) == '[]':
        lists.append(src(body[k].targets[0]))
        k += 1
    _need(len(lists) == 3 and len(set(lists)) == 3, "classify_catalog: three result lists expected")
    _need(len(body) == 5 and isinstance(body[3], ast.For) and src(body[3].iter) == 'catalog'
          and src(body[3].target) == 'source' and len(body[3].body) == 1 and not body[3].orelse,
          "classify_catalog: single loop over the catalog expected")
    chain, els = _if_chain(body[3].body[0])
    _need(not els, "classify_catalog: unexpected else branch")
    tests = []
    for t, b in chain:
        _need(isinstance(t, ast.Call) and src(t.func) == 'isinstance' and len(t.args) == 2
              and src(t.args[0]) == 'source' and isinstance(t.args[1], ast.Name) and t.args[1].id in CLS,
              f"classify_catalog: test {src(t)}")
        _need(len(b) == 1 and isinstance(b[0], ast.Expr) and isinstance(b[0].value, ast.Call)
              and src(b[0].value.args[0]) == 'source' and src(b[0].value.func).endswith('.append')
              and src(b[0].value.func)[:-7] in lists, f"classify_catalog: branch {src(b[0])[:60]}")
        tests.append((CLS[t.args[1].id], lists.index(src(b[0].value.func)[:-7])))
    ret = body[4]
    _need(isinstance(ret, ast.Return) and isinstance(ret.value, ast.Tuple)
          and all(src(e) in lists for e in ret.value.elts) and len(ret.value.elts) == 3,
          "classify_catalog: return of the three lists expected")
    ret_order = [lists.index(src(e)) for e in ret.value.elts]
    return names, parent, tests, ret_order, defaults


# ------------------------------------------------------------------------------------------
def _ext_expr(node, what):
    """recognise os.path.splitext(filename)[k][1:].lower(); returns (k, lower?)"""
    lower = False
    n = node
    if isinstance(n, ast.Call) and isinstance(n.func, ast.Attribute) and n.func.attr == 'lower' and not n.args:
        lower = True
        n = n.func.value
    ok = (isinstance(n, ast.Subscript) and src(n.slice) == '1:' and isinstance(n.value, ast.Subscript)
          and src(n.value.value) == 'os.path.splitext(filename)' and src(n.value.slice) in ('1', '-1'))
    _need(ok, f"{what}: extension expression is {src(node)}")
    return lower


def _in_list(test, var, what):
    _need(isinstance(test, ast.Compare) and len(test.ops) == 1 and isinstance(test.ops[0], ast.In)
          and src(test.left) == var, f"{what}: test {src(test)}")
    return test.comparators[0]


def _save_catalog(tree):
    fn = find_func(tree, 'save_catalog')
    body = strip_doc(fn.body)
    af = [s for s in body if isinstance(s, ast.Assign) and src(s.targets[0]) == 'ascii_table_formats']
    _need(len(af) == 1 and isinstance(af[0].value, ast.Dict), "save_catalog: ascii_table_formats dict")
    ascii_fmts = [(_const_str(k, 'ascii key'), _const_str(v, 'ascii value'))
                  for k, v in zip(af[0].value.keys, af[0].value.values)]
    ex = [s for s in body if isinstance(s, ast.Assign) and src(s.targets[0]) == 'extension']
    _need(len(ex) == 1, "save_catalog: extension assignment")
    lower = _ext_expr(ex[0].value, 'save_catalog')
    ifs = [s for s in body if isinstance(s, ast.If)]
    _need(len(ifs) == 1, "save_catalog: one dispatch chain expected")
    chain, els = _if_chain(ifs[0])
    disp = []
    for t, b in chain:
        c = _in_list(t, 'extension', 'save_catalog')
        _need(len(b) == 1 and isinstance(b[0], ast.Expr) and isinstance(b[0].value, ast.Call),
              f"save_catalog: branch {src(b[0])[:60]}")
        call = src(b[0].value)
        if src(c) == 'ascii_table_formats.keys()':
            exts = [k for k, _ in ascii_fmts]
            _need(call == 'write_catalog(filename, catalog, fmt=ascii_table_formats[extension], meta=meta, prefix=prefix)',
                  f"save_catalog: ascii branch calls {call}")
            tag = 3
        else:
            exts = _strlist(c, 'save_catalog extension list')
            if call == 'writeAnn(filename, catalog, extension)':
                tag = 0
            elif call == 'writeDB(filename, catalog, meta)':
                tag = 1
            elif call == 'write_catalog(filename, catalog, extension, meta, prefix=prefix)':
                tag = 2
            else:
                raise TranslateError(f"save_catalog: branch calls {call}")
        disp.append((exts, tag))
    calls = [s for s in els if isinstance(s, ast.Expr) and isinstance(s.value, ast.Call)
             and src(s.value.func) not in ('log.warning', 'log.info')]
    _need(len(calls) == 1 and src(calls[0].value) == "write_catalog(filename, catalog, fmt='tab', prefix=prefix)",
          "save_catalog: fallback branch is not write_catalog(..., fmt='tab', prefix=prefix)")
    return ascii_fmts, lower, disp


def _write_catalog(tree):
    fn = find_func(tree, 'write_catalog')
    body = strip_doc(fn.body)
    # pre = '' / prefix + '_'
    pif = [s for s in body if isinstance(s, ast.If) and src(s.test) == 'prefix is None']
    _need(len(pif) == 1 and src(pif[0].body[0]) == "pre = ''" and len(pif[0].orelse) == 1
          and isinstance(pif[0].orelse[0], ast.Assign) and src(pif[0].orelse[0].targets[0]) == 'pre'
          and isinstance(pif[0].orelse[0].value, ast.BinOp) and isinstance(pif[0].orelse[0].value.op, ast.Add)
          and src(pif[0].orelse[0].value.left) == 'prefix', "write_catalog: prefix handling")
    sep = _const_str(pif[0].orelse[0].value.right, 'prefix separator')
    w = [s for s in body if isinstance(s, ast.FunctionDef) and s.name == 'writer']
    _need(len(w) == 1, "write_catalog: inner writer")
    wb = strip_doc(w[0].body)
    # optional first statement: promote numpy.float32 attributes in place (no effect on the model: floats are abstract)
    promotes = False
    if wb and isinstance(wb[0], ast.For) and src(wb[0].iter) == 'catalog' and src(wb[0].target) == 'c' \
            and [src(s) for s in wb[0].body] == ['c._sanitise()'] and not wb[0].orelse:
        promotes = True
        wb = wb[1:]
    _need(src(wb[0]) == 'tab_dict = {}' and src(wb[1]) == 'name_list = []' and isinstance(wb[2], ast.For)
          and src(wb[2].iter) == 'catalog[0].names' and src(wb[2].target) == 'name', "writer: column loop")
    lb = wb[2].body
    _need(src(lb[0]) == 'col_name = name' and isinstance(lb[1], ast.If) and src(lb[1].test) == 'catalog[0].galactic'
          and not lb[1].orelse and len(lb[1].body) == 1, "writer: galactic renaming block")
    chain, els = _if_chain(lb[1].body[0])
    _need(not els, "writer: galactic chain has an else")
    rules = []
    for t, b in chain:
        _need(isinstance(t, ast.Call) and isinstance(t.func, ast.Attribute) and src(t.func.value) == 'name'
              and t.func.attr in ('startswith', 'endswith') and len(t.args) == 1, f"writer: galactic test {src(t)}")
        pat = _const_str(t.args[0], 'galactic pattern')
        _need(len(b) == 1 and isinstance(b[0], ast.Assign) and src(b[0].targets[0]) == 'col_name'
              and isinstance(b[0].value, ast.BinOp) and isinstance(b[0].value.op, ast.Add), f"writer: galactic branch {src(b[0])}")
        v = b[0].value
        if t.func.attr == 'startswith':
            rep = _const_str(v.left, 'galactic replacement')
            _need(src(v.right) == f'name[{len(pat)}:]', f"writer: galactic branch {src(v)} does not drop the pattern")
            rules.append((True, pat, rep))
        else:
            rep = _const_str(v.right, 'galactic replacement')
            _need(src(v.left) == f'name[:-{len(pat)}]', f"writer: galactic branch {src(v)} does not drop the pattern")
            rules.append((False, pat, rep))
    _need([src(s) for s in lb[2:]] == ['col_name = pre + col_name',
                                       'tab_dict[col_name] = [getattr(c, name, None) for c in catalog]',
                                       'name_list.append(col_name)'], "writer: column construction")
    _need(src(wb[3]) == 't = Table(tab_dict, meta=meta)' and src(wb[4]) == 't = t[[n for n in name_list]]',
          "writer: table construction / column re-ordering")
    _need(isinstance(wb[5], ast.If) and src(wb[5].test) == 'fmt is not None', "writer: fmt dispatch")
    chain, els = _if_chain(wb[5].body[0])
    inner = []
    for t, b in chain:
        exts = _strlist(_in_list(t, 'fmt', 'writer'), 'writer fmt list')
        calls = ' ; '.join(src(s) for s in b)
        if calls == 'vot = from_table(t) ; vot.description = repr(meta) ; writetoVO(vot, filename)':
            tag = 0
        elif calls == "t.write(filename, path='data', overwrite=True)":
            tag = 1
        elif calls == 'writeFITSTable(filename, t)':
            tag = 2
        else:
            raise TranslateError(f"writer: branch {calls[:80]}")
        inner.append((exts, tag))
    _need(len(els) == 1 and src(els[0]) == 'ascii.write(t, filename, fmt, overwrite=True)', "writer: ascii branch")
    _need(len(wb[5].orelse) == 1 and src(wb[5].orelse[0]) == 'ascii.write(t, filename, overwrite=True)',
          "writer: fmt None branch")
    # classify + three blocks
    cl = [s for s in body if isinstance(s, ast.Assign) and src(s.value) == 'classify_catalog(catalog)']
    _need(len(cl) == 1 and isinstance(cl[0].targets[0], ast.Tuple), "write_catalog: classify_catalog call")
    slots = [src(e) for e in cl[0].targets[0].elts]
    blocks = []
    layout = None
    minlen = None
    after = body[body.index(cl[0]) + 1:]
    for st in after:
        if isinstance(st, ast.Return):
            continue
        _need(isinstance(st, ast.If) and not st.orelse and isinstance(st.test, ast.Compare) and len(st.test.ops) == 1
              and isinstance(st.test.left, ast.Call) and src(st.test.left.func) == 'len'
              and src(st.test.left.args[0]) in slots and isinstance(st.test.comparators[0], ast.Constant),
              f"write_catalog: block {src(st)[:60]}")
        which = src(st.test.left.args[0])
        c = st.test.comparators[0].value
        op = type(st.test.ops[0])
        m = {ast.Gt: c + 1, ast.GtE: c, ast.NotEq: 1 if c == 0 else None}.get(op)
        _need(isinstance(m, int), f"write_catalog: guard {src(st.test)}")
        _need(minlen in (None, m), "write_catalog: blocks use different guards")
        minlen = m
        nn = st.body[0]
        _need(isinstance(nn, ast.Assign) and src(nn.targets[0]) == 'new_name' and isinstance(nn.value, ast.Call)
              and isinstance(nn.value.func, ast.Attribute) and nn.value.func.attr == 'format'
              and len(nn.value.args) == 2 and src(nn.value.args[1]) == '*os.path.splitext(filename)',
              f"write_catalog: name construction {src(nn)[:80]}")
        fmt = _const_str(nn.value.func.value, 'name format')
        import re
        m2 = re.fullmatch(r'\{(\d)\}\{(\d)\}\{(\d)\}', fmt)
        _need(m2 is not None, f"write_catalog: name format {fmt!r}")
        lay = [int(g) for g in m2.groups()]
        _need(sorted(lay) == [0, 1, 2], f"write_catalog: name format {fmt!r}")
        _need(layout in (None, lay), "write_catalog: blocks use different name formats")
        layout = lay
        suffix = _const_str(nn.value.args[0], 'suffix')
        _need(src(st.body[1]) == f'writer(new_name, {which}, fmt)', f"write_catalog: block writes {src(st.body[1])}")
        _need(all(src(s).startswith('log.') for s in st.body[2:]), "write_catalog: extra statements in a block")
        blocks.append((slots.index(which), suffix))
    _need(len(blocks) == 3 and sorted(b[0] for b in blocks) == [0, 1, 2], "write_catalog: one block per source kind")
    return sep, rules, inner, blocks, layout, minlen, promotes


TYPES = {'bool': 0, 'int': 1, 'float': 2, 'str': 3}


def _isinstance_kind(t, var):
    _need(isinstance(t, ast.Call) and src(t.func) == 'isinstance' and src(t.args[0]) == var, f"test {src(t)}")
    a = src(t.args[1])
    m = {'bool': 0, '(int, np.int64, np.int32)': 1, '(float, np.float64, np.float32)': 2, 'str': 3}
    _need(a in m, f"isinstance class set {a}")
    return m[a]


def _fits(tree):
    fn = find_func(tree, 'writeFITSTable')
    body = strip_doc(fn.body)
    ft = [s for s in body if isinstance(s, ast.FunctionDef) and s.name == 'FITSTableType']
    _need(len(ft) == 1, "writeFITSTable: FITSTableType")
    fb = strip_doc(ft[0].body)
    chain, els = _if_chain(fb[0])
    tchain = []
    for t, b in chain:
        k = _isinstance_kind(t, 'val')
        _need(len(b) == 1 and isinstance(b[0], ast.Assign) and src(b[0].targets[0]) == 'types', "FITSTableType branch")
        v = b[0].value
        if isinstance(v, ast.Constant):
            code = {'L': 0, 'J': 1, 'E': 2}.get(v.value)
            _need(code is not None, f"FITSTableType: format {v.value!r}")
        else:
            _need(src(v) == "'{0}A'.format(len(val))", f"FITSTableType: format {src(v)}")
            code = 3
        tchain.append((k, code))
    fall = [s for s in els if isinstance(s, ast.Assign)]
    _need(len(fall) == 1 and isinstance(fall[0].value, ast.Constant) and isinstance(fall[0].value.value, str)
          and fall[0].value.value.endswith('A') and fall[0].value.value[:-1].isdigit(), "FITSTableType: fallback")
    fallback_w = int(fall[0].value.value[:-1])
    _need(src(fb[1]) == 'return types', "FITSTableType: return")
    loops = [s for s in body if isinstance(s, ast.For)]
    _need(len(loops) >= 1 and src(loops[0].iter) == 'table.colnames' and src(loops[0].target) == 'name',
          "writeFITSTable: column loop")
    lb = loops[0].body
    chain, els = _if_chain(lb[0])
    _need(len(chain) == 2, "writeFITSTable: column typing chain (err_ / string / other)")
    t0, b0 = chain[0]
    _need(isinstance(t0, ast.Call) and src(t0.func) == 'name.startswith' and src(b0[0]) == "fmt = 'E'",
          f"writeFITSTable: first rule {src(t0)}")
    errp = _const_str(t0.args[0], 'err prefix')
    t1, b1 = chain[1]
    str_first = False
    if isinstance(t1, ast.BoolOp) and isinstance(t1.op, ast.Or) and len(t1.values) == 2 \
            and src(t1.values[1]) == 'isinstance(table[name][0], str)':
        str_first = True
        t1 = t1.values[0]
    _need(isinstance(t1, ast.Compare) and src(t1.left) == 'name' and isinstance(t1.ops[0], ast.Eq),
          f"writeFITSTable: second rule {src(t1)}")
    uuid = _const_str(t1.comparators[0], 'uuid column name')
    w = src(b1[0])
    import re
    min_w = 0
    m = re.fullmatch(r"fmt = '\{0\}A'\.format\(max\((\d+), (max\(\(len\(val\) for val in table\[name\]\)\))\)\)", w)
    if m:
        min_w = int(m.group(1))
        width_all = True
    elif w == "fmt = '{0}A'.format(max((len(val) for val in table[name])))":
        width_all = True
    elif w == "fmt = '{0}A'.format(len(table[name][0]))":
        width_all = False
    else:
        raise TranslateError(f"writeFITSTable: width rule {w}")
    _need(len(els) == 1 and src(els[0]) == 'fmt = FITSTableType(table[name][0])', "writeFITSTable: default rule")
    _need(src(lb[1]) == 'cols.append(fits.Column(name=name, format=fmt, array=table[name]))',
          "writeFITSTable: column construction")
    return tchain, fallback_w, errp, uuid, str_first, width_all, min_w


def _loader(tree):
    fn = find_func(tree, 'get_table_formats')
    body = strip_doc(fn.body)
    fmts = []
    for st in body:
        if isinstance(st, ast.Assign) and src(st.targets[0]) == 'fmts':
            fmts = _strlist(st.value, 'get_table_formats')
        elif isinstance(st, ast.Expr) and isinstance(st.value, ast.Call) and src(st.value.func) == 'fmts.extend':
            fmts += _strlist(st.value.args[0], 'get_table_formats')
        elif isinstance(st, ast.Return):
            _need(src(st.value) == 'fmts', "get_table_formats: return")
        else:
            raise TranslateError(f"get_table_formats: {src(st)[:60]}")
    fn = find_func(tree, 'load_table')
    body = strip_doc(fn.body)
    ex = [s for s in body if isinstance(s, ast.Assign) and src(s.targets[0]) == 'fmt']
    _need(len(ex) == 1, "load_table: fmt")
    lower = _ext_expr(ex[0].value, 'load_table')
    ifs = [s for s in body if isinstance(s, ast.If)]
    chain, els = _if_chain(ifs[0])
    readers = []
    for t, b in chain:
        _need(isinstance(t, ast.BoolOp) and isinstance(t.op, ast.And) and len(t.values) == 2
              and src(t.values[1]) == 'fmt in supported', f"load_table: test {src(t)}")
        exts = _strlist(_in_list(t.values[0], 'fmt', 'load_table'), 'load_table list')
        call = [src(s) for s in b if isinstance(s, ast.Assign)]
        if call == ['t = ascii.read(filename)']:
            tag = 0
        elif call == ['t = Table.read(filename)']:
            tag = 1
        else:
            raise TranslateError(f"load_table: reader {call}")
        readers.append((exts, tag))
    _need(any(isinstance(s, ast.Raise) for s in els), "load_table: unsupported formats must raise")
    fn = find_func(tree, 'table_to_source_list')
    body = strip_doc(fn.body)
    loops = [s for s in body if isinstance(s, ast.For)]
    _need(len(loops) == 1 and src(loops[0].iter) == 'table' and src(loops[0].target) == 'row', "table_to_source_list: row loop")
    lb = loops[0].body
    _need(src(lb[0]) == 'src = src_type()' and isinstance(lb[1], ast.For) and src(lb[1].iter) == 'src_type.names'
          and src(lb[1].target) == 'param' and src(lb[2]) == 'source_list.append(src)', "table_to_source_list: body")
    inner = lb[1].body
    _need(len(inner) == 1 and isinstance(inner[0], ast.If) and src(inner[0].test) == 'param in table.colnames'
          and not inner[0].orelse, "table_to_source_list: column test")
    ib = inner[0].body
    txt = [src(s) for s in ib]
    _need(txt[0] == 'val = row[param]' and txt[-1] == 'setattr(src, param, val)', "table_to_source_list: copy")
    mid = ib[1:-1]
    skips_masked = False
    # optional first statement: a masked cell (astropy: NaN / empty string) is not copied, the class default stays
    if mid and isinstance(mid[0], ast.If) and src(mid[0].test) == 'val is np.ma.masked':
        _need(len(mid[0].body) == 1 and isinstance(mid[0].body[0], ast.Continue) and not mid[0].orelse,
              "table_to_source_list: the masked-cell rule must be `continue`")
        skips_masked = True
        mid = mid[1:]
    for s in mid:
        _need(isinstance(s, ast.If) and src(s.test) == 'isinstance(val, np.float32)' and not s.orelse
              and [src(x) for x in s.body] == ['val = np.float64(val)'],
              f"table_to_source_list: unexpected value transformation {src(s)[:80]}")
    return fmts, lower, readers, skips_masked


def _db(tree):
    fn = find_func(tree, 'nulls')
    body = strip_doc(fn.body)
    _need(len(body) == 1 and isinstance(body[0], ast.If) and isinstance(body[0].test, ast.Compare)
          and src(body[0].test.left) == 'x' and isinstance(body[0].test.ops[0], ast.Eq)
          and src(body[0].body[0]) == 'return None' and src(body[0].orelse[0]) == 'return x', "nulls shape")
    mk = body[0].test.comparators[0]
    _need(isinstance(mk, ast.UnaryOp) and isinstance(mk.op, ast.USub) and isinstance(mk.operand, ast.Constant)
          and isinstance(mk.operand.value, int) or (isinstance(mk, ast.Constant) and isinstance(mk.value, int)),
          "nulls marker")
    marker = int(ast.literal_eval(mk))
    fn = find_func(tree, 'writeDB')
    loops = [s for s in fn.body if isinstance(s, ast.For)]
    _need(len(loops) >= 1 and src(loops[0].target) == '(t, tn)' and isinstance(loops[0].iter, ast.Call)
          and src(loops[0].iter.func) == 'zip' and src(loops[0].iter.args[0]) == 'classify_catalog(catalog)',
          "writeDB: table loop")
    tnames = _strlist(loops[0].iter.args[1], 'writeDB table names')
    lb = loops[0].body
    g = lb[0]
    _need(isinstance(g, ast.If) and src(g.test) == 'len(t) < 1' and isinstance(g.body[0], ast.Continue), "writeDB: empty guard")
    _need(src(lb[1]) == 'col_names = t[0].names', "writeDB: column names")
    data = [s for s in lb if isinstance(s, ast.Assign) and src(s.targets[0]) == 'data']
    _need(len(data) == 1, "writeDB: data")
    d = src(data[0].value)
    if d == 'list(map(nulls, list((r.as_list() for r in t))))':
        on_rows = True
    elif d in ('list((list(map(nulls, r.as_list())) for r in t))', '[list(map(nulls, r.as_list())) for r in t]',
               '[[nulls(x) for x in r.as_list()] for r in t]'):
        on_rows = False
    else:
        raise TranslateError(f"writeDB: data = {d}")
    ins = [s for s in lb if isinstance(s, ast.Assign) and src(s.targets[0]) == 'stmnt']
    _need(len(ins) == 2 and "'INSERT INTO {0} ({1}) VALUES ({2})'.format(tn, ','.join(col_names)" in src(ins[1].value),
          "writeDB: insert statement")
    _need(any(src(s) == 'db.executemany(stmnt, data)' for s in lb), "writeDB: executemany")
    return marker, tnames, on_rows


def _pairs(xs, f):
    return '[' + '; '.join(f(x) for x in xs) + ']'


@point('Catalog')
def gen_catalog(repo):
    names, parent, tests, ret_order, defaults = _models(repo)
    tree = parse_file(_p(repo, 'catalogs.py'))
    ascii_fmts, lower, disp = _save_catalog(tree)
    sep, rules, inner, blocks, layout, minlen, promotes = _write_catalog(tree)
    tchain, fallback_w, errp, uuid, str_first, width_all, min_w = _fits(tree)
    fmts, lower2, readers, skips_masked = _loader(tree)
    marker, tnames, on_rows = _db(tree)
    par = {cn: (CLS[parent[cn]] if parent[cn] in CLS else -1) for cn in CLS}
    b = lambda x: 'true' if x else 'false'  # noqa: E731
    z = lambda n: f'({n})' if n < 0 else str(n)  # noqa: E731
    return HEADER_Z.replace('Bool List', 'Bool List String') + f"""Import ListNotations.
Open Scope string_scope.

(* ---- models.py.  Class codes: 0 SimpleSource, 1 IslandSource, 2 ComponentSource *)
Definition names_simple : list string := {_sl(names['SimpleSource'])}.
Definition names_island : list string := {_sl(names['IslandSource'])}.
Definition names_component : list string := {_sl(names['ComponentSource'])}.
(* __init__ of each class (after the base class initialiser): attribute, default 0 nan, 1 int 0, 2 '', 3 fresh uuid4 string, 4 [] *)
Definition init_simple : list (string * Z) := {_pairs(defaults['SimpleSource'], lambda t: f'({_s(t[0])}, {t[1]})')}.
Definition init_island : list (string * Z) := {_pairs(defaults['IslandSource'], lambda t: f'({_s(t[0])}, {t[1]})')}.
Definition init_component : list (string * Z) := {_pairs(defaults['ComponentSource'], lambda t: f'({_s(t[0])}, {t[1]})')}.
(* direct base class of each class (code, -1 = object) *)
Definition class_parent : list Z := [{z(par['SimpleSource'])}; {z(par['IslandSource'])}; {z(par['ComponentSource'])}].
(* classify_catalog: the isinstance tests in source order (class tested, result list it appends to)
   and the order in which the result lists are returned *)
Definition classify_tests : list (Z * Z) := {_pairs(tests, lambda t: f'({t[0]}, {t[1]})')}.
Definition classify_return : list Z := {_pairs(ret_order, str)}.

(* ---- catalogs.save_catalog: extension = splitext(filename)[1][1:] (.lower()), dispatch chain in
   source order: (extensions, writer) with writer 0 writeAnn, 1 writeDB, 2 write_catalog(fmt = extension),
   3 write_catalog(fmt = ascii_table_formats[extension]); anything else: write_catalog(fmt = 'tab') *)
Definition ext_lowered : bool := {b(lower)}.
Definition ascii_table_formats : list (string * string) := {_pairs(ascii_fmts, lambda t: f'({_s(t[0])}, {_s(t[1])})')}.
Definition save_dispatch : list (list string * Z) := {_pairs(disp, lambda t: f'({_sl(t[0])}, {t[1]})')}.
Definition save_fallback_fmt : string := "tab".

(* ---- catalogs.write_catalog: column prefix, galactic renaming (starts-with?, pattern, replacement)
   in source order, inner writer per fmt (0 VOTable, 1 hdf5, 2 writeFITSTable, otherwise astropy.io.ascii),
   one block per classify result (slot, suffix), file name layout = positions of (suffix, root, ext)
   in the format string, a block is written when len >= write_min_len *)
Definition prefix_sep : string := {_s(sep)}.
Definition galactic_rules : list (bool * string * string) := {_pairs(rules, lambda t: f'({b(t[0])}, {_s(t[1])}, {_s(t[2])})')}.
Definition writer_dispatch : list (list string * Z) := {_pairs(inner, lambda t: f'({_sl(t[0])}, {t[1]})')}.
Definition write_blocks : list (Z * string) := {_pairs(blocks, lambda t: f'({t[0]}, {_s(t[1])})')}.
Definition name_layout : list Z := {_pairs(layout, str)}.
Definition write_min_len : Z := {minlen}.
(* informative only: the writer promotes numpy.float32 attributes to float64 (SimpleSource._sanitise) before building the table *)
Definition writer_promotes_float32 : bool := {b(promotes)}.

(* ---- catalogs.writeFITSTable: columns starting with fits_err_prefix are 'E'; a column named fits_uuid_name
   (or, when fits_str_first_rule, whose first entry is a string) is 'nA' with n = longest entry
   (fits_width_all_rows; never less than fits_min_width) or the first entry's length; otherwise FITSTableType(first entry):
   chain of (python type 0 bool 1 int 2 float 3 str, format 0 L 1 J 2 E 3 'len(val)A'), fallback 'nA' *)
Definition fits_err_prefix : string := {_s(errp)}.
Definition fits_uuid_name : string := {_s(uuid)}.
Definition fits_str_first_rule : bool := {b(str_first)}.
Definition fits_width_all_rows : bool := {b(width_all)}.
Definition fits_min_width : Z := {min_w}.
Definition fits_type_chain : list (Z * Z) := {_pairs(tchain, lambda t: f'({t[0]}, {t[1]})')}.
Definition fits_fallback_width : Z := {fallback_w}.

(* ---- catalogs.get_table_formats / load_table (reader 0 ascii.read, 1 Table.read; other extensions raise);
   table_to_source_list copies exactly the columns named in src_type.names that are present; when
   loader_skips_masked a masked cell (numpy.ma.masked) is not copied and the attribute keeps its class default *)
Definition table_formats : list string := {_sl(fmts)}.
Definition load_ext_lowered : bool := {b(lower2)}.
Definition load_dispatch : list (list string * Z) := {_pairs(readers, lambda t: f'({_sl(t[0])}, {t[1]})')}.
Definition loader_skips_masked : bool := {b(skips_masked)}.

(* ---- catalogs.writeDB / nulls *)
Definition nulls_marker : Z := {z(marker)}.
Definition db_table_names : list string := {_sl(tnames)}.
Definition db_nulls_on_rows : bool := {b(on_rows)}.
"""
