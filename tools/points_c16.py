"""C16 extraction points (AegeanTools/wcs_helpers.py, class WCSHelper).

WcsHelper : * the leaves of pix2sky / sky2pix: which slot of the pixel pair goes to which slot of the
              wcslib call (`[[y, x]]`), the `origin` argument (enumerated: 0 or 1), which slot of the
              returned pixel goes where (`[pixel[0][1], pixel[0][0]]`), `ra_dec_order` (must be the
              attribute that __init__ sets to False);
            * sky2pix_vec / pix2sky_vec / sky2pix_ellipse / pix2sky_ellipse as WHOLE straight-line
              functions over R, with `self.pix2sky` / `self.sky2pix` as function parameters and
              translate / gcd / bear (imported from .angle_tools) mapped to Gen/Sphere.v.
Pairs: a Python 2-tuple is a Coq pair; `a, b = e` becomes `let t := e in let a := fst t in let b := snd t`.
Everything else is refused (fail closed).
"""
import ast

from trcore import HEADER_R, Tr, TranslateError, find_func, lets_text, parse_file, point, src, strip_doc
from translate_points import _p

CLS = 'WCSHelper'


def _sig(fn, names):
    a = fn.args
    if [x.arg for x in a.args] != names or a.vararg or a.kwarg or a.kwonlyargs or a.defaults or \
            getattr(a, 'posonlyargs', []) or fn.decorator_list:
        raise TranslateError(f"{fn.name}: signature is not ({', '.join(names)})")


def _wcs_call(call, meth):
    """self.wcs.<meth>(<arg>, <origin literal>, ra_dec_order=self.ra_dec_order) -> (arg node, origin)"""
    ok = (isinstance(call, ast.Call) and src(call.func) == f'self.wcs.{meth}' and len(call.args) == 2
          and len(call.keywords) == 1 and call.keywords[0].arg == 'ra_dec_order'
          and src(call.keywords[0].value) == 'self.ra_dec_order'
          and isinstance(call.args[1], ast.Constant) and type(call.args[1].value) is int)
    if not ok:
        raise TranslateError(f"expected self.wcs.{meth}(<coords>, <int origin>, ra_dec_order=self.ra_dec_order), "
                             f"found {src(call)[:100]}")
    origin = call.args[1].value
    if origin not in (0, 1):
        raise TranslateError(f"{meth}: origin {origin} is neither 0 nor 1")
    return call.args[0], origin


def _leaves(tree):
    cls = [n for n in tree.body if isinstance(n, ast.ClassDef) and n.name == CLS]
    if len(cls) != 1:
        raise TranslateError(f"class {CLS} not found exactly once")
    # ra_dec_order: exactly one assignment in the class, in __init__, to the literal False
    assigns = [n for n in ast.walk(cls[0]) if isinstance(n, (ast.Assign, ast.AugAssign, ast.AnnAssign))
               and any('ra_dec_order' in src(t) for t in (n.targets if isinstance(n, ast.Assign) else [n.target]))]
    init = find_func(tree, '__init__', CLS)
    if len(assigns) != 1 or src(assigns[0]) != 'self.ra_dec_order = False' or assigns[0] not in list(ast.walk(init)):
        raise TranslateError("ra_dec_order is not set exactly once, in __init__, by `self.ra_dec_order = False`")
    # ---- pix2sky
    fn = find_func(tree, 'pix2sky', CLS)
    _sig(fn, ['self', 'pixel'])
    body = strip_doc(fn.body)
    if len(body) != 2:
        raise TranslateError("pix2sky: body is not `a, b = pixel; return self.wcs.all_pix2world(...)[0]`")
    st = body[0]
    if not (isinstance(st, ast.Assign) and len(st.targets) == 1 and isinstance(st.targets[0], ast.Tuple)
            and len(st.targets[0].elts) == 2 and all(isinstance(e, ast.Name) for e in st.targets[0].elts)
            and src(st.value) == 'pixel' and st.targets[0].elts[0].id != st.targets[0].elts[1].id):
        raise TranslateError(f"pix2sky: first statement is not `a, b = pixel`: {src(st)[:60]}")
    n0, n1 = (e.id for e in st.targets[0].elts)
    rv = body[1]
    if not (isinstance(rv, ast.Return) and isinstance(rv.value, ast.Subscript) and src(rv.value.slice) == '0'):
        raise TranslateError(f"pix2sky: return is not `<call>[0]`: {src(rv)[:80]}")
    arg, o_p = _wcs_call(rv.value.value, 'all_pix2world')
    if not (isinstance(arg, ast.List) and len(arg.elts) == 1 and isinstance(arg.elts[0], ast.List) and len(arg.elts[0].elts) == 2):
        raise TranslateError(f"pix2sky: coordinates are not one pair `[[.., ..]]`: {src(arg)}")
    tr = Tr('R', {n0: 'x', n1: 'y'})
    p_arg = '(' + ', '.join(tr.expr(e) for e in arg.elts[0].elts) + ')'
    # ---- sky2pix
    fn = find_func(tree, 'sky2pix', CLS)
    _sig(fn, ['self', 'pos'])
    body = strip_doc(fn.body)
    if len(body) != 2 or not (isinstance(body[0], ast.Assign) and len(body[0].targets) == 1
                              and isinstance(body[0].targets[0], ast.Name)) or not isinstance(body[1], ast.Return):
        raise TranslateError("sky2pix: body is not `pixel = self.wcs.all_world2pix(...); return [.., ..]`")
    nm = body[0].targets[0].id
    arg, o_s = _wcs_call(body[0].value, 'all_world2pix')
    if src(arg) != '[pos]':
        raise TranslateError(f"sky2pix: coordinates are not `[pos]`: {src(arg)}")
    rv = body[1].value
    if not (isinstance(rv, (ast.List, ast.Tuple)) and len(rv.elts) == 2):
        raise TranslateError(f"sky2pix: return is not a pair: {src(rv)[:80]}")
    tr = Tr('R', {f'{nm}[0][0]': 'p0', f'{nm}[0][1]': 'p1'})
    s_ret = '(' + ', '.join(tr.expr(e) for e in rv.elts) + ')'
    return p_arg, o_p, s_ret, o_s


# ------------------------------------------------------------------------------------------
class TrW(Tr):
    """R back end with pairs: 2-tuples, self.pix2sky / self.sky2pix, translate / gcd / bear"""

    def __init__(self, env, types):
        super().__init__('R', env)
        self.types = dict(types)      # python name -> 'R' | 'P'

    def typ(self, n):
        if isinstance(n, ast.Name):
            if n.id not in self.types:
                raise TranslateError(f"unbound name {n.id}")
            return self.types[n.id]
        if isinstance(n, ast.Tuple):
            return 'P'
        if isinstance(n, ast.Call) and src(n.func) in ('self.pix2sky', 'self.sky2pix', 'translate'):
            return 'P'
        return 'R'

    def scalar(self, n):
        if self.typ(n) != 'R':
            raise TranslateError(f"a pair is used as a number: {src(n)[:60]}")
        return self.expr(n)

    def pair(self, n):
        if self.typ(n) != 'P':
            raise TranslateError(f"a number is used as a pair: {src(n)[:60]}")
        return self.expr(n)

    def expr(self, n):
        # every operand of arithmetic must be a scalar
        if isinstance(n, ast.BinOp):
            self.scalar(n.left), self.scalar(n.right)
        if isinstance(n, ast.UnaryOp):
            self.scalar(n.operand)
        return super().expr(n)

    def e_Tuple(self, n):
        if len(n.elts) != 2:
            raise TranslateError(f"tuple that is not a pair: {src(n)[:60]}")
        return '(' + ', '.join(self.scalar(e) for e in n.elts) + ')'

    def e_Call(self, n):
        f = src(n.func)
        if f in ('self.pix2sky', 'self.sky2pix'):
            if n.keywords or len(n.args) != 1:
                raise TranslateError(f"call {src(n)[:60]}")
            return f"({f[5:]} {self.pair(n.args[0])})"
        if f in ('translate', 'gcd', 'bear'):
            if n.keywords or len(n.args) != 4:
                raise TranslateError(f"call {src(n)[:60]}")
            return f"({f} " + ' '.join(self.scalar(a) for a in n.args) + ')'
        if isinstance(n.func, ast.Attribute) and src(n.func.value) == 'self':
            raise TranslateError(f"method call {src(n)[:60]}")
        for a in n.args:
            self.scalar(a)
        return super().e_Call(n)


def _whole(fn, params):
    """params: [(name, 'R'|'P')].  Straight-line body -> (let text, arity of the returned tuple)"""
    _sig(fn, ['self'] + [p for p, _ in params])
    tr = TrW({p: p for p, _ in params}, dict(params))
    lets = []
    ntmp = [0]

    def bind(nm, term, ty):
        new = 'v_' + nm
        while any(n == new for n, _ in lets):
            new += "'"
        lets.append((new, term))
        tr.env[nm] = new
        tr.types[nm] = ty

    body = strip_doc(fn.body)
    for k, st in enumerate(body):
        if isinstance(st, ast.Assign) and len(st.targets) == 1 and isinstance(st.targets[0], ast.Name):
            ty = tr.typ(st.value)
            bind(st.targets[0].id, tr.expr(st.value), ty)
        elif isinstance(st, ast.Assign) and len(st.targets) == 1 and isinstance(st.targets[0], ast.Tuple) \
                and len(st.targets[0].elts) == 2 and all(isinstance(e, ast.Name) for e in st.targets[0].elts) \
                and st.targets[0].elts[0].id != st.targets[0].elts[1].id and not isinstance(st.value, ast.Tuple):
            term = tr.pair(st.value)
            if not isinstance(st.value, ast.Name):
                ntmp[0] += 1
                t = f't_{ntmp[0]}'
                lets.append((t, term))
                term = t
            a, b = (e.id for e in st.targets[0].elts)
            bind(a, f'(fst {term})', 'R')
            bind(b, f'(snd {term})', 'R')
        elif isinstance(st, ast.AugAssign) and isinstance(st.target, ast.Name):
            nm = st.target.id
            if tr.types.get(nm) != 'R':
                raise TranslateError(f"augmented assignment to {nm}")
            fake = ast.BinOp(left=ast.Name(id=nm, ctx=ast.Load()), op=st.op, right=st.value)
            bind(nm, tr.expr(fake), 'R')
        elif isinstance(st, ast.Return) and k == len(body) - 1 and isinstance(st.value, ast.Tuple):
            res = '(' + ', '.join(tr.scalar(e) for e in st.value.elts) + ')'
            return lets_text(lets, res), len(st.value.elts)
        else:
            raise TranslateError(f"{fn.name}: unsupported statement `{src(st)[:80]}`")
    raise TranslateError(f"{fn.name}: no final return of a tuple")


@point('WcsHelper')
def gen_wcshelper(repo):
    tree = parse_file(_p(repo, 'wcs_helpers.py'))
    imp = [n for n in tree.body if isinstance(n, ast.ImportFrom) and n.module == 'angle_tools' and n.level == 1]
    names = sorted(a.name for n in imp for a in n.names if a.asname is None)
    if names != ['bear', 'gcd', 'translate']:
        raise TranslateError(f"wcs_helpers does not import exactly bear, gcd, translate from .angle_tools ({names})")
    for n in ast.walk(tree):
        if isinstance(n, (ast.FunctionDef, ast.ClassDef)) and n.name in ('bear', 'gcd', 'translate'):
            raise TranslateError(f"wcs_helpers redefines {n.name}")
        if isinstance(n, ast.Name) and isinstance(n.ctx, ast.Store) and n.id in ('bear', 'gcd', 'translate', 'np'):
            raise TranslateError(f"wcs_helpers assigns to {n.id}")
    p_arg, o_p, s_ret, o_s = _leaves(tree)
    s2pv, n1 = _whole(find_func(tree, 'sky2pix_vec', CLS), [('pos', 'P'), ('r', 'R'), ('pa', 'R')])
    p2sv, n2 = _whole(find_func(tree, 'pix2sky_vec', CLS), [('pixel', 'P'), ('r', 'R'), ('theta', 'R')])
    s2pe, n3 = _whole(find_func(tree, 'sky2pix_ellipse', CLS), [('pos', 'P'), ('a', 'R'), ('b', 'R'), ('pa', 'R')])
    p2se, n4 = _whole(find_func(tree, 'pix2sky_ellipse', CLS), [('pixel', 'P'), ('sx', 'R'), ('sy', 'R'), ('theta', 'R')])
    if (n1, n2, n3, n4) != (4, 4, 5, 5):
        raise TranslateError(f"vector / ellipse transforms return tuples of sizes {(n1, n2, n3, n4)}, expected (4, 4, 5, 5)")
    fsig = "(pix2sky sky2pix : R * R -> R * R)"
    return HEADER_R.replace("Lib.RBase.", "Lib.RBase Gen.Sphere.") + f"""
(* WCSHelper.pix2sky: `x, y = pixel`, the pair handed to wcs.all_pix2world, and its origin argument *)
Definition pix2sky_arg (x y : R) : R * R := {p_arg}.
Definition pix2sky_origin : Z := ({o_p})%Z.
(* WCSHelper.sky2pix: (p0, p1) = the pixel returned by wcs.all_world2pix([pos], origin); the returned pair *)
Definition sky2pix_ret (p0 p1 : R) : R * R := {s_ret}.
Definition sky2pix_origin : Z := ({o_s})%Z.
(* both calls pass ra_dec_order=self.ra_dec_order, which __init__ sets to this literal *)
Definition ra_dec_order : bool := false.

(* WCSHelper.sky2pix_vec: returns (x, y, r, theta) *)
Definition sky2pix_vec {fsig} (pos : R * R) (r pa : R) : R * R * R * R :=
{s2pv}.

(* WCSHelper.pix2sky_vec: returns (ra, dec, r, pa) *)
Definition pix2sky_vec {fsig} (pixel : R * R) (r theta : R) : R * R * R * R :=
{p2sv}.

(* WCSHelper.sky2pix_ellipse: returns (x, y, sx, sy, theta) *)
Definition sky2pix_ellipse {fsig} (pos : R * R) (a b pa : R) : R * R * R * R * R :=
{s2pe}.

(* WCSHelper.pix2sky_ellipse: returns (ra, dec, major, minor, pa) *)
Definition pix2sky_ellipse {fsig} (pixel : R * R) (sx sy theta : R) : R * R * R * R * R :=
{p2se}.
"""
