#!/usr/bin/env python3
"""Regenerate MANIFEST.json from tools/manifest_data.py (keeps it valid at all times)."""
import json, os, sys
sys.path.insert(0, os.path.dirname(os.path.abspath(__file__)))
from manifest_data import CHECKS, NOT_YET, HOOK_COMMITS
import glob
for f in sorted(glob.glob('/verif/tools/manifest/C*.json')):
    CHECKS[os.path.basename(f)[:-5]] = json.load(open(f))
props = [json.loads(l) for l in open('/verif/properties.jsonl')]
checks = []
for p in props:
    pid = p['id']
    if pid in CHECKS:
        c = CHECKS[pid]
        checks.append({
            'property_id': pid,
            'quick_cmd': f'./check {pid} quick',
            'thorough_cmd': f'./check {pid} thorough',
            'evidence_file': f'/verif/evidence/{pid}.json',
            'replay_cmd_template': f'./check {pid} quick --replay {{path}}',
            'engine': 'coq',
            'level_claimed': {'category': c.get('category', 'proof'), 'text': c['text'], 'design_ref': c.get('ref', f'DESIGN.md s.7 {pid}')},
            'level_note': c['note'],
            'technique': c['technique'],
        })
na = [{'property_id': p['id'], 'reason': NOT_YET.get(p['id'], 'check not built yet in this session (planned, see DESIGN.md s.7)')}
      for p in props if p['id'] not in CHECKS]
m = {
    'version': 1,
    'setup_cmd': './setup.sh',
    'hooks': {'guard': 'AEGEAN_VERIF', 'enable': 'environment variable AEGEAN_VERIF=1 (set by ./check); AEGEAN_VERIF_BANE_PLAN carries the delay/fault/trace plan',
              'baseline_off_cmd': 'cd /repo && env -u AEGEAN_VERIF /venv/bin/python -m pytest -ra -q -p no:cacheprovider --timeout=900 --continue-on-collection-errors',
              'source_commits': HOOK_COMMITS, 'add_only': True},
    'engines': [{'name': 'coq', 'path': '/verif/coq', 'serves_properties': sorted(CHECKS),
                 'kind_free_text': 'Coq 8.16.1 development (Lib/Gen/Model/Proofs/Props) + fail-closed Python-ast translator (tools/translate.py) + correspondence harnesses (tools/harness)'}],
    'checks': checks,
    'notes': 'All checks: ./check <Cxx> quick|thorough. Genuine defects repaired as fix: commits in /repo are listed in known_findings.txt.',
    'not_applicable': na,
}
json.dump(m, open('/verif/MANIFEST.json', 'w'), indent=1)
print(len(checks), 'checks,', len(na), 'not applicable')
