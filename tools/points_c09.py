"""C09 extraction point: the sky-coordinate conventions of AegeanTools.regions.Region.

Generates coq/Gen/SkyCoords.v from regions.py:
  * sky2ang   : the column swap `theta_phi[:, [1, 0]] = theta_phi[:, [0, 1]]` and `pi/2 - col0` are executed
                symbolically on a row (ra, dec); the resulting column 0 / column 1 become sky2ang_theta / sky2ang_phi
  * sky2vec   : argument order of hp.ang2vec
  * vec2sky   : ra = phi, dec = pi/2 - theta, np.degrees
  * sky_within: degin conversion and its position, mask expression, fill value, argument order / depth / nest flag of
                hp.ang2pix, value given to masked rows
  * add_circles / add_poly : depth clamp, arguments and flags of hp.query_disc / hp.query_polygon, add + renorm
  * radec2sky : column order (ra, dec)
Every matcher refuses (TranslateError) when the statement sequence is not the expected one.
"""
import ast

from trcore import HEADER_R, Tr, TranslateError, find_func, parse_file, point, src, strip_doc
from translate_points import _p


def _expect(cond, msg):
    if not cond:
        raise TranslateError(msg)


def _texts(stmts):
    return [src(s) for s in stmts]


def _bool(b):
    return 'true' if b else 'false'


def _kw_flags(call, what, allowed=('inclusive', 'nest')):
    """keyword arguments of a healpy call: each must be a literal True/False"""
    out = {}
    for k in call.keywords:
        _expect(k.arg in allowed, f"{what}: unexpected keyword {k.arg}")
        _expect(isinstance(k.value, ast.Constant) and isinstance(k.value.value, bool),
                f"{what}: keyword {k.arg} is not a literal bool")
        out[k.arg] = k.value.value
    return out


def _nside_depth(node, what, env):
    """`2 ** <depth expr>` -> Z term of the exponent"""
    _expect(isinstance(node, ast.BinOp) and isinstance(node.op, ast.Pow) and src(node.left) == '2',
            f"{what}: nside is not 2 ** depth: {src(node)}")
    return Tr('Z', env).expr(node.right)


def _depth_clamp(st, what):
    """`if depth is None or depth > self.maxdepth: depth = self.maxdepth` -> (cond on Some d, value)"""
    _expect(isinstance(st, ast.If) and not st.orelse and len(st.body) == 1, f"{what}: depth clamp shape")
    t = st.test
    _expect(isinstance(t, ast.BoolOp) and isinstance(t.op, ast.Or) and len(t.values) == 2
            and src(t.values[0]) == 'depth is None', f"{what}: depth clamp test {src(t)}")
    tr = Tr('Z', {'depth': 'd', 'self.maxdepth': 'maxdepth'})
    cond = tr.cond(t.values[1])
    a = st.body[0]
    _expect(isinstance(a, ast.Assign) and src(a.targets[0]) == 'depth', f"{what}: depth clamp body")
    val = tr.expr(a.value)
    return cond, val


def _sky2ang(fn):
    body = strip_doc(fn.body)
    _expect(len(body) >= 3 and isinstance(body[0], ast.Try), "sky2ang: expected try/except copy first")
    t = body[0]
    _expect(_texts(t.body) == ['theta_phi = sky.copy()'] and len(t.handlers) == 1
            and _texts(t.handlers[0].body) == ['theta_phi = np.array(sky)'] and not t.orelse and not t.finalbody,
            "sky2ang: copy block")
    _expect(isinstance(body[-1], ast.Return) and src(body[-1].value) == 'theta_phi', "sky2ang: return theta_phi")
    cols = ['ra', 'dec']        # radec2sky builds rows (ra, dec)
    for st in body[1:-1]:
        _expect(isinstance(st, ast.Assign) and len(st.targets) == 1, f"sky2ang: statement {src(st)}")
        tg = st.targets[0]
        _expect(isinstance(tg, ast.Subscript) and src(tg.value) == 'theta_phi' and isinstance(tg.slice, ast.Tuple)
                and len(tg.slice.elts) == 2 and src(tg.slice.elts[0]) == ':', f"sky2ang: target {src(tg)}")
        idx = tg.slice.elts[1]
        if isinstance(idx, ast.List):
            dst = [e.value for e in idx.elts if isinstance(e, ast.Constant)]
            v = st.value
            _expect(isinstance(v, ast.Subscript) and src(v.value) == 'theta_phi' and isinstance(v.slice, ast.Tuple)
                    and src(v.slice.elts[0]) == ':' and isinstance(v.slice.elts[1], ast.List), f"sky2ang: {src(st)}")
            srcs = [e.value for e in v.slice.elts[1].elts if isinstance(e, ast.Constant)]
            _expect(len(dst) == len(srcs) == 2 and sorted(dst) == [0, 1] and all(s in (0, 1) for s in srcs),
                    f"sky2ang: column permutation {src(st)}")
            old = list(cols)
            for a, b in zip(dst, srcs):
                cols[a] = old[b]
        elif isinstance(idx, ast.Constant) and idx.value in (0, 1):
            tr = Tr('R', {'theta_phi[:, 0]': cols[0], 'theta_phi[:, 1]': cols[1]})
            cols[idx.value] = tr.expr(st.value)
        else:
            raise TranslateError(f"sky2ang: column index {src(idx)}")
    return cols


@point('SkyCoords')
def gen_skycoords(repo):
    tree = parse_file(_p(repo, 'regions.py'))
    R = lambda name: find_func(tree, name, cls='Region')  # noqa: E731

    # ---- radec2sky: rows are (ra, dec)
    body = strip_doc(R('radec2sky').body)
    _expect(len(body) == 2 and isinstance(body[0], ast.Try) and
            _texts(body[0].body)[0] in ('sky = np.array(list(zip(ra, dec)))', 'sky = np.array(list(zip(ra, dec))).reshape(-1, 2)')
            and len(body[0].body) == 1 and len(body[0].handlers) == 1 and
            src(body[0].handlers[0].type) == 'TypeError' and
            _texts(body[0].handlers[0].body) == ['sky = np.array([(ra, dec)])'] and src(body[1]) == 'return sky',
            "radec2sky: expected zip(ra, dec) / [(ra, dec)]")

    # ---- sky2ang
    theta, phi = _sky2ang(R('sky2ang'))

    # ---- sky2vec
    body = _texts(strip_doc(R('sky2vec').body))
    _expect(len(body) == 4 and body[0] == 'theta_phi = cls.sky2ang(sky)' and
            body[1] == 'theta, phi = map(np.array, list(zip(*theta_phi)))' and body[3] == 'return vec',
            f"sky2vec: statements {body}")
    if body[2] == 'vec = hp.ang2vec(theta, phi)':
        s2v_first = True
    elif body[2] == 'vec = hp.ang2vec(phi, theta)':
        s2v_first = False
    else:
        raise TranslateError(f"sky2vec: {body[2]}")

    # ---- vec2sky
    fn = R('vec2sky')
    body = strip_doc(fn.body)
    _expect(len(body) == 5 and src(body[0]) == 'theta, phi = hp.vec2ang(vec)', "vec2sky: theta, phi = hp.vec2ang(vec)")
    tr = Tr('R', {'theta': 'theta', 'phi': 'phi'})
    _expect(isinstance(body[1], ast.Assign) and src(body[1].targets[0]) == 'ra' and
            isinstance(body[2], ast.Assign) and src(body[2].targets[0]) == 'dec', "vec2sky: ra = ..; dec = ..")
    v_ra, v_dec = tr.expr(body[1].value), tr.expr(body[2].value)
    cond = body[3]
    _expect(isinstance(cond, ast.If) and src(cond.test) == 'degrees' and not cond.orelse and len(cond.body) == 2 and
            all(isinstance(s, ast.Assign) for s in cond.body) and
            [src(s.targets[0]) for s in cond.body] == ['ra', 'dec'], "vec2sky: degrees block")
    d_ra = Tr('R', {'ra': 'x'}).expr(cond.body[0].value)
    d_dec = Tr('R', {'dec': 'x'}).expr(cond.body[1].value)
    _expect(src(body[4]) == 'return cls.radec2sky(ra, dec)', "vec2sky: return cls.radec2sky(ra, dec)")

    # ---- sky_within
    fn = R('sky_within')
    _expect([a.arg for a in fn.args.args] == ['self', 'ra', 'dec', 'degin'] and
            [src(d) for d in fn.args.defaults] == ['False'], "sky_within: signature (ra, dec, degin=False)")
    body = strip_doc(fn.body)
    _expect(len(body) == 11, f"sky_within: expected 11 statements, found {len(body)}")
    _expect(src(body[0]) == 'sky = self.radec2sky(ra, dec)', "sky_within: sky = self.radec2sky(ra, dec)")
    st = body[1]
    _expect(isinstance(st, ast.If) and src(st.test) == 'degin' and not st.orelse and len(st.body) == 1 and
            isinstance(st.body[0], ast.Assign) and src(st.body[0].targets[0]) == 'sky', "sky_within: degin block")
    degin_conv = Tr('R', {'sky': 'x'}).expr(st.body[0].value)
    _expect(src(body[2]) == 'theta_phi = self.sky2ang(sky)', "sky_within: theta_phi = self.sky2ang(sky)")
    m = src(body[3])
    if m == 'mask = np.bitwise_not(np.logical_and.reduce(np.isfinite(theta_phi), axis=1))':
        mask_neg = True
    else:
        raise TranslateError(f"sky_within: mask expression {m}")
    st = body[4]
    _expect(isinstance(st, ast.Assign) and src(st.targets[0]) == 'theta_phi[mask, :]', "sky_within: theta_phi[mask, :] = fill")
    fill = Tr('R').expr(st.value)
    _expect(src(body[5]) == 'theta, phi = theta_phi.transpose()', "sky_within: theta, phi = theta_phi.transpose()")
    st = body[6]
    _expect(isinstance(st, ast.Assign) and src(st.targets[0]) == 'pix' and isinstance(st.value, ast.Call) and
            src(st.value.func) == 'hp.ang2pix' and len(st.value.args) == 3, "sky_within: pix = hp.ang2pix(nside, a, b, nest=..)")
    call = st.value
    w_depth = _nside_depth(call.args[0], 'sky_within', {'self.maxdepth': 'maxdepth'})
    order = [src(a) for a in call.args[1:]]
    _expect(sorted(order) == ['phi', 'theta'], f"sky_within: ang2pix arguments {order}")
    w_first = order == ['theta', 'phi']
    fl = _kw_flags(call, 'sky_within ang2pix', allowed=('nest',))
    w_nest = fl.get('nest', False)
    _expect(src(body[7]) == 'pixelset = self.get_demoted()', "sky_within: pixelset = self.get_demoted()")
    _expect(src(body[8]) in ('result = np.isin(pix, list(pixelset))', 'result = np.in1d(pix, list(pixelset))'),
            f"sky_within: {src(body[8])}")
    st = body[9]
    _expect(isinstance(st, ast.Assign) and src(st.targets[0]) == 'result[mask]' and isinstance(st.value, ast.Constant)
            and isinstance(st.value.value, bool), "sky_within: result[mask] = <bool>")
    masked_result = st.value.value
    _expect(src(body[10]) == 'return result', "sky_within: return result")

    # ---- add_circles
    fn = R('add_circles')
    body = strip_doc(fn.body)
    _expect(len(body) == 8, f"add_circles: expected 8 statements, found {len(body)}")
    c_cond, c_val = _depth_clamp(body[0], 'add_circles')
    t = body[1]
    _expect(isinstance(t, ast.Try) and _texts(t.body) == ['sky = list(zip(ra_cen, dec_cen))', 'rad = radius'] and
            len(t.handlers) == 1 and src(t.handlers[0].type) == 'TypeError' and
            _texts(t.handlers[0].body) == ['sky = [[ra_cen, dec_cen]]', 'rad = [radius]'], "add_circles: scalar/vector block")
    _expect(_texts(body[2:5]) == ['sky = np.array(sky)', 'rad = np.array(rad)', 'vectors = self.sky2vec(sky)'],
            "add_circles: sky, rad, vectors")
    lp = body[5]
    _expect(isinstance(lp, ast.For) and src(lp.target) in ('vec, r', '(vec, r)') and src(lp.iter) == 'zip(vectors, rad)' and
            len(lp.body) == 2 and src(lp.body[1]) == 'self.add_pixels(pix, depth)', "add_circles: loop")
    st = lp.body[0]
    _expect(isinstance(st, ast.Assign) and src(st.targets[0]) == 'pix' and isinstance(st.value, ast.Call) and
            src(st.value.func) == 'hp.query_disc' and len(st.value.args) == 3 and
            [src(a) for a in st.value.args[1:]] == ['vec', 'r'], "add_circles: pix = hp.query_disc(nside, vec, r, ..)")
    disc_depth = _nside_depth(st.value.args[0], 'add_circles', {'depth': 'd'})
    fl = _kw_flags(st.value, 'add_circles query_disc')
    disc_incl, disc_nest = fl.get('inclusive', False), fl.get('nest', False)
    _expect(src(body[6]) == 'self._renorm()' and src(body[7]) == 'return', "add_circles: _renorm(); return")

    # ---- add_poly
    fn = R('add_poly')
    body = strip_doc(fn.body)
    _expect(len(body) == 8, f"add_poly: expected 8 statements, found {len(body)}")
    _expect(isinstance(body[0], ast.If) and src(body[0].test) == 'not len(positions) >= 3' and
            isinstance(body[0].body[0], ast.Raise), "add_poly: minimum of three vertices")
    p_cond, p_val = _depth_clamp(body[1], 'add_poly')
    _expect(_texts(body[2:4]) == ['ras, decs = np.array(list(zip(*positions)))', 'sky = self.radec2sky(ras, decs)'],
            "add_poly: ras, decs, sky")
    st = body[4]
    _expect(isinstance(st, ast.Assign) and src(st.targets[0]) == 'pix' and isinstance(st.value, ast.Call) and
            src(st.value.func) == 'hp.query_polygon' and len(st.value.args) == 2 and
            src(st.value.args[1]) == 'self.sky2vec(sky)', "add_poly: pix = hp.query_polygon(nside, self.sky2vec(sky), ..)")
    poly_depth = _nside_depth(st.value.args[0], 'add_poly', {'depth': 'd'})
    fl = _kw_flags(st.value, 'add_poly query_polygon')
    poly_incl, poly_nest = fl.get('inclusive', False), fl.get('nest', False)
    _expect(_texts(body[5:8]) == ['self.add_pixels(pix, depth)', 'self._renorm()', 'return'],
            "add_poly: add_pixels; _renorm; return")

    return HEADER_R + f"""From Coq Require Import ZArith Bool.

(* regions.Region: sky-coordinate conventions (C09) *)
(* sky2ang on a row (ra, dec): column 0 (theta) and column 1 (phi) of the result *)
Definition sky2ang_theta (ra dec : R) : R := {theta}.
Definition sky2ang_phi (ra dec : R) : R := {phi}.
(* sky2vec: hp.ang2vec(theta, phi) ? *)
Definition sky2vec_theta_first : bool := {_bool(s2v_first)}.
(* vec2sky from (theta, phi) = hp.vec2ang(vec) *)
Definition vec2sky_ra (theta phi : R) : R := {v_ra}.
Definition vec2sky_dec (theta phi : R) : R := {v_dec}.
Definition vec2sky_ra_degrees (x : R) : R := {d_ra}.
Definition vec2sky_dec_degrees (x : R) : R := {d_dec}.
(* sky_within: `if degin: sky = <degin_conv sky>` before sky2ang *)
Definition degin_conv (x : R) : R := {degin_conv}.
Definition mask_negated_all_finite : bool := {_bool(mask_neg)}.
Definition mask_fill : R := {fill}.
Definition masked_result : bool := {_bool(masked_result)}.
Definition within_theta_first : bool := {_bool(w_first)}.
Definition within_nest : bool := {_bool(w_nest)}.
Definition within_depth (maxdepth : Z) : Z := ({w_depth})%Z.
(* add_circles / add_poly: `if depth is None or <clamp d>: depth = <value>` *)
Definition circle_depth_clamp (maxdepth d : Z) : bool := ({c_cond})%Z.
Definition circle_depth_default (maxdepth : Z) : Z := ({c_val})%Z.
Definition disc_depth (d : Z) : Z := ({disc_depth})%Z.
Definition disc_inclusive : bool := {_bool(disc_incl)}.
Definition disc_nest : bool := {_bool(disc_nest)}.
Definition poly_depth_clamp (maxdepth d : Z) : bool := ({p_cond})%Z.
Definition poly_depth_default (maxdepth : Z) : Z := ({p_val})%Z.
Definition poly_depth (d : Z) : Z := ({poly_depth})%Z.
Definition poly_inclusive : bool := {_bool(poly_incl)}.
Definition poly_nest : bool := {_bool(poly_nest)}.
"""
