"""C15 extraction point: fits_tools.compress / expand / is_compressed (+ the transparent expansion
of load_image_band) -> coq/Gen/FitsTools.v.

Arithmetic leaves (Z back end for shapes / residuals / node coordinates / BN_* values, a Q back end for
the CRPIX / CDELT / CD rescaling) are translated; everything that is not arithmetic (which keyword is
read where, the if/elif keyword chains, the four slice assignments of the decimation, the deleted
keywords, the RegularGridInterpolator call) is recognised from the AST shape and becomes an enumerated
constant (strings / lists of strings) - or the matcher refuses (TranslateError)."""
import ast

from trcore import (HEADER_Z, Tr, TranslateError, block_lets, find_func, lets_text, parse_file, point,
                    src, strip_doc)
from translate_points import _p


class TrQ(Tr):
    """rationals: + - * / on Q (Python floats read as exact rationals); integer literals n -> (n # 1)"""

    def __init__(self, env=None):
        Tr.__init__(self, 'R', env)

    def lit(self, v):
        if isinstance(v, bool) or not isinstance(v, int):
            raise TranslateError(f"non-integer literal {v!r} in the Q back end")
        return f"(({v}) # 1)" if v < 0 else f"({v} # 1)"

    def e_Call(self, n):
        raise TranslateError(f"call in the Q back end: {src(n)}")

    def e_Attribute(self, n):
        raise TranslateError(f"attribute in the Q back end: {src(n)}")

    def e_BinOp(self, n):
        if isinstance(n.op, ast.Pow):
            raise TranslateError(f"power in the Q back end: {src(n)}")
        return Tr.e_BinOp(self, n)


class TrZq(Tr):
    """Z back end that additionally reads int(a / b) (true division, truncated) as Z.quot a b -
    exact for |a|, |b| < 2^26 (ASSUMPTIONS of the harness)"""

    def __init__(self, env=None):
        Tr.__init__(self, 'Z', env)

    def e_Call(self, n):
        if isinstance(n.func, ast.Name) and n.func.id == 'int' and len(n.args) == 1 and not n.keywords \
                and isinstance(n.args[0], ast.BinOp) and isinstance(n.args[0].op, ast.Div):
            return f"(Z.quot {self.expr(n.args[0].left)} {self.expr(n.args[0].right)})"
        return Tr.e_Call(self, n)


def _s(x):
    return '"' + x + '"'


def _slist(xs):
    return '[' + '; '.join(_s(x) for x in xs) + ']'


def _hdr_key(node):
    """header['KEY'] -> KEY"""
    if isinstance(node, ast.Subscript) and isinstance(node.value, ast.Name) and node.value.id == 'header' \
            and isinstance(node.slice, ast.Constant) and isinstance(node.slice.value, str):
        return node.slice.value
    return None


def _scale_chain(st, fname, opcls):
    """if 'K1' in header: header['K1'] <op>= factor / elif 'K2' in header: ... / else: log; return None
    -> list of keys"""
    keys = []
    while True:
        if not isinstance(st, ast.If):
            raise TranslateError(f"{fname}: scale chain is not an if/elif chain: {src(st)[:60]}")
        t = st.test
        if not (isinstance(t, ast.Compare) and len(t.ops) == 1 and isinstance(t.ops[0], ast.In)
                and isinstance(t.left, ast.Constant) and isinstance(t.left.value, str)
                and src(t.comparators[0]) == 'header'):
            raise TranslateError(f"{fname}: scale chain test is not `'KEY' in header`: {src(t)}")
        k = t.left.value
        if not (len(st.body) == 1 and isinstance(st.body[0], ast.AugAssign)
                and _hdr_key(st.body[0].target) == k and isinstance(st.body[0].op, opcls)
                and src(st.body[0].value) == 'factor'):
            raise TranslateError(f"{fname}: branch for {k} is not header['{k}'] "
                                 f"{'*' if opcls is ast.Mult else '/'}= factor: {src(st.body[0])[:70]}")
        keys.append(k)
        if len(st.orelse) == 1 and isinstance(st.orelse[0], ast.If):
            st = st.orelse[0]
            continue
        oe = st.orelse
        if not (oe and isinstance(oe[-1], ast.Return) and src(oe[-1]) == 'return None'
                and all(isinstance(x, ast.Expr) for x in oe[:-1])):
            raise TranslateError(f"{fname}: scale chain does not end in `else: ...; return None`")
        return keys


def _is_scale_if(st):
    return isinstance(st, ast.If) and isinstance(st.test, ast.Compare) and len(st.test.ops) == 1 \
        and isinstance(st.test.ops[0], ast.In) and src(st.test.comparators[0]) == 'header'


def _sel(node):
    """classify one subscript element of the decimation assignments"""
    if isinstance(node, ast.Slice):
        if node.lower is None and node.upper is not None and node.step is None:
            return ('upto', node.upper)
        if node.lower is None and node.upper is None and node.step is not None:
            return ('stride', node.step)
        raise TranslateError(f"unexpected slice {src(node)}")
    if isinstance(node, ast.UnaryOp) and isinstance(node.op, ast.USub) and isinstance(node.operand, ast.Constant) \
            and node.operand.value == 1:
        return ('last', None)
    raise TranslateError(f"unexpected index {src(node)}")


@point('FitsTools')
def gen_fitstools(repo):
    tree = parse_file(_p(repo, 'fits_tools.py'))
    # ------------------------------------------------------------------ compress
    fn = find_func(tree, 'compress')
    body = strip_doc(fn.body)
    if [a.arg for a in fn.args.args] != ['datafile', 'factor', 'outfile']:
        raise TranslateError("compress: signature changed")
    # guard
    g = body[0]
    if not (isinstance(g, ast.If) and isinstance(g.test, ast.UnaryOp) and isinstance(g.test.op, ast.Not)
            and isinstance(g.test.operand, ast.BoolOp) and isinstance(g.test.operand.op, ast.And)
            and isinstance(g.body[-1], ast.Return) and src(g.body[-1]) == 'return None' and not g.orelse):
        raise TranslateError("compress: the first statement is not `if not (.. and ..): ..; return None`")
    conj = g.test.operand.values
    arith = [c for c in conj if src(c) != 'isinstance(factor, int)']
    if len(arith) != len(conj) - 1 or not arith:
        raise TranslateError("compress: guard is not `<comparison> and isinstance(factor, int)`")
    trz = TrZq({'factor': 'factor'})
    guard = ' && '.join(trz.cond(c) for c in arith)
    # load + squeeze
    want = ['hdulist = load_file_or_hdu(datafile)', 'header = hdulist[0].header',
            'data = np.squeeze(hdulist[0].data)']
    got = [src(s) for s in body[1:4]]
    if got != want:
        raise TranslateError(f"compress: load sequence is {got}")
    # shape arithmetic
    trz = TrZq({'factor': 'factor', 'data.shape[0]': 'rows', 'data.shape[1]': 'cols'})
    lets, rest = block_lets(body[4:], trz)
    for nm in ('cx', 'cy', 'nx', 'ny', 'lcx', 'lcy'):
        if nm not in trz.env:
            raise TranslateError(f"compress: {nm} is not assigned before the residual tests")
    # if lcx > 0: nx += 1   (twice)
    k = 0
    while k < len(rest) and isinstance(rest[k], ast.If):
        st = rest[k]
        if not (len(st.body) == 1 and isinstance(st.body[0], ast.AugAssign) and not st.orelse
                and isinstance(st.body[0].target, ast.Name)):
            raise TranslateError(f"compress: unexpected conditional {src(st)[:70]}")
        nm = st.body[0].target.id
        if nm not in trz.env:
            raise TranslateError(f"compress: conditional update of unbound {nm}")
        fake = ast.BinOp(left=ast.Name(id=nm, ctx=ast.Load()), op=st.body[0].op, right=st.body[0].value)
        new = trz.env[nm] + "'"
        lets.append((new, f"(if {trz.cond(st.test)} then {trz.expr(fake)} else {trz.env[nm]})"))
        trz.env[nm] = new
        k += 1
    rest = rest[k:]
    if k != 2:
        raise TranslateError(f"compress: expected two residual tests, found {k}")
    # new_data = np.empty((nx + 1, ny + 1))
    st = rest[0]
    if not (isinstance(st, ast.Assign) and src(st.targets[0]) == 'new_data' and isinstance(st.value, ast.Call)
            and src(st.value.func) == 'np.empty' and len(st.value.args) == 1 and not st.value.keywords
            and isinstance(st.value.args[0], ast.Tuple) and len(st.value.args[0].elts) == 2):
        raise TranslateError(f"compress: expected new_data = np.empty((.., ..)), found {src(st)[:70]}")
    out_rows = trz.expr(st.value.args[0].elts[0])
    out_cols = trz.expr(st.value.args[0].elts[1])
    # the four decimation assignments
    dec = rest[1:5]
    expected = [(('upto', 'upto'), ('stride', 'stride')), (('last', 'upto'), ('last', 'stride')),
                (('upto', 'last'), ('stride', 'last')), (('last', 'last'), ('last', 'last'))]
    ups_r, ups_c, str_r, str_c = set(), set(), set(), set()
    for st, (tk, sk) in zip(dec, expected):
        if not (isinstance(st, ast.Assign) and len(st.targets) == 1 and isinstance(st.targets[0], ast.Subscript)
                and src(st.targets[0].value) == 'new_data' and isinstance(st.value, ast.Subscript)
                and src(st.value.value) == 'data' and isinstance(st.targets[0].slice, ast.Tuple)
                and isinstance(st.value.slice, ast.Tuple) and len(st.targets[0].slice.elts) == 2
                and len(st.value.slice.elts) == 2):
            raise TranslateError(f"compress: expected new_data[.., ..] = data[.., ..], found {src(st)[:70]}")
        t = [_sel(e) for e in st.targets[0].slice.elts]
        s = [_sel(e) for e in st.value.slice.elts]
        if (t[0][0], t[1][0]) != tk or (s[0][0], s[1][0]) != sk:
            raise TranslateError(f"compress: decimation assignment has the wrong shape: {src(st)}")
        if t[0][0] == 'upto':
            ups_r.add(trz.expr(t[0][1]))
        if t[1][0] == 'upto':
            ups_c.add(trz.expr(t[1][1]))
        if s[0][0] == 'stride':
            str_r.add(trz.expr(s[0][1]))
        if s[1][0] == 'stride':
            str_c.add(trz.expr(s[1][1]))
    if any(len(x) != 1 for x in (ups_r, ups_c, str_r, str_c)):
        raise TranslateError("compress: the decimation assignments use different limits / strides")
    rest = rest[5:]
    # header scaling chains, CRPIX, BN keywords
    chains = [s for s in rest if _is_scale_if(s)]
    if len(chains) != 2:
        raise TranslateError(f"compress: expected two CDELT/CD scale chains, found {len(chains)}")
    ckeys1 = _scale_chain(chains[0], 'compress', ast.Mult)
    ckeys2 = _scale_chain(chains[1], 'compress', ast.Mult)
    hdr_assigns = [s for s in rest if isinstance(s, ast.Assign) and len(s.targets) == 1
                   and _hdr_key(s.targets[0]) is not None]
    seen = [_hdr_key(s.targets[0]) for s in hdr_assigns]
    if seen[:2] != ['CRPIX1', 'CRPIX2']:
        raise TranslateError(f"compress: header assignments start with {seen[:2]}, expected CRPIX1, CRPIX2")
    ccr = []
    for s in hdr_assigns[:2]:
        key = _hdr_key(s.targets[0])
        ccr.append(TrQ({f"header['{key}']": 'crpix', 'factor': 'factor'}).expr(s.value))
    bn = []
    trk = TrZq({'factor': 'factor', "header['NAXIS1']": 'naxis1', "header['NAXIS2']": 'naxis2',
                'lcx': 'lcx', 'lcy': 'lcy'})
    for s in hdr_assigns[2:]:
        key = _hdr_key(s.targets[0])
        if key == 'HISTORY':
            continue
        if not key.startswith('BN_'):
            raise TranslateError(f"compress: unexpected header assignment {src(s)[:70]}")
        v = s.value
        if isinstance(v, ast.Tuple) and len(v.elts) == 2 and isinstance(v.elts[1], ast.Constant):
            v = v.elts[0]
        bn.append((key, trk.expr(v)))
    if not bn:
        raise TranslateError("compress: no BN_ keywords written")
    # every other header mutation is refused
    for s in rest:
        if isinstance(s, (ast.AugAssign, ast.Delete)) and 'header' in src(s):
            raise TranslateError(f"compress: unexpected header mutation {src(s)[:70]}")
    tail = [src(s) for s in rest if isinstance(s, ast.Assign) and src(s.targets[0]).startswith('hdulist[0]')]
    if tail != ['hdulist[0].data = np.array(new_data, dtype=np.float32)', 'hdulist[0].header = header']:
        raise TranslateError(f"compress: result assignment is {tail}")

    # ------------------------------------------------------------------ is_compressed
    ic = find_func(tree, 'is_compressed')
    ib = strip_doc(ic.body)
    if not (len(ib) == 1 and isinstance(ib[0], ast.Return) and isinstance(ib[0].value, ast.Call)
            and src(ib[0].value.func) == 'all' and isinstance(ib[0].value.args[0], ast.GeneratorExp)):
        raise TranslateError("is_compressed: not `return all(a in header for a in [...])`")
    ge = ib[0].value.args[0]
    if not (src(ge.elt) == 'a in header' and len(ge.generators) == 1 and not ge.generators[0].ifs
            and isinstance(ge.generators[0].iter, ast.List)
            and all(isinstance(e, ast.Constant) and isinstance(e.value, str) for e in ge.generators[0].iter.elts)):
        raise TranslateError("is_compressed: not `all(a in header for a in [<strings>])`")
    ckeys = [e.value for e in ge.generators[0].iter.elts]

    # ------------------------------------------------------------------ expand
    fe = find_func(tree, 'expand')
    eb = strip_doc(fe.body)
    want = ['hdulist = load_file_or_hdu(datafile)', 'header = hdulist[0].header', 'data = hdulist[0].data']
    if [src(s) for s in eb[:3]] != want:
        raise TranslateError(f"expand: load sequence is {[src(s) for s in eb[:3]]}")
    if src(eb[3]) != 'if not is_compressed(header):\n    return hdulist':
        raise TranslateError(f"expand: pass-through test is {src(eb[3])!r}")

    def key_of(name):
        a = [s for s in eb if isinstance(s, ast.Assign) and len(s.targets) == 1 and src(s.targets[0]) == name]
        if len(a) != 1 or _hdr_key(a[0].value) is None:
            raise TranslateError(f"expand: {name} is not assigned once from a header keyword")
        return _hdr_key(a[0].value)
    k_factor, k_lcx, k_lcy = key_of('factor'), key_of('lcx'), key_of('lcy')
    mg = [s for s in eb if isinstance(s, ast.Assign) and src(s.targets[0]) == '(gx, gy)']
    if len(mg) != 1:
        raise TranslateError("expand: (gx, gy) is not assigned exactly once")
    v = mg[0].value
    if not (isinstance(v, ast.Subscript) and src(v.value) == 'np.mgrid' and isinstance(v.slice, ast.Tuple)
            and len(v.slice.elts) == 2 and all(isinstance(e, ast.Slice) and e.step is None and e.lower is not None
                                               and src(e.lower) == '0' for e in v.slice.elts)):
        raise TranslateError(f"expand: grid is {src(v)}")
    k_grows, k_gcols = _hdr_key(v.slice.elts[0].upper), _hdr_key(v.slice.elts[1].upper)
    if k_grows is None or k_gcols is None:
        raise TranslateError(f"expand: grid limits are not header keywords: {src(v)}")

    def node(name, ar):
        a = [s for s in eb if isinstance(s, ast.Assign) and len(s.targets) == 1 and src(s.targets[0]) == name]
        if len(a) != 1:
            raise TranslateError(f"expand: {name} is not assigned exactly once")
        t = TrZq({ar: 'k', 'lcx': 'lcx', 'lcy': 'lcy', 'factor': 'factor'})
        return t.expr(a[0].value)
    rnode = node('rows', 'np.arange(data.shape[0])')
    cnode = node('cols', 'np.arange(data.shape[1])')
    interp = [s for s in eb if isinstance(s, ast.Assign) and src(s.targets[0]) == 'hdulist[0].data']
    if len(interp) != 1 or src(interp[0].value) != \
            'np.array(RegularGridInterpolator((rows, cols), data)((gx, gy)), dtype=np.float32)':
        raise TranslateError("expand: the interpolation is not "
                             "np.array(RegularGridInterpolator((rows, cols), data)((gx, gy)), dtype=np.float32)")
    hdr_assigns = [s for s in eb if isinstance(s, ast.Assign) and len(s.targets) == 1
                   and _hdr_key(s.targets[0]) is not None and _hdr_key(s.targets[0]) != 'HISTORY']
    if [_hdr_key(s.targets[0]) for s in hdr_assigns] != ['CRPIX1', 'CRPIX2']:
        raise TranslateError(f"expand: header assignments are {[_hdr_key(s.targets[0]) for s in hdr_assigns]}")
    ecr = [TrQ({f"header['{_hdr_key(s.targets[0])}']": 'crpix', 'factor': 'factor'}).expr(s.value)
           for s in hdr_assigns]
    chains = [s for s in eb if _is_scale_if(s)]
    if len(chains) != 2:
        raise TranslateError(f"expand: expected two CDELT/CD scale chains, found {len(chains)}")
    ekeys1 = _scale_chain(chains[0], 'expand', ast.Div)
    ekeys2 = _scale_chain(chains[1], 'expand', ast.Div)
    deleted = []
    for s in eb:
        if isinstance(s, ast.Delete):
            for t in s.targets:
                if _hdr_key(t) is None:
                    raise TranslateError(f"expand: unexpected del {src(t)}")
                deleted.append(_hdr_key(t))
        elif isinstance(s, ast.AugAssign) and 'header' in src(s):
            raise TranslateError(f"expand: unexpected header mutation {src(s)[:70]}")
    if src(eb[-1]) != 'return hdulist':
        raise TranslateError("expand: does not end in `return hdulist`")

    # ------------------------------------------------------------------ load_image_band: transparent expansion
    lb = find_func(tree, 'load_image_band')
    lsrc = [src(s) for s in ast.walk(lb) if isinstance(s, ast.stmt)]
    need = ['compressed = is_compressed(header)', 'hdulist = expand(filename)', 'header = hdulist[0].header',
            'return (hdulist[0].data[row_min:row_max, :], header)']
    for n in need:
        if n not in lsrc:
            raise TranslateError(f"load_image_band: statement `{n}` not found (transparent expansion)")
    iff = [s for s in ast.walk(lb) if isinstance(s, ast.If) and src(s.test) == 'compressed']
    if len(iff) != 2 or src(iff[0].body[0]) != 'hdulist = expand(filename)':
        raise TranslateError("load_image_band: `if compressed:` blocks changed")

    shape_params = '(rows cols factor : Z)'
    nn = f"({trz.env['nx']} {trz.env['ny']} : Z)"
    defs = []
    for nm, res in (('comp_nx', trz.env['nx']), ('comp_ny', trz.env['ny']),
                    ('comp_lcx', trz.env['lcx']), ('comp_lcy', trz.env['lcy'])):
        defs.append(f"Definition {nm} {shape_params} : Z :=\n{lets_text(lets, res)}.")
    bn_list = '[' + '; '.join(f"({_s(k)}, {v})" for k, v in bn) + ']'
    return HEADER_Z + f"""From Coq Require Import QArith String.
Import ListNotations.
Open Scope string_scope.
Open Scope Z_scope.

(* ---- fits_tools.compress *)
Definition comp_factor_ok (factor : Z) : bool := {guard}.
{chr(10).join(defs)}
(* np.empty((.., ..)) *)
Definition comp_out_rows {nn} : Z := {out_rows}.
Definition comp_out_cols {nn} : Z := {out_cols}.
(* new_data[:a, :b] = data[::s, ::t]; last row / col / corner copied from index -1 *)
Definition comp_fill_rows {nn} : Z := {ups_r.pop()}.
Definition comp_fill_cols {nn} : Z := {ups_c.pop()}.
Definition comp_stride_rows (factor : Z) : Z := {str_r.pop()}.
Definition comp_stride_cols (factor : Z) : Z := {str_c.pop()}.
(* if 'K1' in header: header['K1'] *= factor elif ... else return None *)
Definition comp_scale_keys1 : list string := {_slist(ckeys1)}.
Definition comp_scale_keys2 : list string := {_slist(ckeys2)}.
Definition comp_scale (v factor : Q) : Q := (v * factor)%Q.
Definition comp_crpix1 (crpix factor : Q) : Q := {ccr[0]}%Q.
Definition comp_crpix2 (crpix factor : Q) : Q := {ccr[1]}%Q.
Definition comp_bn (factor naxis1 naxis2 lcx lcy : Z) : list (string * Z) := {bn_list}.

(* ---- fits_tools.is_compressed *)
Definition compressed_keys : list string := {_slist(ckeys)}.

(* ---- fits_tools.expand *)
Definition exp_factor_key : string := {_s(k_factor)}.
Definition exp_grid_rows_key : string := {_s(k_grows)}.
Definition exp_grid_cols_key : string := {_s(k_gcols)}.
Definition exp_lcx_key : string := {_s(k_lcx)}.
Definition exp_lcy_key : string := {_s(k_lcy)}.
Definition exp_row_node (k lcx lcy factor : Z) : Z := {rnode}.
Definition exp_col_node (k lcx lcy factor : Z) : Z := {cnode}.
Definition exp_crpix1 (crpix factor : Q) : Q := {ecr[0]}%Q.
Definition exp_crpix2 (crpix factor : Q) : Q := {ecr[1]}%Q.
Definition exp_scale_keys1 : list string := {_slist(ekeys1)}.
Definition exp_scale_keys2 : list string := {_slist(ekeys2)}.
Definition exp_scale (v factor : Q) : Q := (v / factor)%Q.
Definition exp_deleted : list string := {_slist(deleted)}.

(* ---- fits_tools.load_image_band: `if compressed: hdulist = expand(filename)` and the band is cut from it *)
Definition load_expands_compressed : bool := true.
"""
