#!/bin/bash
# tools/integrate.sh <agent dir e.g. /tmp/ag/c15> : copy NEW files of an agent's scratch copy into /verif (never overwrites silently)
set -u
src=$1/verif
cd "$src" || exit 2
find tools coq corpus -type f \( -name '*.py' -o -name '*.v' -o -name '*.json' -o -name '*.sh' -o -name '*.md' \) ! -path '*/__pycache__/*' ! -name 'FAILED.json' | while read f; do
  if [ ! -e "/verif/$f" ]; then
    mkdir -p "/verif/$(dirname $f)"; cp "$f" "/verif/$f"; echo "NEW  $f"
  elif ! cmp -s "$f" "/verif/$f"; then
    echo "DIFF $f"
  fi
done
