"""C08 extraction point: the three same-depth set operations of regions.Region and get_demoted -> coq/Gen/RegionOps.v.

  without / intersect / symmetric_difference : the five-statement skeleton
        if not (self.maxdepth == other.maxdepth): raise AssertionError(..)
        self._demote_all()
        opd = set(other.get_demoted())
        self.pixeldict[self.maxdepth].<set method>(opd)
        self._renorm()
    and WHICH Python set method each of them applies (difference_update / intersection_update / symmetric_difference_update)
  get_demoted : self._demote_all() ; return self.demoted

The hand-written Model/RegionModel.v has the three operations as `setop f_without / f_intersect / f_symdiff`; Model/RegionOps.v
re-builds them from the generated method codes and Proofs/RegionOpsProofs.v proves the two coincide, so a method that applies
another set operation breaks a named lemma (and the correspondence on histories).  Fails closed on any other shape.
"""
import ast

from trcore import HEADER_Z, TranslateError, find_func, parse_file, point, src, strip_doc
from translate_points import _p

_METHODS = {'difference_update': 0, 'intersection_update': 1, 'symmetric_difference_update': 2}


def _need(ok, what):
    if not ok:
        raise TranslateError('RegionOps: ' + what)


def _setop(tree, name):
    fn = find_func(tree, name, cls='Region')
    _need([a.arg for a in fn.args.args] == ['self', 'other'], f'{name}(self, other)')
    b = strip_doc(fn.body)
    _need(len(b) in (5, 6), f'{name}: five statements (+ return)')
    if len(b) == 6:
        _need(isinstance(b[5], ast.Return) and b[5].value is None, f'{name}: trailing bare return')
    g = b[0]
    _need(isinstance(g, ast.If) and not g.orelse and src(g.test) in ('not self.maxdepth == other.maxdepth', 'self.maxdepth != other.maxdepth')
          and len(g.body) == 1 and isinstance(g.body[0], ast.Raise) and isinstance(g.body[0].exc, ast.Call)
          and src(g.body[0].exc.func) == 'AssertionError', f'{name}: same-depth guard raising AssertionError')
    _need(src(b[1]) == 'self._demote_all()', f'{name}: demotes first')
    _need(src(b[2]) == 'opd = set(other.get_demoted())', f'{name}: operand = a copy of the demoted pixels of other')
    c = b[3]
    _need(isinstance(c, ast.Expr) and isinstance(c.value, ast.Call) and isinstance(c.value.func, ast.Attribute)
          and src(c.value.func.value) == 'self.pixeldict[self.maxdepth]' and c.value.func.attr in _METHODS
          and len(c.value.args) == 1 and src(c.value.args[0]) == 'opd' and not c.value.keywords,
          f'{name}: one set method applied to self.pixeldict[self.maxdepth] with opd')
    _need(src(b[4]) == 'self._renorm()', f'{name}: renormalises last')
    return _METHODS[c.value.func.attr]


@point('RegionOps')
def gen_region_ops(repo):
    tree = parse_file(_p(repo, 'regions.py'))
    codes = {n: _setop(tree, n) for n in ('without', 'intersect', 'symmetric_difference')}
    gd = strip_doc(find_func(tree, 'get_demoted', cls='Region').body)
    _need(len(gd) == 2 and src(gd[0]) == 'self._demote_all()' and isinstance(gd[1], ast.Return) and src(gd[1].value) == 'self.demoted',
          'get_demoted: demote, return the cache')
    return HEADER_Z + f"""
(* regions.Region: the Python set method each same-depth operation applies to pixeldict[maxdepth]
   0 = difference_update   1 = intersection_update   2 = symmetric_difference_update *)
Definition op_without : Z := {codes['without']}.
Definition op_intersect : Z := {codes['intersect']}.
Definition op_symmetric_difference : Z := {codes['symmetric_difference']}.
(* each: AssertionError unless the depths agree; _demote_all; operand = set(other.get_demoted()); the method; _renorm *)
Definition setop_skeleton_ok : bool := true.
(* get_demoted: _demote_all, then the cache (the same object as pixeldict[maxdepth]) is returned *)
Definition get_demoted_returns_cache : bool := true.
"""
