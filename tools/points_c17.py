"""C17 extraction points (AegeanTools/angle_tools.py).

Sphere      : gcd / bear / translate as whole straight-line functions, R back end.
Sexagesimal : dec2dms / dec2hms - the divmod chain over Z (Z back end), the scale constant of the
              single rounding `cs = int(round(x * K))`, the wrap constant of dec2hms, the parse
              arithmetic of dec2dec / ra2dec (R back end).  Everything that is not arithmetic
              (finite test, sign test, abs, format string and its argument order, the sign test
              of dec2dec, the split on ':' / white space) is recognised from the AST shape and
              refused when different (fail closed).
"""
import ast

from trcore import (HEADER_R, HEADER_Z, Tr, TranslateError, block_lets, find_func, lets_text,
                    parse_file, point, src, strip_doc)
from translate_points import _p


def _plain_args(fn, names):
    a = fn.args
    if [x.arg for x in a.args] != names or a.vararg or a.kwarg or a.kwonlyargs or a.defaults or \
            getattr(a, 'posonlyargs', []) or fn.decorator_list:
        raise TranslateError(f"{fn.name}: signature is not ({', '.join(names)})")


class TrR(Tr):
    """R back end + np.clip(x, lo, hi) (numpy: minimum(hi, maximum(lo, x)))"""

    def __init__(self, env=None):
        super().__init__('R', env)

    def e_Call(self, n):
        if not n.keywords and len(n.args) == 3 and self.name_of_call(n.func) == 'clip':
            x, lo, hi = (self.expr(a) for a in n.args)
            return f"(Rmin {hi} (Rmax {lo} {x}))"
        return super().e_Call(n)


def _whole(fn, names):
    """straight-line function: assignments to plain names, one final return (value or tuple)"""
    _plain_args(fn, names)
    tr = TrR({n: n for n in names})
    lets, rest = block_lets(strip_doc(fn.body), tr)
    if len(rest) != 1 or not isinstance(rest[0], ast.Return) or rest[0].value is None:
        raise TranslateError(f"{fn.name}: not straight-line ({src(rest[0])[:60] if rest else 'no return'})")
    rv = rest[0].value
    if isinstance(rv, ast.Tuple):
        res = '(' + ', '.join(tr.expr(e) for e in rv.elts) + ')'
        n = len(rv.elts)
    else:
        res, n = tr.expr(rv), 1
    return lets_text(lets, res), n


@point('Sphere')
def gen_sphere(repo):
    tree = parse_file(_p(repo, 'angle_tools.py'))
    g, ng = _whole(find_func(tree, 'gcd'), ['ra1', 'dec1', 'ra2', 'dec2'])
    b, nb = _whole(find_func(tree, 'bear'), ['ra1', 'dec1', 'ra2', 'dec2'])
    t, nt = _whole(find_func(tree, 'translate'), ['ra', 'dec', 'r', 'theta'])
    if (ng, nb, nt) != (1, 1, 2):
        raise TranslateError("angle_tools: gcd/bear must return one value and translate a pair")
    return HEADER_R + f"""
(* angle_tools.gcd *)
Definition gcd (ra1 dec1 ra2 dec2 : R) : R :=
{g}.

(* angle_tools.bear *)
Definition bear (ra1 dec1 ra2 dec2 : R) : R :=
{b}.

(* angle_tools.translate: returns (ra_out, dec_out) *)
Definition translate (ra dec r theta : R) : R * R :=
{t}.
"""


# ------------------------------------------------------------------------------------------
def _divmod_chain(stmts, tr, first):
    """`a, cs = divmod(cs, K)` and `h %= K` statements -> lets; returns (lets, names in order, rest)"""
    lets, rest = [], []
    cur = {first: first}
    fields = []

    def fresh(nm):
        new = 'v_' + nm
        while any(n == new for n, _ in lets):
            new += "'"
        return new
    for k, st in enumerate(stmts):
        if isinstance(st, ast.Assign) and len(st.targets) == 1 and isinstance(st.targets[0], ast.Tuple) \
                and len(st.targets[0].elts) == 2 and all(isinstance(e, ast.Name) for e in st.targets[0].elts) \
                and isinstance(st.value, ast.Call) and src(st.value.func) == 'divmod' and len(st.value.args) == 2 \
                and not st.value.keywords:
            a = tr.expr(st.value.args[0])
            b = tr.expr(st.value.args[1])
            if not (isinstance(st.value.args[1], ast.Constant) and isinstance(st.value.args[1].value, int)
                    and st.value.args[1].value > 0):
                raise TranslateError(f"divmod by something that is not a positive int literal: {src(st)}")
            q, r = st.targets[0].elts[0].id, st.targets[0].elts[1].id
            if q == r:
                raise TranslateError(f"divmod targets: {src(st)}")
            nq, nr = fresh(q), None
            lets.append((nq, f"({a} / {b})"))
            nr = fresh(r)
            lets.append((nr, f"({a} mod {b})"))
            tr.env[q], tr.env[r] = nq, nr
            if q not in fields:
                fields.append(q)
        elif isinstance(st, ast.AugAssign) and isinstance(st.target, ast.Name) and isinstance(st.op, ast.Mod) \
                and isinstance(st.value, ast.Constant) and isinstance(st.value.value, int) and st.value.value > 0 \
                and st.target.id in tr.env:
            nm = st.target.id
            new = fresh(nm)
            lets.append((new, f"({tr.env[nm]} mod {tr.expr(st.value)})"))
            tr.env[nm] = new
        else:
            rest = stmts[k:]
            break
    return lets, fields, rest


def _round_once(st, var):
    """`cs = int(round(x * K))` -> K"""
    if not (isinstance(st, ast.Assign) and len(st.targets) == 1 and src(st.targets[0]) == 'cs'):
        raise TranslateError(f"expected `cs = int(round({var} * K))`, found {src(st)[:60]}")
    v = st.value
    ok = (isinstance(v, ast.Call) and src(v.func) == 'int' and len(v.args) == 1 and not v.keywords
          and isinstance(v.args[0], ast.Call) and src(v.args[0].func) == 'round' and len(v.args[0].args) == 1
          and not v.args[0].keywords and isinstance(v.args[0].args[0], ast.BinOp)
          and isinstance(v.args[0].args[0].op, ast.Mult) and src(v.args[0].args[0].left) == var
          and isinstance(v.args[0].args[0].right, ast.Constant) and isinstance(v.args[0].args[0].right.value, int)
          and v.args[0].args[0].right.value > 0)
    if not ok:
        raise TranslateError(f"rounding step is not `int(round({var} * <int literal>))`: {src(st)}")
    return v.args[0].args[0].right.value


def _finite_guard(st):
    if not (isinstance(st, ast.If) and src(st.test) == 'not np.isfinite(x)' and not st.orelse and len(st.body) == 1
            and src(st.body[0]) == "return 'XX:XX:XX.XX'"):
        raise TranslateError("finite guard is not `if not np.isfinite(x): return 'XX:XX:XX.XX'`")


def _format(st, fmt, args):
    want = f"return {fmt!r}.format({', '.join(args)})"
    if src(st) != want:
        raise TranslateError(f"format statement is `{src(st)}`, expected `{want}`")


@point('Sexagesimal')
def gen_sexagesimal(repo):
    tree = parse_file(_p(repo, 'angle_tools.py'))
    # ---- dec2dms
    fn = find_func(tree, 'dec2dms')
    _plain_args(fn, ['x'])
    body = strip_doc(fn.body)
    if len(body) < 5:
        raise TranslateError("dec2dms: body too short")
    _finite_guard(body[0])
    st = body[1]
    if not (isinstance(st, ast.If) and src(st.test) == 'x < 0' and [src(s) for s in st.body] == ["sign = '-'"]
            and [src(s) for s in st.orelse] == ["sign = '+'"]):
        raise TranslateError("dec2dms: sign selection is not `if x < 0: sign = '-' else: sign = '+'`")
    if src(body[2]) != 'x = abs(x)':
        raise TranslateError("dec2dms: `x = abs(x)` expected after the sign selection")
    kd = _round_once(body[3], 'x')
    tr = Tr('Z', {'cs': 'cs'})
    lets, fields, rest = _divmod_chain(body[4:], tr, 'cs')
    if fields != ['d', 'm', 's'] or len(rest) != 1:
        raise TranslateError(f"dec2dms: divmod chain yields {fields}, then {[src(r)[:40] for r in rest]}")
    _format(rest[0], '{0}{1:02d}:{2:02d}:{3:02d}.{4:02d}', ['sign', 'd', 'm', 's', 'cs'])
    dms = lets_text(lets, '(' + ', '.join(tr.env[n] for n in ['d', 'm', 's', 'cs']) + ')')
    # ---- dec2hms
    fn = find_func(tree, 'dec2hms')
    _plain_args(fn, ['x'])
    body = strip_doc(fn.body)
    if len(body) < 4:
        raise TranslateError("dec2hms: body too short")
    _finite_guard(body[0])
    st = body[1]
    if not (isinstance(st, ast.If) and src(st.test) == 'x < 0' and not st.orelse and len(st.body) == 1
            and isinstance(st.body[0], ast.AugAssign) and isinstance(st.body[0].op, ast.Add)
            and src(st.body[0].target) == 'x' and isinstance(st.body[0].value, ast.Constant)
            and isinstance(st.body[0].value.value, int)):
        raise TranslateError("dec2hms: wrap is not `if x < 0: x += <int literal>`")
    wrap = st.body[0].value.value
    kh = _round_once(body[2], 'x')
    tr = Tr('Z', {'cs': 'cs'})
    lets, fields, rest = _divmod_chain(body[3:], tr, 'cs')
    if fields != ['h', 'm', 's'] or len(rest) != 1:
        raise TranslateError(f"dec2hms: divmod chain yields {fields}, then {[src(r)[:40] for r in rest]}")
    _format(rest[0], '{0:02d}:{1:02d}:{2:02d}.{3:02d}', ['h', 'm', 's', 'cs'])
    hms = lets_text(lets, '(' + ', '.join(tr.env[n] for n in ['h', 'm', 's', 'cs']) + ')')
    # ---- dec2dec / ra2dec
    fn = find_func(tree, 'dec2dec')
    _plain_args(fn, ['dec'])
    body = strip_doc(fn.body)
    want = ["d = dec.replace(':', ' ').split()", "if len(d) == 2:\n    d.append('0.0')"]
    if len(body) != 4 or [src(s) for s in body[:2]] != want:
        raise TranslateError("dec2dec: field split is not `d = dec.replace(':', ' ').split()` + default seconds")
    st = body[2]
    if not (isinstance(st, ast.If) and src(st.test) == "d[0].startswith('-') or float(d[0]) < 0" and not st.orelse
            and len(st.body) == 1 and isinstance(st.body[0], ast.Return) and isinstance(body[3], ast.Return)):
        raise TranslateError("dec2dec: sign test is not `if d[0].startswith('-') or float(d[0]) < 0: return ..`")
    trr = Tr('R', {'float(d[0])': 'f0', 'float(d[1])': 'f1', 'float(d[2])': 'f2'})
    pneg = trr.expr(st.body[0].value)
    ppos = trr.expr(body[3].value)
    fn = find_func(tree, 'ra2dec')
    _plain_args(fn, ['ra'])
    body = strip_doc(fn.body)
    if len(body) != 1 or not isinstance(body[0], ast.Return):
        raise TranslateError("ra2dec: not a single return")
    trr = Tr('R', {'dec2dec(ra)': 'v'})
    r2d = trr.expr(body[0].value)
    zpart = HEADER_Z + f"""
(* angle_tools.dec2dms: cs = int(round(abs x * dms_scale)), then the divmod chain; the printed
   fields are (d, m, s, cs) with format [+-]DD:MM:SS.CC (every field zero-padded to 2 digits) *)
Definition dms_scale : Z := {kd}.
Definition dms_split (cs : Z) : Z * Z * Z * Z :=
{dms}.

(* angle_tools.dec2hms: negative x is replaced by x + hms_wrap, cs = int(round(x * hms_scale)) *)
Definition hms_wrap : Z := {wrap}.
Definition hms_scale : Z := {kh}.
Definition hms_split (cs : Z) : Z * Z * Z * Z :=
{hms}.
"""
    rpart = f"""
(* angle_tools.dec2dec (f0 f1 f2 = float of the three fields; the negative branch is taken when the
   first field starts with '-' or is negative) and ra2dec *)
From Coq Require Import Reals.
Definition parse_neg (f0 f1 f2 : R) : R := {pneg}%R.
Definition parse_pos (f0 f1 f2 : R) : R := {ppos}%R.
Definition ra_of_parse (v : R) : R := {r2d}%R.
"""
    return zpart + rpart
