"""C05 extraction point: the placement / vary / copy-back leaves of priorized fitting.

source_finder.SourceFinder._refit_islands, .result_to_components, .priorized_fit_islands and
flags.py  ->  coq/Gen/Priorized.v

All arithmetic leaves are translated with a Q back end (exact rationals; defined here, on top of
trcore.Tr): Python `/` is rational division, `//` is floor of the quotient, `int()` truncation,
`round()` round-half-even, min/max Python's.  That back end can express both the repaired
`x - xwidth // 2` and the old `x - xwidth / 2`, so the registration theorem is a real obligation on
whatever the tree contains.  Everything that is not arithmetic (which expression feeds which
parameter, order of the reject test relative to the bookkeeping, which error columns are copied
under which test, the uuid copy, the flag that is set) is recognised from the AST shape and either
becomes an enumerated constant or makes the translator refuse (fail closed).
"""
import ast
from fractions import Fraction

from trcore import Tr, TranslateError, find_func, parse_file, point, src, strip_doc
from translate_points import _p

HEADER_Q = ("From Coq Require Import ZArith QArith Bool List.\nFrom Aegean Require Import Lib.QPy.\n"
            "Open Scope Q_scope.\n")


class TrQ(Tr):
    """exact-rational back end"""

    def __init__(self, env=None):
        self.b = 'Q'
        self.env = dict(env or {})

    def lit(self, v):
        if isinstance(v, bool):
            raise TranslateError("bool literal in arithmetic")
        if isinstance(v, int):
            return f"({v} # 1)"
        if isinstance(v, float):
            fr = Fraction(v)
            return f"({fr.numerator} # {fr.denominator})"
        raise TranslateError(f"literal {v!r}")

    def e_Attribute(self, n):
        raise TranslateError(f"attribute {src(n)}")

    def e_BinOp(self, n):
        a, b = self.expr(n.left), self.expr(n.right)
        op = type(n.op)
        if op is ast.Add:
            return f"({a} + {b})"
        if op is ast.Sub:
            return f"({a} - {b})"
        if op is ast.Mult:
            return f"({a} * {b})"
        if op is ast.Div:
            return f"({a} / {b})"
        if op is ast.FloorDiv:
            return f"(floordiv {a} {b})"
        raise TranslateError(f"operator {src(n)}")

    def e_Call(self, n):
        if n.keywords:
            raise TranslateError(f"keyword arguments {src(n)}")
        f = self.name_of_call(n.func)
        a = n.args
        if f in ('min', 'max') and len(a) >= 2 and not any(isinstance(x, ast.Starred) for x in a):
            # Python's min(a, b, c) keeps the first minimal element: a left fold of the two-argument form
            r = self.expr(a[0])
            for x in a[1:]:
                r = f"(q{f} {r} {self.expr(x)})"
            return r
        if f == 'int' and len(a) == 1:
            # int(round(e)) is one rounding; a bare int(e) truncates
            if isinstance(a[0], ast.Call) and isinstance(a[0].func, ast.Name) and a[0].func.id == 'round' \
                    and len(a[0].args) == 1 and not a[0].keywords:
                return f"(inject_Z (round_half_even {self.expr(a[0].args[0])}))"
            return f"(inject_Z (Qtrunc {self.expr(a[0])}))"
        if f == 'round' and len(a) == 1:
            return f"(inject_Z (round_half_even {self.expr(a[0])}))"
        if f == 'float' and len(a) == 1:
            return self.expr(a[0])
        raise TranslateError(f"call {src(n)}")

    def cmp(self, op, a, b):
        t = {ast.Lt: f"(Qltb {a} {b})", ast.LtE: f"(Qleb {a} {b})", ast.Gt: f"(Qltb {b} {a})",
             ast.GtE: f"(Qleb {b} {a})"}
        if type(op) not in t:
            raise TranslateError(f"comparison {type(op).__name__}")
        return t[type(op)]


class TrReject(TrQ):
    """the accept test: arithmetic comparisons plus three recognised non-arithmetic atoms"""
    ATOMS = {'np.isfinite(data[x, y])': 'data_finite', 'np.isfinite(rmsimg[x, y])': 'rms_finite'}

    def cond(self, n):
        s = src(n)
        if s in self.ATOMS:
            return self.ATOMS[s]
        if s == 'pixbeam is None':
            return '(negb beam_known)'
        if s == 'pixbeam is not None':
            return 'beam_known'
        if isinstance(n, ast.Call):
            raise TranslateError(f"accept test: unrecognised atom {s}")
        return super().cond(n)


def _aug_as_binop(st):
    return ast.BinOp(left=ast.Name(id=src(st.target), ctx=ast.Load()), op=st.op, right=st.value)


def _only(seq, what):
    seq = list(seq)
    if len(seq) != 1:
        raise TranslateError(f"_refit_islands: expected exactly one {what}, found {len(seq)}")
    return seq[0]


def _index_of(body, pred, what):
    idx = [k for k, s in enumerate(body) if pred(s)]
    if len(idx) != 1:
        raise TranslateError(f"_refit_islands: expected exactly one {what}, found {len(idx)}")
    return idx[0]


def _is_assign_to(st, text):
    return isinstance(st, ast.Assign) and len(st.targets) == 1 and src(st.targets[0]) == text


def _is_aug(st, text, op=None):
    return isinstance(st, ast.AugAssign) and src(st.target) == text and (op is None or isinstance(st.op, op))


@point('Priorized')
def gen_priorized(repo):
    tree = parse_file(_p(repo, 'source_finder.py'))
    fn = find_func(tree, '_refit_islands', cls='SourceFinder')
    body = strip_doc(fn.body)

    # ---- module constants
    consts = {src(s.targets[0]): src(s.value) for s in tree.body
              if isinstance(s, ast.Assign) and len(s.targets) == 1 and isinstance(s.targets[0], ast.Name)}
    if consts.get('CC2FHWM') != '2 * math.sqrt(2 * math.log(2))' or consts.get('FWHM2CC') != '1 / CC2FHWM':
        raise TranslateError(f"CC2FHWM / FWHM2CC are {consts.get('CC2FHWM')} / {consts.get('FWHM2CC')}")

    # ---- outer loop over islands
    outer = _only([s for s in body if isinstance(s, ast.For)], 'island loop')
    if src(outer.target) != '(inum, isle)' or src(outer.iter) != 'enumerate(group, start=istart)':
        raise TranslateError(f"_refit_islands: island loop is `for {src(outer.target)} in {src(outer.iter)}`")
    pre = {src(s.targets[0]): src(s.value) for s in body if isinstance(s, ast.Assign) and len(s.targets) == 1}
    if pre.get('data') != 'global_data.img' or pre.get('rmsimg') != 'global_data.rmsimg':
        raise TranslateError("_refit_islands: data / rmsimg are not global_data.img / global_data.rmsimg")
    ob = outer.body

    # initial bounds:  shape = data.shape ; xmin, ymin = shape ; xmax = ymax = 0
    if not any(_is_assign_to(s, 'shape') and src(s.value) == 'data.shape' for s in ob):
        raise TranslateError("_refit_islands: shape = data.shape")
    init = {}
    for s in ob:
        if isinstance(s, ast.Assign) and len(s.targets) == 1 and isinstance(s.targets[0], ast.Tuple) \
                and src(s.targets[0]) == '(xmin, ymin)':
            if src(s.value) != 'shape':
                raise TranslateError(f"_refit_islands: xmin, ymin = {src(s.value)}")
            init['xmin'], init['ymin'] = 'rows', 'cols'
        if isinstance(s, ast.Assign) and sorted(src(t) for t in s.targets) == ['xmax', 'ymax']:
            v = TrQ().expr(s.value)
            init['xmax'] = init['ymax'] = v
    if sorted(init) != ['xmax', 'xmin', 'ymax', 'ymin']:
        raise TranslateError(f"_refit_islands: initial cut-out bounds not found ({sorted(init)})")

    # ---- inner loop over the sources of an island
    inner_k = _index_of(ob, lambda s: isinstance(s, ast.For) and src(s.target) == 'src' and src(s.iter) == 'isle',
                        '`for src in isle` loop')
    inner = ob[inner_k].body
    if ob[inner_k].orelse:
        raise TranslateError("_refit_islands: source loop has an else clause")

    k_s2p = _index_of(inner, lambda s: _is_assign_to(s, '(source_x, source_y)'), 'sky2pix call')
    if src(inner[k_s2p].value) != 'global_data.wcshelper.sky2pix([src.ra, src.dec])':
        raise TranslateError(f"_refit_islands: source_x, source_y = {src(inner[k_s2p].value)}")
    # FITS (1-based) -> array index
    k_fx = _index_of(inner, lambda s: _is_aug(s, 'source_x'), 'source_x adjustment')
    k_fy = _index_of(inner, lambda s: _is_aug(s, 'source_y'), 'source_y adjustment')
    f2a_x = TrQ({'source_x': 'p'}).expr(_aug_as_binop(inner[k_fx]))
    f2a_y = TrQ({'source_y': 'p'}).expr(_aug_as_binop(inner[k_fy]))
    k_x = _index_of(inner, lambda s: _is_assign_to(s, 'x'), 'assignment to x')
    k_y = _index_of(inner, lambda s: _is_assign_to(s, 'y'), 'assignment to y')
    if not (k_s2p < k_fx < k_x and k_s2p < k_fy < k_y):
        raise TranslateError("_refit_islands: order of sky2pix / -= 1 / rounding")
    near_x = TrQ({'source_x': 'p'}).expr(inner[k_x].value)
    near_y = TrQ({'source_y': 'p'}).expr(inner[k_y].value)

    # accept / reject test; an earlier guard that skips positions the WCS cannot project (NaN) is recognised
    k_skips = [k for k, s in enumerate(inner) if isinstance(s, ast.If) and any(isinstance(t, ast.Continue) for t in s.body)]
    guards_nan = False
    if len(k_skips) == 2:
        g = inner[k_skips[0]]
        if src(g.test) not in ('not (np.isfinite(source_x) and np.isfinite(source_y))',
                               'not np.isfinite(source_x) or not np.isfinite(source_y)',
                               'not np.all(np.isfinite((source_x, source_y)))',
                               'not np.all(np.isfinite([source_x, source_y]))') or g.orelse \
                or not isinstance(g.body[-1], ast.Continue) or not (k_s2p < k_skips[0] < min(k_x, k_y)) \
                or any(not (isinstance(s, ast.Expr) and isinstance(s.value, ast.Call) and src(s.value.func).startswith('self.log.'))
                       for s in g.body[:-1]):
            raise TranslateError(f"_refit_islands: unrecognised early skip `if {src(g.test)[:60]}`")
        guards_nan = True
        k_skips = k_skips[1:]
    if len(k_skips) != 1:
        raise TranslateError(f"_refit_islands: expected exactly one reject test (`if ...: continue`), found {len(k_skips)}")
    k_rej = k_skips[0]
    rej = inner[k_rej]
    if not isinstance(rej.body[-1], ast.Continue):
        raise TranslateError("_refit_islands: reject branch does not end in continue")
    for s in rej.body[:-1]:
        if not (isinstance(s, ast.Expr) and isinstance(s.value, ast.Call) and src(s.value.func).startswith('self.log.')):
            raise TranslateError(f"_refit_islands: reject branch does more than log: {src(s)[:60]}")
    for s in rej.orelse:
        if not _is_assign_to(s, 'src_valid_psf'):
            raise TranslateError(f"_refit_islands: else branch of the reject test: {src(s)[:60]}")
    rejected = TrReject({'x': 'x', 'y': 'y', 'shape[0]': 'rows', 'shape[1]': 'cols'}).cond(rej.test)
    if not (k_x < k_rej and k_y < k_rej):
        raise TranslateError("_refit_islands: reject test before the pixel is computed")

    # shape in pixels
    k_ell = _index_of(inner, lambda s: _is_assign_to(s, '(_, _, sx, sy, theta)'), 'sky2pix_ellipse call')
    if src(inner[k_ell].value) != ('global_data.wcshelper.sky2pix_ellipse([src.ra, src.dec], src.a / 3600, '
                                   'src.b / 3600, src.pa)'):
        raise TranslateError(f"_refit_islands: shape conversion is {src(inner[k_ell].value)}")
    to_deg = TrQ({'src.a': 'a'}).expr(inner[k_ell].value.args[1])
    if TrQ({'src.b': 'a'}).expr(inner[k_ell].value.args[2]) != to_deg:
        raise TranslateError("_refit_islands: a and b are converted to degrees differently")
    k_sx = _index_of(inner, lambda s: _is_aug(s, 'sx'), 'sx scaling')
    k_sy = _index_of(inner, lambda s: _is_aug(s, 'sy'), 'sy scaling')
    to_cc = TrQ({'sx': 's', 'FWHM2CC': 'k'}).expr(_aug_as_binop(inner[k_sx]))
    if TrQ({'sy': 's', 'FWHM2CC': 'k'}).expr(_aug_as_binop(inner[k_sy])) != to_cc:
        raise TranslateError("_refit_islands: sx and sy are scaled differently")

    # cut-out widths
    k_w = _index_of(inner, lambda s: _is_assign_to(s, 'width'), 'assignment to width')
    k_xw = _index_of(inner, lambda s: _is_assign_to(s, 'xwidth'), 'assignment to xwidth')
    k_yw = _index_of(inner, lambda s: _is_assign_to(s, 'ywidth'), 'assignment to ywidth')
    if not (k_ell < k_sx < k_w < k_xw and k_ell < k_sy < k_w < k_yw):
        raise TranslateError("_refit_islands: order of shape conversion / FWHM2CC scaling / width")
    trw = TrQ({'sx': 'sx', 'sy': 'sy'})
    trw.env['width'] = trw.expr(inner[k_w].value)
    xwidth = trw.expr(inner[k_xw].value)
    ywidth = trw.expr(inner[k_yw].value)

    # bound updates
    upd = {}
    for nm in ('xmin', 'ymin', 'xmax', 'ymax'):
        k = _index_of(inner, lambda s, nm=nm: _is_assign_to(s, nm), f'update of {nm}')
        if not (k_rej < k and k_xw < k and k_yw < k):
            raise TranslateError(f"_refit_islands: {nm} is updated before the reject test / the widths")
        upd[nm] = TrQ({'xmin': 'xmin', 'xmax': 'xmax', 'ymin': 'ymin', 'ymax': 'ymax', 'x': 'x', 'y': 'y',
                       'xwidth': 'xw', 'ywidth': 'yw', 'shape[0]': 'rows', 'shape[1]': 'cols'}).expr(inner[k].value)
        # a bound may only depend on its own running value
        for other in ('xmin', 'ymin', 'xmax', 'ymax'):
            if other != nm and other in [n.id for n in ast.walk(inner[k].value) if isinstance(n, ast.Name)]:
                raise TranslateError(f"_refit_islands: update of {nm} reads {other}")

    # params.add(prefix + '<p>', value=..., [min=..., max=...,] vary=...)
    adds = {}
    for k, s in enumerate(inner):
        if isinstance(s, ast.Expr) and isinstance(s.value, ast.Call) and src(s.value.func) == 'params.add':
            c = s.value
            if len(c.args) != 1 or not (isinstance(c.args[0], ast.BinOp) and src(c.args[0].left) == 'prefix'
                                        and isinstance(c.args[0].right, ast.Constant)):
                raise TranslateError(f"_refit_islands: params.add argument {src(c)[:60]}")
            nm = c.args[0].right.value
            if nm in adds:
                raise TranslateError(f"_refit_islands: parameter {nm} added twice")
            if k < k_rej:
                raise TranslateError(f"_refit_islands: parameter {nm} added before the reject test")
            adds[nm] = {kw.arg: kw.value for kw in c.keywords}
    if sorted(adds) != sorted(['amp', 'xo', 'yo', 'sx', 'sy', 'theta', 'flags']):
        raise TranslateError(f"_refit_islands: parameters added per source: {sorted(adds)}")
    want_value = {'amp': 'src.peak_flux', 'xo': 'source_x', 'yo': 'source_y', 'sx': 'sx', 'sy': 'sy',
                  'theta': 'theta', 'flags': '0'}
    for nm, w in want_value.items():
        if src(adds[nm].get('value', ast.Constant(None))) != w:
            raise TranslateError(f"_refit_islands: value of {nm} is {src(adds[nm].get('value', ast.Constant(None)))}")
    # the values used must be the adjusted / scaled ones
    k_add0 = min(k for k, s in enumerate(inner) if isinstance(s, ast.Expr) and isinstance(s.value, ast.Call)
                 and src(s.value.func) == 'params.add')
    if not (k_fx < k_add0 and k_fy < k_add0 and k_sx < k_add0 and k_sy < k_add0):
        raise TranslateError("_refit_islands: parameters are added before the -= 1 / FWHM2CC adjustments")
    trs = Tr('Z', {'stage': 'stage'})
    vary = {}
    for nm in ('amp', 'xo', 'yo', 'sx', 'sy', 'theta'):
        v = adds[nm].get('vary')
        if v is None:
            raise TranslateError(f"_refit_islands: {nm} has no vary keyword")
        if isinstance(v, ast.Constant) and v.value is True:
            vary[nm] = 'true'
        elif isinstance(v, ast.Constant) and v.value is False:
            vary[nm] = 'false'
        else:
            vary[nm] = trs.cond(v)
    if not (isinstance(adds['flags'].get('vary'), ast.Constant) and adds['flags']['vary'].value is False):
        raise TranslateError("_refit_islands: the flags pseudo-parameter must not vary")
    trb = TrQ({'source_x': 'p', 'source_y': 'p', 'sx': 's', 'sy': 's'})
    lim = {}
    for nm in ('xo', 'yo'):
        for kw in ('min', 'max'):
            if kw not in adds[nm]:
                raise TranslateError(f"_refit_islands: {nm} has no {kw}")
            lim[nm + kw] = trb.expr(adds[nm][kw])
    # shape limits: s_lims = [lower, upper]; sx and sy both use them.  lmfit clips the initial value into
    # [min, max] when the parameter is added, whether or not it varies
    k_sl = _index_of(inner, lambda s: _is_assign_to(s, 's_lims'), 'assignment to s_lims')
    slv = inner[k_sl].value
    if not (isinstance(slv, ast.List) and len(slv.elts) == 2) or not (k_sx < k_sl < k_add0 and k_sy < k_sl):
        raise TranslateError(f"_refit_islands: s_lims = {src(slv)}")
    trl = TrQ({'sx': 'sx', 'sy': 'sy', 'pixbeam.b': 'beam_b', 'pixbeam.a': 'beam_a', 'FWHM2CC': 'k'})
    shape_lo, shape_hi = trl.expr(slv.elts[0]), trl.expr(slv.elts[1])
    for nm in ('sx', 'sy'):
        if src(adds[nm].get('min', ast.Constant(None))) != 's_lims[0]' or src(adds[nm].get('max', ast.Constant(None))) != 's_lims[1]':
            raise TranslateError(f"_refit_islands: limits of {nm} are not s_lims[0] / s_lims[1]")
    for nm in ('amp', 'theta'):
        if 'min' in adds[nm] or 'max' in adds[nm]:
            raise TranslateError(f"_refit_islands: {nm} has limits")
    k_pb = _index_of(inner, lambda s: _is_assign_to(s, 'pixbeam'), 'assignment to pixbeam')
    if src(inner[k_pb].value) != 'Beam(*global_data.psfhelper.get_psf_sky2pix(src.ra, src.dec))':
        raise TranslateError(f"_refit_islands: pixbeam = {src(inner[k_pb].value)}")
    # bookkeeping after the parameters
    k_inc = _index_of(inner, lambda s: isinstance(s, ast.Expr) and src(s.value) == 'included_sources.append(src)',
                      'included_sources.append(src)')
    k_i = _index_of(inner, lambda s: _is_aug(s, 'i', ast.Add) and src(s.value) == '1', 'i += 1')
    if not (k_rej < k_inc and k_rej < k_i):
        raise TranslateError("_refit_islands: a rejected source is counted / included")
    if not any(_is_assign_to(s, 'included_sources') and src(s.value) == '[]' for s in ob[:inner_k]):
        raise TranslateError("_refit_islands: included_sources is not reset per island")
    if not any(_is_assign_to(s, 'i') and src(s.value) == '0' for s in ob[:inner_k]):
        raise TranslateError("_refit_islands: i is not reset per island")
    if not any(_is_assign_to(s, 'params') and src(s.value) == 'lmfit.Parameters()' for s in ob[:inner_k]):
        raise TranslateError("_refit_islands: params is not reset per island")

    # ---- after the source loop
    rest = ob[inner_k + 1:]
    k_none = _index_of(rest, lambda s: isinstance(s, ast.If) and src(s.test) == 'i == 0', '`if i == 0` test')
    if not isinstance(rest[k_none].body[-1], ast.Continue):
        raise TranslateError("_refit_islands: island without accepted sources is not skipped")
    # shift into the cut-out frame
    k_shift = _index_of(rest, lambda s: isinstance(s, ast.For) and src(s.iter) == "range(int(params['components'].value))"
                        and any(isinstance(t, ast.AugAssign) for t in s.body), 'shift loop')
    shifts = [(src(t.target), t) for t in rest[k_shift].body if isinstance(t, ast.AugAssign)]
    names = [t for t, _ in shifts]
    want = [f"params[prefix + '{c}'].{f}" for c in ('xo', 'yo') for f in ('min', 'max', 'value')]
    if sorted(names) != sorted(want):
        raise TranslateError(f"_refit_islands: shift loop updates {names}")
    trsh = TrQ({'xmin': 'xmin', 'xmax': 'xmax', 'ymin': 'ymin', 'ymax': 'ymax'})
    sh = {}
    for t, st in shifts:
        if not isinstance(st.op, ast.Sub):
            raise TranslateError(f"_refit_islands: {t} is not shifted with -=")
        c = 'x' if "'xo'" in t else 'y'
        e = trsh.expr(st.value)
        if sh.setdefault(c, e) != e:
            raise TranslateError(f"_refit_islands: min / max / value of {c}o are shifted by different amounts")
    limits_first = all(names.index(f"params[prefix + '{c}'].value") > max(names.index(f"params[prefix + '{c}'].min"),
                                                                         names.index(f"params[prefix + '{c}'].max"))
                       for c in ('xo', 'yo'))
    # data cut-out
    k_idata = _index_of(rest, lambda s: _is_assign_to(s, 'idata'), 'assignment to idata')
    iv = rest[k_idata].value
    if not (isinstance(iv, ast.Call) and src(iv.func).endswith('.copy') and isinstance(iv.func.value, ast.Subscript)
            and src(iv.func.value.value) == 'data' and isinstance(iv.func.value.slice, ast.Tuple)
            and len(iv.func.value.slice.elts) == 2 and all(isinstance(e, ast.Slice) and e.step is None and e.lower is not None
                                                          and e.upper is not None for e in iv.func.value.slice.elts)):
        raise TranslateError(f"_refit_islands: idata = {src(iv)}")
    if not k_shift < k_idata:
        pass  # order of the shift and the slice is irrelevant: both read the same final bounds
    sl = iv.func.value.slice.elts
    slices = {'x_lo': trsh.expr(sl[0].lower), 'x_hi': trsh.expr(sl[0].upper),
              'y_lo': trsh.expr(sl[1].lower), 'y_hi': trsh.expr(sl[1].upper)}
    # the noise is taken from the same box
    rms_sl = [n for n in ast.walk(outer) if isinstance(n, ast.Subscript) and src(n.value) == 'rmsimg'
              and isinstance(n.slice, ast.Tuple) and any(isinstance(e, ast.Slice) for e in n.slice.elts)]
    for n in rms_sl:
        if src(n.slice) != src(iv.func.value.slice):
            raise TranslateError(f"_refit_islands: rms box {src(n.slice)} differs from the data box")
    # bounds must not change between the source loop and their uses
    for s in rest:
        for n in ast.walk(s):
            if isinstance(n, (ast.Assign, ast.AugAssign)):
                tg = n.targets if isinstance(n, ast.Assign) else [n.target]
                for t in tg:
                    for nn in ast.walk(t):
                        if isinstance(nn, ast.Name) and nn.id in ('xmin', 'xmax', 'ymin', 'ymax') and isinstance(nn.ctx, ast.Store):
                            raise TranslateError(f"_refit_islands: {nn.id} is reassigned after the source loop")
    k_off = _index_of(rest, lambda s: _is_assign_to(s, 'offsets'), 'assignment to offsets')
    if src(rest[k_off].value) != '(xmin, xmax, ymin, ymax)':
        raise TranslateError(f"_refit_islands: offsets = {src(rest[k_off].value)}")
    k_isd = _index_of(rest, lambda s: _is_assign_to(s, 'island_data'), 'island_data')
    kw = {k.arg: src(k.value) for k in rest[k_isd].value.keywords}
    if src(rest[k_isd].value.func) != 'IslandFittingData' or src(rest[k_isd].value.args[0]) != 'inum' \
            or kw.get('i') != 'idata' or kw.get('offsets') != 'offsets' or kw.get('doislandflux') != 'False':
        raise TranslateError(f"_refit_islands: island_data = {src(rest[k_isd].value)}")
    k_new = _index_of(rest, lambda s: _is_assign_to(s, 'new_src'), 'new_src')
    if src(rest[k_new].value) != 'self.result_to_components(result, model, island_data, src.flags)':
        raise TranslateError(f"_refit_islands: new_src = {src(rest[k_new].value)}")
    # fit: result, _ = do_lmfit(idata, params, B=B); model = covar_errors(result.params, ...)
    fits = [n for n in ast.walk(outer) if isinstance(n, ast.Call) and src(n.func) == 'do_lmfit']
    if len(fits) != 1 or [src(a) for a in fits[0].args] != ['idata', 'params']:
        raise TranslateError("_refit_islands: do_lmfit(idata, params, ...)")
    cov = [n for n in ast.walk(outer) if isinstance(n, ast.Call) and src(n.func) == 'covar_errors']
    if len(cov) != 1 or [src(a) for a in cov[0].args][:2] != ['result.params', 'idata']:
        raise TranslateError("_refit_islands: covar_errors(result.params, idata, ...)")

    # ---- copy-back loop
    k_zip = _index_of(rest, lambda s: isinstance(s, ast.For) and src(s.iter) == 'zip(new_src, included_sources)',
                      'zip(new_src, included_sources) loop')
    if src(rest[k_zip].target) != '(ns, s)' or not k_new < k_zip:
        raise TranslateError("_refit_islands: copy-back loop target")
    zb = rest[k_zip].body
    plain, conds = [], []
    for st in zb:
        if isinstance(st, ast.If):
            if st.orelse:
                raise TranslateError("_refit_islands: copy-back test has an else branch")
            conds.append((st.test, [src(t) for t in st.body]))
        else:
            plain.append(src(st))
    if sorted(plain) != sorted(['ns.uuid = s.uuid', 'ns.flags |= flags.PRIORIZED']):
        raise TranslateError(f"_refit_islands: unconditional copy-back statements are {plain}")
    def _strip_known(t):
        return t.replace('_known_error(s.err_', '(s.err_').replace('(s.err_ra)', 's.err_ra').replace('(s.err_dec)', 's.err_dec') \
                .replace('(s.err_a)', 's.err_a').replace('(s.err_b)', 's.err_b').replace('(s.err_pa)', 's.err_pa')
    forms = {('_known_error(' in t) for c in conds for t in c[1] if t.startswith('ns.err_')}
    if len(forms) != 1:
        raise TranslateError(f"_refit_islands: copy-back mixes plain and _known_error copies: {[c[1] for c in conds]}")
    guarded = forms.pop()
    conds = [(c[0], [_strip_known(t) for t in c[1]]) for c in conds]
    pos_c = [c for c in conds if 'ns.err_ra = s.err_ra' in c[1]]
    shp_c = [c for c in conds if 'ns.err_a = s.err_a' in c[1]]
    if len(conds) != 2 or len(pos_c) != 1 or len(shp_c) != 1:
        raise TranslateError(f"_refit_islands: copy-back tests are {[src(c[0]) for c in conds]}")
    if sorted(pos_c[0][1]) != sorted(['ns.err_ra = s.err_ra', 'ns.err_dec = s.err_dec', 'ns.flags |= flags.FIXED2PSF']):
        raise TranslateError(f"_refit_islands: position copy-back is {pos_c[0][1]}")
    if sorted(shp_c[0][1]) != sorted(['ns.err_a = s.err_a', 'ns.err_b = s.err_b', 'ns.err_pa = s.err_pa']):
        raise TranslateError(f"_refit_islands: shape copy-back is {shp_c[0][1]}")
    if guarded:
        # _known_error(err): err when positive and finite (every Q is finite), otherwise -1
        ke = find_func(tree, '_known_error')
        kb = [x for x in ke.body if not (isinstance(x, ast.Expr) and isinstance(x.value, ast.Constant))]
        if not ([a.arg for a in ke.args.args] == ['err'] and len(kb) == 2 and isinstance(kb[0], ast.If) and not kb[0].orelse
                and src(kb[0].test) == 'np.isfinite(err) and err > 0' and [src(x) for x in kb[0].body] == ['return err']
                and src(kb[1]) == 'return -1'):
            raise TranslateError(f"_known_error: expected `if np.isfinite(err) and err > 0: return err` / `return -1`, found {[src(x)[:60] for x in kb]}")
        copied_err = 'if Qltb 0 e then e else -(1 # 1)'
    else:
        copied_err = 'e'
    copy_pos = trs.cond(pos_c[0][0])
    copy_shape = trs.cond(shp_c[0][0])
    k_ext = _index_of(rest, lambda s: isinstance(s, ast.Expr) and src(s.value) == 'sources.extend(new_src)',
                      'sources.extend(new_src)')
    if not k_zip < k_ext:
        raise TranslateError("_refit_islands: sources are extended before the copy-back")

    # ---- flags
    ftree = parse_file(_p(repo, 'flags.py'))
    fl = {}
    for s in ftree.body:
        if isinstance(s, ast.Assign) and len(s.targets) == 1 and isinstance(s.targets[0], ast.Name) \
                and isinstance(s.value, ast.Constant) and isinstance(s.value.value, int):
            fl[s.targets[0].id] = s.value.value
    for nm in ('PRIORIZED', 'FIXED2PSF', 'NOTFIT'):
        if nm not in fl:
            raise TranslateError(f"flags.{nm} not found")

    # ---- result_to_components: cut-out frame -> FITS frame, shape back to the sky
    rc = find_func(tree, 'result_to_components', cls='SourceFinder')
    asg = {}
    for n in ast.walk(rc):
        if isinstance(n, ast.Assign) and len(n.targets) == 1:
            asg.setdefault(src(n.targets[0]), []).append(n.value)
    if [src(v) for v in asg.get('(xmin, xmax, ymin, ymax)', [])] != ['island_data.offsets']:
        raise TranslateError("result_to_components: xmin, xmax, ymin, ymax = island_data.offsets")
    loops = [n for n in rc.body if isinstance(n, ast.For) and src(n.iter) == "range(int(model['components'].value))"]
    if len(loops) != 1 or not any(isinstance(s, ast.Expr) and src(s.value) == 'sources.append(source)' for s in loops[0].body):
        raise TranslateError("result_to_components: one component per model component")
    lasg = {}
    for n in ast.walk(loops[0]):
        if isinstance(n, ast.Assign) and len(n.targets) == 1:
            lasg.setdefault(src(n.targets[0]), []).append(n.value)
    for nm, w in (('xo', "model[prefix + 'xo'].value"), ('yo', "model[prefix + 'yo'].value"),
                  ('sx', "model[prefix + 'sx'].value"), ('sy', "model[prefix + 'sy'].value"),
                  ('theta', "model[prefix + 'theta'].value"), ('amp', "model[prefix + 'amp'].value"),
                  ('source.peak_flux', 'amp'), ('source.island', 'isle_num'), ('source.source', 'j')):
        if [src(v) for v in lasg.get(nm, [])] != [w]:
            raise TranslateError(f"result_to_components: {nm} = {[src(v) for v in lasg.get(nm, [])]}")
    if [src(v) for v in asg.get('isle_num', [])] != ['island_data.isle_num']:
        raise TranslateError("result_to_components: isle_num = island_data.isle_num")
    tro = TrQ({'xo': 'xo', 'yo': 'yo', 'xmin': 'xmin', 'ymin': 'ymin', 'xmax': 'xmax', 'ymax': 'ymax'})
    if len(asg.get('x_pix', [])) != 1 or len(asg.get('y_pix', [])) != 1:
        raise TranslateError("result_to_components: x_pix / y_pix")
    x_pix = tro.expr(asg['x_pix'][0])
    y_pix = tro.expr(asg['y_pix'][0])
    p2s = asg.get('(source.ra, source.dec, source.a, source.b, source.pa)', [])
    if len(p2s) != 1 or src(p2s[0]) != ('global_data.wcshelper.pix2sky_ellipse((x_pix, y_pix), sx * CC2FHWM, '
                                        'sy * CC2FHWM, theta)'):
        raise TranslateError(f"result_to_components: pix2sky_ellipse call {[src(v) for v in p2s]}")
    from_cc = TrQ({'sx': 's', 'CC2FHWM': 'k'}).expr(p2s[0].args[1])
    augs = {src(n.target): n for n in ast.walk(rc) if isinstance(n, ast.AugAssign)
            and src(n.target) in ('source.a', 'source.b')}
    if sorted(augs) != ['source.a', 'source.b']:
        raise TranslateError("result_to_components: source.a / source.b scaling")
    to_arcsec = TrQ({'source.a': 'a'}).expr(_aug_as_binop(augs['source.a']))
    if TrQ({'source.b': 'a'}).expr(_aug_as_binop(augs['source.b'])) != to_arcsec:
        raise TranslateError("result_to_components: a and b are scaled differently")
    for n in ast.walk(loops[0]):
        if isinstance(n, (ast.Continue, ast.Break)):
            raise TranslateError("result_to_components: the component loop skips components")
    calls = [src(n) for n in ast.walk(loops[0]) if isinstance(n, ast.Call)]
    if 'fix_shape(source)' not in calls or 'pa_limit(source.pa)' not in calls:
        raise TranslateError("result_to_components: fix_shape / pa_limit")

    # ---- priorized_fit_islands: concatenation and final ordering
    pf = find_func(tree, 'priorized_fit_islands', cls='SourceFinder')
    calls = [n for n in ast.walk(pf) if isinstance(n, ast.Call) and src(n.func) == 'self._refit_islands']
    if len(calls) != 1 or [src(a) for a in calls[0].args][:2] != ['g', 'stage']:
        raise TranslateError("priorized_fit_islands: self._refit_islands(g, stage, ...)")
    pasg = {}
    for n in ast.walk(pf):
        if isinstance(n, ast.Assign) and len(n.targets) == 1:
            pasg.setdefault(src(n.targets[0]), []).append(src(n.value))
    if 'sorted(sources)' not in pasg.get('sources', []):
        raise TranslateError("priorized_fit_islands: sources = sorted(sources)")
    if 'cluster.resize(input_sources, ratio=ratio, psfhelper=global_data.psfhelper)' not in pasg.get('sources', []):
        raise TranslateError("priorized_fit_islands: cluster.resize call")

    b = lambda v: 'true' if v else 'false'  # noqa: E731
    zb = lambda v: v if v in ('true', 'false') else f'{v}%Z'  # noqa: E731
    return HEADER_Q + f"""
(* source_finder.SourceFinder._refit_islands / result_to_components: placement, cut-out, vary table and
   copy-back of priorized fitting.  Coordinates are exact rationals; x is the first (row) array axis. *)

(* sky2pix gives FITS (1-based) pixel coordinates; array index of the same point *)
Definition fits_to_array_x (p : Q) : Q := {f2a_x}.
Definition fits_to_array_y (p : Q) : Q := {f2a_y}.
(* the pixel whose data / rms decide acceptance and around which the cut-out is placed *)
Definition nearest_x (p : Q) : Q := {near_x}.
Definition nearest_y (p : Q) : Q := {near_y}.
(* true when positions that the WCS cannot project (NaN pixel coordinates) are skipped before rounding *)
Definition skips_unprojectable : bool := {b(guards_nan)}.
(* a source is skipped when this holds *)
Definition rejected (x y rows cols : Q) (data_finite rms_finite beam_known : bool) : bool :=
  {rejected}.
(* catalogue arcsec -> degrees handed to sky2pix_ellipse; pixel FWHM -> sigma (k = FWHM2CC) *)
Definition to_deg (a : Q) : Q := {to_deg}.
Definition to_cc (s k : Q) : Q := {to_cc}.
Definition fwhm2cc_is_inverse_of_cc2fwhm : bool := true.
(* cut-out widths for a source of sigma sx, sy (pixels) *)
Definition cut_xwidth (sx sy : Q) : Q := {xwidth}.
Definition cut_ywidth (sx sy : Q) : Q := {ywidth}.
(* running bounds of the island's cut-out *)
Definition xmin_init (rows cols : Q) : Q := {init['xmin']}.
Definition ymin_init (rows cols : Q) : Q := {init['ymin']}.
Definition xmax_init (rows cols : Q) : Q := {init['xmax']}.
Definition ymax_init (rows cols : Q) : Q := {init['ymax']}.
Definition xmin_upd (xmin x xw rows : Q) : Q := {upd['xmin']}.
Definition xmax_upd (xmax x xw rows : Q) : Q := {upd['xmax']}.
Definition ymin_upd (ymin y yw cols : Q) : Q := {upd['ymin']}.
Definition ymax_upd (ymax y yw cols : Q) : Q := {upd['ymax']}.
(* index range of the data (and rms) cut-out *)
Definition slice_x_lo (xmin xmax ymin ymax : Q) : Q := {slices['x_lo']}.
Definition slice_x_hi (xmin xmax ymin ymax : Q) : Q := {slices['x_hi']}.
Definition slice_y_lo (xmin xmax ymin ymax : Q) : Q := {slices['y_lo']}.
Definition slice_y_hi (xmin xmax ymin ymax : Q) : Q := {slices['y_hi']}.
(* what is subtracted from xo / yo (value, min and max) to move them into the cut-out frame *)
Definition shift_x (xmin xmax ymin ymax : Q) : Q := {sh['x']}.
Definition shift_y (xmin xmax ymin ymax : Q) : Q := {sh['y']}.
Definition limits_shifted_before_value : bool := {b(limits_first)}.
(* bounds of the position parameters, image frame (p = array position, s = sigma on that axis) *)
Definition xo_lower (p s : Q) : Q := {lim['xomin']}.
Definition xo_upper (p s : Q) : Q := {lim['xomax']}.
Definition yo_lower (p s : Q) : Q := {lim['yomin']}.
Definition yo_upper (p s : Q) : Q := {lim['yomax']}.
(* limits of the shape parameters sx, sy (beam_b = minor FWHM of the pixel beam, k = FWHM2CC) *)
Definition shape_lower (sx sy beam_a beam_b k : Q) : Q := {shape_lo}.
Definition shape_upper (sx sy beam_a beam_b k : Q) : Q := {shape_hi}.
(* which parameters the stage frees *)
Definition vary_amp (stage : Z) : bool := {zb(vary['amp'])}.
Definition vary_xo (stage : Z) : bool := {zb(vary['xo'])}.
Definition vary_yo (stage : Z) : bool := {zb(vary['yo'])}.
Definition vary_sx (stage : Z) : bool := {zb(vary['sx'])}.
Definition vary_sy (stage : Z) : bool := {zb(vary['sy'])}.
Definition vary_theta (stage : Z) : bool := {zb(vary['theta'])}.
(* copy-back: input uncertainties are kept when this holds; the uuid is always copied *)
Definition copy_pos_err (stage : Z) : bool := {copy_pos}%Z.
Definition copy_shape_err (stage : Z) : bool := {copy_shape}%Z.
(* ... through _known_error: the input value when it is positive (and finite: every Q is), otherwise -1 = unknown *)
Definition copied_err (e : Q) : Q := {copied_err}.
Definition flag_PRIORIZED : Z := {fl['PRIORIZED']}%Z.
Definition flag_FIXED2PSF : Z := {fl['FIXED2PSF']}%Z.
Definition flag_NOTFIT : Z := {fl['NOTFIT']}%Z.
(* result_to_components: cut-out frame -> FITS pixel; sigma -> FWHM (k = CC2FHWM); degrees -> arcsec *)
Definition array_to_fits_x (xo yo xmin xmax ymin ymax : Q) : Q := {x_pix}.
Definition array_to_fits_y (xo yo xmin xmax ymin ymax : Q) : Q := {y_pix}.
Definition from_cc (s k : Q) : Q := {from_cc}.
Definition to_arcsec (a : Q) : Q := {to_arcsec}.
"""
