#!/bin/bash
# tools/try_mutant.sh <patch.diff> <Cxx> [tier]   - apply to /repo, run the check, undo
set -u
patch=$(realpath "$1"); pid=$2; tier=${3:-quick}
git -C /repo diff --quiet || { echo "/repo dirty"; exit 2; }
git -C /repo apply "$patch" || { echo "patch does not apply"; exit 2; }
/verif/check "$pid" "$tier" 2>&1 | tail -12
rc=${PIPESTATUS[0]}
git -C /repo checkout -- .
echo "exit=$rc"
