#!/bin/bash
# tools/try_mutant.sh <patch.diff> <Cxx> [tier]
# applies the change to a scratch copy of /repo (so that nothing else running against /repo is disturbed),
# runs the check against it through AEGEAN_REPO, removes the copy.   With REAL=1: apply to /repo itself and undo.
set -u
patch=$(realpath "$1"); pid=$2; tier=${3:-quick}
if [ "${REAL:-0}" = 1 ]; then
  git -C /repo diff --quiet || { echo "/repo dirty"; exit 2; }
  git -C /repo apply "$patch" || { echo "patch does not apply"; exit 2; }
  /verif/check "$pid" "$tier" 2>&1 | tail -12; rc=${PIPESTATUS[0]}
  git -C /repo checkout -- .
else
  d=/tmp/mut/repo_$$; v=/tmp/mut/verif_$$; mkdir -p /tmp/mut; rm -rf "$d"
  git -C /repo worktree add --detach "$d" HEAD >/dev/null 2>&1 || { echo "worktree failed"; exit 2; }
  git -C "$d" apply "$patch" || { echo "patch does not apply"; git -C /repo worktree remove --force "$d"; exit 2; }
  rsync -a --delete --exclude=.git --exclude="work/*" /verif/ "$v/" && AEGEAN_REPO="$d" "$v/check" "$pid" "$tier" 2>&1 | tail -12; rc=${PIPESTATUS[0]}
  git -C /repo worktree remove --force "$d"
fi
rm -rf "$v"
echo "exit=$rc"
