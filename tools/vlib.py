"""Common machinery of the /verif checks: Coq build, model evaluation, evidence, violations."""
import fcntl
import json
import os
import random
import re
import shutil
import subprocess
import sys
import time
from concurrent.futures import ThreadPoolExecutor

VERIF = os.path.dirname(os.path.dirname(os.path.abspath(__file__)))
COQ = os.path.join(VERIF, 'coq')
REPO = os.environ.get('AEGEAN_REPO', '/repo')
PY = '/venv/bin/python'

# axioms of the Coq standard library that may appear under Print Assumptions (DESIGN.md s.9)
ALLOWED_AXIOMS = {
    'ClassicalDedekindReals.sig_forall_dec', 'ClassicalDedekindReals.sig_not_dec',
    'FunctionalExtensionality.functional_extensionality_dep', 'Classical_Prop.classic',
}
# primitive (kernel) types and operations of Uint63/PrimFloat are reported too; they are not axioms
PRIMITIVE_PREFIXES = ('PrimFloat.', 'Uint63.', 'PrimInt63.', 'FloatAxioms.', 'FloatOps.', 'Uint63Axioms.')

FORBIDDEN = re.compile(r'\b(Admitted|admit|Axiom|Axioms|Parameter|Parameters|Conjecture|Conjectures|'
                       r'bypass_check|Guard Checking|Positivity Checking|Universe Checking|'
                       r'type-in-type|impredicative-set|Admit Obligations|native_compute)\b')


class Ctx:
    def __init__(self, pid, tier, seed):
        self.pid, self.tier, self.seed = pid, tier, seed
        self.t0 = time.time()
        self.rng = random.Random(seed * 1000003 + int(pid[1:]))
        self.work = os.path.join(VERIF, 'work', f'{pid}-{os.getpid()}')
        os.makedirs(self.work, exist_ok=True)
        self.failures = []        # broken obligations / ties: dicts {kind, what, detail}
        self.counterexample = None  # concrete failing input (dict) if one is known
        self.obligations = []     # (name, discharged: bool)
        self.evaluations = 0
        self.distinct = set()
        self.samples = []
        self.hist = {}
        self.traces = 0
        self.hyp = {}             # validated library hypotheses -> sample count
        self.axioms = {}
        self.notes = []
        self.known_lines = []
        self.rule = ''
        self.extra = {}

    # ---- bookkeeping
    def oblige(self, name, ok, detail=''):
        self.obligations.append((name, bool(ok)))
        if not ok:
            self.failures.append({'kind': 'obligation', 'what': name, 'detail': str(detail)[-3000:]})

    def case(self, key=None, sample=None, bucket=None):
        """count one evaluated case; key identifies a distinct non-trivial case (None = trivial)"""
        self.evaluations += 1
        if key is not None:
            self.distinct.add(key if isinstance(key, (str, int, tuple)) else repr(key))
        if sample is not None and len(self.samples) < 6:
            self.samples.append(sample)
        if bucket is not None:
            self.hist[bucket] = self.hist.get(bucket, 0) + 1

    def mismatch(self, what, case, impl=None, model=None, is_violation=None):
        """correspondence or oracle failure. is_violation: dict with the failing input when the
        implementation itself breaks the property on this input (direct counterexample)."""
        f = {'kind': 'correspondence', 'what': what, 'case': case, 'impl': impl, 'model': model}
        self.failures.append(f)
        if is_violation is not None and self.counterexample is None:
            self.counterexample = is_violation

    def elapsed(self):
        return time.time() - self.t0

    def cleanup(self):
        shutil.rmtree(self.work, ignore_errors=True)


# ------------------------------------------------------------------------------------------
def strip_comments(text):
    out, depth, i = [], 0, 0
    while i < len(text):
        if text.startswith('(*', i):
            depth += 1; i += 2
        elif text.startswith('*)', i) and depth > 0:
            depth -= 1; i += 2
        else:
            if depth == 0:
                out.append(text[i])
            i += 1
    return ''.join(out)


def gate():
    """no Admitted / Axiom / Parameter ... anywhere in the development (comments excluded)"""
    bad = []
    for root, _, files in os.walk(COQ):
        for f in files:
            if f.endswith('.v'):
                p = os.path.join(root, f)
                with open(p) as fh:
                    t = strip_comments(fh.read())
                for m in FORBIDDEN.finditer(t):
                    bad.append(f"{os.path.relpath(p, COQ)}: {m.group(0)}")
    # Variable/Hypothesis outside a section would declare an axiom: check nesting crudely
    for root, _, files in os.walk(COQ):
        for f in files:
            if f.endswith('.v'):
                p = os.path.join(root, f)
                depth = 0
                with open(p) as fh:
                    t = strip_comments(fh.read())
                for m in re.finditer(r'^\s*(Section|Module|End|Variable|Variables|Hypothesis|Hypotheses|Context)\b',
                                     t, re.M):
                    w = m.group(1)
                    if w in ('Section', 'Module'):
                        depth += 1
                    elif w == 'End':
                        depth -= 1
                    elif depth <= 0:
                        bad.append(f"{os.path.relpath(p, COQ)}: {w} outside a section")
    return bad


def run_translator():
    """regenerate coq/Gen from the repo; returns dict of failed extraction points"""
    r = subprocess.run([sys.executable, os.path.join(VERIF, 'tools', 'translate.py'), '--repo', REPO],
                       capture_output=True, text=True, timeout=300)
    try:
        with open(os.path.join(COQ, 'Gen', 'FAILED.json')) as fh:
            failed = json.load(fh)
    except Exception as e:  # translator crashed
        failed = {'*': f'translator crashed: {r.stdout[-500:]} {r.stderr[-1500:]} {e}'}
    if r.returncode not in (0, 1):
        failed['*'] = f'translator crashed: {r.stderr[-1500:]}'
    return failed, r.stdout


class CoqLock:
    def __enter__(self):
        self.f = open(os.path.join(COQ, '.lock'), 'w')
        fcntl.flock(self.f, fcntl.LOCK_EX)
        return self

    def __exit__(self, *a):
        fcntl.flock(self.f, fcntl.LOCK_UN)
        self.f.close()


COQPROJECT_HEAD = ("-Q . Aegean\n-arg -w -arg -notation-overridden,-ambiguous-paths,-deprecated-hint-without-locality,"
                   "-deprecated-instance-without-locality\n")


def write_coqproject():
    """_CoqProject lists every .v under Lib Gen Model Proofs Props Refuted (coqdep orders them)"""
    files = []
    for d in ('Lib', 'Gen', 'Model', 'Proofs', 'Props', 'Refuted'):
        dd = os.path.join(COQ, d)
        if os.path.isdir(dd):
            files += [f'{d}/{f}' for f in sorted(os.listdir(dd)) if f.endswith('.v')]
    text = COQPROJECT_HEAD + '\n'.join(files) + '\n'
    cp = os.path.join(COQ, '_CoqProject')
    old = open(cp).read() if os.path.exists(cp) else None
    if old != text:
        with open(cp, 'w') as fh:
            fh.write(text)
        return True
    return False


def ensure_makefile():
    changed = write_coqproject()
    mk = os.path.join(COQ, 'Makefile')
    cp = os.path.join(COQ, '_CoqProject')
    if changed or not os.path.exists(mk) or os.path.getmtime(mk) < os.path.getmtime(cp):
        subprocess.run(['coq_makefile', '-f', '_CoqProject', '-o', 'Makefile'], cwd=COQ, check=True,
                       capture_output=True)


def build(targets, timeout=3000, jobs=12):
    """make the given .vo targets (paths relative to coq/). returns (ok, log)"""
    with CoqLock():
        ensure_makefile()
        cmd = ['timeout', str(timeout), 'make', f'-j{jobs}'] + list(targets)
        r = subprocess.run(cmd, cwd=COQ, capture_output=True, text=True)
        return r.returncode == 0, (r.stdout + r.stderr)


def theorems_of(pid):
    with open(os.path.join(COQ, 'Props', f'{pid}.v')) as fh:
        t = strip_comments(fh.read())
    return re.findall(r'^\s*Theorem\s+(\w+)', t, re.M)


def print_assumptions(ctx, pid, names):
    """returns {theorem: [axioms]} by running coqc on a scratch file"""
    p = os.path.join(ctx.work, 'assum.v')
    with open(p, 'w') as fh:
        fh.write(f"From Aegean Require Import Props.{pid}.\n")
        for n in names:
            fh.write(f'Goal True. idtac "@@@ {n}". exact I. Qed.\nPrint Assumptions {n}.\n')
    r = subprocess.run(['timeout', '600', 'coqc', '-Q', COQ, 'Aegean', '-w', '-all', p],
                       capture_output=True, text=True, cwd=ctx.work)
    out = r.stdout
    res = {}
    if r.returncode != 0:
        return None, out + r.stderr
    # the Print Assumptions of the Props file itself are printed at Require time only when
    # compiling; here we parse our own markers
    chunks = out.split('@@@ ')[1:]
    for ch in chunks:
        name, _, rest = ch.partition('\n')
        name = name.strip()
        if 'Closed under the global context' in rest:
            res[name] = []
        else:
            ax = re.findall(r'^([A-Za-z_][\w.]*)\s*(?:$|:\s)', rest, re.M)
            res[name] = [a for a in ax if a not in ('Axioms',)]
    return res, out


def coqchk(pid, timeout=900):
    """independent checker on Props/<pid>.vo; returns (ok, axioms of the dependency cone, log tail).
    ok is None when the checker did not finish within the time limit (cones that include Interval/Flocq/Coquelicot take very long):
    that is inconclusive, not a failure - the theorems have been checked by coqc's kernel in the build step."""
    with CoqLock():
        r = subprocess.run(['bash', '-c', f'ulimit -s unlimited; timeout {timeout} coqchk -o -silent -Q . Aegean Aegean.Props.{pid}'],
                           cwd=COQ, capture_output=True, text=True)
    out = r.stdout + r.stderr
    if r.returncode in (124, 137, -9, -15):
        return None, [], f'the independent checker did not finish within {timeout} s'
    if r.returncode != 0 or 'CONTEXT SUMMARY' not in out:
        return False, [], out[-1500:]
    summ = out[out.index('CONTEXT SUMMARY'):]
    m = re.search(r'\* Axioms:(.*?)\n\s*\n\* Constants', summ, re.S)
    ax = []
    if m and '<none>' not in m.group(1):
        ax = [a.strip() for a in re.split(r'\s+', m.group(1).strip()) if a.strip()]
    bad = [k for k in ('type-in-type', 'unsafe (co)fixpoints', 'positivity is assumed')
           if not re.search(re.escape(k) + r':\s*<none>', summ)]
    return (not bad), ax, summ[-1500:]


def axioms_ok(ax):
    """axioms outside the allow-list (names as printed by Print Assumptions or, fully qualified, by coqchk)"""
    bad = []
    for a in ax:
        short = a[4:] if a.startswith('Coq.') else a
        if any(short == x or short.endswith('.' + x) or x.endswith('.' + short) for x in ALLOWED_AXIOMS) \
                or a.startswith(PRIMITIVE_PREFIXES) or any(('.' + p) in ('.' + short) for p in PRIMITIVE_PREFIXES):
            continue
        bad.append(a)
    return bad


# ------------------------------------------------------------------------------------------
# evaluating model expressions inside Coq (vm_compute) and reading the values back

_tok = re.compile(r'\s*(?:(-?\d+)|("(?:[^"]|"")*")|(true|false|None|Some|tt)|([\[\];(),])|(%\w+))')


def parse_value(s):
    """parse what Coq prints for values built from Z/N/nat, bool, option, pairs, lists, strings"""
    toks = []
    i = 0
    s = s.strip()
    while i < len(s):
        m = _tok.match(s, i)
        if not m:
            raise ValueError(f"cannot tokenise Coq value at {s[i:i+40]!r}")
        i = m.end()
        if m.group(5):
            continue
        if m.group(1) is not None:
            toks.append(('int', int(m.group(1))))
        elif m.group(2) is not None:
            toks.append(('str', m.group(2)[1:-1].replace('""', '"')))
        elif m.group(3) is not None:
            toks.append(('kw', m.group(3)))
        else:
            toks.append(('p', m.group(4)))
    pos = [0]

    def peek():
        return toks[pos[0]] if pos[0] < len(toks) else (None, None)

    def eat():
        t = toks[pos[0]]; pos[0] += 1; return t

    def atom():
        k, v = eat()
        if k == 'int':
            return v
        if k == 'str':
            return v
        if k == 'kw':
            if v == 'true':
                return True
            if v == 'false':
                return False
            if v == 'None':
                return None
            if v == 'tt':
                return ()
            if v == 'Some':
                return ('Some', atom())
        if k == 'p' and v == '[':
            items = []
            if peek() == ('p', ']'):
                eat(); return items
            while True:
                items.append(atom())
                k2, v2 = eat()
                if (k2, v2) == ('p', ']'):
                    return items
                if (k2, v2) != ('p', ';'):
                    raise ValueError('list syntax')
        if k == 'p' and v == '(':
            items = [atom()]
            while True:
                k2, v2 = eat()
                if (k2, v2) == ('p', ')'):
                    return items[0] if len(items) == 1 else tuple(items)
                if (k2, v2) != ('p', ','):
                    raise ValueError('tuple syntax')
                items.append(atom())
        raise ValueError(f'unexpected token {k} {v}')

    v = atom()
    if pos[0] != len(toks):
        raise ValueError('trailing tokens in Coq value')
    return v


def _coq_eval_file(args):
    work, idx, imports, exprs = args
    p = os.path.join(work, f'cases_{idx}.v')
    with open(p, 'w') as fh:
        fh.write(imports + '\nSet Printing Width 100000000.\nSet Printing Depth 100000000.\n')
        for k, e in enumerate(exprs):
            fh.write(f'Goal True. idtac "@@@ {k}". exact I. Qed.\nEval vm_compute in ({e}).\n')
    r = subprocess.run(['bash', '-c', f'ulimit -s unlimited; timeout 1200 coqc -Q {COQ} Aegean -w -all {p}'],
                       capture_output=True, text=True, cwd=work)
    if r.returncode != 0:
        return None, (r.stdout[-2000:] + r.stderr[-3000:])
    vals = {}
    for ch in r.stdout.split('@@@ ')[1:]:
        k, _, rest = ch.partition('\n')
        m = re.search(r'^\s*=\s*(.*?)\n\s*:\s', rest, re.S | re.M)
        if not m:
            return None, f'cannot parse output for case {k}: {rest[:300]}'
        vals[int(k)] = parse_value(' '.join(m.group(1).split()))
    return [vals[k] for k in range(len(exprs))], ''


def coq_eval(ctx, imports, exprs, shard=250, workers=8):
    """evaluate Gallina expressions with vm_compute; returns (values or None, error text)"""
    if not exprs:
        return [], ''
    jobs = []
    for n, i in enumerate(range(0, len(exprs), shard)):
        jobs.append((ctx.work, f'{len(os.listdir(ctx.work))}_{n}', imports, exprs[i:i + shard]))
    out = []
    with ThreadPoolExecutor(max_workers=workers) as ex:
        for vals, err in ex.map(_coq_eval_file, jobs):
            if vals is None:
                return None, err
            out.extend(vals)
    return out, ''


def coq_check_file(ctx, name, text, timeout=1800):
    """compile a generated .v (per-case certified lemmas); returns (ok, log)"""
    p = os.path.join(ctx.work, name)
    with open(p, 'w') as fh:
        fh.write(text)
    r = subprocess.run(['bash', '-c', f'ulimit -s unlimited; timeout {timeout} coqc -Q {COQ} Aegean -w -all {p}'],
                       capture_output=True, text=True, cwd=ctx.work)
    return r.returncode == 0, r.stdout[-3000:] + r.stderr[-3000:]


def zlit(n):
    n = int(n)
    return f'({n})' if n < 0 else str(n)


def zlist(xs):
    return '[' + '; '.join(zlit(x) for x in xs) + ']'


# ------------------------------------------------------------------------------------------
def known_findings(pid):
    """entries of /verif/known_findings.txt for this property: (kind, key, text)"""
    out = []
    p = os.path.join(VERIF, 'known_findings.txt')
    if not os.path.exists(p):
        return out
    with open(p) as fh:
        for line in fh:
            line = line.strip()
            if not line or line.startswith('#'):
                continue
            m = re.match(r'(finding|fixed):\s+property=(\w+)\s+(.*)', line)
            if m and m.group(2) == pid:
                out.append((m.group(1), m.group(3)))
    return out


def finish(ctx, level='proof', checker_cmd='', trusted=None, assumptions=None):
    """write evidence, print KNOWN-FINDING / VIOLATION lines, return exit code"""
    # runs against a changed copy of the repository (seeded-change trials) must not touch the evidence of the real tree
    evdir = 'evidence' if os.path.realpath(REPO) == '/repo' else os.path.join('work', 'trial_evidence')
    os.makedirs(os.path.join(VERIF, evdir), exist_ok=True)
    os.makedirs(os.path.join(VERIF, 'replays'), exist_ok=True)
    nviol = 0
    replay_path = None
    if ctx.failures:
        nviol = 1
        replay_path = os.path.join(VERIF, 'replays', f'{ctx.pid}-{ctx.tier}-{ctx.seed}.json')
        rep = {'property': ctx.pid, 'seed': ctx.seed, 'tier': ctx.tier,
               'failing_input': ctx.counterexample,
               'broken': [{k: v for k, v in f.items()} for f in ctx.failures[:20]],
               'note': ('concrete failing input for the implementation' if ctx.counterexample is not None else
                        'no failing input found: the listed theorem / correspondence no longer checks')}
        with open(replay_path, 'w') as fh:
            json.dump(rep, fh, indent=1, default=repr)
    obl = len(ctx.obligations)
    dis = sum(1 for _, ok in ctx.obligations if ok)
    cov = {
        'obligations': max(obl, 1), 'discharged': dis if obl else 0,
        'checker_cmd': checker_cmd,
        'trusted_base': trusted or [],
        'evaluations': ctx.evaluations,
        'distinct_nontrivial': len(ctx.distinct),
        'rule': ctx.rule,
        'samples': ctx.samples or [o[0] for o in ctx.obligations[:5]],
        'traces_validated_against_impl': ctx.traces,
        'input_distribution': ctx.hist,
        'library_hypotheses_validated': ctx.hyp,
        'print_assumptions': ctx.axioms,
        'obligation_names': [f"{'ok ' if ok else 'FAILED '}{n}" for n, ok in ctx.obligations][:400],
        'known_findings_reported': ctx.known_lines,
        'notes': ctx.notes,
    }
    cov.update(ctx.extra)
    ev = {'property_id': ctx.pid, 'tier': ctx.tier, 'seed': ctx.seed, 'level': level,
          'coverage': cov, 'assumptions': assumptions or [], 'wall_s': round(ctx.elapsed(), 2),
          'violations': nviol}
    with open(os.path.join(VERIF, evdir, f'{ctx.pid}.json'), 'w') as fh:
        json.dump(ev, fh, indent=1, default=repr)
    for line in ctx.known_lines:
        print(f"KNOWN-FINDING: property={ctx.pid} {line}")
    if nviol:
        for f in ctx.failures[:8]:
            print(f"  broken: {f['kind']} {f['what']}: {str(f.get('detail', f.get('case', '')))[:400]}")
        tail = '' if ctx.counterexample is not None else ' no-failing-input-found'
        print(f"VIOLATION property={ctx.pid} replay={replay_path}{tail}")
        return 1
    print(f"OK {ctx.pid} {ctx.tier}: {dis}/{obl} obligations, {ctx.evaluations} evaluations, "
          f"{len(ctx.distinct)} distinct non-trivial, {ctx.elapsed():.1f}s")
    return 0


# ------------------------------------------------------------------------------------------
# certified correspondence for real-valued models: per-case lemmas closed by `interval`
from fractions import Fraction  # noqa: E402


def rlit(x):
    """exact Gallina real literal for a binary64 value"""
    fr = Fraction(float(x))
    n, d = fr.numerator, fr.denominator
    s = f'(IZR ({n}))' if n < 0 else f'(IZR {n})'
    return s if d == 1 else f'({s} / IZR {d})'


def _certify_file(args):
    work, idx, header, goals = args
    p = os.path.join(work, f'cert_{idx}.v')
    with open(p, 'w') as fh:
        fh.write(header + '\n')
        for g in goals:
            fh.write(g.replace('\n', ' ') + '\n')
    nhead = header.count('\n') + 1
    r = subprocess.run(['bash', '-c', f'ulimit -s unlimited; timeout 1500 coqc -Q {COQ} Aegean -w -all {p}'],
                       capture_output=True, text=True, cwd=work)
    if r.returncode == 0:
        return None
    m = re.search(r'line (\d+)', r.stderr)
    k = int(m.group(1)) - nhead - 1 if m else -1
    return (k, r.stderr[-600:])


def coq_certify(ctx, header, goals, shard=40, workers=12):
    """compile per-case lemmas; returns list of (goal index, error) for the first failing goal of
    each shard (empty list = every lemma was accepted by the kernel)"""
    jobs = []
    base = len(os.listdir(ctx.work))
    for n, i in enumerate(range(0, len(goals), shard)):
        jobs.append((ctx.work, f'{base}_{n}', header, goals[i:i + shard]))
    bad = []
    with ThreadPoolExecutor(max_workers=workers) as ex:
        for (job, res) in zip(jobs, ex.map(_certify_file, jobs)):
            if res is not None:
                k, err = res
                off = int(job[1].split('_')[1]) * shard
                bad.append((off + k if k >= 0 else -1, err))
    return bad
