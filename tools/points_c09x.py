"""C09 (extension) extraction point `Ds9`: the front end that turns user shapes into circles / polygons / pixel masks
-> coq/Gen/Ds9.v.

  MIMAS.circle2circle : the character class of re.split, the word indices of ra / dec / radius, how many characters are cut off the
                        radius word (`[:-1]`), the unit each word is handed to astropy.coordinates.Angle with (`':' in ra` -> hour,
                        otherwise degree; dec degree; radius arcsecond), the order of the returned list (all `.degree`).
  MIMAS.box2poly      : the same for ra / dec / width / height, the halving `float(w[:-1]) / 2` (R back end), the unit of the half
                        sizes, centre = SkyCoord(ra, dec), the four corners as R expressions in centre and half sizes, their order.
  MIMAS.poly2poly     : the character class, the slices words[a::s] / words[b::s], the skip test (either word blank after strip()),
                        the hour / degree choice, the order [ra.degree, dec.degree] of what is appended.
  MIMAS.reg2mim       : comment prefix, the dispatch order (startswith 'box' / 'circle' / 'polygon') and into which list each parser's
                        result goes, unknown lines ignored, container = Dummy(maxdepth=maxdepth) with include_circles / include_polygons,
                        combine_regions + save_region.
  MIMAS.mask2mim      : selection `hdu[0].data <op> threshold`, (x, y) = np.where(..) = (row, col), which of them is the first argument
                        of wcs.all_pix2world and the origin, np.radians, Region.sky2vec, hp.vec2pix(2 ** <d>, x, y, z, nest=..),
                        Region(maxdepth=..), add_pixels(pix, depth=..), _renorm, save_region; defaults of threshold / maxdepth.
  Region.add_circles  : try: sky = list(zip(ra_cen, dec_cen)); rad = radius / except TypeError: sky = [[ra_cen, dec_cen]]; rad = [radius];
                        `for vec, r in zip(vectors, rad)`.
  Region.add_poly     : guard `len(positions) >= N`, ras, decs = np.array(list(zip(*positions))), sky = self.radec2sky(ras, decs),
                        hp.query_polygon(.., self.sky2vec(sky), ..).

Everything else raises TranslateError (fail closed)."""
import ast
import re

from trcore import HEADER_R, Tr, TranslateError, find_func, parse_file, point, src, strip_doc
from translate_points import _p

UNITS = {'u.degree': 0, 'u.deg': 0, 'u.hour': 1, 'u.hourangle': 1, 'u.arcminute': 2, 'u.arcmin': 2, 'u.arcsecond': 3,
         'u.arcsec': 3, 'u.radian': 4, 'u.rad': 4}
WS = [9, 10, 11, 12, 13, 32]


def _expect(c, msg):
    if not c:
        raise TranslateError(msg)


def _b(x):
    return 'true' if x else 'false'


def _zl(xs):
    return '[' + '; '.join(str(x) for x in xs) + ']'


def _body(fn):
    return [s for s in strip_doc(fn.body) if not isinstance(s, ast.Pass)]


def _char_class(st, what):
    """words = re.split('<class>', line) -> sorted character codes"""
    _expect(isinstance(st, ast.Assign) and src(st.targets[0]) == 'words' and isinstance(st.value, ast.Call)
            and src(st.value.func) == 're.split' and len(st.value.args) == 2 and not st.value.keywords
            and isinstance(st.value.args[0], ast.Constant) and isinstance(st.value.args[0].value, str)
            and src(st.value.args[1]) == 'line', f"{what}: expected words = re.split('<class>', line), found {src(st)[:70]}")
    pat = st.value.args[0].value
    _expect(len(pat) >= 3 and pat[0] == '[' and pat[-1] == ']' and pat[1] != '^', f"{what}: pattern {pat!r} is not a character class")
    inner, out, i = pat[1:-1], set(), 0
    while i < len(inner):
        c = inner[i]
        if c == '\\':
            _expect(i + 1 < len(inner), f"{what}: dangling backslash in {pat!r}")
            e = inner[i + 1]
            if e == 's':
                out.update(WS)
            elif e in '()[],.:-\\':
                out.add(ord(e))
            else:
                raise TranslateError(f"{what}: escape \\{e} in {pat!r} not supported")
            i += 2
        else:
            _expect(c not in '-]^[' and ord(c) < 128, f"{what}: character {c!r} in class {pat!r} not supported")
            out.add(ord(c))
            i += 1
    return sorted(out)


def _word(st, name, what):
    """<name> = words[i]  or  <name> = words[i][:-k]  -> (i, k)"""
    _expect(isinstance(st, ast.Assign) and len(st.targets) == 1 and src(st.targets[0]) == name,
            f"{what}: expected {name} = words[..], found {src(st)[:60]}")
    v, k = st.value, 0
    if isinstance(v, ast.Subscript) and isinstance(v.slice, ast.Slice):
        k, v = _strip(v, what)
    _expect(isinstance(v, ast.Subscript) and src(v.value) == 'words' and isinstance(v.slice, ast.Constant)
            and isinstance(v.slice.value, int) and v.slice.value >= 0, f"{what}: {name} is not words[<int>]")
    return v.slice.value, k


def _strip(v, what):
    """e[:-k] -> (k, e)"""
    s = v.slice
    _expect(s.lower is None and s.step is None and isinstance(s.upper, ast.UnaryOp) and isinstance(s.upper.op, ast.USub)
            and isinstance(s.upper.operand, ast.Constant) and isinstance(s.upper.operand.value, int)
            and s.upper.operand.value > 0, f"{what}: slice {src(v)} is not [:-k]")
    return s.upper.operand.value, v.value


def _angle(call, arg, what):
    """Angle(<arg>, unit=u.X) -> unit code"""
    _expect(isinstance(call, ast.Call) and src(call.func) == 'Angle' and len(call.args) == 1 and src(call.args[0]) == arg
            and len(call.keywords) == 1 and call.keywords[0].arg == 'unit' and src(call.keywords[0].value) in UNITS,
            f"{what}: expected Angle({arg}, unit=u.<unit>), found {src(call)[:70]}")
    return UNITS[src(call.keywords[0].value)]


def _ra_units(st, what, wrap=None):
    """if ':' in ra: ra = Angle(ra, unit=A) else: ra = Angle(ra, unit=B) -> (A, B)"""
    _expect(isinstance(st, ast.If) and src(st.test) == "':' in ra" and len(st.body) == 1 and len(st.orelse) == 1,
            f"{what}: expected `if ':' in ra:` with one statement per branch")
    res = []
    for b in (st.body[0], st.orelse[0]):
        _expect(isinstance(b, ast.Assign) and len(b.targets) == 1, f"{what}: ra branch {src(b)[:60]}")
        res.append((src(b.targets[0]), b.value))
    return res


@point('Ds9')
def gen_ds9(repo):
    mt = parse_file(_p(repo, 'MIMAS.py'))
    rt = parse_file(_p(repo, 'regions.py'))

    # ------------------------------------------------------------------ circle2circle
    fn = find_func(mt, 'circle2circle')
    _expect([a.arg for a in fn.args.args] == ['line'], "circle2circle(line)")
    b = _body(fn)
    _expect(len(b) == 8, f"circle2circle: expected 8 statements, found {len(b)}")
    c_delims = _char_class(b[0], 'circle2circle')
    c_ra, k = _word(b[1], 'ra', 'circle2circle'); _expect(k == 0, "circle2circle: ra word is cut")
    c_dec, k = _word(b[2], 'dec', 'circle2circle'); _expect(k == 0, "circle2circle: dec word is cut")
    c_rad, c_strip = _word(b[3], 'radius', 'circle2circle')
    br = _ra_units(b[4], 'circle2circle')
    _expect([t for t, _ in br] == ['ra', 'ra'], "circle2circle: ra branches do not assign ra")
    c_u_colon, c_u_plain = (_angle(v, 'ra', 'circle2circle') for _, v in br)
    _expect(isinstance(b[5], ast.Assign) and src(b[5].targets[0]) == 'dec', "circle2circle: dec = Angle(..)")
    c_u_dec = _angle(b[5].value, 'dec', 'circle2circle')
    _expect(isinstance(b[6], ast.Assign) and src(b[6].targets[0]) == 'radius', "circle2circle: radius = Angle(..)")
    c_u_rad = _angle(b[6].value, 'radius', 'circle2circle')
    _expect(src(b[7]) == 'return [ra.degree, dec.degree, radius.degree]',
            f"circle2circle: returns {src(b[7])[:70]}, expected [ra.degree, dec.degree, radius.degree]")

    # ------------------------------------------------------------------ box2poly
    fn = find_func(mt, 'box2poly')
    _expect([a.arg for a in fn.args.args] == ['line'], "box2poly(line)")
    b = _body(fn)
    _expect(len(b) == 15, f"box2poly: expected 15 statements, found {len(b)}")
    b_delims = _char_class(b[0], 'box2poly')
    idx = {}
    for st, nm in zip(b[1:5], ('ra', 'dec', 'width', 'height')):
        idx[nm], k = _word(st, nm, 'box2poly')
        _expect(k == 0, f"box2poly: {nm} word is cut at extraction")
    br = _ra_units(b[5], 'box2poly')
    _expect([t for t, _ in br] == ['ra', 'ra'], "box2poly: ra branches do not assign ra")
    b_u_colon, b_u_plain = (_angle(v, 'ra', 'box2poly') for _, v in br)
    _expect(isinstance(b[6], ast.Assign) and src(b[6].targets[0]) == 'dec', "box2poly: dec = Angle(..)")
    b_u_dec = _angle(b[6].value, 'dec', 'box2poly')
    half, strips, hunits = {}, {}, {}
    for st, nm in zip(b[7:9], ('width', 'height')):
        _expect(isinstance(st, ast.Assign) and src(st.targets[0]) == nm and isinstance(st.value, ast.Call)
                and src(st.value.func) == 'Angle' and len(st.value.args) == 1 and len(st.value.keywords) == 1
                and st.value.keywords[0].arg == 'unit' and src(st.value.keywords[0].value) in UNITS,
                f"box2poly: expected {nm} = Angle(<expr>, unit=..), found {src(st)[:70]}")
        hunits[nm] = UNITS[src(st.value.keywords[0].value)]
        fl = [n for n in ast.walk(st.value.args[0]) if isinstance(n, ast.Call) and src(n.func) == 'float']
        _expect(len(fl) == 1 and len(fl[0].args) == 1 and isinstance(fl[0].args[0], ast.Subscript)
                and isinstance(fl[0].args[0].slice, ast.Slice), f"box2poly: {nm}: expected one float({nm}[:-k])")
        strips[nm], inner = _strip(fl[0].args[0], 'box2poly')
        _expect(src(inner) == nm, f"box2poly: {nm}: float of {src(inner)}")
        half[nm] = Tr('R', {src(fl[0]): 'x'}).expr(st.value.args[0])
    _expect(src(b[9]) == 'center = SkyCoord(ra, dec)', f"box2poly: centre is {src(b[9])[:60]}")
    env = {'center.ra.degree': 'ra', 'center.dec.degree': 'dec', 'width.degree': 'w', 'height.degree': 'h'}
    corners = {}
    for st in b[10:14]:
        _expect(isinstance(st, ast.Assign) and isinstance(st.targets[0], ast.Name) and isinstance(st.value, ast.Tuple)
                and len(st.value.elts) == 2, f"box2poly: corner {src(st)[:60]}")
        corners[st.targets[0].id] = tuple(Tr('R', env).expr(e) for e in st.value.elts)
    m = re.fullmatch(r'return np\.ravel\(\[(\w+), (\w+), (\w+), (\w+)\]\)\.tolist\(\)', src(b[14]))
    _expect(m and all(g in corners for g in m.groups()) and len(set(m.groups())) == 4 and len(corners) == 4,
            f"box2poly: returns {src(b[14])[:70]}")
    order = list(m.groups())

    # ------------------------------------------------------------------ poly2poly
    fn = find_func(mt, 'poly2poly')
    _expect([a.arg for a in fn.args.args] == ['line'], "poly2poly(line)")
    b = _body(fn)
    _expect(len(b) == 6, f"poly2poly: expected 6 statements, found {len(b)}")
    p_delims = _char_class(b[0], 'poly2poly')
    sl = {}
    for st, nm in zip(b[1:3], ('ras', 'decs')):
        mm = re.fullmatch(nm + r' = np\.array\(words\[(\d+)::(\d+)\]\)', src(st))
        _expect(mm, f"poly2poly: expected {nm} = np.array(words[a::s]), found {src(st)[:60]}")
        sl[nm] = (int(mm.group(1)), int(mm.group(2)))
    _expect(src(b[3]) == 'coords = []' and src(b[5]) == 'return coords', "poly2poly: coords = [] .. return coords")
    lp = b[4]
    _expect(isinstance(lp, ast.For) and src(lp.target).strip('()') == 'ra, dec' and src(lp.iter) == 'zip(ras, decs)' and not lp.orelse
            and len(lp.body) == 3, "poly2poly: expected `for ra, dec in zip(ras, decs):` with skip / parse / extend")
    sk = lp.body[0]
    _expect(isinstance(sk, ast.If) and src(sk.test) == "ra.strip() == '' or dec.strip() == ''" and not sk.orelse
            and [src(s) for s in sk.body] == ['continue'], f"poly2poly: skip test is {src(sk.test)[:70]}")
    br = _ra_units(lp.body[1], 'poly2poly')
    _expect([t for t, _ in br] == ['pos', 'pos'], "poly2poly: branches do not assign pos")
    pu = []
    for _, v in br:
        _expect(isinstance(v, ast.Call) and src(v.func) == 'SkyCoord' and len(v.args) == 2 and not v.keywords,
                f"poly2poly: expected SkyCoord(Angle(ra, ..), Angle(dec, ..)), found {src(v)[:70]}")
        pu.append((_angle(v.args[0], 'ra', 'poly2poly'), _angle(v.args[1], 'dec', 'poly2poly')))
    _expect(src(lp.body[2]) == 'coords.extend([pos.ra.degree, pos.dec.degree])', f"poly2poly: appends {src(lp.body[2])[:70]}")

    # ------------------------------------------------------------------ reg2mim
    fn = find_func(mt, 'reg2mim')
    _expect([a.arg for a in fn.args.args] == ['regfile', 'mimfile', 'maxdepth'] and not fn.args.defaults, "reg2mim(regfile, mimfile, maxdepth)")
    b = [s for s in _body(fn) if not (isinstance(s, ast.Return) and s.value is None)]
    _expect(len(b) == 9, f"reg2mim: expected 9 statements, found {len(b)}")
    mm = re.fullmatch(r"lines = \(ln for ln in open\(regfile, 'r'\) if not ln\.startswith\('(.)'\)\)", src(b[0]))
    _expect(mm, f"reg2mim: line source is {src(b[0])[:90]}")
    comment = ord(mm.group(1))
    _expect(src(b[1]) == 'poly = []' and src(b[2]) == 'circles = []', "reg2mim: poly = []; circles = []")
    lp = b[3]
    _expect(isinstance(lp, ast.For) and src(lp.target) == 'line' and src(lp.iter) == 'lines' and not lp.orelse and len(lp.body) == 1
            and isinstance(lp.body[0], ast.If), "reg2mim: expected `for line in lines:` with one if / elif chain")
    KIND = {('poly', 'box2poly'): 1, ('circles', 'circle2circle'): 2, ('poly', 'poly2poly'): 3}
    dispatch, node = [], lp.body[0]
    while True:
        mm = re.fullmatch(r"line\.startswith\('(\w+)'\)", src(node.test))
        body = [s for s in node.body if not isinstance(s, ast.Pass)]
        _expect(mm and len(body) == 1, f"reg2mim: branch `{src(node.test)[:50]}`")
        m2 = re.fullmatch(r"(\w+)\.append\((\w+)\(line\)\)", src(body[0]))
        _expect(m2 and (m2.group(1), m2.group(2)) in KIND, f"reg2mim: branch body {src(body[0])[:60]}")
        dispatch.append((mm.group(1), KIND[(m2.group(1), m2.group(2))]))
        rest = [s for s in node.orelse if not isinstance(s, ast.Pass)]
        if len(rest) == 1 and isinstance(rest[0], ast.If):
            node = rest[0]
            continue
        _expect(not rest, f"reg2mim: unknown lines are not ignored: {src(rest[0])[:60] if rest else ''}")
        break
    _expect(sorted(k for _, k in dispatch) == [1, 2, 3], f"reg2mim: dispatch is {dispatch}")
    _expect([src(s) for s in b[4:]] == ['container = Dummy(maxdepth=maxdepth)', 'container.include_circles = circles',
                                        'container.include_polygons = poly', 'region = combine_regions(container)',
                                        'save_region(region, mimfile)'], f"reg2mim: tail is {[src(s)[:40] for s in b[4:]]}")

    # ------------------------------------------------------------------ mask2mim
    fn = find_func(mt, 'mask2mim')
    _expect([a.arg for a in fn.args.args] == ['maskfile', 'mimfile', 'threshold', 'maxdepth'] and len(fn.args.defaults) == 2
            and all(isinstance(d, ast.Constant) for d in fn.args.defaults), "mask2mim(maskfile, mimfile, threshold=.., maxdepth=..)")
    thr0, dep0 = (d.value for d in fn.args.defaults)
    _expect(isinstance(thr0, (int, float)) and float(thr0) == int(thr0) and isinstance(dep0, int) and not isinstance(dep0, bool),
            "mask2mim: defaults are not integral")
    b = [s for s in _body(fn) if not (isinstance(s, ast.Return) and s.value is None)]
    _expect(len(b) == 12, f"mask2mim: expected 12 statements, found {len(b)}")
    _expect(src(b[0]) == 'hdu = pyfits.open(maskfile)' and src(b[1]) == 'wcs = pywcs.WCS(hdu[0].header)', "mask2mim: hdu / wcs")
    CMP = {'>=': 0, '>': 1, '!=': 2, '<=': 3, '<': 4, '==': 5}
    mm = re.fullmatch(r'\(?x, y\)? = np\.where\(hdu\[0\]\.data (\S+) threshold\)', src(b[2]))
    _expect(mm and mm.group(1) in CMP, f"mask2mim: selection is {src(b[2])[:70]}")
    sel = CMP[mm.group(1)]
    mm = re.fullmatch(r'\(?ra, dec\)? = wcs\.all_pix2world\((x|y), (x|y), (\d+)\)', src(b[3]))
    _expect(mm and mm.group(1) != mm.group(2), f"mask2mim: wcs call is {src(b[3])[:70]}")
    first_is_col, origin = mm.group(1) == 'y', int(mm.group(3))
    _expect(src(b[4]) == 'sky = np.radians(Region.radec2sky(ra, dec))', f"mask2mim: sky is {src(b[4])[:70]}")
    _expect(src(b[5]) == 'vec = Region.sky2vec(sky)' and src(b[6]).replace('(x, y, z)', 'x, y, z') == 'x, y, z = np.transpose(vec)', "mask2mim: vec / transpose")
    st = b[7]
    _expect(isinstance(st, ast.Assign) and src(st.targets[0]) == 'pix' and isinstance(st.value, ast.Call)
            and src(st.value.func) == 'hp.vec2pix' and [src(a) for a in st.value.args[1:]] == ['x', 'y', 'z']
            and len(st.value.args) == 4 and isinstance(st.value.args[0], ast.BinOp) and isinstance(st.value.args[0].op, ast.Pow)
            and src(st.value.args[0].left) == '2', f"mask2mim: pix is {src(st)[:70]}")
    zenv = {'maxdepth': 'maxdepth'}
    pix_depth = Tr('Z', zenv).expr(st.value.args[0].right)
    kws = {k.arg: k.value for k in st.value.keywords}
    nest = False
    _expect(set(kws) <= {'nest'}, "mask2mim: vec2pix keywords")
    if 'nest' in kws:
        _expect(isinstance(kws['nest'], ast.Constant) and isinstance(kws['nest'].value, bool), "mask2mim: nest")
        nest = kws['nest'].value
    mm = re.fullmatch(r'region = Region\((?:maxdepth=)?(.+)\)', src(b[8]))
    _expect(mm, f"mask2mim: region is {src(b[8])[:60]}")
    reg_depth = Tr('Z', zenv).expr(ast.parse(mm.group(1), mode='eval').body)
    mm = re.fullmatch(r'region\.add_pixels\(pix, (?:depth=)?(.+)\)', src(b[9]))
    _expect(mm, f"mask2mim: insertion is {src(b[9])[:60]}")
    ins_depth = Tr('Z', zenv).expr(ast.parse(mm.group(1), mode='eval').body)
    _expect(src(b[10]) == 'region._renorm()' and src(b[11]) == 'save_region(region, mimfile)', "mask2mim: _renorm; save_region")

    # ------------------------------------------------------------------ Region.add_circles / add_poly argument handling
    fn = find_func(rt, 'add_circles', cls='Region')
    _expect([a.arg for a in fn.args.args] == ['self', 'ra_cen', 'dec_cen', 'radius', 'depth'], "add_circles(self, ra_cen, dec_cen, radius, depth)")
    tr = [s for s in _body(fn) if isinstance(s, ast.Try)]
    _expect(len(tr) == 1 and [src(s) for s in tr[0].body] == ['sky = list(zip(ra_cen, dec_cen))', 'rad = radius']
            and len(tr[0].handlers) == 1 and src(tr[0].handlers[0].type) == 'TypeError'
            and [src(s) for s in tr[0].handlers[0].body] == ['sky = [[ra_cen, dec_cen]]', 'rad = [radius]']
            and not tr[0].orelse and not tr[0].finalbody, "add_circles: try zip / except TypeError: wrap the scalars")
    after = _body(fn)[_body(fn).index(tr[0]) + 1:]
    _expect([src(s) for s in after[:3]] == ['sky = np.array(sky)', 'rad = np.array(rad)', 'vectors = self.sky2vec(sky)'],
            f"add_circles: after the try: {[src(s)[:40] for s in after[:3]]}")
    _expect(isinstance(after[3], ast.For) and src(after[3].target).strip('()') == 'vec, r' and src(after[3].iter) == 'zip(vectors, rad)',
            "add_circles: loop is not `for vec, r in zip(vectors, rad)`")
    q = [n for n in ast.walk(after[3]) if isinstance(n, ast.Call) and src(n.func) == 'hp.query_disc']
    _expect(len(q) == 1 and [src(a) for a in q[0].args[1:]] == ['vec', 'r'], "add_circles: query_disc(.., vec, r, ..)")

    fn = find_func(rt, 'add_poly', cls='Region')
    _expect([a.arg for a in fn.args.args] == ['self', 'positions', 'depth'], "add_poly(self, positions, depth)")
    bb = _body(fn)
    g = bb[0]
    mm = re.fullmatch(r'not len\(positions\) >= (\d+)', src(g.test)) if isinstance(g, ast.If) else None
    _expect(mm and len(g.body) == 1 and isinstance(g.body[0], ast.Raise) and src(g.body[0].exc.func) == 'AssertionError'
            and not g.orelse, "add_poly: guard is not `if not (len(positions) >= N): raise AssertionError`")
    min_vertices = int(mm.group(1))
    texts = [src(s) for s in bb]
    texts = [x.replace('(ras, decs) =', 'ras, decs =') for x in texts]
    _expect('ras, decs = np.array(list(zip(*positions)))' in texts and 'sky = self.radec2sky(ras, decs)' in texts,
            "add_poly: ras, decs = np.array(list(zip(*positions))); sky = self.radec2sky(ras, decs)")
    q = [n for n in ast.walk(fn) if isinstance(n, ast.Call) and src(n.func) == 'hp.query_polygon']
    _expect(len(q) == 1 and src(q[0].args[1]) == 'self.sky2vec(sky)', "add_poly: query_polygon(.., self.sky2vec(sky), ..)")

    def corner(nm):
        return f"({corners[nm][0]}, {corners[nm][1]})"
    disp = '; '.join(f"({_zl([ord(c) for c in w])}, {k})" for w, k in dispatch)
    return HEADER_R + f"""From Coq Require Import ZArith Bool List.
Import ListNotations.

(* unit codes: 0 degree  1 hour  2 arcminute  3 arcsecond  4 radian; characters are their codes *)
(* MIMAS.circle2circle *)
Definition circle_delims : list Z := {_zl(c_delims)}%Z.
Definition circle_ra_word : Z := {c_ra}%Z.
Definition circle_dec_word : Z := {c_dec}%Z.
Definition circle_radius_word : Z := {c_rad}%Z.
Definition circle_radius_strip : Z := {c_strip}%Z.
Definition circle_ra_unit_colon : Z := {c_u_colon}%Z.
Definition circle_ra_unit_plain : Z := {c_u_plain}%Z.
Definition circle_dec_unit : Z := {c_u_dec}%Z.
Definition circle_radius_unit : Z := {c_u_rad}%Z.

(* MIMAS.box2poly *)
Definition box_delims : list Z := {_zl(b_delims)}%Z.
Definition box_ra_word : Z := {idx['ra']}%Z.
Definition box_dec_word : Z := {idx['dec']}%Z.
Definition box_width_word : Z := {idx['width']}%Z.
Definition box_height_word : Z := {idx['height']}%Z.
Definition box_width_strip : Z := {strips['width']}%Z.
Definition box_height_strip : Z := {strips['height']}%Z.
Definition box_ra_unit_colon : Z := {b_u_colon}%Z.
Definition box_ra_unit_plain : Z := {b_u_plain}%Z.
Definition box_dec_unit : Z := {b_u_dec}%Z.
Definition box_width_unit : Z := {hunits['width']}%Z.
Definition box_height_unit : Z := {hunits['height']}%Z.
(* x = float(word[:-k]) *)
Definition box_half_width (x : R) : R := {half['width']}.
Definition box_half_height (x : R) : R := {half['height']}.
(* (ra, dec) = centre as SkyCoord reports it, w h = half sizes in degrees; corners in the order they are returned *)
Definition box_corners (ra dec w h : R) : list (R * R) := [{'; '.join(corner(nm) for nm in order)}].

(* MIMAS.poly2poly: ras = words[a::s], decs = words[b::t]; a pair is skipped when either word is blank *)
Definition poly_delims : list Z := {_zl(p_delims)}%Z.
Definition poly_ra_start : Z := {sl['ras'][0]}%Z.
Definition poly_ra_step : Z := {sl['ras'][1]}%Z.
Definition poly_dec_start : Z := {sl['decs'][0]}%Z.
Definition poly_dec_step : Z := {sl['decs'][1]}%Z.
Definition poly_ra_unit_colon : Z := {pu[0][0]}%Z.
Definition poly_dec_unit_colon : Z := {pu[0][1]}%Z.
Definition poly_ra_unit_plain : Z := {pu[1][0]}%Z.
Definition poly_dec_unit_plain : Z := {pu[1][1]}%Z.

(* MIMAS.reg2mim: lines starting with this character are dropped; dispatch (prefix, parser) in textual order,
   parser 1 = box2poly -> polygons, 2 = circle2circle -> circles, 3 = poly2poly -> polygons; other lines are ignored *)
Definition reg_comment_char : Z := {comment}%Z.
Definition reg_dispatch : list (list Z * Z) := [{disp}]%Z.

(* MIMAS.mask2mim: selection code 0 >=  1 >  2 !=  3 <=  4 <  5 == *)
Definition mask_select_cmp : Z := {sel}%Z.
Definition mask_world_first_is_col : bool := {_b(first_is_col)}.
Definition mask_wcs_origin : Z := {origin}%Z.
Definition mask_pix_depth (maxdepth : Z) : Z := ({pix_depth})%Z.
Definition mask_pix_nest : bool := {_b(nest)}.
Definition mask_region_depth (maxdepth : Z) : Z := ({reg_depth})%Z.
Definition mask_insert_depth (maxdepth : Z) : Z := ({ins_depth})%Z.
Definition mask_default_threshold : Z := {int(thr0)}%Z.
Definition mask_default_depth : Z := {dep0}%Z.

(* Region.add_poly: fewer vertices raise AssertionError *)
Definition poly_min_vertices : Z := {min_vertices}%Z.
"""
