"""C03 extraction points: catalogue numbering, shape normalisation, flag algebra, the decision
table of fitting.errors, the integrated-flux formula, the island summary and the sexagesimal
field arithmetic.  Every matcher fails closed (TranslateError) when the source no longer has
the shape the hand-written model (coq/Model/CatalogRows.v) assumes.

  Gen/CatRows.v      (Z / N / fval leaves, axiom-free)
  Gen/CatRowsFlux.v  (R leaves: the int_flux expression)
"""
import ast
import os

from trcore import (HEADER_R, Tr, TranslateError, find_augassigns, find_func, one_assign, parse_file, point, src,
                    strip_doc)


def _p(repo, rel):
    return os.path.join(repo, 'AegeanTools', rel)


HEADER_F = ("From Coq Require Import ZArith NArith QArith Bool List.\nFrom Aegean Require Import Lib.FVal.\n"
            "Import ListNotations.\nOpen Scope Z_scope.\n")

DOCUMENTED_FLAGS = ['FITERRSMALL', 'FITERR', 'FIXED2PSF', 'FIXEDCIRCULAR', 'NOTFIT', 'WCSERR', 'PRIORIZED']


class TrF(Tr):
    """fval back end: float-valued source fields with IEEE special values (Lib/FVal.v).
    Only what fix_shape / pa_limit / the RA wrap need: names, integer literals, + and -,
    comparisons."""

    def __init__(self, env=None):
        Tr.__init__(self, 'Z', env)

    def lit(self, v):
        if isinstance(v, bool) or not isinstance(v, int):
            if isinstance(v, float) and v == int(v):
                v = int(v)
            else:
                raise TranslateError(f"non-integer literal {v!r} in the fval back end")
        return f"(FZ ({v}))" if v < 0 else f"(FZ {v})"

    def e_BinOp(self, n):
        a, b = self.expr(n.left), self.expr(n.right)
        if isinstance(n.op, ast.Add):
            return f"(fadd {a} {b})"
        if isinstance(n.op, ast.Sub):
            return f"(fsub {a} {b})"
        raise TranslateError(f"operator in fval back end: {src(n)}")

    def e_Call(self, n):
        raise TranslateError(f"call in fval back end: {src(n)}")

    def cmp(self, op, a, b):
        t = {ast.Lt: f"(flt {a} {b})", ast.LtE: f"(fle {a} {b})", ast.Gt: f"(flt {b} {a})",
             ast.GtE: f"(fle {b} {a})"}
        if type(op) not in t:
            raise TranslateError(f"comparison {type(op).__name__} in fval back end")
        return t[type(op)]


def _need(cond, msg):
    if not cond:
        raise TranslateError(msg)


def _aug(st, target, optype):
    return isinstance(st, ast.AugAssign) and src(st.target) == target and isinstance(st.op, optype)


def _aug_expr(tr, st):
    fake = ast.BinOp(left=st.target, op=st.op, right=st.value)
    return tr.expr(fake)


def _stmts_in_order(body):
    """flatten statements in source order (pre-order), for 'A happens before B' checks"""
    out = []
    for st in body:
        out.append(st)
        for fld in ('body', 'orelse', 'finalbody', 'handlers'):
            sub = getattr(st, fld, None)
            if isinstance(sub, list):
                subs = []
                for s in sub:
                    if isinstance(s, ast.ExceptHandler):
                        subs += s.body
                    elif isinstance(s, ast.stmt):
                        subs.append(s)
                out += _stmts_in_order(subs)
    return out


# ------------------------------------------------------------------------------------------
def _flags(repo):
    tree = parse_file(_p(repo, 'flags.py'))
    consts = []
    for st in tree.body:
        if isinstance(st, ast.Assign):
            _need(len(st.targets) == 1 and isinstance(st.targets[0], ast.Name), f"flags.py: {src(st)}")
            nm = st.targets[0].id
            if nm.startswith('__'):
                continue
            _need(isinstance(st.value, ast.Constant) and isinstance(st.value.value, int)
                  and not isinstance(st.value.value, bool) and st.value.value >= 0,
                  f"flags.py: {nm} is not a non-negative integer literal")
            consts.append((nm, st.value.value))
        elif isinstance(st, (ast.Expr, ast.Import, ast.ImportFrom)):
            continue
        else:
            raise TranslateError(f"flags.py: unexpected statement {src(st)[:60]}")
    names = [n for n, _ in consts]
    for d in DOCUMENTED_FLAGS:
        _need(names.count(d) == 1, f"flags.py: documented flag {d} not defined exactly once")
    return consts


def _flag_sites(repo, consts):
    """every use of flags.X must name a defined constant; every mutation of a flag-carrying
    variable must be `|=` or a plain copy / literal 0"""
    names = {n for n, _ in consts}
    used = []
    flagvars = ('is_flag', 'summit_flag', 'src_flags', 'source.flags', 'ns.flags', "params[prefix + 'flags'].value")
    for rel in ('source_finder.py', 'fitting.py'):
        tree = parse_file(_p(repo, rel))
        for n in ast.walk(tree):
            if isinstance(n, ast.Attribute) and isinstance(n.value, ast.Name) and n.value.id == 'flags':
                _need(n.attr in names, f"{rel}: flags.{n.attr} is not defined in flags.py")
                used.append(n.attr)
            if isinstance(n, ast.AugAssign) and src(n.target) in flagvars:
                _need(isinstance(n.op, ast.BitOr), f"{rel}: flag variable updated with {src(n)} (only |= is modelled)")
                v = src(n.value)
                ok = (isinstance(n.value, ast.Attribute) and v.startswith('flags.')) or \
                    v == "int(model[prefix + 'flags'].value)"
                _need(ok, f"{rel}: flag variable or-ed with {v}")
            if isinstance(n, ast.Assign) and len(n.targets) == 1 and src(n.targets[0]) in flagvars:
                v = src(n.value)
                _need(v in ('0', 'is_flag', 'isflags', 'src_flags', 'summit_flag'),
                      f"{rel}: flag variable assigned {v}")
    return sorted(set(used))


# ------------------------------------------------------------------------------------------
def _blind_numbering(sf_tree):
    fn = find_func(sf_tree, 'find_sources_in_image', cls='SourceFinder')
    init = one_assign(fn, 'isle_num').value
    _need(isinstance(init, ast.Constant) and isinstance(init.value, int), "find_sources_in_image: isle_num initial value")
    augs = find_augassigns(fn, 'isle_num')
    _need(len(augs) == 1 and isinstance(augs[0].op, ast.Add), "find_sources_in_image: exactly one `isle_num += k`")
    tr = Tr('Z', {'isle_num': 'n'})
    step = _aug_expr(tr, augs[0])
    loops = [n for n in ast.walk(fn) if isinstance(n, ast.For) and src(n.iter) == 'islands']
    _need(len(loops) == 1, "find_sources_in_image: loop over islands")
    body = loops[0].body
    flat = _stmts_in_order(body)
    _need(augs[0] in body, "find_sources_in_image: isle_num is not incremented at the top level of the island loop")
    ia = flat.index(augs[0])
    calls = [k for k, s in enumerate(flat) if isinstance(s, ast.Assign)
             and isinstance(s.value, ast.Call) and src(s.value.func) == 'IslandFittingData']
    _need(len(calls) == 1, "find_sources_in_image: one IslandFittingData(...) per island")
    c = flat[calls[0]].value
    _need(c.args and src(c.args[0]) == 'isle_num', "find_sources_in_image: IslandFittingData first argument is not isle_num")
    _need(flat[calls[0]] in body, "find_sources_in_image: IslandFittingData is created conditionally")
    conts = [k for k, s in enumerate(flat) if isinstance(s, ast.Continue)]
    _need(all(k < ia for k in conts), "find_sources_in_image: a `continue` follows the isle_num increment")
    before = 'true' if ia < calls[0] else 'false'
    return int(init.value), step, before


def _priorized_numbering(sf_tree):
    fn = find_func(sf_tree, 'priorized_fit_islands', cls='SourceFinder')
    gs = one_assign(fn, 'group_size').value
    _need(isinstance(gs, ast.Constant) and isinstance(gs.value, int), "priorized_fit_islands: group_size literal")
    loops = [n for n in ast.walk(fn) if isinstance(n, ast.For) and src(n.iter) == 'groups']
    _need(len(loops) == 1, "priorized_fit_islands: batching loop over groups")
    lb = loops[0].body
    _need(len(lb) == 2 and src(lb[0]) == 'island_group.append(island)' and isinstance(lb[1], ast.If)
          and not lb[1].orelse and [src(s) for s in lb[1].body] ==
          ['island_groups.append(island_group)', 'island_group = []'],
          "priorized_fit_islands: batching loop body")
    tr = Tr('Z', {'len(island_group)': 'len', 'group_size': 'gs'})
    full = tr.cond(lb[1].test)
    # the rest batch
    par = [n for n in ast.walk(fn) if isinstance(n, ast.If) and 'len(island_group)' in src(n.test) and n is not lb[1]]
    _need(len(par) == 1 and [src(s) for s in par[0].body] == ['island_groups.append(island_group)'] and not par[0].orelse,
          "priorized_fit_islands: queueing of the last partial group")
    rest = tr.cond(par[0].test)
    # the fitting loop
    floops = [n for n in ast.walk(fn) if isinstance(n, ast.For) and src(n.iter) == 'enumerate(island_groups)']
    _need(len(floops) == 1 and src(floops[0].target) == '(i, g)', "priorized_fit_islands: for i, g in enumerate(island_groups)")
    calls = [n for n in ast.walk(floops[0]) if isinstance(n, ast.Call) and src(n.func) == 'self._refit_islands']
    _need(len(calls) == 1, "priorized_fit_islands: one _refit_islands call per group")
    c = calls[0]
    _need(c.args and src(c.args[0]) == 'g', "priorized_fit_islands: _refit_islands first argument is not the group")
    kw = {k.arg: k.value for k in c.keywords}
    _need('istart' in kw, "priorized_fit_islands: _refit_islands is called without istart")
    tri = Tr('Z', {'i': 'i', 'group_size': 'gs'})
    istart = tri.expr(kw['istart'])
    ext = [n for n in ast.walk(floops[0]) if isinstance(n, ast.Call) and src(n.func) == 'sources.extend']
    _need(len(ext) == 1 and src(ext[0].args[0]) == 'srcs', "priorized_fit_islands: sources.extend(srcs)")
    # _refit_islands: numbering by enumerate(group, start=istart)
    rf = find_func(sf_tree, '_refit_islands', cls='SourceFinder')
    top = [n for n in rf.body if isinstance(n, ast.For)]
    _need(len(top) == 1 and src(top[0].target) == '(inum, isle)' and src(top[0].iter) == 'enumerate(group, start=istart)',
          "_refit_islands: for inum, isle in enumerate(group, start=istart)")
    ifd = [n for n in ast.walk(top[0]) if isinstance(n, ast.Call) and src(n.func) == 'IslandFittingData']
    _need(len(ifd) == 1 and ifd[0].args and src(ifd[0].args[0]) == 'inum', "_refit_islands: IslandFittingData(inum, ...)")
    for n in ast.walk(top[0]):
        if isinstance(n, (ast.Assign, ast.AugAssign)):
            tg = n.targets if isinstance(n, ast.Assign) else [n.target]
            for t in tg:
                for nm in ast.walk(t):
                    _need(not (isinstance(nm, ast.Name) and nm.id in ('inum', 'istart')),
                          "_refit_islands: inum/istart is reassigned inside the loop")
    # component counter of the refit loop
    inner = [n for n in top[0].body if isinstance(n, ast.For) and src(n.iter) == 'isle']
    _need(len(inner) == 1, "_refit_islands: loop over the components of an island")
    ib = inner[0].body
    zero = [s for s in top[0].body if isinstance(s, ast.Assign) and src(s.targets[0]) == 'i']
    _need(len(zero) == 1 and isinstance(zero[0].value, ast.Constant) and top[0].body.index(zero[0]) < top[0].body.index(inner[0]),
          "_refit_islands: i = 0 before the component loop")
    _need(_aug(ib[-1], 'i', ast.Add), "_refit_islands: `i += 1` is not the last statement of the component loop")
    trc = Tr('Z', {'i': 'i'})
    rstep = _aug_expr(trc, ib[-1])
    flat = _stmts_in_order(ib)
    adds = [k for k, s in enumerate(flat) if isinstance(s, ast.Expr) and isinstance(s.value, ast.Call)
            and src(s.value.func) == 'params.add']
    conts = [k for k, s in enumerate(flat) if isinstance(s, ast.Continue)]
    _need(adds and all(k < adds[0] for k in conts), "_refit_islands: a component is skipped after its parameters were added")
    pre = [s for s in flat if isinstance(s, ast.Assign) and src(s.targets[0]) == 'prefix']
    _need(len(pre) == 1 and src(pre[0].value) == "'c{0}_'.format(i)", "_refit_islands: prefix = 'c{0}_'.format(i)")
    comp = [n for n in ast.walk(top[0]) if isinstance(n, ast.Call) and src(n.func) == 'params.add'
            and n.args and src(n.args[0]) == "'components'"]
    _need(len(comp) == 1 and src({k.arg: k.value for k in comp[0].keywords}.get('value', ast.Constant(None))) == 'i',
          "_refit_islands: params.add('components', value=i)")
    incl = [s for s in flat if src(s) == 'included_sources.append(src)']
    _need(len(incl) == 1, "_refit_islands: included_sources.append(src)")
    return int(gs.value), full, rest, istart, int(zero[0].value.value), rstep


def _component_counter(sf_tree):
    fn = find_func(sf_tree, 'estimate_lmfit_parinfo', cls='SourceFinder')
    loops = [n for n in fn.body if isinstance(n, ast.For) and 'summits' in src(n.iter)]
    _need(len(loops) == 1, "estimate_lmfit_parinfo: summit loop")
    lp = loops[0]
    zero = [s for s in fn.body if isinstance(s, ast.Assign) and src(s.targets[0]) == 'i']
    _need(len(zero) == 1 and isinstance(zero[0].value, ast.Constant) and isinstance(zero[0].value.value, int)
          and fn.body.index(zero[0]) < fn.body.index(lp), "estimate_lmfit_parinfo: i = 0 before the summit loop")
    _need(_aug(lp.body[-1], 'i', ast.Add), "estimate_lmfit_parinfo: `i += 1` is not the last statement of the summit loop")
    _need(len(find_augassigns(fn, 'i')) == 1, "estimate_lmfit_parinfo: i is updated more than once")
    step = _aug_expr(Tr('Z', {'i': 'i'}), lp.body[-1])
    flat = _stmts_in_order(lp.body)
    adds = [k for k, s in enumerate(flat) if isinstance(s, ast.Expr) and isinstance(s.value, ast.Call)
            and src(s.value.func) == 'params.add']
    conts = [k for k, s in enumerate(flat) if isinstance(s, ast.Continue)]
    _need(len(adds) == 7 and all(k < adds[0] for k in conts),
          "estimate_lmfit_parinfo: seven params.add per accepted summit, every skip before the first")
    pre = [s for s in flat if isinstance(s, ast.Assign) and src(s.targets[0]) == 'prefix']
    _need(len(pre) == 1 and src(pre[0].value) == "'c{0}_'.format(i)", "estimate_lmfit_parinfo: prefix")
    after = fn.body[fn.body.index(lp) + 1:]
    comp = [n for s in after for n in ast.walk(s) if isinstance(n, ast.Call) and src(n.func) == 'params.add'
            and n.args and src(n.args[0]) == "'components'"]
    _need(len(comp) == 1 and src({k.arg: k.value for k in comp[0].keywords}.get('value', ast.Constant(None))) == 'i',
          "estimate_lmfit_parinfo: params.add('components', value=i) after the loop")
    # small-island flags
    chain = [s for s in fn.body if isinstance(s, ast.If) and 'non_nan_pix' in src(s.test)]
    _need(len(chain) == 1, "estimate_lmfit_parinfo: small-island flag chain")
    c0 = chain[0]
    _need(len(c0.body) >= 1 and len(c0.orelse) == 1 and isinstance(c0.orelse[0], ast.If), "estimate_lmfit_parinfo: if/elif/else")
    c1 = c0.orelse[0]

    def flag_of(body):
        a = [s for s in body if isinstance(s, ast.AugAssign)]
        _need(len(a) == 1 and src(a[0].target) == 'is_flag' and isinstance(a[0].op, ast.BitOr)
              and src(a[0].value).startswith('flags.'), "estimate_lmfit_parinfo: small-island branch")
        return src(a[0].value)[6:]
    f0, f1 = flag_of(c0.body), flag_of(c1.body)
    _need(len(c1.orelse) == 1 and src(c1.orelse[0]) == 'is_flag = 0', "estimate_lmfit_parinfo: else is_flag = 0")
    trn = Tr('Z', {'non_nan_pix': 'npix'})
    t0, t1 = trn.cond(c0.test), trn.cond(c1.test)
    init_flag = [s for s in fn.body if isinstance(s, ast.Assign) and src(s.targets[0]) == 'is_flag']
    _need(len(init_flag) == 1 and src(init_flag[0].value) == '0', "estimate_lmfit_parinfo: is_flag = 0")
    # tiny-summit test
    tiny = [s for s in fn.body if isinstance(s, ast.If) and 'min(data.shape)' in src(s.test)]
    _need(len(tiny) == 1 and isinstance(tiny[0].test, ast.BoolOp) and isinstance(tiny[0].test.op, ast.Or)
          and len(tiny[0].test.values) == 3, "estimate_lmfit_parinfo: tiny-summit test")
    v = tiny[0].test.values
    tmin = Tr('Z', {'min(data.shape)': 'mindim'}).cond(v[0])
    masks = []
    for e in v[1:]:
        _need(isinstance(e, ast.BinOp) and isinstance(e.op, ast.BitAnd) and src(e.left) == 'is_flag'
              and src(e.right).startswith('flags.'), "estimate_lmfit_parinfo: tiny-summit flag test")
        masks.append(src(e.right)[6:])
    ta = [s for s in tiny[0].body if isinstance(s, ast.AugAssign)]
    _need(len(ta) == 1 and src(ta[0]) == 'is_flag |= flags.FIXED2PSF', "estimate_lmfit_parinfo: tiny summit -> FIXED2PSF")
    # psf_vary
    pv = [s for s in flat if isinstance(s, ast.If) and src(s.test) == 'summit_flag & flags.FIXED2PSF > 0']
    _need(len(pv) == 1 and src(pv[0].body[0]) == 'psf_vary = False' and src(pv[0].orelse[0]) == 'psf_vary = not maxxed',
          "estimate_lmfit_parinfo: psf_vary")
    mx = [s for s in flat if isinstance(s, ast.If) and src(s.test) == 'maxxed']
    _need(len(mx) == 1 and sorted(src(s) for s in mx[0].body) ==
          ['summit_flag |= flags.FIXED2PSF', 'summit_flag |= flags.NOTFIT'], "estimate_lmfit_parinfo: maxxed flags")
    # _fit_island: NOTFIT when not enough pixels
    fi = find_func(sf_tree, '_fit_island', cls='SourceFinder')
    nf = [n for n in ast.walk(fi) if isinstance(n, ast.If) and 'non_blank_pix' in src(n.test)]
    _need(len(nf) == 1, "_fit_island: pixel / free-variable test")
    tnf = Tr('Z', {'non_blank_pix': 'npix', 'free_vars': 'nfree'}).cond(nf[0].test)
    _need(any(src(s) == 'is_flag |= flags.NOTFIT' for s in nf[0].body), "_fit_island: NOTFIT when the island cannot be fitted")
    fe = [src(s) for s in _stmts_in_order(nf[0].orelse) if isinstance(s, ast.AugAssign) and src(s.target) == 'is_flag']
    _need(fe and all(s == 'is_flag |= flags.FITERR' for s in fe), "_fit_island: only FITERR is added after a fit")
    fv = one_assign(fi, 'free_vars').value
    _need(src(fv) == 'len([1 for a in params.keys() if params[a].vary])', "_fit_island: free_vars")
    return (int(zero[0].value.value), step, t0, f0, t1, f1, tmin, masks, tnf)


def _result_to_components(sf_tree):
    fn = find_func(sf_tree, 'result_to_components', cls='SourceFinder')
    _need(src(one_assign(fn, 'isle_num').value) == 'island_data.isle_num', "result_to_components: isle_num")
    loops = [n for n in fn.body if isinstance(n, ast.For)]
    _need(len(loops) == 1 and src(loops[0].target) == 'j' and
          src(loops[0].iter) == "range(int(model['components'].value))", "result_to_components: for j in range(components)")
    lp = loops[0]
    flat = _stmts_in_order(lp.body)
    texts = [src(s) for s in flat]
    for need in ('source.island = isle_num', 'source.source = j', 'sources.append(source)', 'fix_shape(source)',
                 'source.pa = pa_limit(source.pa)', 'source.a *= 3600', 'source.b *= 3600',
                 'source.ra_str = dec2hms(source.ra)', 'source.dec_str = dec2dms(source.dec)',
                 'errors(source, model, global_data.wcshelper)', 'source.peak_flux = amp'):
        _need(texts.count(need) == 1, f"result_to_components: expected exactly one `{need}` in the component loop")
    _need(not any(isinstance(s, (ast.Continue, ast.Break)) for s in flat), "result_to_components: component loop skips")
    _need(lp.body[-2:] and src(lp.body[-2]) == 'sources.append(source)' or src(lp.body[-1]) == 'sources.append(source)',
          "result_to_components: append is conditional")
    order = [texts.index(t) for t in ('source.a *= 3600', 'fix_shape(source)', 'source.pa = pa_limit(source.pa)',
                                      'source.ra_str = dec2hms(source.ra)')]
    _need(order == sorted(order), "result_to_components: order of scaling / fix_shape / pa_limit / strings")
    # ellipse conversion feeding a, b, pa
    ell = [s for s in flat if isinstance(s, ast.Assign) and isinstance(s.value, ast.Call)
           and src(s.value.func) == 'global_data.wcshelper.pix2sky_ellipse']
    _need(len(ell) == 1 and src(ell[0].targets[0]) == '(source.ra, source.dec, source.a, source.b, source.pa)',
          "result_to_components: pix2sky_ellipse targets")
    ea = [src(a) for a in ell[0].value.args]
    _need(ea == ['(x_pix, y_pix)', 'sx * CC2FHWM', 'sy * CC2FHWM', 'theta'], f"result_to_components: pix2sky_ellipse arguments {ea}")
    # RA wrap
    wr = [s for s in lp.body if isinstance(s, ast.If) and src(s.test).startswith('source.ra')]
    _need(len(wr) == 1 and len(wr[0].body) == 1 and not wr[0].orelse and isinstance(wr[0].body[0], ast.AugAssign)
          and src(wr[0].body[0].target) == 'source.ra', "result_to_components: RA wrap")
    _need(texts.index(src(wr[0])) < texts.index('source.ra_str = dec2hms(source.ra)') if src(wr[0]) in texts else True,
          "result_to_components: RA wrap after the string")
    _need(lp.body.index(wr[0]) < [k for k, s in enumerate(lp.body) if src(s) == 'source.ra_str = dec2hms(source.ra)'][0],
          "result_to_components: RA wrap must precede ra_str")
    trf = TrF({'source.ra': 'ra'})
    wrap_test = trf.cond(wr[0].test)
    wrap_step = _aug_expr(trf, wr[0].body[0])
    # WCSERR on non-finite sky values
    wf = [s for s in lp.body if isinstance(s, ast.If) and 'np.isfinite((source.ra, source.dec, source.a, source.b, source.pa))'
          in src(s.test)]
    _need(len(wf) == 1 and src(wf[0].body[0]) == 'src_flags |= flags.WCSERR', "result_to_components: WCSERR test")
    # flags
    _need(texts.count('source.flags = src_flags') == 2 and 'src_flags = is_flag' in texts and
          "src_flags |= int(model[prefix + 'flags'].value)" in texts, "result_to_components: flag assembly")
    # int_flux
    iff = [s for s in flat if isinstance(s, ast.Assign) and src(s.targets[0]) == 'source.int_flux']
    ifa = [s for s in flat if isinstance(s, ast.AugAssign) and src(s.target) == 'source.int_flux']
    _need(len(iff) == 1 and len(ifa) == 1 and isinstance(ifa[0].op, ast.Div) and
          src(ifa[0].value) == 'global_data.psfhelper.get_beamarea_pix(source.ra, source.dec)' and
          flat.index(iff[0]) < flat.index(ifa[0]), "result_to_components: int_flux assignment then /= beam area")
    # psf columns
    for need in ('source.psf_a = local_beam.a * 3600', 'source.psf_b = local_beam.b * 3600'):
        _need(need in texts, f"result_to_components: {need}")
    # island summary
    isl = [s for s in fn.body if isinstance(s, ast.If) and src(s.test) == 'island_data.doislandflux']
    _need(len(isl) == 1, "result_to_components: island summary block")
    it = [src(s) for s in isl[0].body]
    for need in ('source = IslandSource()', 'source.flags = 0', 'source.island = isle_num',
                 'source.x_width, source.y_width = idata.shape',
                 'source.pixels = int(sum(np.isfinite(kappa_sigma).ravel() * 1.0))',
                 'source.extent = [xmin, xmax, ymin, ymax]', 'sources.append(source)',
                 'kappa_sigma = np.where(abs(idata) - outerclip * rms > 0, idata, np.nan)',
                 'source.peak_flux = np.nanmax(kappa_sigma)'):
        _need(it.count(need) == 1, f"result_to_components: island summary `{need}`")
    comp = [s for s in isl[0].body if isinstance(s, ast.Assign) and src(s.targets[0]) == 'source.components']
    _need(len(comp) == 1, "result_to_components: source.components")
    _need(it.index('source.components = ' + src(comp[0].value)) <
          min(k for k, s in enumerate(isl[0].body) if isinstance(s, ast.For)),
          "result_to_components: source.components is set after j is reused")
    ncomp = Tr('Z', {'j': 'j'}).expr(comp[0].value)
    jinit = [s for s in fn.body if isinstance(s, ast.Assign) and src(s.targets[0]) == 'j']
    _need(len(jinit) == 1 and src(jinit[0].value) == '0', "result_to_components: j = 0")
    return wrap_test, wrap_step, iff[0].value, ncomp


def _shape_leaves(sf_tree):
    fs = find_func(sf_tree, 'fix_shape')
    body = strip_doc(fs.body)
    _need(len(body) == 2 and isinstance(body[0], ast.If) and not body[0].orelse and isinstance(body[1], ast.Return)
          and body[1].value is None, "fix_shape: body is not `if ..: swap` + return")
    trf = TrF({'source.a': 'a', 'source.b': 'b', 'source.pa': 'pa'})
    test = trf.cond(body[0].test)
    sb = [src(s) for s in body[0].body]
    _need(len(sb) == 3 and sb[0] == 'source.a, source.b = (source.b, source.a)' and
          sb[1] == 'source.err_a, source.err_b = (source.err_b, source.err_a)' and
          isinstance(body[0].body[2], ast.AugAssign) and src(body[0].body[2].target) == 'source.pa',
          f"fix_shape: swap block is {sb}")
    pstep = _aug_expr(trf, body[0].body[2])
    pl = find_func(sf_tree, 'pa_limit')
    body = strip_doc(pl.body)
    _need(len(body) == 3 and isinstance(body[0], ast.While) and isinstance(body[1], ast.While) and
          isinstance(body[2], ast.Return) and src(body[2].value) == 'pa' and not body[0].orelse and not body[1].orelse,
          "pa_limit: body is not while / while / return pa")
    trp = TrF({'pa': 'pa'})
    out = []
    for w in body[:2]:
        _need(len(w.body) == 1 and isinstance(w.body[0], ast.AugAssign) and src(w.body[0].target) == 'pa', "pa_limit: loop body")
        out.append((trp.cond(w.test), _aug_expr(trp, w.body[0])))
    return test, pstep, out


def _bool_guard(test, names):
    """translate a guard of fitting.errors into a boolean expression over named booleans"""
    def go(n):
        if isinstance(n, ast.BoolOp):
            op = ' && ' if isinstance(n.op, ast.And) else ' || '
            return '(' + op.join(go(v) for v in n.values) + ')'
        if isinstance(n, ast.UnaryOp) and isinstance(n.op, ast.Not):
            return f"(negb {go(n.operand)})"
        t = src(n)
        if t in names:
            return names[t]
        if isinstance(n, ast.Call) and src(n.func) == 'all' and len(n.args) == 1 and isinstance(n.args[0], ast.Call) \
                and src(n.args[0].func) == 'np.isfinite' and isinstance(n.args[0].args[0], (ast.List, ast.Tuple)):
            return '(' + ' && '.join(go(ast.parse(f"np.isfinite({src(e)})").body[0].value) for e in n.args[0].args[0].elts) + ')'
        raise TranslateError(f"fitting.errors: guard term {t}")
    return go(test)


def _errors_table(repo, sf_tree):
    tree = parse_file(_p(repo, 'fitting.py'))
    em = [s for s in tree.body if isinstance(s, ast.Assign) and src(s.targets[0]) == 'ERR_MASK']
    _need(len(em) == 1, "fitting.py: ERR_MASK")
    emv = em[0].value
    if isinstance(emv, ast.UnaryOp) and isinstance(emv.op, ast.USub) and isinstance(emv.operand, ast.Constant):
        emval = -emv.operand.value
    elif isinstance(emv, ast.Constant):
        emval = emv.value
    else:
        raise TranslateError("fitting.py: ERR_MASK is not a literal")
    _need(float(emval) == int(emval), "fitting.py: ERR_MASK is not an integer value")
    fn = find_func(tree, 'errors')
    body = strip_doc(fn.body)
    ALL = {'source.err_peak_flux', 'source.err_a', 'source.err_b', 'source.err_pa', 'source.err_ra', 'source.err_dec',
           'source.err_int_flux'}

    def masked_targets(stmts):
        got = set()
        for s in stmts:
            if isinstance(s, ast.Assign):
                v = src(s.value)
                _need(v in ('ERR_MASK', '-1'), f"fitting.errors: masking assigns {v}")
                if v == '-1':
                    _need(int(emval) == -1, "fitting.errors: literal -1 used but ERR_MASK differs")
                got |= {src(t) for t in s.targets}
        return got
    # 0: early mask
    s0 = body[0]
    _need(isinstance(s0, ast.If) and isinstance(s0.test, ast.BinOp) and isinstance(s0.test.op, ast.BitAnd)
          and src(s0.test.left) == 'source.flags' and not s0.orelse, "fitting.errors: early flag test")
    mk = s0.test.right
    mnames = []
    for n in ast.walk(mk):
        if isinstance(n, ast.Attribute) and isinstance(n.value, ast.Name) and n.value.id == 'flags':
            mnames.append(n.attr)
        elif isinstance(n, ast.BinOp):
            _need(isinstance(n.op, ast.BitOr), "fitting.errors: early mask is not an or of flags")
        elif not isinstance(n, (ast.Name, ast.Load, ast.BitOr)):
            raise TranslateError(f"fitting.errors: early mask {src(mk)}")
    _need(masked_targets(s0.body) == ALL and isinstance(s0.body[-1], ast.Return), "fitting.errors: early mask sets all seven")
    # stderr reads
    reads = {}
    for s in body:
        if isinstance(s, ast.Assign) and len(s.targets) == 1 and isinstance(s.targets[0], ast.Name) \
                and src(s.value).endswith('.stderr'):
            reads[s.targets[0].id] = src(s.value)
    exp = {f'err_{p}': f"model[prefix + '{p}'].stderr" for p in ('amp', 'xo', 'yo', 'sx', 'sy', 'theta')}
    _need(reads == exp, f"fitting.errors: stderr reads {reads}")
    _need(src(one_assign(fn, 'prefix').value) == "'c{0}_'.format(source.source)", "fitting.errors: prefix")
    pk = [s for s in body if isinstance(s, ast.Assign) and src(s.targets[0]) == 'source.err_peak_flux']
    _need(len(pk) == 1 and src(pk[0].value) == 'err_amp', "fitting.errors: source.err_peak_flux = err_amp (top level)")
    # ref finite
    rf = [s for s in body if isinstance(s, ast.If) and src(s.test) == 'not all(np.isfinite(ref))']
    _need(len(rf) == 1 and masked_targets(rf[0].body) == ALL and isinstance(rf[0].body[-1], ast.Return)
          and src(rf[0].body[0]) == 'source.flags |= flags.WCSERR', "fitting.errors: reference position test")
    names = {}
    for p in ('xo', 'yo', 'sx', 'sy', 'theta', 'amp'):
        names[f"model[prefix + '{p}'].vary"] = f'v_{p}'
        names[f"np.isfinite(err_{p})"] = f'f_{p}'
    blocks = [s for s in body[body.index(rf[0]) + 1:] if isinstance(s, ast.If)]
    _need(len(blocks) == 4, "fitting.errors: expected position / pa / shape / sqerr blocks")
    guards = []
    want = [({'source.err_ra', 'source.err_dec'}), ({'source.err_pa'}), ({'source.err_a', 'source.err_b'})]
    for b, w in zip(blocks[:3], want):
        guards.append(_bool_guard(b.test, names))
        _need(masked_targets(b.orelse) == w, f"fitting.errors: else branch masks {masked_targets(b.orelse)} instead of {w}")
        setb = {src(t) for s in b.body if isinstance(s, ast.Assign) for t in s.targets if src(t).startswith('source.err_')}
        _need(setb == w, f"fitting.errors: branch sets {setb} instead of {w}")
    # sqerr
    augs = [s for s in body if isinstance(s, ast.AugAssign) and src(s.target) == 'sqerr']
    _need(len(augs) == 3, "fitting.errors: three sqerr terms")
    terms = []
    for a in augs:
        _need(isinstance(a.value, ast.IfExp) and src(a.value.orelse) == '0' and isinstance(a.value.test, ast.Compare)
              and len(a.value.test.ops) == 1 and isinstance(a.value.test.ops[0], ast.Gt)
              and src(a.value.test.comparators[0]) == '0', f"fitting.errors: sqerr term {src(a)}")
        e = src(a.value.test.left)
        terms.append(e)
        num = {'source.err_peak_flux': 'source.peak_flux', 'source.err_a': 'source.a', 'source.err_b': 'source.b'}
        _need(e in num and src(a.value.body) == f'({e} / {num[e]}) ** 2', f"fitting.errors: sqerr term {src(a.value.body)}")
    _need(terms == ['source.err_peak_flux', 'source.err_a', 'source.err_b'], "fitting.errors: sqerr terms")
    last = blocks[3]
    rawint = 'source.err_int_flux = abs(source.int_flux * np.sqrt(sqerr))'
    valid = lambda x: f'not (np.isfinite({x}) and {x} > 0)'  # noqa: E731
    if src(last.test) == 'sqerr == 0':
        # pre-repair shape: masked only when no relative error contributed
        _need(masked_targets(last.body) == {'source.err_int_flux'} and src(last.orelse[0]) == rawint and len(last.orelse) == 1,
              "fitting.errors: err_int_flux")
        int_guard = 'false'
    else:
        # repaired shape: computed, then masked unless positive and finite
        k = body.index(last)
        _need(src(body[k - 1]) == rawint and src(last.test) == valid('source.err_int_flux') and not last.orelse
              and masked_targets(last.body) == {'source.err_int_flux'} and len(last.body) == 1,
              f"fitting.errors: err_int_flux guard {src(last.test)}")
        int_guard = 'true'
    _need(isinstance(body[-1], ast.Return) and body[body.index(last) + 1:] == [body[-1]], "fitting.errors: statements after err_int_flux")
    # the loop that masks every uncertainty that is not positive and finite (before the relative errors are combined)
    fors = [s for s in body if isinstance(s, ast.For)]
    six = ['err_peak_flux', 'err_ra', 'err_dec', 'err_pa', 'err_a', 'err_b']
    if not fors:
        six_guard = 'false'
    else:
        _need(len(fors) == 1, "fitting.errors: more than one loop")
        f = fors[0]
        _need(src(f.target) == 'err' and isinstance(f.iter, (ast.List, ast.Tuple)) and
              [e.value for e in f.iter.elts if isinstance(e, ast.Constant)] == six and len(f.iter.elts) == 6 and not f.orelse,
              f"fitting.errors: guard loop iterates over {src(f.iter)}")
        _need(len(f.body) == 1 and isinstance(f.body[0], ast.If) and not f.body[0].orelse and
              src(f.body[0].test) == valid('getattr(source, err)') and
              [src(s) for s in f.body[0].body] == ['setattr(source, err, ERR_MASK)'], f"fitting.errors: guard loop body {src(f.body[0])[:80]}")
        _need(body.index(blocks[2]) < body.index(f) < body.index(augs[0]), "fitting.errors: guard loop is not between the shape block and sqerr")
        six_guard = 'true'
    # stderr = None read as nan
    conv = [s for s in body if isinstance(s, ast.Assign) and isinstance(s.targets[0], ast.Tuple)
            and [src(e) for e in s.targets[0].elts] == ['err_amp', 'err_xo', 'err_yo', 'err_sx', 'err_sy', 'err_theta']]
    if not conv:
        none_nan = 'false'
    else:
        _need(len(conv) == 1 and src(conv[0].value) ==
              '[np.nan if err is None else err for err in (err_amp, err_xo, err_yo, err_sx, err_sy, err_theta)]'
              and body.index(conv[0]) < body.index(pk[0]), f"fitting.errors: None conversion {src(conv[0].value)[:80]}")
        none_nan = 'true'
    # covar_errors: what a singular covariance leaves in stderr
    ce = find_func(tree, 'covar_errors')
    fb = [s for s in ast.walk(ce) if isinstance(s, ast.Assign) and src(s.targets[0]) == 'onesigma' and
          isinstance(s.value, ast.BinOp) and isinstance(s.value.op, ast.Mult)]
    _need(len(fb) == 1 and isinstance(fb[0].value.left, ast.List) and len(fb[0].value.left.elts) == 1, "covar_errors: fallback onesigma")
    fv = src(fb[0].value.left.elts[0])
    _need(fv in ('np.nan', '-2'), f"covar_errors: fallback stderr {fv}")
    fallback = 'CNan' if fv == 'np.nan' else 'NegOther'
    # new_errors must stay unused by the finder (it is not modelled)
    for rel in ('source_finder.py',):
        t = sf_tree
        for n in ast.walk(t):
            if isinstance(n, ast.Name) and n.id == 'new_errors':
                raise TranslateError("source_finder uses fitting.new_errors, which the model does not cover")
            if isinstance(n, ast.alias) and n.name == 'new_errors':
                raise TranslateError("source_finder imports fitting.new_errors, which the model does not cover")
    # _refit_islands copies of catalogue errors
    rfi = find_func(sf_tree, '_refit_islands', cls='SourceFinder')
    cp = [s for s in ast.walk(rfi) if isinstance(s, ast.If) and src(s.test) in ('stage < 2', 'stage < 3')]
    _need(len(cp) == 2, "_refit_islands: stage < 2 / stage < 3 copies")
    copies = {src(s.test): sorted(src(x) for x in s.body) for s in cp}
    plain = {'stage < 2': ['ns.err_dec = s.err_dec', 'ns.err_ra = s.err_ra', 'ns.flags |= flags.FIXED2PSF'],
             'stage < 3': ['ns.err_a = s.err_a', 'ns.err_b = s.err_b', 'ns.err_pa = s.err_pa']}
    guarded = {'stage < 2': ['ns.err_dec = _known_error(s.err_dec)', 'ns.err_ra = _known_error(s.err_ra)', 'ns.flags |= flags.FIXED2PSF'],
               'stage < 3': ['ns.err_a = _known_error(s.err_a)', 'ns.err_b = _known_error(s.err_b)', 'ns.err_pa = _known_error(s.err_pa)']}
    _need(copies in (plain, guarded), f"_refit_islands: error copies {copies}")
    copy_guard = 'false'
    if copies == guarded:
        # _known_error(err): err when positive and finite, otherwise -1
        ke = find_func(sf_tree, '_known_error')
        kb = [s for s in ke.body if not (isinstance(s, ast.Expr) and isinstance(s.value, ast.Constant))]
        _need([a.arg for a in ke.args.args] == ['err'] and len(kb) == 2 and isinstance(kb[0], ast.If) and not kb[0].orelse
              and src(kb[0].test) == 'np.isfinite(err) and err > 0' and [src(x) for x in kb[0].body] == ['return err']
              and src(kb[1]) == 'return -1', f"_known_error: expected `if np.isfinite(err) and err > 0: return err` / `return -1`, found {[src(x)[:60] for x in kb]}")
        copy_guard = 'true'
    return int(emval), mnames, guards, (none_nan, six_guard, int_guard, fallback, copy_guard)


def _sexagesimal(repo):
    tree = parse_file(_p(repo, 'angle_tools.py'))
    out = {}
    for fnm, unit in (('dec2dms', 'd'), ('dec2hms', 'h')):
        fn = find_func(tree, fnm)
        cs = [s for s in ast.walk(fn) if isinstance(s, ast.Assign) and src(s.targets[0]) == 'cs']
        _need(len(cs) == 1 and isinstance(cs[0].value, ast.Call) and src(cs[0].value.func) == 'int', f"{fnm}: cs = int(round(..))")
        inner = cs[0].value.args[0]
        _need(isinstance(inner, ast.Call) and src(inner.func) == 'round' and len(inner.args) == 1 and
              isinstance(inner.args[0], ast.BinOp) and isinstance(inner.args[0].op, ast.Mult) and src(inner.args[0].left) == 'x'
              and isinstance(inner.args[0].right, ast.Constant) and isinstance(inner.args[0].right.value, int), f"{fnm}: round(x * k)")
        scale = inner.args[0].right.value
        dm = [s for s in ast.walk(fn) if isinstance(s, ast.Assign) and isinstance(s.value, ast.Call) and src(s.value.func) == 'divmod']
        _need(len(dm) == 3, f"{fnm}: three divmod steps")
        divs = []
        for s, tg in zip(dm, (f'({unit}, cs)', '(m, cs)', '(s, cs)')):
            _need(src(s.targets[0]) == tg and src(s.value.args[0]) == 'cs' and isinstance(s.value.args[1], ast.Constant)
                  and isinstance(s.value.args[1].value, int), f"{fnm}: {src(s)}")
            divs.append(s.value.args[1].value)
        out[fnm] = (scale, divs)
        rets = [s for s in fn.body if isinstance(s, ast.Return)]
        _need(rets and rets[-1] is fn.body[-1], f"{fnm}: last statement is not the formatted return")
        fmt = src(rets[-1].value)
        if fnm == 'dec2dms':
            _need(fmt == "'{0}{1:02d}:{2:02d}:{3:02d}.{4:02d}'.format(sign, d, m, s, cs)", f"dec2dms: format {fmt}")
        else:
            _need(fmt == "'{0:02d}:{1:02d}:{2:02d}.{3:02d}'.format(h, m, s, cs)", f"dec2hms: format {fmt}")
            hm = [s for s in ast.walk(fn) if isinstance(s, ast.AugAssign) and src(s.target) == 'h']
            _need(len(hm) == 1 and isinstance(hm[0].op, ast.Mod) and src(hm[0].value) == '24', "dec2hms: h %= 24")
    return out


@point('CatRows')
def gen_catalog(repo):
    consts = _flags(repo)
    used = _flag_sites(repo, consts)
    sf = parse_file(_p(repo, 'source_finder.py'))
    b_init, b_step, b_before = _blind_numbering(sf)
    gs, full, rest, istart, r_init, r_step = _priorized_numbering(sf)
    c_init, c_step, t0, f0, t1, f1, tmin, masks, tnf = _component_counter(sf)
    wrap_test, wrap_step, _, ncomp = _result_to_components(sf)
    fs_test, fs_step, pal = _shape_leaves(sf)
    emval, mnames, guards, (none_nan, six_guard, int_guard, fallback, copy_guard) = _errors_table(repo, sf)
    sx = _sexagesimal(repo)
    fl = '\n'.join(f"Definition {n} : N := {v}%N." for n, v in consts)
    zl = lambda v: f"({v})" if v < 0 else str(v)  # noqa: E731
    return HEADER_F + f"""
(* ---- flags.py ---- *)
{fl}
Definition flag_constants : list N := [{'; '.join(n for n, _ in consts)}].
(* constants referred to by source_finder.py / fitting.py (every flag update there is `|=`) *)
Definition flags_used : list N := [{'; '.join(used)}].

(* ---- blind numbering: find_sources_in_image ---- *)
Definition isle_num_init : Z := {zl(b_init)}.
Definition isle_num_step (n : Z) : Z := {b_step}.
(* true: the counter is incremented before the island gets its number *)
Definition isle_num_incr_before_use : bool := {b_before}.

(* ---- priorized numbering: priorized_fit_islands / _refit_islands ---- *)
Definition group_size : Z := {zl(gs)}.
Definition batch_full (len gs : Z) : bool := {full}.
Definition batch_rest (len gs : Z) : bool := {rest}.
(* istart handed to _refit_islands for the i-th batch; islands of the batch are numbered
   enumerate(group, start=istart) *)
Definition istart (i gs : Z) : Z := {istart}.
Definition refit_comp_init : Z := {zl(r_init)}.
Definition refit_comp_step (i : Z) : Z := {r_step}.

(* ---- component counter: estimate_lmfit_parinfo (skips precede every params.add) ---- *)
Definition comp_init : Z := {zl(c_init)}.
Definition comp_step (i : Z) : Z := {c_step}.
(* island summary: number of components recorded for the island, from the last loop index *)
Definition island_components (j : Z) : Z := {ncomp}.

(* ---- small-island flags: estimate_lmfit_parinfo / _fit_island ---- *)
Definition small_flag (npix : Z) : N := if {t0} then {f0} else if {t1} then {f1} else 0%N.
Definition tiny_dim (mindim : Z) : bool := {tmin}.
Definition tiny_masks : list N := [{'; '.join(masks)}].
Definition cannot_fit (npix nfree : Z) : bool := {tnf}.

(* ---- fix_shape / pa_limit / RA wrap ---- *)
Definition fix_swap_test (a b : fval) : bool := {fs_test}.
Definition fix_pa_step (pa : fval) : fval := {fs_step}.
Definition pa_up_test (pa : fval) : bool := {pal[0][0]}.
Definition pa_up_step (pa : fval) : fval := {pal[0][1]}.
Definition pa_down_test (pa : fval) : bool := {pal[1][0]}.
Definition pa_down_step (pa : fval) : fval := {pal[1][1]}.
Definition ra_wrap_test (ra : fval) : bool := {wrap_test}.
Definition ra_wrap_step (ra : fval) : fval := {wrap_step}.

(* ---- fitting.errors: which outputs are computed (guard true) and which are set to ERR_MASK ---- *)
Definition ERR_MASK : Z := {zl(emval)}.
Definition errors_early_mask : N := {' '.join(['(N.lor ' + m for m in mnames[:-1]]) + ' ' + mnames[-1] + ')' * (len(mnames) - 1)}.
Definition guard_pos (v_xo v_yo f_xo f_yo : bool) : bool := {guards[0]}.
Definition guard_pa (v_theta f_theta : bool) : bool := {guards[1]}.
Definition guard_shape (v_sx v_sy f_sx f_sy : bool) : bool := {guards[2]}.
(* stderr = None is read as nan before anything else looks at it *)
Definition stderr_none_is_nan : bool := {none_nan}.
(* err_peak_flux, err_ra, err_dec, err_pa, err_a, err_b are set to ERR_MASK unless positive and finite, before sqerr *)
Definition six_guarded : bool := {six_guard}.
(* err_int_flux = |int_flux sqrt(sqerr)| is set to ERR_MASK unless positive and finite (false: only when sqerr == 0) *)
Definition int_flux_guarded : bool := {int_guard}.
(* value class covar_errors leaves in every varying stderr after a singular covariance matrix *)
Definition singular_fallback_is_nan : bool := {'true' if fallback == 'CNan' else 'false'}.
(* _refit_islands: the uncertainties priorized fitting does not fit (position: stage < 2, shape: stage < 3) are copied from
   the input catalogue through _known_error (err when positive and finite, otherwise -1); false: copied as they are *)
Definition copied_errors_guarded : bool := {copy_guard}.

(* ---- angle_tools.dec2dms / dec2hms: cs = round(x * scale), then divmod chain ---- *)
Definition dms_scale : Z := {sx['dec2dms'][0]}.
Definition dms_div1 : Z := {sx['dec2dms'][1][0]}.
Definition dms_div2 : Z := {sx['dec2dms'][1][1]}.
Definition dms_div3 : Z := {sx['dec2dms'][1][2]}.
Definition hms_scale : Z := {sx['dec2hms'][0]}.
Definition hms_div1 : Z := {sx['dec2hms'][1][0]}.
Definition hms_div2 : Z := {sx['dec2hms'][1][1]}.
Definition hms_div3 : Z := {sx['dec2hms'][1][2]}.
"""


@point('CatRowsFlux')
def gen_catalogflux(repo):
    sf = parse_file(_p(repo, 'source_finder.py'))
    _, _, iflux, _ = _result_to_components(sf)
    cc = [s for s in sf.body if isinstance(s, ast.Assign) and src(s.targets[0]) == 'CC2FHWM']
    _need(len(cc) == 1, "source_finder: CC2FHWM")
    trc = Tr('R', {})
    ccv = trc.expr(cc[0].value)
    fw = [s for s in sf.body if isinstance(s, ast.Assign) and src(s.targets[0]) == 'FWHM2CC']
    _need(len(fw) == 1, "source_finder: FWHM2CC")
    fwv = Tr('R', {'CC2FHWM': 'CC2FHWM'}).expr(fw[0].value)
    tr = Tr('R', {'source.peak_flux': 'peak', 'sx': 'sx', 'sy': 'sy', 'CC2FHWM': 'CC2FHWM'})
    num = tr.expr(iflux)
    wh = parse_file(_p(repo, 'wcs_helpers.py'))
    cls = [n for n in wh.body if isinstance(n, ast.ClassDef) and
           any(isinstance(m, ast.FunctionDef) and m.name == 'get_beamarea_pix' for m in n.body)]
    _need(len(cls) == 1, "wcs_helpers: get_beamarea_pix defined in exactly one class")
    bp = find_func(wh, 'get_beamarea_pix', cls=cls[0].name)
    body = strip_doc(bp.body)
    _need(len(body) == 2 and src(body[0]) == 'a, b, _ = self.get_psf_sky2pix(ra, dec)' and isinstance(body[1], ast.Return),
          "get_beamarea_pix: a, b, _ = self.get_psf_sky2pix(ra, dec); return ...")
    area = Tr('R', {'a': 'a', 'b': 'b'}).expr(body[1].value)
    return HEADER_R + f"""
(* source_finder.result_to_components: integrated flux of a component.
   sx, sy: fitted widths (pixels, sigma); a, b: FWHM axes of the pixel beam at the source *)
Definition CC2FHWM : R := {ccv}.
Definition FWHM2CC : R := {fwv}.
Definition int_flux_num (peak sx sy : R) : R := {num}.
Definition beamarea_pix (a b : R) : R := {area}.
(* arguments handed to pix2sky_ellipse for the major / minor axis (pixels, FWHM) *)
Definition ellipse_axis (s : R) : R := (s * CC2FHWM).
(* sky axes and psf axes are stored in arcseconds *)
Definition arcsec_per_degree : R := (IZR 3600).
"""
