#!/usr/bin/env python3
"""Check driver:  check.py <Cxx> quick|thorough [--replay file]

1 grep gate  2 regenerate coq/Gen from /repo (translator obligations)  3 make Props/<Cxx>.vo
4 Print Assumptions gate  5 harness: correspondence model<->implementation, library-hypothesis
validation, recorded findings  6 on any break: search for a concrete failing input, write the
replay file, print VIOLATION.  Evidence is rewritten on every run.
"""
import importlib
import json
import os
import sys
import traceback

sys.path.insert(0, os.path.dirname(os.path.abspath(__file__)))
import vlib  # noqa: E402


def main():
    if len(sys.argv) < 3:
        raise SystemExit(__doc__)
    pid, tier = sys.argv[1], sys.argv[2]
    replay = None
    if '--replay' in sys.argv:
        replay = sys.argv[sys.argv.index('--replay') + 1]
    tier = os.environ.get('VERIF_TIER', tier)
    if tier not in ('quick', 'thorough'):
        tier = 'quick'
    seed = int(os.environ.get('VERIF_SEED', '20260926'))
    ctx = vlib.Ctx(pid, tier, seed)
    try:
        h = importlib.import_module(f'harness.{pid.lower()}')
    except Exception:
        traceback.print_exc()
        raise SystemExit(2)
    if replay:
        with open(replay) as fh:
            obj = json.load(fh)
        rc = h.replay(ctx, obj)
        ctx.cleanup()
        sys.exit(rc)
    try:
        # 1 gate
        bad = vlib.gate()
        ctx.oblige('gate: no Admitted/Axiom/Parameter/unchecked flags in coq/', not bad, bad)
        # 2 translator
        failed, tlog = vlib.run_translator()
        for g in getattr(h, 'GEN', []):
            err = failed.get(g) or failed.get('*')
            ctx.oblige(f'translate: coq/Gen/{g}.v regenerates from {vlib.REPO}', not err, err)
        # 3 build
        targets = [f'Props/{pid}.vo'] + list(getattr(h, 'EXTRA_TARGETS', []))
        ok, log = vlib.build(targets)
        names = vlib.theorems_of(pid)
        if ok:
            for n in names:
                ctx.oblige(f'theorem {n}', True)
        else:
            # find which file broke
            import re
            m = re.search(r'File "\./([^"]+)", line (\d+)[^\n]*\n((?:.*\n){0,12})', log)
            where = f'{m.group(1)}:{m.group(2)} {m.group(3)[:600]}' if m else log[-1200:]
            ctx.oblige(f'build of Props/{pid}.vo (theorems {", ".join(names)})', False, where)
        # 4 assumptions
        if ok:
            ax, out = vlib.print_assumptions(ctx, pid, names)
            if ax is None:
                ctx.oblige('Print Assumptions runs', False, out)
            else:
                for n in names:
                    badax = vlib.axioms_ok(ax.get(n, ['<missing>']))
                    ctx.axioms[n] = ax.get(n, ['<missing>'])
                    ctx.oblige(f'axioms of {n} within the allow-list', not badax, badax)
        # 4b independent re-check of the compiled theorems (thorough tier only; it takes a minute or more)
        if ok and tier == 'thorough' and os.environ.get('VERIF_NO_COQCHK') != '1':
            cok, cax, clog = vlib.coqchk(pid)
            ctx.extra['coqchk_axioms'] = cax if cok is not None else 'not finished within the time limit'
            if cok is None:
                ctx.notes.append(clog + ' (inconclusive; the build step has checked the theorems with coqc)')
            else:
                ctx.oblige(f'coqchk -o re-checks Props/{pid}.vo and everything it depends on', cok, clog)
            if cok:
                badax = vlib.axioms_ok(cax)
                ctx.oblige('coqchk: axioms of the whole dependency cone within the allow-list', not badax, badax)
        # 5 harness
        try:
            h.run(ctx, model_ok=ok)
        except Exception:
            ctx.failures.append({'kind': 'harness', 'what': 'harness crashed', 'detail': traceback.format_exc()[-3000:]})
        # 6 search
        if ctx.failures and ctx.counterexample is None:
            try:
                ctx.counterexample = h.search(ctx)
            except Exception:
                ctx.notes.append('search crashed: ' + traceback.format_exc()[-1500:])
        rc = vlib.finish(ctx, level=getattr(h, 'LEVEL', 'proof'),
                         checker_cmd=f'make -C /verif/coq {" ".join(targets)} (coqc 8.16.1, full .vo build) + '
                                     f'coqc on generated per-case files',
                         trusted=getattr(h, 'TRUSTED', []), assumptions=getattr(h, 'ASSUMPTIONS', []))
    finally:
        ctx.cleanup()
    sys.exit(rc)


if __name__ == '__main__':
    main()
