"""Extraction points: which pieces of /repo become which Gallina definitions.

Each function takes the repo root and returns the text of coq/Gen/<name>.v (minus the
header line) or raises TranslateError.  Matchers fail closed: when the surrounding
skeleton is not what the hand-written model assumes, they refuse.
"""
import ast
import os

from trcore import (HEADER_R, HEADER_Z, Tr, TranslateError, find_assigns, find_augassigns,
                    find_func, one_assign, parse_file, point, src, straight_line, strip_doc)


def _p(repo, rel):
    return os.path.join(repo, 'AegeanTools', rel)


# ------------------------------------------------------------------------------------------
# C20  fits_tools.load_image_band
@point('Bands')
def gen_bands(repo):
    tree = parse_file(_p(repo, 'fits_tools.py'))
    fn = find_func(tree, 'load_image_band')
    env = {"header['NAXIS2']": 'naxis2', 'band[0]': 'b0', 'band[1]': 'b1',
           'row_min': 'rmin', 'row_max': 'rmax', "header['CRPIX2']": 'crpix2'}
    tr = Tr('Z', env)
    rmin = tr.expr(one_assign(fn, 'row_min').value)
    rmax = tr.expr(one_assign(fn, 'row_max').value)
    # validation chain: the first statement after the docstring must be if/elif.. raise
    body = strip_doc(fn.body)
    conds = []
    st = body[0]
    while True:
        if not (isinstance(st, ast.If) and len(st.body) == 1 and isinstance(st.body[0], ast.Raise)):
            raise TranslateError("load_image_band: validation chain is not `if ..: raise` / elif")
        conds.append(tr.cond(st.test))
        if not st.orelse:
            break
        if len(st.orelse) != 1:
            raise TranslateError("load_image_band: validation chain has an else body")
        st = st.orelse[0]
    # the limits must be computed after validation and used for slicing: every slice of
    # the data must be row_min:row_max
    slices = [n for n in ast.walk(fn) if isinstance(n, ast.Slice) and n.lower is not None
              and n.upper is not None and (src(n.lower), src(n.upper)) != ('0', "header['NAXIS1']")]
    if not slices:
        raise TranslateError("load_image_band: no row slice found")
    for s in slices:
        if (src(s.lower), src(s.upper)) != ('row_min', 'row_max'):
            raise TranslateError(f"load_image_band: data sliced with {src(s)} instead of row_min:row_max")
    # header update before every return
    upd = None
    nret = 0
    for blk in _blocks(fn):
        for i, s in enumerate(blk):
            if isinstance(s, ast.Return):
                nret += 1
                nax = [t for t in blk[:i] if isinstance(t, ast.Assign) and len(t.targets) == 1
                       and src(t.targets[0]) == "header['NAXIS2']"]
                crp = [t for t in blk[:i] if isinstance(t, ast.AugAssign)
                       and src(t.target) == "header['CRPIX2']"]
                if len(nax) != 1 or len(crp) != 1:
                    raise TranslateError("load_image_band: a return path does not adjust NAXIS2/CRPIX2 exactly once")
                if not isinstance(crp[0].op, (ast.Sub, ast.Add)):
                    raise TranslateError("load_image_band: CRPIX2 update is not += / -=")
                op = '-' if isinstance(crp[0].op, ast.Sub) else '+'
                u = (tr.expr(nax[0].value), f"(crpix2 {op} {tr.expr(crp[0].value)})")
                if upd is not None and upd != u:
                    raise TranslateError("load_image_band: return paths adjust the header differently")
                upd = u
    if nret < 1 or upd is None:
        raise TranslateError("load_image_band: no return")
    return HEADER_Z + f"""
(* fits_tools.load_image_band: band limits, argument validation, header adjustment *)
Definition row_min (naxis2 b0 b1 : Z) : Z := {rmin}.
Definition row_max (naxis2 b0 b1 : Z) : Z := {rmax}.
Definition band_rejected (b0 b1 : Z) : bool := {' || '.join(conds)}.
Definition new_naxis2 (rmin rmax : Z) : Z := {upd[0]}.
Definition new_crpix2 (crpix2 rmin rmax : Z) : Z := {upd[1]}.
Definition return_paths : Z := {nret}.
"""


def _blocks(fn):
    """all statement lists inside fn"""
    for n in ast.walk(fn):
        for fld in ('body', 'orelse', 'finalbody'):
            b = getattr(n, fld, None)
            if isinstance(b, list) and b and isinstance(b[0], ast.stmt):
                yield b


# ------------------------------------------------------------------------------------------
# C08 / C12  regions.Region: arithmetic leaves and enumerated shape constants
def _range_args(call):
    if not (isinstance(call, ast.Call) and isinstance(call.func, ast.Name) and call.func.id == 'range'
            and not call.keywords):
        raise TranslateError(f"not a range(): {src(call)}")
    return call.args


def _one_for(fn, depth_ok=None):
    fors = [n for n in ast.walk(fn) if isinstance(n, ast.For)]
    return fors


@point('Regions')
def gen_regions(repo):
    tree = parse_file(_p(repo, 'regions.py'))
    R = lambda name: find_func(tree, name, cls='Region')  # noqa: E731
    env = {'self.maxdepth': 'maxdepth', 'p': 'p', 'd': 'd', 'x': 'x'}
    tr = Tr('Z', env)

    # --- add_pixels: does it invalidate the cache (self.demoted = set()) ?
    ap = R('add_pixels')
    resets = [a for a in find_assigns(ap, 'self.demoted') if src(a.value) == 'set()']
    others = [a for a in find_assigns(ap, 'self.demoted') if src(a.value) != 'set()']
    if others:
        raise TranslateError("add_pixels assigns self.demoted something other than set()")
    upd = [n for n in ast.walk(ap) if isinstance(n, ast.Call) and src(n.func) == 'self.pixeldict[depth].update']
    if len(upd) != 1 or src(upd[0].args[0]) not in ('set(pix)', 'pix'):
        raise TranslateError("add_pixels: expected self.pixeldict[depth].update(set(pix))")
    if resets:
        # the reset must be unconditional (top level of the function body)
        if not any(a in ap.body for a in resets):
            raise TranslateError("add_pixels: cache reset is conditional")
    add_resets = 'true' if resets else 'false'

    # --- _demote_all: guard, loop range, children, cache assignment
    dm = R('_demote_all')
    body = strip_doc(dm.body)
    if not (len(body) >= 1 and isinstance(body[0], ast.If) and src(body[0].test) == 'len(self.demoted) == 0'):
        raise TranslateError("_demote_all: expected guard `if len(self.demoted) == 0`")
    fors = [n for n in ast.walk(dm) if isinstance(n, ast.For)]
    if len(fors) != 2:
        raise TranslateError("_demote_all: expected two nested loops")
    ra = _range_args(fors[0].iter)
    if len(ra) != 2:
        raise TranslateError("_demote_all: range")
    dem_lo, dem_hi = tr.expr(ra[0]), tr.expr(ra[1])
    upd = [n for n in ast.walk(dm) if isinstance(n, ast.Call) and src(n.func) == 'pd[d + 1].update']
    if len(upd) != 1:
        raise TranslateError("_demote_all: expected pd[d+1].update(...)")
    arg = upd[0].args[0]
    if isinstance(arg, ast.Call) and src(arg.func) == 'set':
        arg = arg.args[0]
    if not isinstance(arg, ast.Tuple):
        raise TranslateError("_demote_all: children are not a tuple literal")
    children = '[' + '; '.join(tr.expr(e) for e in arg.elts) + ']'
    if src(one_assign(dm, 'pd[d]').value) != 'set()':
        raise TranslateError("_demote_all: level not cleared")
    cache_src = src(one_assign(dm, 'self.demoted').value)
    if cache_src not in ('pd[self.maxdepth]', 'self.pixeldict[self.maxdepth]'):
        raise TranslateError(f"_demote_all: cache is {cache_src}")

    # --- _renorm: range, sibling test, membership tests, parent
    rn = R('_renorm')
    fors = [n for n in ast.walk(rn) if isinstance(n, ast.For)]
    if len(fors) != 2:
        raise TranslateError("_renorm: expected two nested loops")
    ra = _range_args(fors[0].iter)
    if len(ra) != 3 or src(ra[2]) != '-1':
        raise TranslateError("_renorm: expected range(a, b, -1)")
    ren_from, ren_stop = tr.expr(ra[0]), tr.expr(ra[1])
    ifs = [n for n in ast.walk(fors[1]) if isinstance(n, ast.If)]
    if len(ifs) != 2:
        raise TranslateError("_renorm: expected two nested ifs")
    sib_test = tr.cond(ifs[0].test)
    t2 = ifs[1].test
    if not (isinstance(t2, ast.BoolOp) and isinstance(t2.op, ast.And)):
        raise TranslateError("_renorm: membership test is not a conjunction")
    members = []
    for v in t2.values:
        if not (isinstance(v, ast.Compare) and len(v.ops) == 1 and isinstance(v.ops[0], ast.In)
                and src(v.comparators[0]) == 'plist'):
            raise TranslateError("_renorm: membership test")
        members.append(tr.expr(v.left))
    nset = one_assign(rn, 'nset').value
    a = nset.args[0] if isinstance(nset, ast.Call) and src(nset.func) == 'set' else nset
    if not isinstance(a, ast.Tuple):
        raise TranslateError("_renorm: nset")
    siblings = '[' + '; '.join(tr.expr(e) for e in a.elts) + ']'
    addc = [n for n in ast.walk(rn) if isinstance(n, ast.Call) and src(n.func) == 'self.pixeldict[d - 1].add']
    if len(addc) != 1:
        raise TranslateError("_renorm: expected self.pixeldict[d-1].add(..)")
    parent = tr.expr(addc[0].args[0])
    dif = [n for n in ast.walk(rn) if isinstance(n, ast.Call) and src(n.func) == 'self.pixeldict[d].difference_update']
    if len(dif) != 1 or src(dif[0].args[0]) != 'nset':
        raise TranslateError("_renorm: expected self.pixeldict[d].difference_update(nset)")
    rb = strip_doc(rn.body)
    if not (src(rb[0]) == 'self.demoted = set()' and src(rb[1]) == 'self._demote_all()'
            and src(rb[-2]) == 'self.demoted = set()'):
        raise TranslateError("_renorm: expected reset; demote; ...; reset")

    # --- union: common levels, degrade expression
    un = R('union')
    fors = [n for n in un.body if isinstance(n, ast.For)]
    if len(fors) != 1:
        raise TranslateError("union: expected one top-level loop")
    ra = _range_args(fors[0].iter)
    if src(ra[0]) != '1' or src(ra[1]) != 'min(self.maxdepth, other.maxdepth) + 1':
        raise TranslateError("union: common-level loop range")
    if src(fors[0].body[0]) != 'self.add_pixels(other.pixeldict[d], d)':
        raise TranslateError("union: common-level body")
    deg = tr.expr(one_assign(un, 'pp').value)
    ifs = [n for n in un.body if isinstance(n, ast.If)]
    if len(ifs) != 2 or src(ifs[0].test) != 'self.maxdepth < other.maxdepth' or src(ifs[1].test) != 'renorm':
        raise TranslateError("union: structure")
    f2 = [n for n in ast.walk(ifs[0]) if isinstance(n, ast.For)]
    ra = _range_args(f2[0].iter)
    if src(ra[0]) != 'self.maxdepth + 1' or src(ra[1]) != 'other.maxdepth + 1':
        raise TranslateError("union: finer-level loop range")
    if not any(isinstance(n, ast.Call) and src(n) == 'self.pixeldict[self.maxdepth].add(pp)' for n in ast.walk(ifs[0])):
        raise TranslateError("union: degraded pixel not added at maxdepth")

    # --- get_area range, _uniq range and code
    ga = R('get_area')
    fors = [n for n in ast.walk(ga) if isinstance(n, ast.For)]
    ra = _range_args(fors[0].iter)
    area_lo, area_hi = tr.expr(ra[0]), tr.expr(ra[1])
    uq = R('_uniq')
    fors = [n for n in ast.walk(uq) if isinstance(n, ast.For)]
    if len(fors) != 1:
        raise TranslateError("_uniq: loop")
    ra = _range_args(fors[0].iter)
    uq_lo, uq_hi = tr.expr(ra[0]), tr.expr(ra[1])
    lam = [n for n in ast.walk(uq) if isinstance(n, ast.Lambda)]
    if len(lam) != 1 or [a.arg for a in lam[0].args.args] != ['x']:
        raise TranslateError("_uniq: lambda")
    code = tr.expr(lam[0].body)
    mp = [n for n in ast.walk(uq) if isinstance(n, ast.Call) and src(n.func) == 'map']
    if len(mp) != 1 or src(mp[0].args[1]) != 'self.pixeldict[d]':
        raise TranslateError("_uniq: map over self.pixeldict[d]")
    # MOCORDER written by write_fits
    wf = R('write_fits')
    mo = one_assign(wf, "hdulist[1].header['MOCORDER']").value
    if not (isinstance(mo, ast.Tuple)):
        raise TranslateError("write_fits: MOCORDER")
    mocorder = tr.expr(mo.elts[0])
    return HEADER_Z + f"""Import ListNotations.

(* regions.Region: arithmetic leaves and shape constants *)
Definition add_pixels_resets_cache : bool := {add_resets}.
Definition demote_lo : Z := {dem_lo}.
Definition demote_hi (maxdepth : Z) : Z := {dem_hi}.
Definition children (p : Z) : list Z := {children}.
Definition renorm_from (maxdepth : Z) : Z := {ren_from}.
Definition renorm_stop : Z := {ren_stop}.
Definition sibling_test (p : Z) : bool := {sib_test}.
Definition sibling_members (p : Z) : list Z := [{'; '.join(members)}].
Definition siblings (p : Z) : list Z := {siblings}.
Definition parent (p : Z) : Z := {parent}.
Definition degrade (p d maxdepth : Z) : Z := {deg}.
Definition area_lo : Z := {area_lo}.
Definition area_hi (maxdepth : Z) : Z := {area_hi}.
Definition uniq_lo : Z := {uq_lo}.
Definition uniq_hi (maxdepth : Z) : Z := {uq_hi}.
Definition uniq_code (d x : Z) : Z := {code}.
Definition mocorder (maxdepth : Z) : Z := {mocorder}.
"""


# ------------------------------------------------------------------------------------------
# C02 / C11 / C13  source_finder.find_islands: thresholds, seed scope, region test, mask
def _cmp_kind(node, left, right):
    """node must be Compare(left op right) on plain names; returns 'ge','gt','le','lt'"""
    if not (isinstance(node, ast.Compare) and len(node.ops) == 1 and src(node.left) == left
            and src(node.comparators[0]) == right):
        raise TranslateError(f"expected comparison of {left} with {right}, found {src(node)}")
    k = {ast.GtE: 'ge', ast.Gt: 'gt', ast.LtE: 'le', ast.Lt: 'lt'}.get(type(node.ops[0]))
    if k is None:
        raise TranslateError(f"comparison operator in {src(node)}")
    return k


# a/b `op` c/d  with b, d > 0  as an integer comparison
_FRAC = {'ge': '(cn * den <=? num * cd)', 'gt': '(cn * den <? num * cd)',
         'le': '(num * cd <=? cn * den)', 'lt': '(num * cd <? cn * den)'}


@point('Islands')
def gen_islands(repo):
    tree = parse_file(_p(repo, 'source_finder.py'))
    fn = find_func(tree, 'find_islands')
    # snr = abs(im - bkg) / rms
    snr = one_assign(fn, 'snr').value
    if not (isinstance(snr, ast.BinOp) and isinstance(snr.op, ast.Div) and src(snr.right) == 'rms'):
        raise TranslateError(f"find_islands: snr is {src(snr)}")
    tr = Tr('Z', {'im': 'im', 'bkg': 'bkg'})
    num = tr.expr(snr.left)
    # a = snr >= flood_clip
    flood = _cmp_kind(one_assign(fn, 'a').value, 'snr', 'flood_clip')
    # label(a, structure=np.ones((3, 3)))
    lab = [n for n in ast.walk(fn) if isinstance(n, ast.Call) and src(n.func) == 'label']
    if len(lab) != 1 or src(lab[0].args[0]) != 'a' or len(lab[0].keywords) != 1 or lab[0].keywords[0].arg != 'structure':
        raise TranslateError("find_islands: label(a, structure=...)")
    st = src(lab[0].keywords[0].value)
    if st != 'np.ones((3, 3))':
        raise TranslateError(f"find_islands: connectivity structure {st}")
    fo = one_assign(fn, 'f').value
    if src(fo) != 'find_objects(l)':
        raise TranslateError("find_islands: f = find_objects(l)")
    loops = [n for n in fn.body if isinstance(n, ast.For)]
    if len(loops) != 1 or src(loops[0].iter) != 'range(n)':
        raise TranslateError("find_islands: island loop")
    loop = loops[0]
    box = {}
    for st_ in loop.body[:2]:
        if not (isinstance(st_, ast.Assign) and isinstance(st_.targets[0], ast.Tuple)):
            raise TranslateError("find_islands: bounding box unpacking")
        for t, v in zip(st_.targets[0].elts, st_.value.elts):
            box[t.id] = src(v)
    if box != {'xmin': 'f[i][0].start', 'xmax': 'f[i][0].stop', 'ymin': 'f[i][1].start', 'ymax': 'f[i][1].stop'}:
        raise TranslateError(f"find_islands: bounding box is {box}")
    own = one_assign(fn, 'own').value
    if src(own) != 'l[xmin:xmax, ymin:ymax] == i + 1':
        raise TranslateError(f"find_islands: own = {src(own)}")
    # seed test: if np.any(<snr box>[own]? > seed_clip)
    seed_if = [s for s in loop.body if isinstance(s, ast.If)]
    if len(seed_if) != 1:
        raise TranslateError("find_islands: expected one `if` (seed test) in the island loop")
    seed_if = seed_if[0]
    if seed_if.orelse:
        raise TranslateError("find_islands: seed test has an else branch")
    t = seed_if.test
    if not (isinstance(t, ast.Call) and src(t.func) == 'np.any' and len(t.args) == 1 and isinstance(t.args[0], ast.Compare)):
        raise TranslateError(f"find_islands: seed test is {src(t)}")
    cmp_ = t.args[0]
    lhs = src(cmp_.left)
    if lhs == 'snr[xmin:xmax, ymin:ymax][own]':
        scope = 'true'
    elif lhs == 'snr[xmin:xmax, ymin:ymax]':
        scope = 'false'
    else:
        raise TranslateError(f"find_islands: seed test looks at {lhs}")
    seed = _cmp_kind(cmp_, lhs, 'seed_clip')
    # region test inside the seed branch
    body = seed_if.body
    reg_if = body[0]
    if not (isinstance(reg_if, ast.If) and src(reg_if.test) == 'region is not None'):
        raise TranslateError("find_islands: region test is not the first statement of the seed branch")
    rb = {src(s.targets[0]): s.value for s in reg_if.body if isinstance(s, ast.Assign)}
    if src(rb.get('(x, y)', ast.Constant(0))) != 'np.where(own)':
        raise TranslateError("find_islands: region test pixels are not np.where(own)")
    yx = rb.get('yx')
    if yx is None or not src(yx).startswith('list(zip('):
        raise TranslateError("find_islands: yx")
    z = yx.args[0].args
    trr = Tr('Z', {'x': 'r', 'y': 'c', 'xmin': 'rmin', 'ymin': 'cmin'})
    first, second = trr.expr(z[0]), trr.expr(z[1])
    w = rb.get('(ra, dec)')
    if w is None or not src(w).startswith('wcs.wcs.wcs_pix2world(yx, '):
        raise TranslateError("find_islands: pix2world call")
    origin = tr.expr(w.func.value.args[1])
    m = rb.get('mask')
    if m is None or src(m) != 'region.sky_within(ra, dec, degin=True)':
        raise TranslateError("find_islands: sky_within call")
    last = reg_if.body[-1]
    if not (isinstance(last, ast.If) and src(last.test) == 'not np.any(mask)' and isinstance(last.body[0], ast.Continue)):
        raise TranslateError("find_islands: region rejection")
    # island mask
    im_ = one_assign(fn, 'island_mask').value
    if not (isinstance(im_, ast.BinOp) and isinstance(im_.op, ast.BitOr)):
        raise TranslateError("find_islands: island_mask")
    mflood = _cmp_kind(im_.left, 'snr[xmin:xmax, ymin:ymax]', 'flood_clip')
    if src(im_.right) != 'l[xmin:xmax, ymin:ymax] != i + 1':
        raise TranslateError("find_islands: island_mask label test")
    cb = [n for n in ast.walk(seed_if) if isinstance(n, ast.Call) and src(n.func) == 'island.calc_bounding_box']
    if len(cb) != 1 or src(cb[0].args[0]) != 'np.logical_not(island_mask)' or src(cb[0].keywords[0].value) != '[xmin, ymin]':
        raise TranslateError("find_islands: calc_bounding_box arguments")
    sm = [n for n in ast.walk(seed_if) if isinstance(n, ast.Call) and src(n.func) == 'island.set_mask']
    if len(sm) != 1 or src(sm[0].args[0]) != 'island_mask':
        raise TranslateError("find_islands: set_mask")
    neg = {'ge': 'lt', 'gt': 'le', 'le': 'gt', 'lt': 'ge'}
    return HEADER_Z + f"""
(* source_finder.find_islands.  Signal-to-noise is the fraction num/den (den = rms > 0);
   a threshold is the fraction cn/cd (cd > 0); comparisons are cross-multiplied. *)
Definition snr_num (im bkg : Z) : Z := {num}.
Definition flood_test (num den cn cd : Z) : bool := {_FRAC[flood]}.
Definition seed_test (num den cn cd : Z) : bool := {_FRAC[seed]}.
(* the island mask blanks pixels for which this holds (or that carry another label) *)
Definition mask_below_flood (num den cn cd : Z) : bool := {_FRAC[mflood]}.
Definition mask_is_complement_of_flood : bool := {'true' if mflood == neg[flood] else 'false'}.
(* true: the seed test looks at the island's own pixels; false: at its whole bounding box *)
Definition seed_scope_own : bool := {scope}.
(* half-width of the connectivity structure np.ones((3,3)) *)
Definition conn_reach : Z := 1.
(* region test: FITS coordinates handed to wcs_pix2world for the island pixel at array
   position (r, c) of a box starting at (rmin, cmin), and the origin argument *)
Definition region_first (r c rmin cmin : Z) : Z := {first}.
Definition region_second (r c rmin cmin : Z) : Z := {second}.
Definition region_origin : Z := {origin}.
"""


# ------------------------------------------------------------------------------------------
# C07  BANE: stripe layout, pool/barrier sizes, order of shared-memory accesses and waits
def _is_call(st, text):
    return isinstance(st, ast.Expr) and isinstance(st.value, ast.Call) and src(st.value) == text


@point('BaneSync')
def gen_banesync(repo):
    tree = parse_file(_p(repo, 'BANE.py'))
    sf = find_func(tree, 'sigma_filter')
    events = []
    for st in sf.body:
        if isinstance(st, ast.Assign) and len(st.targets) == 1:
            t = src(st.targets[0])
            if t == 'ibkg[ymin:ymax, :]':
                events.append('write_bkg')
            elif t == 'irms[ymin:ymax, :]':
                events.append('write_rms')
            elif t.startswith('ibkg[') or t.startswith('irms['):
                raise TranslateError(f"sigma_filter: unexpected shared-memory write {t}")
        elif isinstance(st, ast.AugAssign) and 'ibkg' in src(st.value):
            if src(st) != 'data -= ibkg[data_row_min:data_row_max, :]':
                raise TranslateError(f"sigma_filter: background subtraction is {src(st)}")
            events.append('read_bkg')
        elif _is_call(st, 'barrier.wait()'):
            events.append('wait')
        elif _is_call(st, 'barrier.reset()'):
            events.append('reset')
        elif isinstance(st, ast.If) and src(st.test) == 'domask':
            inner = []
            for s2 in st.body:
                if _is_call(s2, 'barrier.wait()'):
                    inner.append('wait')
                elif _is_call(s2, 'barrier.reset()'):
                    inner.append('reset')
                elif isinstance(s2, ast.Assign) and src(s2.targets[0]) in ('ibkg[ymin:ymax, :][mask]', 'irms[ymin:ymax, :][mask]'):
                    if src(s2.value) != 'np.nan':
                        raise TranslateError("sigma_filter: mask value")
                    inner.append('mask_' + src(s2.targets[0])[:4])
                elif isinstance(s2, ast.Assign) and ('ibkg[' in src(s2.targets[0]) or 'irms[' in src(s2.targets[0])):
                    raise TranslateError(f"sigma_filter: unexpected masked write {src(s2.targets[0])}")
            if st.orelse:
                raise TranslateError("sigma_filter: `if domask` has an else branch")
            events.append(tuple(inner))
        else:
            for n in ast.walk(st):
                if isinstance(n, ast.Call) and src(n.func).startswith('barrier.'):
                    raise TranslateError(f"sigma_filter: barrier call in an unexpected place: {src(n)}")
                if isinstance(n, ast.Subscript) and src(n.value) in ('ibkg', 'irms') and not isinstance(st, (ast.Assign,)):
                    raise TranslateError(f"sigma_filter: shared-memory access in an unexpected place: {src(st)[:60]}")
    flat = [e for e in events if not isinstance(e, tuple)]
    maskev = [e for e in events if isinstance(e, tuple)]
    if len(maskev) != 1 or events[-1] != maskev[0]:
        raise TranslateError("sigma_filter: the `if domask` block is not the last shared-memory step")
    m = list(maskev[0])
    wait1 = flat == ['write_bkg', 'wait', 'read_bkg', 'write_rms']
    nowait1 = flat == ['write_bkg', 'read_bkg', 'write_rms']
    reset1 = flat == ['write_bkg', 'wait', 'reset', 'read_bkg', 'write_rms']
    if not (wait1 or nowait1 or reset1):
        raise TranslateError(f"sigma_filter: unexpected order of shared-memory steps {flat}")
    wait2 = m[:1] == ['wait']
    reset2 = m[:2] == ['wait', 'reset']
    rest = [e for e in m if e not in ('wait', 'reset')]
    if sorted(rest) != ['mask_ibkg', 'mask_irms']:
        raise TranslateError(f"sigma_filter: mask block is {m}")
    # wrapper: abort on error
    w = find_func(tree, '_sf2')
    tries = [n for n in w.body if isinstance(n, ast.Try)]
    if len(tries) != 1 or len(tries[0].handlers) != 1:
        raise TranslateError("_sf2: try/except")
    h = tries[0].handlers[0]
    aborts = any(isinstance(n, ast.Call) and src(n) == 'barrier.abort()' for n in ast.walk(h))
    reraises = any(isinstance(n, ast.Raise) for n in h.body)
    if not reraises:
        raise TranslateError("_sf2: the handler does not re-raise")
    # parent
    fm = find_func(tree, 'filter_mc_sharemem')
    trz = Tr('Z', {'cores': 'cores', 'len(ymaxs)': 'n', 'len(ymins)': 'n', 'len(args)': 'n'})
    bar = [n for n in ast.walk(fm) if isinstance(n, ast.Call) and src(n.func) == 'ctx.Barrier']
    if len(bar) != 1 or len(bar[0].keywords) != 1 or bar[0].keywords[0].arg != 'parties':
        raise TranslateError("filter_mc_sharemem: Barrier(parties=...)")
    parties = trz.expr(bar[0].keywords[0].value)
    pool = [n for n in ast.walk(fm) if isinstance(n, ast.Call) and src(n.func) == 'ctx.Pool']
    kw = {k.arg: k.value for k in pool[0].keywords} if len(pool) == 1 else {}
    if 'processes' not in kw or src(kw.get('maxtasksperchild', ast.Constant(0))) != '1':
        raise TranslateError("filter_mc_sharemem: Pool(processes=..., maxtasksperchild=1)")
    processes = trz.expr(kw['processes'])
    # the try around map_async(...).get(): is the pool terminated when a stripe fails?
    inner = [n for n in ast.walk(fm) if isinstance(n, ast.Try) and any(isinstance(b, ast.Expr) and 'map_async' in src(b) for b in n.body)]
    if len(inner) != 1:
        raise TranslateError("filter_mc_sharemem: try around pool.map_async(...).get()")
    term = False
    for hnd in inner[0].handlers:
        if hnd.type is not None and src(hnd.type) == 'Exception':
            calls = [src(x) for x in hnd.body]
            if 'pool.terminate()' in calls and isinstance(hnd.body[-1], ast.Raise) and hnd.body[-1].exc is None:
                term = True
            else:
                raise TranslateError("filter_mc_sharemem: unexpected `except Exception` handler around the pool")
    # layout
    env = {'img_y': 'rows', 'width_y': 'w'}
    ymins = src(one_assign_in(fm, 'ymins', 0))
    ymaxs = src(one_assign_in(fm, 'ymaxs', 0))
    if ymins != 'list(range(0, img_y, width_y))' or ymaxs != 'list(range(width_y, img_y, width_y))':
        raise TranslateError(f"filter_mc_sharemem: layout {ymins} / {ymaxs}")
    if not any(_is_call(n, 'ymaxs.append(img_y)') for n in ast.walk(fm)):
        raise TranslateError("filter_mc_sharemem: ymaxs.append(img_y)")
    # finally: close + unlink of both segments
    outer = [n for n in fm.body if isinstance(n, ast.Try)]
    if len(outer) != 1:
        raise TranslateError("filter_mc_sharemem: outer try")
    fin = [src(s) for s in outer[0].finalbody]
    unl = all(x in fin for x in ('ibkg.close()', 'ibkg.unlink()', 'irms.close()', 'irms.unlink()'))
    created = [src(s) for s in outer[0].body[:6]]
    halo = find_assigns(sf, 'data_row_min') and find_assigns(sf, 'data_row_max')
    tr2 = Tr('Z', {'ymin': 'ymin', 'ymax': 'ymax', 'box_size[0]': 'box', 'shape[0]': 'rows'})
    drmin = tr2.expr(one_assign(sf, 'data_row_min').value)
    drmax = tr2.expr(one_assign(sf, 'data_row_max').value)
    b = lambda x: 'true' if x else 'false'  # noqa: E731
    return HEADER_Z + f"""
(* BANE.sigma_filter / _sf2 / filter_mc_sharemem: synchronisation skeleton *)
Definition wait_before_read : bool := {b(wait1 or reset1)}.
Definition wait_before_mask : bool := {b(wait2)}.
Definition reset_after_wait : bool := {b(reset1 or reset2)}.
Definition abort_on_error : bool := {b(aborts)}.
Definition unlink_in_finally : bool := {b(unl)}.
(* a failing stripe makes the parent terminate the pool before re-raising (no worker is left to block interpreter exit) *)
Definition terminate_on_failure : bool := {b(term)}.
Definition parties (cores n : Z) : Z := {parties}.
Definition pool_size (cores n : Z) : Z := {processes}.
(* rows of the image a stripe reads: its own rows plus half a box on either side *)
Definition data_row_min (ymin ymax box rows : Z) : Z := {drmin}.
Definition data_row_max (ymin ymax box rows : Z) : Z := {drmax}.
"""


def one_assign_in(fn, name, which):
    a = find_assigns(fn, name)
    if not a:
        raise TranslateError(f"{fn.name}: no assignment to {name}")
    return a[which].value


# ------------------------------------------------------------------------------------------
# C04 / C01 / C14  fitting.elliptical_gaussian, fitting.jacobian, covar_errors
from trcore import block_lets, lets_text  # noqa: E402

GARGS = 'x y amp xo yo sx sy theta'
PARAMS = ['amp', 'xo', 'yo', 'sx', 'sy', 'theta']


def _gauss_body(fn):
    """elliptical_gaussian: the try/except around sin/cos only guards a math domain error"""
    body = strip_doc(fn.body)
    out = []
    for st in body:
        if isinstance(st, ast.Try):
            if len(st.body) != 1 or st.orelse or st.finalbody:
                raise TranslateError("elliptical_gaussian: try block")
            for h in st.handlers:
                for n in ast.walk(h):
                    if isinstance(n, ast.Assign) and src(n.value) != '(np.nan, np.nan)':
                        raise TranslateError("elliptical_gaussian: except branch assigns something other than nan")
            out.extend(st.body)
        else:
            out.append(st)
    return out


@point('Gauss')
def gen_gauss(repo):
    tree = parse_file(_p(repo, 'fitting.py'))
    eg = find_func(tree, 'elliptical_gaussian')
    if [a.arg for a in eg.args.args] != GARGS.split():
        raise TranslateError("elliptical_gaussian: signature")
    tr = Tr('R', {a: a for a in GARGS.split()})
    stmts = _gauss_body(eg)
    lets, rest = block_lets(stmts, tr)
    if len(rest) != 1 or not isinstance(rest[0], ast.Return):
        raise TranslateError(f"elliptical_gaussian: unexpected statement {src(rest[0])[:60] if rest else 'no return'}")
    gauss = lets_text(lets, tr.expr(rest[0].value))
    # ---- jacobian
    jf = find_func(tree, 'jacobian')
    loops = [n for n in jf.body if isinstance(n, ast.For)]
    if len(loops) != 1 or src(loops[0].iter) != "range(int(pars['components'].value))":
        raise TranslateError("jacobian: component loop")
    if src(jf.body[-1]) != 'return np.array(matrix)':
        raise TranslateError("jacobian: return")
    body = loops[0].body
    env = {a: a for a in GARGS.split()}
    k = 0
    if src(body[0]) != "prefix = 'c{0}_'.format(i)":
        raise TranslateError("jacobian: prefix")
    k = 1
    for p in PARAMS:
        if src(body[k]) != f"{p} = pars[prefix + '{p}'].value":
            raise TranslateError(f"jacobian: parameter read {src(body[k])}")
        k += 1
    tr = Tr('R', env)
    tr.env['elliptical_gaussian(x, y, amp, xo, yo, sx, sy, theta)'] = f'(gauss {GARGS})'
    pre, rest = block_lets(body[k:], tr)
    order, defs = [], []
    for st in rest:
        if not (isinstance(st, ast.If) and not st.orelse):
            raise TranslateError(f"jacobian: unexpected statement {src(st)[:60]}")
        t = src(st.test)
        ps = [p for p in PARAMS if t == f"pars[prefix + '{p}'].vary"]
        if len(ps) != 1:
            raise TranslateError(f"jacobian: condition {t}")
        p = ps[0]
        tr2 = Tr('R', dict(tr.env))
        lets, tail = block_lets(st.body, tr2)
        if len(tail) != 1 or not (isinstance(tail[0], ast.Expr) and isinstance(tail[0].value, ast.Call)
                                  and src(tail[0].value.func) == 'matrix.append' and len(tail[0].value.args) == 1):
            raise TranslateError(f"jacobian: block of {p} does not end in matrix.append")
        res = tr2.expr(tail[0].value.args[0])
        order.append(p)
        defs.append(f"Definition d_{p} ({GARGS} : R) : R :=\n" + lets_text(pre + lets, res) + ".\n")
    if sorted(order) != sorted(PARAMS):
        raise TranslateError(f"jacobian: parameters with a derivative block: {order}")
    # ---- covar_errors: assignment loop
    ce = find_func(tree, 'covar_errors')
    jz = [(i, st) for i, st in enumerate(ce.body) if src(st) == 'j = 0']
    loops = [(i, st) for i, st in enumerate(ce.body) if isinstance(st, ast.For)]
    inner_reset = any(src(n) == 'j = 0' for n in ast.walk(loops[-1][1]) if isinstance(n, ast.Assign)) if loops else False
    if not loops or src(loops[-1][1].iter) != "range(int(params['components'].value))":
        raise TranslateError("covar_errors: component loop")
    lp = loops[-1][1]
    inner = [n for n in lp.body if isinstance(n, ast.For)]
    if len(inner) != 1:
        raise TranslateError("covar_errors: parameter loop")
    plist = ast.literal_eval(inner[0].iter)
    ifs = inner[0].body
    if not (len(ifs) == 1 and isinstance(ifs[0], ast.If) and src(ifs[0].test) == 'params[prefix + p].vary'
            and [src(s) for s in ifs[0].body] == ['params[prefix + p].stderr = onesigma[j]', 'j += 1']):
        raise TranslateError("covar_errors: assignment body")
    if not inner_reset and not (jz and jz[-1][0] < loops[-1][0]):
        raise TranslateError("covar_errors: j is not initialised before the loop")
    idx = {p: i for i, p in enumerate(PARAMS)}
    return HEADER_R + f"""From Coq Require Import List.
Import ListNotations.

(* fitting.elliptical_gaussian *)
Definition gauss ({GARGS} : R) : R :=
{gauss}.

(* fitting.jacobian: one definition per `if pars[prefix+'<p>'].vary` block *)
{''.join(defs)}
(* parameters are numbered amp=0 xo=1 yo=2 sx=3 sy=4 theta=5 *)
(* textual order of the blocks in jacobian = order of the rows *)
Definition jacobian_order : list nat := [{'; '.join(str(idx[p]) for p in order)}]%nat.
(* order in which covar_errors hands out the entries of onesigma *)
Definition stderr_order : list nat := [{'; '.join(str(idx[p]) for p in plist)}]%nat.
(* does covar_errors restart its index for every component? *)
Definition stderr_index_restarts : bool := {'true' if inner_reset else 'false'}.
"""
