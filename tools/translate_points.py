"""Extraction points: which pieces of /repo become which Gallina definitions.

Each function takes the repo root and returns the text of coq/Gen/<name>.v (minus the
header line) or raises TranslateError.  Matchers fail closed: when the surrounding
skeleton is not what the hand-written model assumes, they refuse.
"""
import ast
import os

from trcore import (HEADER_R, HEADER_Z, Tr, TranslateError, find_assigns, find_augassigns,
                    find_func, one_assign, parse_file, point, src, straight_line, strip_doc)


def _p(repo, rel):
    return os.path.join(repo, 'AegeanTools', rel)


# ------------------------------------------------------------------------------------------
# C20  fits_tools.load_image_band
@point('Bands')
def gen_bands(repo):
    tree = parse_file(_p(repo, 'fits_tools.py'))
    fn = find_func(tree, 'load_image_band')
    env = {"header['NAXIS2']": 'naxis2', 'band[0]': 'b0', 'band[1]': 'b1',
           'row_min': 'rmin', 'row_max': 'rmax', "header['CRPIX2']": 'crpix2'}
    tr = Tr('Z', env)
    rmin = tr.expr(one_assign(fn, 'row_min').value)
    rmax = tr.expr(one_assign(fn, 'row_max').value)
    # validation chain: the first statement after the docstring must be if/elif.. raise
    body = strip_doc(fn.body)
    conds = []
    st = body[0]
    while True:
        if not (isinstance(st, ast.If) and len(st.body) == 1 and isinstance(st.body[0], ast.Raise)):
            raise TranslateError("load_image_band: validation chain is not `if ..: raise` / elif")
        conds.append(tr.cond(st.test))
        if not st.orelse:
            break
        if len(st.orelse) != 1:
            raise TranslateError("load_image_band: validation chain has an else body")
        st = st.orelse[0]
    # the limits must be computed after validation and used for slicing: every slice of
    # the data must be row_min:row_max
    slices = [n for n in ast.walk(fn) if isinstance(n, ast.Slice) and n.lower is not None
              and n.upper is not None and (src(n.lower), src(n.upper)) != ('0', "header['NAXIS1']")]
    if not slices:
        raise TranslateError("load_image_band: no row slice found")
    for s in slices:
        if (src(s.lower), src(s.upper)) != ('row_min', 'row_max'):
            raise TranslateError(f"load_image_band: data sliced with {src(s)} instead of row_min:row_max")
    # header update before every return
    upd = None
    nret = 0
    for blk in _blocks(fn):
        for i, s in enumerate(blk):
            if isinstance(s, ast.Return):
                nret += 1
                nax = [t for t in blk[:i] if isinstance(t, ast.Assign) and len(t.targets) == 1
                       and src(t.targets[0]) == "header['NAXIS2']"]
                crp = [t for t in blk[:i] if isinstance(t, ast.AugAssign)
                       and src(t.target) == "header['CRPIX2']"]
                if len(nax) != 1 or len(crp) != 1:
                    raise TranslateError("load_image_band: a return path does not adjust NAXIS2/CRPIX2 exactly once")
                if not isinstance(crp[0].op, (ast.Sub, ast.Add)):
                    raise TranslateError("load_image_band: CRPIX2 update is not += / -=")
                op = '-' if isinstance(crp[0].op, ast.Sub) else '+'
                u = (tr.expr(nax[0].value), f"(crpix2 {op} {tr.expr(crp[0].value)})")
                if upd is not None and upd != u:
                    raise TranslateError("load_image_band: return paths adjust the header differently")
                upd = u
    if nret < 1 or upd is None:
        raise TranslateError("load_image_band: no return")
    return HEADER_Z + f"""
(* fits_tools.load_image_band: band limits, argument validation, header adjustment *)
Definition row_min (naxis2 b0 b1 : Z) : Z := {rmin}.
Definition row_max (naxis2 b0 b1 : Z) : Z := {rmax}.
Definition band_rejected (b0 b1 : Z) : bool := {' || '.join(conds)}.
Definition new_naxis2 (rmin rmax : Z) : Z := {upd[0]}.
Definition new_crpix2 (crpix2 rmin rmax : Z) : Z := {upd[1]}.
Definition return_paths : Z := {nret}.
"""


def _blocks(fn):
    """all statement lists inside fn"""
    for n in ast.walk(fn):
        for fld in ('body', 'orelse', 'finalbody'):
            b = getattr(n, fld, None)
            if isinstance(b, list) and b and isinstance(b[0], ast.stmt):
                yield b
