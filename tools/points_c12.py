"""C12 extraction point: the export routines of regions.Region (write_reg, write_fits, _uniq
skeleton, save / load) and MIMAS.mim2reg / mim2fits -> coq/Gen/RegionExport.v.

The NUNIQ loop range / code and MOCORDER are already generated into Gen/Regions.v by the
`Regions` point (translate_points.py); here are the remaining leaves:

  write_reg : level loop range, the arguments handed to healpy.boundaries (nside 2**d, pixel int(p),
              step, nest), one printed line per (level, pixel), two strings (ra, dec) per vertex,
              the ra/15 scaling and the printed precision
  write_fits: the column is self._uniq(), its FITS format (bits), ORDERING / PIXTYPE / COORDSYS keywords,
              which HDU receives them, writeto
  _uniq     : accumulate-with-extend skeleton and what is returned
  save/load : pickle dump of self / return of the loaded object
  MIMAS     : mim2reg = load ; write_reg     mim2fits = load ; write_fits

Every matcher fails closed: an unexpected shape raises TranslateError.  Recognised variants become
different values of the enumerated constants (e.g. nest=False -> reg_nest := false), so that the proofs
(Proofs/RegionExportProofs.v: one characterising lemma per leaf) break on them.
"""
import ast

from trcore import HEADER_Z, Tr, TranslateError, find_func, parse_file, point, src, strip_doc
from translate_points import _p, _range_args


def _calls(node, func_src):
    return [n for n in ast.walk(node) if isinstance(n, ast.Call) and src(n.func) == func_src]


def _kw(call, name):
    ks = [k for k in call.keywords if k.arg == name]
    if len(ks) != 1:
        raise TranslateError(f"{src(call.func)}: keyword {name} not given exactly once")
    return ks[0].value


def _bool_const(node, what):
    if isinstance(node, ast.Constant) and isinstance(node.value, bool):
        return 'true' if node.value else 'false'
    raise TranslateError(f"{what}: not a boolean literal: {src(node)}")


def _header_value(fn, key):
    """the value part of  hdulist[1].header[key] = (value, comment)"""
    tgt = f"hdulist[1].header['{key}']"
    a = [n for n in ast.walk(fn) if isinstance(n, ast.Assign) and len(n.targets) == 1 and src(n.targets[0]) == tgt]
    if len(a) != 1 or a[0] not in fn.body:
        raise TranslateError(f"write_fits: expected exactly one unconditional assignment to {tgt}")
    v = a[0].value
    if not (isinstance(v, ast.Tuple) and len(v.elts) == 2):
        raise TranslateError(f"write_fits: {tgt} is not a (value, comment) pair")
    return v.elts[0], fn.body.index(a[0])


FITS_INT_FORMATS = {'K': 64, 'J': 32, 'I': 16, 'B': 8}


@point('RegionExport')
def gen_region_export(repo):
    tree = parse_file(_p(repo, 'regions.py'))
    R = lambda name: find_func(tree, name, cls='Region')  # noqa: E731
    tr = Tr('Z', {'self.maxdepth': 'maxdepth', 'd': 'd', 'p': 'p'})

    # ------------------------------------------------------------------ write_reg
    wr = R('write_reg')
    body = strip_doc(wr.body)
    body = [s for s in body if not (isinstance(s, ast.Return) and s.value is None)]
    if not (len(body) == 1 and isinstance(body[0], ast.With) and len(body[0].items) == 1
            and src(body[0].items[0].context_expr) == "open(filename, 'w')"
            and src(body[0].items[0].optional_vars) == 'out'):
        raise TranslateError("write_reg: expected a single `with open(filename, 'w') as out:` block")
    wbody = body[0].body
    if not (len(wbody) == 1 and isinstance(wbody[0], ast.For) and src(wbody[0].target) == 'd'):
        raise TranslateError("write_reg: expected one loop over levels d inside the with block")
    lvl = wbody[0]
    ra = _range_args(lvl.iter)
    if len(ra) != 2:
        raise TranslateError("write_reg: level loop is not range(a, b)")
    reg_lo, reg_hi = tr.expr(ra[0]), tr.expr(ra[1])
    if not (len(lvl.body) == 1 and isinstance(lvl.body[0], ast.For) and src(lvl.body[0].target) == 'p'
            and src(lvl.body[0].iter) == 'self.pixeldict[d]' and not lvl.orelse and not lvl.body[0].orelse):
        raise TranslateError("write_reg: expected `for p in self.pixeldict[d]` as the only statement of the level loop")
    pix = lvl.body[0]
    # statements of the per-pixel body: line = ..; vectors = ..; positions = []; for sky in ..; line += ..; line += ..; print
    pb = pix.body
    kinds = [type(s).__name__ for s in pb]
    if kinds != ['Assign', 'Assign', 'Assign', 'For', 'AugAssign', 'AugAssign', 'Expr']:
        raise TranslateError(f"write_reg: unexpected per-pixel statements {kinds}")
    if src(pb[0]) != "line = 'fk5; polygon('":
        raise TranslateError("write_reg: line does not start with `fk5; polygon(`")
    if src(pb[2]) != 'positions = []':
        raise TranslateError("write_reg: positions is not reset for every pixel")
    # vectors = list(zip(*hp.boundaries(2**d, int(p), step=1, nest=True)))
    if src(pb[1].targets[0]) != 'vectors':
        raise TranslateError("write_reg: expected an assignment to vectors")
    bnd = _calls(pb[1], 'hp.boundaries')
    if len(bnd) != 1 or len(bnd[0].args) != 2 or len(bnd[0].keywords) != 2:
        raise TranslateError("write_reg: expected hp.boundaries(nside, pix, step=, nest=)")
    if src(pb[1].value) != f"list(zip(*{src(bnd[0])}))":
        raise TranslateError("write_reg: vectors is not list(zip(*hp.boundaries(..)))")
    reg_nside = tr.expr(bnd[0].args[0])
    reg_pixel = tr.expr(bnd[0].args[1])
    reg_step = tr.expr(_kw(bnd[0], 'step'))
    reg_nest = _bool_const(_kw(bnd[0], 'nest'), 'hp.boundaries nest')
    # for sky in self.vec2sky(np.array(vectors), degrees=True): ra, dec = sky; pos = SkyCoord(ra/15, dec, unit=(deg, deg));
    #   positions.append(pos.ra.to_string(sep=':', precision=2)); positions.append(pos.dec.to_string(sep=':', precision=2))
    vl = pb[3]
    if src(vl.iter) != 'self.vec2sky(np.array(vectors), degrees=True)' or src(vl.target) != 'sky':
        raise TranslateError("write_reg: vertex loop is not over self.vec2sky(np.array(vectors), degrees=True)")
    vb = vl.body
    if len(vb) != 4 or src(vb[0]) != 'ra, dec = sky':
        raise TranslateError("write_reg: vertex loop body")
    sc = _calls(vb[1], 'SkyCoord')
    if not (len(sc) == 1 and src(vb[1].targets[0]) == 'pos' and len(sc[0].args) == 2
            and src(_kw(sc[0], 'unit')) == '(u.degree, u.degree)' and src(sc[0].args[1]) == 'dec'):
        raise TranslateError("write_reg: pos = SkyCoord(<ra>, dec, unit=(u.degree, u.degree))")
    a0 = sc[0].args[0]
    if not (isinstance(a0, ast.BinOp) and isinstance(a0.op, ast.Div) and src(a0.left) == 'ra'
            and isinstance(a0.right, ast.Constant) and isinstance(a0.right.value, int)):
        raise TranslateError("write_reg: first SkyCoord argument is not ra/<int>")
    reg_ra_div = a0.right.value
    prec = []
    for st, attr in ((vb[2], 'ra'), (vb[3], 'dec')):
        c = _calls(st, 'positions.append')
        if not (isinstance(st, ast.Expr) and len(c) == 1 and st.value is c[0] and len(c[0].args) == 1):
            raise TranslateError("write_reg: positions.append(..)")
        ts = c[0].args[0]
        if not (isinstance(ts, ast.Call) and src(ts.func) == f'pos.{attr}.to_string' and not ts.args
                and src(_kw(ts, 'sep')) == "':'"):
            raise TranslateError(f"write_reg: expected pos.{attr}.to_string(sep=':', precision=..)")
        pr = _kw(ts, 'precision')
        if not (isinstance(pr, ast.Constant) and isinstance(pr.value, int)):
            raise TranslateError("write_reg: precision is not an integer literal")
        prec.append(pr.value)
    if prec[0] != prec[1]:
        raise TranslateError("write_reg: ra and dec are printed with different precision")
    if src(pb[4]) != "line += ','.join(positions)" or src(pb[5]) != "line += ')'":
        raise TranslateError("write_reg: line is not `fk5; polygon(` + ','.join(positions) + `)`")
    if src(pb[6]) != 'print(line, file=out)':
        raise TranslateError("write_reg: expected print(line, file=out) as the last statement of the per-pixel body")

    # ------------------------------------------------------------------ _uniq skeleton
    uq = R('_uniq')
    ub = strip_doc(uq.body)
    if not (len(ub) == 3 and src(ub[0]) == 'pd = []' and isinstance(ub[1], ast.For) and isinstance(ub[2], ast.Return)):
        raise TranslateError("_uniq: expected `pd = []; for ..; return ..`")
    fb = ub[1].body
    if not (len(fb) == 1 and isinstance(fb[0], ast.Expr) and isinstance(fb[0].value, ast.Call)
            and src(fb[0].value.func) == 'pd.extend' and len(fb[0].value.args) == 1
            and isinstance(fb[0].value.args[0], ast.Call) and src(fb[0].value.args[0].func) == 'map'
            and not ub[1].orelse):
        raise TranslateError("_uniq: loop body is not pd.extend(map(..))")
    rsrc = src(ub[2].value)
    if rsrc not in ('sorted(pd)', 'pd', 'list(pd)', 'sorted(set(pd))'):
        raise TranslateError(f"_uniq: returns {rsrc}, not the accumulated list")
    uniq_sorted = 'true' if rsrc.startswith('sorted') else 'false'

    # ------------------------------------------------------------------ write_fits
    wf = R('write_fits')
    wf.body = strip_doc(wf.body)
    col = [n for n in ast.walk(wf) if isinstance(n, ast.Call) and src(n.func) == 'fits.Column']
    if len(col) != 1 or col[0].args:
        raise TranslateError("write_fits: expected one fits.Column(name=, array=, format=)")
    if src(_kw(col[0], 'array')) != 'self._uniq()':
        raise TranslateError("write_fits: the column array is not self._uniq()")
    fmt = _kw(col[0], 'format')
    if not (isinstance(fmt, ast.Constant) and isinstance(fmt.value, str)):
        raise TranslateError("write_fits: column format is not a string literal")
    f = fmt.value.strip()
    if f.startswith('1'):
        f = f[1:]
    if f not in FITS_INT_FORMATS:
        raise TranslateError(f"write_fits: column format {fmt.value!r} is not a scalar integer format")
    fits_bits = FITS_INT_FORMATS[f]
    stm = [src(s) for s in wf.body]
    need = ['cols = ' + src(col[0]), 'tbhdu = fits.BinTableHDU.from_columns([cols])', 'hdulist[1] = tbhdu']
    try:
        i0 = stm.index(need[0])
    except ValueError:
        raise TranslateError("write_fits: cols = fits.Column(..) is not a top-level statement")
    if stm[i0:i0 + 3] != need:
        raise TranslateError("write_fits: expected cols; tbhdu = BinTableHDU.from_columns([cols]); hdulist[1] = tbhdu")
    vals = {}
    for key in ('PIXTYPE', 'ORDERING', 'COORDSYS', 'MOCORDER'):
        v, idx = _header_value(wf, key)
        if idx <= i0 + 2:
            raise TranslateError(f"write_fits: {key} is set before the table HDU is installed")
        vals[key] = v
    for key in ('PIXTYPE', 'ORDERING', 'COORDSYS'):
        if not (isinstance(vals[key], ast.Constant) and isinstance(vals[key].value, str)):
            raise TranslateError(f"write_fits: {key} is not a string literal")
    ordering_nuniq = 'true' if vals['ORDERING'].value.strip() == 'NUNIQ' else 'false'
    pixtype_healpix = 'true' if vals['PIXTYPE'].value.strip() == 'HEALPIX' else 'false'
    coordsys_c = 'true' if vals['COORDSYS'].value.strip() == 'C' else 'false'
    if stm[-2:] != ['hdulist.writeto(filename, overwrite=True)', 'return'] and \
            stm[-1] != 'hdulist.writeto(filename, overwrite=True)':
        raise TranslateError("write_fits: does not end with hdulist.writeto(filename, overwrite=True)")

    # ------------------------------------------------------------------ save / load
    sv = R('save')
    sb = [s for s in strip_doc(sv.body) if not (isinstance(s, ast.Return) and s.value is None)]
    if not (len(sb) == 1 and isinstance(sb[0], ast.Expr) and isinstance(sb[0].value, ast.Call)
            and src(sb[0].value.func) in ('cPickle.dump', 'pickle.dump') and len(sb[0].value.args) == 2
            and src(sb[0].value.args[1]) == "open(mimfile, 'wb')"):
        raise TranslateError("save: expected cPickle.dump(<obj>, open(mimfile, 'wb'), ..)")
    saved = src(sb[0].value.args[0])
    if saved != 'self':
        raise TranslateError(f"save: pickles {saved}, not self")
    ld = R('load')
    lb = strip_doc(ld.body)
    if not (len(lb) == 2 and src(lb[0]) in ("reg = cPickle.load(open(mimfile, 'rb'))", "reg = pickle.load(open(mimfile, 'rb'))")
            and src(lb[1]) == 'return reg'):
        raise TranslateError("load: expected reg = cPickle.load(open(mimfile, 'rb')); return reg")
    if [src(d) for d in ld.decorator_list] != ['classmethod']:
        raise TranslateError("load: not a classmethod")

    # ------------------------------------------------------------------ MIMAS.mim2reg / mim2fits
    mt = parse_file(_p(repo, 'MIMAS.py'))
    for name, meth, arg in (('mim2reg', 'write_reg', 'regfile'), ('mim2fits', 'write_fits', 'fitsfile')):
        fn = find_func(mt, name)
        fb = [s for s in strip_doc(fn.body) if not (isinstance(s, ast.Return) and s.value is None)]
        fb = [s for s in fb if not (isinstance(s, ast.Expr) and isinstance(s.value, ast.Call)
                                    and src(s.value.func).startswith('logging.'))]
        if not (len(fb) == 2 and src(fb[0]) == 'region = Region.load(mimfile)' and isinstance(fb[1], ast.Expr)
                and isinstance(fb[1].value, ast.Call) and src(fb[1].value.func) == f'region.{meth}'
                and len(fb[1].value.args) == 1 and src(fb[1].value.args[0]) == arg):
            raise TranslateError(f"MIMAS.{name}: expected region = Region.load(mimfile); region.{meth}({arg}, ..)")
    imp = [n for n in ast.walk(mt) if isinstance(n, ast.ImportFrom) and any(a.name == 'Region' and a.asname is None
                                                                           for a in n.names)]
    if len(imp) != 1 or imp[0].module not in ('regions', 'AegeanTools.regions'):
        raise TranslateError("MIMAS: Region is not imported from .regions exactly once")

    return HEADER_Z + f"""Import ListNotations.

(* regions.Region.write_reg: one printed polygon per (level d, stored pixel p) *)
Definition reg_lo : Z := {reg_lo}.
Definition reg_hi (maxdepth : Z) : Z := {reg_hi}.
Definition reg_nside (d : Z) : Z := {reg_nside}.
Definition reg_pixel (p : Z) : Z := {reg_pixel}.
Definition reg_step : Z := {reg_step}.
Definition reg_nest : bool := {reg_nest}.
Definition reg_ra_divisor : Z := {reg_ra_div}.
Definition reg_precision : Z := {prec[0]}.
(* regions.Region._uniq returns the accumulated list (sorted or not) *)
Definition uniq_returns_sorted : bool := {uniq_sorted}.
(* regions.Region.write_fits: column NPIX = self._uniq() *)
Definition fits_column_bits : Z := {fits_bits}.
Definition fits_ordering_nuniq : bool := {ordering_nuniq}.
Definition fits_pixtype_healpix : bool := {pixtype_healpix}.
Definition fits_coordsys_icrs : bool := {coordsys_c}.
"""
