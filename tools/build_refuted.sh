#!/bin/bash
# Harness-independent build of the regression records in coq/Refuted/.
#   tools/build_refuted.sh                 all coq/Refuted/*.v
#   tools/build_refuted.sh C08_*.v ...     only the named files (names relative to coq/Refuted/)
# For every file: (1) build what it imports (coqdep -> make, only files outside Refuted/), (2) compile it with coqc
# under `timeout`, (3) print `Print Assumptions` for every theorem whose name contains `_refuted`, from a fresh
# one-line client file (so the answer does not depend on what the record itself prints), and classify the answer:
#   CLOSED      closed under the global context
#   REALS       only the four standard-library axioms behind Coq's real numbers
#   PRIMITIVES  only kernel primitives of Uint63 / PrimFloat (types and operations, no logical axiom)
#   OTHER       anything else -> exit status 1
# Also refuses records that mention Gen/ (Refuted files carry frozen leaves; Gen follows the tree) - the older
# records that predate this rule and still import Gen/Model/Proofs are listed as `imports-tree`, not failed.
# Exit status: 0 = every record compiled and no OTHER assumption; 1 otherwise.
set -u
HERE="$(cd "$(dirname "$0")" && pwd)"
COQ="$HERE/../coq"
cd "$COQ" || exit 1
T="${REFUTED_TIMEOUT:-600}"
JOBS="${REFUTED_JOBS:-8}"

if [ $# -gt 0 ]; then
  FILES=(); for f in "$@"; do FILES+=("Refuted/$(basename "$f")"); done
else
  FILES=(Refuted/*.v)
fi

[ -f Makefile ] || coq_makefile -f _CoqProject -o Makefile > /dev/null || exit 1

# (1) dependencies outside Refuted/
DEPS=$(coqdep -Q . Aegean "${FILES[@]}" 2>/dev/null | grep '\.vo .*:' | sed 's/^[^:]*://' | tr ' ' '\n' \
       | grep '\.vo$' | grep -v '^Refuted/' | sort -u | tr '\n' ' ')
if [ -n "$DEPS" ]; then
  echo "== dependencies: $DEPS"
  # shellcheck disable=SC2086
  if ! timeout 3400 make -j"$JOBS" $DEPS > /tmp/build_refuted_make.$$.log 2>&1; then
    tail -20 /tmp/build_refuted_make.$$.log; echo "FAILED: dependencies"; rm -f /tmp/build_refuted_make.$$.log; exit 1
  fi
  rm -f /tmp/build_refuted_make.$$.log
fi

TMP=$(mktemp -d /tmp/build_refuted.XXXXXX)
trap 'rm -rf "$TMP"' EXIT
REALS='ClassicalDedekindReals.sig_forall_dec|ClassicalDedekindReals.sig_not_dec|FunctionalExtensionality.functional_extensionality_dep|Classical_Prop.classic'
PRIMS='^(PrimFloat\.|Uint63\.|PrimInt63\.|FloatAxioms\.|FloatOps\.|Uint63Axioms\.)(int|float|of_uint63|normfr_mantissa|frshiftexp|ldshiftexp|mul|div|add|sub|sqrt|abs|opp|ltb|leb|eqb|compare|classify|lsl|lsr|land|lor|lxor|addc|subc|mulc|diveucl|mod|head0|tail0|next_up|next_down|of_Z|to_Z)$'
status=0
summary=()

for f in "${FILES[@]}"; do
  mod=$(basename "$f" .v)
  echo "== $f"
  if grep -q -E '^\s*From Aegean Require Import.*\b(Gen|Model|Proofs|Props)\.' "$f"; then tree="imports-tree"; else tree="self-contained"; fi
  t0=$(date +%s.%N)
  if ! timeout "$T" coqc -Q . Aegean "$f" > "$TMP/$mod.out" 2>&1; then
    tail -15 "$TMP/$mod.out"; echo "FAILED: $f"; status=1; summary+=("$mod FAILED"); continue
  fi
  t1=$(date +%s.%N)
  secs=$(printf '%.1f' "$(echo "$t1 - $t0" | bc)")
  names=$(grep -oE '^\s*(Theorem|Lemma|Corollary|Fact|Proposition|Example)\s+[A-Za-z0-9_]*_refuted[A-Za-z0-9_]*' "$f" | awk '{print $2}')
  if [ -z "$names" ]; then echo "   (no *_refuted* theorem)"; summary+=("$mod ${secs}s $tree no-refuted-theorem"); continue; fi
  for n in $names; do
    printf 'From Aegean Require Import Refuted.%s.\nPrint Assumptions %s.\n' "$mod" "$n" > "$TMP/pa_$mod.v"
    if ! timeout "$T" coqc -Q . Aegean "$TMP/pa_$mod.v" > "$TMP/pa.out" 2>&1; then
      cat "$TMP/pa.out"; echo "FAILED: Print Assumptions $n"; status=1; summary+=("$mod.$n FAILED"); continue
    fi
    echo "-- Print Assumptions $n"
    sed 's/^/   /' "$TMP/pa.out"
    if grep -q 'Closed under the global context' "$TMP/pa.out"; then class=CLOSED
    else
      # assumption names = lines of the form `name : type` that start in column 0
      ax=$(grep -E '^[A-Za-z_][A-Za-z0-9_.'"'"']* *(:|$)' "$TMP/pa.out" | grep -v '^Axioms' | sed -E 's/ *:.*$//' | sort -u)
      other=$(echo "$ax" | grep -v -E "^($REALS)$" | grep -v -E "$PRIMS" || true)
      if [ -n "$other" ]; then class="OTHER($(echo $other | tr '\n' ' '))"; status=1
      elif echo "$ax" | grep -q -E "^($REALS)$"; then
        if echo "$ax" | grep -v -E "^($REALS)$" | grep -q .; then class=REALS+PRIMITIVES; else class=REALS; fi
      else class=PRIMITIVES; fi
    fi
    summary+=("$mod.$n ${secs}s $tree $class")
  done
done

echo
echo "== summary (record.theorem, compile time of the record, kind, assumptions)"
for s in "${summary[@]}"; do echo "   $s"; done
[ $status -eq 0 ] && echo "OK: all records compiled; no assumption outside the standard Reals axioms / kernel primitives" \
                  || echo "FAILED: see above"
exit $status
